/-
  C20 — Floating-IP configuration and IP ranges decode, validate and round-trip.

  "Every floatingip configuration that is accepted has ranges that lie inside the pool's subnet, are sorted,
   disjoint and not mergeable, and a total size equal to the number of distinct IPs it contains; enumerating,
   membership and size agree with one another for every pool; and encoding an accepted pool or IP range and
   decoding it again yields the same pool or range.  Anything else is rejected with an error and changes nothing."

  Only property theorems, `fact_…` pins of regenerated source facts, `…_counter` theorems for the fixed defects
  D1 / D8 and the size wrap of 0.0.0.0/0, and non-vacuity `example`s.  Helper lemmas: Galaxy/Lemmas/Nets*.lean.
  Integer code (`rangeSize`, `rangeContains`, `sparseSizeStep`, `parseRangeReject`, `fipAdjReject`, `walk…`,
  `poolLess`, `minus`, `ipRangeSepChar`, `vlanBits`) is `Galaxy.Generated.Nets`, regenerated from /repo.
-/
import Galaxy.Lemmas.NetsPool
import Galaxy.Lemmas.RangeEdit

namespace Galaxy.Props.C20
open Galaxy.Nets Galaxy.Pool Galaxy.Generated.Nets Galaxy.RangeEdit

/-! ## Accepted configurations are well formed -/

/-- "Every floatingip configuration that is accepted has ranges that lie inside the pool's subnet, are sorted,
    disjoint and not mergeable": for EVERY raw pool, if the decoder accepts it then every range has
    `first ≤ last`, every address of every range lies in the pool's subnet, and any later range starts more than
    one address after any earlier range ends — as natural numbers, no wrap-around. -/
theorem accepted_wf (raw : RawPool) (p : Pool) (h : decodePool raw = .ok p) :
    (∀ r ∈ p.ranges, r.first.toNat ≤ r.last.toNat) ∧
    (∀ r ∈ p.ranges, ∀ ip, r.contains ip = true → p.inSubnet ip = true) ∧
    p.ranges.Pairwise (fun a b => a.last.toNat + 1 < b.first.toNat) := by
  have hv := decodePool_valid raw p h
  exact ⟨hv.ranges_wf, fun r hr ip hip => hv.range_in_subnet r hr ip hip, hv.separated⟩

/-- The same for a whole configuration document (`[]*FloatingIPPool` + the null check of `ensureIPAMConf`):
    every pool of an accepted configuration is well formed. -/
theorem accepted_conf_wf (conf : RawConf) (ps : List Pool) (h : decodeConf conf = .ok ps) : ∀ p ∈ ps, p.Valid :=
  decodeConf_valid conf ps h

/-! ## Size, enumeration, membership -/

/-- "…and a total size equal to the number of distinct IPs it contains" (pod subnets other than 0.0.0.0/0):
    `poolSize` is `SparseSubnet.Size` exactly as the code computes it — `uint32` accumulation of
    `last - first + 1`, both with wrap-around — and for an accepted pool whose subnet is not 0.0.0.0/0 it equals
    the number of enumerated addresses, which are pairwise distinct (even strictly increasing). -/
theorem size_eq_card (raw : RawPool) (p : Pool) (h : decodePool raw = .ok p) (hsub : p.prefixLen ≠ 0) :
    (poolSize p).toNat = (enumerate p.ranges).length ∧ (enumerate p.ranges).Nodup ∧
    (enumerate p.ranges).Pairwise (fun a b => a.toNat < b.toNat) := by
  have hv := decodePool_valid raw p h
  refine ⟨?_, enumerate_nodup _ hv.separated, enumerate_sorted _ hv.separated⟩
  unfold poolSize
  rw [sparseSize_toNat _ hv.ranges_wf]
  exact Nat.mod_eq_of_lt (hv.card_lt hsub)

/-- Without the hypothesis the 32-bit counter wraps: for ANY list of well-ordered ranges the computed size is the
    cardinality modulo 2^32 … -/
theorem size_eq_card_mod (rs : List Range) (h : ∀ r ∈ rs, r.first.toNat ≤ r.last.toNat) :
    (sparseSize rs).toNat = (enumerate rs).length % 2 ^ 32 :=
  sparseSize_toNat rs h

/-- … and the hypothesis `subnet ≠ 0.0.0.0/0` of `size_eq_card` is necessary: the pool
    `0.0.0.0~255.255.255.255` in subnet `0.0.0.0/0` is accepted, has 2^32 addresses and size 0. -/
theorem size_wraps_counter :
    ∃ raw p, decodePool raw = .ok p ∧ p.prefixLen = 0 ∧ (poolSize p).toNat = 0 ∧
      (enumerate p.ranges).length = 2 ^ 32 := by
  refine ⟨{ nodeSubnets := .val [some "\"10.0.0.0/8\"".toList], routableSubnet := none,
            ips := .val [.val "0.0.0.0~255.255.255.255".toList], subnet := some "\"0.0.0.0/0\"".toList,
            gateway := .val "0.0.0.1".toList, vlan := .absent },
          { nodeSubnets := [(0x0A000000#32, 8)], gateway := 1#32, prefixLen := 0, vlan := 0,
            ranges := [⟨0#32, 0xFFFFFFFF#32⟩] }, by decide, rfl, by decide, ?_⟩
  rw [length_enumerate]
  decide

/-- "enumerating, membership and size agree with one another for every pool" (membership ↔ enumeration):
    for EVERY pool (accepted or not) `FloatingIPPool.Contains` holds exactly for the enumerated addresses. -/
theorem contains_iff_enumerate (p : Pool) (ip : IPv4) : poolContains p ip = true ↔ ip ∈ enumerate p.ranges :=
  rangesContain_iff_mem p.ranges ip

/-- One range: `IPRange.Contains` ↔ `first ≤ ip ≤ last` as numbers, and `IPRange.Size` is the number of such
    addresses modulo 2^32. -/
theorem range_contains_size (r : Range) (ip : IPv4) (h : r.first.toNat ≤ r.last.toNat) :
    (r.contains ip = true ↔ r.first.toNat ≤ ip.toNat ∧ ip.toNat ≤ r.last.toNat) ∧
    r.size.toNat = r.enumerate.length % 2 ^ 32 := by
  refine ⟨r.contains_iff ip, ?_⟩
  rw [r.size_toNat h, r.length_enumerate]

/-! ## The walk of `walkIPRanges` -/

/-- "enumerating …": the loop of `walkIPRanges` (counter type, condition, increment regenerated from the source),
    run with any callback `stop`, terminates — every iteration bound `fuel ≥ walkBound rs` suffices — and hands to
    the callback exactly `first, first+1, …, last` of each range in order, up to and including the first address
    at which the callback returns true.  This holds for EVERY list of ranges, including ranges ending at
    255.255.255.255 and ranges with `first > last` (which are skipped). -/
theorem walk_visits_exactly (rs : List Range) (stop : IPv4 → Bool) (fuel : Nat) (hf : walkBound rs ≤ fuel) :
    walkFuel fuel stop rs = some (visited stop (enumerate rs)) :=
  walkFuel_spec stop rs fuel hf

/-- With a callback that never stops the walk visits exactly the enumeration (what `ConfigurePool` relies on). -/
theorem walk_all (rs : List Range) : walk (fun _ => false) rs = some (enumerate rs) := by
  unfold walk
  rw [walkFuel_spec _ rs _ (Nat.le_refl _), visited_of_not_any]
  simp

/-- Fixed defect D1 (commit "fix: walkIPRanges never terminated …"): the pre-fix loop with a `uint32` counter
    does not terminate within ANY number of iterations on a range ending at 255.255.255.255 when the callback
    never stops. -/
theorem walk32_diverges_counter (fuel : Nat) (first : IPv4) (rest : List Range) :
    walkFuel32 fuel (fun _ => false) (⟨first, 0xFFFFFFFF#32⟩ :: rest) = none := by
  simp [walkFuel32, walkWith, loop32_diverges]

/-! ## Round trips -/

/-- "encoding … and decoding it again yields the same …": dotted-quad text, for every address. -/
theorem roundtrip_ip (a : IPv4) : parseIPv4 (showIPv4 a) = some a := parseIPv4_showIPv4 a

/-- "encoding an accepted … IP range and decoding it again yields the same … range": for EVERY range with
    `first ≤ last`, including single-address ranges (printed without separator) and the boundary addresses
    0.0.0.0 and 255.255.255.255. -/
theorem roundtrip_range (r : Range) (h : r.first.toNat ≤ r.last.toNat) : parseRange (showRange r) = some r :=
  parseRange_showRange r h

/-- Conversely whatever `ParseIPRange` accepts has `first ≤ last`. -/
theorem parsed_range_ordered (s : List Char) (r : Range) (h : parseRange s = some r) : r.first.toNat ≤ r.last.toNat :=
  parseRange_wf s r h

/-- CIDR text (`nets.IPNet` marshal / unmarshal, address not masked), for every address and prefix length ≤ 32,
    through the raw JSON token as `nets.IPNet.UnmarshalJSON` sees it. -/
theorem roundtrip_cidr (c : Cidr) (h : c.2 ≤ 32) :
    parseCidr (showCidr c) = some c ∧ parseCidrToken (cidrToken c) = some c :=
  ⟨parseCidr_showCidr c h, parseCidrToken_cidrToken c h⟩

/-- "encoding an accepted pool … and decoding it again yields the same pool": for every raw pool the decoder
    accepts, `decode (encode p) = p`. -/
theorem roundtrip_pool (raw : RawPool) (p : Pool) (h : decodePool raw = .ok p) : decodePool (encodePool p) = .ok p :=
  decodePool_encodePool p (decodePool_valid raw p h)

/-! ## Rejection changes nothing -/

/-- "Anything else is rejected with an error and changes nothing": the decoder is a pure function which returns
    an error VALUE; the reload (`ensureIPAMConf`, for any text type and any decoder, in particular `decodeConf`)
    leaves `lastConf` and the pools of the IPAM exactly as they were when the new text fails to decode. -/
theorem reject_changes_nothing {τ : Type} [DecidableEq τ] (decode : τ → Except Err (List Pool)) (s : Reloader τ)
    (newConf : τ) (e : Err) (h : decode newConf = .error e) : (ensureConf decode s newConf).1 = s := by
  unfold ensureConf
  split
  · rfl
  · simp [h]

/-- … instantiated with the configuration decoder: a rejected document is reported as rejected (or as unchanged,
    if it is the text already in force) and never as configured. -/
theorem reject_reported (s : Reloader RawConf) (newConf : RawConf) (e : Err) (h : decodeConf newConf = .error e) :
    (ensureConf decodeConf s newConf).2 ≠ .configured := by
  unfold ensureConf
  split
  · simp
  · simp [h]

/-- An accepted, new document replaces the pools by the decoded ones in `FloatingIPSlice` order. -/
theorem accept_configures (s : Reloader RawConf) (newConf : RawConf) (ps : List Pool) (hne : newConf ≠ s.lastConf)
    (h : decodeConf newConf = .ok ps) :
    ensureConf decodeConf s newConf = ({ lastConf := newConf, pools := sortPools ps }, .configured) := by
  simp [ensureConf, hne, h]

/-- What `ConfigurePool` serves after an accepted reload: the same pools (a permutation of the decoded list), in
    non-decreasing order of their gateways (`sort.Sort(FloatingIPSlice)`). -/
theorem pools_sorted_by_gateway (ps : List Pool) :
    (sortPools ps).Perm ps ∧ (sortPools ps).Pairwise (fun a b => a.gateway.toNat ≤ b.gateway.toNat) :=
  ⟨sortPools_perm ps, sortPools_sorted ps⟩

/-! ## `fipCheck` compares without wrap-around (fixed defect D8) -/

/-- The adjacency comparison of `fipCheck` as it is in the source now rejects exactly when
    `first ≤ previousLast + 1` over the natural numbers — also for `previousLast = 255.255.255.255`. -/
theorem fipcheck_nowrap (first prevLast : IPv4) :
    fipAdjReject first prevLast = true ↔ first.toNat ≤ prevLast.toNat + 1 :=
  fipAdjReject_iff first prevLast

/-- Fixed defect D8 (commit "fix: floatingip config accepted unsorted ranges after 255.255.255.255 …"): the OLD
    comparison, `first <= previousLast+1` evaluated in `uint32`, does not reject the out-of-order range
    `255.255.255.2` after a range ending at `255.255.255.255` … -/
theorem fipcheck_wrap_counter :
    fipAdjReject32 0xFFFFFF02#32 0xFFFFFFFF#32 = false ∧ (0xFFFFFF02#32).toNat ≤ (0xFFFFFFFF#32).toNat + 1 := by
  decide

/-- … so that with the old comparison the decoder accepted a pool whose ranges are not sorted
    (`["255.255.255.250~255.255.255.255", "255.255.255.2"]` in 255.255.255.0/24): `accepted_wf` fails for it. -/
theorem accepted_wf_old_counter :
    ∃ raw p, decodePoolWith fipAdjReject32 raw = .ok p ∧
      ¬ p.ranges.Pairwise (fun a b => a.last.toNat + 1 < b.first.toNat) := by
  refine ⟨{ nodeSubnets := .val [some "\"10.0.0.0/8\"".toList], routableSubnet := none,
            ips := .val [.val "255.255.255.250~255.255.255.255".toList, .val "255.255.255.2".toList],
            subnet := some "\"255.255.255.0/24\"".toList, gateway := .val "255.255.255.1".toList, vlan := .absent },
          { nodeSubnets := [(0x0A000000#32, 8)], gateway := 0xFFFFFF01#32, prefixLen := 24, vlan := 0,
            ranges := [⟨0xFFFFFFFA#32, 0xFFFFFFFF#32⟩, ⟨0xFFFFFF02#32, 0xFFFFFF02#32⟩] }, by decide, ?_⟩
  decide

/-- The current decoder rejects that very document. -/
theorem d8_document_rejected :
    decodePool { nodeSubnets := .val [some "\"10.0.0.0/8\"".toList], routableSubnet := none,
                 ips := .val [.val "255.255.255.250~255.255.255.255".toList, .val "255.255.255.2".toList],
                 subnet := some "\"255.255.255.0/24\"".toList, gateway := .val "255.255.255.1".toList,
                 vlan := .absent } = .error .adjacency := by
  decide

/-! ## Pins of the regenerated source facts (operator, operand order, width, constants) -/

/-- `IPRange.Size` is `last - first + 1` in `uint32`. -/
theorem fact_rangeSize (first last : BitVec 32) : rangeSize first last = last - first + 1#32 := rfl

/-- `IPRange.Contains` is `ip >= first && ip <= last` (both ends included). -/
theorem fact_rangeContains (first last ip : BitVec 32) :
    rangeContains first last ip = (decide (ip ≥ first) && decide (ip ≤ last)) := rfl

/-- `SparseSubnet.Size` starts at 0 and adds the range sizes in `uint32`. -/
theorem fact_sparseSize (size rsize : BitVec 32) : sparseSizeInit = 0#32 ∧ sparseSizeStep size rsize = size + rsize :=
  ⟨rfl, rfl⟩

/-- `ParseIPRange` rejects exactly `first > last`. -/
theorem fact_parseRangeReject (first last : BitVec 32) :
    parseRangeReject first last = true ↔ last.toNat < first.toNat := parseRangeReject_iff first last

/-- the range separator is `~` -/
theorem fact_separator : ipRangeSeparator = "~" ∧ ipRangeSepChar = '~' := by decide

/-- `walkIPRanges` iterates with a 64-bit counter: zero-extended ends, `<=`, `++`, truncation back to 32 bits. -/
theorem fact_walk_loop (x : BitVec 32) (i last : WalkCtr) :
    walkCtrBits = 64 ∧ walkInit x = x.setWidth 64 ∧ walkCond i last = decide (i ≤ last) ∧
    walkStep i = i + 1#64 ∧ walkIP i = i.setWidth 32 := ⟨rfl, rfl, rfl, rfl, rfl⟩

/-- Source shapes the model mirrors and which are not arithmetic.  factgen normalises each function (alpha-renaming,
    guard clause ≡ if/else, dropped `else` after a return, `return c` ≡ `if !c {return false}; return true`, switch ≡
    if-chain, range-by-index ≡ range-by-value, inlined single-assignment locals, log statements and error texts
    ignored, Sprintf ≡ concatenation) and compares it with the normal form of the function the model was written
    against; a pin is `false` when a guard was dropped / moved, a call or operand changed, an error became nil, ….
    Pinned: `IPRange.Size`'s nil guard; `ParseIPRange` (split on the FIRST separator, `net.ParseIP` of both halves,
    order check, else a single address); `IPRange.String` (a single address printed alone); `IPToInt` / `IntToIP`
    (big endian 32 bits); `fipCheck` (IPv4 only; BOTH ends of every range inside the subnet {Gateway, Mask}; adjacency
    for every range but the first); `UnmarshalJSON` (what `jsonConf` / `nodeSubnetsOf` / `buildPool` mirror, ending with
    `fipCheck`); `MarshalJSON` (`encodePool`); `ensureIPAMConf` (`ensureConf`: `*lastConf` is assigned only after the
    decode, the null-pool check and `ConfigurePool` succeeded). -/
theorem fact_pins : pins = [("rangeSizeGuard", true), ("parseIPRangeShape", true), ("rangeStringShape", true),
    ("ipToIntShape", true), ("intToIPShape", true), ("fipCheckShape", true), ("unmarshalJSONShape", true),
    ("marshalJSONShape", true), ("ensureIPAMConfShape", true)] := by decide

/-- `floatingip.Minus` is the exact integer difference of the two addresses (no wrap: computed in `int64`). -/
theorem fact_minus (a b : IPv4) : (minus a b).toInt = (a.toNat : Int) - (b.toNat : Int) := minus_toInt a b

/-- `FloatingIPSlice.Less` orders pools by gateway, strictly. -/
theorem fact_poolLess (a b : IPv4) : poolLess a b = true ↔ a.toNat < b.toNat := poolLess_iff a b

/-- `vlan` is a `uint16`. -/
theorem fact_vlanBits : vlanBits = 16 := rfl

/-- json keys, Go types and `omitempty` flags of `FloatingIPPoolConf` (what `RawPool` mirrors). -/
theorem fact_confFields : confFields =
    [("NodeSubnets", "[]*nets.IPNet", "nodeSubnets"), ("RoutableSubnet", "*nets.IPNet", "routableSubnet,omitempty"),
     ("IPs", "[]string", "ips"), ("Subnet", "*nets.IPNet", "subnet"), ("Gateway", "net.IP", "gateway"),
     ("Vlan", "uint16", "vlan,omitempty")] := by decide

/-! ## A reload whose store step fails is retried -/

/-- With a working store `ensureConfStore` is `ensureConf` (the theorems above apply unchanged). -/
theorem store_ok_is_ensureConf {τ : Type} [DecidableEq τ] (decode : τ → Except Err (List Pool)) (s : Reloader τ)
    (newConf : τ) : ensureConfStore decode s newConf true = ensureConf decode s newConf := by
  unfold ensureConfStore ensureConf
  split
  · rfl
  · split <;> rfl

/-- "Anything else is rejected with an error and changes nothing" also for the store step: a reload whose
    `ConfigurePool` fails leaves the remembered text AND the served pools exactly as they were — in particular
    `lastConf` is NOT advanced — … -/
theorem store_failure_changes_nothing {τ : Type} [DecidableEq τ] (decode : τ → Except Err (List Pool))
    (s : Reloader τ) (newConf : τ) : (ensureConfStore decode s newConf false).1 = s := by
  unfold ensureConfStore
  split
  · rfl
  · split <;> rfl

/-- … so the next poll of the SAME text, once the store works again, applies the configuration: after any number
    of failed attempts an accepted new text is configured, not skipped as "unchanged". -/
theorem store_failure_retried {τ : Type} [DecidableEq τ] (decode : τ → Except Err (List Pool)) (s : Reloader τ)
    (newConf : τ) (ps : List Pool) (hne : newConf ≠ s.lastConf) (hd : decode newConf = .ok ps) (n : Nat) :
    ensureConfStore decode (Nat.rec s (fun _ acc => (ensureConfStore decode acc newConf false).1) n) newConf true =
      ({ lastConf := newConf, pools := sortPools ps }, .configured) := by
  have hs : (Nat.rec s (fun _ acc => (ensureConfStore decode acc newConf false).1) n : Reloader τ) = s := by
    induction n with
    | zero => rfl
    | succ k ih => show (ensureConfStore decode _ newConf false).1 = s; rw [ih]; exact store_failure_changes_nothing decode s newConf
  rw [hs]
  simp [ensureConfStore, hne, hd]

/-! ## Editing an accepted pool: `InsertIP` / `RemoveIP` keep "sorted, disjoint, not mergeable" and change
      membership by exactly the one address (floatingip.go; the model `Galaxy.RangeEdit` is run against the real
      methods by the C20 correspondence, ops `insert` / `remove`) -/

/-- Every accepted pool's range list is canonical: non-inverted ranges, strictly increasing, and more than one
    address apart — the invariant the editing methods are entitled to assume. -/
theorem accepted_canon (raw : RawPool) (p : Pool) (h : decodePool raw = .ok p) : Canon p.ranges := by
  obtain ⟨hw, _, hs⟩ := accepted_wf raw p h
  have gen : ∀ (rs : List Range) (lb : Nat), (∀ r ∈ rs, lb ≤ r.first.toNat ∧ r.first.toNat ≤ r.last.toNat) →
      rs.Pairwise (fun a b => a.last.toNat + 1 < b.first.toNat) → CanonFrom lb rs := by
    intro rs
    induction rs with
    | nil => intro _ _ _; trivial
    | cons r t ih =>
      intro lb hw hs
      have hs' := List.pairwise_cons.1 hs
      exact ⟨(hw r (by simp)).1, (hw r (by simp)).2,
        ih _ (fun n hn => ⟨by have := hs'.1 n hn; omega, (hw n (by simp [hn])).2⟩) hs'.2⟩
  exact gen _ 0 (fun r hr => ⟨Nat.zero_le _, hw r hr⟩) hs

/-- `RemoveIP` on a canonical list: the result is canonical again and holds exactly the old addresses minus `ip`
    — for EVERY list, address and position (single-address range dropped, either end shrunk, range split). -/
theorem remove_exact (rs rs' : List Range) (ip : IPv4) (hc : Canon rs) (h : removeRanges ip rs = some rs') :
    Canon rs' ∧ ∀ x, rangesContain rs' x = true ↔ (rangesContain rs x = true ∧ x ≠ ip) :=
  ⟨removeRanges_canon ip rs rs' 0 hc h, removeRanges_mem ip rs rs' 0 hc h⟩

/-- `RemoveIP` answers `false` (and leaves the list alone) exactly for addresses the pool does not hold. -/
theorem remove_refuses_iff (rs : List Range) (ip : IPv4) : removeRanges ip rs = none ↔ rangesContain rs ip = false :=
  removeRanges_none_iff ip rs

/-- `InsertIP` on a canonical list: the result is canonical again (so neighbours that became adjacent were
    merged) and holds exactly the old addresses plus `ip`. -/
theorem insert_exact (rs rs' : List Range) (ip : IPv4) (hc : Canon rs) (h : insertRanges ip rs = some rs') :
    Canon rs' ∧ ∀ x, rangesContain rs' x = true ↔ (rangesContain rs x = true ∨ x = ip) :=
  ⟨insertRanges_canon ip rs rs' 0 hc (Nat.zero_le _) h, insertRanges_mem ip rs rs' 0 hc h⟩

/-- `InsertIP` answers `false` exactly for addresses the (canonical) pool already holds. -/
theorem insert_refuses_iff (rs : List Range) (ip : IPv4) (hc : Canon rs) :
    insertRanges ip rs = none ↔ rangesContain rs ip = true :=
  insertRanges_none_iff ip rs 0 hc

/-- The hypothesis `Canon` of `insert_refuses_iff` is necessary: on an unsorted list the loop inserts an address
    a later range already holds (here 0.0.0.3 into [5, 1–9]). -/
theorem insert_noncanon_counter :
    rangesContain [⟨5#32, 5#32⟩, ⟨1#32, 9#32⟩] 3#32 = true ∧
    insertRanges 3#32 [⟨5#32, 5#32⟩, ⟨1#32, 9#32⟩] = some [⟨3#32, 3#32⟩, ⟨5#32, 5#32⟩, ⟨1#32, 9#32⟩] := by decide

/-- Insert then remove (and remove then insert) give back a canonical list with exactly the original addresses. -/
theorem insert_remove_roundtrip (rs rs' rs'' : List Range) (ip : IPv4) (hc : Canon rs)
    (h1 : insertRanges ip rs = some rs') (h2 : removeRanges ip rs' = some rs'') :
    Canon rs'' ∧ ∀ x, rangesContain rs'' x = true ↔ rangesContain rs x = true := by
  obtain ⟨c1, m1⟩ := insert_exact rs rs' ip hc h1
  obtain ⟨c2, m2⟩ := remove_exact rs' rs'' ip c1 h2
  refine ⟨c2, fun x => ?_⟩
  have hno : rangesContain rs ip = true → False := fun hh => by
    have := (insert_refuses_iff rs ip hc).2 hh; rw [this] at h1; cases h1
  rw [m2, m1]
  constructor
  · rintro ⟨hx | hx, hne⟩
    · exact hx
    · exact absurd hx hne
  · intro hx
    exact ⟨Or.inl hx, fun e => hno (e ▸ hx)⟩

/-- Both methods refuse an address outside the pool's subnet and then leave the ranges untouched. -/
theorem edit_outside_subnet_refused (gw : IPv4) (pl : Nat) (ip : IPv4) (rs : List Range)
    (h : Galaxy.Pool.inSubnet gw pl ip = false) : insertIP gw pl ip rs = none ∧ removeIP gw pl ip rs = none := by
  simp [insertIP, removeIP, h]

/-! ## Non-vacuity: the hypotheses above are satisfiable by non-trivial inputs -/

/-- a canonical list on which insert merges two neighbours and remove splits a range -/
example : Canon [⟨1#32, 3#32⟩, ⟨5#32, 9#32⟩] ∧ insertRanges 4#32 [⟨1#32, 3#32⟩, ⟨5#32, 9#32⟩] = some [⟨1#32, 9#32⟩] ∧
    removeRanges 7#32 [⟨1#32, 9#32⟩] = some [⟨1#32, 6#32⟩, ⟨8#32, 9#32⟩] :=
  ⟨by simp [Canon, CanonFrom], by decide, by decide⟩

/-- an accepted raw pool (the documentation's example plus a single-address range), `prefixLen ≠ 0` -/
example : ∃ raw p, decodePool raw = .ok p ∧ p.prefixLen ≠ 0 ∧ p.ranges.length = 2 ∧ (poolSize p).toNat = 241 :=
  ⟨{ nodeSubnets := .val [some "\"10.0.0.0/16\"".toList], routableSubnet := none,
     ips := .val [.val "10.0.70.2~10.0.70.241".toList, .val "10.0.70.250".toList],
     subnet := some "\"10.0.70.0/24\"".toList, gateway := .val "10.0.70.1".toList, vlan := .absent },
   { nodeSubnets := [(0x0A000000#32, 16)], gateway := 0x0A004601#32, prefixLen := 24, vlan := 0,
     ranges := [⟨0x0A004602#32, 0x0A0046F1#32⟩, ⟨0x0A0046FA#32, 0x0A0046FA#32⟩] }, by decide, by decide, rfl, by decide⟩

/-- node subnets are masked and de-duplicated, the deprecated `routableSubnet` wins, `vlan` is kept -/
example : ∃ p, decodePool
    { nodeSubnets := .val [some "\"10.49.28.7/26\"".toList, some "\"10.49.28.0/26\"".toList, some "\"10.49.29.0/24\"".toList],
      routableSubnet := none, ips := .val [.val "10.0.80.2~10.0.80.4".toList], subnet := some "\"10.0.80.0/24\"".toList,
      gateway := .val "10.0.80.1".toList, vlan := .val 3 } = .ok p ∧
    p.nodeSubnets = [(0x0A311C00#32, 26), (0x0A311D00#32, 24)] ∧ p.vlan = 3 :=
  ⟨{ nodeSubnets := [(0x0A311C00#32, 26), (0x0A311D00#32, 24)], gateway := 0x0A005001#32, prefixLen := 24, vlan := 3,
     ranges := [⟨0x0A005002#32, 0x0A005004#32⟩] }, by decide, rfl, rfl⟩

/-- rejected inputs exist in every class (so `reject_changes_nothing` is not vacuous) -/
example : decodePool { nodeSubnets := .absent, routableSubnet := none, ips := .absent, subnet := none,
                       gateway := .absent, vlan := .absent } = .error .noNodeSubnet := by decide
example : decodePool { nodeSubnets := .val [none], routableSubnet := none, ips := .absent,
                       subnet := some "\"10.0.0.0/24\"".toList, gateway := .val "10.0.0.1".toList, vlan := .absent }
            = .error .nullNodeSubnet := by decide
example : decodePool { nodeSubnets := .val [some "\"10.0.0.0/8\"".toList], routableSubnet := none,
                       ips := .val [.val "10.0.0.5~10.0.0.6".toList, .val "10.0.0.7".toList],
                       subnet := some "\"10.0.0.0/24\"".toList, gateway := .val "10.0.0.1".toList, vlan := .absent }
            = .error .adjacency := by decide
example : decodePool { nodeSubnets := .val [some "\"10.0.0.0/8\"".toList], routableSubnet := none,
                       ips := .val [.val "10.0.1.5".toList],
                       subnet := some "\"10.0.0.0/24\"".toList, gateway := .val "10.0.0.1".toList, vlan := .absent }
            = .error .notInSubnet := by decide
example : decodePool { nodeSubnets := .val [some "\"10.0.0.0/8\"".toList], routableSubnet := none,
                       ips := .val [.val "10.0.0.9~10.0.0.5".toList],
                       subnet := some "\"10.0.0.0/24\"".toList, gateway := .val "10.0.0.1".toList, vlan := .absent }
            = .error .badRange := by decide
example : decodePool { nodeSubnets := .val [some "\"10.0.0.0/8\"".toList], routableSubnet := none, ips := .absent,
                       subnet := some "\"10.0.0.0/24\"".toList, gateway := .val "fd00::1".toList, vlan := .val 70000 }
            = .error .json := by decide
example : decodeConf (.arr [.null]) = .error .nullPool := by decide
example : (ensureConf decodeConf ⟨.null, []⟩ (.arr [.null])).2 = .rejected .nullPool := by decide

/-- ranges with `first ≤ last` at the boundaries, a single-address range, their text -/
example : showRange ⟨0#32, 0#32⟩ = "0.0.0.0".toList ∧
    showRange ⟨0xFFFFFF00#32, 0xFFFFFFFF#32⟩ = "255.255.255.0~255.255.255.255".toList ∧
    parseRange "0.0.0.0~255.255.255.255".toList = some ⟨0#32, 0xFFFFFFFF#32⟩ := by decide

/-- the walk over a range ending at 255.255.255.255 terminates and visits it (the bound is finite) -/
example : walk (fun _ => false) [⟨0xFFFFFFFE#32, 0xFFFFFFFF#32⟩, ⟨5#32, 4#32⟩, ⟨7#32, 7#32⟩] =
    some [0xFFFFFFFE#32, 0xFFFFFFFF#32, 7#32] := by decide

/-- a stopping callback: the walk ends at the first hit -/
example : walk (fun ip => ip == 6#32) [⟨5#32, 9#32⟩, ⟨20#32, 21#32⟩] = some [5#32, 6#32] := by decide

/-- prefix lengths 0 and 32 both occur as CIDR text -/
example : parseCidr "0.0.0.0/0".toList = some (0#32, 0) ∧ parseCidr "10.180.1.2/32".toList = some (0x0AB40102#32, 32) ∧
    parseCidr "10.0.0.0/33".toList = none ∧ parseCidr "10.0.0.0/024".toList = some (0x0A000000#32, 24) := by decide

end Galaxy.Props.C20
