/-
  gxdrv_netfilter — line-protocol driver around M6 (Galaxy/Model/Netfilter.lean).
  One output line per input line.  Words are percent-encoded (see `enc`); a rule is its words
  separated by single spaces, rules are separated by " ; ", `-` is the empty word list.

    reset                                    -> ok
    load <chain> [<rule> { ; <rule>}]        -> ok          (installs a chain of the prior table)
    sets <name>…                             -> ok          (set names that exist, for --match-set)
    restore <line>…                          -> ok | err:<class>   (each <line> = one encoded text line)
    ensure-rule A|I <chain> <words>          -> ok:existed | ok:added | err:<class>
    delete-rule <chain> <words>              -> ok | err:<class>
    ensure-chain <c> | flush-chain <c> | delete-chain <c> | list <c>
    norm <words>                             -> <rule> jump=<word|-> sets=<words>
    dump                                     -> <chain>=<rules> | …   (chains sorted)
    chain-name <port>                        -> <name>
    wf <ports>                               -> true | false
    setup|clean|sync <ports>                 -> ok | err:<class>
    srv-add <k|-> <ports> | srv-del <j|-> | srv-gc   -> ok|err file=yes|no
    srv-restart <pod> <ns> <0|1 ports from the annotation> <ports of the live pod|->  -> ok|err   (daemon restart: the start-up full sync)   (server protocol, fault at call k / j)
    batch-setup|batch-clean <ports>          -> selfcheck=ok|bad <line>…
    set-create <n> <type> <0|1> | set-add <n> <entry> <0|1> | set-del <n> <entry> | set-flush <n>
      | set-destroy <n> | set-list <n> | set-dump
    sk-init <proto:port>… | sk-open <pod> <0|1> <port:proto,…|-> <choice,…|-> | sk-close <pod>
      | sk-fbind <proto:port> | sk-fclose <proto:port> | sk-gc <proto:port> | sk-dump
  <port> = hostPort protocol containerPort podName podIP hostIP ("%%" = empty); <ports> = ports joined by " ; ".
-/
import Galaxy.Model.Netfilter
import Galaxy.Drv.Common

namespace Galaxy.Drv.Netfilter

open Galaxy Galaxy.Netfilter

def hexDigit (n : Nat) : Char := if n < 10 then Char.ofNat (48 + n) else Char.ofNat (55 + n)

def plain (b : UInt8) : Bool :=
  let c := Char.ofNat b.toNat
  c.isAlphanum || c = '.' || c = '_' || c = ':' || c = '/' || c = ',' || c = '+' || c = '-' || c = '['
    || c = ']' || c = '*' || c = '#' || c = '!'

/-- percent-encode one word (never empty, no space ; | = %) -/
def enc (s : String) : String :=
  if s = "" then "%%"
  else String.ofList (s.toUTF8.toList.flatMap (fun b =>
    if plain b then [Char.ofNat b.toNat] else ['%', hexDigit (b.toNat / 16), hexDigit (b.toNat % 16)]))

def hexVal (c : Char) : Option Nat :=
  if c.isDigit then some (c.toNat - 48)
  else if 'A' ≤ c ∧ c ≤ 'F' then some (c.toNat - 55)
  else if 'a' ≤ c ∧ c ≤ 'f' then some (c.toNat - 87)
  else none

def decBytes : List Char → Option (List UInt8)
  | [] => some []
  | '%' :: a :: b :: rest =>
    match hexVal a, hexVal b, decBytes rest with
    | some x, some y, some r => some (UInt8.ofNat (16 * x + y) :: r)
    | _, _, _ => none
  | '%' :: _ => none
  | c :: rest => if c.toNat < 128 then (decBytes rest).map (UInt8.ofNat c.toNat :: ·) else none

def dec (s : String) : Option String :=
  if s = "%%" then some ""
  else match decBytes s.toList with
    | some bs => String.fromUTF8? ⟨bs.toArray⟩
    | none => none

def decAll : List String → Option (List String)
  | [] => some []
  | w :: ws => match dec w, decAll ws with
    | some a, some b => some (a :: b)
    | _, _ => none

def encWords (ws : List String) : String := if ws = [] then "-" else " ".intercalate (ws.map enc)

def encRules (rs : List Rule) : String := " ; ".intercalate (rs.map encWords)

/-- split a word list at the separator word ";" -/
def splitSemi : List String → List (List String)
  | [] => [[]]
  | w :: ws =>
    match splitSemi ws with
    | [] => [[w]]
    | g :: gs => if w = ";" then [] :: g :: gs else (w :: g) :: gs

def decWords (ws : List String) : Option (List String) := if ws = ["-"] then some [] else decAll ws

def decRules (ws : List String) : Option (List Rule) :=
  if ws = [] then some []
  else (splitSemi ws).foldr (fun g acc => match decWords g, acc with
    | some r, some l => some (r :: l)
    | _, _ => none) (some [])

def sortStrings (l : List String) : List String := (l.toArray.qsort (· < ·)).toList

def dumpTable (T : Table) : String :=
  " | ".intercalate ((sortStrings (chainList T)).map (fun c => enc c ++ "=" ++ encRules ((Tbl.get T c).getD [])))

def parsePort : List String → Option Port
  | [hp, proto, cp, pod, ip, hip] =>
    match hp.toNat?, cp.toNat? with
    | some a, some b => some ⟨a, proto, b, pod, ip, hip⟩
    | _, _ => none
  | _ => none

def parsePorts (ws : List String) : Option (List Port) :=
  if ws = [] ∨ ws = ["-"] then some []
  else (splitSemi ws).foldr (fun g acc => match decAll g, acc with
    | some r, some l => (parsePort r).map (· :: l)
    | _, _ => none) (some [])

structure St where
  T : Table := []
  file : Option (List Port) := none
  sets : Option (List String) := none
  S : Ipsets := []
  H : Host := Host.init []

def setOk (st : St) : String → Bool :=
  match st.sets with
  | none => fun s => Tbl.has st.S s
  | some l => fun s => l.contains s

def errS (e : Err) : String := "err:" ++ e.toString

def outcome (st : St) (r : Table × Option Err) : St × String :=
  match r.2 with
  | none => ({ st with T := r.1 }, "ok")
  | some e => ({ st with T := r.1 }, errS e)

def parseSock (s : String) : Option Sock :=
  match s.splitOn ":" with
  | [p, n] => n.toNat?.map (fun k => (p, k))
  | _ => none

def parseSocks : List String → Option (List Sock)
  | [] => some []
  | w :: ws => match parseSock w, parseSocks ws with
    | some a, some b => some (a :: b)
    | _, _ => none

def parseReq (s : String) : Option Req :=
  match s.splitOn ":" with
  | [n, p] => n.toNat?.map (fun k => (k, p))
  | _ => none

def parseCsv {α : Type} (f : String → Option α) (s : String) : Option (List α) :=
  if s = "-" then some []
  else (s.splitOn ",").foldr (fun w acc => match f w, acc with
    | some a, some l => some (a :: l)
    | _, _ => none) (some [])

def showSock (s : Sock) : String := s.1 ++ ":" ++ toString s.2

def showSocks (l : List Sock) : String :=
  if l = [] then "-" else ",".intercalate (sortStrings (l.map showSock))

def sockErr : SockErr → String
  | .inUse => "err:in-use" | .badProto => "err:bad-proto" | .inadmissible => "inadmissible-choice"

def setRes (st : St) (r : Except SetErr Ipsets) : St × String :=
  match r with
  | .ok S => ({ st with S := S }, "ok")
  | .error e => (st, "err:" ++ e.toString)

def flag (s : String) : Option Bool := if s = "1" then some true else if s = "0" then some false else none

def step (st : St) (line : String) : St × String :=
  let bad := (st, "bad-op")
  match words line with
  | ["reset"] => ({}, "ok")
  | "load" :: c :: rest =>
    match dec c, decRules rest with
    | some c, some rs => ({ st with T := Tbl.set st.T c rs }, "ok")
    | _, _ => bad
  | "sets" :: names =>
    match decAll names with
    | some l => ({ st with sets := some l }, "ok")
    | none => bad
  | "restore" :: ls =>
    match decAll ls with
    | none => bad
    | some lines =>
      match parseText lines with
      | .error e => (st, errS e)
      | .ok b => outcome st (commit (setOk st) st.T b)
  | "ensure-rule" :: pos :: c :: ws =>
    match dec c, decWords ws with
    | some c, some args =>
      if pos ≠ "A" ∧ pos ≠ "I" then bad
      else match ensureRule (pos = "I") (setOk st) st.T c (normRule args) with
        | .error e => (st, errS e)
        | .ok (ex, T) => ({ st with T := T }, if ex then "ok:existed" else "ok:added")
    | _, _ => bad
  | "delete-rule" :: c :: ws =>
    match dec c, decWords ws with
    | some c, some args =>
      match deleteRule (setOk st) st.T c (normRule args) with
      | .error e => (st, errS e)
      | .ok T => ({ st with T := T }, "ok")
    | _, _ => bad
  | ["ensure-chain", c] =>
    match dec c with
    | some c => let r := ensureChain st.T c; ({ st with T := r.2 }, if r.1 then "ok:existed" else "ok:created")
    | none => bad
  | ["flush-chain", c] =>
    match dec c with
    | some c => (match flushChain st.T c with
      | .ok T => ({ st with T := T }, "ok")
      | .error e => (st, errS e))
    | none => bad
  | ["delete-chain", c] =>
    match dec c with
    | some c => (match deleteChain st.T c with
      | .ok T => ({ st with T := T }, "ok")
      | .error e => (st, errS e))
    | none => bad
  | ["list", c] =>
    match dec c with
    | some c => (match listRules st.T c with
      | .ok rs => (st, if rs = [] then "ok" else "ok " ++ encRules rs)
      | .error e => (st, errS e))
    | none => bad
  | "norm" :: ws =>
    match decWords ws with
    | some args =>
      let r := normRule args
      (st, encWords r ++ " jump=" ++ (match jumpTarget r with | some t => enc t | none => "-")
        ++ " sets=" ++ encWords (matchSets r))
    | none => bad
  | ["dump"] => (st, dumpTable st.T)
  | "chain-name" :: ws =>
    match parsePorts ws with
    | some [p] => (st, enc (chainName realHash p))
    | _ => bad
  | "wf" :: ws =>
    match parsePorts ws with
    | some ps => (st, if wfPorts ps then "true" else "false")
    | none => bad
  | "setup" :: ws =>
    match parsePorts ws with
    | some ps => outcome st (setup realHash st.T ps)
    | none => bad
  | "clean" :: ws =>
    match parsePorts ws with
    | some ps => outcome st (clean realHash st.T ps)
    | none => bad
  | "sync" :: ws =>
    match parsePorts ws with
    | some ps => outcome st (syncAll realHash st.T ps)
    | none => bad
  | "srv-add" :: k :: ws =>
    match parsePorts ws, (if k = "-" then some none else k.toNat?.map some) with
    | some ps, some fault =>
      let r := addPod realHash fault ⟨st.T, st.file⟩ ps
      ({ st with T := r.1.T, file := r.1.file },
        (if r.2 then "ok" else "err") ++ " file=" ++ (if r.1.file.isSome then "yes" else "no"))
    | _, _ => bad
  | ["srv-del", j] =>
    match (if j = "-" then some none else j.toNat?.map some) with
    | some fault =>
      let r := delPod realHash fault ⟨st.T, st.file⟩
      ({ st with T := r.1.T, file := r.1.file },
        (if r.2 then "ok" else "err") ++ " file=" ++ (if r.1.file.isSome then "yes" else "no"))
    | none => bad
  | "srv-restart" :: name :: ns :: ann :: ws =>
    match dec name, dec ns, flag ann, parsePorts ws with
    | some name, some ns, some ann, some live =>
      let r := restartPod realHash ⟨st.T, st.file⟩ name ns ann live
      ({ st with T := r.1.T }, if r.2 then "ok" else "err")
    | _, _, _, _ => bad
  | ["srv-gc"] =>
    let r := gcPod realHash ⟨st.T, st.file⟩
    ({ st with T := r.T, file := r.file }, "ok file=" ++ (if r.file.isSome then "yes" else "no"))
  | "batch-setup" :: ws =>
    match parsePorts ws with
    | some ps =>
      let t := setupText realHash ps
      let okc := (match parseText t with | .ok b => decide (b = setupBatch realHash ps) | .error _ => false)
      (st, "selfcheck=" ++ (if okc then "ok" else "bad") ++ " " ++ " ".intercalate (t.map enc))
    | none => bad
  | "batch-clean" :: ws =>
    match parsePorts ws with
    | some ps =>
      let t := cleanText realHash ps
      let okc := (match parseText t with | .ok b => decide (b = cleanBatch realHash ps) | .error _ => false)
      (st, "selfcheck=" ++ (if okc then "ok" else "bad") ++ " " ++ " ".intercalate (t.map enc))
    | none => bad
  | ["set-create", n, ty, f] =>
    match dec n, dec ty, flag f with
    | some n, some ty, some f => setRes st (Ipsets.create st.S n ty f)
    | _, _, _ => bad
  | ["set-add", n, e, f] =>
    match dec n, dec e, flag f with
    | some n, some e, some f => setRes st (Ipsets.add st.S n e f)
    | _, _, _ => bad
  | ["set-del", n, e] =>
    match dec n, dec e with
    | some n, some e => setRes st (Ipsets.del st.S n e)
    | _, _ => bad
  | ["set-flush", n] =>
    match dec n with
    | some n => setRes st (Ipsets.flush st.S n)
    | none => bad
  | ["set-destroy", n] =>
    match dec n with
    | some n => setRes st (Ipsets.destroy st.S n (setReferenced st.T n))
    | none => bad
  | ["set-list", n] =>
    match dec n with
    | some n => (match Ipsets.list st.S n with
      | .ok es => (st, "ok " ++ encWords (sortStrings es))
      | .error e => (st, "err:" ++ e.toString))
    | none => bad
  | ["set-dump"] =>
    (st, " | ".intercalate ((sortStrings (st.S.keys.eraseDups)).map (fun n =>
      match Tbl.get st.S n with
      | some r => enc n ++ "=" ++ encWords (r.type :: sortStrings r.entries)
      | none => enc n ++ "=?")))
  | "sk-init" :: ss =>
    match parseSocks ss with
    | some l => ({ st with H := Host.init l }, "ok")
    | none => bad
  | ["sk-open", pod, rnd, reqs, choices] =>
    match dec pod, flag rnd, parseCsv parseReq reqs, parseCsv String.toNat? choices with
    | some pod, some rnd, some reqs, some ch =>
      let r := openHostports st.H pod rnd reqs ch
      ({ st with H := r.1 }, match r.2 with
        | .ok ss => "ok " ++ (if ss = [] then "-" else ",".intercalate (ss.map showSock))
        | .error e => sockErr e)
    | _, _, _, _ => bad
  | ["sk-close", pod] =>
    match dec pod with
    | some pod => ({ st with H := closeHostports st.H pod }, "ok")
    | none => bad
  | ["sk-fbind", s] =>
    match parseSock s with
    | some s => let r := foreignBind st.H s; ({ st with H := r.1 }, if r.2 then "ok" else "err:in-use")
    | none => bad
  | ["sk-fclose", s] =>
    match parseSock s with
    | some s => ({ st with H := foreignClose st.H s }, "ok")
    | none => bad
  | ["sk-gc", s] =>
    match parseSock s with
    | some s => ({ st with H := finalizeOrphan st.H s }, "ok")
    | none => bad
  | ["sk-dump"] =>
    -- orphaned sockets are unreachable Go objects: a finalizer may or may not have closed them already,
    -- so they are left out of the comparison of the bind table
    (st, "bound=" ++ showSocks (st.H.bound.filter (fun s => !st.H.orphan.contains s)) ++ " held="
      ++ (let pods := sortStrings st.H.held.keys.eraseDups
          if pods = [] then "-" else ";".intercalate (pods.map (fun p => enc p ++ "=" ++ showSocks ((Tbl.get st.H.held p).getD []))))
      ++ " orphan=" ++ showSocks st.H.orphan)
  | _ => bad

end Galaxy.Drv.Netfilter

def main : IO UInt32 := Galaxy.Drv.runLines ({} : Galaxy.Drv.Netfilter.St)
  (fun st l => let r := Galaxy.Drv.Netfilter.step st l; (r.1, if r.2 = "" then "(empty)" else r.2))
