/-
  gxdrv_total — line-protocol driver of model M10 (Galaxy/Model/Total.lean, property C18).

  One operation per input line, one output line per input line, stateless.  Fields are separated by single
  spaces.  Every function run here is the model definition the theorems of Props/C18.lean are about,
  instantiated with the facts regenerated from /repo (Galaxy/Generated/Total.lean).

  ENCODINGS
    <nat>   decimal digits.   <int>  optional '-' then decimal digits.
    <str>   a Go string, byte by byte: bytes [A-Za-z0-9] may be written literally, every other byte is %XX
            (two hex digits, either case on input, upper case on output); the EMPTY string is the single
            character '-' (so a literal minus sign must be written %2D).  On input any character other than
            '%' and ' ' is also accepted literally if its code is < 256.  Output uses literal [A-Za-z0-9]
            only.  The model treats each byte as one character (U+0000..U+00FF).
    <bits>  a string of '0'/'1', or 'e' for the empty list.
    outcome classes:  `ok …` (returned a value), `err` (returned a Go error), `panic <kind>` with <kind> one of
            indexOutOfRange sliceBounds nilDeref divByZero, `hang` (loop still running when the bound was hit).
    Anything malformed or unknown → `bad-op`.

  OPERATIONS
    walk <w> <first> <last>
        inner loop of walkIPRanges with a <w>-bit counter, callback never stops; <w> = `cur` (the width of the
        current source) or 1..64; first, last < 2^32; last-first ≤ 2^24 (else bad-op).  The loop gets
        last-first+2 condition evaluations (2 if first > last).
        → `ok <count>` | `hang`
    walkconf <first> <last> <conf>
        what a request-driven site (NodeSubnetsByIPRanges / AllocateInSubnetsAndIPRange / ByKeyAndIPRanges) walks for ONE
        requested range first~last when the configured pool ranges are <conf> = '-' or a comma separated list of
        `<lo>-<hi>` (naturals < 2^32, total size ≤ 65536), callback never stops: `walkRequest` — the clipped walk of
        walkConfiguredIPRanges when the regenerated fact requestWalksAreClipped holds, else the raw requested range
        (`hang` when that is longer than 65536 addresses).
        → `ok <ip,ip,…>` (decimal, in visiting order; `ok -` when none) | `hang`
    pagin <page:str> <size:str> <len:nat>
        ListIPs pagination for the raw query values `page`, `size` ('-' = parameter absent / empty) and a result
        list of <len> entries: ParsePage, ParseSize (strconv.Atoi, 64-bit), paginationResult, pagin, fips[start:end].
        → `ok <start> <end> <size> <totalPages> <number> <numberOfElements>` | `panic <kind>`
    policystr <n:nat>
        constant.PolicyStr(ReleasePolicy(n))          → `ok <str>` | `panic indexOutOfRange`
    convpolicy <annotation:str>
        PolicyStr(ConvertReleasePolicy(annotation))   → `ok <n> <str>` | `panic indexOutOfRange`
    podindex <name:str>
        parsePodIndex(name)                           → `ok <int>` | `err` | `panic <kind>`
    parsekey <key:str>
        util.ParseKey(key)  → `ok <PoolName:str> <AppTypePrefix:str> <AppName:str> <PodName:str> <Namespace:str>`
                              | `panic <kind>`
    ipnetslice <len:nat>  /  iprangeslice <len:nat>
        the guard and slice expression of IPNet.UnmarshalJSON / IPRange.UnmarshalJSON for len(data) = <len>
        → `ok <lo> <hi>` (bounds of the slice handed to the parser) | `err` (length guard) | `panic sliceBounds`
    chainline <line:str>
        body of the table loop of GetChainLines for one line as returned by ReadLine (no leading / trailing
        spaces, no newline)
        → `ok chain <name:str>` | `ok skip` | `ok stop` | `panic sliceBounds`
    cmddel <lastIdx:int> <n:nat>
        CmdDel(_, lastIdx) when the state file holds n network infos; the indexes visited, in order
        → `ok <i,j,…>` (`ok -` when none) | `panic indexOutOfRange`
    resolvenets <elems>
        JSON networks annotation with the given elements: <elems> = '-' (empty list) or a comma separated list of
        `null` | `n:<name:str>`; ParsePodNetworkAnnotation then the dereferencing loop of resolveNetworks
        → `ok <name:str,name:str,…>` (`ok -` when none) | `err` | `panic nilDeref`
    ensureconf <pools>  /  initconf <pools>
        floatingip configuration through ensureIPAMConf (ConfigMap) / Init (static configuration):
        <pools> = '-' (empty list) or a comma separated list of `null` | `<routable>:<subnet>:<gateway>:<nodeSubnets:bits>`
        where routable / subnet / gateway are 0|1 (member present and non-null) and each bit of nodeSubnets says
        whether that element is non-null.  (`ok` = reached the end of ConfigurePool's dereferences; the range / fipCheck
        validation which may still reject the configuration is not modelled.)
        → `ok` | `err` | `panic nilDeref`
    syncpolicy <sel:0|1> <in> <eg> <si> <se>
        one iteration of SyncPodIPInIPSet for one compiled policy: sel = policy selects the pod; <in> / <eg> =
        '-' (nil ingressRule / egressRule) or `<table:0|1>:<ipTables:bits>` (dstIPTable / srcIPTable non-nil, per
        compiled rule whether its ipTable is non-nil); <si> / <se> = 'e' or a comma separated list of naturals:
        per rule of spec.ingress / spec.egress the number of peers whose selector matches the pod.
        → `ok <ref,ref,…>` (`ok -` when none) with ref = `pods` | `src<i>` | `dst<i>` (the ipset of each
          addOrDelIPSetEntry call, in call order) | `panic nilDeref` | `panic indexOutOfRange`
    facts
        → `ok walkbits=<n> initRejectsNilPool=<bool> configurePoolRejectsNilPool=<bool> chainChecksIndex=<bool>`
-/
import Galaxy.Model.Total
import Galaxy.Drv.Common

namespace Galaxy.Drv.Total
open Galaxy.Total

def parseNat (s : String) : Option Nat :=
  if s.isEmpty || !s.toList.all isDigit then none else some (s.toList.foldl (fun a c => a * 10 + (c.toNat - 48)) 0)

def parseInt (s : String) : Option Int :=
  match s.toList with
  | '-' :: r => (parseNat (String.ofList r)).map (fun n => -(n : Int))
  | _ => (parseNat s).map (fun n => (n : Int))

def hexVal (c : Char) : Option Nat :=
  if '0' ≤ c ∧ c ≤ '9' then some (c.toNat - 48)
  else if 'a' ≤ c ∧ c ≤ 'f' then some (c.toNat - 87)
  else if 'A' ≤ c ∧ c ≤ 'F' then some (c.toNat - 55)
  else none

def unescLoop : List Char → List Char → Option (List Char)
  | [], acc => some acc.reverse
  | '%' :: a :: b :: rest, acc =>
    match hexVal a, hexVal b with
    | some x, some y => unescLoop rest (Char.ofNat (x * 16 + y) :: acc)
    | _, _ => none
  | '%' :: _, _ => none
  | c :: rest, acc => if c.toNat < 256 then unescLoop rest (c :: acc) else none

def unesc (s : String) : Option Str :=
  if s = "-" then some [] else if s.isEmpty then none else unescLoop s.toList []

def hexDigit (n : Nat) : Char := if n < 10 then Char.ofNat (48 + n) else Char.ofNat (55 + n)

def escChar (c : Char) : List Char :=
  if c.isAlphanum then [c] else ['%', hexDigit (c.toNat / 16 % 16), hexDigit (c.toNat % 16)]

def esc (s : Str) : String := if s.isEmpty then "-" else String.ofList (s.flatMap escChar)

def parseBits (s : String) : Option (List Bool) :=
  if s = "e" then some []
  else if s.isEmpty || !s.toList.all (fun c => c = '0' || c = '1') then none
  else some (s.toList.map (· = '1'))

def parseBool (s : String) : Option Bool :=
  if s = "1" then some true else if s = "0" then some false else none

def parseNats (s : String) : Option (List Nat) :=
  if s = "e" then some [] else (s.splitOn ",").mapM parseNat

def panicName : Panic → String
  | .indexOutOfRange => "indexOutOfRange"
  | .sliceBounds => "sliceBounds"
  | .nilDeref => "nilDeref"
  | .divByZero => "divByZero"

def render {α : Type} (r : Except Panic α) (f : α → String) : String :=
  match r with
  | .ok a => f a
  | .error p => "panic " ++ panicName p

def commaOr (l : List String) : String := if l.isEmpty then "-" else String.intercalate "," l

def toQuery (s : Str) : Query :=
  if s.isEmpty then .absent else match atoi s with
    | some v => .num v
    | none => .bad

def parseNetElem (s : String) : Option (Option Str) :=
  if s = "null" then some none
  else match s.toList with
    | 'n' :: ':' :: r => (unesc (String.ofList r)).map some
    | _ => none

def parsePool (s : String) : Option (Option PoolConf) :=
  if s = "null" then some none
  else match s.splitOn ":" with
    | [r, sn, g, ns] => do
      let r ← parseBool r
      let sn ← parseBool sn
      let g ← parseBool g
      let ns ← parseBits ns
      pure (some { routable := r, nodeSubnets := ns, subnet := sn, gateway := g })
    | _ => none

def parseList {α : Type} (f : String → Option α) (s : String) : Option (List α) :=
  if s = "-" then some [] else (s.splitOn ",").mapM f

def parseDir (s : String) : Option (Option DirRule) :=
  if s = "-" then some none
  else match s.splitOn ":" with
    | [t, b] => do
      let t ← parseBool t
      let b ← parseBits b
      pure (some { table := t, ipTables := b })
    | _ => none

def refName : SetRef → String
  | .pods => "pods"
  | .src i => "src" ++ toString i
  | .dst i => "dst" ++ toString i

def okErr (r : Except Panic Bool) : String := render r (fun b => if b then "ok" else "err")

def parseRange (r : String) : Option (Nat × Nat) :=
  match r.splitOn "-" with
  | [a, b] =>
    match parseNat a, parseNat b with
    | some x, some y => some (x, y)
    | _, _ => none
  | _ => none

def run (ws : List String) : Option String :=
  match ws with
  | ["walk", w, f, l] => do
    let bits ← if w = "cur" then some Generated.Total.walkCounterBits else parseNat w
    let first ← parseNat f
    let last ← parseNat l
    if bits = 0 || bits > 64 || first ≥ 2 ^ 32 || last ≥ 2 ^ 32 || last - first > 2 ^ 24 then none
    else
      match walkW bits last (last - first + 2) first 0 with
      | some n => some ("ok " ++ toString n)
      | none => some "hang"
  | ["walkconf", f, l, c] => do
    let first ← parseNat f
    let last ← parseNat l
    let conf ← if c = "-" then some [] else (c.splitOn ",").mapM parseRange
    if first ≥ 2 ^ 32 || last ≥ 2 ^ 32 || confSize conf > 65536 || conf.any (fun r => r.1 ≥ 2 ^ 32 || r.2 ≥ 2 ^ 32) then none
    else if !Generated.Total.requestWalksAreClipped && last - first > 65536 then some "hang"
    else
      let ips := walkRequest conf first last
      some (if ips.isEmpty then "ok -" else "ok " ++ String.intercalate "," (ips.map toString))
  | ["pagin", p, s, n] => do
    let p ← unesc p
    let s ← unesc s
    let n ← parseNat n
    pure (render (listIPsPage (toQuery p) (toQuery s) n) (fun o =>
      s!"ok {o.start} {o.stop} {o.size} {o.totalPages} {o.number} {o.count}"))
  | ["policystr", n] => do
    let n ← parseNat n
    pure (render (policyStr n) (fun s => "ok " ++ esc s.toList))
  | ["convpolicy", a] => do
    let a ← unesc a
    let n := convertReleasePolicy (String.ofList a)
    pure (render (policyStr n) (fun s => s!"ok {n} " ++ esc s.toList))
  | ["podindex", name] => do
    let name ← unesc name
    pure (render (parsePodIndex name) (fun r => match r with
      | some v => s!"ok {v}"
      | none => "err"))
  | ["parsekey", key] => do
    let key ← unesc key
    pure (render (parseKey key) (fun k =>
      s!"ok {esc k.poolName} {esc k.appTypePrefix} {esc k.appName} {esc k.podName} {esc k.ns}"))
  | ["ipnetslice", n] => do
    let n ← parseNat n
    pure (render (ipnetSlice n) (fun r => match r with
      | some (lo, hi) => s!"ok {lo} {hi}"
      | none => "err"))
  | ["iprangeslice", n] => do
    let n ← parseNat n
    pure (render (iprangeSlice n) (fun r => match r with
      | some (lo, hi) => s!"ok {lo} {hi}"
      | none => "err"))
  | ["chainline", line] => do
    let line ← unesc line
    pure (render (chainLine line) (fun k => match k with
      | .skip => "ok skip"
      | .stop => "ok stop"
      | .chain name => "ok chain " ++ esc name))
  | ["cmddel", li, n] => do
    let li ← parseInt li
    let n ← parseNat n
    pure (render (cmdDel li n) (fun l => "ok " ++ commaOr (l.map toString)))
  | ["resolvenets", e] => do
    let elems ← parseList parseNetElem e
    pure (render (resolveNetworks elems) (fun r => match r with
      | some names => "ok " ++ commaOr (names.map esc)
      | none => "err"))
  | ["ensureconf", ps] => do
    let pools ← parseList parsePool ps
    pure (okErr (ensureConf pools))
  | ["initconf", ps] => do
    let pools ← parseList parsePool ps
    pure (okErr (initConf pools))
  | ["syncpolicy", sel, i, e, si, se] => do
    let sel ← parseBool sel
    let i ← parseDir i
    let e ← parseDir e
    let si ← parseNats si
    let se ← parseNats se
    let p : Policy := { ingressRule := i, egressRule := e, specIngress := si, specEgress := se, selectsPod := sel }
    pure (render (syncPolicy p) (fun l => "ok " ++ commaOr (l.map refName)))
  | ["facts"] =>
    some (s!"ok walkbits={Generated.Total.walkCounterBits} initRejectsNilPool={Generated.Total.initRejectsNilPool} " ++
      s!"configurePoolRejectsNilPool={Generated.Total.configurePoolRejectsNilPool} " ++
      s!"chainChecksIndex={Generated.Total.chainChecksIndex}")
  | _ => none

def step (s : Unit) (line : String) : Unit × String :=
  -- fields are separated by SINGLE spaces: an empty field is malformed
  let ws := line.splitOn " "
  if ws.any (· = "") then (s, "bad-op")
  else match run ws with
    | some o => (s, o)
    | none => (s, "bad-op")

end Galaxy.Drv.Total

def main : IO UInt32 := Galaxy.Drv.runLines () Galaxy.Drv.Total.step
