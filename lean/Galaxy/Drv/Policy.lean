/-
  gxdrv_policy — line-protocol driver of model M7 (Galaxy.Policy).  One output line per input line.

    reset | node <name> | ns <name> <labels> | pod <ns> <name> <hash> <node> <ip|-> <labels>
    pol <ns> <name> <hash> <podsel> <types|-> <ingress-rules|-> <egress-rules|->        -> ok
    compile                       -> canonical text of compileSets / compileTable of the cluster
    rclear | rset <name> <type> <entries|-> | rchain <name> | rrule <chain> <words…>   -> ok   (REAL dump)
    rcanon                        -> canonical text of the parsed real dump (parse/render round trip)
    wclear                        -> ok   (forget the cluster, keep the loaded kernel state)
    fullsync | sync <syncrules|syncpods>…   (C15)
        -> fails=[<classes of failed rule submissions, sorted>] <canonical text of the state after the model's step>
           the step runs on the loaded kernel state (rset/rchain/rrule) with the current cluster
    flow <hook> <proto> <src> <dst> <dport>
        -> real=<A|D> model=<A|D> k8s=<0|1> k8sall=<0|1> frag=<0|1>
           real  = walk over the parsed REAL dump,  model = walk over the model's compile output,
           k8s   = k8sAllowsOn node, k8sall = k8sAllows, frag = inFragment
  Unknown / malformed line -> bad-op.
-/
import Galaxy.Drv.Common
import Galaxy.Model.Policy

namespace Galaxy.Drv.Policy
open Galaxy.Policy

structure St where
  node : String := ""
  nss : List Namespace := []
  pods : List Pod := []
  pols : List NetPol := []
  rsets : List IpSet := []
  rtbl : Table := []
  comp : Option (List IpSet × Table) := none

def parseLabels? (s : String) : Option Labels :=
  if s = "-" then some [] else
  (s.splitOn ",").mapM fun kv =>
    match kv.splitOn "=" with
    | [k, v] => if k.isEmpty then none else some (k, v)
    | _ => none

def parseSelector? (s : String) : Option Selector :=
  if s = "*" then some ⟨[], []⟩ else
  (s.splitOn "&").foldlM (init := (⟨[], []⟩ : Selector)) fun acc it =>
    match it.splitOn "~" with
    | [kv] =>
      match kv.splitOn "=" with
      | [k, v] => if k.isEmpty then none else some { acc with matchLabels := acc.matchLabels ++ [(k, v)] }
      | _ => none
    | [k, "in", vs] => some { acc with exprs := acc.exprs ++ [⟨k, .isIn, vs.splitOn "|"⟩] }
    | [k, "notin", vs] => some { acc with exprs := acc.exprs ++ [⟨k, .notIn, vs.splitOn "|"⟩] }
    | [k, "exists"] => some { acc with exprs := acc.exprs ++ [⟨k, .has, []⟩] }
    | [k, "absent"] => some { acc with exprs := acc.exprs ++ [⟨k, .hasNot, []⟩] }
    | _ => none

def parsePeer? (s : String) : Option Peer :=
  match s.splitOn ":" with
  | ["pod", x] => (parseSelector? x).map Peer.pods
  | ["ns", x] => (parseSelector? x).map Peer.nss
  | ["both", n, x] => do
    let n ← parseSelector? n
    let x ← parseSelector? x
    some (Peer.both n x)
  | ["ip", x] =>
    match x.splitOn "!" with
    | c :: ex => do
      let c ← parseCidr? c
      let ex ← ex.mapM parseCidr?
      some (Peer.block c ex)
    | [] => none
  | _ => none

def parsePort? (s : String) : Option Port :=
  match s.splitOn "/" with
  | [p, n] => do
    let p ← parseProto? p
    if n = "-" then some ⟨p, none⟩ else (parseNat? n).map (⟨p, some ·⟩)
  | _ => none

def parseList? {α : Type} (sep : String) (f : String → Option α) (s : String) : Option (List α) :=
  if s = "-" then some [] else (s.splitOn sep).mapM f

def parseRuleSpec? (s : String) : Option Rule :=
  match s.splitOn "@" with
  | [ps, qs] => do
    let ps ← parseList? "," parsePeer? ps
    let qs ← parseList? "," parsePort? qs
    some ⟨ps, qs⟩
  | _ => none

def parseTypes? (s : String) : Option (List Dir) :=
  if s = "-" then some [] else
  s.toList.mapM fun ch => if ch = 'I' then some Dir.ingress else if ch = 'E' then some Dir.egress else none

def parseHook? : String → Option Hook
  | "FORWARD" => some .forward
  | "INPUT" => some .input
  | "OUTPUT" => some .output
  | _ => none

def cluster (s : St) : Cluster := ⟨s.nss, s.pods⟩

def compiled (s : St) : List IpSet × Table :=
  match s.comp with
  | some x => x
  | none => (compileSets (cluster s) s.pols, compileTable (cluster s) s.pols s.node)

def showV : Verdict → String
  | .accept => "A"
  | .drop => "D"

def showB (b : Bool) : String := if b then "1" else "0"

def step (s : St) (line : String) : St × String :=
  match words line with
  | ["reset"] => ({}, "ok")
  | ["node", n] => ({ s with node := n, comp := none }, "ok")
  | ["ns", n, l] =>
    match parseLabels? l with
    | some l => ({ s with nss := s.nss ++ [⟨n, l⟩], comp := none }, "ok")
    | none => (s, "bad-op")
  | ["pod", ns, name, h, node, ip, l] =>
    match parseLabels? l, (if ip = "-" then some none else (parseIP? ip).map some) with
    | some l, some ip => ({ s with pods := s.pods ++ [⟨ns, name, h, node, ip, l⟩], comp := none }, "ok")
    | _, _ => (s, "bad-op")
  | ["pol", ns, name, h, sel, ty, ing, eg] =>
    match parseSelector? sel, parseTypes? ty, parseList? ";" parseRuleSpec? ing, parseList? ";" parseRuleSpec? eg with
    | some sel, some ty, some ing, some eg =>
      ({ s with pols := s.pols ++ [⟨ns, name, h, sel, ty, ing, eg⟩], comp := none }, "ok")
    | _, _, _, _ => (s, "bad-op")
  | ["compile"] =>
    let x := compiled s
    ({ s with comp := some x }, canon x.1 x.2)
  | ["rclear"] => ({ s with rsets := [], rtbl := [] }, "ok")
  | ["rset", n, t, es] =>
    match parseSetType? t, parseList? "," (fun e => parseEntry? (e.replace "+" " ")) es with
    | some t, some es =>
      -- a hash:net member printed without prefix length is a /32 network
      let es := if t = SetType.hashNet then es.map (fun e => match e with | .ip a => Entry.net ⟨a, 32⟩ false | e => e) else es
      ({ s with rsets := s.rsets ++ [⟨parseSetName n, t, es⟩] }, "ok")
    | _, _ => (s, "unparsed")
  | ["rchain", n] => ({ s with rtbl := s.rtbl ++ [(parseChain n, [])] }, "ok")
  | "rrule" :: ch :: ws =>
    match parseRule? ws with
    | some r =>
      let c := parseChain ch
      if (Tbl.get s.rtbl c).isSome then
        ({ s with rtbl := s.rtbl.map (fun (k, rs) => if k = c then (k, rs ++ [r]) else (k, rs)) }, "ok")
      else (s, "unparsed")
    | none => (s, "unparsed")
  | ["rcanon"] => (s, canon s.rsets s.rtbl)
  | ["wclear"] => ({ s with node := "", nss := [], pods := [], pols := [], comp := none }, "ok")
  | "sync" :: steps =>
    -- C15: run the model's sync steps on the loaded (REAL) kernel state; the result replaces the loaded state
    let k0 : Kern := ⟨s.rsets, s.rtbl⟩
    let c := cluster s
    let r : Option (Kern × List Fail) := steps.foldlM (init := (k0, ([] : List Fail))) fun acc st =>
      if st = "syncrules" then let (k, f) := syncRules acc.1 c s.pols; some (k, acc.2 ++ f)
      else if st = "syncpods" then let (k, f) := syncPods acc.1 c s.pols s.node; some (k, acc.2 ++ f)
      else none
    match r with
    | some (k, fails) =>
      ({ s with rsets := k.sets, rtbl := k.tbl },
        "fails=[" ++ String.intercalate "," (sortStrings (fails.map Fail.render)) ++ "] " ++ canon k.sets k.tbl)
    | none => (s, "bad-op")
  | ["fullsync"] =>
    let (k, fails) := fullSync ⟨s.rsets, s.rtbl⟩ (cluster s) s.pols s.node
    ({ s with rsets := k.sets, rtbl := k.tbl },
      "fails=[" ++ String.intercalate "," (sortStrings (fails.map Fail.render)) ++ "] " ++ canon k.sets k.tbl)
  | ["flow", hk, pr, src, dst, dp] =>
    match parseHook? hk, parseProto? pr, parseIP? src, parseIP? dst, parseNat? dp with
    | some hk, some pr, some src, some dst, some dp =>
      let f : Flow := ⟨hk, pr, src, dst, dp⟩
      let x := compiled s
      let c := cluster s
      ({ s with comp := some x },
        "real=" ++ showV (walk s.rsets s.rtbl f) ++ " model=" ++ showV (walk x.1 x.2 f) ++
        " k8s=" ++ showB (k8sAllowsOn s.node c s.pols f) ++ " k8sall=" ++ showB (k8sAllows c s.pols f) ++
        " frag=" ++ showB (inFragment c s.pols s.node f))
    | _, _, _, _, _ => (s, "bad-op")
  | _ => (s, "bad-op")

end Galaxy.Drv.Policy

def main : IO UInt32 := Galaxy.Drv.runLines ({} : Galaxy.Drv.Policy.St) Galaxy.Drv.Policy.step
