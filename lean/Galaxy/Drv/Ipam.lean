/-
  gxdrv_ipam: line-protocol driver around the M3 model (`Galaxy.Ipam.step` and the query functions).
  One output line per input line.  Strings are single tokens, the empty string is written `~`, an absent
  list / option is `-`.

    conf   <pool;pool;…|-> <order|-> <plan>      pool = gw/bits/vlan|str@base@bits,…|first-last,…
    aspec  key ip node uid policy plan
    asub   key subnet node uid policy choice plan
    akey   old new subnet node uid policy choice plan
    arng   key subnet ranges node uid policy choice plan      ranges = f-l,f-l;f-l;…
    resv   old new node uid policy order plan
    upd    key ip node uid policy plan
    rel    key ip plan
    rels   ip=key,ip=key plan
    admres ip key policy | admunres ip | deliver | restart
    dump | byprefix p | bykeyword k | byip ip | first key choice | bykr key ranges | nodesubnet ip | nsbr ranges
    plan = - | f<k>[+f<k>…][+cb<k>|+ca<k>]
-/
import Galaxy.Model.Ipam
import Galaxy.Drv.Common

namespace Galaxy.Drv.IpamDrv
open Galaxy.Ipam

def unTilde (s : String) : String := if s = "~" then "" else s
def tilde (s : String) : String := if s = "" then "~" else s

def splitList (sep : String) (s : String) : List String := if s = "-" || s = "" then [] else s.splitOn sep

def allSome {α : Type} : List (Option α) → Option (List α)
  | [] => some []
  | none :: _ => none
  | some a :: t => (allSome t).map (a :: ·)

def parseNats (sep : String) (s : String) : Option (List Nat) := allSome ((splitList sep s).map String.toNat?)

def parseOptNat (s : String) : Option (Option Nat) :=
  if s = "-" then some none else s.toNat?.map some

def parseRange (s : String) : Option Range :=
  match s.splitOn "-" with
  | [a, b] => do let x ← a.toNat?; let y ← b.toNat?; pure { first := x, last := y }
  | _ => none

def parseRangeList (s : String) : Option (List Range) := allSome ((splitList "," s).map parseRange)

def parseRanges (s : String) : Option (List (List Range)) := allSome ((splitList ";" s).map parseRangeList)

def parseSubnet (s : String) : Option Subnet :=
  match s.splitOn "@" with
  | [str, b, n] => do let x ← b.toNat?; let y ← n.toNat?; pure { str := str, base := x, bits := y }
  | _ => none

def parsePool (s : String) : Option Pool :=
  match s.splitOn "|" with
  | [hd, subs, rs] =>
    match hd.splitOn "/" with
    | [g, b, v] => do
      let gw ← g.toNat?; let bits ← b.toNat?; let vlan ← v.toNat?
      let ns ← allSome ((splitList "," subs).map parseSubnet)
      let ranges ← parseRangeList rs
      pure { nodeSubnets := ns, ranges := ranges, bits := bits, gateway := gw, vlan := vlan }
    | _ => none
  | _ => none

def parsePools (s : String) : Option (List Pool) := allSome ((splitList ";" s).map parsePool)

def parsePlanPart (pl : Plan) (t : String) : Option Plan :=
  if t.startsWith "cb" then (t.drop 2).toNat?.map (fun k => { pl with crashBefore := some k })
  else if t.startsWith "ca" then (t.drop 2).toNat?.map (fun k => { pl with crashAfter := some k })
  else if t.startsWith "f" then (t.drop 1).toNat?.map (fun k => { pl with fails := pl.fails ++ [k] })
  else none

def parsePlan (s : String) : Option Plan :=
  (splitList "+" s).foldl (fun acc t => acc.bind (fun pl => parsePlanPart pl t)) (some {})

def parseReq (s : String) : Option (List (IP × String)) :=
  allSome ((splitList "," s).map (fun t =>
    match t.splitOn "=" with
    | [a, k] => a.toNat?.map (fun ip => (ip, unTilde k))
    | _ => none))

def parseAttr (node uid pol : String) : Option Attr :=
  pol.toNat?.map (fun p => { node := unTilde node, uid := unTilde uid, policy := p })

def parseOp (ws : List String) : Option Op :=
  match ws with
  | ["conf", ps, order, pl] => do
      let p ← parsePools ps; let o ← parseNats "," order; let q ← parsePlan pl; pure (.configure p o q)
  | ["aspec", key, ip, node, uid, pol, pl] => do
      let i ← ip.toNat?; let a ← parseAttr node uid pol; let q ← parsePlan pl; pure (.allocSpecific (unTilde key) i a q)
  | ["asub", key, subnet, node, uid, pol, ch, pl] => do
      let a ← parseAttr node uid pol; let c ← parseOptNat ch; let q ← parsePlan pl
      pure (.allocSubnet (unTilde key) subnet a c q)
  | ["akey", old, new, subnet, node, uid, pol, ch, pl] => do
      let a ← parseAttr node uid pol; let c ← parseOptNat ch; let q ← parsePlan pl
      pure (.allocWithKey (unTilde old) (unTilde new) subnet a c q)
  | ["arng", key, subnet, rs, node, uid, pol, ch, pl] => do
      let r ← parseRanges rs; let a ← parseAttr node uid pol; let c ← parseOptNat ch; let q ← parsePlan pl
      pure (.allocRanges (unTilde key) subnet r a c q)
  | ["resv", old, new, node, uid, pol, order, pl] => do
      let a ← parseAttr node uid pol; let o ← parseNats "," order; let q ← parsePlan pl
      pure (.reserve (unTilde old) (unTilde new) a o q)
  | ["upd", key, ip, node, uid, pol, pl] => do
      let i ← ip.toNat?; let a ← parseAttr node uid pol; let q ← parsePlan pl; pure (.updateAttr (unTilde key) i a q)
  | ["rel", key, ip, pl] => do
      let i ← ip.toNat?; let q ← parsePlan pl; pure (.release (unTilde key) i q)
  | ["rels", req, pl] => do
      let r ← parseReq req; let q ← parsePlan pl; pure (.releaseIPs r q)
  | ["admres", ip, key, pol] => do
      let i ← ip.toNat?; let p ← pol.toNat?; pure (.adminReserve i (unTilde key) p)
  | ["admunres", ip] => ip.toNat?.map .adminUnreserve
  | ["deliver"] => some .deliver
  | ["restart"] => some .restart
  | _ => none

/-! printing -/

def insertBy {α : Type} (lt : α → α → Bool) (a : α) : List α → List α
  | [] => [a]
  | b :: t => if lt a b then a :: b :: t else b :: insertBy lt a t

def sortBy {α : Type} (lt : α → α → Bool) (l : List α) : List α := l.foldl (fun acc a => insertBy lt a acc) []

def dedupSorted {α : Type} [BEq α] : List α → List α
  | [] => []
  | [a] => [a]
  | a :: b :: t => if a == b then dedupSorted (b :: t) else a :: dedupSorted (b :: t)

def showErr : Err → String
  | .noEnough => "noenough"
  | .mem => "mem"
  | .exists_ => "exists"
  | .notFound => "notfound"
  | .injected => "injected"
  | .crashed => "crashed"

def showRec (r : Rec) : String :=
  s!"{tilde r.key}:{r.policy}:{tilde r.node}:{tilde r.uid}:{if r.reserved then "R" else "N"}"

def showNats (l : List Nat) : String := if l.isEmpty then "-" else joinWith "," (l.map toString)

def showPairs (l : List (IP × String)) : String :=
  if l.isEmpty then "-" else
    joinWith "," ((sortBy (fun a b => a.1 < b.1) l).map (fun p => s!"{p.1}={tilde p.2}"))

def showStrSet (l : List String) : String :=
  let l' := dedupSorted (sortBy (fun a b => a < b) l)
  if l'.isEmpty then "-" else joinWith "+" l'

def showInfo (tag : String) (i : Info) : String :=
  s!"{i.ip}:{tag}:{showRec i.rc}|{i.bits}|{i.gateway}|{i.vlan}|{showStrSet i.subnets}"

def showOut (op : Op) (o : Out) : String :=
  let head := match o.err with | none => "ok" | some e => "err:" ++ showErr e
  if o.err == some .crashed then head else
  match op with
  | .allocSubnet .. | .allocRanges .. | .allocWithKey .. | .allocSpecific .. =>
      if o.err.isNone then s!"{head} ips={showNats o.ips}" else head
  | .reserve .. => if o.err.isNone then s!"{head} changed={o.changed}" else head
  | .releaseIPs .. => s!"{head} deleted={showPairs o.deleted} undeleted={showPairs o.undeleted}"
  | .deliver => "delivered"     -- the informer handler swallows the handler's error
  | _ => head

def showEvent (e : Event) : String := s!"{if e.assign then "A" else "U"}:{e.ip}:{tilde e.key}:{e.policy}"

def dump (s : State) : String :=
  let mem := s.alloc.map (fun p => (p.1, showInfo "A" (toInfo s.pools p.1 p.2))) ++
    s.free.map (fun ip => (ip, showInfo "F" (toInfo s.pools ip freeRec)))
  let mem' := dedupSorted ((sortBy (fun a b => a.1 < b.1 || (a.1 == b.1 && a.2 < b.2)) mem).map (·.2))
  let st := (sortBy (fun a b => a.1 < b.1) s.store).map (fun p => s!"{p.1}:{showRec p.2}")
  let pe := s.pending.map showEvent
  s!"mem[{joinWith "," mem'}] store[{joinWith "," st}] pend[{joinWith "," pe}]"

def showOptInfo : Option Info → String
  | none => "-"
  | some i => showInfo "A" i

def query (s : State) (ws : List String) : Option String :=
  match ws with
  | ["dump"] => some (dump s)
  | ["byprefix", p] =>
      let l := (byPrefix s (unTilde p)).map (fun i => (i.ip, showInfo "X" i))
      some ("[" ++ joinWith "," (dedupSorted ((sortBy (fun a b => a.1 < b.1 || (a.1 == b.1 && a.2 < b.2)) l).map (·.2))) ++ "]")
  | ["bykeyword", k] =>
      let l := (byKeyword s (unTilde k)).map (fun p => (p.1, s!"{p.1}:{showRec p.2}"))
      some ("[" ++ joinWith "," ((sortBy (fun a b => a.1 < b.1) l).map (·.2)) ++ "]")
  | ["byip", ip] => ip.toNat?.map (fun i => match byIP s i with | none => "-" | some r => showRec r)
  | ["first", key, ch] => do
      let c ← parseOptNat ch
      if admissibleFirst s (unTilde key) c then pure (showOptInfo (first s (unTilde key) c)) else pure "inadmissible-choice"
  | ["bykr", key, rs] => do
      let r ← parseRanges rs
      let res := byKeyAndRanges s (unTilde key) r
      let res' := if r.isEmpty then (sortBy (fun a b => a.getD 0 < b.getD 0) res) else res
      pure ("[" ++ joinWith "," (res'.map (fun o => match o with | none => "-" | some ip => toString ip)) ++ "]")
  | ["nodesubnet", ip] => ip.toNat?.map (fun i => (nodeSubnet s i).getD "-")
  | ["nsbr", rs] => (parseRanges rs).map (fun r => showStrSet (nodeSubnetsByRanges s r))
  | _ => none

def stepLine (s : State) (line : String) : State × String :=
  let ws := words line
  if ws = ["reset"] then (Galaxy.Ipam.init, "ok") else
  match query s ws with
  | some o => (s, o)
  | none =>
    match parseOp ws with
    | none => (s, "bad-op")
    | some op =>
      if !op.admissible s then (s, "inadmissible-choice")
      else
        let (s', o) := step s op
        (s', showOut op o)

end Galaxy.Drv.IpamDrv

def main : IO UInt32 := Galaxy.Drv.runLines Galaxy.Ipam.init Galaxy.Drv.IpamDrv.stepLine
