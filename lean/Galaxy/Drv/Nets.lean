/-
  gxdrv_nets: line-protocol driver around M1 `Nets` + M2 `Pool` (the definitions the C20 theorems are about).

  Strings travel hex-encoded (two lower-case hex digits per byte; a byte is one `Char` of the model's text).
  Addresses are decimal 32-bit numbers.  One output line per input line; unknown / malformed line → `bad-op`.

    ip x<hex>                     → ok <n> | err                      (parseIPv4)
    showip <n>                    → <hex>                             (showIPv4)
    range x<hex>                  → ok <first> <last> <size> <hex of showRange> | err      (parseRange)
    showrange <first> <last>      → <hex>
    cidr x<hex>                   → ok <ip> <len> | err               (parseCidr, text without quotes)
    contains <first> <last> <ip>  → true | false                      (Range.contains)
    size <ranges>                 → <n>                               (sparseSize, uint32)
    pcontains <ranges> <ip>       → true | false                      (rangesContain)
    enum <ranges>                 → <ip>,<ip>,…                       (enumerate)
    walk <ranges> <stop|->        → ok <ip>,<ip>,… | hang             (walk; stop = address at which the callback returns true)
    walk32 <fuel> <ranges>        → ok … | hang                       (pre-fix uint32 loop with fuel)
    pool <entry>                  → ok <pool> enc=<entry> | err <class>
    conf <rawconf>                → ok <pool>|<pool>… | err <class>   (decodeConf, then sortPools)
    reload <rawconf>              → unchanged|rejected|configured pools=<pool>|…   (stateful: ensureConf)
    reloadf <rawconf>             → the same with a failing ConfigurePool (ensureConfStore … false)
    reset                         → ok                                (forget the reload state)
    minus <a> <b>                 → <integer>                         (floatingip.Minus)
    less <a> <b>                  → true | false                      (FloatingIPSlice.Less on two gateways)
    insert <ranges> <gw> <len> <ip> → true|false <ranges afterwards>  (FloatingIPPool.InsertIP, RangeEdit.insertIP)
    remove <ranges> <gw> <len> <ip> → true|false <ranges afterwards>  (FloatingIPPool.RemoveIP, RangeEdit.removeIP)

    <ranges>  = f-l;f-l;…  or `-` for none
    <entry>   = null | notobj | ns=<L>,rs=<O>,ips=<L>,sn=<O>,gw=<F>,vl=<F>
                <L> = - (absent/null) | ! (wrong JSON kind) | [e;e;…]   e = n (null) | ! (wrong kind) | x<hex>
                <O> = - | x<hex>          <F> = - | ! | x<hex> | #<decimal>
    <rawconf> = null | notarray | arr <entry>|<entry>…   (`arr` alone = empty list)
    <pool>    = ns=<ip>/<len>;…,gw=<n>,pl=<n>,vlan=<n>,ranges=<f>-<l>;…,size=<n>,sub=<n>/<len>
-/
import Galaxy.Model.Pool
import Galaxy.Model.RangeEdit
import Galaxy.Drv.Common

namespace Galaxy.Drv.Nets
open Galaxy.Nets Galaxy.Pool

def hexVal (c : Char) : Option Nat :=
  if '0' ≤ c ∧ c ≤ '9' then some (c.toNat - 48)
  else if 'a' ≤ c ∧ c ≤ 'f' then some (c.toNat - 87)
  else none

def unhexList : List Char → Option (List Char)
  | [] => some []
  | [_] => none
  | a :: b :: t =>
    match hexVal a, hexVal b, unhexList t with
    | some x, some y, some r => some (Char.ofNat (16 * x + y) :: r)
    | _, _, _ => none

def unhex (s : String) : Option (List Char) := unhexList s.toList

def hexDigit (n : Nat) : Char := if n < 10 then Char.ofNat (48 + n) else Char.ofNat (87 + n)

def hex (l : List Char) : String :=
  String.ofList (l.flatMap (fun c => [hexDigit (c.toNat / 16 % 16), hexDigit (c.toNat % 16)]))

def parseIP (s : String) : Option IPv4 :=
  match s.toNat? with
  | some n => if n < 2 ^ 32 then some (BitVec.ofNat 32 n) else none
  | none => none

def allSomeL {α : Type} : List (Option α) → Option (List α)
  | [] => some []
  | none :: _ => none
  | some a :: t => (allSomeL t).map (a :: ·)

def parseRanges (s : String) : Option (List Range) :=
  if s = "-" then some []
  else allSomeL ((s.splitOn ";").map (fun t =>
    match t.splitOn "-" with
    | [a, b] => match parseIP a, parseIP b with
      | some x, some y => some ⟨x, y⟩
      | _, _ => none
    | _ => none))

def showRanges (l : List Range) : String :=
  if l.isEmpty then "-" else joinWith ";" (l.map (fun r => toString r.first.toNat ++ "-" ++ toString r.last.toNat))

def showIPs (l : List IPv4) : String := joinWith "," (l.map (fun a => toString a.toNat))

/-- strip a prefix -/
def after (pre s : String) : Option String :=
  if s.startsWith pre then some (s.drop pre.length).toString else none

def parseListBody (s : String) : Option (List String) :=
  if s.startsWith "[" && s.endsWith "]" then
    let inner := ((s.drop 1).dropEnd 1).toString
    if inner = "" then some [] else some (inner.splitOn ";")
  else none

def parseHexTok (s : String) : Option (List Char) :=
  match after "x" s with
  | some h => unhex h
  | none => none

def parseNS (s : String) : Option (Fld (List (Option (List Char)))) :=
  if s = "-" then some .absent
  else if s = "!" then some .bad
  else match parseListBody s with
    | none => none
    | some es => (allSomeL (es.map (fun e => if e = "n" then some none else (parseHexTok e).map some))).map Fld.val

def parseIPsF (s : String) : Option (Fld (List (Fld (List Char)))) :=
  if s = "-" then some .absent
  else if s = "!" then some .bad
  else match parseListBody s with
    | none => none
    | some es => (allSomeL (es.map (fun e =>
        if e = "n" then some Fld.absent else if e = "!" then some Fld.bad else (parseHexTok e).map Fld.val))).map Fld.val

def parseOptTok (s : String) : Option (Option (List Char)) :=
  if s = "-" then some none else (parseHexTok s).map some

def parseGw (s : String) : Option (Fld (List Char)) :=
  if s = "-" then some .absent else if s = "!" then some .bad else (parseHexTok s).map Fld.val

def parseVl (s : String) : Option (Fld Nat) :=
  if s = "-" then some .absent else if s = "!" then some .bad
  else match after "#" s with
    | some d => d.toNat?.map Fld.val
    | none => none

def parseEntry (s : String) : Option RawEntry :=
  if s = "null" then some .null
  else if s = "notobj" then some .notObject
  else match s.splitOn "," with
    | [a, b, c, d, e, f] =>
      match (after "ns=" a).bind parseNS, (after "rs=" b).bind parseOptTok, (after "ips=" c).bind parseIPsF,
            (after "sn=" d).bind parseOptTok, (after "gw=" e).bind parseGw, (after "vl=" f).bind parseVl with
      | some ns, some rs, some ips, some sn, some gw, some vl =>
        some (.obj { nodeSubnets := ns, routableSubnet := rs, ips := ips, subnet := sn, gateway := gw, vlan := vl })
      | _, _, _, _, _, _ => none
    | _ => none

def parseConf (ws : List String) : Option RawConf :=
  match ws with
  | ["null"] => some .null
  | ["notarray"] => some .notArray
  | ["arr"] => some (.arr [])
  | ["arr", es] => (allSomeL ((es.splitOn "|").map parseEntry)).map RawConf.arr
  | _ => none

def showOptTok : Option (List Char) → String
  | none => "-"
  | some t => "x" ++ hex t

def showEntry (r : RawPool) : String :=
  let ns := match r.nodeSubnets with
    | .absent => "-"
    | .bad => "!"
    | .val l => "[" ++ joinWith ";" (l.map (fun e => match e with | none => "n" | some t => "x" ++ hex t)) ++ "]"
  let ips := match r.ips with
    | .absent => "-"
    | .bad => "!"
    | .val l => "[" ++ joinWith ";" (l.map (fun e => match e with
        | .absent => "n" | .bad => "!" | .val t => "x" ++ hex t)) ++ "]"
  let gw := match r.gateway with
    | .absent => "-" | .bad => "!" | .val t => "x" ++ hex t
  let vl := match r.vlan with
    | .absent => "-" | .bad => "!" | .val n => "#" ++ toString n
  "ns=" ++ ns ++ ",rs=" ++ showOptTok r.routableSubnet ++ ",ips=" ++ ips ++ ",sn=" ++ showOptTok r.subnet ++
    ",gw=" ++ gw ++ ",vl=" ++ vl

def showCidrNum (c : Cidr) : String := toString c.1.toNat ++ "/" ++ toString c.2

def showPool (p : Pool) : String :=
  "ns=" ++ joinWith ";" (p.nodeSubnets.map showCidrNum) ++ ",gw=" ++ toString p.gateway.toNat ++
  ",pl=" ++ toString p.prefixLen ++ ",vlan=" ++ toString p.vlan ++
  ",ranges=" ++ joinWith ";" (p.ranges.map (fun r => toString r.first.toNat ++ "-" ++ toString r.last.toNat)) ++
  ",size=" ++ toString (poolSize p).toNat ++ ",sub=" ++ showCidrNum p.subnet

def showErr : Err → String
  | .json => "json" | .noNodeSubnet => "no-node-subnet" | .nullNodeSubnet => "null-node-subnet"
  | .noGateway => "no-gateway" | .noSubnet => "no-subnet" | .badRange => "bad-range"
  | .notInSubnet => "not-in-subnet" | .adjacency => "adjacency" | .nullPool => "null-pool" | .store => "store"

abbrev St := Reloader (Option RawConf)

def decodeOpt : Option RawConf → Except Err (List Pool)
  | none => .error .json
  | some c => decodeConf c

def showPools (ps : List Pool) : String := joinWith "|" (ps.map showPool)

def step (s : St) (line : String) : St × String :=
  match words line with
  | ["ip", h] =>
    match parseHexTok h with
    | some t => (s, match parseIPv4 t with | some a => "ok " ++ toString a.toNat | none => "err")
    | none => (s, "bad-op")
  | ["showip", n] =>
    match parseIP n with
    | some a => (s, hex (showIPv4 a))
    | none => (s, "bad-op")
  | ["range", h] =>
    match parseHexTok h with
    | some t => (s, match parseRange t with
        | some r => "ok " ++ toString r.first.toNat ++ " " ++ toString r.last.toNat ++ " " ++ toString r.size.toNat ++
            " " ++ hex (showRange r)
        | none => "err")
    | none => (s, "bad-op")
  | ["showrange", a, b] =>
    match parseIP a, parseIP b with
    | some x, some y => (s, hex (showRange ⟨x, y⟩))
    | _, _ => (s, "bad-op")
  | ["cidr", h] =>
    match parseHexTok h with
    | some t => (s, match parseCidr t with | some c => "ok " ++ toString c.1.toNat ++ " " ++ toString c.2 | none => "err")
    | none => (s, "bad-op")
  | ["contains", a, b, c] =>
    match parseIP a, parseIP b, parseIP c with
    | some x, some y, some z => (s, toString ((⟨x, y⟩ : Range).contains z))
    | _, _, _ => (s, "bad-op")
  | ["size", rs] =>
    match parseRanges rs with
    | some l => (s, toString (sparseSize l).toNat)
    | none => (s, "bad-op")
  | ["pcontains", rs, c] =>
    match parseRanges rs, parseIP c with
    | some l, some z => (s, toString (rangesContain l z))
    | _, _ => (s, "bad-op")
  | ["enum", rs] =>
    match parseRanges rs with
    | some l => (s, showIPs (enumerate l))
    | none => (s, "bad-op")
  | ["walk", rs, st] =>
    match parseRanges rs, (if st = "-" then some none else (parseIP st).map some) with
    | some l, some stop =>
      let f : IPv4 → Bool := match stop with
        | none => fun _ => false
        | some a => fun ip => ip == a
      (s, match walk f l with | some v => "ok " ++ showIPs v | none => "hang")
    | _, _ => (s, "bad-op")
  | ["walk32", fuel, rs] =>
    match fuel.toNat?, parseRanges rs with
    | some n, some l => (s, match walkFuel32 n (fun _ => false) l with | some v => "ok " ++ showIPs v | none => "hang")
    | _, _ => (s, "bad-op")
  | ["pool", e] =>
    match parseEntry e with
    | some (.obj r) => (s, match decodePool r with
        | .ok p => "ok " ++ showPool p ++ " enc=" ++ showEntry (encodePool p)
        | .error e => "err " ++ showErr e)
    | _ => (s, "bad-op")
  | "conf" :: ws =>
    match parseConf ws with
    | some c => (s, match decodeConf c with
        | .ok ps => "ok " ++ showPools (sortPools ps)
        | .error e => "err " ++ showErr e)
    | none => (s, "bad-op")
  | "reload" :: ws =>
    match parseConf ws with
    | some c =>
      let (s', o) := ensureConf decodeOpt s (some c)
      let os := match o with
        | .unchanged => "unchanged" | .rejected _ => "rejected" | .configured => "configured"
      (s', os ++ " pools=" ++ showPools s'.pools)
    | none => (s, "bad-op")
  | "reloadf" :: ws =>
    match parseConf ws with
    | some c =>
      let (s', o) := ensureConfStore decodeOpt s (some c) false
      let os := match o with
        | .unchanged => "unchanged" | .rejected _ => "rejected" | .configured => "configured"
      (s', os ++ " pools=" ++ showPools s'.pools)
    | none => (s, "bad-op")
  | ["reset"] => (⟨none, []⟩, "ok")
  | ["minus", a, b] =>
    match parseIP a, parseIP b with
    | some x, some y => (s, toString (Galaxy.Generated.Nets.minus x y).toInt)
    | _, _ => (s, "bad-op")
  | ["insert", rs, gw, pl, c] =>
    match parseRanges rs, parseIP gw, pl.toNat?, parseIP c with
    | some l, some g, some n, some z =>
      (s, match Galaxy.RangeEdit.insertIP g n z l with
        | some l' => "true " ++ showRanges l'
        | none => "false " ++ showRanges l)
    | _, _, _, _ => (s, "bad-op")
  | ["remove", rs, gw, pl, c] =>
    match parseRanges rs, parseIP gw, pl.toNat?, parseIP c with
    | some l, some g, some n, some z =>
      (s, match Galaxy.RangeEdit.removeIP g n z l with
        | some l' => "true " ++ showRanges l'
        | none => "false " ++ showRanges l)
    | _, _, _, _ => (s, "bad-op")
  | ["less", a, b] =>
    match parseIP a, parseIP b with
    | some x, some y => (s, toString (Galaxy.Generated.Nets.poolLess x y))
    | _, _ => (s, "bad-op")
  | _ => (s, "bad-op")

end Galaxy.Drv.Nets

def main : IO UInt32 := Galaxy.Drv.runLines (σ := Galaxy.Drv.Nets.St) ⟨none, []⟩ Galaxy.Drv.Nets.step
