/-
  gxdrv_lockset — line-protocol driver around M9 (`Galaxy.Lockset`) and the regenerated access table.

  One output line per input line.  Ops:

    table        -> sitesOk=<b> phaseOk=<b> accessesOk=<b> balanced=<b> accesses=<n> checked=<n> sites=<n> funcs=<n> allow=<n>
    violations   -> `-` | space separated, sorted `unguarded:<field>@<func>` of every run-phase table entry that
                    violates the discipline (allow-listed ones included: the harness classifies them)
    unbalanced   -> `-` | space separated `<how>:<lock>@<func>` for lock-balance entries that are leaked / unheld
    reentrant    -> `-` | space separated `reentrant-lock:<lock>@<caller>-><callee>`: calls made while holding <lock> to a
                    function that (transitively) acquires it again
    nestings     -> `-` | space separated `nested[-same-pool]:<outer keyed lock>-><inner keyed lock>@<func>` (+ `keyed-lock-order-cycle`)
    cachewrites  -> `-` | space separated `cache-object-mutated:<lister|event>@<func>`: writes through objects obtained from a
                    lister / informer cache
    funcs        -> space separated `<func>@<file:line>` of every function that has a table entry or a call site
    check <guards> <threads>
                 -> disc=<b> race=<none|i,j,x|unknown> states=<n>
                    guards  : comma separated `<loc>:<lock>` (lock guarded) or `<loc>:f` (frozen); `-` for none
                    threads : `|` separated threads, each a comma separated list of
                              acq<l> rel<l> racq<l> rrel<l> rd<x> wr<x>   (`-` = empty thread)
                    disc    : `ok` of every thread from empty lock sets (the hypothesis of disciplined_raceFree)
                    race    : result of the exhaustive exploration of ALL schedules with `step` / `findRace`
                              (`unknown` if more than 20000 states)
    run <threads> <sched>
                 -> ok race=<none|i,j,x> | blocked <k>
                    sched: comma separated thread indices; `blocked k` = step k of the schedule is not enabled
    anything else -> bad-op
-/
import Galaxy.Drv.Common
import Galaxy.Model.Lockset
import Galaxy.Generated.Lockset

namespace Galaxy.Drv.Lockset
open Galaxy.Lockset

def parseAction (s : String) : Option Action :=
  let num (p : String) : Option Nat := (s.drop p.length).toNat?
  if s.startsWith "racq" then (num "racq").map Action.racq
  else if s.startsWith "rrel" then (num "rrel").map Action.rrel
  else if s.startsWith "acq" then (num "acq").map Action.acq
  else if s.startsWith "rel" then (num "rel").map Action.rel
  else if s.startsWith "rd" then (num "rd").map Action.rd
  else if s.startsWith "wr" then (num "wr").map Action.wr
  else none

def parseThread (s : String) : Option (List Action) :=
  if s = "-" then some [] else (s.splitOn ",").mapM parseAction

def parseThreads (s : String) : Option (List (List Action)) := (s.splitOn "|").mapM parseThread

def parseGuard (s : String) : Option (Loc × Guard) :=
  match s.splitOn ":" with
  | [x, g] =>
    match x.toNat? with
    | none => none
    | some xn => if g = "f" then some (xn, .frozen) else g.toNat?.map fun l => (xn, .lock l)
  | _ => none

def parseGuards (s : String) : Option (List (Loc × Guard)) :=
  if s = "-" then some [] else (s.splitOn ",").mapM parseGuard

def raceStr : Option (Nat × Nat × Loc) → String
  | none => "none"
  | some (i, j, x) => s!"{i},{j},{x}"

/-- all successor states -/
def succs (s : State) : List State := (List.range s.length).filterMap (step s)

/-- exhaustive exploration of the interleavings; returns (first race found, #states, complete?) -/
partial def explore (frontier seen : List State) (n : Nat) : Option (Nat × Nat × Loc) × Nat × Bool :=
  match frontier with
  | [] => (none, n, true)
  | s :: rest =>
    if n > 20000 then (none, n, false)
    else
      match findRace s with
      | some r => (some r, n, true)
      | none =>
        let new := (succs s).filter fun t => !(seen.contains t) && !(rest.contains t)
        explore (rest ++ new.eraseDups) (s :: seen) (n + 1)

def runSched : State → List Nat → Nat → Except Nat State
  | s, [], _ => .ok s
  | s, i :: is, k =>
    match step s i with
    | none => .error k
    | some s' => runSched s' is (k + 1)

def boolStr (b : Bool) : String := if b then "true" else "false"

open Galaxy.Generated.Lockset in
def sigOf (a : Access) : String :=
  s!"unguarded:{fieldNames.getD a.field "?"}@{funcNames.getD a.fn "?"}"

def sortStrs (l : List String) : List String := (l.toArray.qsort (· < ·)).toList

open Galaxy.Generated.Lockset in
def handle (line : String) : String :=
  match Galaxy.Drv.words line with
  | ["table"] =>
    s!"sitesOk={boolStr (sitesOk table)} phaseOk={boolStr (phaseOk table)} accessesOk={boolStr (accessesOk table)} " ++
    s!"balanced={boolStr (balanced balance)} accesses={table.accesses.length} checked={(checked table).length} " ++
    s!"sites={table.sites.length} funcs={funcNames.length} allow={table.allow.length}"
  | ["violations"] =>
    let v := sortStrs ((violations table).map sigOf).eraseDups
    if v.isEmpty then "-" else Galaxy.Drv.joinWith " " v
  | ["unbalanced"] =>
    let v := balance.filter (fun b => !(b.how == .deferred || b.how == .matched))
    let strs := v.map fun b =>
      let how := match b.how with | .leaked => "leaked" | .unheld => "unheld" | .deferred => "deferred" | .matched => "matched"
      s!"{how}:{lockNames.getD b.lock "?"}@{funcNames.getD b.fn "?"}"
    if strs.isEmpty then "-" else Galaxy.Drv.joinWith " " (sortStrs strs.eraseDups)
  | ["reentrant"] =>
    let v := (reentrantSites table acqTrans acqEvents keyedLockPools).map fun (l, caller, callee) =>
      s!"reentrant-lock:{lockNames.getD l "?"}@{funcNames.getD caller "?"}->{funcNames.getD callee "?"}"
    if v.isEmpty then "-" else Galaxy.Drv.joinWith " " (sortStrs v.eraseDups)
  | ["nestings"] =>
    let ns := keyedNestings table acqTrans acqEvents keyedLockPools
    let v := ns.map fun (f, a, b) =>
      let same := poolOf keyedLockPools a == poolOf keyedLockPools b
      s!"{if same then "nested-same-pool" else "nested"}:{lockNames.getD a "?"}->{lockNames.getD b "?"}@{funcNames.getD f "?"}"
    let cyc := if acyclic (poolOrder keyedLockPools ns) then [] else ["keyed-lock-order-cycle"]
    let all := sortStrs (v ++ cyc).eraseDups
    if all.isEmpty then "-" else Galaxy.Drv.joinWith " " all
  | ["cachewrites"] =>
    let v := (cacheUses.filter fun u => u.kind == .written).map fun u =>
      s!"cache-object-mutated:{u.what}@{funcNames.getD u.fn "?"}"
    if v.isEmpty then "-" else Galaxy.Drv.joinWith " " (sortStrs v.eraseDups)
  | ["funcs"] =>
    let used := ((table.accesses.map (·.fn)) ++ (table.sites.map (·.callee)) ++ (table.sites.map (·.caller))).eraseDups
    let strs := used.map fun f => s!"{funcNames.getD f "?"}@{funcPos.getD f "?"}"
    Galaxy.Drv.joinWith " " (sortStrs strs)
  | ["check", gs, ts] =>
    match parseGuards gs, parseThreads ts with
    | some g, some ps =>
      let gf := guardOf g
      let disc := ps.all fun p => ok gf [] [] p
      let (r, n, complete) := explore [init ps] [] 0
      let rs := match r with
        | some x => raceStr (some x)
        | none => if complete then "none" else "unknown"
      s!"disc={boolStr disc} race={rs} states={n}"
    | _, _ => "bad-op"
  | ["run", ts, sc] =>
    match parseThreads ts, (if sc = "-" then some [] else (sc.splitOn ",").mapM String.toNat?) with
    | some ps, some sched =>
      match runSched (init ps) sched 0 with
      | .ok s => s!"ok race={raceStr (findRace s)}"
      | .error k => s!"blocked {k}"
    | _, _ => "bad-op"
  | _ => "bad-op"

end Galaxy.Drv.Lockset

def main : IO UInt32 := Galaxy.Drv.runLines () (fun s l => (s, Galaxy.Drv.Lockset.handle l))
