/-
  gxdrv_keys: line-protocol driver around `Galaxy.Model.Keys` (property C11).

  One op per line, fields separated by single spaces.  A string field is `=` followed by the string with every
  byte outside `[A-Za-z0-9._-]` written as `%XX` (so `=` alone is the empty string); the model works on bytes.
  Numbers are decimal.  Ops:

    fmt =ns =name =pool n [=kind =ownername]*n   FormatKey      -> err | ok key= tp= app= pod= ns= pool= pp= pap=
    parse =key                                   ParseKey       -> key= tp= app= pod= ns= pool=
    newkey =tp =ns =app =pod =pool               NewKeyObj      -> key= pp= pap=
    atp =kind                                    GetAppTypePrefix -> =prefix
    at =prefix                                   GetAppType     -> =type
    ppage =s | psize =s                          ParsePage / ParseSize -> n
    pagin page size len                          Pagination     -> start end last first totalElements totalPages numberOfElements size number | div0
    convert =key                                 api.convert    -> ns= app= pod= pool= appType=
    relkey =appType =ns =app =pod =pool          key ReleaseIPs rebuilds -> =key
    listkey =appType =ns =app =pod =pool         key ListIPs queries     -> =key
    reset | alloc ip =key | dump                 allocation table (ip ↦ key); dump -> dump:ip=key,… sorted by ip
    release ip =appType =ns =app =pod =pool inLister running   one entry of a ReleaseIPs request
                                                 -> released | free | other | running | notreleasable
    request k (ip =appType =ns =app =pod =pool inLister running)*k   one ReleaseIPs request with k entries
                                                 -> unreleased:ip,ip,…  (the handler's `unreleased` list, in its order)
  Anything else -> bad-op.
-/
import Galaxy.Model.Keys
import Galaxy.Drv.Common

namespace Galaxy.Drv.Keys
open Galaxy Galaxy.Keys

def hexDigit (n : Nat) : Char :=
  if n < 10 then Char.ofNat (48 + n) else Char.ofNat (55 + n)

def hexVal (c : Char) : Option Nat :=
  if '0' ≤ c ∧ c ≤ '9' then some (c.toNat - 48)
  else if 'A' ≤ c ∧ c ≤ 'F' then some (c.toNat - 55)
  else if 'a' ≤ c ∧ c ≤ 'f' then some (c.toNat - 87)
  else none

def safeChar (c : Char) : Bool :=
  c.isAlphanum || c = '.' || c = '_' || c = '-'

def encChars : Str → Str
  | [] => []
  | c :: cs =>
    if safeChar c then c :: encChars cs
    else '%' :: hexDigit (c.toNat / 16 % 16) :: hexDigit (c.toNat % 16) :: encChars cs

def enc (s : Str) : String := String.ofList ('=' :: encChars s)

def decChars : Str → Option Str
  | [] => some []
  | '%' :: a :: b :: cs =>
    match hexVal a, hexVal b, decChars cs with
    | some x, some y, some r => some (Char.ofNat (x * 16 + y) :: r)
    | _, _, _ => none
  | '%' :: _ => none
  | c :: cs =>
    match decChars cs with
    | some r => some (c :: r)
    | none => none

/-- a string field: `=` + escaped text -/
def dec (tok : String) : Option Str :=
  match tok.toList with
  | '=' :: r => decChars r
  | _ => none

def decAll : List String → Option (List Str)
  | [] => some []
  | t :: ts =>
    match dec t, decAll ts with
    | some a, some r => some (a :: r)
    | _, _ => none

def showKeyObj (k : KeyObj) : String :=
  s!"key{enc k.key} tp{enc k.tp} app{enc k.app} pod{enc k.pod} ns{enc k.ns} pool{enc k.pool}"

def b2s (b : Bool) : String := if b then "true" else "false"

def owners : List Str → Option (List Owner)
  | [] => some []
  | k :: n :: r =>
    match owners r with
    | some os => some (⟨k, n⟩ :: os)
    | none => none
  | _ => none

def showOut : RelOut → String
  | .released => "released"
  | .free => "free"
  | .other => "other"
  | .running => "running"
  | .notReleasable => "notreleasable"

def insertSorted (p : Nat × Str) : List (Nat × Str) → List (Nat × Str)
  | [] => [p]
  | q :: r => if p.1 ≤ q.1 then p :: q :: r else q :: insertSorted p r

def sortByIp (l : List (Nat × Str)) : List (Nat × Str) := l.foldr insertSorted []

def parseBool (s : String) : Option Bool :=
  if s = "true" then some true else if s = "false" then some false else none

/-- groups of 8 tokens: ip =appType =ns =app =pod =pool inLister running -/
def parseEntries : List String → Option (List (Entry × Bool × Bool))
  | [] => some []
  | ip :: at_ :: ns :: app :: pod :: pool :: inl :: run :: rest =>
    match ip.toNat?, dec at_, dec ns, dec app, dec pod, dec pool, parseBool inl, parseBool run, parseEntries rest with
    | some ip, some at_, some ns, some app, some pod, some pool, some inl, some run, some r =>
      some ((⟨ip, ns, app, pod, pool, at_⟩, inl, run) :: r)
    | _, _, _, _, _, _, _, _, _ => none
  | _ => none

def flagOf (l : List (Entry × Bool × Bool)) (sel : Bool × Bool → Bool) (e : Entry) : Bool :=
  match l.find? (fun x => x.1 = e) with
  | some x => sel x.2
  | none => false

def step (a : Alloc) (line : String) : Alloc × String :=
  match line.splitOn " " with
  | "fmt" :: ns :: name :: pool :: n :: rest =>
    match dec ns, dec name, dec pool, n.toNat?, decAll rest with
    | some ns, some name, some pool, some n, some rest =>
      match owners rest with
      | some os =>
        if os.length = n then
          match formatKey ⟨ns, name, pool, os⟩ with
          | none => (a, "err")
          | some k => (a, s!"ok {showKeyObj k} pp{enc (poolPrefixOf k)} pap{enc (poolAppPrefixOf k)}")
        else (a, "bad-op")
      | none => (a, "bad-op")
    | _, _, _, _, _ => (a, "bad-op")
  | ["parse", key] =>
    match dec key with
    | some key => (a, showKeyObj (parseKey key))
    | none => (a, "bad-op")
  | ["newkey", tp, ns, app, pod, pool] =>
    match dec tp, dec ns, dec app, dec pod, dec pool with
    | some tp, some ns, some app, some pod, some pool =>
      let k := newKeyObj tp ns app pod pool
      (a, s!"key{enc k.key} pp{enc (poolPrefixOf k)} pap{enc (poolAppPrefixOf k)}")
    | _, _, _, _, _ => (a, "bad-op")
  | ["atp", kind] =>
    match dec kind with
    | some kind => (a, enc (getAppTypePrefix kind))
    | none => (a, "bad-op")
  | ["at", tp] =>
    match dec tp with
    | some tp => (a, enc (getAppType tp))
    | none => (a, "bad-op")
  | ["ppage", s] =>
    match dec s with
    | some s => (a, toString (parsePage s))
    | none => (a, "bad-op")
  | ["psize", s] =>
    match dec s with
    | some s => (a, toString (parseSize s))
    | none => (a, "bad-op")
  | ["pagin", page, size, len] =>
    match page.toInt?, size.toInt?, len.toInt? with
    | some page, some size, some len =>
      if size = 0 then (a, "div0") else
      let r := pagination page size len
      let i := r.2.2
      (a, s!"{r.1} {r.2.1} {b2s i.last} {b2s i.first} {i.totalElements} {i.totalPages} {i.numberOfElements} {i.size} {i.number}")
    | _, _, _ => (a, "bad-op")
  | ["convert", key] =>
    match dec key with
    | some key =>
      let e := convert 0 key
      (a, s!"ns{enc e.ns} app{enc e.app} pod{enc e.pod} pool{enc e.pool} appType{enc e.appType}")
    | none => (a, "bad-op")
  | ["relkey", at_, ns, app, pod, pool] =>
    match dec at_, dec ns, dec app, dec pod, dec pool with
    | some at_, some ns, some app, some pod, some pool => (a, enc (releaseKey ⟨0, ns, app, pod, pool, at_⟩))
    | _, _, _, _, _ => (a, "bad-op")
  | ["listkey", at_, ns, app, pod, pool] =>
    match dec at_, dec ns, dec app, dec pod, dec pool with
    | some at_, some ns, some app, some pod, some pool => (a, enc (listKey at_ ns app pod pool))
    | _, _, _, _, _ => (a, "bad-op")
  | ["reset"] => ([], "ok")
  | ["alloc", ip, key] =>
    match ip.toNat?, dec key with
    | some ip, some key => (Tbl.set a ip key, "ok")
    | _, _ => (a, "bad-op")
  | ["dump"] =>
    (a, "dump:" ++ joinWith "," ((sortByIp (Tbl.dedup a)).map (fun p => s!"{p.1}{enc p.2}")))
  | ["release", ip, at_, ns, app, pod, pool, inl, run] =>
    match ip.toNat?, dec at_, dec ns, dec app, dec pod, dec pool with
    | some ip, some at_, some ns, some app, some pod, some pool =>
      if (inl = "true" ∨ inl = "false") ∧ (run = "true" ∨ run = "false") then
        let r := releaseEntry a (fun _ => inl = "true") (fun _ => run = "true") ⟨ip, ns, app, pod, pool, at_⟩
        (r.1, showOut r.2)
      else (a, "bad-op")
    | _, _, _, _, _, _ => (a, "bad-op")
  | "request" :: k :: rest =>
    match k.toNat?, parseEntries rest with
    | some k, some l =>
      if l.length = k then
        let r := releaseRequest a (flagOf l (·.1)) (flagOf l (·.2)) (l.map (·.1))
        (r.1, "unreleased:" ++ joinWith "," (r.2.map toString))
      else (a, "bad-op")
    | _, _ => (a, "bad-op")
  | _ => (a, "bad-op")

end Galaxy.Drv.Keys

def main : IO UInt32 := Galaxy.Drv.runLines ([] : Galaxy.Keys.Alloc) Galaxy.Drv.Keys.step
