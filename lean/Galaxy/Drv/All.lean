import Galaxy.Drv.Common

namespace Galaxy.Drv

def dispatch (args : List String) : IO UInt32 :=
  match args with
  | _ => do
    IO.eprintln "usage: gxdriver <model> [args]"
    return 2

end Galaxy.Drv
