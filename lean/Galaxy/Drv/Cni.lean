/-
  gxdrv_cni — line-protocol driver around the CNI multiplexer model (Galaxy.Model.Cni).  Core Lean only.

  Every string is written `x<hex of its bytes>` (ASCII), so no token contains a separator.

    conf copy=<gen|0|1> nets=<N,…|-> dir=<N,…|-> def=<S,…|-> eni=<S>         N = name:type:digest   -> ok
    pod <id> ann=<S> json=<none|err|empty|E,…> eni=<0|1> ext=<err|empty|K:V,…>  E = name:iface        -> ok
    sel <id> <ifname>                              -> none | name/type/digest/ifname,…
    add <cid> <ifname> <args> <podid|-> <bits|->   -> ok|err [inv | inv …]
    del <cid> <ifname> <args> <bits|->             -> ok|err [inv | inv …]
    file <cid>                                     -> none | name/type/digest/ifname/{args}/prev,…

  inv = ADD|DEL cid type digest ifname {k=v,…sorted} prev     prev = - | cid/digest/ifname
  bits: character k is the outcome of the k-th plugin invocation of the request (1 ok, 0 fail; default 1).
  `copy=gen` takes the regenerated fact `getNetworkConfReturnsCopy`.
-/
import Galaxy.Drv.Common
import Galaxy.Model.Cni

namespace Galaxy.Drv.Cni
open Galaxy Galaxy.Cni

def hexDigit (n : Nat) : Char := if n < 10 then Char.ofNat (48 + n) else Char.ofNat (87 + n)

def hexVal (c : Char) : Option Nat :=
  if '0' ≤ c && c ≤ '9' then some (c.toNat - 48)
  else if 'a' ≤ c && c ≤ 'f' then some (c.toNat - 87)
  else none

def encChars : Str → List Char
  | [] => []
  | c :: t => hexDigit (c.toNat / 16 % 16) :: hexDigit (c.toNat % 16) :: encChars t

def enc (s : Str) : String := String.ofList ('x' :: encChars s)

def decChars : List Char → Option Str
  | [] => some []
  | [_] => none
  | a :: b :: t => match hexVal a, hexVal b, decChars t with
    | some x, some y, some r => some (Char.ofNat (x * 16 + y) :: r)
    | _, _, _ => none

def dec (s : String) : Option Str :=
  match s.toList with
  | 'x' :: t => decChars t
  | _ => none

def mapOpt {α β : Type} (f : α → Option β) : List α → Option (List β)
  | [] => some []
  | a :: t => match f a, mapOpt f t with
    | some b, some r => some (b :: r)
    | _, _ => none

/-- `-` = empty list, else comma separated -/
def listOf {β : Type} (f : String → Option β) (s : String) : Option (List β) :=
  if s = "-" || s = "empty" then some [] else mapOpt f (s.splitOn ",")

def decNet (s : String) : Option (Str × Conf) :=
  match s.splitOn ":" with
  | [n, t, d] => match dec n, dec t, dec d with
    | some n, some t, some d => if t.isEmpty then none else some (n, ⟨t, d⟩)
    | _, _, _ => none
  | _ => none

def decPair (s : String) : Option (Str × Str) :=
  match s.splitOn ":" with
  | [a, b] => match dec a, dec b with
    | some a, some b => some (a, b)
    | _, _ => none
  | _ => none

def decElem (s : String) : Option Elem := (decPair s).map (fun p => ⟨p.1, p.2⟩)

/-- `key=value` -/
def kv (key : String) (tok : String) : Option String :=
  if tok.startsWith (key ++ "=") then some ((tok.drop (key.length + 1)).toString) else none

structure D where
  st : Static
  s : State
  pods : List (String × Pod)

def D.init : D :=
  ⟨⟨[], [], [], [], Galaxy.Generated.Cni.getNetworkConfReturnsCopy⟩, State.init, []⟩

def outcomes (bits : String) : Nat → Bool :=
  let l := if bits = "-" then [] else bits.toList
  fun k => match l[k]? with
    | some '0' => false
    | _ => true

def insertSorted (x : String) : List String → List String
  | [] => [x]
  | y :: t => if x ≤ y then x :: y :: t else y :: insertSorted x t

def sortStrings (l : List String) : List String := l.foldl (fun acc x => insertSorted x acc) []

def showArgTbl (t : Tbl Str Str) : String :=
  "{" ++ joinWith "," (sortStrings ((Tbl.dedup t).map (fun p => enc p.1 ++ "=" ++ enc p.2))) ++ "}"

def showPrev : Option Src → String
  | none => "-"
  | some r => enc r.cid ++ "/" ++ enc r.digest ++ "/" ++ enc r.ifname

def showInv (i : Inv) : String :=
  joinWith " " [(match i.cmd with | .add => "ADD" | .del => "DEL"), enc i.cid, enc i.ptype, enc i.digest,
    enc i.ifname, showArgTbl (parseArgs i.args), showPrev i.prev]

def showOut (o : Out) : String :=
  (if o.ok then "ok" else "err") ++ " [" ++ joinWith " | " (o.invs.map showInv) ++ "]"

def showInfo (n : NetInfo) : String :=
  joinWith "/" [enc n.name, enc n.conf.ptype, enc n.conf.digest, enc n.ifname,
    "{" ++ joinWith "," (sortStrings (n.args.map (fun p => enc p.1 ++ "=" ++ enc p.2))) ++ "}", showPrev n.prev]

def lookupPod (d : D) (id : String) : Option Pod := (d.pods.find? (fun p => p.1 = id)).map (·.2)

def opConf (d : D) (toks : List String) : Option D :=
  match toks with
  | [c, n, di, df, e] =>
    match kv "copy" c, (kv "nets" n).bind (listOf decNet), (kv "dir" di).bind (listOf decNet),
          (kv "def" df).bind (listOf dec), (kv "eni" e).bind dec with
    | some c, some nets, some dir, some dflt, some eni =>
      let copy : Option Bool := if c = "gen" then some Galaxy.Generated.Cni.getNetworkConfReturnsCopy
        else if c = "1" then some true else if c = "0" then some false else none
      match copy with
      | some b => some { d with st := ⟨nets, dir, dflt, eni, b⟩, s := State.init }
      | none => none
    | _, _, _, _, _ => none
  | _ => none

def opPod (d : D) (toks : List String) : Option D :=
  match toks with
  | [id, a, j, e, x] =>
    match (kv "ann" a).bind dec, kv "json" j, kv "eni" e, kv "ext" x with
    | some ann, some j, some e, some x =>
      let js : Option (Option (List Elem)) :=
        if j = "none" || j = "err" then some none else (listOf decElem j).map some
      let ext : Option (Option Args) := if x = "err" then some none else (listOf decPair x).map some
      let eni : Option Bool := if e = "1" then some true else if e = "0" then some false else none
      match js, ext, eni with
      | some js, some ext, some eni =>
        some { d with pods := (id, ⟨ann, js, eni, ext⟩) :: d.pods.filter (fun p => p.1 ≠ id) }
      | _, _, _ => none
    | _, _, _, _ => none
  | _ => none

def validBits (b : String) : Bool := b = "-" || b.toList.all (fun c => c = '0' || c = '1')

def step (d : D) (line : String) : D × String :=
  match words line with
  | "conf" :: rest => match opConf d rest with
    | some d' => (d', "ok")
    | none => (d, "bad-op")
  | "pod" :: rest => match opPod d rest with
    | some d' => (d', "ok")
    | none => (d, "bad-op")
  | ["sel", id, ifn] => match lookupPod d id, dec ifn with
    | some p, some ifn => match select d.st p ifn with
      | none => (d, "none")
      | some l => (d, "[" ++ joinWith "," (l.map (fun n => joinWith "/" [enc n.name, enc n.conf.ptype, enc n.conf.digest, enc n.ifname])) ++ "]")
    | _, _ => (d, "bad-op")
  | ["add", cid, ifn, args, pod, bits] =>
    match dec cid, dec ifn, dec args, validBits bits with
    | some cid, some ifn, some args, true =>
      let p : Option (Option Pod) := if pod = "-" then some none else (lookupPod d pod).map some
      match p with
      | some p =>
        let o := Galaxy.Cni.step d.st d.s ⟨.add, cid, ifn, args, p⟩ (outcomes bits)
        ({ d with s := o.state }, showOut o)
      | none => (d, "bad-op")
    | _, _, _, _ => (d, "bad-op")
  | ["del", cid, ifn, args, bits] =>
    match dec cid, dec ifn, dec args, validBits bits with
    | some cid, some ifn, some args, true =>
      let o := Galaxy.Cni.step d.st d.s ⟨.del, cid, ifn, args, none⟩ (outcomes bits)
      ({ d with s := o.state }, showOut o)
    | _, _, _, _ => (d, "bad-op")
  | ["file", cid] => match dec cid with
    | some cid => match d.s.files.get cid with
      | none => (d, "none")
      | some l => (d, "[" ++ joinWith "," (l.map showInfo) ++ "]")
    | none => (d, "bad-op")
  | _ => (d, "bad-op")

end Galaxy.Drv.Cni

def main : IO UInt32 := Galaxy.Drv.runLines Galaxy.Drv.Cni.D.init Galaxy.Drv.Cni.step
