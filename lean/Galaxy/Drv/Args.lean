/-
  gxdrv_args — line-protocol driver around Galaxy.Model.Args (C13).  Stateless; one output line per input line.

  Tokens: strings are written H(s) = `-` for the empty string, otherwise the code points in hex joined by '.'.
  An IP record ("item") is `a.b.c.d/plen/vlan/a.b.c.d` (decimal).  A permutation is `-` (empty) or `i,j,k`.

    build <perm> k1 v1 k2 v2 …      -> ok H(BuildCNIArgs under that iteration order) wf=0|1   | inadmissible-choice
    acc <prev> <perm> k1 v1 …       -> ok H(TrimRight(prev + ";" + BuildCNIArgs(m), ";"))     | inadmissible-choice
    parse <s>                       -> ok k:v k:v …            (sorted by key)
    enc <item>…                     -> ok H(json text of the ipinfos member) | not-wf
    ann <item>…                     -> ok H(annotation text of MarshalCniArgs) | not-wf
    common <item>…                  -> ok k:v …                (what parseExtendedCNIArgs extracts)
    dec <text>                      -> ok item,item… | noncanonical
    plugin <args>                   -> ok item,… | fallback | empty | undecodable
    pipe <req> <n> <item>…          -> per network, joined by '|': the plugin verdict as for `plugin`
  anything else                     -> bad-op
-/
import Galaxy.Model.Args
import Galaxy.Drv.Common

namespace Galaxy.Drv.Args
open Galaxy Galaxy.Args

def hexVal (c : Char) : Option Nat :=
  if '0' ≤ c ∧ c ≤ '9' then some (c.toNat - 48)
  else if 'a' ≤ c ∧ c ≤ 'f' then some (c.toNat - 87)
  else if 'A' ≤ c ∧ c ≤ 'F' then some (c.toNat - 55)
  else none

def parseHex (s : String) : Option Nat :=
  if s.isEmpty || s.length > 6 then none
  else s.toList.foldl (fun acc c => do let a ← acc; let d ← hexVal c; pure (16 * a + d)) (some 0)

def unH (tok : String) : Option Str :=
  if tok = "-" then some []
  else (tok.splitOn ".").mapM (fun h => do
    let n ← parseHex h
    if n.isValidChar then some (Char.ofNat n) else none)

def toH (s : Str) : String :=
  if s.isEmpty then "-"
  else String.intercalate "." (s.map (fun c => String.ofList (Nat.toDigits 16 c.toNat)))

def parsePerm (tok : String) : Option (List Nat) :=
  if tok = "-" then some [] else (tok.splitOn ",").mapM String.toNat?

def parsePairs : List String → Option (Tbl Str Str)
  | [] => some []
  | k :: v :: r => do
    let k' ← unH k
    let v' ← unH v
    let rest ← parsePairs r
    pure ((k', v') :: rest)
  | _ => none

def parseIPTok (s : String) : Option IPv4 :=
  match (s.splitOn ".").mapM String.toNat? with
  | some [a, b, c, d] => some ⟨a, b, c, d⟩
  | _ => none

def parseItem (s : String) : Option IPInfo :=
  match s.splitOn "/" with
  | [ip, pl, vl, gw] => do
    let ip' ← parseIPTok ip
    let pl' ← pl.toNat?
    let vl' ← vl.toNat?
    let gw' ← parseIPTok gw
    pure ⟨ip', pl', vl', gw'⟩
  | _ => none

def showIPTok (x : IPv4) : String := s!"{x.a}.{x.b}.{x.c}.{x.d}"
def showItem (x : IPInfo) : String := s!"{showIPTok x.ip}/{x.plen}/{x.vlan}/{showIPTok x.gw}"
def showItems (l : List IPInfo) : String := if l.isEmpty then "-" else String.intercalate "," (l.map showItem)

def allWF (l : List IPInfo) : Bool := l.all (fun x => decide x.WF)

def showMap (t : Tbl Str Str) : String :=
  let sorted := t.mergeSort (fun x y => !decide (y.1 < x.1))
  String.intercalate " " ("ok" :: sorted.map (fun kv => toH kv.1 ++ ":" ++ toH kv.2))

def showPlugin : PluginIPs → String
  | .ok l => "ok " ++ showItems l
  | .fallback => "fallback"
  | .empty => "empty"
  | .undecodable => "undecodable"

def step (_ : Unit) (line : String) : Unit × String :=
  let out : String :=
    match words line with
    | "build" :: perm :: rest =>
      match parsePerm perm, parsePairs rest with
      | some π, some m =>
        if decide (Admissible m π) then
          "ok " ++ toH (buildArgs m π) ++ " wf=" ++ (if decide (WFMap m) then "1" else "0")
        else "inadmissible-choice"
      | _, _ => "bad-op"
    | "acc" :: prev :: perm :: rest =>
      match unH prev, parsePerm perm, parsePairs rest with
      | some p, some π, some m =>
        if decide (Admissible m π) then "ok " ++ toH (accumulate p m π) else "inadmissible-choice"
      | _, _, _ => "bad-op"
    | ["parse", s] =>
      match unH s with
      | some s' => showMap (parseArgs s')
      | none => "bad-op"
    | "enc" :: items =>
      match items.mapM parseItem with
      | some l => if allWF l then "ok " ++ toH (encodeIPInfos l) else "not-wf"
      | none => "bad-op"
    | "ann" :: items =>
      match items.mapM parseItem with
      | some l => if allWF l then "ok " ++ toH (annotationText l) else "not-wf"
      | none => "bad-op"
    | "common" :: items =>
      match items.mapM parseItem with
      | some l => if allWF l then showMap (commonOf l) else "not-wf"
      | none => "bad-op"
    | ["dec", t] =>
      match unH t with
      | some t' =>
        match decodeIPInfos t' with
        | some l => "ok " ++ showItems l
        | none => "noncanonical"
      | none => "bad-op"
    | ["plugin", a] =>
      match unH a with
      | some a' => showPlugin (pluginDecode a')
      | none => "bad-op"
    | "pipe" :: req :: n :: items =>
      match unH req, n.toNat?, items.mapM parseItem with
      | some r, some n', some l =>
        if !allWF l then "not-wf"
        else if n' = 0 then "bad-op"
        else
          let π := List.range (commonOf l).length
          String.intercalate "|" ((pipeline r l (List.replicate n' π)).map showPlugin)
      | _, _, _ => "bad-op"
    | _ => "bad-op"
  ((), out)

end Galaxy.Drv.Args

def main : IO UInt32 := Galaxy.Drv.runLines () Galaxy.Drv.Args.step
