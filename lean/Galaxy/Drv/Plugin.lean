/-
  gxdrv_plugin: line-protocol driver around the M4-core model (`Galaxy.Plugin.step`, facts = regenerated).
  One output line per input line.  Tokens are separated by single spaces; the empty string is `~`, an absent
  option / empty list is `-`.

    init <pools> <nodes> <prov>                      pools = pool;pool   pool = gw/bits/vlan|base@bits,…|first-last,…
                                                     nodes = name:ip,…   prov = 0|1
    pod create <ns> <name> <kind> <app> <pool> <policy> <ranges> <wants>     kind = sts|dp|bare|other
                                                     ranges = f-l,f-l;f-l   (`;` separates the range lists)
    pod delete|finish|run <ns> <name>
    app scale <kind> <ns> <app> <replicas> | app delete <kind> <ns> <app>
    pool set <name> <size> | pool del <name>
    sync pods|apps|all
    drop <i>
    filter <ns> <name> <nodes> <first> <pick> <fault>
    preempt <ns> <name> <nodes> <first> <pick> <fault>      (Preempt: getSubnet without the pod lock; answer = nodes kept)
    bind <ns> <name> <uid> <node> <first> <pick> <fault> <pfault>
    deliver <i> <fault> <pfault>
    resync <order> <fault> <pfault>
    (bind … <fault> <pfault> [lost|unavail]: the Binding call's response is lost / the apiserver is unavailable)
    admres <ip> <text> <policy> | admunres <ip>      (administrator's reservation: labelled object + its watch event)
    resyncsnap                                       (fetchChecklist: the snapshot is kept)
    resyncrec <ip> <fault> <pfault>                  (one iteration of the resync loop for a snapshot entry)
    syncips <fault>
    release <ip> <typ> <ns> <app> <pod> <pool> <fault> <pfault>
    reload <pools> <fault>
    restart
    crash <k> <j> <move line>                        (the move runs, the process dies after k apiserver calls and j provider
                                                     requests of it, a new process starts: `crashAt`)
    dump
    noguard on|off          (test switch: run the following moves WITHOUT the unbind UID guard, for replays of D2)

  answers: `ok …` | `err <class>` | `inadmissible-choice` | `bad-op`; `dump` prints the canonical digest.
-/
import Galaxy.Model.Plugin
import Galaxy.Drv.Common

namespace Galaxy.Drv.PluginDrv
open Galaxy.Plugin

def unTilde (s : String) : String := if s = "~" then "" else s
def tilde (s : String) : String := if s = "" then "~" else s

def splitList (sep : String) (s : String) : List String := if s = "-" || s = "" then [] else s.splitOn sep

def allSome {α : Type} : List (Option α) → Option (List α)
  | [] => some []
  | none :: _ => none
  | some a :: t => (allSome t).map (a :: ·)

def parseNats (sep : String) (s : String) : Option (List Nat) := allSome ((splitList sep s).map String.toNat?)

def parseOptNat (s : String) : Option (Option Nat) := if s = "-" then some none else s.toNat?.map some

def parseRange (s : String) : Option (Nat × Nat) :=
  match s.splitOn "-" with
  | [a, b] => do let x ← a.toNat?; let y ← b.toNat?; pure (x, y)
  | _ => none

def parseRangeList (s : String) : Option (List (Nat × Nat)) := allSome ((splitList "," s).map parseRange)
def parseRanges (s : String) : Option (List (List (Nat × Nat))) := allSome ((splitList ";" s).map parseRangeList)

def parseSubnet (s : String) : Option Subnet :=
  match s.splitOn "@" with
  | [b, n] => do let x ← b.toNat?; let y ← n.toNat?; pure { base := x, bits := y }
  | _ => none

def parsePool (s : String) : Option Pool :=
  match s.splitOn "|" with
  | [hd, subs, rs] =>
    match hd.splitOn "/" with
    | [g, b, v] => do
      let gw ← g.toNat?; let bits ← b.toNat?; let vlan ← v.toNat?
      let ns ← allSome ((splitList "," subs).map parseSubnet)
      let ranges ← parseRangeList rs
      pure { nodeSubnets := ns, ranges := ranges, bits := bits, gateway := gw, vlan := vlan }
    | _ => none
  | _ => none

def parsePools (s : String) : Option (List Pool) := allSome ((splitList ";" s).map parsePool)

def parseNodes (s : String) : Option (Tbl String Nat) :=
  allSome ((splitList "," s).map (fun t =>
    match t.splitOn ":" with
    | [n, ip] => ip.toNat?.map (fun x => (n, x))
    | _ => none))

def parseKind : String → Option Kind
  | "sts" => some .sts | "dp" => some .dp | "bare" => some .bare | "other" => some .other | _ => none

def parseBool : String → Option Bool
  | "0" => some false | "1" => some true | _ => none

/-! ### printing -/

def insertBy {α : Type} (lt : α → α → Bool) (x : α) : List α → List α
  | [] => [x]
  | y :: t => if lt x y then x :: y :: t else y :: insertBy lt x t

def sortBy {α : Type} (lt : α → α → Bool) (l : List α) : List α := l.foldr (insertBy lt) []

def showRec (e : IP × Rec) : String :=
  toString e.1 ++ ":" ++ tilde e.2.key.render ++ "|" ++ toString e.2.policy ++ "|" ++ tilde e.2.node ++ "|" ++
    toString e.2.uid ++ "|" ++ (if e.2.reserved then "1" else "0")

def showTbl (t : Tbl IP Rec) : String :=
  joinWith ";" ((sortBy (fun a b => a.1 < b.1) t).map showRec)

def showHInfo (h : HInfo) : String :=
  toString h.ip ++ "/" ++ toString h.bits ++ "/" ++ toString h.gw ++ "/" ++ toString h.vlan

def showPhase : Phase → String
  | .pending => "P" | .running => "R" | .finished => "F"

def showPod (p : Pod) : String :=
  p.ns ++ "/" ++ p.name ++ ":" ++ toString p.uid ++ "|" ++ showPhase p.phase ++ "|" ++ tilde p.node ++ "|" ++
    (if p.handed.isEmpty then "-" else joinWith "+" (p.handed.map showHInfo)) ++ (if p.terminating then "|T" else "")

def pcallIP : PCall → IP
  | .assign _ ip _ => ip
  | .unassign _ ip _ => ip

def showPCall : PCall → String
  | .assign n _ ok => "A." ++ tilde n ++ "." ++ (if ok then "1" else "0")
  | .unassign n _ ok => "U." ++ tilde n ++ "." ++ (if ok then "1" else "0")

/-- provider log in canonical form: per address (ascending) the sequence of requests -/
def showPlog (l : List PCall) : String :=
  let ips := sortBy (fun a b => a < b) (l.map pcallIP).eraseDups
  joinWith ";" (ips.map (fun ip => toString ip ++ ":" ++ joinWith ">" ((l.filter (fun c => pcallIP c == ip)).map showPCall)))

def dump (s : State) : String :=
  "alloc{" ++ showTbl s.alloc ++ "} free{" ++
    joinWith "," ((sortBy (fun a b => a < b) s.free).map toString) ++ "} store{" ++ showTbl (s.store ++ s.orphans) ++
    "} pods{" ++ joinWith ";" ((sortBy (fun a b => a < b) (s.pods.vals.map showPod))) ++
    "} events{" ++ joinWith "," (s.events.map (fun e =>
      e.pod.ns ++ "/" ++ e.pod.name ++ ":" ++ toString e.pod.uid ++ ":" ++ toString e.retries)) ++
    "} prov{" ++ joinWith "," ((sortBy (fun a b => a.1 < b.1) s.assigned).map (fun e => toString e.1 ++ "=" ++ tilde e.2)) ++
    "} plog{" ++ showPlog s.plog ++ "} snap{" ++
    joinWith "," ((sortBy (fun a b => a < b) (s.resyncSnap.map (·.1))).map toString) ++ "}"

def showOut (kindTag : String) (o : Out) : String :=
  match o.res with
  | .inadmissible => "inadmissible-choice"
  | .err c => "err " ++ c
  | .ok =>
    if kindTag = "filter" then "ok nodes=" ++ (if o.nodes.isEmpty then "-" else joinWith "," o.nodes)
    else if kindTag = "bind" then "ok ips=" ++ (if o.ips.isEmpty then "-" else joinWith "," (o.ips.map showHInfo))
    else "ok"

/-! ### op lines -/

structure DS where
  s : State := {}
  F : Facts := facts

def parseMove (w : List String) : Option (String × Move) :=
  match w with
  | ["pod", "create", ns, name, kind, app, pool, policy, ranges, wants] => do
    let k ← parseKind kind; let pol ← policy.toNat?; let rs ← parseRanges ranges; let wt ← parseBool wants
    pure ("create", .createPod ns name k (unTilde app) (unTilde pool) pol rs wt)
  | ["pod", "delete", ns, name] => some ("", .deletePod ns name)
  | ["pod", "finish", ns, name] => some ("", .finishPod ns name)
  | ["pod", "run", ns, name] => some ("", .runPod ns name)
  | ["pod", "term", ns, name, fault] => do let k ← fault.toNat?; pure ("", .markTerminating ns name k)
  | ["app", "scale", kind, ns, app, n] => do
    let k ← parseKind kind; let r ← n.toNat?; pure ("", .scale k ns app r)
  | ["app", "delete", kind, ns, app] => do let k ← parseKind kind; pure ("", .deleteApp k ns app)
  | ["pool", "set", name, n] => do let r ← n.toNat?; pure ("", .setPool name (some r))
  | ["pool", "del", name] => some ("", .setPool name none)
  | ["sync", "pods"] => some ("", .listerSync true false)
  | ["sync", "apps"] => some ("", .listerSync false true)
  | ["sync", "all"] => some ("", .listerSync true true)
  | ["fipsync"] => some ("", .fipSync)
  | ["drop", i] => do let n ← i.toNat?; pure ("", .dropEvent n)
  | ["filter", ns, name, nodes, first, pick, fault] => do
    let f ← parseOptNat first; let p ← parseOptNat pick; let k ← fault.toNat?
    pure ("filter", .filter ns name (splitList "," nodes) { first := f, pick := p } k)
  | ["preempt", ns, name, nodes, first, pick, fault] => do
    let f ← parseOptNat first; let p ← parseOptNat pick; let k ← fault.toNat?
    pure ("filter", .preempt ns name (splitList "," nodes) { first := f, pick := p } k)
  | ["bind", ns, name, uid, node, first, pick, fault, pfault] => do
    let u ← uid.toNat?; let f ← parseOptNat first; let p ← parseOptNat pick
    let k ← fault.toNat?; let pk ← pfault.toNat?
    pure ("bind", .bind ns name u node { first := f, pick := p } k pk)
  | ["bind", ns, name, uid, node, first, pick, fault, pfault, answer] => do
    let u ← uid.toNat?; let f ← parseOptNat first; let p ← parseOptNat pick
    let k ← fault.toNat?; let pk ← pfault.toNat?
    let a ← (match answer with
      | "lost" => some BindAnswer.lost | "unavail" => some BindAnswer.unavailable | "truthful" => some BindAnswer.truthful
      | _ => none)
    pure ("bind", .bind ns name u node { first := f, pick := p, answer := a } k pk)
  | ["deliver", i, fault, pfault] => do
    let n ← i.toNat?; let k ← fault.toNat?; let pk ← pfault.toNat?; pure ("", .deliver n k pk)
  | ["resync", order, fault, pfault] => do
    let o ← parseNats "," order; let k ← fault.toNat?; let pk ← pfault.toNat?; pure ("", .resync o k pk)
  | ["admres", ip, text, policy] => do
    let i ← ip.toNat?; let pol ← policy.toNat?; pure ("", .adminReserve i (unTilde text) pol)
  | ["admunres", ip] => do let i ← ip.toNat?; pure ("", .adminUnreserve i)
  | ["resyncsnap"] => some ("", .resyncSnap)
  | ["resyncrec", ip, fault, pfault] => do
    let i ← ip.toNat?; let k ← fault.toNat?; let pk ← pfault.toNat?; pure ("", .resyncRec i k pk)
  | ["syncips", fault] => do let k ← fault.toNat?; pure ("", .syncPodIPs k)
  | ["release", ip, typ, ns, app, pod, pool, fault, pfault] => do
    let i ← ip.toNat?; let k ← fault.toNat?; let pk ← pfault.toNat?
    pure ("", .apiRelease i (mkKey (unTilde typ) (unTilde ns) (unTilde app) (unTilde pod) (unTilde pool)) k pk)
  | ["reload", pools, fault] => do let ps ← parsePools pools; let k ← fault.toNat?; pure ("", .reload ps k)
  | ["restart"] => some ("", .restart)
  | _ => none

def stepLine (d : DS) (line : String) : DS × String :=
  let w := words line
  match w with
  | ["init", pools, nodes, prov] =>
    match parsePools pools, parseNodes nodes, parseBool prov with
    | some ps, some ns, some pv => ({ d with s := init { pools := ps, nodes := ns, provider := pv } }, "ok")
    | _, _, _ => (d, "bad-op")
  | ["dump"] => (d, dump d.s)
  | ["noguard", "on"] => ({ d with F := { d.F with unbindChecksUID := false } }, "ok")
  | ["noguard", "off"] => ({ d with F := facts }, "ok")
  | "crash" :: k :: j :: rest =>
    match k.toNat?, j.toNat?, parseMove rest with
    | some kk, some jj, some (_, m) => ({ d with s := crashAt d.F kk jj d.s m }, "ok")
    | _, _, _ => (d, "bad-op")
  | _ =>
    match parseMove w with
    | none => (d, "bad-op")
    | some (tag, m) =>
      let uidBefore := d.s.nextUid
      let r := step d.F d.s m
      match r.2.res with
      | .inadmissible => (d, "inadmissible-choice")
      | _ =>
        let txt := if tag = "create" && r.2.res = .ok then "ok uid=" ++ toString uidBefore else showOut tag r.2
        ({ d with s := r.1 }, txt)

end Galaxy.Drv.PluginDrv

def main : IO UInt32 := Galaxy.Drv.runLines ({} : Galaxy.Drv.PluginDrv.DS) Galaxy.Drv.PluginDrv.stepLine
