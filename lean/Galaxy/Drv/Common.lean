/-
  Line-protocol plumbing shared by every model driver: read stdin line by line,
  thread a state, print one output line per input line.  Core Lean only.
-/
namespace Galaxy.Drv

partial def loopLines {σ : Type} (h : IO.FS.Stream) (out : IO.FS.Stream) (s : σ)
    (step : σ → String → σ × String) : IO Unit := do
  let line ← h.getLine
  if line.isEmpty then
    out.flush
    return ()
  let l := String.ofList (line.toList.reverse.dropWhile (fun c => c = '\n' || c = '\r')).reverse
  let (s', o) := step s l
  out.putStrLn o
  loopLines h out s' step

def runLines {σ : Type} (init : σ) (step : σ → String → σ × String) : IO UInt32 := do
  let stdin ← IO.getStdin
  let stdout ← IO.getStdout
  loopLines stdin stdout init step
  return 0

/-- split on single spaces, dropping empty fields -/
def words (s : String) : List String := (s.splitOn " ").filter (· ≠ "")

def joinWith (sep : String) (l : List String) : String := String.intercalate sep l

end Galaxy.Drv
