/-
  gxdrv_gc — line-protocol driver around Galaxy.Model.Gc (C17).  Stateless; one output line per input line.

  Tokens: strings are written H(s) = `-` for the empty string, otherwise the code points in hex joined by '.'.
  Outcome tokens:
    d:nf  d:err  d:nostate  d:st:<H status>                       docker inspect
    c:nf  c:err  c:nil  c:ready  c:nr:podnf  c:nr:poderr  c:nr:found:<wr,wr,…|->   CRI sandbox status (+ pod lookup);
                                                                 w,r ∈ {0,1} = Waiting / Running set
  Lines:
    decide <outcome>                                   -> true | false
    ipsweep <spec>                                     -> ok <H name> …            (remaining names, sorted)
    gcsweep <spec>                                     -> ok <H name> … | <H cid> … (remaining names; callbacks; sorted)
  <spec> = a sequence of
    R <H cid> <outcome>        the runtime's answer for that container id
    D <outcome>                the answer for every other id (must be present once)
    E <H name> dir             a sub-directory
    E <H name> f:<H content> <0|1>   a regular file; the flag says Go's net.ParseIP accepts the name as IPv6 text
    ipsweepi <spec'>                                   -> ok <seg> | <seg> …  or  inadmissible <seg> | …
        one pass of cleanupIP over SEVERAL directories interleaved with environment moves; <spec'> = R / D as above and
          DIR                      start of the next directory        NODIR   a missing directory
          E …                      entry of the current directory
          M <k> w <dir> <H name> <H content> <0|1>    during the k-th inspect call: write that file
          M <k> x <dir> <H name>                      during the k-th inspect call: delete that file
        <seg> = remaining names of one directory, sorted (`~` for a missing directory)
  anything else -> bad-op
-/
import Galaxy.Model.Gc
import Galaxy.Drv.Common

namespace Galaxy.Drv.Gc
open Galaxy Galaxy.Gc

def hexVal (c : Char) : Option Nat :=
  if '0' ≤ c ∧ c ≤ '9' then some (c.toNat - 48)
  else if 'a' ≤ c ∧ c ≤ 'f' then some (c.toNat - 87)
  else if 'A' ≤ c ∧ c ≤ 'F' then some (c.toNat - 55)
  else none

def parseHex (s : String) : Option Nat :=
  if s.isEmpty || s.length > 6 then none
  else s.toList.foldl (fun acc c => do let a ← acc; let d ← hexVal c; pure (16 * a + d)) (some 0)

def unH (tok : String) : Option String :=
  if tok = "-" then some ""
  else do
    let cs ← (tok.splitOn ".").mapM (fun h => do
      let n ← parseHex h
      if n.isValidChar then some (Char.ofNat n) else none)
    pure (String.ofList cs)

def toH (s : String) : String :=
  if s.isEmpty then "-"
  else String.intercalate "." (s.toList.map (fun c => String.ofList (Nat.toDigits 16 c.toNat)))

def parseCState (s : String) : Option CState :=
  match s.toList with
  | [w, r] =>
    if (w = '0' ∨ w = '1') ∧ (r = '0' ∨ r = '1') then some ⟨w = '1', r = '1'⟩ else none
  | _ => none

def parseOutcome (tok : String) : Option InspectOutcome :=
  match tok.splitOn ":" with
  | ["d", "nf"] => some (.docker .notFound)
  | ["d", "err"] => some (.docker .error)
  | ["d", "nostate"] => some (.docker (.state none))
  | ["d", "st", h] => (unH h).map (fun s => .docker (.state (some s)))
  | ["c", "nf"] => some (.cri .notFound)
  | ["c", "err"] => some (.cri .error)
  | ["c", "nil"] => some (.cri .nilStatus)
  | ["c", "ready"] => some (.cri .ready)
  | ["c", "nr", "podnf"] => some (.cri (.notReady .notFound))
  | ["c", "nr", "poderr"] => some (.cri (.notReady .error))
  | ["c", "nr", "found", sts] =>
    if sts = "-" then some (.cri (.notReady (.found [])))
    else ((sts.splitOn ",").mapM parseCState).map (fun l => .cri (.notReady (.found l)))
  | _ => none

structure Spec where
  rt : List (String × InspectOutcome) := []
  dflt : Option InspectOutcome := none
  dir : Dir := []

def parseSpec : List String → Spec → Option Spec
  | [], s => some s
  | "R" :: cid :: o :: rest, s => do
    let c ← unH cid
    let o' ← parseOutcome o
    parseSpec rest { s with rt := s.rt ++ [(c, o')] }
  | "D" :: o :: rest, s => do
    let o' ← parseOutcome o
    if s.dflt.isSome then none else parseSpec rest { s with dflt := some o' }
  | "E" :: name :: "dir" :: rest, s => do
    let n ← unH name
    parseSpec rest { s with dir := s.dir ++ [⟨n, .dir, false⟩] }
  | "E" :: name :: f :: flag :: rest, s => do
    let n ← unH name
    let c ← if f.startsWith "f:" then unH (f.drop 2).toString else none
    let b ← if flag = "1" then some true else if flag = "0" then some false else none
    parseSpec rest { s with dir := s.dir ++ [⟨n, .file c, b⟩] }
  | _, _ => none

structure SpecI where
  rt : List (String × InspectOutcome) := []
  dflt : Option InspectOutcome := none
  fs : FS := []
  moves : List (Nat × EnvMove) := []

def addEntry (fs : FS) (e : Entry) : Option FS :=
  match fs.reverse with
  | some d :: rest => some (rest.reverse ++ [some (d ++ [e])])
  | _ => none

def parseSpecI : List String → SpecI → Option SpecI
  | [], s => some s
  | "R" :: cid :: o :: rest, s => do
    let c ← unH cid
    let o' ← parseOutcome o
    parseSpecI rest { s with rt := s.rt ++ [(c, o')] }
  | "D" :: o :: rest, s => do
    let o' ← parseOutcome o
    if s.dflt.isSome then none else parseSpecI rest { s with dflt := some o' }
  | "DIR" :: rest, s => parseSpecI rest { s with fs := s.fs ++ [some []] }
  | "NODIR" :: rest, s => parseSpecI rest { s with fs := s.fs ++ [none] }
  | "E" :: name :: "dir" :: rest, s => do
    let n ← unH name
    let fs ← addEntry s.fs ⟨n, .dir, false⟩
    parseSpecI rest { s with fs := fs }
  | "M" :: k :: "w" :: d :: name :: content :: flag :: rest, s => do
    let k' ← k.toNat?
    let d' ← d.toNat?
    let n ← unH name
    let c ← unH content
    let b ← if flag = "1" then some true else if flag = "0" then some false else none
    parseSpecI rest { s with moves := s.moves ++ [(k', .write d' n c b)] }
  | "M" :: k :: "x" :: d :: name :: rest, s => do
    let k' ← k.toNat?
    let d' ← d.toNat?
    let n ← unH name
    parseSpecI rest { s with moves := s.moves ++ [(k', .delete d' n)] }
  | "E" :: name :: f :: flag :: rest, s => do
    let n ← unH name
    let c ← if f.startsWith "f:" then unH (f.drop 2).toString else none
    let b ← if flag = "1" then some true else if flag = "0" then some false else none
    let fs ← addEntry s.fs ⟨n, .file c, b⟩
    parseSpecI rest { s with fs := fs }
  | _, _ => none

def Spec.runtime (s : Spec) (d : InspectOutcome) : Runtime := fun cid =>
  match s.rt.find? (fun p => p.1 == cid) with
  | some p => p.2
  | none => d

def showNames (l : List String) : String :=
  String.intercalate " " ((l.mergeSort (fun a b => !decide (b < a))).map toH)

def showSeg : Option Dir → String
  | none => "~"
  | some d => showNames (d.map (·.name))

def step (_ : Unit) (line : String) : Unit × String :=
  let out : String :=
    match words line with
    | ["decide", o] =>
      match parseOutcome o with
      | some o' => if shouldCleanup o' then "true" else "false"
      | none => "bad-op"
    | "ipsweep" :: rest =>
      match parseSpec rest {} with
      | some s =>
        match s.dflt with
        | some d => ("ok " ++ showNames ((sweepIPDir (s.runtime d) s.dir).map (·.name))).trimAsciiEnd.toString
        | none => "bad-op"
      | none => "bad-op"
    | "ipsweepi" :: rest =>
      match parseSpecI rest {} with
      | some s =>
        match s.dflt with
        | some d =>
          let rt : Runtime := fun cid =>
            match s.rt.find? (fun p => p.1 == cid) with
            | some p => p.2
            | none => d
          let sched : Nat → List EnvMove := fun k => (s.moves.filter (fun m => m.1 == k)).map (·.2)
          let st := sweepIPDirsI rt sched s.fs
          (if st.inadmissible then "inadmissible " else "ok ") ++ String.intercalate " | " (st.fs.map showSeg)
        | none => "bad-op"
      | none => "bad-op"
    | "gcsweep" :: rest =>
      match parseSpec rest {} with
      | some s =>
        match s.dflt with
        | some d =>
          let r := sweepGCDir (s.runtime d) s.dir
          ("ok " ++ showNames (r.1.map (·.name))).trimAsciiEnd.toString ++ " | " ++ showNames r.2
        | none => "bad-op"
      | none => "bad-op"
    | _ => "bad-op"
  ((), out)

end Galaxy.Drv.Gc

def main : IO UInt32 := Galaxy.Drv.runLines () Galaxy.Drv.Gc.step
