/-
  Driver extension for property C07: the line protocol of gxdrv_plugin (`Galaxy.Drv.PluginDrv.stepLine`) plus

    apipool <name> <size> <pre 0|1> <order> <picks> <fault>
        order = base@bits,…  the order in which preAllocateIP walked `subnetSet.UnsortedList()` (`-` = none needed)
        picks = ip,…         the addresses AllocateInSubnet took, in order (`-` = none)
        answers: `ok real=<n>` | `accepted real=<n>` (202 "No enough IPs") | `err <class>` | `inadmissible-choice`

  `filter …` lines run `Galaxy.PluginC07.filter7 facts` (the fact-parameterised Filter the C07 theorems are about)
  instead of the core `filter`; every other line is handed to the core driver unchanged.

  The lakefile has no executable for this module (the work package may not add one).  It is run by the Lean
  interpreter on the compiled module: `harness/pluginc07/run7.lean` is `#eval Galaxy.Drv.PluginC07Drv.runFiles`, which
  reads the op lines from the file named by $GX_IN and writes one answer line per op line to $GX_OUT.
-/
import Galaxy.Model.PluginC07
import Galaxy.Drv.Plugin

namespace Galaxy.Drv.PluginC07Drv
open Galaxy.Plugin Galaxy.PluginC07 Galaxy.Drv.PluginDrv

def showPre (o : PreOut) : String :=
  match o.res with
  | .ok => "ok real=" ++ toString o.real
  | .short => "accepted real=" ++ toString o.real
  | .err c => "err " ++ c
  | .inadmissible => "inadmissible-choice"

def parseOrder (s : String) : Option (List Subnet) := allSome ((splitList "," s).map parseSubnet)

def stepLine7 (d : DS) (line : String) : DS × String :=
  match words line with
  | ["apipool", name, size, pre, order, picks, fault] =>
    match size.toNat?, parseBool pre, parseOrder order, parseNats "," picks, fault.toNat? with
    | some z, some p, some o, some ps, some f =>
      let r := apiPool d.s (unTilde name) z p o ps f
      match r.2.res with
      | .inadmissible => (d, "inadmissible-choice")
      | _ => ({ d with s := r.1 }, if p then showPre r.2 else (match r.2.res with | .ok => "ok" | _ => showPre r.2))
    | _, _, _, _, _ => (d, "bad-op")
  | w =>
    match parseMove w with
    | some (_, .filter ns name nodes ch fault) =>
      let r := stepB facts d.F d.s (.filter ns name nodes ch fault)
      match r.2.res with
      | .inadmissible => (d, "inadmissible-choice")
      | _ => ({ d with s := r.1 }, showOut "filter" r.2)
    | _ => stepLine d line

/-- batch mode through files (the interpreter's `#eval` isolates stdin/stdout) -/
def runFiles : IO Unit := do
  let some inp ← IO.getEnv "GX_IN" | throw (IO.userError "GX_IN not set")
  let some outp ← IO.getEnv "GX_OUT" | throw (IO.userError "GX_OUT not set")
  let lines ← IO.FS.lines inp
  let h ← IO.FS.Handle.mk outp .write
  let mut d : DS := {}
  for l in lines do
    let (d', o) := stepLine7 d l
    d := d'
    h.putStrLn o
  h.flush

end Galaxy.Drv.PluginC07Drv
