/-
  M7 `Policy` — executable model of galaxy's NetworkPolicy compiler (pkg/policy/policy.go) and of the packet
  walk over the rules it installs, plus the reference semantics of the Kubernetes NetworkPolicy API.

  * `compileSets` / `compileTable` mirror policyResult / peerRule / peerTable / rulePorts / initIPSetMap /
    writeRules / writePolicyChainRules / SyncPodChains / filterMatchingPolicies / ensureBasicChain EXACTLY AS
    THE CODE BEHAVES (including its deviations from the API semantics) — the harness compares them with the
    dump of the real code on every generated cluster.
  * `walk` is the iptables traversal for exactly the match forms galaxy emits.
  * `k8sAllows` / `k8sAllowsOn` are written from the API documentation, independently of the compiler.
  Core Lean only.  Names (sets, chains) are structured values; `render` turns them into the strings of the
  dump using the prefixes / formats regenerated from /repo (Galaxy.Generated.Policy).
-/
import Galaxy.Model.Tbl
import Galaxy.Generated.Policy

namespace Galaxy.Policy

namespace G
export Galaxy.Generated.Policy (namePrefix policyChainPrefix podChainPrefix ingressChain egressChain
  fmtSelSet fmtIngressIpSet fmtIngressNetSet fmtEgressIpSet fmtEgressNetSet defaultIngress defaultEgress
  ipBlockExceptOption rulePortsDefaultProto createIPSetKeepsRekeyedEntries multiportChunk)
end G

/-! ## Cluster and policy values -/

abbrev IP := Nat
abbrev Labels := List (String × String)

def lookup : Labels → String → Option String
  | [], _ => none
  | (k, v) :: t, key => if k = key then some v else lookup t key

inductive SelOp where
  | isIn | notIn | has | hasNot
  deriving DecidableEq, Repr

structure Expr where
  key : String
  op : SelOp
  vals : List String
  deriving DecidableEq, Repr

/-- metav1.LabelSelector: matchLabels AND matchExpressions; the empty selector matches everything. -/
structure Selector where
  matchLabels : List (String × String)
  exprs : List Expr
  deriving DecidableEq, Repr

def Expr.holds (e : Expr) (l : Labels) : Bool :=
  match e.op, lookup l e.key with
  | .isIn, some v => e.vals.contains v
  | .isIn, none => false
  | .notIn, some v => !e.vals.contains v
  | .notIn, none => true
  | .has, o => o.isSome
  | .hasNot, o => o.isNone

def Selector.matches (s : Selector) (l : Labels) : Bool :=
  s.matchLabels.all (fun kv => lookup l kv.1 == some kv.2) && s.exprs.all (·.holds l)

structure Namespace where
  name : String
  labels : Labels
  deriving DecidableEq, Repr

structure Pod where
  ns : String
  name : String
  hash : String          -- nameHash(name_ns), supplied by the caller (sha256 is not modelled)
  node : String
  ip : Option IP
  labels : Labels
  deriving DecidableEq, Repr

structure Cluster where
  nss : List Namespace
  pods : List Pod
  deriving DecidableEq, Repr

structure Cidr where
  net : IP
  len : Nat
  deriving DecidableEq, Repr

def inCidr (a : IP) (c : Cidr) : Bool := a / 2 ^ (32 - c.len) == c.net / 2 ^ (32 - c.len)

/-- net.ParseCIDR(..).String(): host bits cleared -/
def Cidr.masked (c : Cidr) : Cidr := ⟨c.net / 2 ^ (32 - c.len) * 2 ^ (32 - c.len), c.len⟩

inductive Peer where
  | pods (sel : Selector)                       -- podSelector only
  | nss (sel : Selector)                        -- namespaceSelector only
  | both (ns : Selector) (pod : Selector)       -- both selectors
  | block (cidr : Cidr) (except : List Cidr)    -- ipBlock
  deriving DecidableEq, Repr

inductive Proto where
  | tcp | udp
  deriving DecidableEq, Repr

structure Port where
  proto : Proto
  port : Option Nat      -- none = protocol-only entry
  deriving DecidableEq, Repr

structure Rule where
  peers : List Peer
  ports : List Port
  deriving DecidableEq, Repr

inductive Dir where
  | ingress | egress
  deriving DecidableEq, Repr

structure NetPol where
  ns : String
  name : String
  hash : String          -- nameHash(name_ns) = tableNameHash(name_ns)
  podSel : Selector
  types : List Dir       -- spec.policyTypes
  ingress : List Rule
  egress : List Rule
  deriving DecidableEq, Repr

inductive Hook where
  | forward | input | output
  deriving DecidableEq, Repr

/-- a NEW connection (conntrack state NEW) -/
structure Flow where
  hook : Hook
  proto : Proto
  src : IP
  dst : IP
  dport : Nat
  deriving DecidableEq, Repr

/-! ## Names, sets, rules -/

inductive SetKind where
  | sel | sip | snet | dip | dnet | foreign
  deriving DecidableEq, Repr

/-- `GLX-ip-<hash>`, `GLX-sip-<i>-<hash>`, …; `foreign` keeps the raw name in `hash` -/
structure SetName where
  kind : SetKind
  idx : Nat
  hash : String
  deriving DecidableEq, Repr

inductive Chain where
  | forward | input | output | glxIngress | glxEgress
  | pod (hash : String) | plcy (hash : String) | other (name : String)
  deriving DecidableEq, Repr

inductive SetType where
  | hashIP | hashNet
  deriving DecidableEq, Repr

inductive Entry where
  | ip (a : IP)
  | net (c : Cidr) (noMatch : Bool)
  deriving DecidableEq, Repr

structure IpSet where
  name : SetName
  type : SetType
  entries : List Entry
  deriving DecidableEq, Repr

inductive Tgt where
  | accept | drop | ret | jump (c : Chain)
  deriving DecidableEq, Repr

/-- the match forms galaxy emits -/
inductive Mt where
  | comment (c : String)
  | protoAll
  | proto (p : Proto)
  | setSrc (n : SetName)
  | setDst (n : SetName)
  | dports (ps : List Nat)
  | src (c : Cidr)
  | dst (c : Cidr)
  | ctEstablished
  deriving DecidableEq, Repr

structure PRule where
  ms : List Mt
  tgt : Tgt
  deriving DecidableEq, Repr

abbrev Table := Tbl Chain (List PRule)

/-! ## The compiler, as the code behaves -/

/-- ingressOrEgress: the loop over policyTypes sets a flag per listed type; when no flag is set the regenerated
    defaults apply. -/
def compDirs (p : NetPol) : Bool × Bool :=
  let i := p.types.any (· == Dir.ingress)
  let e := p.types.any (· == Dir.egress)
  if !i && !e then (G.defaultIngress p.ingress.length p.egress.length, G.defaultEgress p.ingress.length p.egress.length)
  else (i, e)

def compIngress (p : NetPol) : Bool := (compDirs p).1
def compEgress (p : NetPol) : Bool := (compDirs p).2

/-- entries(list, HashIP): pods without an address are skipped -/
def entriesOf (pods : List Pod) : List Entry := pods.filterMap (fun q => q.ip.map Entry.ip)

/-- podSelectorToTable(sel, ns): `none` = v1.NamespaceAll -/
def podsBySelector (c : Cluster) (ns : Option String) (s : Selector) : List Pod :=
  c.pods.filter (fun q => (match ns with | none => true | some n => q.ns == n) && s.matches q.labels)

/-- namespaceSelectorToTable: every pod of every namespace whose labels match -/
def podsByNsSelector (c : Cluster) (s : Selector) : List Pod :=
  (c.nss.filter (fun n => s.matches n.labels)).flatMap (fun n => c.pods.filter (fun q => q.ns == n.name))

def Peer.isIpKind : Peer → Bool
  | .block _ _ => false
  | _ => true

/-- peerTable for the hash:ip kinds: a podSelector (alone or with a namespaceSelector) is resolved in ALL
    namespaces; the namespaceSelector is consulted only when there is no podSelector. -/
def peerIpEntries (c : Cluster) : Peer → List Entry
  | .pods s => entriesOf (podsBySelector c none s)
  | .both _ s => entriesOf (podsBySelector c none s)
  | .nss s => entriesOf (podsByNsSelector c s)
  | .block _ _ => []

/-- ipBlockToTable: the cidr, then every except with option nomatch -/
def peerNetEntries : Peer → List Entry
  | .block cidr ex => Entry.net cidr.masked false :: ex.map (fun e => Entry.net e.masked true)
  | _ => []

/-- peerRule: all hash:ip peers of a rule share one set, all ipBlock peers another; a table exists only if some
    peer of its kind exists -/
def ruleIpEntries (c : Cluster) (r : Rule) : Option (List Entry) :=
  if r.peers.any Peer.isIpKind then some ((r.peers.filter Peer.isIpKind).flatMap (peerIpEntries c)) else none

def ruleNetEntries (r : Rule) : Option (List Entry) :=
  if r.peers.any (fun p => !p.isIpKind) then some ((r.peers.filter (fun p => !p.isIpKind)).flatMap peerNetEntries)
  else none

/-- rulePorts: port-less entries are skipped; tcp (default) goes to the tcp list, everything else to udp -/
def tcpPorts (r : Rule) : List Nat :=
  r.ports.filterMap (fun p => if p.proto = Proto.tcp then p.port else none)
def udpPorts (r : Rule) : List Nat :=
  r.ports.filterMap (fun p => if p.proto = Proto.tcp then none else p.port)

def selSetName (p : NetPol) : SetName := ⟨.sel, 0, p.hash⟩

/-- sets of the i-th rule of a direction -/
def ruleSets (c : Cluster) (kIp kNet : SetKind) (h : String) (i : Nat) (r : Rule) : List IpSet :=
  (match ruleIpEntries c r with | some es => [⟨⟨kIp, i, h⟩, .hashIP, es⟩] | none => []) ++
  (match ruleNetEntries r with | some es => [⟨⟨kNet, i, h⟩, .hashNet, es⟩] | none => [])

/-- sets of all rules of one direction (rule index = position in the spec) -/
def rulesSets (c : Cluster) (kIp kNet : SetKind) (h : String) (rs : List Rule) : List IpSet :=
  rs.zipIdx.flatMap (fun x => ruleSets c kIp kNet h x.2 x.1)

/-- policyResult + initIPSetMap for one policy -/
def policySets (c : Cluster) (p : NetPol) : List IpSet :=
  (if compIngress p || compEgress p then
    [⟨selSetName p, .hashIP, entriesOf (podsBySelector c (some p.ns) p.podSel)⟩] else []) ++
  (if compIngress p then rulesSets c .sip .snet p.hash p.ingress else []) ++
  (if compEgress p then rulesSets c .dip .dnet p.hash p.egress else [])

def compileSets (c : Cluster) (ps : List NetPol) : List IpSet := ps.flatMap (policySets c)

def comment (name ns : String) : String := name ++ "_" ++ ns

/-- `for i := 0; i < len(l); i += n { … l[i:min(i+n, len(l))] … }` (fuel = length of the list) -/
def chunksOf (n : Nat) : Nat → List Nat → List (List Nat)
  | 0, _ => []
  | fuel + 1, l => if l = [] then [] else l.take n :: chunksOf n fuel (l.drop n)

/-- the port lists of the rules emitted for one protocol: `chunk = 0` is the source before 8f04d5f (all ports in ONE
    rule, nothing for an empty list), `chunk = n > 0` the chunk loop (at most n ports per rule) -/
def portChunks (chunk : Nat) (ports : List Nat) : List (List Nat) :=
  if chunk = 0 then (if ports ≠ [] then [ports] else []) else chunksOf chunk ports.length ports

/-- the rules writePolicyChainRules emits for one source table and one destination table -/
def tplRulesWith (chunk : Nat) (cm : String) (s d : SetName) (tcp udp : List Nat) : List PRule :=
  (portChunks chunk tcp).map (fun ps => ⟨[.comment cm, .proto .tcp, .setSrc s, .setDst d, .dports ps], .accept⟩) ++
  (portChunks chunk udp).map (fun ps => ⟨[.comment cm, .proto .udp, .setSrc s, .setDst d, .dports ps], .accept⟩) ++
  (if tcp = [] ∧ udp = [] then [⟨[.comment cm, .protoAll, .setSrc s, .setDst d], .accept⟩] else [])

/-- … as the current source has it (regenerated chunk size) -/
def tplRules (cm : String) (s d : SetName) (tcp udp : List Nat) : List PRule :=
  tplRulesWith G.multiportChunk cm s d tcp udp

/-- writePolicyChainRules -/
def chainRules (cm : String) (srcs dsts : List SetName) (tcp udp : List Nat) : List PRule :=
  srcs.flatMap fun s => dsts.flatMap fun d => tplRules cm s d tcp udp

/-- table names of a rule in writeRules order: ip table, then net table -/
def ruleSetNames (kIp kNet : SetKind) (h : String) (i : Nat) (r : Rule) : List SetName :=
  (if r.peers.any Peer.isIpKind then [⟨kIp, i, h⟩] else []) ++
  (if r.peers.any (fun p => !p.isIpKind) then [⟨kNet, i, h⟩] else [])

def ingressRules (p : NetPol) : List PRule :=
  p.ingress.zipIdx.flatMap fun x =>
    chainRules (comment p.name p.ns) (ruleSetNames .sip .snet p.hash x.2 x.1) [selSetName p] (tcpPorts x.1) (udpPorts x.1)

def egressRules (p : NetPol) : List PRule :=
  p.egress.zipIdx.flatMap fun x =>
    chainRules (comment p.name p.ns) [selSetName p] (ruleSetNames .dip .dnet p.hash x.2 x.1) (tcpPorts x.1) (udpPorts x.1)

/-- writeRules for one policy: the rules of chain GLX-PLCY-<hash> -/
def policyChain (p : NetPol) : List PRule :=
  (if compIngress p then ingressRules p else []) ++
  (if compEgress p then egressRules p else [])

/-- filterMatchingPolicies: same namespace and the pod selector matches -/
def selectedBy (p : NetPol) (q : Pod) : Bool := p.ns == q.ns && p.podSel.matches q.labels

def hookedIngress (ps : List NetPol) (q : Pod) : Bool := ps.any (fun p => compIngress p && selectedBy p q)
def hookedEgress (ps : List NetPol) (q : Pod) : Bool := ps.any (fun p => compEgress p && selectedBy p q)

/-- SyncPodChains: the rules of GLX-POD-<hash> -/
def podChain (ps : List NetPol) (q : Pod) : List PRule :=
  let cm := comment q.name q.ns
  ⟨[.comment cm, .ctEstablished], .accept⟩ ::
  ((ps.filter (fun p => (compIngress p || compEgress p) && selectedBy p q)).map
    (fun p => ⟨[.comment cm], .jump (.plcy p.hash)⟩) ++
   [⟨[.comment cm], .drop⟩])

/-- pods of this node for which SyncPodChains installs something: selected in some direction and with an address -/
def activePods (c : Cluster) (ps : List NetPol) (node : String) : List Pod :=
  c.pods.filter (fun q => q.node == node && q.ip.isSome && (hookedIngress ps q || hookedEgress ps q))

def hookRule (dirIngress : Bool) (q : Pod) : List PRule :=
  match q.ip with
  | none => []
  | some a =>
    let cm := comment q.name q.ns
    [⟨[if dirIngress then .dst ⟨a, 32⟩ else .src ⟨a, 32⟩, .comment cm], .jump (.pod q.hash)⟩]

/-- iptables' multiport match takes at most 15 ports (XT_MULTI_PORTS); a rule with more is refused at parse time
    ("too many ports specified") and fails the whole iptables-restore batch -/
def multiportMax : Nat := 15

def PRule.portsOK (r : PRule) : Bool :=
  r.ms.all (fun m => match m with | .dports ps => decide (ps.length ≤ multiportMax) | _ => true)

/-- some rule galaxy emits for these policies carries more ports than multiport takes -/
def overLimit (ps : List NetPol) : Bool := ps.any (fun p => (policyChain p).any (fun r => !r.portsOK))

/-- the filter table after a full sync from an empty state when the policy batch is refused (`overLimit`): the sets
    exist, no GLX-PLCY chain does, so every pod batch is refused as well (it jumps to a missing chain) — only what
    ensureBasicChain installs is there and NOTHING is enforced -/
def failedTable (c : Cluster) (ps : List NetPol) (node : String) : Table :=
  if activePods c ps node = [] then
    [(Chain.forward, []), (Chain.input, []), (Chain.output, [])]
  else
    [(Chain.forward, [⟨[], .jump .glxEgress⟩, ⟨[], .jump .glxIngress⟩]),
     (Chain.input, [⟨[], .jump .glxEgress⟩]),
     (Chain.output, [⟨[], .jump .glxIngress⟩]),
     (Chain.glxIngress, []), (Chain.glxEgress, [])]

/-- the filter table after a full sync from an empty state when every batch is accepted -/
def compiledTable (c : Cluster) (ps : List NetPol) (node : String) : Table :=
  let act := activePods c ps node
  (if act = [] then
     [(Chain.forward, []), (Chain.input, []), (Chain.output, [])]
   else
     [(Chain.forward, [⟨[], .jump .glxEgress⟩, ⟨[], .jump .glxIngress⟩]),
      (Chain.input, [⟨[], .jump .glxEgress⟩]),
      (Chain.output, [⟨[], .jump .glxIngress⟩]),
      (Chain.glxIngress, (act.filter (hookedIngress ps)).flatMap (hookRule true)),
      (Chain.glxEgress, (act.filter (hookedEgress ps)).flatMap (hookRule false))]) ++
  act.map (fun q => (Chain.pod q.hash, podChain ps q)) ++
  ps.map (fun p => (Chain.plcy p.hash, policyChain p))

/-- the filter table after a full sync from an empty state -/
def compileTable (c : Cluster) (ps : List NetPol) (node : String) : Table :=
  if overLimit ps then failedTable c ps node else compiledTable c ps node

/-! ## Packet walk -/

inductive Verdict where
  | accept | drop
  deriving DecidableEq, Repr

inductive Outcome where
  | accept | drop | fall
  deriving DecidableEq, Repr

/-- hash:net lookup: the most specific entry containing the address decides; it matches unless that entry is
    marked nomatch (a nomatch entry also wins against a plain entry of the same prefix length). -/
def netMatch (es : List Entry) (a : IP) : Bool :=
  es.any fun e => match e with
    | .net c false => inCidr a c && es.all (fun e' => match e' with
        | .net c' true => !(inCidr a c' && c.len ≤ c'.len)
        | _ => true)
    | _ => false

def IpSet.has (s : IpSet) (a : IP) : Bool :=
  match s.type with
  | .hashIP => s.entries.any (fun e => match e with | .ip b => b == a | .net c false => c.len == 32 && c.net == a | _ => false)
  | .hashNet => netMatch s.entries a

/-- `-m set --match-set n dir`: does (the) set named `n` contain the address?  (Set names are unique in a kernel
    dump; a missing set matches nothing.) -/
def setHas (sets : List IpSet) (n : SetName) (a : IP) : Bool := sets.any (fun s => s.name == n && s.has a)

def Mt.holds (sets : List IpSet) (f : Flow) : Mt → Bool
  | .comment _ => true
  | .protoAll => true
  | .proto p => f.proto == p
  | .setSrc n => setHas sets n f.src
  | .setDst n => setHas sets n f.dst
  | .dports ps => ps.contains f.dport
  | .src c => inCidr f.src c
  | .dst c => inCidr f.dst c
  | .ctEstablished => false          -- the flow is a NEW connection

def PRule.matches (sets : List IpSet) (f : Flow) (r : PRule) : Bool := r.ms.all (Mt.holds sets f)

/-- one chain's rules; `call` evaluates a jump target -/
def evalRules (call : Chain → Outcome) (sets : List IpSet) (f : Flow) : List PRule → Outcome
  | [] => .fall
  | r :: rs =>
    if r.matches sets f then
      match r.tgt with
      | .accept => .accept
      | .drop => .drop
      | .ret => .fall
      | .jump c => match call c with
        | .fall => evalRules call sets f rs
        | o => o
    else evalRules call sets f rs

/-- depth-bounded chain evaluation (a jump to a missing chain cannot be installed; modelled as drop) -/
def evalChain (sets : List IpSet) (tbl : Table) (f : Flow) : Nat → Chain → Outcome
  | 0, _ => .drop
  | n + 1, c => match Tbl.get tbl c with
    | none => .drop
    | some rs => evalRules (evalChain sets tbl f n) sets f rs

def Hook.chain : Hook → Chain
  | .forward => .forward
  | .input => .input
  | .output => .output

/-- verdict of the filter table for a new connection entering at `f.hook` (built-in chain policy ACCEPT);
    depth 4 = built-in → GLX-INGRESS/EGRESS → GLX-POD-* → GLX-PLCY-* -/
def walk (sets : List IpSet) (tbl : Table) (f : Flow) : Verdict :=
  match evalRules (evalChain sets tbl f 3) sets f ((Tbl.get tbl f.hook.chain).getD []) with
  | .drop => .drop
  | _ => .accept

/-! ## Reference semantics of the NetworkPolicy API (from the API documentation, not from galaxy) -/

/-- policyTypes defaulting: "policies that contain an Egress section are assumed to affect Egress, and all
    policies (whether or not they contain an Ingress section) are assumed to affect Ingress" -/
def affectsIngress (p : NetPol) : Bool := if p.types = [] then true else p.types.contains Dir.ingress
def affectsEgress (p : NetPol) : Bool := if p.types = [] then !p.egress.isEmpty else p.types.contains Dir.egress

/-- the policy applies to the pods of ITS namespace its podSelector matches -/
def selects (p : NetPol) (q : Pod) : Bool := q.ns == p.ns && p.podSel.matches q.labels

def nsMatches (c : Cluster) (s : Selector) (ns : String) : Bool := c.nss.any (fun n => n.name == ns && s.matches n.labels)

/-- does address `a` match the peer, for a policy of namespace `polNs`? -/
def peerMatches (c : Cluster) (polNs : String) (a : IP) : Peer → Bool
  | .pods s => c.pods.any (fun q => q.ip == some a && q.ns == polNs && s.matches q.labels)
  | .nss s => c.pods.any (fun q => q.ip == some a && nsMatches c s q.ns)
  | .both n s => c.pods.any (fun q => q.ip == some a && nsMatches c n q.ns && s.matches q.labels)
  | .block cidr ex => inCidr a cidr && ex.all (fun e => !inCidr a e)

def portMatches (ports : List Port) (f : Flow) : Bool :=
  ports.isEmpty || ports.any (fun pt => pt.proto == f.proto && (pt.port == none || pt.port == some f.dport))

/-- empty peer list = all peers; empty port list = all ports -/
def ruleAllows (c : Cluster) (polNs : String) (other : IP) (f : Flow) (r : Rule) : Bool :=
  (r.peers.isEmpty || r.peers.any (peerMatches c polNs other)) && portMatches r.ports f

def isolatedIngress (ps : List NetPol) (q : Pod) : Bool := ps.any (fun p => affectsIngress p && selects p q)
def isolatedEgress (ps : List NetPol) (q : Pod) : Bool := ps.any (fun p => affectsEgress p && selects p q)

def ingressAllowed (c : Cluster) (ps : List NetPol) (q : Pod) (f : Flow) : Bool :=
  !isolatedIngress ps q ||
  ps.any (fun p => affectsIngress p && selects p q && p.ingress.any (ruleAllows c p.ns f.src f))

def egressAllowed (c : Cluster) (ps : List NetPol) (q : Pod) (f : Flow) : Bool :=
  !isolatedEgress ps q ||
  ps.any (fun p => affectsEgress p && selects p q && p.egress.any (ruleAllows c p.ns f.dst f))

/-- a connection is allowed iff the egress side of its source pod and the ingress side of its destination pod
    (whichever of them are pods) allow it -/
def k8sAllows (c : Cluster) (ps : List NetPol) (f : Flow) : Bool :=
  c.pods.all (fun q => !(q.ip == some f.src) || egressAllowed c ps q f) &&
  c.pods.all (fun q => !(q.ip == some f.dst) || ingressAllowed c ps q f)

/-- the part of `k8sAllows` node `node` is responsible for: the sides of ITS pods -/
def k8sAllowsOn (node : String) (c : Cluster) (ps : List NetPol) (f : Flow) : Bool :=
  c.pods.all (fun q => !(q.node == node && q.ip == some f.src) || egressAllowed c ps q f) &&
  c.pods.all (fun q => !(q.node == node && q.ip == some f.dst) || ingressAllowed c ps q f)

/-! ## The fragment on which the installed rules are proved to enforce the API semantics -/

def Peer.blocks : List Peer → List (Cidr × List Cidr)
  | [] => []
  | .block c ex :: t => (c, ex) :: Peer.blocks t
  | _ :: t => Peer.blocks t

/-- excludes deviations (a), (b) as far as they matter: a pod selector is resolved in ALL namespaces by the compiler,
    which is harmless exactly when every pod it matches lives where the API looks — in the policy's namespace
    (podSelector-only peer), resp. in a namespace the namespaceSelector matches (peer with both selectors) -/
def peerOK (c : Cluster) (p : NetPol) : Peer → Bool
  | .nss _ => true
  | .block _ _ => true
  | .pods s => c.pods.all (fun q => !(s.matches q.labels) || q.ns == p.ns)
  | .both n s => c.pods.all (fun q => !(s.matches q.labels) || nsMatches c n q.ns)

/-- two CIDRs share an address iff the network address of one lies in the other -/
def cidrOverlap (e c : Cidr) : Bool := inCidr e.net c || inCidr c.net e

/-- excludes deviation (g): the ipBlock peers of one rule share one hash:net set (most specific entry decides), which
    is faithful when every except is strictly narrower than its own cidr and shares no address with the cidr of any
    OTHER ipBlock of the rule (any number of ipBlocks, any number of excepts) -/
def netOK (r : Rule) : Bool :=
  let bs := Peer.blocks r.peers
  bs.all (fun b => b.2.all (fun e => decide (b.1.len < e.len) && bs.all (fun b' => b' == b || !cidrOverlap e b'.1)))

/-- excludes (c) empty peer lists and (f) port-less port entries -/
def ruleOK (c : Cluster) (p : NetPol) (r : Rule) : Bool :=
  !r.peers.isEmpty && r.peers.all (peerOK c p) && netOK r && r.ports.all (fun pt => pt.port.isSome)

def polOK (c : Cluster) (p : NetPol) : Bool := p.ingress.all (ruleOK c p) && p.egress.all (ruleOK c p)

/-- WFCluster (DESIGN Appendix E) + injective name hashes on the objects at hand -/
def wfCluster (c : Cluster) (ps : List NetPol) : Bool :=
  decide (c.pods.filterMap (·.ip)).Nodup && decide (c.pods.map (·.hash)).Nodup && decide (ps.map (·.hash)).Nodup

/-- excludes (d): no pod of this node is isolated in both directions -/
def oneDirection (c : Cluster) (ps : List NetPol) (node : String) : Bool :=
  c.pods.all (fun q => !(q.node == node) || !(isolatedIngress ps q && isolatedEgress ps q))

def srcEgressIsolatedHere (c : Cluster) (ps : List NetPol) (node : String) (f : Flow) : Bool :=
  c.pods.any (fun q => q.node == node && q.ip == some f.src && isolatedEgress ps q)
def dstIngressIsolatedHere (c : Cluster) (ps : List NetPol) (node : String) (f : Flow) : Bool :=
  c.pods.any (fun q => q.node == node && q.ip == some f.dst && isolatedIngress ps q)

/-- excludes (e) (egress-isolated local source AND ingress-isolated local destination), and flows whose hook is
    inconsistent with their addresses (INPUT = to the host itself, OUTPUT = from the host itself) -/
def flowOK (c : Cluster) (ps : List NetPol) (node : String) (f : Flow) : Bool :=
  !(srcEgressIsolatedHere c ps node f && dstIngressIsolatedHere c ps node f) &&
  (f.hook != Hook.input || !dstIngressIsolatedHere c ps node f) &&
  (f.hook != Hook.output || !srcEgressIsolatedHere c ps node f)

def inFragment (c : Cluster) (ps : List NetPol) (node : String) (f : Flow) : Bool :=
  wfCluster c ps && ps.all (polOK c) && oneDirection c ps node && flowOK c ps node f

/-! ## Rendering (canonical dump form, Appendix B) and parsing of dump lines -/

def goFmtAux : List Char → List String → List Char
  | '%' :: 's' :: cs, a :: as => a.toList ++ goFmtAux cs as
  | '%' :: 'd' :: cs, a :: as => a.toList ++ goFmtAux cs as
  | ch :: cs, as => ch :: goFmtAux cs as
  | [], _ => []

/-- fmt.Sprintf restricted to %s / %d -/
def goFmt (fmt : String) (args : List String) : String := String.ofList (goFmtAux fmt.toList args)

def SetName.render (n : SetName) : String :=
  match n.kind with
  | .sel => goFmt G.fmtSelSet [G.namePrefix, n.hash]
  | .sip => goFmt G.fmtIngressIpSet [G.namePrefix, toString n.idx, n.hash]
  | .snet => goFmt G.fmtIngressNetSet [G.namePrefix, toString n.idx, n.hash]
  | .dip => goFmt G.fmtEgressIpSet [G.namePrefix, toString n.idx, n.hash]
  | .dnet => goFmt G.fmtEgressNetSet [G.namePrefix, toString n.idx, n.hash]
  | .foreign => n.hash

def Chain.render : Chain → String
  | .forward => "FORWARD"
  | .input => "INPUT"
  | .output => "OUTPUT"
  | .glxIngress => G.ingressChain
  | .glxEgress => G.egressChain
  | .pod h => G.podChainPrefix ++ "-" ++ h
  | .plcy h => G.policyChainPrefix ++ "-" ++ h
  | .other s => s

def renderIP (a : IP) : String :=
  s!"{a / 2 ^ 24 % 256}.{a / 2 ^ 16 % 256}.{a / 2 ^ 8 % 256}.{a % 256}"

def Cidr.render (c : Cidr) : String := renderIP c.net ++ "/" ++ toString c.len

def Entry.render : Entry → String
  | .ip a => renderIP a
  | .net c nm => (if c.len = 32 then renderIP c.net else c.render) ++ (if nm then " " ++ G.ipBlockExceptOption else "")

def SetType.render : SetType → String
  | .hashIP => "hash:ip"
  | .hashNet => "hash:net"

def Proto.render : Proto → String
  | .tcp => "tcp"
  | .udp => "udp"

def Mt.render : Mt → List String
  | .comment c => ["-m", "comment", "--comment", c]
  | .protoAll => ["-p", "all"]
  | .proto p => ["-p", p.render]
  | .setSrc n => ["-m", "set", "--match-set", n.render, "src"]
  | .setDst n => ["-m", "set", "--match-set", n.render, "dst"]
  | .dports ps => ["-m", "multiport", "--dports", String.intercalate "," (ps.map toString)]
  | .src c => ["-s", c.render]
  | .dst c => ["-d", c.render]
  | .ctEstablished => ["-m", "conntrack", "--ctstate", "RELATED,ESTABLISHED"]

def Tgt.render : Tgt → List String
  | .accept => ["-j", "ACCEPT"]
  | .drop => ["-j", "DROP"]
  | .ret => ["-j", "RETURN"]
  | .jump c => ["-j", c.render]

/-- the words after `-A <chain>` -/
def PRule.render (r : PRule) : List String := r.ms.flatMap Mt.render ++ r.tgt.render

def sortStrings (l : List String) : List String := l.mergeSort (fun a b => decide (a ≤ b))

def dedupSorted : List String → List String
  | a :: b :: t => if a = b then dedupSorted (b :: t) else a :: dedupSorted (b :: t)
  | l => l

def unorderedChain (c : Chain) : Bool := c = .glxIngress || c = .glxEgress

/-- canonical text of sets + filter table; must equal the harness' `Dump.Canon` of the real dump -/
def canon (sets : List IpSet) (tbl : Table) : String :=
  let ss := sortStrings (sets.map fun s =>
    s.name.render ++ "=" ++ s.type.render ++ ":[" ++
      String.intercalate "," (dedupSorted (sortStrings (s.entries.map Entry.render))) ++ "]")
  let cs := sortStrings (tbl.map fun (c, rs) =>
    let rules := rs.map (fun r => String.intercalate " " r.render)
    c.render ++ "=[" ++ String.intercalate "|" (if unorderedChain c then sortStrings rules else rules) ++ "]")
  "sets{" ++ String.intercalate ";" ss ++ "} chains{" ++ String.intercalate ";" cs ++ "}"

/-! parsing (driver side: the REAL dump is parsed into the structured form `walk` runs on) -/

def parseNat? (s : String) : Option Nat := if s.isEmpty then none else s.toNat?

def parseIP? (s : String) : Option IP :=
  match s.splitOn "." with
  | [a, b, c, d] => do
    let a ← parseNat? a; let b ← parseNat? b; let c ← parseNat? c; let d ← parseNat? d
    if a < 256 ∧ b < 256 ∧ c < 256 ∧ d < 256 then some (a * 2 ^ 24 + b * 2 ^ 16 + c * 2 ^ 8 + d) else none
  | _ => none

def parseCidr? (s : String) : Option Cidr :=
  match s.splitOn "/" with
  | [a] => (parseIP? a).map (⟨·, 32⟩)
  | [a, l] => do
    let a ← parseIP? a; let l ← parseNat? l
    if l ≤ 32 then some ⟨a, l⟩ else none
  | _ => none

/-- parse a set name; anything that does not re-render to itself is foreign -/
def parseSetName (s : String) : SetName :=
  let cand : Option SetName :=
    match s.splitOn "-" with
    | [_, "ip", h] => some ⟨.sel, 0, h⟩
    | [_, "sip", i, h] => (parseNat? i).map (⟨.sip, ·, h⟩)
    | [_, "snet", i, h] => (parseNat? i).map (⟨.snet, ·, h⟩)
    | [_, "dip", i, h] => (parseNat? i).map (⟨.dip, ·, h⟩)
    | [_, "dnet", i, h] => (parseNat? i).map (⟨.dnet, ·, h⟩)
    | _ => none
  match cand with
  | some n => if n.render = s then n else ⟨.foreign, 0, s⟩
  | none => ⟨.foreign, 0, s⟩

def parseChain (s : String) : Chain :=
  let cands : List Chain :=
    [.forward, .input, .output, .glxIngress, .glxEgress] ++
    (match s.splitOn "-" with
     | [_, _, h] => [.pod h, .plcy h]
     | _ => [])
  match cands.find? (fun c => c.render = s) with
  | some c => c
  | none => .other s

def parseEntry? (s : String) : Option Entry :=
  match s.splitOn " " with
  | [a] => if (a.splitOn "/").length = 1 then (parseIP? a).map Entry.ip else (parseCidr? a).map (Entry.net · false)
  | [a, o] => if o = G.ipBlockExceptOption then (parseCidr? a).map (Entry.net · true) else none
  | _ => none

def parseSetType? : String → Option SetType
  | "hash:ip" => some .hashIP
  | "hash:net" => some .hashNet
  | _ => none

def parseProto? : String → Option Proto
  | "tcp" => some .tcp
  | "udp" => some .udp
  | _ => none

def parseTgt (s : String) : Tgt :=
  if s = "ACCEPT" then .accept else if s = "DROP" then .drop else if s = "RETURN" then .ret else .jump (parseChain s)

def parsePorts? (s : String) : Option (List Nat) := (s.splitOn ",").mapM parseNat?

/-- the words after `-A <chain>` → structured rule (only the forms galaxy emits) -/
def parseRule? : List String → Option PRule
  | ["-j", t] => some ⟨[], parseTgt t⟩
  | "-m" :: "comment" :: "--comment" :: c :: r => (parseRule? r).map fun x => ⟨.comment c :: x.ms, x.tgt⟩
  | "-m" :: "set" :: "--match-set" :: n :: "src" :: r =>
    (parseRule? r).map fun x => ⟨.setSrc (parseSetName n) :: x.ms, x.tgt⟩
  | "-m" :: "set" :: "--match-set" :: n :: "dst" :: r =>
    (parseRule? r).map fun x => ⟨.setDst (parseSetName n) :: x.ms, x.tgt⟩
  | "-m" :: "multiport" :: "--dports" :: ps :: r => do
    let ps ← parsePorts? ps
    let x ← parseRule? r
    some ⟨.dports ps :: x.ms, x.tgt⟩
  | "-m" :: "conntrack" :: "--ctstate" :: "RELATED,ESTABLISHED" :: r =>
    (parseRule? r).map fun x => ⟨.ctEstablished :: x.ms, x.tgt⟩
  | "-p" :: p :: r =>
    if p = "all" then (parseRule? r).map fun x => ⟨.protoAll :: x.ms, x.tgt⟩
    else do
      let p ← parseProto? p
      let x ← parseRule? r
      some ⟨.proto p :: x.ms, x.tgt⟩
  | "-s" :: a :: r => do
    let a ← parseCidr? a
    let x ← parseRule? r
    some ⟨.src a :: x.ms, x.tgt⟩
  | "-d" :: a :: r => do
    let a ← parseCidr? a
    let x ← parseRule? r
    some ⟨.dst a :: x.ms, x.tgt⟩
  | _ => none

/-! ## Instantiating the regenerated rule templates (ties `render` to the source text of /repo) -/

open Galaxy.Generated.Policy (Tok) in
def instTok (vars : String → String) (joins : String → List String) : Tok → List String
  | .lit s => [s]
  | .var v => [vars v]
  | .join v sep => [String.intercalate sep (joins v)]

open Galaxy.Generated.Policy (Tok) in
def instTpl (vars : String → String) (joins : String → List String) (t : List Tok) : List String :=
  t.flatMap (instTok vars joins)

/-- variables of writePolicyChainRules (canonical parameter / loop-variable names by position, see
    tools/factgen/cmd/policy/specs.go) -/
def plcyVars (chain cm s d : String) (v : String) : String :=
  if v = "policyChainName" then chain else if v = "policyNameComment" then cm
  else if v = "srcTableName" then s else if v = "dstTableName" then d else "?" ++ v

/-- variables of SyncPodChains: the words are canonical Go expressions (single-assignment locals inlined) -/
def podVars (podChain cm ip plcyChain : String) (v : String) : String :=
  if v = "podChainName(pod)" then podChain else if v = "fmt.Sprintf(\"%s_%s\", pod.Name, pod.Namespace)" then cm
  else if v = "pod.Status.PodIP" then ip else if v = "policyChainName(policy.np)" then plcyChain else "?" ++ v

/-! ## Synchronisation against an arbitrary prior kernel state (C15)

  The kernel state is the set list and the filter table in the structured form above.  The primitive operations
  have the STRICT semantics of M6 (Galaxy.Netfilter, harness/nf) restricted to the structured rule forms:
  iptables-restore --noflush is all-or-nothing, a rule needs its chain, its jump target and its sets, `-X` needs
  the chain empty (after the batch's own flushes) and unreferenced, `ipset destroy` fails while a rule matches on
  the set, `ipset add -exist` replaces the element with the same key.  The harness compares every step of the
  real code over harness/nf with these functions, starting from the real prior dump. -/

structure Kern where
  sets : List IpSet
  tbl : Table
  deriving Repr

/-- failure classes of rule submissions (what clause 4 of C15 is about) -/
inductive Fail where
  | restoreNoChain | restoreNoTarget | restoreNoSet | restoreBusy | restoreTooManyPorts
  | ensureNoChain | ensureNoTarget | ensureNoSet | ensureTooManyPorts
  | deleteNoTarget | deleteNoSet | deleteTooManyPorts
  | addNoSet | createMismatch
  deriving DecidableEq, Repr

def Fail.render : Fail → String
  | .restoreNoChain => "restore:no-chain"
  | .restoreNoTarget => "restore:no-target"
  | .restoreNoSet => "restore:no-set"
  | .restoreBusy => "restore:busy"
  | .restoreTooManyPorts => "restore:too-many-ports"
  | .ensureTooManyPorts => "ensure-rule:too-many-ports"
  | .deleteTooManyPorts => "delete-rule:too-many-ports"
  | .ensureNoChain => "ensure-rule:no-chain"
  | .ensureNoTarget => "ensure-rule:no-target"
  | .ensureNoSet => "ensure-rule:no-set"
  | .deleteNoTarget => "delete-rule:no-target"
  | .deleteNoSet => "delete-rule:no-set"
  | .addNoSet => "ipset-add:not-found"
  | .createMismatch => "ipset-create:type-mismatch"

def Chain.isBuiltin : Chain → Bool
  | .forward | .input | .output => true
  | _ => false

def PRule.setRefs (r : PRule) : List SetName :=
  r.ms.filterMap (fun m => match m with | .setSrc n => some n | .setDst n => some n | _ => none)

def PRule.jumpsTo (r : PRule) (c : Chain) : Bool := r.tgt == Tgt.jump c

def chainExists (t : Table) (c : Chain) : Bool := (Tbl.get t c).isSome
def chainReferenced (t : Table) (c : Chain) : Bool := t.any (fun kv => kv.2.any (·.jumpsTo c))
def setExists (sets : List IpSet) (n : SetName) : Bool := sets.any (·.name == n)
def setReferenced (t : Table) (n : SetName) : Bool := t.any (fun kv => kv.2.any (fun r => r.setRefs.contains n))

/-- table update that keeps the chain's position (the canonical form sorts anyway) -/
def setChain (t : Table) (c : Chain) (rs : List PRule) : Table :=
  if chainExists t c then t.map (fun kv => if kv.1 = c then (kv.1, rs) else kv) else t ++ [(c, rs)]

inductive RefErr where
  | noTarget | noSet | tooManyPorts
  deriving DecidableEq

/-- a rule can only be submitted if its jump target chain and its sets exist -/
def checkRefs (k : Kern) (t : Table) (r : PRule) : Option RefErr :=
  if !r.portsOK then some .tooManyPorts else
  match r.tgt with
  | .jump c => if !chainExists t c then some .noTarget else if r.setRefs.all (setExists k.sets) then none else some .noSet
  | _ => if r.setRefs.all (setExists k.sets) then none else some .noSet

inductive Cmd where
  | decl (c : Chain)
  | app (c : Chain) (r : PRule)
  | del (c : Chain)

def applyCmd (k : Kern) (t : Table) : Cmd → Except Fail Table
  | .decl c => if c.isBuiltin then (if chainExists t c then .ok t else .error .restoreNoChain) else .ok (setChain t c [])
  | .app c r =>
    match checkRefs k t r with
    | some .noTarget => .error .restoreNoTarget
    | some .noSet => .error .restoreNoSet
    | some .tooManyPorts => .error .restoreTooManyPorts
    | none =>
      match Tbl.get t c with
      | none => .error .restoreNoChain
      | some rs => .ok (setChain t c (rs ++ [r]))
  | .del c =>
    match Tbl.get t c with
    | none => .error .restoreNoChain
    | some rs =>
      if c.isBuiltin && rs.isEmpty then .ok t
      else if !rs.isEmpty || chainReferenced t c then .error .restoreBusy
      else .ok (Tbl.erase t c)

/-- iptables-restore --noflush of one table section: all or nothing -/
def restore (k : Kern) (cmds : List Cmd) : Except Fail Table :=
  cmds.foldlM (applyCmd k) k.tbl

def ensureChainK (k : Kern) (c : Chain) : Kern :=
  if chainExists k.tbl c then k else { k with tbl := setChain k.tbl c [] }

/-- EnsureRule: references are checked first, then the chain; an existing equal rule is kept -/
def ensureRule (k : Kern) (prepend : Bool) (c : Chain) (r : PRule) : Kern × List Fail :=
  match checkRefs k k.tbl r with
  | some .noTarget => (k, [.ensureNoTarget])
  | some .noSet => (k, [.ensureNoSet])
  | some .tooManyPorts => (k, [.ensureTooManyPorts])
  | none =>
    match Tbl.get k.tbl c with
    | none => (k, [.ensureNoChain])
    | some rs =>
      if rs.contains r then (k, [])
      else ({ k with tbl := setChain k.tbl c (if prepend then r :: rs else rs ++ [r]) }, [])

def eraseFirst (rs : List PRule) (r : PRule) : List PRule := rs.erase r

/-- DeleteRule: references are checked first; a missing chain or rule is not an error -/
def deleteRule (k : Kern) (c : Chain) (r : PRule) : Kern × List Fail :=
  match checkRefs k k.tbl r with
  | some .noTarget => (k, [.deleteNoTarget])
  | some .noSet => (k, [.deleteNoSet])
  | some .tooManyPorts => (k, [.deleteTooManyPorts])
  | none =>
    match Tbl.get k.tbl c with
    | none => (k, [])
    | some rs => ({ k with tbl := setChain k.tbl c (eraseFirst rs r) }, [])

/-! ipset primitives -/

def Entry.key : Entry → Entry
  | .ip a => .ip a
  | .net c _ => .net c false

def setEntries (sets : List IpSet) (n : SetName) : Option (List Entry) :=
  (sets.find? (·.name == n)).map (·.entries)

def updSet (sets : List IpSet) (n : SetName) (f : List Entry → List Entry) : List IpSet :=
  sets.map (fun s => if s.name = n then { s with entries := f s.entries } else s)

/-- `ipset add -exist`: the element with the same key is replaced -/
def addEntry (es : List Entry) (e : Entry) : List Entry :=
  if es.any (fun x => x.key == e.key) then es.map (fun x => if x.key = e.key then e else x) else es ++ [e]

def delEntry (es : List Entry) (e : Entry) : List Entry := es.filter (fun x => x.key != e.key)

/-- the stale-entry clean-up of createIPSet: an old entry that is not (as a string, options included) among the new
    ones is deleted BY KEY — unless `keep` (the regenerated fact `createIPSetKeepsRekeyedEntries`) and its key is
    among the keys of the new entries (then only its options changed and the add above has replaced it) -/
def cleanupEntries (keep : Bool) (new oldEs afterAdd : List Entry) : List Entry :=
  oldEs.foldl (fun es o =>
    if new.contains o then es
    else if keep && new.any (fun e => e.key == o.key) then es
    else delEntry es o) afterAdd

/-- the add pass of createIPSet: entries already present (same string) are skipped, the others added with -exist -/
def addEntries (new oldEs : List Entry) : List Entry :=
  new.foldl (fun es e => if oldEs.contains e then es else addEntry es e) oldEs

/-- createIPSet for one set: create (type mismatch aborts), then the diff-based update of the entries -/
def syncOneSetWith (keep : Bool) (sets : List IpSet) (s : IpSet) : Except Fail (List IpSet) :=
  match sets.find? (·.name == s.name) with
  | some old =>
    if old.type ≠ s.type then .error .createMismatch
    else .ok (updSet sets s.name (fun _ => cleanupEntries keep s.entries old.entries (addEntries s.entries old.entries)))
  | none => .ok (sets ++ [{ s with entries := s.entries.foldl addEntry [] }])

/-- createIPSet as the current source has it -/
def syncOneSet : List IpSet → IpSet → Except Fail (List IpSet) := syncOneSetWith G.createIPSetKeepsRekeyedEntries

def SetName.isGlx (n : SetName) : Bool := n.kind != SetKind.foreign || n.hash.startsWith G.namePrefix

/-- the batch of syncIptables: chain lines (policies, then stale GLX-PLCY chains), rules, -X lines -/
def policyBatch (t : Table) (ps : List NetPol) : List Cmd :=
  let active := ps.map (fun p => Chain.plcy p.hash)
  let stale := (t.map (·.1)).filter (fun c => match c with | .plcy _ => !active.contains c | _ => false)
  ps.map (fun p => Cmd.decl (.plcy p.hash)) ++ stale.map Cmd.decl ++
  ps.flatMap (fun p => (policyChain p).map (Cmd.app (.plcy p.hash))) ++ stale.map Cmd.del

/-- the deferred clean-up of syncRules: stale GLX sets (listed before the sync) are destroyed unless still referenced -/
def destroyStale (t : Table) (stale : List SetName) (sets : List IpSet) : List IpSet :=
  stale.foldl (fun ss n => if setReferenced t n then ss else ss.filter (·.name != n)) sets

/-- the iptables part of syncRules -/
def syncIptables (k : Kern) (ps : List NetPol) : Table × List Fail :=
  match restore k (policyBatch k.tbl ps) with
  | .ok t => (t, [])
  | .error e => (k.tbl, [e])

/-- syncRules: ipsets first, then the policy chains in one batch, stale GLX sets destroyed afterwards -/
def syncRulesWith (keep : Bool) (k : Kern) (c : Cluster) (ps : List NetPol) : Kern × List Fail :=
  match (compileSets c ps).foldlM (syncOneSetWith keep) k.sets with
  | .error e => (k, [e])        -- nf/real: aborts in the middle; the generator never produces a type clash
  | .ok sets1 =>
    let r := syncIptables { k with sets := sets1 } ps
    let stale := (k.sets.map (·.name)).filter (fun n => n.isGlx && !((compileSets c ps).any (·.name == n)))
    ({ sets := destroyStale r.1 stale sets1, tbl := r.1 }, r.2)

def syncRules (k : Kern) (c : Cluster) (ps : List NetPol) : Kern × List Fail :=
  syncRulesWith G.createIPSetKeepsRekeyedEntries k c ps

def glxBaseRules : List (Chain × PRule) :=
  [(.forward, ⟨[], .jump .glxIngress⟩), (.forward, ⟨[], .jump .glxEgress⟩),
   (.output, ⟨[], .jump .glxIngress⟩), (.input, ⟨[], .jump .glxEgress⟩)]

/-- ensureBasicChain (each step's error would abort SyncPodChains; built-in chains always exist) -/
def ensureBasic (k : Kern) : Kern × List Fail :=
  glxBaseRules.foldl (fun (acc : Kern × List Fail) cr =>
    ((ensureRule acc.1 true cr.1 cr.2).1, acc.2 ++ (ensureRule acc.1 true cr.1 cr.2).2))
    (ensureChainK (ensureChainK k .glxIngress) .glxEgress, [])

/-- deletePodRuleByKeyword: the first rule of the chain that mentions the pod chain is deleted -/
def deleteHookByKeyword (k : Kern) (c : Chain) (podChainName : Chain) : Kern × List Fail :=
  match Tbl.get k.tbl c with
  | none => (k, [])
  | some rs =>
    match rs.find? (fun r => r.jumpsTo podChainName) with
    | none => (k, [])
    | some r => deleteRule k c r

/-- flush and delete the pod chain (DeleteChain fails, silently, while a hook still references it) -/
def dropPodChain (k : Kern) (pc : Chain) : Kern :=
  match Tbl.get k.tbl pc with
  | none => k
  | some _ =>
    if chainReferenced (setChain k.tbl pc []) pc then { k with tbl := setChain k.tbl pc [] }
    else { k with tbl := Tbl.erase (setChain k.tbl pc []) pc }

/-- deletePodChains -/
def deletePodChains (k : Kern) (q : Pod) : Kern × List Fail :=
  let r1 := deleteHookByKeyword k .glxIngress (.pod q.hash)
  let r2 := deleteHookByKeyword r1.1 .glxEgress (.pod q.hash)
  (dropPodChain r2.1 (.pod q.hash), r1.2 ++ r2.2)

/-- the hook step of SyncPodChains for one direction: ensure the rule when selected, delete it otherwise -/
def hookStep (k : Kern) (sel : Bool) (c : Chain) (r : PRule) : Kern × List Fail :=
  if sel then ensureRule k false c r else deleteRule k c r

/-- the part of SyncPodChains after ensureBasicChain -/
def syncPodChain (k : Kern) (ps : List NetPol) (q : Pod) : Kern × List Fail :=
  match restore k (Cmd.decl (.pod q.hash) :: (podChain ps q).map (Cmd.app (.pod q.hash))) with
  | .error e => (k, [e])
  | .ok t2 =>
    match hookRule true q, hookRule false q with
    | [hi], [he] =>
      let r3 := hookStep { k with tbl := t2 } (hookedIngress ps q) .glxIngress hi
      if r3.2 ≠ [] then r3 else hookStep r3.1 (hookedEgress ps q) .glxEgress he
    | _, _ => ({ k with tbl := t2 }, [])

/-- SyncPodChains for one pod -/
def syncPod (k : Kern) (ps : List NetPol) (q : Pod) : Kern × List Fail :=
  if !(hookedIngress ps q || hookedEgress ps q) then deletePodChains k q
  else match q.ip with
  | none => (k, [])
  | some _ => if (ensureBasic k).2 ≠ [] then ensureBasic k else syncPodChain (ensureBasic k).1 ps q

/-- syncPods: SyncPodChains for every pod of this node -/
def syncPods (k : Kern) (c : Cluster) (ps : List NetPol) (node : String) : Kern × List Fail :=
  (c.pods.filter (fun q => q.node == node)).foldl (fun (acc : Kern × List Fail) q =>
    ((syncPod acc.1 ps q).1, acc.2 ++ (syncPod acc.1 ps q).2)) (k, [])

/-- PolicyManager.Run: policies → policy rules → pod chains -/
def fullSyncWith (keep : Bool) (k : Kern) (c : Cluster) (ps : List NetPol) (node : String) : Kern × List Fail :=
  ((syncPods (syncRulesWith keep k c ps).1 c ps node).1,
    (syncRulesWith keep k c ps).2 ++ (syncPods (syncRulesWith keep k c ps).1 c ps node).2)

def fullSync (k : Kern) (c : Cluster) (ps : List NetPol) (node : String) : Kern × List Fail :=
  fullSyncWith G.createIPSetKeepsRekeyedEntries k c ps node

end Galaxy.Policy
