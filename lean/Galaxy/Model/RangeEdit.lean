/-
  M1b — editing a pool's range list: `FloatingIPPool.InsertIP`, `tryMerge`, `FloatingIPPool.RemoveIP`
  (pkg/ipam/floatingip/floatingip.go).  Core Lean only; run by `gxdrv_nets` (ops `insert`, `remove`).

  Transcription notes (checked by the correspondence on arbitrary — also unsorted and inverted — range lists):
  * the Go loops return at the first index that mutates the slice, so they are structural recursions here;
  * `InsertIP`'s `ret == 1` arm calls `tryMerge(i-1)`.  That call can never merge: index `i` is reached only
    when index `i-1` did not return, i.e. when `Minus(ranges[i-1].Last, ip) != -1`, and `tryMerge(i-1)` merges
    exactly when `Minus(ip, ranges[i-1].Last) == 1`.  It is therefore transcribed as a no-op;
  * `tryMerge(i)` of the `first-ip` arm looks at the next range only;
  * comparisons are `floatingip.Minus` (regenerated `Galaxy.Generated.Nets.minus`, int64) and
    `IPRange.Contains` (regenerated `rangeContains`); `IntToIP(IPToInt(x) ± 1)` is uint32 arithmetic.
-/
import Galaxy.Model.Pool

namespace Galaxy.RangeEdit
open Galaxy.Nets Galaxy.Generated.Nets

/-- `nets.IPtoIPRange(ip)`. -/
def single (ip : IPv4) : Range := ⟨ip, ip⟩

/-- The loop of `InsertIP` (behind the subnet test); `none` = the method returns `false`. -/
def insertRanges (ip : IPv4) : List Range → Option (List Range)
  | [] => some [single ip]
  | r :: rest =>
    if r.contains ip then none
    else if (minus r.first ip).toInt > 1 then some (single ip :: r :: rest)
    else if (minus r.first ip).toInt = 1 then some (⟨ip, r.last⟩ :: rest)
    else if (minus r.last ip).toInt = -1 then
      some (match rest with
        | [] => [⟨r.first, ip⟩]
        | n :: rest' => if (minus n.first ip).toInt = 1 then ⟨r.first, n.last⟩ :: rest' else ⟨r.first, ip⟩ :: n :: rest')
    else (insertRanges ip rest).map (r :: ·)

/-- The loop of `RemoveIP` (behind the subnet test); `none` = the method returns `false`. -/
def removeRanges (ip : IPv4) : List Range → Option (List Range)
  | [] => none
  | r :: rest =>
    if r.contains ip then
      some (if r.first = r.last then rest
        else if r.first = ip then ⟨r.first + 1#32, r.last⟩ :: rest
        else if r.last = ip then ⟨r.first, r.last - 1#32⟩ :: rest
        else ⟨r.first, ip - 1#32⟩ :: ⟨ip + 1#32, r.last⟩ :: rest)
    else (removeRanges ip rest).map (r :: ·)

/-- `FloatingIPPool.InsertIP`: subnet test (`SparseSubnet.IPNet().Contains(ip)`), then the loop. -/
def insertIP (gateway : IPv4) (prefixLen : Nat) (ip : IPv4) (rs : List Range) : Option (List Range) :=
  if Galaxy.Pool.inSubnet gateway prefixLen ip then insertRanges ip rs else none

/-- `FloatingIPPool.RemoveIP`. -/
def removeIP (gateway : IPv4) (prefixLen : Nat) (ip : IPv4) (rs : List Range) : Option (List Range) :=
  if Galaxy.Pool.inSubnet gateway prefixLen ip then removeRanges ip rs else none

/-- Sorted, every range non-inverted, and consecutive ranges neither overlapping nor mergeable — what `fipCheck`
    accepts — with a lower bound `lb` on the first address (so that the predicate is one structural recursion). -/
def CanonFrom : Nat → List Range → Prop
  | _, [] => True
  | lb, r :: t => lb ≤ r.first.toNat ∧ r.first.toNat ≤ r.last.toNat ∧ CanonFrom (r.last.toNat + 2) t

def Canon (rs : List Range) : Prop := CanonFrom 0 rs

end Galaxy.RangeEdit
