/-
  M5 — the CNI multiplexer of galaxy (pkg/galaxy/server.go: resolveNetworks, getNetworkConf, setNetInterface,
  cmdAdd / requestFunc;  pkg/api/cniutil/cni.go: CmdAdd, CmdDel, BuildCNIArgs, ParseCNIArgs, save/consumeNetworkInfo;
  pkg/api/k8s/k8s.go: ParsePodNetworkAnnotation).

  Core Lean only.  All text is `List Char` (`Str`), so that every function is structurally recursive and
  `decide` can evaluate the model on concrete inputs.  Constants, `setNetInterface` and the structural facts
  come from `Galaxy.Generated.Cni`, regenerated from /repo on every check run.

  The model has one Boolean parameter, `Static.copy` (= `Generated.Cni.getNetworkConfReturnsCopy` in the driver):
  `true`  — getNetworkConf hands out a copy of the configured per-network map (the code as it is now);
  `false` — the pre-fix code (defect D5): the configured map itself is handed out, CmdAdd writes `prevResult`
            into it, so the configuration is mutable shared state (`State.shared`).
-/
import Galaxy.Model.Tbl
import Galaxy.Generated.Cni

namespace Galaxy.Cni
open Galaxy.Generated.Cni

abbrev Str := List Char

/-! ## text helpers (Go `strings`) -/

/-- `strings.Split(s, sep)` for a one-character separator: never empty, `[[]]` for the empty string. -/
def splitOn (sep : Char) : Str → List Str
  | [] => [[]]
  | c :: t =>
    if c = sep then [] :: splitOn sep t
    else (c :: (splitOn sep t).headD []) :: (splitOn sep t).tail

/-- `strings.SplitN(s, sep, 2)`: `none` when `sep` does not occur (the result has length 1), else
    (text before the first `sep`, text after it). -/
def cut (sep : Char) : Str → Option (Str × Str)
  | [] => none
  | c :: t => if c = sep then some ([], t) else (cut sep t).map (fun p => (c :: p.1, p.2))

/-- `unicode.IsSpace` -/
def isSpace (c : Char) : Bool :=
  let n := c.toNat
  (9 ≤ n && n ≤ 13) || n = 32 || n = 0x85 || n = 0xA0 || n = 0x1680 || (0x2000 ≤ n && n ≤ 0x200a) ||
  n = 0x2028 || n = 0x2029 || n = 0x202f || n = 0x205f || n = 0x3000

def dropRightWhile (p : Char → Bool) (s : Str) : Str := (s.reverse.dropWhile p).reverse

/-- `strings.TrimSpace` -/
def trim (s : Str) : Str := dropRightWhile isSpace (s.dropWhile isSpace)

/-- `strings.TrimRight(s, cutset)` -/
def trimRightSet (cutset : List Char) (s : Str) : Str := dropRightWhile (fun c => cutset.contains c) s

/-- `strings.Join` with a one-character separator -/
def joinSep (sep : Char) : List Str → Str
  | [] => []
  | [a] => a
  | a :: b :: t => a ++ sep :: joinSep sep (b :: t)

/-! ## CNI_ARGS: BuildCNIArgs, the accumulation in CmdAdd/CmdDel, ParseCNIArgs -/

abbrev Args := List (Str × Str)

def kvEntry (p : Str × Str) : Str := p.1 ++ buildKvSep :: p.2

/-- `BuildCNIArgs` for the iteration order in which the entries are listed (Go iterates a map) -/
def buildArgs (m : Args) : Str := joinSep buildArgSep (m.map kvEntry)

/-- `cmdArgs.Args = strings.TrimRight(fmt.Sprintf("%s;%s", cmdArgs.Args, BuildCNIArgs(info.Args)), ";")` in CmdAdd -/
def accumAdd (a : Str) (m : Args) : Str := trimRightSet accumCutAdd (a ++ accumSepAdd :: buildArgs m)

/-- the same statement in CmdDel -/
def accumDel (a : Str) (m : Args) : Str := trimRightSet accumCutDel (a ++ accumSepDel :: buildArgs m)

/-- one segment of `ParseCNIArgs`: segments without the key/value separator are skipped; later entries overwrite -/
def parseSeg (t : Tbl Str Str) (seg : Str) : Tbl Str Str :=
  match cut parseKvSep seg with
  | none => t
  | some (k, v) => t.set (trim k) (trim v)

/-- `ParseCNIArgs` (every CNI plugin parses its CNI_ARGS this way: last occurrence wins) -/
def parseArgs (s : Str) : Tbl Str Str := (splitOn parseArgSep s).foldl parseSeg []

/-- last binding of `k` in an entry list (what a Go map built by inserting the entries in order holds) -/
def lastLookup : Args → Str → Option Str
  | [], _ => none
  | (k', v) :: t, k => match lastLookup t k with
    | some w => some w
    | none => if k' = k then some v else none

/-- what the CNI plugins are meant to see: the request's own args overlaid by the pod's extended args -/
def overlay (base : Tbl Str Str) (m : Args) (k : Str) : Option Str :=
  match lastLookup m k with
  | some v => some v
  | none => base.get k

/-- well-formed extended args: keys and values survive the `k=v;…` encoding
    (no separator inside, nothing `TrimSpace` would remove) -/
def WFArgs (m : Args) : Prop :=
  ∀ p ∈ m, buildArgSep ∉ p.1 ∧ buildKvSep ∉ p.1 ∧ buildArgSep ∉ p.2 ∧ trim p.1 = p.1 ∧ trim p.2 = p.2

/-! ## configuration, pods, requests, state -/

/-- one network configuration; `digest` stands for the whole JSON object (stdin of the plugin minus prevResult) -/
structure Conf where
  ptype : Str
  digest : Str
  deriving DecidableEq, Repr

/-- identity of a plugin result: (container, network configuration, interface) of the ADD that produced it -/
structure Src where
  cid : Str
  digest : Str
  ifname : Str
  deriving DecidableEq, Repr

/-- `cniutil.NetworkInfo` as saved in /var/lib/cni/galaxy/<cid>; `prev` = the `prevResult` key of `Conf` -/
structure NetInfo where
  name : Str
  conf : Conf
  ifname : Str
  args : Args
  prev : Option Src
  deriving DecidableEq, Repr

structure Static where
  /-- `Galaxy.netConf`, from the JSON configuration -/
  netConf : Tbl Str Conf
  /-- network configurations found in `NetworkConfDir`, in file order (read afresh on every request) -/
  dirConf : List (Str × Conf)
  defaultNetworks : List Str
  eniNetwork : Str
  /-- `Generated.Cni.getNetworkConfReturnsCopy` -/
  copy : Bool

structure State where
  /-- /var/lib/cni/galaxy/<container id> -/
  files : Tbl Str (List NetInfo)
  /-- pre-fix only: the `prevResult` left behind in the configured (shared) map of a network -/
  shared : Tbl Str Src

def State.init : State := ⟨[], []⟩

/-- one element of the networks annotation -/
structure Elem where
  name : Str
  iface : Str
  deriving DecidableEq, Repr

structure Pod where
  /-- raw value of `k8s.v1.cni.cncf.io/networks` (`[]` = absent or empty) -/
  ann : Str
  /-- the JSON form as decoded by encoding/json (`none` = decode error or a null element); used only when
      the annotation is in JSON form -/
  annJson : Option (List Elem)
  /-- the pod requests the ENI-IP resource -/
  wantsEni : Bool
  /-- `args.common` of `k8s.v1.cni.galaxy.io/args` as raw JSON values (`none` = the annotation does not decode) -/
  ext : Option Args

inductive Cmd | add | del
  deriving DecidableEq, Repr

/-- one plugin invocation as the recording plugin sees it -/
structure Inv where
  cmd : Cmd
  cid : Str
  ptype : Str
  digest : Str
  ifname : Str
  /-- CNI_ARGS as passed (compare through `parseArgs`) -/
  args : Str
  /-- the `prevResult` in the plugin's stdin -/
  prev : Option Src
  deriving DecidableEq, Repr

/-- everything of an invocation except the argument string and prevResult -/
def Inv.tgt (i : Inv) : Cmd × Str × Str × Str × Str := (i.cmd, i.cid, i.ptype, i.digest, i.ifname)

structure Req where
  cmd : Cmd
  cid : Str
  /-- CNI_IFNAME from kubelet -/
  ifname : Str
  /-- CNI_ARGS from kubelet -/
  args : Str
  /-- the pod the apiserver returns for the request (`none` = not found); only ADD looks at it -/
  pod : Option Pod

/-! ## network selection (`resolveNetworks`) -/

def isLower (c : Char) : Bool := 'a' ≤ c && c ≤ 'z'
def isDigit (c : Char) : Bool := '0' ≤ c && c ≤ '9'
def isAlnum (c : Char) : Bool := isLower c || isDigit c

/-- empty, or matches `^[a-z0-9]([-a-z0-9]*[a-z0-9])?$` (= `Generated.Cni.labelRegex`, pinned by a fact theorem) -/
def labelOk (s : Str) : Bool :=
  match s with
  | [] => true
  | c :: _ => isAlnum c && s.all (fun x => isAlnum x || x = '-') && (s.getLast?.map isAlnum).getD false

/-- `parsePodNetworkObjectName` -/
def parseItem (item : Str) : Option Elem :=
  let finish (ns name : Str) : Option Elem :=
    let ats := splitOn ifSep name
    let nm := trim (ats.headD [])
    let chk (i : Str) : Option Elem := if labelOk ns && labelOk nm && labelOk i then some ⟨nm, i⟩ else none
    match ats with
    | [_] => chk []
    | [_, i] => chk (trim i)
    | _ => none
  match splitOn nsSep item with
  | [a] => finish [] a
  | [ns, a] => finish (trim ns) a
  | _ => none

def parseItems : List Str → Option (List Elem)
  | [] => some []
  | it :: t => match parseItem (trim it), parseItems t with
    | some e, some r => some (e :: r)
    | _, _ => none

/-- comma form of the networks annotation -/
def parseComma (s : Str) : Option (List Elem) := parseItems (splitOn commaSep s)

def looksJson (s : Str) : Bool := s.any (fun c => jsonDetectChars.contains c)

/-- `ParsePodNetworkAnnotation` on a non-empty annotation -/
def parseAnn (p : Pod) : Option (List Elem) := if looksJson p.ann then p.annJson else parseComma p.ann

/-- `getNetworkConf`: the configured network, else the first file of the conf dir with that name
    (an empty name matches every file) -/
def lookupConf (st : Static) (name : Str) : Option Conf :=
  match st.netConf.get name with
  | some c => some c
  | none => (st.dirConf.find? (fun e => name.isEmpty || e.1 = name)).map (·.2)

/-- the loop of `resolveNetworks` that builds the NetworkInfos, starting at index `i` -/
def mkInfos (st : Static) (argIf : Str) (ext : Args) : Nat → List Elem → Option (List NetInfo)
  | _, [] => some []
  | i, e :: t =>
    match lookupConf st e.name, mkInfos st argIf ext (i + 1) t with
    | some c, some r =>
      some ({ name := e.name, conf := c, ifname := setNetInterface e.iface i argIf, args := ext, prev := none } :: r)
    | _, _ => none

/-- the elements `resolveNetworks` works on: annotation, else ENI network, else default networks -/
def chosen (st : Static) (pod : Pod) : Option (List Elem) :=
  if pod.ann.isEmpty then
    if pod.wantsEni && !st.eniNetwork.isEmpty then some [⟨st.eniNetwork, []⟩]
    else some (st.defaultNetworks.map (fun n => ⟨n, []⟩))
  else parseAnn pod

/-- `resolveNetworks` (`none` = error; no side effect in that case) -/
def select (st : Static) (pod : Pod) (argIf : Str) : Option (List NetInfo) :=
  match chosen st pod, pod.ext with
  | some els, some ext => mkInfos st argIf ext 0 els
  | _, _ => none

/-! ## CmdDel -/

structure DelOut where
  invs : List Inv
  /-- infos whose DEL failed, in the order they were visited -/
  fails : List NetInfo
  args : Str

def delInv (cid : Str) (n : NetInfo) (a : Str) : Inv :=
  { cmd := .del, cid := cid, ptype := n.conf.ptype, digest := n.conf.digest, ifname := n.ifname, args := a, prev := n.prev }

/-- body of the `for idx := lastIdx; idx >= 0; idx--` loop over the infos in visiting order;
    `k` = index of the next plugin invocation of this request, `o k` = that invocation succeeds -/
def delLoop (cid : Str) (o : Nat → Bool) : List NetInfo → Nat → Str → DelOut
  | [], _, a => ⟨[], [], a⟩
  | n :: t, k, a =>
    let a' := accumDel a n.args
    let r := delLoop cid o t (k + 1) a'
    ⟨delInv cid n a' :: r.invs, if o k then r.fails else n :: r.fails, r.args⟩

structure Out where
  state : State
  invs : List Inv
  ok : Bool

/-- the infos a `CmdDel(cmdArgs, lastIdx)` walks over (`none` = `-1` = all of them) -/
def upto (infos : List NetInfo) : Option Nat → List NetInfo
  | none => infos
  | some i => infos.take (i + 1)

/-- `CmdDel` after the state file has been read and removed: walk `U` backwards, re-save the failures -/
def delWalk (s : State) (cid : Str) (U : List NetInfo) (args : Str) (o : Nat → Bool) (k0 : Nat) : Out :=
  let r := delLoop cid o U.reverse k0 args
  if r.fails.isEmpty then ⟨{ s with files := s.files.erase cid }, r.invs, true⟩
  else ⟨{ s with files := (s.files.erase cid).set cid r.fails.reverse }, r.invs, false⟩

/-- `CmdDel(cmdArgs, lastIdx)`; `last = none` is `-1` (all saved networks) -/
def cmdDel (s : State) (cid : Str) (args : Str) (last : Option Nat) (o : Nat → Bool) (k0 : Nat) : Out :=
  match s.files.get cid with
  | none => ⟨s, [], true⟩
  | some infos => delWalk s cid (upto infos last) args o k0

/-! ## CmdAdd -/

/-- the configured map of `name` is handed out itself (pre-fix) rather than copied -/
def aliased (st : Static) (name : Str) : Bool := !st.copy && (st.netConf.get name).isSome

/-- the `prevResult` key of the conf map `getNetworkConf` hands out -/
def curPrev (st : Static) (sh : Tbl Str Src) (name : Str) : Option Src :=
  if aliased st name then sh.get name else none

structure AddOut where
  invs : List Inv
  failedAt : Option Nat
  args : Str
  shared : Tbl Str Src

def addInv (cid : Str) (n : NetInfo) (a : Str) (pv : Option Src) : Inv :=
  { cmd := .add, cid := cid, ptype := n.conf.ptype, digest := n.conf.digest, ifname := n.ifname, args := a, prev := pv }

def resultOf (cid : Str) (n : NetInfo) : Src := ⟨cid, n.conf.digest, n.ifname⟩

/-- `networkInfo.Conf["prevResult"] = result` (only when there is a previous result) writes into the map handed
    out by getNetworkConf: the shared table changes iff that map is the configured one -/
def writePrev (st : Static) (sh : Tbl Str Src) (name : Str) : Option Src → Tbl Str Src
  | some r => if aliased st name then sh.set name r else sh
  | none => sh

/-- the `prevResult` the delegate finds in its stdin -/
def seenPrev (n : NetInfo) : Option Src → Option Src
  | some r => some r
  | none => n.prev

/-- the delegate loop of `CmdAdd`; `res` = result of the previous delegate -/
def addLoop (st : Static) (cid : Str) (o : Nat → Bool) : List NetInfo → Nat → Str → Option Src → Tbl Str Src → AddOut
  | [], _, a, _, sh => ⟨[], none, a, sh⟩
  | n :: t, k, a, res, sh =>
    let a' := accumAdd a n.args
    let sh' := writePrev st sh n.name res
    let pv := seenPrev n res
    if o k then
      let r := addLoop st cid o t (k + 1) a' (some (resultOf cid n)) sh'
      { r with invs := addInv cid n a' pv :: r.invs }
    else ⟨[addInv cid n a' pv], some k, a', sh'⟩

/-- what `saveNetworkInfo` writes: the infos with their conf maps as they are at that moment -/
def snapshot (st : Static) (sh : Tbl Str Src) (sel : List NetInfo) : List NetInfo :=
  sel.map (fun x => { x with prev := curPrev st sh x.name })

/-- `cniutil.CmdAdd(cmdArgs, networkInfos)` -/
def cmdAddSel (st : Static) (s : State) (cid args : Str) (sel : List NetInfo) (o : Nat → Bool) : Out :=
  if sel.isEmpty then ⟨s, [], false⟩
  else
    let saved := snapshot st s.shared sel
    let r := addLoop st cid o saved 0 args none s.shared
    let s1 : State := ⟨s.files.set cid saved, r.shared⟩
    match r.failedAt with
    | none => ⟨s1, r.invs, true⟩
    | some i =>
      -- rollback: CmdDel(cmdArgs, idx) with the accumulated argument string
      let d := cmdDel s1 cid r.args (some i) o (i + 1)
      ⟨d.state, r.invs ++ d.invs, false⟩

/-- `Galaxy.cmdAdd` = `resolveNetworks` + `cniutil.CmdAdd` -/
def cmdAdd (st : Static) (s : State) (cid ifname args : Str) (pod : Pod) (o : Nat → Bool) : Out :=
  match select st pod ifname with
  | none => ⟨s, [], false⟩
  | some sel => cmdAddSel st s cid args sel o

/-- `requestFunc` restricted to what C12 observes (no host ports, no policy manager) -/
def step (st : Static) (s : State) (r : Req) (o : Nat → Bool) : Out :=
  match r.cmd with
  | .add => match r.pod with
    | none => ⟨s, [], false⟩
    | some p => cmdAdd st s r.cid r.ifname r.args p o
  | .del => cmdDel s r.cid r.args none o 0

/-! ## specification vocabulary used by the property theorems -/

/-- the elements of `l` whose position (counted from `i`) satisfies `f` -/
def pick {α : Type} (f : Nat → Bool) : Nat → List α → List α
  | _, [] => []
  | i, a :: t => if f i then a :: pick f (i + 1) t else pick f (i + 1) t

def addTgt (cid : Str) (n : NetInfo) : Cmd × Str × Str × Str × Str := (.add, cid, n.conf.ptype, n.conf.digest, n.ifname)
def delTgt (cid : Str) (n : NetInfo) : Cmd × Str × Str × Str × Str := (.del, cid, n.conf.ptype, n.conf.digest, n.ifname)

/-- a sequence of requests with their plugin outcomes; the invocation list of every request -/
def trace (st : Static) : State → List (Req × (Nat → Bool)) → List (List Inv)
  | _, [] => []
  | s, (r, o) :: t => (step st s r o).invs :: trace st (step st s r o).state t

def run (st : Static) : State → List (Req × (Nat → Bool)) → State
  | s, [] => s
  | s, (r, o) :: t => run st (step st s r o).state t

/-- the invocation lists of the requests for container `c`, in request order -/
def traceFor (st : Static) (c : Str) : State → List (Req × (Nat → Bool)) → List (List Inv)
  | _, [] => []
  | s, (r, o) :: t =>
    if r.cid = c then (step st s r o).invs :: traceFor st c (step st s r o).state t
    else traceFor st c (step st s r o).state t

end Galaxy.Cni
