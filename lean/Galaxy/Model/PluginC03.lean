/-
  C03 / C02 side file of the plugin model (`Galaxy.Model.Plugin` is owned by the work package "plugin"; nothing
  there is edited).  For properties C03 ("IPs are released exactly when the release policy says so") and C02
  ("float IP is sticky") it adds

  * `Action` / `DIn`: the vocabulary of the release decision - what is done with the addresses of a key
    (release | reserve under the own key | reserve under the app / pool prefix | keep | fail) and the inputs
    the decision depends on;
  * `codeAction`: the decision of `unbindDpPod` / `unbindNoneDpPod` / `shouldRelease` / `supportReserveIPPolicy`
    written over the REGENERATED comparison expressions of `Galaxy.Generated.C03`
    (`shouldReleaseScaledDown`, `dpNoReplicas`, `dpExceeds`) - `Lemmas/C03Decision.lean` proves that the model's
    `unbindDp` / `unbindOther` (what `gxdrv_plugin` executes) are `exec ∘ codeAction ∘ dinOf`;
  * `docAction`: the DOCUMENTED policy (doc/float-ip.md and the text of property C03), written independently of
    the code's control flow;
  * `CRs` / `unbindOtherX` / `supportReserveX`: the model's `unbindOther` / `supportReserve` extended by scalable
    custom resources (the plugin model has none installed: `CRs.none` gives back the model's functions);
  * `usedCountG` / `getAvailableSubnetG`: `getAvailableSubnet` over the regenerated `countsAsUsed`,
    `sizeLimitReached`, `reserveLookupApplies` (proved equal to the model's in `Lemmas/C02Filter.lean`).
  Core Lean only.
-/
import Galaxy.Model.Plugin
import Galaxy.Generated.C03

namespace Galaxy.Plugin.C03
open Galaxy Galaxy.Plugin



/-- what a release decision does with the addresses stored under a key -/
inductive Action
  | release                  -- `releaseIP(key)`: back to the free pool
  | reserveOwn               -- `reserveIP(key, key)`: kept under the pod's own key, node and uid cleared
  | reservePrefix            -- `reserveIP(key, prefix)`: re-keyed to the app / pool prefix (deployments)
  | keep                     -- nothing to do (`return nil`)
  | fail (cls : String)      -- an error is returned, nothing is done (the event is retried / left to resync)
deriving DecidableEq, Repr, Inhabited

/-- the inputs of the decision -/
structure DIn where
  isDp : Bool                -- the key is a deployment key (`dp_…`, with or without named pool)
  isSts : Bool               -- the key is a statefulset key
  pooled : Bool              -- the key lies in a named pool (`pool__<name>_…`)
  numeric : Bool             -- the pod name ends in `-<digits>` (`parsePodIndex(PodName)` succeeds)
  scalable : Bool            -- a CRD with scale subresource is known for the key's app type
  policy : Nat               -- the policy the decision is taken with (pod annotation incl. pool forcing, or stored)
  appExists : Bool           -- the parent workload is known to the lister / CR cache
  replicas : Nat             -- its replicas (deployments: 0 when the deployment is unknown)
  index : Option Nat         -- `parsePodIndex(key)`
  nPrefix : Nat              -- deployments: number of records under `PoolPrefix()`
  keyIsPrefix : Bool         -- the key IS the prefix (never for a pod's key)
deriving DecidableEq, Repr, Inhabited

/-! ## the decision as coded (regenerated arithmetic) -/

/-- `supportReserveIPPolicy(keyObj, policy) == nil` -/
def supported (i : DIn) : Bool :=
  if i.isDp || i.isSts then true
  else if !i.numeric then false
  else if i.policy == Generated.C03.releasePolicyNever then true
  else i.scalable

/-- `unbindNoneDpPod` with `checkAppAndReplicas` and `shouldRelease` inlined -/
def codeActionOther (i : DIn) : Action :=
  if i.policy == Generated.C03.releasePolicyPodDelete || !supported i then .release
  else if i.policy == Generated.C03.releasePolicyNever then .reserveOwn
  else if i.policy == Generated.C03.releasePolicyImmutable then
    if !(i.isSts || i.scalable) then .fail "other"
    else if !i.appExists then .release
    else match i.index with
      | none => .fail "bad-input"
      | some idx => if Generated.C03.shouldReleaseScaledDown i.replicas idx then .release else .reserveOwn
  else .keep

/-- `unbindDpPod` -/
def codeActionDp (i : DIn) : Action :=
  if i.policy == Generated.C03.releasePolicyPodDelete then .release
  else if i.policy == Generated.C03.releasePolicyNever then (if !i.keyIsPrefix then .reservePrefix else .keep)
  else if Generated.C03.dpNoReplicas i.replicas then .release
  else if Generated.C03.dpExceeds i.nPrefix i.replicas then .release
  else if !i.keyIsPrefix then .reservePrefix else .keep

/-- `unbind` / the resync closure: `if keyObj.Deployment() { unbindDpPod } else { unbindNoneDpPod }` -/
def codeAction (i : DIn) : Action := if i.isDp then codeActionDp i else codeActionOther i

/-! ## the documented policy (doc/float-ip.md, property C03) - independent of the code's control flow -/

/-- "Galaxy currently supports Float IP function for Deployment and Statefulsets PODs"; custom resources: "for pods
    with never release policy … its name matches `.*-[0-9]*$` … otherwise it throws an error of not supporting never
    release policy for it"; "for pods that need an immutable strategy, not only its name must satisfy the same
    regular expression, but also its CustomResourceDefinition must support scale sub-resource" -/
def docSupports (i : DIn) : Bool :=
  i.isDp || i.isSts || (i.numeric && (i.policy == 2 || i.scalable))

/-- is the address kept for the identity / app?
    * default (0): "release IP once the pod is deleted or finished";
    * immutable (1): "release IP only when deleting or scaling down deployment or statefulset" - kept iff the app
      exists and the pod's index is below the replicas; for deployments (no index): iff the app holds no more IPs
      than replicas;
    * never (2), and every pod of a named pool (the caller passes 2): "never release IP even if deployment or
      statefulset is deleted" - kept until an administrator releases it;
    * a policy that is not supported for the workload is no policy: released. -/
def docKeeps (i : DIn) : Bool :=
  if i.policy = 0 then false
  else if !docSupports i then false
  else if i.policy = 2 then true
  else if i.policy = 1 then
    if i.isDp then i.appExists && decide (i.nPrefix ≤ i.replicas)
    else i.appExists && (match i.index with
      | some idx => decide (idx < i.replicas)
      | none => true)           -- a pod without ordinal is never "scaled below"
  else true

/-- the documented action: released, or kept where the workload kind keeps it - deployments share their IPs under the
    app / pool prefix ("a replacement pod takes one of the IPs its app already holds in reserve"), every other
    workload keeps the IP for the pod identity -/
def docAction (i : DIn) : Action :=
  if !docKeeps i then .release
  else if i.isDp then (if i.keyIsPrefix then .keep else .reservePrefix)
  else .reserveOwn

/-- side conditions of the decision table: what the callers guarantee about the inputs
    * a deployment the lister does not know reads as 0 replicas (`getReplicasOfDeployment`);
    * the address under decision lies itself under the prefix that is counted;
    * a statefulset / scalable-CR pod whose reservation is supported carries its ordinal in the key
      (`<app>-<n>`; otherwise `shouldRelease` returns an error and nothing is decided). -/
def DIn.WF (i : DIn) : Prop :=
  i.policy ≤ 2 ∧
  (i.isDp = true → (i.appExists = false → i.replicas = 0) ∧ 1 ≤ i.nPrefix) ∧
  (i.isDp = false → i.policy = 1 → docSupports i = true → i.appExists = true → i.index.isSome)

instance (i : DIn) : Decidable i.WF := by unfold DIn.WF; exact inferInstance

/-! ## scalable custom resources (not part of the plugin model's state) -/

/-- the CRD lister (`crdKey`) and the custom-resource cache (`crdCache`).  `replicas` answers from API truth: the real
    cache hands a lister out only after its informer's initial LIST has been stored
    (`Generated.C03.crdListerHandedOutOnlyAfterSync`, Props `fact_crd_cache_synced_before_visible`), so there is no
    "started but still empty" state to model -/
structure CRs where
  scalable : String → Bool                          -- app type prefix ↦ a CRD with scale subresource exists
  replicas : String → String → String → Option Nat  -- app type prefix, namespace, name ↦ replicas (none = NotFound)

/-- the cluster of the plugin model: no custom resource definitions installed -/
def CRs.none : CRs := { scalable := fun _ => false, replicas := fun _ _ _ => Option.none }

/-- `supportReserveIPPolicy` -/
def supportReserveX (cr : CRs) (k : Key) (policy : Nat) : Bool :=
  if k.isDp || k.isSts then true
  else if (podIndex k.pod).isNone then false
  else if policy == 2 then true
  else cr.scalable k.typ

/-- `checkAppAndReplicas`: (known kind, appExist, replicas) -/
def checkApp (cr : CRs) (s : State) (k : Key) : Bool × Option Nat :=
  if k.isSts then (true, s.vApps.get (Kind.sts, k.ns, k.app))
  else if cr.scalable k.typ then (true, cr.replicas k.typ k.ns k.app)
  else (false, Option.none)

/-- `unbindNoneDpPod` with custom resources -/
def unbindOtherX (cr : CRs) (s : State) (k : Key) (policy : Nat) : State × Res :=
  if policy = 0 ∨ !supportReserveX cr k policy then
    let c := releaseIP s k; (c.1, okOr c.2 "store")
  else if policy = 2 then
    let c := reserve s k k {}; (c.1, okOr c.2 "store")
  else if policy = 1 then
    if !(checkApp cr s k).1 then (s, .err "other")
    else match (checkApp cr s k).2 with
      | Option.none => let c := releaseIP s k; (c.1, okOr c.2 "store")
      | some replicas =>
        match keyIndex k with
        | Option.none => (s, .err "bad-input")
        | some idx =>
          if replicas < idx + 1 then let c := releaseIP s k; (c.1, okOr c.2 "store")
          else let c := reserve s k k {}; (c.1, okOr c.2 "store")
  else (s, .ok)

/-- the inputs of the decision for key `k` with policy `policy` in state `s` -/
def dinOf (cr : CRs) (s : State) (k : Key) (policy : Nat) : DIn :=
  { isDp := k.isDp
    isSts := k.isSts
    pooled := k.pool != ""
    numeric := (podIndex k.pod).isSome
    scalable := cr.scalable k.typ
    policy := policy
    appExists := if k.isDp then (s.vApps.get (Kind.dp, k.ns, k.app)).isSome else ((checkApp cr s k).2).isSome
    replicas := if k.isDp then (s.vApps.get (Kind.dp, k.ns, k.app)).getD 0 else ((checkApp cr s k).2).getD 0
    index := keyIndex k
    nPrefix := countPrefix s k.poolPrefix
    keyIsPrefix := k == k.poolPrefix }

/-- carrying a decision out -/
def exec (s : State) (k : Key) : Action → State × Res
  | .release => ((releaseIP s k).1, okOr (releaseIP s k).2 "store")
  | .reserveOwn => ((reserve s k k {}).1, okOr (reserve s k k {}).2 "store")
  | .reservePrefix => ((reserve s k k.poolPrefix {}).1, okOr (reserve s k k.poolPrefix {}).2 "store")
  | .keep => (s, .ok)
  | .fail c => (s, .err c)

/-- the decision step of `unbind` / resync with custom resources -/
def decideX (cr : CRs) (s : State) (k : Key) (policy : Nat) : State × Res :=
  if k.isDp then unbindDp s k policy else unbindOtherX cr s k policy

/-! ## `getAvailableSubnet` over the regenerated expressions (C02) -/

/-- the records under the pool prefix -/
def prefixRecs (s : State) (k : Key) : Tbl IP Rec := s.alloc.filter (fun e => e.2.key.hasPrefix k.poolPrefix)

/-- `usedCount` of `getAvailableSubnet` -/
def usedCountG (s : State) (k : Key) (sized : Bool) : Nat :=
  ((prefixRecs s k).filter (fun e =>
    Generated.C03.countsAsUsed (e.2.key == k.poolPrefix) sized (k.pool == "") (e.2.key.hasPrefix k.poolAppPrefix))).length

/-- the records held in reserve for the app / pool -/
def reservedRecs (s : State) (k : Key) : Tbl IP Rec :=
  (prefixRecs s k).filter (fun e =>
    Generated.C03.countsAsUnused (e.2.key == k.poolPrefix) false (k.pool == "") (e.2.key.hasPrefix k.poolAppPrefix))

/-- `unusedSubnetSet` -/
def reservedSubnets (s : State) (k : Key) : List Subnet :=
  (reservedRecs s k).foldl (fun acc e => sunion acc (subnetsOf s.pools e.1)) []

/-- `getAvailableSubnet` -/
def getAvailableSubnetG (s : State) (k : Key) (policy replicas : Nat) (sized : Bool)
    (rss : List (List (Nat × Nat))) : Except String (List Subnet × Bool) :=
  if Generated.C03.reserveLookupApplies k.isDp policy then
    if !rss.isEmpty then .error "bad-input"
    else if Generated.C03.sizeLimitReached (usedCountG s k sized) replicas then .error "size-limit"
    else if !(reservedSubnets s k).isEmpty then .ok (reservedSubnets s k, true)
    else .ok (nodeSubnetsByRanges s rss, false)
  else .ok (nodeSubnetsByRanges s rss, false)

/-! ## vocabulary of the history-level theorems -/

/-- the key names a pod (what the resync checklist requires of a key) -/
def namesPod (k : Key) : Prop := k ≠ Key.empty ∧ k.pod ≠ "" ∧ k.app ≠ ""

instance (k : Key) : Decidable (namesPod k) := by unfold namesPod; exact inferInstance

/-- the pod the key names does not exist (any more) or has finished -/
def podGone (s : State) (k : Key) : Prop :=
  match s.pods.get (k.ns, k.pod) with
  | Option.none => True
  | some p => p.finished = true

instance (s : State) (k : Key) : Decidable (podGone s k) := by
  unfold podGone; cases s.pods.get (k.ns, k.pod) <;> exact inferInstance

/-- the informer views show API truth (pods and workloads) -/
def InSync (s : State) : Prop := s.vPods = s.pods ∧ s.vApps = s.apps

/-- the stored policy reserves the address: the documented action is not `release`, or the policy is `never`
    ("kept until an administrator releases it through the API") -/
def policyReserves (s : State) (r : Rec) : Prop :=
  docAction (dinOf CRs.none s r.key r.policy) ≠ .release ∨ r.policy = Generated.C03.releasePolicyNever

end Galaxy.Plugin.C03
