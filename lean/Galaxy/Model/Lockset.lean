/-
  M9 `Lockset` — interleaving semantics of mutexes / RW-mutexes, data races, lock discipline,
  and the checkers that are run (by `decide`) over the access table regenerated from /repo.
  Core Lean only.  Everything here is executable: the driver `gxdrv_lockset` runs `step`,
  `findRace`, `ok`, `tableOk` … — the same definitions the theorems of `Props/C19.lean` are about.

  Part 1 (generic, once and for all)
    threads are lists of actions `acq l | rel l | racq l | rrel l | rd x | wr x`;
    a step of thread `i` is enabled iff the lock discipline of the primitive allows it
      acq l   : nobody (not even `i`: Go mutexes are not reentrant) holds `l`, exclusively or shared
      racq l  : nobody holds `l` exclusively       (a pending writer only removes schedules)
      rel l   : `i` holds `l` exclusively          (unlock of a lock one does not hold: stuck; the
      rrel l  : `i` holds `l` shared                 lock-balance table rules it out for the code)
      rd/wr   : always
    data race: a reachable state in which two DIFFERENT threads have enabled next actions on the
    same location, at least one of them a write.
  Part 2 (per code base)
    the access table: one `Access` per syntactic read/write of a shared field, with the locks
    syntactically held at that point, the function it occurs in, and the phase (init / run);
    helper functions are given an assumed entry lock set which is checked at every call site.
-/
namespace Galaxy.Lockset

abbrev Lock := Nat
abbrev Loc := Nat

inductive Action where
  | acq (l : Lock)
  | rel (l : Lock)
  | racq (l : Lock)
  | rrel (l : Lock)
  | rd (x : Loc)
  | wr (x : Loc)
  deriving DecidableEq, Repr

/-- one thread: locks held exclusively, locks held shared (with multiplicity), remaining program -/
structure Thread where
  ex : List Lock
  sh : List Lock
  rest : List Action
  deriving DecidableEq, Repr

abbrev State := List Thread

def exFree (s : State) (l : Lock) : Bool := s.all fun t => !t.ex.contains l
def shFree (s : State) (l : Lock) : Bool := s.all fun t => !t.sh.contains l

/-- the next action of thread `t` fired in state `s`, `none` when finished or blocked -/
def fire (s : State) (t : Thread) : Option Thread :=
  match t.rest with
  | [] => none
  | .acq l :: r => if exFree s l && shFree s l then some ⟨l :: t.ex, t.sh, r⟩ else none
  | .rel l :: r => if t.ex.contains l then some ⟨t.ex.erase l, t.sh, r⟩ else none
  | .racq l :: r => if exFree s l then some ⟨t.ex, l :: t.sh, r⟩ else none
  | .rrel l :: r => if t.sh.contains l then some ⟨t.ex, t.sh.erase l, r⟩ else none
  | .rd _ :: r => some ⟨t.ex, t.sh, r⟩
  | .wr _ :: r => some ⟨t.ex, t.sh, r⟩

/-- thread `i` takes one step; `none` when there is no such thread, it has finished, or it is blocked -/
def step (s : State) (i : Nat) : Option State :=
  match s[i]? with
  | none => none
  | some t =>
    match fire s t with
    | none => none
    | some t' => some (s.set i t')

/-- run a schedule (list of thread indices); `none` when some step of the schedule is not enabled -/
def run : State → List Nat → Option State
  | s, [] => some s
  | s, i :: is =>
    match step s i with
    | none => none
    | some s' => run s' is

def init (ps : List (List Action)) : State := ps.map fun p => ⟨[], [], p⟩

/-- the memory access a thread is about to perform: location and is-write -/
def nextAccess (t : Thread) : Option (Loc × Bool) :=
  match t.rest with
  | .rd x :: _ => some (x, false)
  | .wr x :: _ => some (x, true)
  | _ => none

/-- two different threads are both about to access the same location, at least one writing -/
def Race (s : State) : Prop :=
  ∃ (i j : Nat) (ti tj : Thread) (x : Loc) (wi wj : Bool), i ≠ j ∧ s[i]? = some ti ∧ s[j]? = some tj ∧
    nextAccess ti = some (x, wi) ∧ nextAccess tj = some (x, wj) ∧ (wi || wj) = true

/-- executable race finder used by the driver: first racing pair `(i, j, x)` with `i < j` -/
def findRace (s : State) : Option (Nat × Nat × Loc) :=
  let idx := List.range s.length
  (idx.flatMap fun i => idx.filterMap fun j =>
    if i < j then
      match s[i]?, s[j]? with
      | some ti, some tj =>
        match nextAccess ti, nextAccess tj with
        | some (x, wi), some (y, wj) => if x = y && (wi || wj) then some (i, j, x) else none
        | _, _ => none
      | _, _ => none
    else none).head?

/-- what protects a location -/
inductive Guard where
  | lock (l : Lock)     -- every write under `l` exclusively, every read under `l` at least shared
  | frozen              -- never written while threads run (initialised before publication)
  | unknown             -- no protection known: any access violates the discipline
  deriving DecidableEq, Repr

/-- the discipline, checked along ONE thread's program in isolation (symbolic lock sets) -/
def ok (g : Loc → Guard) (ex sh : List Lock) : List Action → Bool
  | [] => true
  | .acq l :: r => ok g (l :: ex) sh r
  | .rel l :: r => ok g (ex.erase l) sh r
  | .racq l :: r => ok g ex (l :: sh) r
  | .rrel l :: r => ok g ex (sh.erase l) r
  | .rd x :: r =>
    (match g x with
      | .lock l => ex.contains l || sh.contains l
      | .frozen => true
      | .unknown => false) && ok g ex sh r
  | .wr x :: r =>
    (match g x with
      | .lock l => ex.contains l
      | .frozen => false
      | .unknown => false) && ok g ex sh r

def Disciplined (g : Loc → Guard) (ps : List (List Action)) : Prop := ∀ p ∈ ps, ok g [] [] p = true

/-! ### Part 2: the access table -/

inductive Mode where
  | excl
  | shared
  deriving DecidableEq, Repr

inductive Kind where
  | read
  | write
  deriving DecidableEq, Repr

inductive Phase where
  | init   -- runs before the object is published to other goroutines
  | run
  deriving DecidableEq, Repr

abbrev Held := List (Lock × Mode)

/-- one syntactic access of a shared field -/
structure Access where
  fn : Nat          -- index into the generated function-name table
  field : Loc       -- index into the generated field-name table
  kind : Kind
  held : Held       -- locks syntactically held at this point inside `fn`
  pos : String      -- file:line, for reports only
  deriving Repr

/-- one call of a function of the analysed packages by another -/
structure CallSite where
  callee : Nat
  caller : Nat
  held : Held       -- locks syntactically held at the call inside `caller`
  pos : String
  deriving Repr

/-- everything the translator extracts -/
structure Table where
  guards : List (Loc × Guard)
  entry : List (Nat × Held)        -- assumed lock set on entry of helper functions ("caller holds the lock")
  roots : List Nat                 -- functions callable from outside the analysed call graph (entry set must be empty)
  initFns : List Nat               -- functions that only run before publication (constructors, Init, …)
  initRoots : List Nat             -- the designated entry points of the init phase
  sites : List CallSite
  accesses : List Access
  allow : List (Loc × Nat)         -- (field, fn) pairs excluded as known findings
  deriving Repr

def guardOf (gs : List (Loc × Guard)) (x : Loc) : Guard := (gs.lookup x).getD .unknown

def entryOf (t : Table) (f : Nat) : Held := (t.entry.lookup f).getD []

/-- every lock of `a` is held in `b` at least as strongly (exclusive implies shared) -/
def heldSub (a b : Held) : Bool :=
  a.all fun p => b.contains p || (p.2 == .shared && b.contains (p.1, .excl))

/-- locks held at an access / call: the local ones plus the assumed entry set of the enclosing function -/
def total (t : Table) (f : Nat) (local_ : Held) : Held := local_ ++ entryOf t f

/-- "caller holds the lock": the assumed entry set of every function is held at each of its call sites,
    and functions reachable from outside assume nothing -/
def sitesOk (t : Table) : Bool :=
  t.sites.all (fun c => heldSub (entryOf t c.callee) (total t c.caller c.held)) &&
  t.roots.all (fun f => (entryOf t f).isEmpty)

/-- init-phase functions are called only from init-phase functions; only designated ones are entry points -/
def phaseOk (t : Table) : Bool :=
  t.sites.all (fun c => !t.initFns.contains c.callee || t.initFns.contains c.caller) &&
  t.initFns.all (fun f => !t.roots.contains f || t.initRoots.contains f)

def phaseOf (t : Table) (f : Nat) : Phase := if t.initFns.contains f then .init else .run

def accessOk (t : Table) (a : Access) : Bool :=
  let h := total t a.fn a.held
  match guardOf t.guards a.field, a.kind with
  | .lock l, .write => h.contains (l, .excl)
  | .lock l, .read => h.contains (l, .excl) || h.contains (l, .shared)
  | .frozen, .read => true
  | .frozen, .write => false
  | .unknown, _ => false

/-- the run-phase accesses that are not allow-listed as known findings -/
def checked (t : Table) : List Access :=
  t.accesses.filter fun a => phaseOf t a.fn == .run && !t.allow.contains (a.field, a.fn)

def accessesOk (t : Table) : Bool := (checked t).all (accessOk t)

/-- the accesses of lazily initialised fields (guarded by the pseudo lock of a sync.Once): the write must be inside the
    `Do` closure (pseudo lock exclusive), every read behind a call that went through that `Do` (pseudo lock shared) -/
def lazyAccesses (t : Table) (lazy : List Lock) : List Access :=
  (checked t).filter fun a =>
    match guardOf t.guards a.field with
    | .lock l => lazy.contains l
    | _ => false

def lazyOk (t : Table) (lazy : List Lock) : Bool := (lazyAccesses t lazy).all (accessOk t)

/-- signatures of the accesses that violate the discipline (used by the driver / reports) -/
def violations (t : Table) : List Access :=
  t.accesses.filter fun a => phaseOf t a.fn == .run && !accessOk t a

/-- a thread program conforms to the table when each of its accesses is an instance of some checked
    table entry: same field, same kind, and the thread holds at least the locks the table records -/
def conforms (t : Table) (ex sh : List Lock) : List Action → Bool
  | [] => true
  | .acq l :: r => conforms t (l :: ex) sh r
  | .rel l :: r => conforms t (ex.erase l) sh r
  | .racq l :: r => conforms t ex (l :: sh) r
  | .rrel l :: r => conforms t ex (sh.erase l) r
  | .rd x :: r =>
    (checked t).any (fun a => a.field == x && a.kind == .read &&
      (total t a.fn a.held).all fun p =>
        match p.2 with
        | .excl => ex.contains p.1
        | .shared => ex.contains p.1 || sh.contains p.1) && conforms t ex sh r
  | .wr x :: r =>
    (checked t).any (fun a => a.field == x && a.kind == .write &&
      (total t a.fn a.held).all fun p =>
        match p.2 with
        | .excl => ex.contains p.1
        | .shared => ex.contains p.1 || sh.contains p.1) && conforms t ex sh r

/-! ### re-entrant acquisition -/

def acqOf (m : List (Nat × List Lock)) (f : Nat) : List Lock := (m.lookup f).getD []

/-- `trans` is closed: it contains what each function locks itself and what its (synchronous, same-package) callees lock -/
def acqClosed (t : Table) (direct trans : List (Nat × List Lock)) : Bool :=
  direct.all (fun p => p.2.all fun l => (acqOf trans p.1).contains l) &&
  t.sites.all (fun c => (acqOf trans c.callee).all fun l => (acqOf trans c.caller).contains l)

/-- function `fn` acquires `lock` while holding `held` (locally; plus the entry set of `fn`) -/
structure AcqEvent where
  fn : Nat
  lock : Lock
  held : Held
  pos : String
  deriving Repr

/-- allocation site of the hashed mutex table a keyed lock belongs to (`none`: an ordinary mutex) -/
def poolOf (pools : List (Lock × Nat)) (l : Lock) : Option Nat := pools.lookup l

/-- may `a` and `b` be the SAME mutex?  the same lock — or two keyed locks of one hashed table
    (`keymutex.NewHashed(n)`: key ↦ mutexes[hash(key) % n], two keys may collide) -/
def sameMutex (pools : List (Lock × Nat)) (a b : Lock) : Bool :=
  a == b || (match poolOf pools a, poolOf pools b with
    | some x, some y => x == y
    | _, _ => false)

/-- no call is made while holding a lock (shared or exclusive, locally or by the caller-holds contract) to a function
    that acquires a possibly-identical mutex, and no function acquires one while holding it: sync.Mutex is not reentrant,
    and a second RLock deadlocks once a writer is queued -/
def noReentrant (t : Table) (trans : List (Nat × List Lock)) (events : List AcqEvent) (pools : List (Lock × Nat)) : Bool :=
  (t.sites.all fun c =>
    (total t c.caller c.held).all fun h => !(acqOf trans c.callee).any (sameMutex pools h.1)) &&
  (events.all fun e => (total t e.fn e.held).all fun h => !sameMutex pools h.1 e.lock)

/-- the re-entrant acquisitions (for the driver / reports): (held lock, caller, callee) -/
def reentrantSites (t : Table) (trans : List (Nat × List Lock)) (events : List AcqEvent) (pools : List (Lock × Nat)) :
    List (Lock × Nat × Nat) :=
  (t.sites.flatMap fun c =>
    ((total t c.caller c.held).filter fun h => (acqOf trans c.callee).any (sameMutex pools h.1)).map fun h => (h.1, c.caller, c.callee)) ++
  (events.flatMap fun e =>
    ((total t e.fn e.held).filter fun h => sameMutex pools h.1 e.lock).map fun h => (h.1, e.fn, e.fn))

/-- keyed-lock nestings: function, outer keyed lock (held), inner keyed lock (acquired directly or by a callee) -/
def keyedNestings (t : Table) (trans : List (Nat × List Lock)) (events : List AcqEvent) (pools : List (Lock × Nat)) :
    List (Nat × Lock × Lock) :=
  let keyed (l : Lock) : Bool := (poolOf pools l).isSome
  (events.flatMap fun e =>
    if keyed e.lock then ((total t e.fn e.held).filter fun h => keyed h.1).map fun h => (e.fn, h.1, e.lock) else []) ++
  (t.sites.flatMap fun c =>
    ((total t c.caller c.held).filter fun h => keyed h.1).flatMap fun h =>
      ((acqOf trans c.callee).filter keyed).map fun l => (c.caller, h.1, l))

/-- every nesting takes the inner lock from a DIFFERENT table than the outer one -/
def nestingsDistinctPools (pools : List (Lock × Nat)) (ns : List (Nat × Lock × Lock)) : Bool :=
  ns.all fun n => poolOf pools n.2.1 != poolOf pools n.2.2

/-- the order between tables induced by the nestings: (outer table, inner table) -/
def poolOrder (pools : List (Lock × Nat)) (ns : List (Nat × Lock × Lock)) : List (Nat × Nat) :=
  (ns.filterMap fun n =>
    match poolOf pools n.2.1, poolOf pools n.2.2 with
    | some a, some b => some (a, b)
    | _, _ => none).eraseDups

/-- one round of transitive closure -/
def composeEdges (es : List (Nat × Nat)) : List (Nat × Nat) :=
  (es ++ es.flatMap fun e => (es.filter fun f => f.1 == e.2).map fun f => (e.1, f.2)).eraseDups

def closeEdges : Nat → List (Nat × Nat) → List (Nat × Nat)
  | 0, es => es
  | n + 1, es => closeEdges n (composeEdges es)

/-- the order is acyclic: its transitive closure (|edges| rounds suffice) has no edge (a, a) -/
def acyclic (es : List (Nat × Nat)) : Bool := (closeEdges es.length es).all fun e => e.1 != e.2

/-! ### writer preference (sync.RWMutex): a pending `Lock` blocks new `RLock`s -/

def nextIsAcq (t : Thread) (l : Lock) : Bool :=
  match t.rest with
  | .acq l' :: _ => l' == l
  | _ => false

/-- some OTHER thread is waiting in `acq l` -/
def writerPending (s : State) (i : Nat) (l : Lock) : Bool :=
  (List.range s.length).any fun j => j != i && (match s[j]? with | some t => nextIsAcq t l | none => false)

/-- step of thread `i` under writer preference: as `step`, but `racq l` is also blocked while a writer is queued on `l` -/
def stepWP (s : State) (i : Nat) : Option State :=
  match s[i]? with
  | none => none
  | some t =>
    match t.rest with
    | .racq l :: _ => if writerPending s i l then none else step s i
    | _ => step s i

def finished (s : State) : Bool := s.all fun t => t.rest.isEmpty

/-- nobody can move although somebody is not done -/
def deadlockedWP (s : State) : Bool :=
  !finished s && (List.range s.length).all fun i => (stepWP s i).isNone

/-! ### objects obtained from a lister / informer cache -/

inductive CacheUseKind where
  | obtained   -- result of <Lister>.Get / .List, or an event-handler argument
  | passed     -- handed to a function of the same package (its parameter is tracked there)
  | written    -- assigned through: the shared cache object is mutated
  deriving DecidableEq, Repr

structure CacheUse where
  fn : Nat
  kind : CacheUseKind
  what : String
  pos : String
  deriving Repr

def cacheNeverWritten (l : List CacheUse) : Bool := l.all fun u => u.kind != .written

/-! ### lock balance -/

inductive Release where
  | deferred     -- `defer X.Unlock()` follows the Lock
  | matched      -- an explicit Unlock is reached on every path to every exit
  | leaked       -- some exit is reachable with the lock still held
  | unheld       -- an Unlock without a preceding Lock in the function
  deriving DecidableEq, Repr

structure Bal where
  fn : Nat
  lock : Lock
  mode : Mode
  how : Release
  pos : String
  deriving Repr

def balanced (bs : List Bal) : Bool := bs.all fun b => b.how == .deferred || b.how == .matched

end Galaxy.Lockset
