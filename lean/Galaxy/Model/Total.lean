/-
  M10 `Total`: one small total function per Go function of galaxy which is reachable from
  untrusted input and contains a loop, an index expression, a slice expression, a division or a
  dereference of a nil-able pointer.  Every place where the Go code could panic is an explicit
  `Except Panic` error of the model, every loop is structural recursion (or fuel, for the one
  loop which really can run forever), so "the model returns `.ok`" is "the Go function returns".

  The guards, constants and loop shapes are NOT written here: they come from
  `Galaxy.Generated.Total`, re-extracted from /repo by tools/factgen/cmd/total on every check.
  Functions take the guard flags as parameters (`…G` functions) and the `…` function without
  suffix instantiates them with the generated values; the theorems of Props/C18.lean are about
  the instantiated functions, the `_counter` theorems about the pre-fix flags.

  Text is `List Char`; a character stands for one BYTE of the Go string (the driver maps bytes
  0..255 to the characters U+0000..U+00FF).  All separators involved are ASCII.  Core Lean only.
-/
import Galaxy.Generated.Total

namespace Galaxy.Total

/-- The run-time panics of Go which the modelled functions could raise. -/
inductive Panic where
  | indexOutOfRange
  | sliceBounds
  | nilDeref
  | divByZero
deriving DecidableEq, Repr

abbrev Str := List Char

deriving instance DecidableEq for Except

/-! ### Go primitives with their panics -/

/-- `l[i]` for an `int` index. -/
def goIndex {α : Type} (l : List α) (i : Int) : Except Panic α :=
  if i < 0 then .error .indexOutOfRange
  else match l[i.toNat]? with
    | some a => .ok a
    | none => .error .indexOutOfRange

/-- Bounds check of `s[lo:hi]` on something of length / capacity `len`: `0 ≤ lo ≤ hi ≤ len`. -/
def goSliceBounds (lo hi : Int) (len : Nat) : Except Panic (Nat × Nat) :=
  if 0 ≤ lo ∧ lo ≤ hi ∧ hi ≤ (len : Int) then .ok (lo.toNat, hi.toNat) else .error .sliceBounds

/-- `s[lo:hi]` on a string. -/
def goSlice (s : Str) (lo hi : Int) : Except Panic Str := do
  let (l, h) ← goSliceBounds lo hi s.length
  pure ((s.drop l).take (h - l))

/-- `a / b` on `int` (truncated division). -/
def goDiv (a b : Int) : Except Panic Int :=
  if b = 0 then .error .divByZero else .ok (a.tdiv b)

/-- `strings.HasPrefix`. -/
def hasPrefix (s p : Str) : Bool := p.isPrefixOf s

/-- `strings.Index(s, sub)` scanning from position `i`: first position where `sub` starts, `-1` if none. -/
def indexFrom (sub : Str) : Str → Nat → Int
  | [], i => if sub.isEmpty then (i : Int) else -1
  | c :: cs, i => if sub.isPrefixOf (c :: cs) then (i : Int) else indexFrom sub cs (i + 1)

/-- `strings.Index`. -/
def goStrIndex (s sub : Str) : Int := indexFrom sub s 0

/-- The loop of `strings.SplitN` / `strings.Split` for a non-empty separator: `skip` characters of a separator
just matched are still to be dropped, `cur` is the current piece (reversed), `n` the number of pieces which may
still be produced including the current one. -/
def splitGo (sep : Str) : Str → Nat → Str → Nat → List Str
  | [], _, cur, _ => [cur.reverse]
  | _ :: cs, skip + 1, cur, n => splitGo sep cs skip cur n
  | c :: cs, 0, cur, n =>
    if n > 1 ∧ sep.isPrefixOf (c :: cs) then cur.reverse :: splitGo sep cs (sep.length - 1) [] (n - 1)
    else splitGo sep cs 0 (c :: cur) n

/-- `strings.SplitN(s, sep, n)` for `n ≥ 0` (`n = 0`: nil).  For the empty separator Go explodes the string into
UTF-8 sequences; the model explodes into single characters (bytes) — no modelled call site has an empty separator,
it only appears in a `_counter` theorem. -/
def goSplitN (s sep : Str) (n : Nat) : List Str :=
  if n = 0 then []
  else if sep.isEmpty then (s.take (n - 1)).map (fun c => [c]) ++ (if s.length ≥ n then [s.drop (n - 1)] else [])
  else splitGo sep s 0 [] n

/-- `strings.Split(s, sep)` = `SplitN(s, sep, -1)`: the number of pieces is not limited (at most `len+1`). -/
def goSplit (s sep : Str) : List Str :=
  if sep.isEmpty then s.map (fun c => [c]) else splitGo sep s 0 [] (s.length + 2)

def isDigit (c : Char) : Bool := '0' ≤ c ∧ c ≤ '9'

/-- `strconv.Atoi` on a 64-bit platform: optional sign, at least one ASCII digit, value within int64;
`none` = error. -/
def atoi (s : Str) : Option Int :=
  let (neg, ds) : Bool × Str := match s with
    | '+' :: r => (false, r)
    | '-' :: r => (true, r)
    | _ => (false, s)
  if ds.isEmpty || !ds.all isDigit then none
  else
    let v : Nat := ds.foldl (fun a c => a * 10 + (c.toNat - 48)) 0
    let iv : Int := if neg then -(v : Int) else (v : Int)
    if -9223372036854775808 ≤ iv ∧ iv ≤ 9223372036854775807 then some iv else none

/-! ### 1. `walkIPRanges` (pkg/ipam/floatingip/ipam_crd.go)

`for ; first <= last; first++ { if f(ip) { return } }` with a `w`-bit unsigned counter and a callback which never
stops the walk (the worst case).  `fuel` bounds the number of evaluations of the loop condition; `none` = the
bound was hit while the loop was still running.  `acc` counts the addresses visited. -/

def walkW (w : Nat) (last : Nat) : Nat → Nat → Nat → Option Nat
  | 0, _, _ => none
  | fuel + 1, first, acc =>
    if first ≤ last then walkW w last fuel ((first + 1) % 2 ^ w) (acc + 1) else some acc

/-- One range walked with the counter width of the current source. -/
def walk (first last fuel : Nat) : Option Nat := walkW Generated.Total.walkCounterBits last fuel first 0

/-- All ranges of a list, range after range (the outer loop of `walkIPRanges`); every range gets `fuel`. -/
def walkRangesW (w : Nat) (fuel : Nat) : List (Nat × Nat) → Option Nat
  | [] => some 0
  | (f, l) :: rs =>
    match walkW w l fuel f 0 with
    | none => none
    | some n => (walkRangesW w fuel rs).map (· + n)

/-! ### 2. Pagination of `ListIPs` (pkg/utils/page/page.go, pkg/ipam/api/api.go) -/

/-- A query parameter as `ParsePage` / `ParseSize` see it: absent (empty string), not accepted by `strconv.Atoi`
(syntax or out of the int64 range), or a number. -/
inductive Query where
  | absent
  | bad
  | num (v : Int)
deriving DecidableEq, Repr

def parsePage : Query → Int
  | .absent => Generated.Total.pageDefault
  | .bad => Generated.Total.pageRejectValue
  | .num v => if Generated.Total.pageReject v then Generated.Total.pageRejectValue else if Generated.Total.pageOver v then Generated.Total.pageCap else v

def parseSize : Query → Int
  | .absent => Generated.Total.sizeDefault
  | .bad => Generated.Total.sizeRejectValue
  | .num v => if Generated.Total.sizeReject v then Generated.Total.sizeRejectValue else if Generated.Total.sizeOver v then Generated.Total.sizeCap else v

structure PageOut where
  start : Int
  stop : Int
  size : Int
  totalPages : Int
  number : Int
  count : Int
deriving DecidableEq, Repr

/-- `page.Pagination(page, size, len)`: `paginationResult` then the `Page` literal of `pagin` (two divisions). -/
def pagination (page size len : Int) : Except Panic PageOut := do
  let start := Generated.Total.pgStart page size len
  let stop := Generated.Total.pgEnd start size len
  let tp ← goDiv (Generated.Total.pgTotalPagesNum start stop size len) (Generated.Total.pgTotalPagesDen start stop size len)
  let nb ← goDiv (Generated.Total.pgNumberNum start stop size len) (Generated.Total.pgNumberDen start stop size len)
  pure { start := start, stop := stop, size := Generated.Total.pgSize start stop size len, totalPages := tp, number := nb,
         count := Generated.Total.pgCount start stop size len }

/-- The pagination part of `Controller.ListIPs`: `PagingParams`, `Pagination(page, size, len(fips))`,
`fips[start:end]`. -/
def listIPsPage (pq sq : Query) (len : Nat) : Except Panic PageOut := do
  let o ← pagination (parsePage pq) (parseSize sq) len
  let _ ← goSliceBounds o.start o.stop len
  pure o

/-! ### 3. `constant.PolicyStr` -/

/-- `[...]string{…}[policy]`. -/
def policyStrT (table : List String) (policy : Nat) : Except Panic String :=
  match table[policy]? with
  | some s => .ok s
  | none => .error .indexOutOfRange

def policyStr (policy : Nat) : Except Panic String := policyStrT Generated.Total.policyStrTable policy

/-- `constant.ConvertReleasePolicy`. -/
def convertReleasePolicy (s : String) : Nat :=
  match Generated.Total.convertPolicyCases.find? (fun p => p.1 == s) with
  | some p => p.2
  | none => Generated.Total.convertPolicyDefault

/-- `parseReleasePolicy`: a constant or `ConvertReleasePolicy(annotation)`; `const = some k` picks the k-th directly
returned constant (no annotations / pool annotation present). -/
def parseReleasePolicy (const : Option Nat) (annotation : String) : Nat :=
  match const with
  | some k => Generated.Total.parsePolicyConstReturns.getD k (convertReleasePolicy annotation)
  | none => convertReleasePolicy annotation

/-! ### 4. `parsePodIndex` (pkg/ipam/schedulerplugin/resync.go) -/

/-- `parts := strings.Split(name, sep); return strconv.Atoi(parts[len(parts)-k])`; `.ok none` = Atoi error. -/
def parsePodIndexG (sep : Str) (fromEnd : Nat) (name : Str) : Except Panic (Option Int) := do
  let parts := goSplit name sep
  let p ← goIndex parts ((parts.length : Int) - (fromEnd : Int))
  pure (atoi p)

def parsePodIndex (name : Str) : Except Panic (Option Int) :=
  parsePodIndexG Generated.Total.podIndexSep.toList Generated.Total.podIndexFromEnd name

/-! ### 5. `util.ParseKey` / `resolvePodKey` (pkg/ipam/schedulerplugin/util/utils.go) -/

structure KeyObj where
  poolName : Str := []
  appTypePrefix : Str := []
  appName : Str := []
  podName : Str := []
  ns : Str := []
deriving DecidableEq, Repr

/-- `resolvePodKey`: `parts := strings.Split(key, sep); if len(parts) == K { return parts[a]+suffix, parts[b],
parts[c], parts[d] }; return "", "", "", ""`.  `guard = none`: the indexed return is not guarded. -/
def resolvePodKeyG (sep suffix : Str) (guard : Option Nat) (idx : List Nat) (key : Str) :
    Except Panic (Str × Str × Str × Str) := do
  let parts := goSplit key sep
  let enter : Bool := match guard with
    | some k => parts.length == k
    | none => true
  if enter then
    let a ← goIndex parts (idx.getD 0 0 : Nat)
    let b ← goIndex parts (idx.getD 1 0 : Nat)
    let c ← goIndex parts (idx.getD 2 0 : Nat)
    let d ← goIndex parts (idx.getD 3 0 : Nat)
    pure (a ++ suffix, b, c, d)
  else pure ([], [], [], [])

def resolvePodKey (key : Str) : Except Panic (Str × Str × Str × Str) :=
  resolvePodKeyG Generated.Total.resolveSep.toList Generated.Total.resolvePrefixSuffix.toList Generated.Total.resolveGuardLen Generated.Total.resolveIdx key

/-- `ParseKey` with its guards as parameters.  `prefixGuard = false`: `key[len(poolPrefix):]` is evaluated for
every key; `partsGuard = none`: `parts[0]`, `parts[1]` are used without the length check. -/
def parseKeyG (prefixGuard : Bool) (partsGuard : Option Nat) (pidx : List Nat) (key : Str) : Except Panic KeyObj := do
  let pool := Generated.Total.poolPrefix.toList
  if !prefixGuard || hasPrefix key pool then
    let rest ← goSlice key pool.length key.length
    let parts := goSplitN rest Generated.Total.parseKeySep.toList Generated.Total.parseKeySplitN
    let leave : Bool := match partsGuard with
      | some k => parts.length != k
      | none => false
    if leave then pure {}
    else
      let poolName ← goIndex parts (pidx.getD 0 0 : Nat)
      let removed ← goIndex parts (pidx.getD 1 0 : Nat)
      let (t, a, p, n) ← resolvePodKey removed
      pure { poolName := poolName, appTypePrefix := t, appName := a, podName := p, ns := n }
  else
    let (t, a, p, n) ← resolvePodKey key
    pure { appTypePrefix := t, appName := a, podName := p, ns := n }

def parseKey (key : Str) : Except Panic KeyObj :=
  parseKeyG Generated.Total.parseKeyPrefixGuard Generated.Total.parseKeyPartsGuard Generated.Total.parseKeyPartsIdx key

/-! ### 6. `IPNet.UnmarshalJSON` / `IPRange.UnmarshalJSON` (pkg/utils/nets/ip.go) -/

/-- `if len(data) < minLen { return error }; … data[lo : len(data)-k] …` as a function of `len(data)`;
`.ok none` = the error return, `.ok (some (lo, hi))` = the slice handed to the parser. -/
def unmarshalSliceG (minLen lo k : Nat) (len : Nat) : Except Panic (Option (Nat × Nat)) :=
  if len < minLen then .ok none
  else (goSliceBounds lo ((len : Int) - (k : Int)) len).map some

def ipnetSlice (len : Nat) : Except Panic (Option (Nat × Nat)) :=
  unmarshalSliceG Generated.Total.ipnetMinLen Generated.Total.ipnetSliceLo Generated.Total.ipnetSliceHiFromEnd len

def iprangeSlice (len : Nat) : Except Panic (Option (Nat × Nat)) :=
  unmarshalSliceG Generated.Total.iprangeMinLen Generated.Total.iprangeSliceLo Generated.Total.iprangeSliceHiFromEnd len

/-! ### 7. `GetChainLines` (pkg/utils/iptables/save_restore.go): what happens to one line returned by `ReadLine` -/

inductive LineKind where
  | skip
  | stop
  | chain (name : Str)
deriving DecidableEq, Repr

/-- The body of the second loop of `GetChainLines` for one (trimmed) line.  `checksIndex`: the result of
`strings.Index` is compared with -1 before it is used as a slice bound (the source says it is not). -/
def chainLineG (checksIndex : Bool) (line : Str) : Except Panic LineKind :=
  if Generated.Total.chainSkipsEmpty && line.isEmpty then .ok .skip
  else if Generated.Total.chainStopPrefixes.any (fun p => hasPrefix line p.toList) then .ok .stop
  else if Generated.Total.chainSkipPrefixes.any (fun p => hasPrefix line p.toList) then .ok .skip
  else if hasPrefix line Generated.Total.chainPrefix.toList && decide (line.length > Generated.Total.chainMinLenGt) then
    let hi := goStrIndex line Generated.Total.chainIndexSep.toList
    if checksIndex && decide (hi < 0) then .ok .skip
    else (goSlice line Generated.Total.chainSliceLo hi).map .chain
  else .ok .skip

def chainLine (line : Str) : Except Panic LineKind := chainLineG Generated.Total.chainChecksIndex line

/-! ### 8. `cniutil.CmdDel` (pkg/api/cniutil/cni.go) -/

/-- `for idx := k-1; idx >= 0; idx-- { networkInfos[idx] … }` over a list of length `n`: the indexes visited. -/
def cmdDelFrom (n : Nat) : Nat → Except Panic (List Nat)
  | 0 => .ok []
  | k + 1 => if k < n then (cmdDelFrom n k).map (k :: ·) else .error .indexOutOfRange

/-- `CmdDel(_, lastIdx)` when the state file holds `n` network infos. -/
def cmdDelG (defaultsToLast : Bool) (lastIdx : Int) (n : Nat) : Except Panic (List Nat) :=
  let li : Int := if defaultsToLast && lastIdx == -1 then (n : Int) - 1 else lastIdx
  if li < 0 then .ok [] else cmdDelFrom n (li.toNat + 1)

def cmdDel (lastIdx : Int) (n : Nat) : Except Panic (List Nat) := cmdDelG Generated.Total.cmdDelDefaultsToLast lastIdx n

/-! ### 9. `ParsePodNetworkAnnotation` + `resolveNetworks` (JSON form of the networks annotation) -/

/-- The decoder: a JSON list whose elements are objects (`some name`) or `null` (`none`); `none` result = error. -/
def parseNetworksG (rejectsNil : Bool) (elems : List (Option Str)) : Option (List (Option Str)) :=
  if rejectsNil && elems.any Option.isNone then none else some elems

/-- The loop of `resolveNetworks`: `for idx, network := range networks { … network.Name … }` (the names used). -/
def derefNetworks (checksNil : Bool) : List (Option Str) → Except Panic (List Str)
  | [] => .ok []
  | some n :: rest => (derefNetworks checksNil rest).map (n :: ·)
  | none :: rest => if checksNil then derefNetworks checksNil rest else .error .nilDeref

/-- `resolveNetworks` for a JSON networks annotation; `.ok none` = error returned. -/
def resolveNetworksG (rejectsNil checksNil : Bool) (elems : List (Option Str)) : Except Panic (Option (List Str)) :=
  match parseNetworksG rejectsNil elems with
  | none => .ok none
  | some nets => (derefNetworks checksNil nets).map some

def resolveNetworks (elems : List (Option Str)) : Except Panic (Option (List Str)) :=
  resolveNetworksG Generated.Total.parseNetworksRejectsNil Generated.Total.resolveChecksNil elems

/-! ### 10. floatingip configuration: `FloatingIPPool.UnmarshalJSON`, `ensureIPAMConf`, `Init`, `ConfigurePool` -/

/-- What `json.Unmarshal` leaves in a `FloatingIPPoolConf`: which pointers are non-nil. -/
structure PoolConf where
  routable : Bool
  nodeSubnets : List Bool
  subnet : Bool
  gateway : Bool
deriving DecidableEq, Repr

structure ConfGuards where
  rejectsNoSubnets : Bool
  checksRoutable : Bool
  rejectsNilNodeSubnet : Bool
  checksSubnet : Bool
deriving DecidableEq, Repr

def nodeSubnetsLoop (rejectsNil : Bool) : List Bool → Except Panic Bool
  | [] => .ok true
  | present :: rest =>
    if present then nodeSubnetsLoop rejectsNil rest
    else if rejectsNil then .ok false else .error .nilDeref

/-- `FloatingIPPool.UnmarshalJSON` after the inner decode: `.ok false` = error returned, `.ok true` = pool built
(the range parsing and `fipCheck` which follow can only turn `true` into `false`). -/
def poolUnmarshalG (g : ConfGuards) (c : PoolConf) : Except Panic Bool := do
  if g.rejectsNoSubnets && !c.routable && c.nodeSubnets.isEmpty then return false
  let okSubnets ←
    if g.checksRoutable then
      (if c.routable then pure true else nodeSubnetsLoop g.rejectsNilNodeSubnet c.nodeSubnets)
    else (if c.routable then pure true else throw Panic.nilDeref)
  if !okSubnets then return false
  if !c.gateway then return false
  if g.checksSubnet then (if c.subnet then pure true else pure false)
  else (if c.subnet then pure true else throw Panic.nilDeref)

/-- `json.Unmarshal(text, &[]*FloatingIPPool)`: `null` elements stay nil pointers (`none`), every object goes
through `UnmarshalJSON`; `.ok none` = decode error, `.ok (some l)` = the decoded list (nil-ness per element). -/
def decodePools (g : ConfGuards) : List (Option PoolConf) → Except Panic (Option (List Bool))
  | [] => .ok (some [])
  | none :: rest => do
    let r ← decodePools g rest
    pure (r.map (false :: ·))
  | some c :: rest => do
    let ok ← poolUnmarshalG g c
    if !ok then return none
    let r ← decodePools g rest
    pure (r.map (true :: ·))

/-- `crdIpam.ConfigurePool(list)`: dereferences every element (`fipConf.NodeSubnets`, `Less`). -/
def configurePoolG (rejectsNil : Bool) (pools : List Bool) : Except Panic Bool :=
  if pools.all id then .ok true else if rejectsNil then .ok false else .error .nilDeref

/-- A configuration text reaching `ConfigurePool` through a caller which does (`callerRejectsNil`) or does not
check for nil pools: `ensureIPAMConf` (ConfigMap poller) or `Init` (static configuration file). -/
def applyConfG (g : ConfGuards) (callerRejectsNil cpRejectsNil : Bool) (text : List (Option PoolConf)) :
    Except Panic Bool := do
  match ← decodePools g text with
  | none => pure false
  | some pools =>
    if callerRejectsNil && !pools.all id then pure false else configurePoolG cpRejectsNil pools

def confGuards : ConfGuards :=
  { rejectsNoSubnets := Generated.Total.poolRejectsNoSubnets, checksRoutable := Generated.Total.poolChecksRoutable,
    rejectsNilNodeSubnet := Generated.Total.poolRejectsNilNodeSubnet, checksSubnet := Generated.Total.poolChecksSubnet }

/-- `ensureIPAMConf(text)` (ConfigMap). -/
def ensureConf (text : List (Option PoolConf)) : Except Panic Bool :=
  applyConfG confGuards Generated.Total.ensureRejectsNilPool Generated.Total.configurePoolRejectsNilPool text

/-- `Init()` with the statically configured pools. -/
def initConf (text : List (Option PoolConf)) : Except Panic Bool :=
  applyConfG confGuards Generated.Total.initRejectsNilPool Generated.Total.configurePoolRejectsNilPool text

/-! ### 11. `SyncPodIPInIPSet` / `syncIngressInIPSet` / `syncEgressInIPSet` (pkg/policy/policy.go) -/

/-- `ingressRule` / `egressRule`: the shared pod-selector table (`dstIPTable` / `srcIPTable`, non-nil?) and per
compiled rule whether its `ipTable` is non-nil. -/
structure DirRule where
  table : Bool
  ipTables : List Bool
deriving DecidableEq, Repr

/-- A compiled policy as `SyncPodIPInIPSet` sees it.  `specIngress` / `specEgress`: per rule of the spec, the
number of peers which select the pod (each makes one `addOrDelIPSetEntry` call on `rules[i].ipTable`).
`selectsPod`: namespace equal and pod selector matches. -/
structure Policy where
  ingressRule : Option DirRule
  egressRule : Option DirRule
  specIngress : List Nat
  specEgress : List Nat
  selectsPod : Bool
deriving DecidableEq, Repr

structure DirGuards where
  nilGuard : Bool
  indexGuard : Bool
  tableGuard : Bool
deriving DecidableEq, Repr

/-- The ipset a call touches: the policy's pod-selector set, or the set of rule `i` of a direction. -/
inductive SetRef where
  | pods
  | src (i : Nat)
  | dst (i : Nat)
deriving DecidableEq, Repr

/-- `for i, r := range spec { if i >= len(rules) || rules[i].ipTable == nil { continue }; … &rules[i].ipTable.IPSet … }`
from spec rule `i` on; `rule = none` is the nil `*ingressRule`. -/
def syncDirLoop (g : DirGuards) (mk : Nat → SetRef) (rule : Option DirRule) : List Nat → Nat → Except Panic (List SetRef)
  | [], _ => .ok []
  | hits :: rest, i => do
    let here : List SetRef ←
      match rule with
      | none => if hits = 0 && !g.indexGuard && !g.tableGuard then pure [] else throw Panic.nilDeref
      | some r =>
        -- the guard expression itself: `i >= len(rules)` (if present), then `rules[i].ipTable == nil` (if present)
        if g.indexGuard && decide (i ≥ r.ipTables.length) then pure []
        else if g.tableGuard then
          (match r.ipTables[i]? with
            | none => throw Panic.indexOutOfRange
            | some false => pure []
            | some true => pure (List.replicate hits (mk i)))
        else if hits = 0 then pure []
        else
          (match r.ipTables[i]? with
            | none => throw Panic.indexOutOfRange
            | some false => throw Panic.nilDeref
            | some true => pure (List.replicate hits (mk i)))
    let more ← syncDirLoop g mk rule rest (i + 1)
    pure (here ++ more)

/-- `syncIngressInIPSet` / `syncEgressInIPSet`. -/
def syncDir (g : DirGuards) (mk : Nat → SetRef) (rule : Option DirRule) (spec : List Nat) : Except Panic (List SetRef) :=
  if g.nilGuard && rule.isNone then .ok [] else syncDirLoop g mk rule spec 0

structure SyncGuards where
  podIngressNil : Bool
  podEgressNil : Bool
  ingress : DirGuards
  egress : DirGuards
deriving DecidableEq, Repr

/-- The first block of the loop body of `SyncPodIPInIPSet` for a policy which selects the pod:
`if ingressRule != nil { &ingressRule.dstIPTable.IPSet } else [if egressRule != nil] { &egressRule.srcIPTable.IPSet }`. -/
def syncPodSet (g : SyncGuards) (p : Policy) : Except Panic (List SetRef) :=
  if !p.selectsPod then .ok []
  else
    let useTable (r : DirRule) : Except Panic (List SetRef) := if r.table then .ok [.pods] else .error .nilDeref
    match p.ingressRule with
    | some r => useTable r
    | none =>
      if !g.podIngressNil then .error .nilDeref
      else match p.egressRule with
        | some r => useTable r
        | none => if g.podEgressNil then .ok [] else .error .nilDeref

/-- One iteration of the loop of `SyncPodIPInIPSet`: the ipset calls made for one policy, in order. -/
def syncPolicyG (g : SyncGuards) (p : Policy) : Except Panic (List SetRef) := do
  let a ← syncPodSet g p
  let b ← syncDir g.ingress .src p.ingressRule p.specIngress
  let c ← syncDir g.egress .dst p.egressRule p.specEgress
  pure (a ++ b ++ c)

def syncGuards : SyncGuards :=
  { podIngressNil := Generated.Total.syncPodIngressNilGuard, podEgressNil := Generated.Total.syncPodEgressNilGuard,
    ingress := { nilGuard := Generated.Total.syncIngressNilGuard, indexGuard := Generated.Total.syncIngressIndexGuard,
                 tableGuard := Generated.Total.syncIngressTableGuard },
    egress := { nilGuard := Generated.Total.syncEgressNilGuard, indexGuard := Generated.Total.syncEgressIndexGuard,
                tableGuard := Generated.Total.syncEgressTableGuard } }

/-- The guards before the fix of D9 (no nil check in the helpers, plain `else` in the first block). -/
def syncGuardsPreFix : SyncGuards :=
  { podIngressNil := true, podEgressNil := false,
    ingress := { nilGuard := false, indexGuard := false, tableGuard := false },
    egress := { nilGuard := false, indexGuard := false, tableGuard := false } }

def syncPolicy (p : Policy) : Except Panic (List SetRef) := syncPolicyG syncGuards p

/-- `SyncPodIPInIPSet`: all policies, one after the other. -/
def syncPodIPInIPSet : List Policy → Except Panic (List SetRef)
  | [] => .ok []
  | p :: ps => do
    let a ← syncPolicy p
    let b ← syncPodIPInIPSet ps
    pure (a ++ b)

/-- `policyResult`: how a policy is compiled from a spec — which directions (from `ingressOrEgress`), one rule per
spec rule (`ipTable` nil-ness arbitrary), the shared table always set. -/
def compilePolicy (ingress egress : Bool) (inTables egTables : List Bool) (specIngress specEgress : List Nat)
    (selectsPod : Bool) : Policy :=
  { ingressRule := if ingress then some { table := Generated.Total.policyResultSetsTables, ipTables := inTables } else none,
    egressRule := if egress then some { table := Generated.Total.policyResultSetsTables, ipTables := egTables } else none,
    specIngress := specIngress, specEgress := specEgress, selectsPod := selectsPod }

/-- Well-formedness established by the only constructor `policyResult`: a compiled direction has its shared table. -/
def Policy.WF (p : Policy) : Prop :=
  (∀ r, p.ingressRule = some r → r.table = true) ∧ (∀ r, p.egressRule = some r → r.table = true)

/-! ### 1b. `walkConfiguredIPRanges` (pkg/ipam/floatingip/ipam_crd.go, D22)

Ranges are pairs `(first, last)` of addresses as naturals, both ends included. -/

/-- number of addresses of a range (0 when `last < first`) -/
def rangeSize (r : Nat × Nat) : Nat := r.2 + 1 - r.1

/-- the addresses of a range in ascending order (what `walkIPRanges` visits for it) -/
def rangeIPs (r : Nat × Nat) : List Nat := List.range' r.1 (rangeSize r)

/-- `lo, hi := ipr; if lo < first { lo = first }; if hi > last { hi = last }; if lo <= hi { keep }` -/
def clip (first last : Nat) (r : Nat × Nat) : Option (Nat × Nat) :=
  let lo := if r.1 < first then first else r.1
  let hi := if r.2 > last then last else r.2
  if lo ≤ hi then some (lo, hi) else none

/-- the parts of the configured ranges inside one requested range, sorted by first address (`sort.Slice`) -/
def insertPart (p : Nat × Nat) : List (Nat × Nat) → List (Nat × Nat)
  | [] => [p]
  | q :: t => if p.1 ≤ q.1 then p :: q :: t else q :: insertPart p t

/-- `sort.Slice(parts, first ascending)` as an insertion sort (structural, so that it evaluates in proofs too) -/
def sortParts (l : List (Nat × Nat)) : List (Nat × Nat) := l.foldr insertPart []

def clippedParts (conf : List (Nat × Nat)) (first last : Nat) : List (Nat × Nat) :=
  sortParts (conf.filterMap (clip first last))

/-- the addresses `walkConfiguredIPRanges` hands to its callback for ONE requested range (callback never stops) -/
def walkConfigured (conf : List (Nat × Nat)) (first last : Nat) : List Nat :=
  (clippedParts conf first last).flatMap rangeIPs

/-- what a request-driven site walks for one requested range: the clipped walk when the regenerated fact says every
site uses `walkConfiguredIPRanges`, else the raw requested range (the pre-fix shape, D22) -/
def walkRequestG (clipped : Bool) (conf : List (Nat × Nat)) (first last : Nat) : List Nat :=
  if clipped then walkConfigured conf first last else rangeIPs (first, last)

def walkRequest (conf : List (Nat × Nat)) (first last : Nat) : List Nat :=
  walkRequestG Generated.Total.requestWalksAreClipped conf first last

/-- total number of configured addresses -/
def confSize (conf : List (Nat × Nat)) : Nat := (conf.map rangeSize).sum

/-- the configured ranges do not overlap (fipCheck inside a pool; pools are disjoint by configuration) -/
def Disjoint (conf : List (Nat × Nat)) : Prop :=
  conf.Pairwise fun a b => a.2 < b.1 ∨ b.2 < a.1

end Galaxy.Total
