/-
  M6 `Netfilter` — one netfilter table under `iptables-restore --noflush` and the single-rule
  `iptables` commands galaxy issues, ipsets, the host-port mapping generators of
  pkg/network/portmapping/iptables.go, and the kernel bind table behind OpenHostports.

  Core Lean only.  Everything that is a literal in /repo (chain names, rule templates, hash input,
  generator shape) comes from `Galaxy.Generated.Netfilter` (regenerated on every check run).

  Semantics of the table operations = iptables 1.8.9 (nf_tables), validated against the real
  tools inside `unshare -n` by harness/cmd/c14 (thorough tier):
    * `:CHAIN` line: creates a user chain or flushes it; no-op on a builtin chain (--noflush)
    * `-A` and `-I`: chain must exist; the jump target, if it is not an extension/standard target,
      must be an existing chain; `--match-set` sets must exist; NO de-duplication
    * `-X`: chain must exist, be a user chain, be empty at that point and unreferenced
      (`-X` of a builtin chain is refused as iptables-legacy does; iptables-nft accepts it for an empty
      base chain in some batches — galaxy never issues it and the kernel comparison leaves it out)
    * the batch is all-or-nothing.
-/
import Galaxy.Model.Tbl
import Galaxy.Generated.Netfilter

namespace Galaxy.Netfilter

open Galaxy.Generated.Netfilter (Piece Tok HashField)

/-! ## Rules, tables, commands -/

/-- a rule = its argv after normalisation (`normRule`) -/
abbrev Rule := List String

/-- chain ↦ ordered rules; looked up with `Tbl.get`, never compared as a list -/
abbrev Table := Tbl String (List Rule)

inductive Cmd where
  | decl (c : String)             -- `:c - [0:0]`
  | app (c : String) (r : Rule)   -- `-A c r`
  | ins (c : String) (r : Rule)   -- `-I c r`
  | del (c : String)              -- `-X c`
  deriving DecidableEq, Repr

abbrev Batch := List Cmd

inductive Err where
  | noChain | noTarget | noSet | busy | builtin | syntax
  | fault   -- an injected failure of an iptables call (no effect)
  deriving DecidableEq, Repr

def Err.toString : Err → String
  | .noChain => "no-chain" | .noTarget => "no-target" | .noSet => "no-set"
  | .busy => "busy" | .builtin => "builtin" | .syntax => "syntax" | .fault => "injected"

/-! ## Reading a rule: option arities, jump target, referenced sets -/

/-- options taking one argument (the forms galaxy and kube-proxy emit, plus their long spellings) -/
def arity1 : List String :=
  ["-m", "-p", "-s", "-d", "-j", "-g", "-i", "-o", "--match", "--protocol", "--source", "--destination",
   "--jump", "--goto", "--in-interface", "--out-interface",
   "--comment", "--dport", "--sport", "--dports", "--sports", "--destination-port", "--source-port",
   "--to-destination", "--to-source", "--to-ports", "--set-xmark", "--set-mark", "--mark",
   "--dst-type", "--src-type", "--ctstate", "--state", "--reject-with", "--limit", "--limit-burst",
   "--log-prefix", "--log-level", "--probability", "--mode", "--every", "--packet", "--icmp-type",
   "--mac-source", "--uid-owner", "--gid-owner"]

def optArity (t : String) : Nat :=
  if t = "--match-set" then 2 else if t = "--tcp-flags" then 2 else if t ∈ arity1 then 1 else 0

def isJumpOpt (t : String) : Bool := t = "-j" || t = "-g" || t = "--jump" || t = "--goto"

/-- the word following `-j` or `-g` in option position; the counter skips option arguments -/
def jumpTargetAux : Nat → Rule → Option String
  | _, [] => none
  | n + 1, _ :: rest => jumpTargetAux n rest
  | 0, t :: rest => if isJumpOpt t then rest.head? else jumpTargetAux (optArity t) rest

def jumpTarget (r : Rule) : Option String := jumpTargetAux 0 r

/-- set names after `--match-set` -/
def matchSetsAux : Nat → Rule → List String
  | _, [] => []
  | n + 1, _ :: rest => matchSetsAux n rest
  | 0, t :: rest =>
    if t = "--match-set" then
      match rest with
      | s :: _ => s :: matchSetsAux 2 rest
      | [] => []
    else matchSetsAux (optArity t) rest

def matchSets (r : Rule) : List String := matchSetsAux 0 r

/-- targets that are not chains: the four verdicts and the target extensions -/
def builtinTargets : List String :=
  ["ACCEPT", "DROP", "RETURN", "QUEUE", "DNAT", "SNAT", "MASQUERADE", "MARK", "REJECT", "LOG", "REDIRECT",
   "NOTRACK", "CT", "TPROXY", "TCPMSS", "NFLOG", "NFQUEUE", "CONNMARK", "SET", "CLASSIFY", "DSCP", "TOS",
   "TTL", "NETMAP", "AUDIT", "CHECKSUM", "TRACE"]

/-- the user chain a rule jumps to, if any -/
def chainRef (r : Rule) : Option String :=
  match jumpTarget r with
  | some t => if t ∈ builtinTargets then none else some t
  | none => none

def isBuiltin (c : String) : Bool := c ∈ Generated.Netfilter.builtinChains

/-- some rule of some chain of `T` jumps to `c` (only bindings visible through `get` count) -/
def referenced (T : Table) (c : String) : Bool :=
  T.keys.any (fun k => ((Tbl.get T k).getD []).any (fun r => chainRef r = some c))

/-- some rule of `T` matches on set `s` -/
def setReferenced (T : Table) (s : String) : Bool :=
  T.keys.any (fun k => ((Tbl.get T k).getD []).any (fun r => s ∈ matchSets r))

/-! ## Normalisation of an argv into a `Rule`
  quotes stripped, `--opt=value` split (in option position only), bare address after `-s`/`-d` gets `/32`
  (this is what `iptables-save` prints and what `iptables -C` compares). -/

def startsQuote (s : String) : Bool := s.toList.head? == some '"'

def unquote (s : String) : String :=
  let rest := s.toList.drop 1
  if rest.getLast? = some '"' then String.ofList rest.dropLast else s

def stripQuotes (s : String) : String := if startsQuote s then unquote s else s

/-- `--opt=value` ↦ `(--opt, value)` -/
def splitEq (s : String) : Option (String × String) :=
  let cs := s.toList
  if cs.take 2 = ['-', '-'] ∧ '=' ∈ cs then
    some (String.ofList (cs.takeWhile (· ≠ '=')), String.ofList ((cs.dropWhile (· ≠ '=')).drop 1))
  else none

def isAddrOpt (o : String) : Bool := o = "-s" || o = "-d" || o = "--source" || o = "--destination"

def fixVal (opt v : String) : String :=
  if isAddrOpt opt then (if '/' ∈ v.toList then v else v ++ "/32") else v

def normAux : Nat → String → List String → List String
  | _, _, [] => []
  | n + 1, opt, v :: rest => fixVal opt (stripQuotes v) :: normAux n opt rest
  | 0, _, t :: rest =>
    match splitEq (stripQuotes t) with
    | some (o, v) => o :: fixVal o v :: normAux (optArity o - 1) o rest
    | none => stripQuotes t :: normAux (optArity (stripQuotes t)) (stripQuotes t) rest

def normRule (args : List String) : Rule := normAux 0 "" args

/-! ## `iptables-restore --noflush` -/

/-- every chain / set the rule needs exists -/
def checkRefs (setOk : String → Bool) (T : Table) (r : Rule) : Option Err :=
  match chainRef r with
  | some t => if Tbl.has T t then (if (matchSets r).all setOk then none else some .noSet) else some .noTarget
  | none => if (matchSets r).all setOk then none else some .noSet

def applyCmd (setOk : String → Bool) (T : Table) : Cmd → Except Err Table
  | .decl c =>
    if isBuiltin c then (if Tbl.has T c then .ok T else .error .noChain) else .ok (Tbl.set T c [])
  | .app c r =>
    match checkRefs setOk T r with
    | some e => .error e
    | none =>
      match Tbl.get T c with
      | none => .error .noChain
      | some rules => .ok (Tbl.set T c (rules ++ [r]))
  | .ins c r =>
    match checkRefs setOk T r with
    | some e => .error e
    | none =>
      match Tbl.get T c with
      | none => .error .noChain
      | some rules => .ok (Tbl.set T c (r :: rules))
  | .del c =>
    match Tbl.get T c with
    | none => .error .noChain
    | some rules =>
      if isBuiltin c then .error .builtin
      else if rules ≠ [] then .error .busy
      else if referenced T c then .error .busy
      else .ok (Tbl.erase T c)

/-- the batch, command by command; the first failing command fails the whole batch -/
def restoreIn (setOk : String → Bool) (T : Table) : Batch → Except Err Table
  | [] => .ok T
  | c :: cs =>
    match applyCmd setOk T c with
    | .error e => .error e
    | .ok T' => restoreIn setOk T' cs

def restoreNoFlush (T : Table) (b : Batch) : Except Err Table := restoreIn (fun _ => true) T b

/-- what the kernel table is after the call (all-or-nothing) together with the outcome -/
def commit (setOk : String → Bool) (T : Table) (b : Batch) : Table × Option Err :=
  match restoreIn setOk T b with
  | .ok T' => (T', none)
  | .error e => (T, some e)

/-! ## Single commands (`utiliptables.Interface` as implemented by the exec runner) -/

/-- `-N`: returns whether the chain existed -/
def ensureChain (T : Table) (c : String) : Bool × Table :=
  if Tbl.has T c then (true, T) else (false, Tbl.set T c [])

/-- `-F` -/
def flushChain (T : Table) (c : String) : Except Err Table :=
  if Tbl.has T c then .ok (Tbl.set T c []) else .error .noChain

/-- `-X` -/
def deleteChain (T : Table) (c : String) : Except Err Table := applyCmd (fun _ => true) T (.del c)

/-- `-C` then `-A` or `-I`: returns whether the rule existed -/
def ensureRule (prepend : Bool) (setOk : String → Bool) (T : Table) (c : String) (r : Rule) :
    Except Err (Bool × Table) :=
  match checkRefs setOk T r with
  | some e => .error e
  | none =>
    match Tbl.get T c with
    | none => .error .noChain
    | some rules =>
      if r ∈ rules then .ok (true, T)
      else .ok (false, Tbl.set T c (if prepend then r :: rules else rules ++ [r]))

/-- `-C` then `-D` (first match); a missing chain or rule is not an error -/
def deleteRule (setOk : String → Bool) (T : Table) (c : String) (r : Rule) : Except Err Table :=
  match checkRefs setOk T r with
  | some e => .error e
  | none =>
    match Tbl.get T c with
    | none => .ok T
    | some rules => if r ∈ rules then .ok (Tbl.set T c (rules.erase r)) else .ok T

/-- `-S chain` -/
def listRules (T : Table) (c : String) : Except Err (List Rule) :=
  match Tbl.get T c with
  | none => .error .noChain
  | some rules => .ok rules

/-! ## ipsets -/

structure SetRec where
  type : String
  entries : List String
  deriving DecidableEq, Repr

abbrev Ipsets := Tbl String SetRec

inductive SetErr where
  | exists | notFound | busy | typeMismatch
  deriving DecidableEq, Repr

def SetErr.toString : SetErr → String
  | .exists => "exists" | .notFound => "not-found" | .busy => "busy" | .typeMismatch => "type-mismatch"

namespace Ipsets

/-- `ipset create name type [-exist]` -/
def create (S : Ipsets) (name type : String) (ignoreExist : Bool) : Except SetErr Ipsets :=
  match Tbl.get S name with
  | none => .ok (Tbl.set S name ⟨type, []⟩)
  | some r =>
    if ignoreExist then (if r.type = type then .ok S else .error .typeMismatch) else .error .exists

/-- identity of an element: the entry without its options (`ipset del` takes no options) -/
def entryKey (e : String) : String := String.ofList (e.toList.takeWhile (· ≠ ' '))

/-- `ipset add name entry [-exist]`; with `-exist` an existing element's options are replaced -/
def add (S : Ipsets) (name entry : String) (ignoreExist : Bool) : Except SetErr Ipsets :=
  match Tbl.get S name with
  | none => .error .notFound
  | some r =>
    if r.entries.any (fun e => entryKey e = entryKey entry) then
      (if ignoreExist then
        .ok (Tbl.set S name ⟨r.type, r.entries.map (fun e => if entryKey e = entryKey entry then entry else e)⟩)
       else .error .exists)
    else .ok (Tbl.set S name ⟨r.type, r.entries ++ [entry]⟩)

/-- `ipset del name entry` -/
def del (S : Ipsets) (name entry : String) : Except SetErr Ipsets :=
  match Tbl.get S name with
  | none => .error .notFound
  | some r =>
    if r.entries.any (fun e => entryKey e = entryKey entry) then
      .ok (Tbl.set S name ⟨r.type, r.entries.eraseP (fun e => entryKey e = entryKey entry)⟩)
    else .error .notFound

/-- `ipset flush name` -/
def flush (S : Ipsets) (name : String) : Except SetErr Ipsets :=
  match Tbl.get S name with
  | none => .error .notFound
  | some r => .ok (Tbl.set S name ⟨r.type, []⟩)

/-- `ipset destroy name`; `refd` = some iptables rule matches on the set -/
def destroy (S : Ipsets) (name : String) (refd : Bool) : Except SetErr Ipsets :=
  match Tbl.get S name with
  | none => .error .notFound
  | some _ => if refd then .error .busy else .ok (Tbl.erase S name)

def list (S : Ipsets) (name : String) : Except SetErr (List String) :=
  match Tbl.get S name with
  | none => .error .notFound
  | some r => .ok r.entries

end Ipsets

/-! ## Host-port mappings (pkg/network/portmapping/iptables.go) -/

structure Port where
  hostPort : Nat
  protocol : String
  containerPort : Nat
  podName : String
  podIP : String
  hostIP : String
  deriving DecidableEq, Repr

/-- `strings.ToLower` on ASCII -/
def lower (s : String) : String := String.ofList (s.toList.map Char.toLower)

def hashField (p : Port) : HashField → String
  | .hostPort => toString p.hostPort
  | .protocol => p.protocol
  | .containerPort => toString p.containerPort
  | .podName => p.podName

/-- the byte string `hostportChainName` hashes -/
def encode (p : Port) : String := String.join (Generated.Netfilter.hashInput.map (hashField p))

/-- `hash` stands for `take hashTrunc ∘ base32 ∘ sha256` (see `realHash`); theorems take it as a parameter -/
def chainName (hash : String → String) (p : Port) : String :=
  Generated.Netfilter.hostportChainPrefix ++ hash (encode p)

def pieceStr (hash : String → String) (p : Port) : Piece → String
  | .lit s => s
  | .podName => p.podName
  | .hostPort => toString p.hostPort
  | .containerPort => toString p.containerPort
  | .podIP => p.podIP
  | .hostIP => p.hostIP
  | .proto => lower p.protocol
  | .chain => chainName hash p

def tokStr (hash : String → String) (p : Port) (t : Tok) : String := String.join (t.map (pieceStr hash p))

/-- instantiate a template: the argv the Go code builds -/
def words (hash : String → String) (p : Port) (ts : List Tok) : List String := ts.map (tokStr hash p)

/-- a port nobody looks at, for templates without port fields -/
def noPort : Port := ⟨0, "", 0, "", "", ""⟩

/-- `writeLine(buf, words...)` of a rule line → command -/
def lineCmd : List String → Option Cmd
  | "-A" :: c :: args => some (.app c (normRule args))
  | "-I" :: c :: args => some (.ins c (normRule args))
  | ["-X", c] => some (.del c)
  | _ => none

/-- argv of `hostPortChainRules(port, protocol, chain, iptablesRestore)` -/
def jumpArgs (hash : String → String) (p : Port) (restore : Bool) : List String :=
  words hash p ((if restore then Generated.Netfilter.jumpHeadRestore else Generated.Netfilter.jumpHeadCmd)
    ++ Generated.Netfilter.jumpMid
    ++ (if p.hostIP ≠ "" then Generated.Netfilter.jumpHostIP else [])
    ++ Generated.Netfilter.jumpTail)

/-- the KUBE-HOSTPORTS rule of a port as `EnsureRule`/`DeleteRule` see it -/
def jumpRule (hash : String → String) (p : Port) : Rule := normRule (jumpArgs hash p false)

/-- the same rule as written into a restore batch (`-A KUBE-HOSTPORTS …`, quoted comment) -/
def jumpCmd (hash : String → String) (p : Port) : List Cmd := (lineCmd (jumpArgs hash p true)).toList

def masqCmd (hash : String → String) (p : Port) : List Cmd :=
  (lineCmd (words hash p Generated.Netfilter.hpMasqLine)).toList

def dnatCmd (hash : String → String) (p : Port) : List Cmd :=
  (lineCmd (words hash p Generated.Netfilter.hpDnatLine)).toList

def markCmd : List Cmd := (lineCmd (words id noPort Generated.Netfilter.markLine)).toList

/-- rule 1 of a port's KUBE-HP chain: mark traffic coming from the pod itself for masquerading -/
def masqRule (hash : String → String) (p : Port) : Rule :=
  normRule ((words hash p Generated.Netfilter.hpMasqLine).drop 2)

/-- rule 2 of a port's KUBE-HP chain: DNAT to podIP:containerPort -/
def dnatRule (hash : String → String) (p : Port) : Rule :=
  normRule ((words hash p Generated.Netfilter.hpDnatLine).drop 2)

/-- the KUBE-HOSTPORTS rule of a port as the full sync writes it (restore line, quoted comment) -/
def jumpRuleR (hash : String → String) (p : Port) : Rule := normRule ((jumpArgs hash p true).drop 2)

/-- the one rule galaxy puts into KUBE-MARK-MASQ -/
def markRule : Rule := normRule ((words id noPort Generated.Netfilter.markLine).drop 2)

/-- the rules the ports `ps` put into chain `c` (a port contributes iff `c` is its chain) -/
def hpRules (hash : String → String) (ps : List Port) (c : String) : List Rule :=
  ps.flatMap (fun p => if chainName hash p = c then [masqRule hash p, dnatRule hash p] else [])

/-- the trusted property of the truncated SHA-256: no collision among the inputs in question -/
def HashInjOn (hash : String → String) (l : List String) : Prop :=
  ∀ a ∈ l, ∀ b ∈ l, hash a = hash b → a = b

def hostportsChain : String := Generated.Netfilter.hostportsChain
def markMasqChain : String := Generated.Netfilter.markMasqChain
def hpPrefix : String := Generated.Netfilter.hostportChainPrefix

def hasPrefix (pre s : String) : Bool := pre.toList.isPrefixOf s.toList

/-- the chain belongs to galaxy's port mapping: KUBE-HOSTPORTS, KUBE-HP-*, and (D18) KUBE-MARK-MASQ -/
def galaxyChain (c : String) : Bool := c = hostportsChain || c = markMasqChain || hasPrefix hpPrefix c

def when (b : Bool) (l : List Cmd) : List Cmd := if b then l else []

/-- the restore batch of `SetupPortMapping(ports)` -/
def setupBatch (hash : String → String) (ps : List Port) : Batch :=
  when Generated.Netfilter.setupWritesMark [.decl markMasqChain]
  ++ when Generated.Netfilter.setupDeclaresChain (ps.map (fun p => .decl (chainName hash p)))
  ++ when Generated.Netfilter.setupWritesMark markCmd
  ++ when Generated.Netfilter.setupWritesHpRules (ps.flatMap (fun p => masqCmd hash p ++ dnatCmd hash p))

/-- fold of `EnsureRule(Append, nat, KUBE-HOSTPORTS, rule)`; stops at the first error -/
def ensureJumps (hash : String → String) (T : Table) : List Port → Table × Option Err
  | [] => (T, none)
  | p :: ps =>
    match ensureRule false (fun _ => true) T hostportsChain (jumpRule hash p) with
    | .error e => (T, some e)
    | .ok (_, T') => ensureJumps hash T' ps

/-- `SetupPortMapping`: restore, then the KUBE-HOSTPORTS rules one by one.
    Returns the table afterwards (partial effects stay) and the error, if any. -/
def setup (hash : String → String) (T : Table) (ps : List Port) : Table × Option Err :=
  match commit (fun _ => true) T (setupBatch hash ps) with
  | (T, some e) => (T, some e)
  | (T', none) =>
    if Generated.Netfilter.setupEnsuresJumpRulesAfterRestore then ensureJumps hash T' ps else (T', none)

/-- the restore batch of `CleanPortMapping(ports)` -/
def cleanBatch (hash : String → String) (ps : List Port) : Batch :=
  when Generated.Netfilter.cleanWritesMark ([.decl markMasqChain] ++ markCmd)
  ++ when Generated.Netfilter.cleanDeclaresChain (ps.map (fun p => .decl (chainName hash p)))
  ++ when Generated.Netfilter.cleanDeletesChain (ps.map (fun p => .del (chainName hash p)))

def deleteJumps (hash : String → String) (T : Table) : List Port → Table × Option Err
  | [] => (T, none)
  | p :: ps =>
    match deleteRule (fun _ => true) T hostportsChain (jumpRule hash p) with
    | .error e => (T, some e)
    | .ok T' => deleteJumps hash T' ps

/-- the `EnsureChain(nat, chain of port)` loop at the head of CleanPortMapping (since the fix of
    `cleanup-fails-when-chains-missing`): afterwards `iptables -C … -j KUBE-HP-x` always finds its target -/
def ensureChains (hash : String → String) (T : Table) : List Port → Table
  | [] => T
  | p :: ps => ensureChains hash (ensureChain T (chainName hash p)).2 ps

/-- `CleanPortMapping`: (`ensureFirst`: make sure the chains exist,) delete the KUBE-HOSTPORTS rules one by
    one, then restore.  `ensureFirst = false` is the code before the fix. -/
def cleanWith (ensureFirst : Bool) (hash : String → String) (T : Table) (ps : List Port) : Table × Option Err :=
  let T0 := if ensureFirst then ensureChains hash T ps else T
  match (if Generated.Netfilter.cleanDeletesJumpRulesBeforeRestore then deleteJumps hash T0 ps else (T0, none)) with
  | (T, some e) => (T, some e)
  | (T', none) => if Generated.Netfilter.cleanRestores then commit (fun _ => true) T' (cleanBatch hash ps) else (T', none)

def clean (hash : String → String) (T : Table) (ps : List Port) : Table × Option Err :=
  cleanWith Generated.Netfilter.cleanEnsuresChainsFirst hash T ps

/-! ## The per-pod protocol of pkg/galaxy/server.go around the port file
  (setupPortMapping: open sockets, record the ports in /var/lib/cni/galaxy/port/<containerID>, SetupPortMapping;
   a failed ADD, the DEL and the GC clean up exactly what the record lists) -/

/-- SetupPortMapping in which iptables call number `k` fails without effect: 0 = the restore,
    i+1 = the EnsureRule of the i-th port; beyond the last call there is no fault -/
def setupFault (hash : String → String) (k : Nat) (T : Table) (ps : List Port) : Table × Option Err :=
  match k with
  | 0 => (T, some .fault)
  | i + 1 =>
    match commit (fun _ => true) T (setupBatch hash ps) with
    | (T, some e) => (T, some e)
    | (T', none) =>
      if Generated.Netfilter.setupEnsuresJumpRulesAfterRestore then
        (if i < ps.length then
          (match ensureJumps hash T' (ps.take i) with
           | (T'', some e) => (T'', some e)
           | (T'', none) => (T'', some .fault))
         else ensureJumps hash T' ps)
      else (T', none)

/-- CleanPortMapping in which iptables call number `j` fails.  With `ensureFirst`: j < n the EnsureChain of port j,
    n ≤ j < 2n the DeleteRule of port j-n, j = 2n the restore; without: j < n the DeleteRule, j = n the restore -/
def cleanFaultWith (ensureFirst : Bool) (hash : String → String) (j : Nat) (T : Table) (ps : List Port) :
    Table × Option Err :=
  if ensureFirst then
    (if j < ps.length then (ensureChains hash T (ps.take j), some .fault)
     else if j ≤ 2 * ps.length then
       (match deleteJumps hash (ensureChains hash T ps) (ps.take (j - ps.length)) with
        | (T', some e) => (T', some e)
        | (T', none) => (T', some .fault))
     else cleanWith true hash T ps)
  else
    (if j ≤ ps.length then
      (match deleteJumps hash T (ps.take j) with
       | (T', some e) => (T', some e)
       | (T', none) => (T', some .fault))
     else cleanWith false hash T ps)

/-- the NAT table and the port file of one container -/
structure PodState where
  T : Table
  file : Option (List Port)
  deriving Repr

/-- `cleanIPtables(containerID)`: clean what the port file lists, then remove the file; returns success -/
def cleanupPortWith (ef : Bool) (hash : String → String) (fault : Option Nat) (s : PodState) : PodState × Bool :=
  match s.file with
  | none => (s, true)
  | some ps =>
    if ps = [] then (s, true)
    else
      match (match fault with
             | none => cleanWith ef hash s.T ps
             | some j => cleanFaultWith ef hash j s.T ps) with
      | (T', none) => (⟨T', if Generated.Netfilter.cleanupRemovesFileAfterClean then none else s.file⟩, true)
      | (T', some _) => (⟨T', s.file⟩, false)

/-- the port-mapping part of a CNI ADD (`setupPortMapping` + the failure cleanup of `requestFunc`) -/
def addPodWith (ef : Bool) (hash : String → String) (fault : Option Nat) (s : PodState) (ps : List Port) :
    PodState × Bool :=
  if ps = [] then (s, true)
  else
    let recorded := if Generated.Netfilter.portFileSavedBeforeSetup then some ps else s.file
    match (match fault with
           | none => setup hash s.T ps
           | some k => setupFault hash k s.T ps) with
    | (T1, none) => (⟨T1, some ps⟩, true)
    | (T1, some _) =>
      if Generated.Netfilter.addFailureRunsCleanup then ((cleanupPortWith ef hash none ⟨T1, recorded⟩).1, false)
      else (⟨T1, recorded⟩, false)

/-- the port-mapping part of a CNI DEL -/
def delPodWith (ef : Bool) (hash : String → String) (fault : Option Nat) (s : PodState) : PodState × Bool :=
  if Generated.Netfilter.delRunsCleanup then cleanupPortWith ef hash fault s else (s, true)

/-- one GC pass over the port directory for a dead container (`removeLeakyStateFile`): the port-clean callback,
    then the file is removed whatever the callback returned -/
def gcPodWith (ef : Bool) (hash : String → String) (s : PodState) : PodState :=
  ⟨(cleanupPortWith ef hash none s).1.T, none⟩

def cleanFault := cleanFaultWith Generated.Netfilter.cleanEnsuresChainsFirst
def cleanupPort := cleanupPortWith Generated.Netfilter.cleanEnsuresChainsFirst
def addPod := addPodWith Generated.Netfilter.cleanEnsuresChainsFirst
def delPod := delPodWith Generated.Netfilter.cleanEnsuresChainsFirst
def gcPod := gcPodWith Generated.Netfilter.cleanEnsuresChainsFirst

def basicRule : Rule := normRule (words id noPort Generated.Netfilter.basicRuleArgs)

def ensureBasicRules (T : Table) : List String → Table × Option Err
  | [] => (T, none)
  | c :: cs =>
    match ensureRule false (fun _ => true) T c basicRule with
    | .error e => (T, some e)
    | .ok (_, T') => ensureBasicRules T' cs

/-- `EnsureBasicRule` with `natInterfaceName = ""` (what `portmapping.New("")` in galaxy.go uses);
    the policy of filter/FORWARD lives in another table and is not modelled -/
def ensureBasic (T : Table) : Table × Option Err :=
  ensureBasicRules (ensureChain T hostportsChain).2 Generated.Netfilter.basicRuleChains

/-- chains `SetupPortMappingForAllPods` deletes: existing, ours by prefix, not active -/
def staleChains (hash : String → String) (existing : List String) (ps : List Port) : List String :=
  existing.filter (fun c =>
    (!Generated.Netfilter.syncStaleSkipsActive || !(ps.map (chainName hash)).contains c)
    && (!Generated.Netfilter.syncStalePrefixGuard || hasPrefix hpPrefix c))

/-- the restore batch of `SetupPortMappingForAllPods(ports)`; `existing` = the chains parsed from
    `iptables-save -t nat`, in the (arbitrary) iteration order of the Go map -/
def syncAllBatch (hash : String → String) (existing : List String) (ps : List Port) : Batch :=
  let stale := staleChains hash existing ps
  when Generated.Netfilter.syncWritesMark [.decl markMasqChain]
  ++ when Generated.Netfilter.syncDeclaresHostports [.decl hostportsChain]
  ++ when Generated.Netfilter.syncDeclaresChain (ps.map (fun p => .decl (chainName hash p)))
  ++ when Generated.Netfilter.syncStaleDeclares (stale.map .decl)
  ++ when Generated.Netfilter.syncWritesMark markCmd
  ++ ps.flatMap (fun p =>
       when Generated.Netfilter.syncWritesJumpRule (jumpCmd hash p)
       ++ when Generated.Netfilter.syncWritesHpRules (masqCmd hash p ++ dnatCmd hash p))
  ++ when Generated.Netfilter.syncStaleDeletes (stale.map .del)

/-- `SetupPortMappingForAllPods`; `order` resolves the map-iteration nondeterminism: any duplicate-free
    enumeration of the chains existing after `EnsureBasicRule` -/
def syncAllWith (hash : String → String) (order : Table → List String) (T : Table) (ps : List Port) :
    Table × Option Err :=
  match (if Generated.Netfilter.syncEnsuresBasicFirst then ensureBasic T else (T, none)) with
  | (T, some e) => (T, some e)
  | (T', none) => commit (fun _ => true) T' (syncAllBatch hash (order T') ps)

/-- duplicate-free key list (first binding wins, as `get` sees it) -/
def chainList (T : Table) : List String := T.keys.eraseDups

def syncAll (hash : String → String) (T : Table) (ps : List Port) : Table × Option Err :=
  syncAllWith hash chainList T ps

/-! ## daemon restart -/

/-- `k8s.GetPodFullName` -/
def fullPodName (name ns : String) : String := name ++ "_" ++ ns

/-- what `parsePorts(pod)` puts into `Port.PodName`: the start-up sync uses it as it is -/
def startupPodName (name ns : String) : String :=
  if Generated.Netfilter.parsePortsSetsBarePodName then name else fullPodName name ns

/-- the per-pod ADD path overwrites it with the request's pod name -/
def addPodName (name ns : String) : String :=
  if Generated.Netfilter.addPathOverwritesPodName then name else startupPodName name ns

def withPodName (n : String) (p : Port) : Port := { p with podName := n }

/-- a restart of the daemon (`setupIPtables`): one full sync over the ports of the live pods as the start-up
    path derives them (`live` = the ports of the live pods as the ADD path recorded them) -/
def restartPod (hash : String → String) (s : PodState) (name ns : String) (fromAnnotation : Bool) (live : List Port) :
    PodState × Bool :=
  -- a pod with the random-port annotation: the ports are read back from the annotation the ADD path wrote
  let ps := if fromAnnotation then live else live.map (withPodName (startupPodName name ns))
  let r := syncAll hash s.T ps
  (⟨r.1, s.file⟩, r.2.isNone)

/-! ## Text level: what the Go code writes into the restore buffer, and how restore reads it back
  (used by the driver: the batch text is compared with the bytes the real code passes to RestoreAll,
  and `parseText (setupText …) = setupBatch …` is re-checked on every case) -/

def tokenizeAux : List Char → List Char → Bool → Bool → List String → Option (List String)
  | [], cur, hv, inQ, acc => if inQ then none else some (if hv then acc ++ [String.ofList cur] else acc)
  | c :: cs, cur, hv, inQ, acc =>
    if c = '"' then tokenizeAux cs (cur ++ [c]) true (!inQ) acc
    else if c = ' ' ∧ !inQ then
      (if hv then tokenizeAux cs [] false false (acc ++ [String.ofList cur]) else tokenizeAux cs [] false false acc)
    else tokenizeAux cs (cur ++ [c]) true inQ acc

/-- split on spaces; a double-quoted stretch is one word (quotes kept) -/
def tokenize (s : String) : Option (List String) := tokenizeAux s.toList [] false false []

/-- one line of a table section: `none` = blank / comment -/
def parseWords : List String → Except Err (Option Cmd)
  | [] => .ok none
  | w :: ws =>
    match w.toList with
    | '#' :: _ => .ok none
    | ':' :: name => if name = [] ∨ ws = [] then .error .syntax else .ok (some (.decl (String.ofList name)))
    | _ =>
      match lineCmd (w :: ws) with
      | some c => .ok (some c)
      | none => .error .syntax

def parseLine (s : String) : Except Err (Option Cmd) :=
  match tokenize s with
  | none => .error .syntax
  | some ws => parseWords ws

/-- state: 0 = before `*table`, 1 = inside, 2 = after COMMIT -/
def parseTextAux : Nat → List String → Batch → Except Err Batch
  | st, [], acc => if st = 2 then .ok acc else .error .syntax
  | st, l :: ls, acc =>
    match tokenize l with
    | none => .error .syntax
    | some [] => parseTextAux st ls acc
    | some (w :: ws) =>
      if w.toList.head? = some '#' then parseTextAux st ls acc
      else if st = 0 then (if w.toList.head? = some '*' ∧ ws = [] then parseTextAux 1 ls acc else .error .syntax)
      else if st = 1 then
        (if w = "COMMIT" ∧ ws = [] then parseTextAux 2 ls acc
         else match parseWords (w :: ws) with
           | .error e => .error e
           | .ok none => parseTextAux st ls acc
           | .ok (some c) => parseTextAux st ls (acc ++ [c]))
      else .error .syntax

/-- a one-table restore input (`*table`, command lines, `COMMIT`) → batch -/
def parseText (lines : List String) : Except Err Batch := parseTextAux 0 lines []

def joinWords (ws : List String) : String := " ".intercalate ws

def chainLine (c : String) : String := Generated.Netfilter.chainLinePre ++ c ++ Generated.Netfilter.chainLineSuf

def tableLine : String := "*" ++ Generated.Netfilter.natTable

def whenS (b : Bool) (l : List String) : List String := if b then l else []

/-- the bytes `SetupPortMapping` passes to RestoreAll, line by line -/
def setupText (hash : String → String) (ps : List Port) : List String :=
  [tableLine]
  ++ whenS Generated.Netfilter.setupWritesMark [chainLine markMasqChain]
  ++ whenS Generated.Netfilter.setupDeclaresChain (ps.map (fun p => chainLine (chainName hash p)))
  ++ whenS Generated.Netfilter.setupWritesMark [joinWords (words id noPort Generated.Netfilter.markLine)]
  ++ whenS Generated.Netfilter.setupWritesHpRules (ps.flatMap (fun p =>
       [joinWords (words hash p Generated.Netfilter.hpMasqLine), joinWords (words hash p Generated.Netfilter.hpDnatLine)]))
  ++ ["COMMIT"]

/-- the bytes `CleanPortMapping` passes to RestoreAll -/
def cleanText (hash : String → String) (ps : List Port) : List String :=
  [tableLine]
  ++ whenS Generated.Netfilter.cleanWritesMark
      [chainLine markMasqChain, joinWords (words id noPort Generated.Netfilter.markLine)]
  ++ whenS Generated.Netfilter.cleanDeclaresChain (ps.map (fun p => chainLine (chainName hash p)))
  ++ whenS Generated.Netfilter.cleanDeletesChain (ps.map (fun p => joinWords ["-X", chainName hash p]))
  ++ ["COMMIT"]

/-! ## Well-formedness of a port list (DESIGN Appendix E, `WFPorts`) -/

def protoOk (s : String) : Bool := s ∈ ["TCP", "UDP", "tcp", "udp"]

def portOk (p : Port) : Bool := protoOk p.protocol && 0 < p.hostPort && p.hostPort ≤ 65535

/-- (hostPort, lower-cased protocol) pairwise distinct -/
def portsDistinct : List Port → Bool
  | [] => true
  | p :: ps => ps.all (fun q => !(q.hostPort = p.hostPort && lower q.protocol = lower p.protocol)) && portsDistinct ps

def wfPorts (ps : List Port) : Bool := ps.all portOk && portsDistinct ps

/-! ## The kernel's bind table and OpenHostports / CloseHostports (portmapping.go) -/

/-- (lower-cased protocol, port) -/
abbrev Sock := String × Nat

structure Host where
  /-- every bound socket on the node, galaxy's and everybody else's -/
  bound : List Sock
  /-- `podPortMap`: pod ↦ sockets galaxy holds for it -/
  held : Tbl String (List Sock)
  /-- sockets galaxy opened and lost track of (`podPortMap[pod]` overwritten by a second open) -/
  orphan : List Sock
  deriving Repr

def Host.init (foreign : List Sock) : Host := ⟨foreign, [], []⟩

inductive SockErr where
  | inUse | badProto | inadmissible
  deriving DecidableEq, Repr

/-- `bind()`: exclusive per (protocol, port); port 0 = the kernel picks: ANY free non-zero port is
    admissible, `choice` is the one the kernel picked -/
def bindPort (bound : List Sock) (proto : String) (port choice : Nat) : Except SockErr Sock :=
  if proto ≠ "tcp" ∧ proto ≠ "udp" then .error .badProto
  else if port = 0 then
    (if choice = 0 ∨ (proto, choice) ∈ bound then .error .inadmissible else .ok (proto, choice))
  else if (proto, port) ∈ bound then .error .inUse else .ok (proto, port)

/-- a requested port: (hostPort, protocol as given) -/
abbrev Req := Nat × String

/-- the loop of `OpenHostports`: opens sockets left to right; on the first failure reports it together
    with what had been opened so far (the caller closes those) -/
def openLoop (random : Bool) (bound : List Sock) (opened : List Sock) :
    List Req → List Nat → List Sock × Option SockErr
  | [], _ => (opened, none)
  | (port, proto) :: rest, choices =>
    if port = 0 ∧ ¬ random then openLoop random bound opened rest choices
    else
      match bindPort (opened ++ bound) (lower proto) port choices.head!  with
      | .error e => (opened, some e)
      | .ok s => openLoop random bound (opened ++ [s]) rest (if port = 0 then choices.tail else choices)

/-- `OpenHostports(pod, random, ports)`; returns the sockets handed out (in request order) -/
def openHostports (h : Host) (pod : String) (random : Bool) (reqs : List Req) (choices : List Nat) :
    Host × Except SockErr (List Sock) :=
  match openLoop random h.bound [] reqs choices with
  | (opened, some e) =>
    -- every socket opened by this call is closed again
    (⟨(opened ++ h.bound).filter (fun s => s ∉ opened), h.held, h.orphan⟩, .error e)
  | (opened, none) =>
    if opened = [] then (h, .ok [])
    else
      let old := (Tbl.get h.held pod).getD []
      (⟨opened ++ h.bound, Tbl.set h.held pod opened, old ++ h.orphan⟩, .ok opened)

/-- `CloseHostports(pod)` -/
def closeHostports (h : Host) (pod : String) : Host :=
  match Tbl.get h.held pod with
  | none => h
  | some ss => ⟨h.bound.filter (fun s => s ∉ ss), Tbl.erase h.held pod, h.orphan⟩

/-- every socket in galaxy's map -/
def Host.allHeld (h : Host) : List Sock := h.held.keys.eraseDups.flatMap (fun pod => (Tbl.get h.held pod).getD [])

/-- another process binds a port -/
def foreignBind (h : Host) (s : Sock) : Host × Bool :=
  if s ∈ h.bound then (h, false) else (⟨s :: h.bound, h.held, h.orphan⟩, true)

/-- another process closes one of ITS sockets -/
def foreignClose (h : Host) (s : Sock) : Host :=
  if s ∈ h.allHeld ∨ s ∈ h.orphan then h else ⟨h.bound.filter (· ≠ s), h.held, h.orphan⟩

/-- the Go runtime finalizes an orphaned socket (unreachable `net.Listener`): it is closed at an
    arbitrary later time -/
def finalizeOrphan (h : Host) (s : Sock) : Host :=
  if s ∈ h.orphan then ⟨h.bound.filter (· ≠ s), h.held, h.orphan.filter (· ≠ s)⟩ else h

inductive HostOp where
  | open (pod : String) (random : Bool) (reqs : List Req) (choices : List Nat)
  | close (pod : String)
  | fbind (s : Sock)
  | fclose (s : Sock)
  | gc (s : Sock)
  deriving Repr

def hostStep (h : Host) : HostOp → Host
  | .open pod random reqs choices => (openHostports h pod random reqs choices).1
  | .close pod => closeHostports h pod
  | .fbind s => (foreignBind h s).1
  | .fclose s => foreignClose h s
  | .gc s => finalizeOrphan h s

/-! ## The concrete hash: first `hashTrunc` characters of base32(sha256(input)) -/

namespace Sha256

def k : Array UInt32 := #[
  0x428a2f98, 0x71374491, 0xb5c0fbcf, 0xe9b5dba5, 0x3956c25b, 0x59f111f1, 0x923f82a4, 0xab1c5ed5,
  0xd807aa98, 0x12835b01, 0x243185be, 0x550c7dc3, 0x72be5d74, 0x80deb1fe, 0x9bdc06a7, 0xc19bf174,
  0xe49b69c1, 0xefbe4786, 0x0fc19dc6, 0x240ca1cc, 0x2de92c6f, 0x4a7484aa, 0x5cb0a9dc, 0x76f988da,
  0x983e5152, 0xa831c66d, 0xb00327c8, 0xbf597fc7, 0xc6e00bf3, 0xd5a79147, 0x06ca6351, 0x14292967,
  0x27b70a85, 0x2e1b2138, 0x4d2c6dfc, 0x53380d13, 0x650a7354, 0x766a0abb, 0x81c2c92e, 0x92722c85,
  0xa2bfe8a1, 0xa81a664b, 0xc24b8b70, 0xc76c51a3, 0xd192e819, 0xd6990624, 0xf40e3585, 0x106aa070,
  0x19a4c116, 0x1e376c08, 0x2748774c, 0x34b0bcb5, 0x391c0cb3, 0x4ed8aa4a, 0x5b9cca4f, 0x682e6ff3,
  0x748f82ee, 0x78a5636f, 0x84c87814, 0x8cc70208, 0x90befffa, 0xa4506ceb, 0xbef9a3f7, 0xc67178f2]

def h0 : Array UInt32 := #[
  0x6a09e667, 0xbb67ae85, 0x3c6ef372, 0xa54ff53a, 0x510e527f, 0x9b05688c, 0x1f83d9ab, 0x5be0cd19]

def rotr (x : UInt32) (n : UInt32) : UInt32 := (x >>> n) ||| (x <<< (32 - n))

def pad (msg : List UInt8) : Array UInt8 := Id.run do
  let len := msg.length
  let mut a : Array UInt8 := msg.toArray
  a := a.push 0x80
  let zeros := (119 - len % 64) % 64     -- so that (len + 1 + zeros) % 64 = 56
  for _ in [0:zeros] do
    a := a.push 0
  let bits := len * 8
  for i in [0:8] do
    a := a.push (UInt8.ofNat ((bits >>> (8 * (7 - i))) % 256))
  return a

def block (h : Array UInt32) (m : Array UInt8) (off : Nat) : Array UInt32 := Id.run do
  let mut w : Array UInt32 := Array.replicate 64 0
  for t in [0:16] do
    let b (j : Nat) : UInt32 := (m[off + 4 * t + j]!).toUInt32
    w := w.set! t ((b 0 <<< 24) ||| (b 1 <<< 16) ||| (b 2 <<< 8) ||| b 3)
  for t in [16:64] do
    let x := w[t - 15]!
    let y := w[t - 2]!
    let s0 := rotr x 7 ^^^ rotr x 18 ^^^ (x >>> 3)
    let s1 := rotr y 17 ^^^ rotr y 19 ^^^ (y >>> 10)
    w := w.set! t (w[t - 16]! + s0 + w[t - 7]! + s1)
  let mut a := h[0]!
  let mut b := h[1]!
  let mut c := h[2]!
  let mut d := h[3]!
  let mut e := h[4]!
  let mut f := h[5]!
  let mut g := h[6]!
  let mut hh := h[7]!
  for t in [0:64] do
    let s1 := rotr e 6 ^^^ rotr e 11 ^^^ rotr e 25
    let ch := (e &&& f) ^^^ ((~~~ e) &&& g)
    let t1 := hh + s1 + ch + k[t]! + w[t]!
    let s0 := rotr a 2 ^^^ rotr a 13 ^^^ rotr a 22
    let mj := (a &&& b) ^^^ (a &&& c) ^^^ (b &&& c)
    let t2 := s0 + mj
    hh := g; g := f; f := e; e := d + t1; d := c; c := b; b := a; a := t1 + t2
  return #[h[0]! + a, h[1]! + b, h[2]! + c, h[3]! + d, h[4]! + e, h[5]! + f, h[6]! + g, h[7]! + hh]

def sum (msg : List UInt8) : List UInt8 := Id.run do
  let m := pad msg
  let mut h := h0
  for i in [0:m.size / 64] do
    h := block h m (64 * i)
  let mut out : List UInt8 := []
  for x in h do
    out := out ++ [(x >>> 24).toUInt8, (x >>> 16).toUInt8, (x >>> 8).toUInt8, x.toUInt8]
  return out

end Sha256

def base32Alphabet : Array Char := "ABCDEFGHIJKLMNOPQRSTUVWXYZ234567".toList.toArray

/-- unpadded prefix of base32.StdEncoding: one character per complete or final partial 5-bit group -/
def base32 (bytes : List UInt8) : String := Id.run do
  let bits : List Bool := bytes.flatMap (fun b => (List.range 8).map (fun i => (b.toNat >>> (7 - i)) % 2 = 1))
  let mut out : List Char := []
  let mut rest := bits
  for _ in [0:(bits.length + 4) / 5] do
    let grp := rest.take 5
    rest := rest.drop 5
    let grp := grp ++ List.replicate (5 - grp.length) false
    let v := grp.foldl (fun acc b => 2 * acc + (if b then 1 else 0)) 0
    out := out ++ [base32Alphabet[v]!]
  return String.ofList out

/-- `encoded[:hashTrunc]` of hostportChainName -/
def realHash (s : String) : String :=
  String.ofList ((base32 (Sha256.sum s.toUTF8.toList)).toList.take Generated.Netfilter.hashTrunc)

end Galaxy.Netfilter
