/-
  C06 side file of the plugin model (`Galaxy.Model.Plugin` is owned by the work package "plugin"; nothing there is
  edited).  It adds, for property C06 ("filter-approved nodes can be bound and get a routable IP"):

  * the decidable well-formedness predicate `WF` of the configuration / the request / the names
    (DESIGN.md Appendix E);
  * the vocabulary of the property (`Routable`, `FreeRoutable`, `held`, `CacheOK`);
  * variants of the four leaf functions of the model whose shape is a *fact about the source*, parameterised by
    that fact (`Galaxy.Generated.C06`, regenerated on every run):
      - `nodeSubnetsByRangesP`  (seed of the running intersection in `NodeSubnetsByIPRanges`),
      - `ownedSubnetsP`         (seed / guard of the owned-address intersection in `getSubnet`),
      - `pickRangesP`           (`AllocateInSubnetsAndIPRange`: a non-matching address continues / ends the walk),
      - `toHInfoP`              (`toFloatingIPInfo`: ipinfo from the address' own pool / from the first pool),
      - `choiceIsMin`           (`ByKeyAndIPRanges(key, nil)` sorted ascending / Go map order).
    `Galaxy/Lemmas/C06Facts.lean` proves that at the values the current source has, they ARE the model's functions;
    the `_counter` theorems of `Props/C06.lean` show what breaks at the other values.
  Core Lean only.
-/
import Galaxy.Model.Plugin
import Galaxy.Generated.C06

namespace Galaxy.Plugin.C06
open Galaxy Galaxy.Plugin

abbrev Ranges := List (Nat × Nat)

/-! ## Well-formedness (all decidable) -/

/-- what `FloatingIPPool.UnmarshalJSON` produces for a node subnet: prefix length ≤ 32, base address masked -/
def wfSubnet (n : Subnet) : Bool := decide (n.bits ≤ 32) && n.base % 2 ^ (32 - n.bits) == 0

/-- two CIDRs share an address iff one contains the other's base -/
def overlaps (a b : Subnet) : Bool := a.contains b.base || b.contains a.base

def allNodeSubnets (ps : List Pool) : List Subnet := ps.flatMap (·.nodeSubnets)

/-- node subnets pairwise identical or disjoint -/
def subnetsIdenticalOrDisjoint (ps : List Pool) : Bool :=
  (allNodeSubnets ps).all (fun a => (allNodeSubnets ps).all (fun b => a == b || !overlaps a b))

/-- what the decoder guarantees for one pool: a pod subnet of ≤ 32 bits, at least one well-formed node subnet without
    repetition, ordered ranges inside the pod subnet -/
def wfPool (p : Pool) : Bool :=
  decide (p.bits ≤ 32) && !p.nodeSubnets.isEmpty && p.nodeSubnets.all wfSubnet &&
    decide (p.nodeSubnets.eraseDups.length = p.nodeSubnets.length) &&
    p.ranges.all (fun r => decide (r.1 ≤ r.2) && decide (r.2 < 2 ^ 32) &&
      r.1 / 2 ^ (32 - p.bits) == p.gateway / 2 ^ (32 - p.bits) && r.2 / 2 ^ (32 - p.bits) == p.gateway / 2 ^ (32 - p.bits))

/-- no address of `p` is an address of `q` -/
def poolDisjoint (p q : Pool) : Bool := (enumRanges p.ranges).all (fun ip => !(p.has ip && q.has ip))

/-- pools pairwise disjoint as address sets -/
def poolsDisjoint : List Pool → Bool
  | [] => true
  | p :: t => t.all (poolDisjoint p) && poolsDisjoint t

/-- `WFConf`: every pool well formed, pools pairwise disjoint, node subnets pairwise identical or disjoint -/
def wfConf (ps : List Pool) : Bool := ps.all wfPool && poolsDisjoint ps && subnetsIdenticalOrDisjoint ps

def rangesDisjoint (a b : Ranges) : Bool := (enumRanges a).all (fun ip => !(enumRanges b).contains ip)

/-- `WFRequest`: the requested range lists are pairwise disjoint as address sets -/
def wfRequest : List Ranges → Bool
  | [] => true
  | rs :: t => t.all (rangesDisjoint rs) && wfRequest t

def noUnderscore (s : String) : Bool := !s.toList.contains '_'

/-- `WFNames`: non-empty namespace / pod name (/ app name unless the pod has no owner), no `'_'` anywhere
    (the boundary of the key codec, C11 / D16) -/
def wfNames (p : Pod) : Bool :=
  p.ns ≠ "" && p.name ≠ "" && (p.kind == .bare || p.app ≠ "") &&
    noUnderscore p.ns && noUnderscore p.name && noUnderscore p.app && noUnderscore p.pool

/-- the well-formedness hypothesis of every C06 theorem: configuration in force, the pod's request, its names -/
def WF (s : State) (pod : Pod) : Bool := wfConf s.pools && wfRequest pod.ranges && wfNames pod

/-! ## Vocabulary of the property -/

/-- `nodeSubnet(n)`: the configured node subnet of a node (its InternalIP looked up in the configuration) -/
def nodeSubnetOfNode (s : State) (node : String) : Option Subnet :=
  match s.nodes.get node with
  | none => none
  | some nip => nodeSubnetOf s.pools nip

/-- the per-node subnet cache of the plugin holds nothing but `nodeSubnet(n)` -/
def CacheOK (s : State) : Prop := ∀ n sn, Tbl.get s.nodeCache n = some sn → nodeSubnetOfNode s n = some sn

/-- the address belongs to a pool (of the configuration in force) that lists the node subnet `sn` -/
def RoutableVia (s : State) (ip : IP) (sn : Subnet) : Prop := ∃ p, p ∈ s.pools ∧ p.has ip = true ∧ sn ∈ p.nodeSubnets

/-- "the IP belongs to a pool whose node subnets contain that node's address" -/
def Routable (s : State) (ip : IP) (node : String) : Prop :=
  ∃ p nip sn, p ∈ s.pools ∧ p.has ip = true ∧ Tbl.get s.nodes node = some nip ∧ sn ∈ p.nodeSubnets ∧
    sn.contains nip = true

/-- a free address of the range list lies in a pool listing `sn` -/
def FreeIn (s : State) (sn : Subnet) (rs : Ranges) : Prop :=
  ∃ ip, ip ∈ enumRanges rs ∧ ip ∈ s.free ∧ hasSubnet s ip sn = true

/-- "still has a free routable IP": one per requested range list; without a request, any free address -/
def FreeRoutable (s : State) (sn : Subnet) (rss : List Ranges) : Prop :=
  if rss = [] then ∃ ip, ip ∈ s.free ∧ hasSubnet s ip sn = true else ∀ rs, rs ∈ rss → FreeIn s sn rs

/-- the addresses Bind will reuse for the pod: what `ByKeyAndIPRanges` finds for its key and request -/
def held (s : State) (pod : Pod) : List IP := (byKeyAndRanges s (keyOf pod) pod.ranges).filterMap id

/-- filter / bind outcome classes the property allows for the bind after a filter -/
def okOrWaiting (r : Res) : Prop := r = .ok ∨ r = .err "waiting-for-delete"

/-! ## Fact-parameterised variants of the leaf functions -/

/-- `insertSubnet(poolIndexSet, …)`: the union of the node subnets of the pools of the addresses -/
def poolSubnets (s : State) (ips : List IP) : List Subnet :=
  (s.pools.filter (fun p => ips.any (fun ip => poolOf s.pools ip = some p))).foldl
    (fun acc p => sunion acc p.nodeSubnets) []

/-- the loop of `NodeSubnetsByIPRanges`; `seedFirstOnly` = the seeding condition is `i == 0`
    (false: `subnetSet.Len() == 0`, the code before the fix of D7) -/
def nsbrGo (seedFirstOnly : Bool) (s : State) : List Ranges → Bool → List Subnet → List Subnet
  | [], _, acc => acc
  | rs :: t, first, acc =>
    if ((enumRanges rs).filter (fun ip => s.free.contains ip)).isEmpty then []
    else if (if seedFirstOnly then first else acc.isEmpty) then
      nsbrGo seedFirstOnly s t false (poolSubnets s ((enumRanges rs).filter (fun ip => s.free.contains ip)))
    else
      nsbrGo seedFirstOnly s t false
        (sinter acc (poolSubnets s ((enumRanges rs).filter (fun ip => s.free.contains ip))))

def nodeSubnetsByRangesP (seedFirstOnly : Bool) (s : State) (rss : List Ranges) : List Subnet :=
  if rss.isEmpty then poolSubnets s s.free else nsbrGo seedFirstOnly s rss true []

/-- the loop of `getSubnet` over `ipInfos` under a seeding rule ("flag": at the first owned address; "index": at
    loop index 0; "empty": whenever the set is empty).  Result: (`hasAllocated`, `allocatedSubnets`). -/
def ownedLoop (rule : String) (s : State) : List (Option IP) → Nat → Bool → List Subnet → Bool × List Subnet
  | [], _, has, acc => (has, acc)
  | none :: t, i, has, acc => ownedLoop rule s t (i + 1) has acc
  | some ip :: t, i, has, acc =>
    if (if rule = "flag" then !has else if rule = "index" then i == 0 else acc.isEmpty) then
      ownedLoop rule s t (i + 1) true (subnetsOf s.pools ip)
    else ownedLoop rule s t (i + 1) has (sinter acc (subnetsOf s.pools ip))

/-- (`guard of the final intersection`, `allocatedSubnets`) of `getSubnet`; `guardFlag` = the guard is the flag
    (false: `allocatedSubnets.Len() > 0`) -/
def ownedSubnetsP (rule : String) (guardFlag : Bool) (s : State) (infos : List (Option IP)) : Bool × List Subnet :=
  ((if guardFlag then (ownedLoop rule s infos 0 false []).1 else !(ownedLoop rule s infos 0 false []).2.isEmpty),
   (ownedLoop rule s infos 0 false []).2)

/-- the available subnets of `getSubnet` for a default-policy pod that requests ranges (no reservation, no sized pool):
    owned-address intersection, `NodeSubnetsByIPRanges` of the unowned range lists, final intersection -/
def offeredP (seedFirstOnly : Bool) (rule : String) (guardFlag : Bool) (s : State) (key : Key) (rss : List Ranges) :
    List Subnet :=
  if (unfoundRanges (byKeyAndRanges s key rss) rss).isEmpty then (ownedSubnetsP rule guardFlag s (byKeyAndRanges s key rss)).2
  else if (ownedSubnetsP rule guardFlag s (byKeyAndRanges s key rss)).1 then
    sinter (nodeSubnetsByRangesP seedFirstOnly s (unfoundRanges (byKeyAndRanges s key rss) rss))
      (ownedSubnetsP rule guardFlag s (byKeyAndRanges s key rss)).2
  else nodeSubnetsByRangesP seedFirstOnly s (unfoundRanges (byKeyAndRanges s key rss) rss)

/-- one range list of `AllocateInSubnetsAndIPRange`: the walk callback; `scanWhole` = an address failing the test
    continues the walk (false: a free address whose pool does not list the node subnet ends the walk without a pick) -/
def pickOne (scanWhole : Bool) (s : State) (n : Subnet) (acc : List IP) : List IP → Option IP
  | [] => none
  | ip :: t =>
    if s.free.contains ip && hasSubnet s ip n && !acc.contains ip then some ip
    else if !scanWhole && s.free.contains ip && !hasSubnet s ip n then none
    else pickOne scanWhole s n acc t

def pickRangesP (scanWhole : Bool) (s : State) (n : Subnet) : List Ranges → List IP → Option (List IP)
  | [], acc => some acc
  | rs :: t, acc =>
    match pickOne scanWhole s n acc (enumRanges rs) with
    | none => none
    | some ip => pickRangesP scanWhole s n t (acc ++ [ip])

/-- `toFloatingIPInfo(...).IPInfo`; `ownPool` = mask / gateway / vlan are the fields of the address' own pool
    (false: the gateway is the first pool's) -/
def toHInfoP (ownPool : Bool) (s : State) (ip : IP) : HInfo :=
  match poolOf s.pools ip with
  | some p =>
    { ip := ip, bits := p.bits, vlan := p.vlan,
      gw := if ownPool then p.gateway else (s.pools.head?.map (·.gateway)).getD 0 }
  | none => { ip := ip, bits := 0, gw := 0, vlan := 0 }

/-! ## Admissibility refinement: the "first owned address" under a sorted `ByKeyAndIPRanges(key, nil)` -/

/-- the lowest address of a list -/
def minIP : List IP → Option IP
  | [] => none
  | x :: t => match minIP t with
    | none => some x
    | some m => some (if x ≤ m then x else m)

/-- Refinement of the model's admissibility test for `Choice.first` (which accepts ANY address of the key, = Go map
    order): if `ByKeyAndIPRanges(key, nil)` returns the key's addresses sorted ascending (`sorted`, regenerated fact
    `byKeyNoRangesSorted`), the address that `ipInfos[0]` (getSubnet) / `ipInfos[:1]` (allocateIP) denote for a pod
    without requested ranges is the LOWEST address of the key.  Vacuous with ranges, or when the key owns nothing. -/
def choiceIsMin (sorted : Bool) (s : State) (pod : Pod) (ch : Choice) : Bool :=
  !sorted || !pod.ranges.isEmpty || (ipsOfKey s (keyOf pod)).isEmpty ||
    pickFirst ((ipsOfKey s (keyOf pod)).map some) ch.first == minIP (ipsOfKey s (keyOf pod))

/-! ## The node-subnet cache across a configuration reload -/

/-- `updateConfigMap`; `clears` = the deferred closure sees the result of ensureIPAMConf and replaces `p.nodeSubnet` by an
    empty map (regenerated fact `reloadClearsNodeSubnetCache`; false: a shadowed `updated` - the cache survives) -/
def reloadP (clears : Bool) (s : State) (pools : List Pool) : State × Out :=
  if clears then reload s pools else ({ (reload s pools).1 with nodeCache := s.nodeCache }, (reload s pools).2)

/-- the moves of the C06 histories: API truth changes, lister syncs, Filter, Bind, configuration reloads -/
def histMove : Move → Bool
  | .createPod .. => true
  | .deletePod .. => true
  | .finishPod .. => true
  | .runPod .. => true
  | .scale .. => true
  | .deleteApp .. => true
  | .setPool .. => true
  | .listerSync .. => true
  | .dropEvent .. => true
  | .filter .. => true
  | .bind .. => true
  | .reload .. => true
  | _ => false

/-! ## The pool table and the records across `ConfigurePool` -/

/-- `insertSubnet(poolIndexSet, …)` as the code does it: every address is mapped to the INDEX of its pool in the sorted
    configuration, and the index is looked up in the pool table.  `wholeTable` = the table is the sorted configuration
    itself (regenerated fact `poolIndexIsPositionInPoolTable`; false: pools without addresses are left out of the table
    while the indices still count them).  The model's `poolSubnets` identifies pools directly. -/
def poolSubnetsIdx (wholeTable : Bool) (s : State) (ips : List IP) : List Subnet :=
  (ips.filterMap (fun ip => s.pools.findIdx? (fun p => p.has ip))).foldl
    (fun acc i =>
      match (if wholeTable then s.pools else s.pools.filter (fun p => !p.ranges.isEmpty))[i]? with
      | some p => sunion acc p.nodeSubnets
      | none => acc) []

/-- the ipinfo of an address whose cached record still hangs off the pool object of an EARLIER configuration `old`
    (what `toFloatingIPInfo` would answer if ConfigurePool kept records across a reload; the regenerated fact
    `configurePoolRebuildsEveryRecord` says it does not, so the model's `toHInfo` reads the pools in force) -/
def toHInfoKept (old : List Pool) (ip : IP) : HInfo :=
  match poolOf old ip with
  | some p => { ip := ip, bits := p.bits, gw := p.gateway, vlan := p.vlan }
  | none => { ip := ip, bits := 0, gw := 0, vlan := 0 }

end Galaxy.Plugin.C06
