/-
  M3 `Ipam`: executable model of `crdIpam` (/repo/pkg/ipam/floatingip/{ipam_crd,store_crd}.go).

  * IPs are `Nat` (< 2^32 on every input the harness sends; nothing below depends on the bound: the Go
    loop `walkIPRanges` iterates with a 64-bit counter, fact `walkOverflowSafe`).
  * Every mutator is the explicit sequence of store calls (`sCreate/sGet/sUpdate/sDelete/sList`) followed
    by the memory update.  A `Plan` names the store-call indices (per operation, counted from 0) which
    fail cleanly (error, no effect) and an optional crash point (stop before / after call k; memory is then
    garbage and `step` applies `restart`).
  * Where Go iterates a map the operation takes the observed choice as an argument; `admissible…`
    says which choices the code can make.
  * The store behaves like the API server: create of an existing name fails, get/update/delete of a
    missing name fail.
  * Admin reservations are writes to the store only; the watch events they cause sit in `pending` until a
    `deliver` move hands the oldest one to `fipAssignEvent` / `fipUnassignEvent` (watch latency).
-/
import Galaxy.Model.Tbl
import Galaxy.Generated.Ipam

namespace Galaxy.Ipam
set_option linter.unusedVariables false

abbrev IP := Nat

structure Range where
  first : IP
  last : IP
  deriving DecidableEq, Repr, Inhabited

/-- a node subnet: canonical text (what `net.IPNet.String()` prints) + the numbers `Contains` uses -/
structure Subnet where
  str : String
  base : Nat
  bits : Nat
  deriving DecidableEq, Repr, Inhabited

structure Pool where
  nodeSubnets : List Subnet
  ranges : List Range
  bits : Nat
  gateway : IP
  vlan : Nat
  deriving DecidableEq, Repr, Inhabited

/-- a FloatingIP record (in memory: `FloatingIP`; in the store: `v1alpha1.FloatingIP`) -/
structure Rec where
  key : String
  policy : Nat
  node : String
  uid : String
  reserved : Bool
  ts : Nat
  deriving DecidableEq, Repr, Inhabited

structure Attr where
  node : String
  uid : String
  policy : Nat
  deriving DecidableEq, Repr, Inhabited

/-- a watch event of a labelled (admin) FloatingIP object: add (`assign`) or delete -/
structure Event where
  assign : Bool
  ip : IP
  key : String
  policy : Nat
  deriving DecidableEq, Repr, Inhabited

abbrev Store := Tbl IP Rec

structure State where
  pools : List Pool := []
  alloc : Tbl IP Rec := []
  free : List IP := []
  store : Store := []
  pending : List Event := []
  clock : Nat := 1
  deriving Repr, Inhabited

inductive Err where
  | noEnough      -- ErrNoEnoughIP
  | mem           -- lookup in the caches failed (not found / key mismatch / already allocated)
  | exists_       -- store: AlreadyExists
  | notFound      -- store: NotFound
  | injected      -- the fault plan failed this call
  | crashed       -- the crash plan stopped the process here
  deriving DecidableEq, Repr, Inhabited

/-- fault / crash plan of ONE operation; indices count the store calls of that operation from 0 -/
structure Plan where
  fails : List Nat := []
  crashBefore : Option Nat := none
  crashAfter : Option Nat := none
  deriving DecidableEq, Repr, Inhabited

def Plan.noCrash (pl : Plan) : Prop := pl.crashBefore = none ∧ pl.crashAfter = none

instance (pl : Plan) : Decidable pl.noCrash := by unfold Plan.noCrash; exact inferInstance

/-! ## address arithmetic -/

def Range.contains (r : Range) (ip : IP) : Bool := decide (r.first ≤ ip) && decide (ip ≤ r.last)

/-- the addresses `walkIPRanges` visits, in order -/
def walk (rs : List Range) : List IP :=
  rs.flatMap (fun r => List.range' r.first (r.last + 1 - r.first))

def pow2 (n : Nat) : Nat := 2 ^ n

/-- `net.IPNet.Contains` for an IPv4 net `base/bits` -/
def netContains (base bits : Nat) (ip : IP) : Bool :=
  ip / pow2 (32 - bits) == base / pow2 (32 - bits)

def Subnet.contains (n : Subnet) (ip : IP) : Bool := netContains n.base n.bits ip

/-- `fipConf.IPNet().Contains(ip) && fipConf.Contains(ip)` -/
def Pool.contains (p : Pool) (ip : IP) : Bool :=
  netContains p.gateway p.bits ip && p.ranges.any (·.contains ip)

def poolOf (ps : List Pool) (ip : IP) : Option Pool := ps.find? (·.contains ip)

def configured (ps : List Pool) (ip : IP) : Bool := ps.any (·.contains ip)

/-- `fip.pool.nodeSubnets.Has(subnet)` -/
def hasSubnet (ps : List Pool) (ip : IP) (subnet : String) : Bool :=
  match poolOf ps ip with
  | some p => p.nodeSubnets.any (·.str == subnet)
  | none => false

/-- `sort.Sort(FloatingIPSlice)`: by gateway (insertion sort; what Go's sort does below 13 elements) -/
def insertPool (p : Pool) : List Pool → List Pool
  | [] => [p]
  | q :: t => if p.gateway < q.gateway then p :: q :: t else q :: insertPool p t

def sortPools (ps : List Pool) : List Pool := ps.foldl (fun acc p => insertPool p acc) []

/-! ### `walkConfiguredIPRanges`: the requested addresses which are configured, ascending

  For every requested range `r`, in request order: every configured range is clipped against `r` at BOTH ends (empty
  parts dropped), the parts are sorted ascending by first address (`sort.Slice`) and handed to `walkIPRanges`.
  The two shapes are regenerated facts; the other branches are the "optimised" variant which collects the overlapping
  configured ranges in pool order, clips only the outermost two ends and does not sort. -/

/-- one configured range clipped against the requested range `r` at both ends -/
def clipBoth (r : Range) (c : Range) : Option Range :=
  if max c.first r.first ≤ min c.last r.last then some { first := max c.first r.first, last := min c.last r.last } else none

/-- the variant: configured ranges overlapping `r`, as they are -/
def overlapping (r : Range) (c : Range) : Option Range :=
  if c.last < r.first ∨ r.last < c.first then none else some c

def clipFirstLower (r : Range) : List Range → List Range
  | [] => []
  | c :: t => (if c.first < r.first then { c with first := r.first } else c) :: t

def clipLastUpper (r : Range) : List Range → List Range
  | [] => []
  | [c] => [if r.last < c.last then { c with last := r.last } else c]
  | c :: t => c :: clipLastUpper r t

def insertRange (p : Range) : List Range → List Range
  | [] => [p]
  | q :: t => if p.first < q.first then p :: q :: t else q :: insertRange p t

/-- `sort.Slice(parts, first ascending)` (insertion sort; the order of equal keys does not matter below) -/
def sortRanges (l : List Range) : List Range := l.foldl (fun acc p => insertRange p acc) []

def confRanges (ps : List Pool) : List Range := ps.flatMap (·.ranges)

def partsOf (clampBoth sortAsc : Bool) (ps : List Pool) (r : Range) : List Range :=
  let parts := if clampBoth then (confRanges ps).filterMap (clipBoth r)
               else clipLastUpper r (clipFirstLower r ((confRanges ps).filterMap (overlapping r)))
  if sortAsc then sortRanges parts else parts

def walkConfiguredG (clampBoth sortAsc : Bool) (ps : List Pool) (rs : List Range) : List IP :=
  rs.flatMap (fun r => walk (partsOf clampBoth sortAsc ps r))

/-- the addresses `walkConfiguredIPRanges` visits, in order -/
def walkConfigured (ps : List Pool) (rs : List Range) : List IP :=
  walkConfiguredG Generated.Ipam.walkConfClampsBothEnds Generated.Ipam.walkConfSortsParts ps rs

/-- every address of every pool, the walk of the last loop of `ConfigurePool` -/
def poolAddrs (ps : List Pool) : List IP := ps.flatMap (fun p => walk p.ranges)

/-! ## the store (API server) with fault / crash plan -/

def Plan.failsAt (pl : Plan) (n : Nat) : Bool := pl.fails.contains n

def sCreate (pl : Plan) (n : Nat) (st : Store) (ip : IP) (r : Rec) : Store × Option Err :=
  if pl.crashBefore = some n then (st, some .crashed)
  else if pl.failsAt n then (st, some .injected)
  else match st.get ip with
    | some _ => (st, some .exists_)
    | none => if pl.crashAfter = some n then (st.set ip r, some .crashed) else (st.set ip r, none)

def sGet (pl : Plan) (n : Nat) (st : Store) (ip : IP) : Option Rec × Option Err :=
  if pl.crashBefore = some n then (none, some .crashed)
  else if pl.failsAt n then (none, some .injected)
  else match st.get ip with
    | none => (none, some .notFound)
    | some r => if pl.crashAfter = some n then (none, some .crashed) else (some r, none)

/-- `Update` of the fetched object after `assign`: key, policy, attribute, updateTime replaced; labels kept -/
def sUpdate (pl : Plan) (n : Nat) (st : Store) (ip : IP) (f : Rec → Rec) : Store × Option Err :=
  if pl.crashBefore = some n then (st, some .crashed)
  else if pl.failsAt n then (st, some .injected)
  else match st.get ip with
    | none => (st, some .notFound)
    | some r => if pl.crashAfter = some n then (st.set ip (f r), some .crashed) else (st.set ip (f r), none)

def sDelete (pl : Plan) (n : Nat) (st : Store) (ip : IP) : Store × Option Err :=
  if pl.crashBefore = some n then (st, some .crashed)
  else if pl.failsAt n then (st, some .injected)
  else match st.get ip with
    | none => (st, some .notFound)
    | some _ => if pl.crashAfter = some n then (st.erase ip, some .crashed) else (st.erase ip, none)

/-- `updateFloatingIP`: get (call n) then update (call n+1) -/
def sGetUpdate (pl : Plan) (n : Nat) (st : Store) (ip : IP) (f : Rec → Rec) : Store × Option Err :=
  match sGet pl n st ip with
  | (_, some e) => (st, some e)
  | (_, none) => sUpdate pl (n + 1) st ip f

def sList (pl : Plan) (n : Nat) : Option Err :=
  if pl.crashBefore = some n then some .crashed
  else if pl.failsAt n then some .injected
  else if pl.crashAfter = some n then some .crashed else none

/-! ## memory updates (`syncCacheAfterCreate`, `syncCacheAfterDel`, `Assign`) -/

def memAlloc (s : State) (ip : IP) (r : Rec) : State :=
  { s with alloc := s.alloc.set ip r, free := s.free.filter (· != ip) }

def memFree (s : State) (ip : IP) : State :=
  { s with alloc := s.alloc.erase ip, free := ip :: s.free.filter (· != ip) }

def mkRec (key : String) (a : Attr) (now : Nat) : Rec :=
  { key := key, policy := a.policy, node := a.node, uid := a.uid, reserved := false, ts := now }

/-- `Assign(key, attr, now)` on a record (labels untouched) -/
def assignRec (key : String) (a : Attr) (now : Nat) (r : Rec) : Rec :=
  { r with key := key, policy := a.policy, node := a.node, uid := a.uid, ts := now }

/-! ## results -/

structure Info where
  ip : IP
  bits : Nat
  gateway : IP
  vlan : Nat
  rc : Rec
  subnets : List String
  deriving DecidableEq, Repr, Inhabited

structure Out where
  err : Option Err := none
  ips : List IP := []                    -- allocated addresses (allocation moves)
  changed : Bool := false                -- ReserveIP's boolean
  deleted : List (IP × String) := []     -- ReleaseIPs
  undeleted : List (IP × String) := []   -- ReleaseIPs
  deriving Repr, Inhabited

def Out.ok : Out := {}
def Out.fail (e : Err) : Out := { err := some e }

/-! ## mutators -/

/-- `AllocateSpecificIP`, body under `cacheLock` (fact `allocateSpecificAtomic`). -/
def allocateSpecific (s : State) (key : String) (ip : IP) (a : Attr) (pl : Plan) : State × Out :=
  if ip ∈ s.free then
    match sCreate pl 0 s.store ip (mkRec key a s.clock) with
    | (st, some e) => ({ s with store := st }, .fail e)
    | (st, none) => ({ memAlloc s ip (mkRec key a s.clock) with store := st }, { ips := [ip] })
  else (s, .fail .mem)

/-- the pre-fix shape: lookup under RLock, then (after whatever `mid` does meanwhile) create and cache update
    without looking again.  Used only when fact `allocateSpecificAtomic` is false. -/
def allocateSpecificTwoStep (s : State) (key : String) (ip : IP) (a : Attr) (mid : State → State) (pl : Plan) :
    State × Out :=
  if ip ∈ s.free then
    match sCreate pl 0 (mid s).store ip (mkRec key a (mid s).clock) with
    | (st, some e) => ({ mid s with store := st }, .fail e)
    | (st, none) => ({ memAlloc (mid s) ip (mkRec key a (mid s).clock) with store := st }, { ips := [ip] })
  else (mid s, .fail .mem)

def allocateSpecificSched (atomic : Bool) (s : State) (key : String) (ip : IP) (a : Attr) (mid : State → State)
    (pl : Plan) : State × Out :=
  if atomic then allocateSpecific s key ip a pl else allocateSpecificTwoStep s key ip a mid pl

/-- which free address may the map iteration of `AllocateInSubnet` hand out -/
def admissibleInSubnet (s : State) (subnet : String) : Option IP → Bool
  | none => s.free.all (fun ip => !hasSubnet s.pools ip subnet)
  | some ip => decide (ip ∈ s.free) && hasSubnet s.pools ip subnet

/-- `AllocateInSubnet`; `choice` = the free address the loop met first (none: no candidate) -/
def allocateInSubnet (s : State) (key subnet : String) (a : Attr) (choice : Option IP) (pl : Plan) : State × Out :=
  match choice with
  | none => (s, .fail .noEnough)
  | some ip =>
    match sCreate pl 0 s.store ip (mkRec key a s.clock) with
    | (st, some e) => ({ s with store := st }, .fail e)
    | (st, none) => ({ memAlloc s ip (mkRec key a s.clock) with store := st }, { ips := [ip] })

/-- candidates of `AllocateInSubnetWithKey` -/
def withKeyCand (s : State) (old subnet : String) (ip : IP) : Bool :=
  match s.alloc.get ip with
  | some r => r.key == old && hasSubnet s.pools ip subnet && decide (0 < r.ts)
  | none => false

def tsOf (s : State) (ip : IP) : Nat := match s.alloc.get ip with | some r => r.ts | none => 0

def admissibleWithKey (s : State) (old subnet : String) : Option IP → Bool
  | none => s.alloc.keys.all (fun ip => !withKeyCand s old subnet ip)
  | some ip => withKeyCand s old subnet ip &&
      s.alloc.keys.all (fun j => !withKeyCand s old subnet j || decide (tsOf s j ≤ tsOf s ip))

/-- `AllocateInSubnetWithKey`; `choice` = the record with the latest UpdatedAt the loop settled on -/
def allocateInSubnetWithKey (s : State) (old new subnet : String) (a : Attr) (choice : Option IP) (pl : Plan) :
    State × Out :=
  match choice with
  | none => (s, .fail .mem)
  | some ip =>
    match s.alloc.get ip with
    | none => (s, .fail .mem)
    | some r =>
      match sGetUpdate pl 0 s.store ip (assignRec new a s.clock) with
      | (st, some e) => ({ s with store := st }, .fail e)
      | (st, none) => ({ s with store := st, alloc := s.alloc.set ip (assignRec new a s.clock r) }, { ips := [ip] })

/-- loop body of `ReserveIP` over the observed visiting order -/
def reserveLoop (now : Nat) (old new : String) (a : Attr) (pl : Plan) :
    List IP → Nat → State → Bool → State × Out
  | [], _, s, ch => (s, { changed := ch })
  | ip :: rest, n, s, ch =>
    match s.alloc.get ip with
    | none => reserveLoop now old new a pl rest n s ch
    | some r =>
      if r.key ≠ old then reserveLoop now old new a pl rest n s ch
      else if old = new ∧ r.uid = a.uid ∧ r.node = a.node then reserveLoop now old new a pl rest n s ch
      else
        match sGetUpdate pl n s.store ip (assignRec new { a with policy := r.policy } now) with
        | (st, some e) => ({ s with store := st }, .fail e)
        | (st, none) =>
          reserveLoop now old new a pl rest (n + 2)
            { s with store := st, alloc := s.alloc.set ip (assignRec new { a with policy := r.policy } now r) } true

def hasKey (s : State) (key : String) (ip : IP) : Bool :=
  match s.alloc.get ip with | some r => r.key == key | none => false

/-- `order` must enumerate exactly the records with key `old`, each once -/
def admissibleOrder (s : State) (old : String) (order : List IP) : Bool :=
  decide order.Nodup && order.all (hasKey s old) && s.alloc.keys.all (fun ip => !hasKey s old ip || order.contains ip)

def reserve (s : State) (old new : String) (a : Attr) (order : List IP) (pl : Plan) : State × Out :=
  reserveLoop s.clock old new a pl order 0 s false

/-- `UpdateAttr` -/
def updateAttr (s : State) (key : String) (ip : IP) (a : Attr) (pl : Plan) : State × Out :=
  match s.alloc.get ip with
  | none => (s, .fail .mem)
  | some r =>
    if r.key ≠ key then (s, .fail .mem)
    else
      match sGetUpdate pl 0 s.store ip (assignRec r.key a s.clock) with
      | (st, some e) => ({ s with store := st }, .fail e)
      | (st, none) => ({ s with store := st, alloc := s.alloc.set ip (assignRec r.key a s.clock r) }, .ok)

/-- `Release` -/
def release (s : State) (key : String) (ip : IP) (pl : Plan) : State × Out :=
  match s.alloc.get ip with
  | none => (s, .fail .mem)
  | some r =>
    if r.key ≠ key then (s, .fail .mem)
    else
      match sDelete pl 0 s.store ip with
      | (st, some e) => ({ s with store := st }, .fail e)
      | (st, none) => ({ memFree s ip with store := st }, .ok)

def setAssoc (l : List (IP × String)) (ip : IP) (k : String) : List (IP × String) :=
  l.map (fun p => if p.1 = ip then (ip, k) else p)

/-- loop of `ReleaseIPs` over the request in the order the map iteration produced it -/
def releaseLoop (pl : Plan) : List (IP × String) → Nat → State → List (IP × String) → List (IP × String) → State × Out
  | [], _, s, del, und => (s, { deleted := del, undeleted := und })
  | (ip, key) :: rest, n, s, del, und =>
    match s.alloc.get ip with
    | some r =>
      if r.key = key then
        match sDelete pl n s.store ip with
        | (st, some e) => ({ s with store := st }, { err := some e, deleted := del, undeleted := und })
        | (st, none) =>
          releaseLoop pl rest (n + 1) { memFree s ip with store := st } (del ++ [(ip, key)])
            (und.filter (fun p => p.1 != ip))
      else releaseLoop pl rest n s del (setAssoc und ip r.key)
    | none =>
      if ip ∈ s.free then releaseLoop pl rest n s del (setAssoc und ip "")
      else releaseLoop pl rest n s del und

def releaseIPs (s : State) (req : List (IP × String)) (pl : Plan) : State × Out :=
  if s.alloc.isEmpty then (s, { undeleted := req })
  else releaseLoop pl req 0 s [] req

/-- first pass of `AllocateInSubnetsAndIPRange`: one address per range list, first fit in walk order -/
def pickRanges (s : State) (subnet : String) : List (List Range) → List IP → Option (List IP)
  | [], picked => some picked
  | rs :: rest, picked =>
    match (walkConfigured s.pools rs).find? (fun ip => decide (ip ∈ s.free) && hasSubnet s.pools ip subnet && !picked.contains ip) with
    | none => none
    | some ip => pickRanges s subnet rest (picked ++ [ip])

/-- rollback loop: delete what was created.  Delete errors do not stop it; a delete which fails with anything but
    NotFound (in the model: an injected fault) leaves the object stored — its address is reported as `kept`.
    Only a crash stops the loop.  Result: store, kept addresses, crashed? -/
def rollback (pl : Plan) : List IP → Nat → Store → Store × List IP × Bool
  | [], _, st => (st, [], false)
  | ip :: rest, n, st =>
    if (sDelete pl n st ip).2 = some .crashed then ((sDelete pl n st ip).1, [], true)
    else
      ((rollback pl rest (n + 1) (sDelete pl n st ip).1).1,
       (if (sDelete pl n st ip).2 = some .injected then ip :: (rollback pl rest (n + 1) (sDelete pl n st ip).1).2.1
        else (rollback pl rest (n + 1) (sDelete pl n st ip).1).2.1),
       (rollback pl rest (n + 1) (sDelete pl n st ip).1).2.2)

/-- second pass: create all objects, roll back on the first failure (fact `rollbackOnCreateFailure`).
    Result: store, error, addresses whose rollback delete failed -/
def createAll (doRollback : Bool) (pl : Plan) (r : Rec) : List IP → List IP → Nat → Store → Store × Option Err × List IP
  | [], _, _, st => (st, none, [])
  | ip :: rest, done, n, st =>
    match sCreate pl n st ip r with
    | (st', none) => createAll doRollback pl r rest (done ++ [ip]) (n + 1) st'
    | (st', some e) =>
      if e = .crashed then (st', some .crashed, [])
      else if doRollback then
        (if (rollback pl done (n + 1) st').2.2 then ((rollback pl done (n + 1) st').1, some .crashed, [])
         else ((rollback pl done (n + 1) st').1, some e, (rollback pl done (n + 1) st').2.1))
      else (st', some e, [])

def memAllocAll (s : State) (r : Rec) : List IP → State
  | [] => s
  | ip :: rest => memAllocAll (memAlloc s ip r) r rest

/-- last part of `AllocateInSubnetsAndIPRange`: on success all picks enter the allocated table; on failure the
    addresses whose rollback delete failed do (fact `rollbackKeepsUndeletedInMemory`; before that fix: nothing) -/
def allocRangesFinish (keep : Bool) (s : State) (r : Rec) (picks : List IP) : Store × Option Err × List IP → State × Out
  | (st, some e, kept) => ({ (if keep then memAllocAll s r kept else s) with store := st }, .fail e)
  | (st, none, _) => ({ memAllocAll s r picks with store := st }, { ips := picks })

/-- `AllocateInSubnetsAndIPRange`; with no ranges it is `AllocateInSubnet` (which needs the choice) -/
def allocateInSubnetsAndRanges (s : State) (key subnet : String) (ranges : List (List Range)) (a : Attr)
    (choice : Option IP) (pl : Plan) : State × Out :=
  match ranges with
  | [] => allocateInSubnet s key subnet a choice pl
  | _ =>
    match pickRanges s subnet ranges [] with
    | none => (s, .fail .noEnough)
    | some picks =>
      allocRangesFinish Generated.Ipam.rollbackKeepsUndeletedInMemory s (mkRec key a s.clock) picks
        (createAll Generated.Ipam.rollbackOnCreateFailure pl (mkRec key a s.clock) picks [] 0 s.store)

/-! ## event handlers (no store call) -/

/-- `handleFIPAssign` for a labelled object -/
def fipAssignEvent (s : State) (e : Event) : State × Out :=
  match s.alloc.get e.ip with
  | some _ => (s, .fail .mem)
  | none =>
    if e.ip ∈ s.free then
      (memAlloc s e.ip { key := e.key, policy := e.policy, node := "", uid := "", reserved := true, ts := s.clock }, .ok)
    else (s, .fail .mem)

/-- `handleFIPUnassign` for a labelled object; `checks` = the cached record is only released if it still carries the
    `reserved` label (fact `unassignEventChecksReserved`; before that fix: whatever the cache held was released) -/
def fipUnassignEventG (checks : Bool) (s : State) (e : Event) : State × Out :=
  match s.alloc.get e.ip with
  | none => (s, .fail .mem)
  | some r => if checks && !r.reserved then (s, .fail .mem) else (memFree s e.ip, .ok)

def fipUnassignEvent (s : State) (e : Event) : State × Out :=
  fipUnassignEventG Generated.Ipam.unassignEventChecksReserved s e

/-! ## ConfigurePool -/

def keepConfigured (ps : List Pool) (st : Store) : Tbl IP Rec := st.filter (fun p => configured ps p.1)

/-- deletes of the stored objects outside the configuration; errors are logged and ignored -/
def deleteLoop (pl : Plan) : List IP → Nat → Store → Store × Bool
  | [], _, st => (st, false)
  | ip :: rest, n, st =>
    if (sDelete pl n st ip).2 = some .crashed then ((sDelete pl n st ip).1, true)
    else deleteLoop pl rest (n + 1) (sDelete pl n st ip).1

/-- `walkIPRanges` over every pool, keeping what is not allocated.  The extra `configured` filter is the identity for
    pools which passed `fipCheck` (every range inside the pod subnet, lemma `freshFree_wf`); it spares every theorem a
    well-formedness hypothesis on the configuration. -/
def freshFree (ps : List Pool) (alloc : Tbl IP Rec) : List IP :=
  (poolAddrs ps).filter (fun ip => configured ps ip && (alloc.get ip).isNone)

/-- what `fipCheck` guarantees: both ends of every range are inside the pod subnet -/
def wfPools (ps : List Pool) : Bool :=
  ps.all (fun p => p.ranges.all (fun r => netContains p.gateway p.bits r.first && netContains p.gateway p.bits r.last))

/-- the part of `ConfigurePool` after the list: `snapshot` is what the list returned, `s` the state the
    rebuild runs in (the same state when the list is taken under the lock) -/
def configurePoolApply (s : State) (pools : List Pool) (snapshot : Store) (order : List IP) (pl : Plan) : State × Out :=
  if (deleteLoop pl order 1 s.store).2 then ({ s with store := (deleteLoop pl order 1 s.store).1 }, .fail .crashed)
  else ({ s with pools := sortPools pools, alloc := keepConfigured (sortPools pools) snapshot,
                 free := freshFree (sortPools pools) (keepConfigured (sortPools pools) snapshot),
                 store := (deleteLoop pl order 1 s.store).1 }, .ok)

/-- `order` = the stored names outside the new configuration, in the order the list returned them -/
def admissibleDeletes (pools : List Pool) (snapshot : Store) (order : List IP) : Bool :=
  decide order.Nodup && order.all (fun ip => (snapshot.get ip).isSome && !configured (sortPools pools) ip) &&
    snapshot.keys.all (fun ip => configured (sortPools pools) ip || order.contains ip)

/-- `ConfigurePool` with the list under `cacheLock`: one atomic action -/
def configurePool (s : State) (pools : List Pool) (order : List IP) (pl : Plan) : State × Out :=
  match sList pl 0 with
  | some e => (s, .fail e)
  | none => configurePoolApply s pools s.store order pl

/-- the schedule-aware version: when the list is NOT under the lock (`underLock = false`) other operations
    (`mid`) run between the list and the rebuild -/
def configurePoolSched (underLock : Bool) (s : State) (pools : List Pool) (order : List IP) (mid : State → State)
    (pl : Plan) : State × Out :=
  if underLock then configurePool s pools order pl
  else
    match sList pl 0 with
    | some e => (mid s, .fail e)
    | none => configurePoolApply (mid s) pools s.store order pl

/-- the names a fault-free `ConfigurePool` deletes, in store order -/
def staleKeys (pools : List Pool) (st : Store) : List IP :=
  st.keys.filter (fun ip => !configured (sortPools pools) ip)

/-- process restart: fresh memory, fresh informer (no pending event), `ConfigurePool` of the same
    configuration from the store -/
def restart (s : State) : State :=
  (configurePool { s with alloc := [], free := [], pending := [] } s.pools (staleKeys s.pools s.store) {}).1

/-! ## queries -/

def toInfo (ps : List Pool) (ip : IP) (r : Rec) : Info :=
  match poolOf ps ip with
  | some p => { ip := ip, bits := p.bits, gateway := p.gateway, vlan := p.vlan, rc := r,
                subnets := p.nodeSubnets.map (·.str) }
  | none => { ip := ip, bits := 0, gateway := 0, vlan := 0, rc := r, subnets := [] }

def freeRec : Rec := { key := "", policy := 0, node := "", uid := "", reserved := false, ts := 0 }

/-- `ByPrefix`: allocated records whose key starts with the prefix; with the empty prefix also every free address -/
def byPrefix (s : State) (pre : String) : List Info :=
  (s.alloc.filter (fun p => pre.isPrefixOf p.2.key)).map (fun p => toInfo s.pools p.1 p.2) ++
    (if pre = "" then s.free.map (fun ip => toInfo s.pools ip freeRec) else [])

def isInfix (needle hay : List Char) : Bool :=
  match hay with
  | [] => needle.isEmpty
  | _ :: t => needle.isPrefixOf hay || isInfix needle t

/-- `ByKeyword` -/
def byKeyword (s : State) (kw : String) : List (IP × Rec) :=
  s.alloc.filter (fun p => isInfix kw.toList p.2.key.toList)

/-- `ByIP`: allocated record, else the free one, else the zero value -/
def byIP (s : State) (ip : IP) : Option Rec :=
  match s.alloc.get ip with
  | some r => some r
  | none => if ip ∈ s.free then some freeRec else none

/-- `First`: any record with the key (`choice` = the one returned) -/
def admissibleFirst (s : State) (key : String) : Option IP → Bool
  | none => s.alloc.keys.all (fun ip => !hasKey s key ip)
  | some ip => hasKey s key ip

def first (s : State) (_key : String) (choice : Option IP) : Option Info :=
  match choice with
  | none => none
  | some ip => match s.alloc.get ip with | some r => some (toInfo s.pools ip r) | none => none

/-- `ByKeyAndIPRanges` -/
def byKeyAndRanges (s : State) (key : String) (ranges : List (List Range)) : List (Option IP) :=
  match ranges with
  | [] => (s.alloc.keys.filter (hasKey s key)).map some
  | _ => ranges.map (fun rs => (walkConfigured s.pools rs).find? (hasKey s key))

/-- `NodeSubnet` -/
def nodeSubnet (s : State) (nodeIP : IP) : Option String :=
  (s.pools.flatMap (·.nodeSubnets)).find? (·.contains nodeIP) |>.map (·.str)

def subnetsOfPools (ps : List Pool) : List String := (ps.flatMap (·.nodeSubnets)).map (·.str)

/-- pools (as a sub-list of the configuration) having a free address among `ips` -/
def poolsWithFree (s : State) (ips : List IP) : List Pool :=
  s.pools.filter (fun p => ips.any (fun ip => decide (ip ∈ s.free) && (poolOf s.pools ip == some p)))

def nsbrLoop (seedFirstOnly : Bool) (s : State) : List (List Range) → Nat → List String → Option (List String)
  | [], _, acc => some acc
  | rs :: rest, i, acc =>
    let ps := poolsWithFree s (walkConfigured s.pools rs)
    if ps.isEmpty then none
    else
      let part := subnetsOfPools ps
      let seed := if seedFirstOnly then i == 0 else acc.isEmpty
      nsbrLoop seedFirstOnly s rest (i + 1) (if seed then part else acc.filter (part.contains ·))

/-- `NodeSubnetsByIPRanges` (as a set: the driver sorts and de-duplicates) -/
def nodeSubnetsByRanges (s : State) (ranges : List (List Range)) : List String :=
  match ranges with
  | [] => subnetsOfPools (poolsWithFree s s.free)
  | _ => (nsbrLoop Generated.Ipam.intersectionSeededOnFirstOnly s ranges 0 []).getD []

/-! ## moves and the step function -/

inductive Op where
  | configure (pools : List Pool) (order : List IP) (pl : Plan)
  | allocSpecific (key : String) (ip : IP) (a : Attr) (pl : Plan)
  | allocSubnet (key subnet : String) (a : Attr) (choice : Option IP) (pl : Plan)
  | allocWithKey (old new subnet : String) (a : Attr) (choice : Option IP) (pl : Plan)
  | allocRanges (key subnet : String) (ranges : List (List Range)) (a : Attr) (choice : Option IP) (pl : Plan)
  | reserve (old new : String) (a : Attr) (order : List IP) (pl : Plan)
  | updateAttr (key : String) (ip : IP) (a : Attr) (pl : Plan)
  | release (key : String) (ip : IP) (pl : Plan)
  | releaseIPs (req : List (IP × String)) (pl : Plan)
  | adminReserve (ip : IP) (key : String) (policy : Nat)
  | adminUnreserve (ip : IP)
  | deliver
  | restart
  deriving Repr, Inhabited

/-- admin creates a labelled FloatingIP object: store only (AlreadyExists if the name is taken) -/
def adminCreateReserved (s : State) (ip : IP) (key : String) (policy : Nat) : State × Out :=
  match s.store.get ip with
  | some _ => (s, .fail .exists_)
  | none => ({ s with store := s.store.set ip { key := key, policy := policy, node := "", uid := "", reserved := true, ts := 0 } }, .ok)

/-- admin deletes a labelled FloatingIP object -/
def adminDeleteReserved (s : State) (ip : IP) : State × Out :=
  match s.store.get ip with
  | some r => if r.reserved then ({ s with store := s.store.erase ip }, .ok) else (s, .fail .mem)
  | none => (s, .fail .notFound)

/-- deliver the oldest pending watch event -/
def deliver (s : State) : State × Out :=
  match s.pending with
  | [] => (s, .fail .mem)
  | e :: rest =>
    if e.assign then fipAssignEvent { s with pending := rest } e else fipUnassignEvent { s with pending := rest } e

def insertEvent (e : Event) : List Event → List Event
  | [] => [e]
  | f :: t => if e.ip < f.ip then e :: f :: t else f :: insertEvent e t

def sortEvents (l : List Event) : List Event := l.foldl (fun acc e => insertEvent e acc) []

def addEvent (ip : IP) (r : Rec) : Event := { assign := true, ip := ip, key := r.key, policy := r.policy }
def delEvent (ip : IP) (r : Rec) : Event := { assign := false, ip := ip, key := r.key, policy := r.policy }

/-- watch events caused by a change of the store: a labelled object appeared (add) or disappeared (delete),
    whoever did it; adds first, each group by ascending address (events of different addresses commute).
    (`get p.1 == some p.2`: only the visible binding of a name counts.) -/
def storeEvents (before after : Store) : List Event :=
  sortEvents (after.filterMap (fun p => if p.2.reserved && (after.get p.1 == some p.2) && (before.get p.1).isNone
      then some (addEvent p.1 p.2) else none)) ++
  sortEvents (before.filterMap (fun p => if p.2.reserved && (before.get p.1 == some p.2) && (after.get p.1).isNone
      then some (delEvent p.1 p.2) else none))

/-- is the observed choice one the code can make in this state -/
def Op.admissible (s : State) : Op → Bool
  | .configure pools order _ => admissibleDeletes pools s.store order
  | .allocSubnet _ subnet _ choice _ => admissibleInSubnet s subnet choice
  | .allocWithKey old _ subnet _ choice _ => admissibleWithKey s old subnet choice
  | .allocRanges _ subnet ranges _ choice _ => ranges != [] || admissibleInSubnet s subnet choice
  | .reserve old _ _ order _ => admissibleOrder s old order
  | .releaseIPs req _ => decide (req.map (·.1)).Nodup
  | _ => true

/-- the operation proper -/
def Op.run (s : State) : Op → State × Out
  | .configure pools order pl =>
      Ipam.configurePoolSched Generated.Ipam.configurePoolListsUnderLock s pools order id pl
  | .allocSpecific key ip a pl => Ipam.allocateSpecificSched Generated.Ipam.allocateSpecificAtomic s key ip a id pl
  | .allocSubnet key subnet a choice pl => Ipam.allocateInSubnet s key subnet a choice pl
  | .allocWithKey old new subnet a choice pl => Ipam.allocateInSubnetWithKey s old new subnet a choice pl
  | .allocRanges key subnet ranges a choice pl => Ipam.allocateInSubnetsAndRanges s key subnet ranges a choice pl
  | .reserve old new a order pl => Ipam.reserve s old new a order pl
  | .updateAttr key ip a pl => Ipam.updateAttr s key ip a pl
  | .release key ip pl => Ipam.release s key ip pl
  | .releaseIPs req pl => Ipam.releaseIPs s req pl
  | .adminReserve ip key policy => Ipam.adminCreateReserved s ip key policy
  | .adminUnreserve ip => Ipam.adminDeleteReserved s ip
  | .deliver => Ipam.deliver s
  | .restart => (Ipam.restart s, .ok)

/-- the process restarts if the crash plan fired -/
def afterCrash (r : State × Out) : State := if r.2.err = some .crashed then restart r.1 else r.1

/-- one move: the operation, the process restart if the crash plan fired, the watch events the store change
    causes, the clock tick -/
def step (s : State) (op : Op) : State × Out :=
  ({ afterCrash (op.run s) with
      pending := (afterCrash (op.run s)).pending ++ storeEvents s.store (afterCrash (op.run s)).store,
      clock := s.clock + 1 }, (op.run s).2)

def init : State := {}

def run (s : State) (ops : List Op) : State := ops.foldl (fun s op => (step s op).1) s

end Galaxy.Ipam
