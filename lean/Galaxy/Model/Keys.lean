/-
  M-keys: the allocation-key codec, the app-type tables, the paging arithmetic and the
  list/release key reconstruction of the ipam HTTP API (property C11).  Core Lean only.

  Strings are `List Char` (`Str`): Go's `strings.Split(key, "_")`, `SplitN(.., "_", 2)`,
  `HasPrefix` and `Sprintf("%s…")` are modelled on character lists by structural recursion, so that
  theorems hold for ALL strings (no length bound).  Every constant, format, case table and integer
  expression comes from `Galaxy.Generated.Keys`, which `tools/factgen/cmd/keys` rewrites from /repo
  on every check run.

  Code modelled (all in /repo):
    pkg/ipam/schedulerplugin/util/utils.go  FormatKey, resolveDeploymentName, NewKeyObj/genKey, PoolPrefix,
                                            PoolAppPrefix, ParseKey, resolvePodKey, GetAppTypePrefix, GetAppType
    pkg/utils/page/page.go                  ParsePage, ParseSize, paginationResult, pagin, Pagination
    pkg/ipam/api/api.go                     convert, the key ListIPs / ReleaseIPs build from an entry,
                                            checkReleasableAndStatus (as far as it decides about releasing)
    pkg/ipam/schedulerplugin/bind.go        Release (the (ip, key) match)
-/
import Galaxy.Model.Tbl
import Galaxy.Generated.Keys

namespace Galaxy.Keys
open Galaxy.Generated.Keys

abbrev Str := List Char

/-! ## string primitives -/

/-- ASCII case table of `strings.ToLower` (kinds are ASCII: CRD kinds must be DNS-1035 labels when lower-cased) -/
def caseTable : List (Char × Char) :=
  [('A','a'),('B','b'),('C','c'),('D','d'),('E','e'),('F','f'),('G','g'),('H','h'),('I','i'),('J','j'),
   ('K','k'),('L','l'),('M','m'),('N','n'),('O','o'),('P','p'),('Q','q'),('R','r'),('S','s'),('T','t'),
   ('U','u'),('V','v'),('W','w'),('X','x'),('Y','y'),('Z','z')]

def lookupChar : List (Char × Char) → Char → Option Char
  | [], _ => none
  | (a, b) :: t, c => if a = c then some b else lookupChar t c

def lowerChar (c : Char) : Char :=
  match lookupChar caseTable c with
  | some l => l
  | none => c

/-- `strings.ToLower` on ASCII -/
def lower (s : Str) : Str := s.map lowerChar

/-- association-list lookup with propositional equality on keys -/
def assoc : List (Str × Str) → Str → Option Str
  | [], _ => none
  | (a, b) :: t, k => if a = k then some b else assoc t k

/-- `strings.Split(s, c)` for a one-character separator: never empty, `n` separators give `n+1` parts -/
def splitOn (c : Char) : Str → List Str
  | [] => [[]]
  | x :: xs =>
    if x = c then [] :: splitOn c xs
    else match splitOn c xs with
      | [] => [[x]]
      | h :: t => (x :: h) :: t

/-- `strings.SplitN(s, c, 2)` when it yields two parts (text before / after the first separator); `none` = one part -/
def cut (c : Char) : Str → Option (Str × Str)
  | [] => none
  | x :: xs =>
    if x = c then some ([], xs)
    else match cut c xs with
      | some (a, b) => some (x :: a, b)
      | none => none

/-- `strings.HasPrefix(s, p)` together with `s[len(p):]` -/
def stripPrefix : Str → Str → Option Str
  | [], s => some s
  | _ :: _, [] => none
  | a :: p, b :: s => if a = b then stripPrefix p s else none

/-- `s[:strings.LastIndex(s, c)]`; `none` when `c` does not occur -/
def beforeLast (c : Char) : Str → Option Str
  | [] => none
  | x :: xs =>
    match beforeLast c xs with
    | some r => some (x :: r)
    | none => if x = c then some [] else none

/-! ## app-type tables -/

/-- `GetAppTypePrefix` over explicit tables (the real tables are the generated ones, see `getAppTypePrefix`) -/
def getAppTypePrefixT (exact lowerT : List (Str × Str)) (suffix : Str) (kind : Str) : Str :=
  match assoc exact kind with
  | some r => r
  | none =>
    match assoc lowerT (lower kind) with
    | some r => r
    | none => lower kind ++ suffix

/-- `util.GetAppTypePrefix` -/
def getAppTypePrefix (kind : Str) : Str :=
  getAppTypePrefixT appTypePrefixExact appTypePrefixLower appTypePrefixSuffix kind

/-- `util.GetAppType` -/
def getAppType (tp : Str) : Str :=
  match assoc appTypeTable tp with
  | some r => r
  | none => if tp.length > 0 then tp.take (tp.length - appTypeDrop) else []

/-! ## keys -/

/-- `util.KeyObj` -/
structure KeyObj where
  key : Str
  tp : Str
  ns : Str
  app : Str
  pod : Str
  pool : Str
  deriving DecidableEq, Repr

/-- `KeyObj.genKey` -/
def genKey (tp ns app pod pool : Str) : Str :=
  let pfx : Str := if pool ≠ [] then genKeyPoolPrefix pool else []
  if pool ≠ [] ∧ app = [] then pfx
  else if pool = [] ∧ app = [] ∧ ns = [] then []
  else genKeyFull pfx tp ns app pod

/-- `util.NewKeyObj(appTypePrefix, namespace, appName, podName, poolName)` -/
def newKeyObj (tp ns app pod pool : Str) : KeyObj :=
  { key := genKey tp ns app pod pool, tp := tp, ns := ns, app := app, pod := pod, pool := pool }

/-- `KeyObj.PoolPrefix()` -/
def poolPrefixOf (k : KeyObj) : Str :=
  if k.pool ≠ [] then poolPrefixPool k.pool else poolPrefixApp k.tp k.ns k.app

/-- `KeyObj.PoolAppPrefix()` -/
def poolAppPrefixOf (k : KeyObj) : Str :=
  if k.pool ≠ [] then poolAppPrefixPool k.pool k.tp k.ns k.app else poolPrefixOf k

/-- `util.resolvePodKey`: (appTypePrefix, appName, podName, namespace) -/
def resolvePodKey (key : Str) : Str × Str × Str × Str :=
  let parts := splitOn sep key
  if parts.length = partCount then
    (parts.getD resolveIdx.1 [] ++ resolveTypeSuffix, parts.getD resolveIdx.2.1 [],
     parts.getD resolveIdx.2.2.1 [], parts.getD resolveIdx.2.2.2 [])
  else ([], [], [], [])

/-- `util.ParseKey` -/
def parseKey (key : Str) : KeyObj :=
  match stripPrefix poolPrefix key with
  | some rest =>
    match cut sep rest with
    | none => { key := key, tp := [], ns := [], app := [], pod := [], pool := [] }
    | some (pool, rest') =>
      let r := resolvePodKey rest'
      { key := key, tp := r.1, app := r.2.1, pod := r.2.2.1, ns := r.2.2.2, pool := pool }
  | none =>
    let r := resolvePodKey key
    { key := key, tp := r.1, app := r.2.1, pod := r.2.2.1, ns := r.2.2.2, pool := [] }

/-! ## pods -/

structure Owner where
  kind : Str
  name : Str
  deriving DecidableEq, Repr

/-- what `FormatKey` reads of a pod: namespace, name, the value of the `eni-ip-pool` annotation ("" = none)
    and the owner references -/
structure Pod where
  ns : Str
  name : Str
  pool : Str
  owners : List Owner
  deriving DecidableEq, Repr

/-- `util.resolveDeploymentName` -/
def resolveDeploymentName (p : Pod) : Str :=
  match p.owners with
  | [o] =>
    if o.kind = kindReplicaSet then
      match beforeLast rsCut o.name with
      | none => o.name
      | some r => r
    else []
  | _ => []

/-- `util.FormatKey`; `none` = the error "unsupported app type" -/
def formatKey (p : Pod) : Option KeyObj :=
  match p.owners with
  | [] => some (newKeyObj noRefAppTypePrefix p.ns noRefAppName p.name p.pool)
  | o :: _ =>
    if o.kind = kindStatefulSet then some (newKeyObj stsPrefix p.ns o.name p.name p.pool)
    else if o.kind ≠ kindReplicaSet then some (newKeyObj (getAppTypePrefix o.kind) p.ns o.name p.name p.pool)
    else
      let d := resolveDeploymentName p
      if d = [] then none else some (newKeyObj dpPrefix p.ns d p.name p.pool)

/-! ## paging -/

/-- decimal digits to a number; `none` on a non-digit or the empty string -/
def digitsVal : Str → Nat → Option Nat
  | [], acc => some acc
  | c :: cs, acc =>
    if '0' ≤ c ∧ c ≤ '9' then digitsVal cs (acc * 10 + (c.toNat - '0'.toNat)) else none

/-- `strconv.Atoi` with a 64-bit `int`: optional sign, at least one digit, range error = error -/
def atoi (s : Str) : Option Int :=
  match s with
  | [] => none
  | '-' :: r =>
    if r = [] then none else
    match digitsVal r 0 with
    | some n => if n ≤ 2 ^ 63 then some (-(n : Int)) else none
    | none => none
  | '+' :: r =>
    if r = [] then none else
    match digitsVal r 0 with
    | some n => if n < 2 ^ 63 then some (n : Int) else none
    | none => none
  | _ =>
    match digitsVal s 0 with
    | some n => if n < 2 ^ 63 then some (n : Int) else none
    | none => none

/-- `page.ParsePage` -/
def parsePage (s : Str) : Int :=
  if s = [] then parsePageDefault else
  match atoi s with
  | none => parsePageOnError
  | some v => parsePageClamp v

/-- `page.ParseSize` -/
def parseSize (s : Str) : Int :=
  if s = [] then parseSizeDefault else
  match atoi s with
  | none => parseSizeOnError
  | some v => parseSizeClamp v

/-- `start` of `paginationResult(page, size, len)` -/
def pageStart (page size len : Int) : Int := (paginationResult page size len).1
/-- `end` of `paginationResult(page, size, len)` -/
def pageEnd (page size len : Int) : Int := (paginationResult page size len).2.1
/-- `Page.TotalPages` (depends on size and len only) -/
def totalPages (size len : Int) : Int := paginTotalPages 0 0 size len

/-- Go's `l[start:end]` for `0 ≤ start ≤ end ≤ len(l)` -/
def slice {α : Type} (l : List α) (s e : Int) : List α := (l.drop s.toNat).take (e.toNat - s.toNat)

/-- the page `ListIPs` returns: `fips[start:end]` -/
def pageSlice {α : Type} (l : List α) (page size : Int) : List α :=
  slice l (pageStart page size l.length) (pageEnd page size l.length)

/-- `page.Page` without the content -/
structure PageInfo where
  last : Bool
  first : Bool
  totalElements : Int
  totalPages : Int
  numberOfElements : Int
  size : Int
  number : Int
  deriving DecidableEq, Repr

/-- `page.Pagination(page, size, len)`: (start, end, page record) -/
def pagination (page size len : Int) : Int × Int × PageInfo :=
  let r := paginationResult page size len
  let s := r.1
  let e := r.2.1
  let sz := r.2.2
  (s, e, { last := paginLast s e sz len, first := paginFirst s e sz len,
           totalElements := paginTotalElements s e sz len, totalPages := paginTotalPages s e sz len,
           numberOfElements := paginNumberOfElements s e sz len, size := paginSize s e sz len,
           number := paginNumber s e sz len })

/-! ## the HTTP API: key → entry (list) and entry → key (release) -/

/-- the fields of `api.FloatingIP` that identify the owner; `ip` is the IPv4 address as a number -/
structure Entry where
  ip : Nat
  ns : Str
  app : Str
  pod : Str
  pool : Str
  appType : Str
  deriving DecidableEq, Repr

/-- `api.convert` -/
def convert (ip : Nat) (key : Str) : Entry :=
  let k := parseKey key
  { ip := ip, ns := k.ns, app := k.app, pod := k.pod, pool := k.pool, appType := getAppType k.tp }

/-- the app-type prefix `ReleaseIPs` / `ListIPs` derive from the `appType` field; `dflt` says whether the
    statefulset default for an omitted (empty) app type survives (`releaseDefaultsToSts`) -/
def apiPrefixWith (dflt : Bool) (appType : Str) : Str :=
  if dflt then (if appType = [] then stsPrefix else getAppTypePrefix appType) else getAppTypePrefix appType

/-- key reconstructed by `ReleaseIPs` from a posted entry, over an explicit default flag -/
def releaseKeyWith (dflt : Bool) (e : Entry) : Str :=
  (newKeyObj (apiPrefixWith dflt e.appType) e.ns e.app e.pod e.pool).key

/-- key reconstructed by `ReleaseIPs` from a posted entry -/
def releaseKey (e : Entry) : Str := releaseKeyWith releaseDefaultsToSts e

/-- prefix key `ListIPs` queries for (no keyword) -/
def listKey (appType ns app pod pool : Str) : Str :=
  (newKeyObj (apiPrefixWith listDefaultsToSts appType) ns app pod pool).key

/-- allocated records: ip ↦ key (records of unallocated ips are absent) -/
abbrev Alloc := Tbl Nat Str

inductive RelOut where
  | released      -- ip released
  | free          -- ip not allocated: reported as success, nothing changes
  | other         -- "ip allocated to another pod"
  | running       -- the pod is running
  | notReleasable -- the handler's pre-check refused (entry names nothing / pod still in the lister)
  deriving DecidableEq, Repr

/-- `FloatingIPPlugin.Release(ip, key)`; `running` is the outcome of `podRunning` for the request's pod.
    `releaseMatchesKey` (generated) says whether the `fip.Key != k.KeyInDB` guard is in place. -/
def apiRelease (a : Alloc) (running : Bool) (ip : Nat) (key : Str) : Alloc × RelOut :=
  match a.get ip with
  | none => (a, .free)
  | some k =>
    if releaseMatchesKey && decide (k ≠ key) then (a, .other)
    else if running then (a, .running)
    else (a.erase ip, .released)

/-- `checkReleasableAndStatus` on a posted entry (labels are not part of the posted JSON) -/
def releasable (e : Entry) (podInLister : Bool) : Bool :=
  if e.pod = [] ∧ e.app = [] ∧ e.pool = [] then false
  else if e.pod = [] then true
  else !podInLister

/-- one entry of a `ReleaseIPs` request -/
def releaseEntry (a : Alloc) (podInLister running : Entry → Bool) (e : Entry) : Alloc × RelOut :=
  if releasable e (podInLister e) then apiRelease a (running e) e.ip (releaseKey e) else (a, .notReleasable)

/-- a whole `ReleaseIPs` request (entries are processed in order) -/
def releaseAll (a : Alloc) (podInLister running : Entry → Bool) : List Entry → Alloc
  | [] => a
  | e :: es => releaseAll (releaseEntry a podInLister running e).1 podInLister running es

/-- the outcomes `ReleaseIPs` reports in its `unreleased` list -/
def RelOut.failed : RelOut → Bool
  | .released => false
  | .free => false
  | _ => true

/-- second loop of `ReleaseIPs`: the release requests built by the first loop are executed in order; the ips of
    the failed ones are collected -/
def releaseLoop (a : Alloc) (running : Entry → Bool) : List Entry → Alloc × List Nat
  | [] => (a, [])
  | e :: es =>
    let r := apiRelease a (running e) e.ip (releaseKey e)
    let rest := releaseLoop r.1 running es
    (rest.1, if r.2.failed then e.ip :: rest.2 else rest.2)

/-- the `ReleaseIPs` handler on a whole request as it is written: first loop = pre-check of every entry (the refused
    ones go to `unreleased` first), second loop = the releases; result = (allocation table, `unreleased` list) -/
def releaseRequest (a : Alloc) (podInLister running : Entry → Bool) (es : List Entry) : Alloc × List Nat :=
  let pre := es.filter (fun e => !releasable e (podInLister e))
  let r := releaseLoop a running (es.filter (fun e => releasable e (podInLister e)))
  (r.1, pre.map (·.ip) ++ r.2)

end Galaxy.Keys
