/-
  M4-C07: the pieces of the plugin model that property C07 ("a sized IP pool never grows beyond its size") needs on
  top of `Galaxy.Plugin` (M4-core, read-only here).  Core Lean only.

  * `Facts` / `facts`: the regenerated structural facts of `Galaxy.Generated.C07` (pool-lock discipline of Filter and
    of the pool API, counting rule, comparison, allocate-during-filter condition).  The functions below are
    PARAMETERISED by them; `Facts.good` is the shape the proofs are about.
  * `decide7` / `applyDecision`: `getSubnet` of the core model cut at the only place where another goroutine could
    get in between - after the count (`getAvailableSubnet`), before `allocateDuringFilter`.
    `getSubnet_split : getSubnet s pod ch = applyDecision s pod ch (decide7 Facts.good s pod ch)`.
  * `apiPool`: the pool API `POST /v1/pool` (`PoolController.CreateOrUpdate` + `preAllocateIP`) as an atomic move.
  * `step7` / `next7` / `run7`: the core moves (Filter through `filter7`) plus `apiPool`.
  * the interleaving model (`CState`, `CMove`, `cstep`): Filter and pre-allocation as two-phase actions
    (`begin` = take the pool lock + count, `finish` = allocate + unlock) with a lock table keyed by the STRINGS the
    two call sites pass to `LockDpPool` / `LockPoolFunc` (regenerated functions `filterLockKey` / `apiLockKey`); any
    other move may run between the two phases.  A phase that needs a held lock string is disabled.
-/
import Galaxy.Model.Plugin
import Galaxy.Generated.C07

namespace Galaxy.PluginC07
open Galaxy Galaxy.Plugin

/-! ## Facts -/

structure Facts where
  filterLocks : Bool                 -- getSubnet: pool lock taken before the count, held across the allocation
  preLocks : Bool                    -- preAllocateIP: pool lock taken before the count, held across the loop
  lockWired : Bool                   -- the API's LockPoolFunc IS the plugin's keyed LockDpPool, on the plugin's IPAM
  countsAllWhenSized : Bool          -- sized pool: every member that is not the bare prefix counts as used
  refusesWhenUsedGeSize : Bool       -- `usedCount >= replicas` refuses
  allocatesWhenReserveOrSized : Bool -- `(reserve || isPoolSizeDefined)` allocates during filter
deriving DecidableEq, Repr

/-- the facts as regenerated from the current source tree -/
def facts : Facts :=
  { filterLocks := Generated.C07.filterLocksBeforeCount && Generated.C07.filterHoldsAcrossAlloc &&
      Generated.C07.filterCountsLockedPrefix && Generated.C07.filterKeyIsPodKey
    preLocks := Generated.C07.preLocksBeforeCount && Generated.C07.preHoldsAcrossLoop &&
      Generated.C07.preCountsAndAllocatesLockedPrefix
    lockWired := Generated.C07.lockWired && Generated.C07.ipamShared && Generated.C07.lockDpPoolIsKeyedMutex
    countsAllWhenSized := Generated.C07.countsAllWhenSized
    refusesWhenUsedGeSize := Generated.C07.refusesWhenUsedGeSize
    allocatesWhenReserveOrSized := Generated.C07.allocatesWhenReserveOrSized &&
      Generated.C07.allocateDuringFilterShape && Generated.C07.sizeFromPoolObject }

/-- the shape the proofs are about -/
def Facts.good : Facts := ⟨true, true, true, true, true, true⟩

/-! ## The count -/

/-- the bare key `pool__P_` -/
def poolKey (P : String) : Key := ⟨P, "", "", "", ""⟩

/-- number of records whose key satisfies `m` -/
def cntp (m : Key → Bool) (t : Tbl IP Rec) : Nat := (t.filter (fun e => m e.2.key)).length

/-- `cnt s P`: number of allocated addresses whose key has the prefix `pool__P_` (= `len(ByPrefix("pool__P_"))`) -/
def cnt (s : State) (P : String) : Nat := countPrefix s (poolKey P)

/-! ## Filter, cut between count and allocation -/

/-- `getAvailableSubnet`, parameterised by the counting rule and the comparison -/
def getAvailableSubnet7 (G : Facts) (s : State) (k : Key) (policy replicas : Nat) (sized : Bool)
    (rss : List (List (Nat × Nat))) : Except String (List Subnet × Bool) :=
  let fallback : Except String (List Subnet × Bool) := .ok (nodeSubnetsByRanges s rss, false)
  if k.isDp && policy != 0 then
    if !rss.isEmpty then .error "bad-input"
    else
      let pre := k.poolPrefix
      let ips := s.alloc.filter (fun e => e.2.key.hasPrefix pre)
      let used := (ips.filter (fun e => e.2.key ≠ pre &&
        ((G.countsAllWhenSized && sized) || k.pool = "" || e.2.key.hasPrefix k.poolAppPrefix))).length
      let unused := (ips.filter (fun e => e.2.key = pre)).foldl (fun acc e => sunion acc (subnetsOf s.pools e.1)) []
      if (if G.refusesWhenUsedGeSize then used ≥ replicas else used > replicas) then .error "size-limit"
      else if !unused.isEmpty then .ok (unused, true)
      else fallback
  else fallback

/-- what `getSubnet` has decided when it reaches `allocateDuringFilter` -/
inductive Decision
  | fail (r : Res)                      -- an error (or an inadmissible choice): nothing is allocated
  | pass (set : List Subnet)            -- these node subnets, nothing is allocated
  | alloc (resv : Bool) (n : Subnet)    -- allocate in `n` (re-key a reserved record iff `resv`), answer `[n]`
deriving Repr, Inhabited

/-- (replicas, isPoolSizeDefined) as `getSubnet` reads them -/
def replicasOf (s : State) (pod : Pod) : Nat × Bool :=
  if (keyOf pod).isDp then getDpReplicas s (keyOf pod) else (0, false)

/-- second half of `getSubnet` up to the allocation -/
def decideCont (G : Facts) (s : State) (pod : Pod) (rss : List (List (Nat × Nat))) (hasAlloc : Bool)
    (allocated : List Subnet) : Decision :=
  if policyOf pod ≠ 0 ∧ !supportReserve (keyOf pod) (policyOf pod) then .fail (.err "policy-unsupported")
  else
    match getAvailableSubnet7 G s (keyOf pod) (policyOf pod) (replicasOf s pod).1 (replicasOf s pod).2 rss with
    | .error c => .fail (.err c)
    | .ok (set0, resv) =>
      if (resv || (G.allocatesWhenReserveOrSized && (replicasOf s pod).2)) &&
          !(if hasAlloc then sinter set0 allocated else set0).isEmpty then
        match sminStr (if hasAlloc then sinter set0 allocated else set0) with
        | none => .pass (if hasAlloc then sinter set0 allocated else set0)
        | some n => .alloc resv n
      else .pass (if hasAlloc then sinter set0 allocated else set0)

/-- `getSubnet(pod)` up to the allocation -/
def decide7 (G : Facts) (s : State) (pod : Pod) (ch : Choice) : Decision :=
  if pod.ranges.isEmpty then
    match byKeyAndRanges s (keyOf pod) pod.ranges with
    | [] => decideCont G s pod [] false []
    | infos =>
      match pickFirst infos ch.first with
      | none => .fail .inadmissible
      | some ip => .pass (subnetsOf s.pools ip)
  else if (unfoundRanges (byKeyAndRanges s (keyOf pod) pod.ranges) pod.ranges).isEmpty then
    .pass (allocatedSubnets s ((byKeyAndRanges s (keyOf pod) pod.ranges).filterMap id))
  else
    decideCont G s pod (unfoundRanges (byKeyAndRanges s (keyOf pod) pod.ranges) pod.ranges)
      (!((byKeyAndRanges s (keyOf pod) pod.ranges).filterMap id).isEmpty)
      (allocatedSubnets s ((byKeyAndRanges s (keyOf pod) pod.ranges).filterMap id))

/-- the attributes `allocateDuringFilter` stores -/
def filterAttr (pod : Pod) : Attr := { policy := policyOf pod, node := "", uid := pod.uid }

/-- the rest of `getSubnet`: `allocateDuringFilter` for an `alloc` decision -/
def applyDecision (s : State) (pod : Pod) (ch : Choice) : Decision → State × Except Res (List Subnet)
  | .fail r => (s, .error r)
  | .pass set => (s, .ok set)
  | .alloc resv n =>
    match (allocateDuringFilter s (keyOf pod) resv n (filterAttr pod) ch.pick).2 with
    | .ok => ((allocateDuringFilter s (keyOf pod) resv n (filterAttr pod) ch.pick).1, .ok [n])
    | e => ((allocateDuringFilter s (keyOf pod) resv n (filterAttr pod) ch.pick).1, .error e)

/-- the rest of `Filter` after `getSubnet`; `s0` is the state an inadmissible choice falls back to -/
def filterFinish (s0 : State) (nodes : List String) (g : State × Except Res (List Subnet)) : State × Out :=
  match g.2 with
  | .error .inadmissible => (s0, Out.bad)
  | .error e => (g.1, { res := e })
  | .ok set => ((filterNodes g.1 set nodes []).1, { nodes := (filterNodes g.1 set nodes []).2 })

/-- `Filter(pod, nodes)` with the facts as parameter -/
def filter7 (G : Facts) (s : State) (ns name : String) (nodes : List String) (ch : Choice) : State × Out :=
  match s.pods.get (ns, name) with
  | none => (s, Out.err "not-found")
  | some pod =>
    if !pod.wants then (s, { nodes := nodes })
    else filterFinish s nodes (applyDecision s pod ch (decide7 G s pod ch))

/-! ## The pool API: `CreateOrUpdate` + `preAllocateIP` -/

inductive PreRes
  | ok                     -- 200
  | short                  -- 202 "No enough IPs"
  | err (c : String)       -- 500
  | inadmissible
deriving DecidableEq, Repr, Inhabited

structure PreOut where
  res : PreRes := .ok
  real : Nat := 0          -- RealPoolSize of the answer (0 when the answer carries none)
deriving DecidableEq, Repr, Inhabited

/-- attributes of a pre-allocated record: `floatingip.Attr{Policy: constant.ReleasePolicyNever}` -/
def preAttr : Attr := { policy := Generated.Plugin.releasePolicyNever }

/-- `AllocateInSubnet` would answer ErrNoEnoughIP for this subnet -/
def exhausted (s : State) (n : Subnet) : Bool := (s.free.filter (fun ip => hasSubnet s ip n)).isEmpty

/-- the allocation loop of `preAllocateIP`: `need` more addresses, walking the subnets in the order of
    `subnetSet.UnsortedList()`; `picks` = the addresses `AllocateInSubnet` took, in order.
    Answers (state, result, number allocated). -/
def preLoop (pre : Key) : Nat → State → List Subnet → List IP → Nat → State × PreRes × Nat
  | 0, s, _, picks, done => if picks.isEmpty then (s, .ok, done) else (s, .inadmissible, done)
  | need + 1, s, subs, picks, done =>
    match subs.dropWhile (exhausted s) with
    | [] => if picks.isEmpty then (s, .short, done) else (s, .inadmissible, done)
    | n :: rest =>
      match picks with
      | [] => (s, .inadmissible, done)
      | ip :: ps =>
        match (allocateInSubnet s pre n preAttr (some ip)).2 with
        | .ok => preLoop pre need (allocateInSubnet s pre n preAttr (some ip)).1 (n :: rest) ps (done + 1)
        | .inadmissible => (s, .inadmissible, done)
        | .err c => ((allocateInSubnet s pre n preAttr (some ip)).1, .err c, done)

/-- two duplicate-free lists with the same elements -/
def samePerm (a b : List Subnet) : Bool := a.length == b.length && a.all b.contains && b.all a.contains

/-- the part of `preAllocateIP` after the count: `have_` = `len(fips)` counted under the lock -/
def preFinish (s : State) (name : String) (size have_ : Nat) (order : List Subnet) (picks : List IP) : State × PreOut :=
  if (nodeSubnetsByRanges s []).isEmpty then (s, { res := .short, real := have_ })
  else if size ≤ have_ then
    (if picks.isEmpty then (s, { res := .ok, real := have_ }) else (s, { res := .inadmissible }))
  else if !samePerm order (nodeSubnetsByRanges s []) then (s, { res := .inadmissible })
  else
    match (preLoop (poolKey name) (size - have_) s order picks 0).2.1 with
    | .ok => ((preLoop (poolKey name) (size - have_) s order picks 0).1, { res := .ok, real := size })
    | .short => ((preLoop (poolKey name) (size - have_) s order picks 0).1,
        { res := .short, real := have_ + (preLoop (poolKey name) (size - have_) s order picks 0).2.2 })
    | .err c => ((preLoop (poolKey name) (size - have_) s order picks 0).1, { res := .err c })
    | .inadmissible => (s, { res := .inadmissible })

/-- `CreateOrUpdate`: write the Pool object (API truth) -/
def setPoolObj (s : State) (name : String) (size : Nat) : State := { s with poolObjs := s.poolObjs.set name size }

/-- `POST /v1/pool {name,size,preAllocateIP}` as one atomic move.  `fault` = index of the FloatingIP store call that
    fails (the Pool object calls are not numbered). -/
def apiPool (s : State) (name : String) (size : Nat) (pre : Bool) (order : List Subnet) (picks : List IP)
    (fault : Nat) : State × PreOut :=
  if name = "" then (s, { res := .err "bad-input" })
  else if !pre then (setPoolObj (withFaults s fault 0) name size, {})
  else
    match (preFinish (setPoolObj (withFaults s fault 0) name size) name size
        (cnt (setPoolObj (withFaults s fault 0) name size) name) order picks).2.res with
    | .inadmissible => (s, { res := .inadmissible })
    | _ => preFinish (setPoolObj (withFaults s fault 0) name size) name size
        (cnt (setPoolObj (withFaults s fault 0) name size) name) order picks

/-! ## Moves -/

inductive Move7
  | base (m : Move)
  | apiPool (name : String) (size : Nat) (pre : Bool) (order : List Subnet) (picks : List IP) (fault : Nat)
deriving Repr, Inhabited

/-- the core `step`, Filter going through `filter7` -/
def stepB (G : Facts) (F : Plugin.Facts) (s : State) : Move → State × Out
  | .filter ns name nodes ch fault => filter7 G (withFaults s fault 0) ns name nodes ch
  | m => step F s m

def nextB (G : Facts) (F : Plugin.Facts) (s : State) (m : Move) : State :=
  match (stepB G F s m).2.res with
  | .inadmissible => s
  | _ => (stepB G F s m).1

def next7 (G : Facts) (F : Plugin.Facts) (s : State) : Move7 → State
  | .base m => nextB G F s m
  | .apiPool name size pre order picks fault => (apiPool s name size pre order picks fault).1

def run7 (G : Facts) (F : Plugin.Facts) (s : State) (ms : List Move7) : State := ms.foldl (next7 G F) s

/-! ## Interleavings: two-phase actions under the keyed pool lock -/

/-- the string `getSubnet` passes to `LockDpPool` for this pod (deployment pods only), if it locks at all -/
def filterLockOf (G : Facts) (pod : Pod) : Option String :=
  if (keyOf pod).isDp && G.filterLocks then
    some (Generated.C07.filterLockKey (keyOf pod).pool (keyOf pod).typ (keyOf pod).ns (keyOf pod).app)
  else none

/-- the string `preAllocateIP` passes to `LockPoolFunc`, if that is the plugin's lock at all -/
def apiLockOf (G : Facts) (name : String) : Option String :=
  if G.preLocks && G.lockWired then some (Generated.C07.apiLockKey name) else none

inductive Act
  | filt (pod : Pod) (nodes : List String) (ch : Choice) (seen : Option Nat) (d : Decision)
  | pre (name : String) (size have_ : Nat)
deriving Repr, Inhabited

/-- an action that has counted and not yet allocated -/
structure Pending where
  lock : Option String      -- the lock string it holds
  pool : String             -- the pool it works on ("" = none)
  act : Act
deriving Repr, Inhabited

structure CState where
  base : State
  pend : List Pending := []
deriving Repr, Inhabited

/-- nobody holds this lock string (`none` = the code takes no lock: never blocked) -/
def lockFree (cs : CState) : Option String → Bool
  | none => true
  | some l => cs.pend.all (fun p => p.lock != some l)

inductive CMove
  | plain (m : Move7)                                              -- a whole move, atomically
  | filterBegin (ns name : String) (nodes : List String) (ch : Choice)   -- Filter up to (excluding) allocateDuringFilter
  | preBegin (name : String) (size : Nat)                          -- pool API: Pool object written, lock taken, counted
  | finish (j : Nat) (order : List Subnet) (picks : List IP)       -- second phase of pending action `j`
deriving Repr, Inhabited

/-- the pod whose `getSubnet` an atomic core move runs: Filter after the resource-name check, Preempt for a pod whose
    policy is not "release on delete" (`preempt.go` returns before `getSubnet` otherwise) -/
def subnetPod (s : State) : Move → Option Pod
  | .filter ns name _ _ _ =>
    match s.pods.get (ns, name) with
    | some pod => if pod.wants then some pod else none
    | none => none
  | .preempt ns name _ _ _ =>
    match s.pods.get (ns, name) with
    | some pod => if policyOf pod = 0 then none else some pod
    | none => none
  | _ => none

/-- the lock string an atomic move needs (`getSubnet` takes the pool lock whoever calls it) -/
def lockOfMove (G : Facts) (s : State) : Move7 → Option String
  | .base m =>
    match subnetPod s m with
    | some pod => filterLockOf G pod
    | none => none
  | .apiPool name _ pre _ _ _ => if pre then apiLockOf G name else none

/-- the size a Filter of this pod reads from the Pool lister -/
def seenSize (s : State) (pod : Pod) : Option Nat :=
  if (keyOf pod).isDp && (keyOf pod).pool ≠ "" then s.vPoolObjs.get (keyOf pod).pool else none

def cstep (G : Facts) (F : Plugin.Facts) (cs : CState) : CMove → CState
  | .plain m => if lockFree cs (lockOfMove G cs.base m) then { cs with base := next7 G F cs.base m } else cs
  | .filterBegin ns name nodes ch =>
    match cs.base.pods.get (ns, name) with
    | none => cs
    | some pod =>
      if !pod.wants then cs
      else if !lockFree cs (filterLockOf G pod) then cs
      else { cs with pend := cs.pend ++ [Pending.mk (filterLockOf G pod) (keyOf pod).pool
               (.filt pod nodes ch (seenSize cs.base pod) (decide7 G cs.base pod ch))] }
  | .preBegin name size =>
    if name = "" then cs
    else if !lockFree cs (apiLockOf G name) then cs
    else { base := setPoolObj cs.base name size,
           pend := cs.pend ++ [Pending.mk (apiLockOf G name) name
             (.pre name size (cnt (setPoolObj cs.base name size) name))] }
  | .finish j order picks =>
    match cs.pend[j]? with
    | none => cs
    | some p =>
      match p.act with
      | .filt pod nodes ch _ d =>
        match (filterFinish (withFaults cs.base 0 0) nodes (applyDecision (withFaults cs.base 0 0) pod ch d)).2.res with
        | .inadmissible => cs
        | _ =>
          { base := (filterFinish (withFaults cs.base 0 0) nodes (applyDecision (withFaults cs.base 0 0) pod ch d)).1,
            pend := cs.pend.eraseIdx j }
      | .pre name size have_ =>
        match (preFinish (withFaults cs.base 0 0) name size have_ order picks).2.res with
        | .inadmissible => cs
        | _ => { base := (preFinish (withFaults cs.base 0 0) name size have_ order picks).1, pend := cs.pend.eraseIdx j }

def crun (G : Facts) (F : Plugin.Facts) (cs : CState) (ms : List CMove) : CState := ms.foldl (cstep G F) cs

def cinit (c : Conf) : CState := { base := init c }

end Galaxy.PluginC07
