/-
  Association-list tables used by every stateful model (core Lean only).
  A table is a `List (κ × α)`; all reasoning goes through `get`, never through
  the list shape, so no sortedness / Nodup invariant is needed for lookups:
  `set` replaces in place or appends, `erase` removes every binding of the key.
-/
namespace Galaxy

abbrev Tbl (κ : Type) (α : Type) := List (κ × α)

namespace Tbl
variable {κ α : Type} [DecidableEq κ]

def get : Tbl κ α → κ → Option α
  | [], _ => none
  | (k', v) :: t, k => if k' = k then some v else get t k

def erase : Tbl κ α → κ → Tbl κ α
  | [], _ => []
  | (k', v) :: t, k => if k' = k then erase t k else (k', v) :: erase t k

def set (t : Tbl κ α) (k : κ) (v : α) : Tbl κ α := (k, v) :: erase t k

def has (t : Tbl κ α) (k : κ) : Bool := (get t k).isSome

def keys (t : Tbl κ α) : List κ := t.map (·.1)

def vals (t : Tbl κ α) : List α := t.map (·.2)

@[simp] theorem get_nil (k : κ) : get ([] : Tbl κ α) k = none := rfl

@[simp] theorem get_erase_self (t : Tbl κ α) (k : κ) : get (erase t k) k = none := by
  induction t with
  | nil => rfl
  | cons p t ih =>
    obtain ⟨k', v⟩ := p
    by_cases h : k' = k <;> simp [erase, get, h, ih]

@[simp] theorem get_erase_ne (t : Tbl κ α) {k k' : κ} (h : k' ≠ k) :
    get (erase t k') k = get t k := by
  induction t with
  | nil => rfl
  | cons p t ih =>
    obtain ⟨k₀, v⟩ := p
    by_cases h1 : k₀ = k' <;> by_cases h2 : k₀ = k <;> simp_all [erase, get]

@[simp] theorem get_set_self (t : Tbl κ α) (k : κ) (v : α) : get (set t k v) k = some v := by
  simp [set, get]

@[simp] theorem get_set_ne (t : Tbl κ α) {k k' : κ} (v : α) (h : k' ≠ k) :
    get (set t k' v) k = get t k := by
  simp [set, get, h]

theorem get_set (t : Tbl κ α) (k k' : κ) (v : α) :
    get (set t k' v) k = if k' = k then some v else get t k := by
  by_cases h : k' = k
  · subst h; simp
  · simp [h]

theorem get_erase (t : Tbl κ α) (k k' : κ) :
    get (erase t k') k = if k' = k then none else get t k := by
  by_cases h : k' = k
  · subst h; simp
  · simp [h]

theorem mem_keys_of_get {t : Tbl κ α} {k : κ} {v : α} (h : get t k = some v) : k ∈ keys t := by
  induction t with
  | nil => simp [get] at h
  | cons p t ih =>
    obtain ⟨k', v'⟩ := p
    by_cases hk : k' = k
    · subst hk; simp [keys]
    · simp [get, hk] at h
      have := ih h
      simp [keys] at this ⊢; exact Or.inr this

theorem get_isSome_of_mem_keys {t : Tbl κ α} {k : κ} (h : k ∈ keys t) : (get t k).isSome := by
  induction t with
  | nil => simp [keys] at h
  | cons p t ih =>
    obtain ⟨k', v'⟩ := p
    by_cases hk : k' = k
    · simp [get, hk]
    · have h' : k ∈ keys t := by
        have : k = k' ∨ k ∈ keys t := by simpa [keys] using h
        rcases this with h1 | h1
        · exact absurd h1.symm hk
        · exact h1
      simp [get, hk]; exact ih h'

theorem get_mem {t : Tbl κ α} {k : κ} {v : α} (h : get t k = some v) : (k, v) ∈ t := by
  induction t with
  | nil => simp [get] at h
  | cons p t ih =>
    obtain ⟨k', v'⟩ := p
    by_cases hk : k' = k
    · simp [get, hk] at h; subst hk; subst h; simp
    · simp [get, hk] at h; exact List.mem_cons_of_mem _ (ih h)

/-- first-binding-wins deduplication (what `get` sees) -/
def dedup : Tbl κ α → Tbl κ α
  | [] => []
  | (k, v) :: t => (k, v) :: erase (dedup t) k

end Tbl
end Galaxy
