/-
  M2 `Pool`: the floating-IP pool configuration decoder / encoder of
  pkg/ipam/floatingip/floatingip.go (`FloatingIPPool.UnmarshalJSON`, `fipCheck`,
  `MarshalJSON`, `Contains`, `SparseSubnet.Size`), the order `ConfigurePool`
  sorts pools in, and a tiny model of `ensureIPAMConf` (reload).  Core Lean only.

  `RawPool` is what `encoding/json` hands to the decoder, field by field
  (`FloatingIPPoolConf`): JSON syntax, key matching and escapes are NOT modelled
  (the harness lowers a JSON document to a `RawPool` and checks that lowering
  against the real decoder on every case).
-/
import Galaxy.Model.Nets

namespace Galaxy.Pool
open Galaxy.Nets Galaxy.Generated.Nets

/-- One JSON field / array element as the decoder sees it.
    `absent`: key missing or JSON `null`; `bad`: a JSON value of a kind `encoding/json` cannot store in the
    Go field (it records an `UnmarshalTypeError`, the decode fails); `val`: a storable value. -/
inductive Fld (α : Type) where
  | absent
  | bad
  | val (a : α)
deriving DecidableEq, Repr

/-- The fields of `FloatingIPPoolConf`.  Fields of type `*nets.IPNet` carry the RAW JSON token (including the
    quotes) because `nets.IPNet.UnmarshalJSON` strips the first and the last byte itself; the other strings are
    the unescaped JSON strings. -/
structure RawPool where
  /-- `nodeSubnets`: `absent` / `bad` (not an array) / the elements: `none` = `null`, `some tok` = raw token -/
  nodeSubnets : Fld (List (Option (List Char)))
  /-- `routableSubnet` (deprecated): `none` = missing or `null`, else the raw token -/
  routableSubnet : Option (List Char)
  /-- `ips`: elements `absent` = `null` (stored as the empty string), `bad` = not a string -/
  ips : Fld (List (Fld (List Char)))
  /-- `subnet`: `none` = missing or `null`, else the raw token -/
  subnet : Option (List Char)
  /-- `gateway`: `bad` = a JSON value which is neither a string nor `null` -/
  gateway : Fld (List Char)
  /-- `vlan`: `val n` = a JSON number written with digits only; everything else which is not `null` is `bad` -/
  vlan : Fld Nat
deriving DecidableEq, Repr

/-- `FloatingIPPool` after a successful decode. -/
structure Pool where
  /-- `NodeSubnets`: masked network number and prefix length, without duplicates, in configuration order -/
  nodeSubnets : List Cidr
  gateway : IPv4
  /-- `Mask` = `net.CIDRMask(prefixLen, 32)` -/
  prefixLen : Nat
  vlan : Nat
  ranges : List Range
deriving DecidableEq, Repr

/-- Reject classes (the correspondence compares only accept / reject). -/
inductive Err where
  | json          -- encoding/json failed: wrong JSON kind, bad CIDR / IP text inside a field, vlan overflow
  | noNodeSubnet  -- "node subnet is empty"
  | nullNodeSubnet
  | noGateway
  | noSubnet
  | badRange      -- "invalid ip range"
  | notInSubnet
  | adjacency     -- "can be merge to one or has wrong order"
  | nullPool      -- ensureIPAMConf: null element of the pool list
  | store         -- ensureIPAMConf: ConfigurePool returned an error (store list failed)
deriving DecidableEq, Repr

instance {ε α : Type} [DecidableEq ε] [DecidableEq α] : DecidableEq (Except ε α)
  | .ok a, .ok b => if h : a = b then isTrue (h ▸ rfl) else isFalse (fun e => h (Except.ok.inj e))
  | .error a, .error b => if h : a = b then isTrue (h ▸ rfl) else isFalse (fun e => h (Except.error.inj e))
  | .ok _, .error _ => isFalse (fun e => nomatch e)
  | .error _, .ok _ => isFalse (fun e => nomatch e)

/-- `nets.IPNet.UnmarshalJSON`: `len(data) < 3` is an error, then `net.ParseCIDR(data[1:len(data)-1])`. -/
def parseCidrToken (tok : List Char) : Option Cidr :=
  if tok.length < 3 then none else parseCidr (tok.drop 1).dropLast

def cidrToken (c : Cidr) : List Char := '"' :: (showCidr c ++ ['"'])

/-- The subnet a pool's addresses must lie in: `net.IPNet{IP: Gateway, Mask}.Contains(ip)`. -/
def inSubnet (gateway : IPv4) (prefixLen : Nat) (ip : IPv4) : Bool :=
  maskIP ip prefixLen == maskIP gateway prefixLen

def Pool.inSubnet (p : Pool) (ip : IPv4) : Bool := Galaxy.Pool.inSubnet p.gateway p.prefixLen ip

/-- `SparseSubnet.IPNet()`: the pool's subnet, `Gateway.Mask(Mask)` / prefix length. -/
def Pool.subnet (p : Pool) : Cidr := (maskIP p.gateway p.prefixLen, p.prefixLen)

/-- The loop of `fipCheck`; `prev` = `Last` of the previous range (`none` for `i = 0`);
    `adj first prevLast` = the adjacency comparison (true = reject). -/
def fipCheckFrom (adj : IPv4 → IPv4 → Bool) (inS : IPv4 → Bool) : Option IPv4 → List Range → Except Err Unit
  | _, [] => .ok ()
  | prev, r :: rs =>
    if !(inS r.first) || !(inS r.last) then .error .notInSubnet
    else
      match prev with
      | some pl => if adj r.first pl then .error .adjacency else fipCheckFrom adj inS (some r.last) rs
      | none => fipCheckFrom adj inS (some r.last) rs

/-- De-duplication of the node subnets through the map keyed by `ipNet.String()`: first occurrence wins. -/
def dedup (l : List Cidr) : List Cidr :=
  l.foldl (fun acc x => if x ∈ acc then acc else acc ++ [x]) []

def maskCidr (c : Cidr) : Cidr := (maskIP c.1 c.2, c.2)

/-- all elements `some`, else `none` -/
def allSome {α : Type} : List (Option α) → Option (List α)
  | [] => some []
  | none :: _ => none
  | some a :: t => match allSome t with
    | some l => some (a :: l)
    | none => none

/-- `encoding/json` phase for `nodeSubnets`: every non-null element must be a CIDR token.
    Result: per element `none` (null) or the parsed CIDR. -/
def jsonNodeSubnets : List (Option (List Char)) → Option (List (Option Cidr))
  | [] => some []
  | none :: t => match jsonNodeSubnets t with
    | some l => some (none :: l)
    | none => none
  | some tok :: t =>
    match parseCidrToken tok, jsonNodeSubnets t with
    | some c, some l => some (some c :: l)
    | _, _ => none

/-- `encoding/json` phase for `ips []string`: `null` leaves "", a non-string is an error. -/
def jsonIPs : List (Fld (List Char)) → Option (List (List Char))
  | [] => some []
  | .absent :: t => match jsonIPs t with
    | some l => some ([] :: l)
    | none => none
  | .bad :: _ => none
  | .val s :: t => match jsonIPs t with
    | some l => some (s :: l)
    | none => none

/-- `FloatingIPPoolConf` after `json.Unmarshal(data, &conf)` succeeded. -/
structure Conf where
  nodeSubnets : List (Option Cidr)
  routableSubnet : Option Cidr
  ips : List (List Char)
  subnet : Option Cidr
  gateway : Option IPv4
  vlan : Nat
deriving DecidableEq, Repr

def jsonNodeSubnetsFld : Fld (List (Option (List Char))) → Option (List (Option Cidr))
  | .absent => some []
  | .bad => none
  | .val l => jsonNodeSubnets l

/-- a `*nets.IPNet` field: `null` / missing leaves the pointer nil, anything else goes through `UnmarshalJSON` -/
def jsonCidrOpt : Option (List Char) → Option (Option Cidr)
  | none => some none
  | some tok => match parseCidrToken tok with
    | some c => some (some c)
    | none => none

def jsonIPsFld : Fld (List (Fld (List Char))) → Option (List (List Char))
  | .absent => some []
  | .bad => none
  | .val l => jsonIPs l

/-- `net.IP.UnmarshalText`: the empty string gives a nil IP, anything else must parse -/
def jsonGateway : Fld (List Char) → Option (Option IPv4)
  | .absent => some none
  | .bad => none
  | .val [] => some none
  | .val (c :: cs) => match parseIPv4 (c :: cs) with
    | some ip => some (some ip)
    | none => none

def jsonVlan : Fld Nat → Option Nat
  | .absent => some 0
  | .bad => none
  | .val n => if n < 2 ^ vlanBits then some n else none

/-- `json.Unmarshal(data, &conf)` on the lowered document. -/
def jsonConf (raw : RawPool) : Option Conf :=
  match jsonNodeSubnetsFld raw.nodeSubnets, jsonCidrOpt raw.routableSubnet, jsonIPsFld raw.ips,
        jsonCidrOpt raw.subnet, jsonGateway raw.gateway, jsonVlan raw.vlan with
  | some ns, some rs, some ips, some sn, some gw, some vl =>
    some { nodeSubnets := ns, routableSubnet := rs, ips := ips, subnet := sn, gateway := gw, vlan := vl }
  | _, _, _, _, _, _ => none

/-- The node-subnet part of `UnmarshalJSON`: the deprecated `routableSubnet` wins, otherwise every element must be
    non-null; subnets are masked and de-duplicated. -/
def nodeSubnetsOf (c : Conf) : Except Err (List Cidr) :=
  if c.routableSubnet.isNone && c.nodeSubnets.length == 0 then .error .noNodeSubnet
  else match c.routableSubnet with
    | some rs => .ok [maskCidr rs]
    | none => match allSome c.nodeSubnets with
      | none => .error .nullNodeSubnet
      | some l => .ok (dedup (l.map maskCidr))

/-- The body of `FloatingIPPool.UnmarshalJSON` after the json decode, ending with `fipCheck`. -/
def buildPool (adj : IPv4 → IPv4 → Bool) (c : Conf) : Except Err Pool :=
  match nodeSubnetsOf c with
  | .error e => .error e
  | .ok ns =>
  match c.gateway with
  | none => .error .noGateway
  | some gw =>
  match c.subnet with
  | none => .error .noSubnet
  | some sn =>
  match allSome (c.ips.map parseRange) with
  | none => .error .badRange
  | some ranges =>
  match fipCheckFrom adj (inSubnet gw sn.2) none ranges with
  | .error e => .error e
  | .ok () => .ok { nodeSubnets := ns, gateway := gw, prefixLen := sn.2, vlan := c.vlan, ranges := ranges }

/-- `FloatingIPPool.UnmarshalJSON` followed by `fipCheck`, with the adjacency comparison as a parameter
    (so that the pre-fix comparison can be plugged in for the `_counter` theorem). -/
def decodePoolWith (adj : IPv4 → IPv4 → Bool) (raw : RawPool) : Except Err Pool :=
  match jsonConf raw with
  | none => .error .json
  | some c => buildPool adj c

/-- The decoder as it is in /repo now (adjacency comparison regenerated from `fipCheck`). -/
def decodePool (raw : RawPool) : Except Err Pool := decodePoolWith fipAdjReject raw

/-- The pre-fix adjacency comparison of `fipCheck` (defect D8): `first <= prevLast+1` evaluated in uint32. -/
def fipAdjReject32 (first prevLast : IPv4) : Bool := decide (first ≤ prevLast + 1#32)

/-- `FloatingIPPool.MarshalJSON`. -/
def encodePool (p : Pool) : RawPool :=
  { nodeSubnets := if p.nodeSubnets.isEmpty then .absent else .val (p.nodeSubnets.map (fun c => some (cidrToken c)))
    routableSubnet := none
    ips := .val (p.ranges.map (fun r => .val (showRange r)))
    subnet := some (cidrToken p.subnet)
    gateway := .val (showIPv4 p.gateway)
    vlan := if p.vlan = 0 then .absent else .val p.vlan }

/-- `FloatingIPPool.Contains`. -/
def poolContains (p : Pool) (ip : IPv4) : Bool := rangesContain p.ranges ip

/-- `SparseSubnet.Size` of the pool (uint32). -/
def poolSize (p : Pool) : BitVec 32 := sparseSize p.ranges

/-- What the decoder guarantees about an accepted pool (`WFPool` of DESIGN Appendix E); proved from
    `decodePool raw = .ok p` in `Galaxy.Lemmas.NetsPool` and sufficient for the round trip. -/
structure Pool.Valid (p : Pool) : Prop where
  ns_ne : p.nodeSubnets ≠ []
  ns_masked : ∀ c ∈ p.nodeSubnets, c.2 ≤ 32 ∧ maskCidr c = c
  ns_nodup : p.nodeSubnets.Nodup
  prefix_le : p.prefixLen ≤ 32
  vlan_lt : p.vlan < 2 ^ vlanBits
  ranges_wf : ∀ r ∈ p.ranges, r.first.toNat ≤ r.last.toNat
  check : fipCheckFrom fipAdjReject (Galaxy.Pool.inSubnet p.gateway p.prefixLen) none p.ranges = .ok ()

/-- Insert into a list sorted by `FloatingIPSlice.Less`, before the first element which is not smaller. -/
def insertPool (p : Pool) : List Pool → List Pool
  | [] => [p]
  | q :: qs => if poolLess q.gateway p.gateway then q :: insertPool p qs else p :: q :: qs

/-- `sort.Sort(FloatingIPSlice(floatIPs))` in `ConfigurePool`, as a stable insertion sort (which is what Go's
    `sort.Sort` does for at most 12 elements; for more the real sort is not stable: pools with equal gateways may
    come out in another order, so the harness compares such groups as multisets). -/
def sortPools (ps : List Pool) : List Pool := ps.foldr insertPool []

/-! ### Whole configuration and reload -/

/-- One element of the JSON list given to `json.Unmarshal(&[]*FloatingIPPool)`. -/
inductive RawEntry where
  | null
  | notObject
  | obj (r : RawPool)
deriving DecidableEq, Repr

/-- The configuration document. -/
inductive RawConf where
  | null
  | notArray
  | arr (l : List RawEntry)
deriving DecidableEq, Repr

def decodeEntries : List RawEntry → Except Err (List (Option Pool))
  | [] => .ok []
  | .null :: t => match decodeEntries t with
    | .ok l => .ok (none :: l)
    | .error e => .error e
  | .notObject :: _ => .error .json
  | .obj r :: t =>
    match decodePool r with
    | .error e => .error e
    | .ok p => match decodeEntries t with
      | .ok l => .ok (some p :: l)
      | .error e => .error e

/-- `json.Unmarshal([]byte(newConf), &conf)` followed by the null-element check of `ensureIPAMConf`. -/
def decodeConf : RawConf → Except Err (List Pool)
  | .null => .ok []
  | .notArray => .error .json
  | .arr l =>
    match decodeEntries l with
    | .error e => .error e
    | .ok ps => match allSome ps with
      | some l => .ok l
      | none => .error .nullPool

/-- State of the reloader: the last accepted configuration text and the pools the IPAM serves. -/
structure Reloader (τ : Type) where
  lastConf : τ
  pools : List Pool

inductive ReloadOutcome where
  | unchanged
  | rejected (e : Err)
  | configured
deriving DecidableEq, Repr

/-- `FloatingIPPlugin.ensureIPAMConf` for an arbitrary text type `τ` and decoder (store failures of
    `ConfigurePool` are M3's business and not modelled here). -/
def ensureConf {τ : Type} [DecidableEq τ] (decode : τ → Except Err (List Pool)) (s : Reloader τ) (newConf : τ) :
    Reloader τ × ReloadOutcome :=
  if newConf = s.lastConf then (s, .unchanged)
  else match decode newConf with
    | .error e => (s, .rejected e)
    | .ok ps => ({ lastConf := newConf, pools := sortPools ps }, .configured)


/-- `ensureIPAMConf` with the one store-dependent step made explicit: `storeOk = false` is a `ConfigurePool`
    that returns an error (its list of the persisted FloatingIPs failed).  The method then returns the error
    BEFORE `*lastConf = newConf`, so that the next poll of the same ConfigMap text tries again. -/
def ensureConfStore {τ : Type} [DecidableEq τ] (decode : τ → Except Err (List Pool)) (s : Reloader τ) (newConf : τ)
    (storeOk : Bool) : Reloader τ × ReloadOutcome :=
  if newConf = s.lastConf then (s, .unchanged)
  else match decode newConf with
    | .error e => (s, .rejected e)
    | .ok ps => if storeOk then ({ lastConf := newConf, pools := sortPools ps }, .configured) else (s, .rejected .store)

end Galaxy.Pool
