/-
  M4-core: executable model of the galaxy-ipam scheduler plugin (`pkg/ipam/schedulerplugin`) at operation
  granularity with explicit adversary moves.  Core Lean only.  Self-contained: it carries its own compact IPAM
  sub-model (tables alloc / free / store, pools with node subnets) and does NOT import `Galaxy.Model.Ipam`.

  Transcribed from (line references are to /repo HEAD with the `fix:` commits):
    schedulerplugin/{bind,filter,ipam,deployment,statefulset,event,resync,floatingip_plugin}.go,
    schedulerplugin/util/utils.go, floatingip/{ipam_crd,store_crd,floatingip}.go.

  Conventions
  * IPs are `Nat` (32-bit values), pod UIDs are `Nat` with 0 = "" (the model hands out fresh UIDs 1,2,3…;
    the harness names them u1,u2,…).
  * Keys are structured (`Key`); `Key.render` is the string the code stores (`KeyObj.genKey`).  Prefix tests of
    the code (`strings.HasPrefix(key, poolPrefix)`) are the structural `Key.hasPrefix` (equivalent for names
    without '_', the C11 boundary).
  * Everything that is arbitrary in Go (map iteration) is an explicit argument of the move (`Choice`), checked
    by an admissibility test; a move with an inadmissible choice answers `Res.inadmissible` and changes nothing.
  * Every apiserver call of a move is numbered (`State.calls`); `fault = k > 0` makes call `k` fail cleanly.
    Cloud-provider calls are numbered separately (`pcalls` / `pfault`).
  * The structural facts the shape depends on are a parameter `Facts` (instantiated from the regenerated
    `Galaxy.Generated.Plugin`), so that e.g. `deliver` applies the UID guard iff `unbindChecksUID`.
-/
import Galaxy.Model.Tbl
import Galaxy.Generated.Plugin

namespace Galaxy.Plugin

abbrev IP := Nat
abbrev Uid := Nat

/-! ## Facts extracted from the source (see tools/factgen/cmd/plugin) -/

structure Facts where
  unbindChecksUID : Bool        -- unbind ignores an event whose pod UID differs from a stored non-empty UID
  bindChecksUID : Bool          -- allocateIP refuses to reuse an IP stored under another non-empty UID
  bindChecksListerUID : Bool    -- Bind refuses when the lister's pod has another (non-empty) UID than args.PodUID
  bindUidGuardCoversWholeKey : Bool  -- the "waiting for delete event" check looks at ALL records of the key
  releaseRechecks : Bool        -- Release re-reads ByIP under lockPod and compares keys
  resyncRechecks : Bool         -- the resync closure re-reads ByIP under lockPod and compares keys
  apiDoubleCheck : Bool         -- podRunning asks the API server after the lister said "not running"
  wholeKeyCheck : Bool          -- resync / Release leave a key alone while another record of it belongs to a running pod
  runningChecksUID : Bool       -- runningAndUidMatch compares the stored UID with the pod's
  bindEnqueuesOnlyOnNotFound : Bool := true  -- Bind queues a release event only when the Binding call answered NotFound
  finishedChecksPhaseOnly : Bool := true  -- finished(pod) = phase Succeeded / Failed, nothing else (not: being deleted)
  keyOwnedSkipsEmptyUid : Bool := true  -- keyOwnedByRunningPod ignores records without a stored uid (bound to no pod)
deriving DecidableEq, Repr

/-- the facts as regenerated from the current source tree -/
def facts : Facts :=
  { unbindChecksUID := Generated.Plugin.unbindChecksUID
    bindChecksUID := Generated.Plugin.bindChecksUID
    bindChecksListerUID := Generated.Plugin.bindChecksListerUID
    bindUidGuardCoversWholeKey := Generated.Plugin.bindUidGuardCoversWholeKey
    releaseRechecks := Generated.Plugin.releaseRechecksUnderLock
    resyncRechecks := Generated.Plugin.resyncRechecksUnderLock
    apiDoubleCheck := Generated.Plugin.podRunningAsksApiServerSecond
    wholeKeyCheck := Generated.Plugin.resyncAndReleaseCheckWholeKey
    runningChecksUID := Generated.Plugin.runningAndUidMatchChecksUID
    bindEnqueuesOnlyOnNotFound := Generated.Plugin.bindEnqueuesReleaseOnlyOnNotFound
    finishedChecksPhaseOnly := Generated.Plugin.finishedChecksPhaseOnly
    keyOwnedSkipsEmptyUid := Generated.Plugin.keyOwnedSkipsEmptyUid }

/-- the shape the proofs are about -/
def Facts.good : Facts := ⟨true, true, true, true, true, true, true, true, true, true, true, true⟩

/-! ## Subnets and pools -/

structure Subnet where
  base : Nat
  bits : Nat
deriving DecidableEq, Repr, Inhabited

def ipStr (ip : Nat) : String :=
  toString (ip / 16777216 % 256) ++ "." ++ toString (ip / 65536 % 256) ++ "." ++
    toString (ip / 256 % 256) ++ "." ++ toString (ip % 256)

def Subnet.str (n : Subnet) : String := ipStr n.base ++ "/" ++ toString n.bits

def Subnet.contains (n : Subnet) (ip : Nat) : Bool :=
  ip / 2 ^ (32 - n.bits) == n.base / 2 ^ (32 - n.bits)

/-- sets of node subnets (`sets.String` of CIDR strings) are duplicate-free lists -/
def sinsert (l : List Subnet) (x : Subnet) : List Subnet := if l.contains x then l else l ++ [x]
def sunion (a b : List Subnet) : List Subnet := b.foldl sinsert a
def sinter (a b : List Subnet) : List Subnet := a.filter (fun x => b.contains x)

/-- `sets.String.List()[0]`: the smallest element in string order -/
def sminStr : List Subnet → Option Subnet
  | [] => none
  | x :: t => match sminStr t with
    | none => some x
    | some y => if x.str ≤ y.str then some x else some y

structure Pool where
  nodeSubnets : List Subnet
  ranges : List (Nat × Nat)
  gateway : Nat
  bits : Nat
  vlan : Nat
deriving DecidableEq, Repr, Inhabited

def inRanges (rs : List (Nat × Nat)) (ip : Nat) : Bool := rs.any (fun r => r.1 ≤ ip && ip ≤ r.2)

/-- the walk of `walkIPRanges` -/
def enumRanges : List (Nat × Nat) → List Nat
  | [] => []
  | (a, b) :: t => List.range' a (b + 1 - a) ++ enumRanges t

def Pool.inSubnet (p : Pool) (ip : Nat) : Bool := ip / 2 ^ (32 - p.bits) == p.gateway / 2 ^ (32 - p.bits)

/-- `fipConf.IPNet().Contains(ip) && fipConf.Contains(ip)` (ConfigurePool): the pool an address belongs to is the first
    one whose pod subnet AND ranges contain it (fact `configurePoolMatchesSubnetAndRanges`; if the source only asked
    for the subnet, the first pool of a shared pod subnet would claim the addresses of the others) -/
def Pool.has (p : Pool) (ip : Nat) : Bool :=
  p.inSubnet ip && (inRanges p.ranges ip || !Generated.Plugin.configurePoolMatchesSubnetAndRanges)

def insertByGw (p : Pool) : List Pool → List Pool
  | [] => [p]
  | q :: t => if p.gateway ≤ q.gateway then p :: q :: t else q :: insertByGw p t

/-- `sort.Sort(FloatingIPSlice)`: by gateway; Go's sort is an insertion sort for fewer than 12 elements, i.e. stable
    (pools with equal gateways keep their configuration order) -/
def sortPools (ps : List Pool) : List Pool := ps.foldr insertByGw []

/-- the pool object an address hangs off: first pool (sorted order) containing it -/
def poolOf (ps : List Pool) (ip : Nat) : Option Pool := ps.find? (fun p => p.has ip)

def subnetsOf (ps : List Pool) (ip : Nat) : List Subnet :=
  match poolOf ps ip with
  | some p => p.nodeSubnets
  | none => []

def configured (ps : List Pool) (ip : Nat) : Bool := ps.any (fun p => p.has ip)

/-- first occurrence wins -/
def dedupNat : List Nat → List Nat
  | [] => []
  | x :: t => x :: (dedupNat t).filter (· ≠ x)

/-- every configured address once, in pool order then walk order -/
def allIPs (ps : List Pool) : List Nat :=
  dedupNat (ps.flatMap (fun p => (enumRanges p.ranges).filter p.has))

/-- `NodeSubnet(nodeIP)`: first (pool order, subnet order) configured node subnet containing the node address -/
def nodeSubnetOf (ps : List Pool) (nodeIP : Nat) : Option Subnet :=
  (ps.flatMap (·.nodeSubnets)).find? (fun n => n.contains nodeIP)

/-! ## Keys (`util.KeyObj`) -/

structure Key where
  pool : String
  typ : String      -- app type prefix incl. the trailing '_' ("dp_", "sts_", "NULL_", "tapp_" …)
  ns : String
  app : String
  pod : String
deriving DecidableEq, Repr, Inhabited

def Key.empty : Key := ⟨"", "", "", "", ""⟩

/-- `NewKeyObj(...).genKey()` normal form -/
def mkKey (typ ns app pod pool : String) : Key :=
  if pool ≠ "" ∧ app = "" then ⟨pool, "", "", "", ""⟩
  else if pool = "" ∧ app = "" ∧ ns = "" then Key.empty
  else ⟨pool, typ, ns, app, pod⟩

/-- the string stored in `FloatingIP.Spec.Key` -/
def Key.render (k : Key) : String :=
  if k = Key.empty then ""
  else
    let pre := if k.pool ≠ "" then Generated.Plugin.poolPrefix ++ k.pool ++ "_" else ""
    if k.pool ≠ "" ∧ k.app = "" then pre
    else pre ++ k.typ ++ k.ns ++ "_" ++ k.app ++ "_" ++ k.pod

/-- the key of an administrator's reservation: a text that does not parse as a pod key (rendered `_<text>_`; `ParseKey`
    finds no pod name in it, so resync never examines it) -/
def adminKey (text : String) : Key := ⟨"", "", "", text, ""⟩

def Key.isAdmin (k : Key) : Bool := k.pool == "" && k.typ == "" && k.ns == "" && k.pod == "" && k.app != ""

def Key.isDp (k : Key) : Bool := k.typ == Generated.Plugin.deploymentPrefixKey
def Key.isSts (k : Key) : Bool := k.typ == Generated.Plugin.statefulsetPrefixKey

/-- `KeyObj.PoolPrefix()` -/
def Key.poolPrefix (k : Key) : Key :=
  if k.pool ≠ "" then ⟨k.pool, "", "", "", ""⟩ else ⟨"", k.typ, k.ns, k.app, ""⟩

/-- `KeyObj.PoolAppPrefix()` -/
def Key.poolAppPrefix (k : Key) : Key :=
  if k.pool ≠ "" then ⟨k.pool, k.typ, k.ns, k.app, ""⟩ else k.poolPrefix

/-- `strings.HasPrefix(k.render, p.render)` for prefix-shaped `p` (names without '_') -/
def Key.hasPrefix (k p : Key) : Bool :=
  if p = Key.empty then true
  else if p.typ = "" ∧ p.ns = "" ∧ p.app = "" ∧ p.pod = "" then k.pool == p.pool
  else k.pool == p.pool && k.typ == p.typ && k.ns == p.ns && k.app == p.app && p.pod.isPrefixOf k.pod

/-- digits after the last '-' (`parsePodIndex`: `strconv.Atoi(parts[len(parts)-1])`) -/
def lastDashPart (s : String) : String := ((s.splitOn "-").getLast?).getD s

def atoi (s : String) : Option Nat := if s.length > 0 ∧ s.all Char.isDigit then s.toNat? else none

/-- `parsePodIndex(keyObj.PodName)` -/
def podIndex (name : String) : Option Nat := atoi (lastDashPart name)

/-- `parsePodIndex(keyObj.KeyInDB)`: the whole key is split at '-', so a pod name without '-' never parses -/
def keyIndex (k : Key) : Option Nat := atoi (lastDashPart k.render)

/-! ## API objects -/

inductive Kind | sts | dp | bare | other
deriving DecidableEq, Repr, Inhabited

def Kind.prefix : Kind → String
  | .sts => Generated.Plugin.statefulsetPrefixKey
  | .dp => Generated.Plugin.deploymentPrefixKey
  | .bare => Generated.Plugin.noRefAppTypePrefix
  | .other => "tapp_"

inductive Phase | pending | running | finished
deriving DecidableEq, Repr, Inhabited

/-- one entry of the binding annotation's `ipinfos` -/
structure HInfo where
  ip : IP
  bits : Nat
  gw : Nat
  vlan : Nat
deriving DecidableEq, Repr, Inhabited

structure Pod where
  ns : String
  name : String
  uid : Nat                          -- pod UID (0 = "")
  kind : Kind
  app : String                      -- owner name (deployment name for ReplicaSet owners); ignored for bare pods
  pool : String                     -- annotation tke.cloud.tencent.com/eni-ip-pool
  policy : Nat                      -- annotation release-policy: 0 default, 1 immutable, 2 never
  ranges : List (List (Nat × Nat))  -- request_ip_range of the args annotation
  wants : Bool                      -- requests the eni-ip resource
  phase : Phase
  node : String
  handed : List HInfo               -- ipinfos of the binding annotation ([] = not bound by the plugin)
  -- metadata.deletionTimestamp is set: the pod is inside its deletion grace period - it still exists (API truth, lister),
  -- its phase is unchanged, its containers may still run and use the address
  terminating : Bool := false
deriving DecidableEq, Repr, Inhabited

def Pod.id (p : Pod) : String × String := (p.ns, p.name)

/-- `util.FormatKey` -/
def keyOf (p : Pod) : Key :=
  match p.kind with
  | .bare => mkKey Generated.Plugin.noRefAppTypePrefix p.ns Generated.Plugin.noRefAppName p.name p.pool
  | k => mkKey k.prefix p.ns p.app p.name p.pool

/-- `parseReleasePolicy` -/
def policyOf (p : Pod) : Nat := if p.pool ≠ "" then 2 else if p.policy = 1 ∨ p.policy = 2 then p.policy else 0

def Pod.finished (p : Pod) : Bool := p.phase == .finished

/-- `finished(pod)` as the CODE computes it: phase Succeeded / Failed - and nothing else, as long as the fact holds (the
    variant that also counts a pod being deleted is the model with the fact false) -/
def codeFinished (F : Facts) (p : Pod) : Bool := p.finished || (!F.finishedChecksPhaseOnly && p.terminating)
def Pod.ips (p : Pod) : List IP := p.handed.map (·.ip)

/-- a FloatingIP record (memory and store share the shape) -/
structure Rec where
  key : Key
  policy : Nat
  node : String
  uid : Nat                          -- pod UID (0 = "")
  reserved : Bool := false
  ts : Nat := 0
deriving DecidableEq, Repr, Inhabited

structure Attr where
  policy : Nat := 0
  node : String := ""
  uid : Nat := 0
deriving DecidableEq, Repr, Inhabited

structure Event where
  pod : Pod
  retries : Nat := 0
deriving DecidableEq, Repr, Inhabited

inductive PCall
  | assign (node : String) (ip : IP) (ok : Bool)
  | unassign (node : String) (ip : IP) (ok : Bool)
deriving DecidableEq, Repr, Inhabited

/-- workload identity: kind, namespace, name -/
abbrev AppId := Kind × String × String

structure Conf where
  pools : List Pool
  nodes : Tbl String Nat := []      -- node name ↦ InternalIP
  provider : Bool := false
deriving Repr, Inhabited

structure State where
  -- IPAM (crdIpam)
  pools : List Pool := []
  alloc : Tbl IP Rec := []
  free : List IP := []
  store : Tbl IP Rec := []          -- FloatingIP objects in the apiserver (of configured addresses)
  -- FloatingIP objects of addresses a reload removed from the configuration and whose delete FAILED (ConfigurePool
  -- ignores the error).  The real store is `store ++ orphans`; no operation but ConfigurePool ever names such an
  -- address (allocation takes configured addresses only), so they are kept apart - every reload / restart lists them
  -- again, resurrects those whose address is configured again and retries the delete of the others.
  orphans : Tbl IP Rec := []
  clock : Nat := 0
  -- API truth
  pods : Tbl (String × String) Pod := []
  apps : Tbl AppId Nat := []        -- statefulsets / deployments with replicas
  poolObjs : Tbl String Nat := []   -- Pool CRs (size)
  nodes : Tbl String Nat := []
  -- informer views
  vPods : Tbl (String × String) Pod := []
  vApps : Tbl AppId Nat := []
  vPoolObjs : Tbl String Nat := []
  -- pending delete / finish events (the `unreleased` channel), oldest first
  events : List Event := []
  -- cloud provider
  provOn : Bool := false
  assigned : Tbl IP String := []
  plog : List PCall := []
  -- plugin
  lastConf : Option (List Pool) := none
  nodeCache : Tbl String Subnet := []
  -- what the FloatingIP informer's cache shows: the store objects as of its last sync
  vFips : Tbl IP Rec := []
  -- the addresses an administrator has reserved (labelled FloatingIP objects created by hand) with their records
  admin : Tbl IP Rec := []
  -- the checklist (`resyncMeta.allocatedIPs`) of a resync pass in progress: taken by `resyncSnap`, consumed entry by
  -- entry by `resyncRec` - any other move may happen in between
  resyncSnap : Tbl IP Rec := []
  nextUid : Nat := 1
  -- per-move fault plan
  calls : Nat := 0
  fault : Nat := 0
  pcalls : Nat := 0
  pfault : Nat := 0
  -- crash plan of the current move: when set, the call number `fault` (and `pfault`) and EVERY later one does not
  -- happen - the process died before it (see `withCrash`, `stepCrash`, `crashAt`)
  crashMode : Bool := false
deriving Repr, Inhabited

inductive Res
  | ok
  | err (cls : String)
  | inadmissible
deriving DecidableEq, Repr, Inhabited

structure Out where
  res : Res := .ok
  nodes : List String := []         -- filter: nodes that passed
  ips : List HInfo := []            -- bind: the annotation written
deriving Repr, Inhabited

def Out.err (c : String) : Out := { res := .err c }
def Out.bad : Out := { res := .inadmissible }

/-! ## apiserver and provider call numbering -/

/-- count one apiserver call; the Bool says whether this call is the one the fault plan fails.  Under a crash plan the
    counter stops at the dead call, so that every later call is dead too. -/
def State.api (s : State) : State × Bool :=
  ({ s with calls := if s.crashMode && s.calls + 1 == s.fault then s.calls else s.calls + 1 }, s.calls + 1 == s.fault)

def provAssign (s : State) (node : String) (ip : IP) : State × Bool :=
  if !s.provOn then (s, true)
  else if s.crashMode && s.pcalls + 1 == s.pfault then (s, false)      -- the process is dead: the request is never sent
  else
    let fail := s.pcalls + 1 == s.pfault
    ({ s with pcalls := s.pcalls + 1, plog := s.plog ++ [.assign node ip (!fail)],
              assigned := if fail then s.assigned else s.assigned.set ip node }, !fail)

def provUnassign (s : State) (node : String) (ip : IP) : State × Bool :=
  if !s.provOn then (s, true)
  else if s.crashMode && s.pcalls + 1 == s.pfault then (s, false)
  else
    let fail := s.pcalls + 1 == s.pfault
    ({ s with pcalls := s.pcalls + 1, plog := s.plog ++ [.unassign node ip (!fail)],
              assigned := if fail then s.assigned else s.assigned.erase ip }, !fail)

/-! ## store calls (`store_crd.go`) -/

/-- `createFloatingIP`: one call; AlreadyExists is an error -/
def stCreate (s : State) (ip : IP) (r : Rec) : State × Bool :=
  let c := s.api
  if c.2 then (c.1, false)
  else if (c.1.store.get ip).isSome then (c.1, false)
  else ({ c.1 with store := c.1.store.set ip r }, true)

/-- `updateFloatingIP`: Get, then Update -/
def stUpdate (s : State) (ip : IP) (r : Rec) : State × Bool :=
  let c := s.api
  if c.2 then (c.1, false)
  else if (c.1.store.get ip).isNone then (c.1, false)
  else
    let d := c.1.api
    if d.2 then (d.1, false)
    else ({ d.1 with store := d.1.store.set ip r }, true)

/-- `deleteFloatingIP`: one call; NotFound is an error -/
def stDelete (s : State) (ip : IP) : State × Bool :=
  let c := s.api
  if c.2 then (c.1, false)
  else if (c.1.store.get ip).isNone then (c.1, false)
  else ({ c.1 with store := c.1.store.erase ip }, true)

/-! ## IPAM (`ipam_crd.go`) -/

def mkRec (key : Key) (a : Attr) (ts : Nat) : Rec :=
  { key := key, policy := a.policy, node := a.node, uid := a.uid, reserved := false, ts := ts }

/-- `FloatingIP.Assign` / `CloneWith` (labels are kept) -/
def Rec.assign (r : Rec) (key : Key) (a : Attr) (ts : Nat) : Rec :=
  { r with key := key, policy := a.policy, node := a.node, uid := a.uid, ts := ts }

/-- `syncCacheAfterCreate` -/
def memAlloc (s : State) (ip : IP) (r : Rec) : State :=
  { s with alloc := s.alloc.set ip r, free := s.free.filter (· ≠ ip) }

/-- `syncCacheAfterDel` -/
def memFree (s : State) (ip : IP) : State :=
  { s with alloc := s.alloc.erase ip, free := ip :: s.free.filter (· ≠ ip) }

def hasSubnet (s : State) (ip : IP) (n : Subnet) : Bool := (subnetsOf s.pools ip).contains n

/-- `AllocateSpecificIP` -/
def allocateSpecific (s : State) (key : Key) (ip : IP) (a : Attr) : State × Res :=
  if !s.free.contains ip then (s, .err "not-found")
  else
    let r := mkRec key a s.clock
    let c := stCreate s ip r
    if !c.2 then (c.1, .err "store") else (memAlloc c.1 ip r, .ok)

/-- `AllocateInSubnet`; `choice` = the free address the map iteration met first -/
def allocateInSubnet (s : State) (key : Key) (n : Subnet) (a : Attr) (choice : Option IP) : State × Res :=
  let cands := s.free.filter (fun ip => hasSubnet s ip n)
  if cands.isEmpty then (s, .err "not-enough-ip")
  else match choice with
    | none => (s, .inadmissible)
    | some ip =>
      if !cands.contains ip then (s, .inadmissible)
      else
        let r := mkRec key a s.clock
        let c := stCreate s ip r
        if !c.2 then (c.1, .err "store") else (memAlloc c.1 ip r, .ok)

/-- `AllocateInSubnetWithKey`; `choice` = the record that was re-keyed (must be a latest one) -/
def allocateInSubnetWithKey (s : State) (oldK newK : Key) (n : Subnet) (a : Attr) (choice : Option IP) :
    State × Res :=
  let cands := s.alloc.filter (fun e => e.2.key = oldK && hasSubnet s e.1 n)
  if cands.isEmpty then (s, .err "not-found")
  else match choice with
    | none => (s, .inadmissible)
    | some ip =>
      match s.alloc.get ip with
      | none => (s, .inadmissible)
      | some r =>
        if !(r.key = oldK && hasSubnet s ip n && cands.all (fun e => e.2.ts ≤ r.ts)) then (s, .inadmissible)
        else
          let r' := r.assign newK a s.clock
          let c := stUpdate s ip r'
          if !c.2 then (c.1, .err "store") else ({ c.1 with alloc := c.1.alloc.set ip r' }, .ok)

/-- `ReserveIP` over the addresses `ips` (the records whose key is `oldK`, in table order) -/
def reserveLoop (s : State) (oldK newK : Key) (a : Attr) : List IP → State × Bool
  | [] => (s, true)
  | ip :: t =>
    match s.alloc.get ip with
    | none => reserveLoop s oldK newK a t
    | some r =>
      if r.key ≠ oldK then reserveLoop s oldK newK a t
      else if oldK = newK ∧ r.uid = a.uid ∧ r.node = a.node then reserveLoop s oldK newK a t
      else
        let r' := r.assign newK { a with policy := r.policy } s.clock
        let c := stUpdate s ip r'
        if !c.2 then (c.1, false)
        else reserveLoop { c.1 with alloc := c.1.alloc.set ip r' } oldK newK a t

def ipsOfKey (s : State) (k : Key) : List IP := (s.alloc.filter (fun e => e.2.key = k)).map (·.1)

def reserve (s : State) (oldK newK : Key) (a : Attr) : State × Bool :=
  reserveLoop s oldK newK a (ipsOfKey s oldK)

/-- `UpdateAttr` -/
def updateAttr (s : State) (key : Key) (ip : IP) (a : Attr) : State × Res :=
  match s.alloc.get ip with
  | none => (s, .err "not-found")
  | some r =>
    if r.key ≠ key then (s, .err "key-mismatch")
    else
      let r' := r.assign r.key a s.clock
      let c := stUpdate s ip r'
      if !c.2 then (c.1, .err "store") else ({ c.1 with alloc := c.1.alloc.set ip r' }, .ok)

/-- `Release` -/
def release (s : State) (key : Key) (ip : IP) : State × Res :=
  match s.alloc.get ip with
  | none => (s, .err "not-found")
  | some r =>
    if r.key ≠ key then (s, .err "key-mismatch")
    else
      let c := stDelete s ip
      if !c.2 then (c.1, .err "store") else (memFree c.1 ip, .ok)

/-- `ReleaseIPs` for the requests `ip ↦ key` -/
def releaseIPsLoop (s : State) (key : Key) : List IP → State × Bool
  | [] => (s, true)
  | ip :: t =>
    match s.alloc.get ip with
    | none => releaseIPsLoop s key t
    | some r =>
      if r.key ≠ key then releaseIPsLoop s key t
      else
        let c := stDelete s ip
        if !c.2 then (c.1, false) else releaseIPsLoop (memFree c.1 ip) key t

/-- plugin `releaseIP(key)`: `ReleaseIPs` of everything the key owns -/
def releaseIP (s : State) (key : Key) : State × Bool := releaseIPsLoop s key (ipsOfKey s key)

/-- the picks of `AllocateInSubnetsAndIPRange`: one address per range list, first fit in walk order -/
def pickRanges (s : State) (n : Subnet) : List (List (Nat × Nat)) → List IP → Option (List IP)
  | [], acc => some acc
  | rs :: t, acc =>
    match (enumRanges rs).find? (fun ip => s.free.contains ip && hasSubnet s ip n && !acc.contains ip) with
    | none => none
    | some ip => pickRanges s n t (acc ++ [ip])

def deleteAll (s : State) : List IP → State
  | [] => s
  | ip :: t => deleteAll (stDelete s ip).1 t

/-- create all picks in the store; on the first failure delete the ones created so far -/
def createAll (s : State) (r : Rec) (done : List IP) : List IP → State × Bool
  | [] => (s, true)
  | ip :: t =>
    let c := stCreate s ip r
    if !c.2 then (deleteAll c.1 done, false) else createAll c.1 r (done ++ [ip]) t

def memAllocAll (s : State) (r : Rec) : List IP → State
  | [] => s
  | ip :: t => memAllocAll (memAlloc s ip r) r t

/-- `AllocateInSubnetsAndIPRange` -/
def allocateInSubnetsAndRanges (s : State) (key : Key) (n : Subnet) (rss : List (List (Nat × Nat)))
    (a : Attr) (choice : Option IP) : State × Res :=
  if rss.isEmpty then allocateInSubnet s key n a choice
  else match pickRanges s n rss [] with
    | none => (s, .err "not-enough-ip")
    | some picks =>
      let r := mkRec key a s.clock
      let c := createAll s r [] picks
      if !c.2 then (c.1, .err "store") else (memAllocAll c.1 r picks, .ok)

/-- the address is stored under the key -/
def ownsB (s : State) (k : Key) (ip : IP) : Bool :=
  match s.alloc.get ip with
  | some r => r.key = k
  | none => false

/-- `ByKeyAndIPRanges` -/
def byKeyAndRanges (s : State) (key : Key) (rss : List (List (Nat × Nat))) : List (Option IP) :=
  if rss.isEmpty then (ipsOfKey s key).map some
  else rss.map (fun rs => (enumRanges rs).find? (ownsB s key))

/-- `NodeSubnetsByIPRanges` -/
def nodeSubnetsByRanges (s : State) (rss : List (List (Nat × Nat))) : List Subnet :=
  let poolSubnets := fun (ips : List IP) =>
    -- union over the pool *indices* of the addresses, in index order
    (s.pools.filter (fun p => ips.any (fun ip => poolOf s.pools ip = some p))).foldl
      (fun acc p => sunion acc p.nodeSubnets) []
  if rss.isEmpty then poolSubnets s.free
  else
    let rec go : List (List (Nat × Nat)) → Bool → List Subnet → List Subnet
      | [], _, acc => acc
      | rs :: t, first, acc =>
        let ips := (enumRanges rs).filter (fun ip => s.free.contains ip)
        if ips.isEmpty then []
        else if first then go t false (poolSubnets ips)
        else go t false (sinter acc (poolSubnets ips))
    go rss true []

/-- `toFloatingIPInfo(...).IPInfo` -/
def toHInfo (s : State) (ip : IP) : HInfo :=
  match poolOf s.pools ip with
  | some p => { ip := ip, bits := p.bits, gw := p.gateway, vlan := p.vlan }
  | none => { ip := ip, bits := 0, gw := 0, vlan := 0 }

/-- every FloatingIP object the list of `ConfigurePool` returns: `listFloatingIPs` is a LIST against the API server
    (regenerated fact) - it sees the store as it is.  A variant that serves the list from the FloatingIP informer's cache
    sees the store as of the informer's last sync (`vFips`, move `fipSync`): the model with the fact false. -/
def listed (s : State) : Tbl IP Rec :=
  if Generated.Plugin.reloadListsApiserver then s.store ++ s.orphans else s.vFips

/-- the listed objects whose address the new configuration contains (one per address) -/
def confKeep (s : State) (ps : List Pool) : Tbl IP Rec := Tbl.dedup ((listed s).filter (fun e => configured ps e.1))

/-- memory right after the rebuild of `allocatedFIPs` from the listed store objects; the objects of all other
    addresses are about to be deleted -/
def confBase (s : State) (ps : List Pool) : State :=
  { s with pools := ps, alloc := confKeep s ps, store := confKeep s ps,
           orphans := (listed s).filter (fun e => !configured ps e.1),
           admin := s.admin.filter (fun e => configured ps e.1) }

/-- stored objects whose address is no longer configured -/
def confDrop (s : State) (ps : List Pool) : List IP := ((listed s).filter (fun e => !configured ps e.1)).map (·.1)

/-- the rebuilt unallocated table -/
def confFree (s : State) (ps : List Pool) : List IP :=
  (allIPs ps).filter (fun ip => (Tbl.get (confKeep s ps) ip).isNone)

/-- delete the objects of de-configured addresses; an error is logged and ignored (the object stays) -/
def dropAll (s : State) : List IP → State
  | [] => s
  | ip :: t =>
    if s.api.2 then dropAll s.api.1 t
    else dropAll { s.api.1 with orphans := s.api.1.orphans.erase ip } t

/-- `ConfigurePool` (lists under the lock: atomic) -/
def configurePool (s : State) (pools : List Pool) : State × Bool :=
  let c := s.api                               -- listFloatingIPs
  if c.2 then (c.1, false)
  else ({ dropAll (confBase c.1 (sortPools pools)) (confDrop c.1 (sortPools pools)) with
            free := confFree c.1 (sortPools pools) }, true)

/-! ## Plugin helpers (`floatingip_plugin.go`, `resync.go`, `statefulset.go`, `deployment.go`) -/

/-- `getNodeSubnet(node)` of Filter: cache, else `NodeSubnet(InternalIP)` (cached on success) -/
def getNodeSubnet (s : State) (node : String) : State × Option Subnet :=
  match s.nodeCache.get node with
  | some n => (s, some n)
  | none =>
    match s.nodes.get node with
    | none => (s, none)
    | some nip =>
      match nodeSubnetOf s.pools nip with
      | none => (s, none)
      | some n => ({ s with nodeCache := s.nodeCache.set node n }, some n)

/-- `queryNodeSubnet(nodeName)` of Bind: cache, else API get of the node (one call) -/
def queryNodeSubnet (s : State) (node : String) : State × Option Subnet :=
  match s.nodeCache.get node with
  | some n => (s, some n)
  | none =>
    let c := s.api
    if c.2 then (c.1, none)
    else match c.1.nodes.get node with
      | none => (c.1, none)
      | some nip =>
        match nodeSubnetOf c.1.pools nip with
        | none => (c.1, none)
        | some n => ({ c.1 with nodeCache := c.1.nodeCache.set node n }, some n)

/-- `runningAndUidMatch` for a found / not-found pod -/
def runningMatch (F : Facts) (uid : Uid) : Option Pod → Bool
  | none => false
  | some p => if F.runningChecksUID && uid != 0 && uid != p.uid then false else !codeFinished F p

/-- `podRunning`: lister first, API server second (an API error counts as running) -/
def podRunning (F : Facts) (s : State) (pod ns : String) (uid : Uid) : State × Bool :=
  if pod = "" ∨ ns = "" then (s, false)
  else if runningMatch F uid (s.vPods.get (ns, pod)) then (s, true)
  else if !F.apiDoubleCheck then (s, false)
  else
    let c := s.api
    if c.2 then (c.1, true) else (c.1, runningMatch F uid (c.1.pods.get (ns, pod)))

/-- `keyOwnedByRunningPod(keyObj, podUid)`: some other record of the key (stored uid differs from `uid`) belongs to a
    running pod.  A record WITHOUT a stored uid is reserved for the key but bound to no pod: it is skipped (with an
    empty uid `podRunning` would not compare uids at all, so any existing same-named pod would count as its owner -
    the variant without the skip is the model with `keyOwnedSkipsEmptyUid` false). -/
def keyOwnedLoop (F : Facts) (k : Key) (uid : Nat) : List IP → State → State × Bool
  | [], s => (s, false)
  | ip :: t, s =>
    match s.alloc.get ip with
    | none => keyOwnedLoop F k uid t s
    | some r =>
      if r.key ≠ k then keyOwnedLoop F k uid t s
      else if r.uid = uid then keyOwnedLoop F k uid t s
      else if F.keyOwnedSkipsEmptyUid && r.uid == 0 then keyOwnedLoop F k uid t s
      else if (podRunning F s k.pod k.ns r.uid).2 then ((podRunning F s k.pod k.ns r.uid).1, true)
      else keyOwnedLoop F k uid t (podRunning F s k.pod k.ns r.uid).1

def keyOwnedByRunningPod (F : Facts) (s : State) (k : Key) (uid : Nat) : State × Bool :=
  if F.wholeKeyCheck then keyOwnedLoop F k uid (ipsOfKey s k) s else (s, false)

/-- `supportReserveIPPolicy` (no scalable custom resources are installed in the modelled cluster) -/
def supportReserve (k : Key) (policy : Nat) : Bool :=
  if k.isDp || k.isSts then true
  else if (podIndex k.pod).isNone then false
  else policy == 2

def okOr (b : Bool) (c : String) : Res := if b then .ok else .err c

/-- `unbindNoneDpPod` -/
def unbindOther (s : State) (k : Key) (policy : Nat) : State × Res :=
  if policy = 0 ∨ !supportReserve k policy then
    let c := releaseIP s k; (c.1, okOr c.2 "store")
  else if policy = 2 then
    let c := reserve s k k {}; (c.1, okOr c.2 "store")
  else if policy = 1 then
    if !k.isSts then (s, .err "other")      -- checkAppAndReplicas: "Unknown app" (unreachable: supportReserve)
    else match s.vApps.get (Kind.sts, k.ns, k.app) with
      | none => let c := releaseIP s k; (c.1, okOr c.2 "store")
      | some replicas =>
        match keyIndex k with
        | none => (s, .err "bad-input")
        | some idx =>
          if replicas < idx + 1 then let c := releaseIP s k; (c.1, okOr c.2 "store")
          else let c := reserve s k k {}; (c.1, okOr c.2 "store")
  else (s, .ok)

def countPrefix (s : State) (p : Key) : Nat := (s.alloc.filter (fun e => e.2.key.hasPrefix p)).length

/-- `unbindDpPod` -/
def unbindDp (s : State) (k : Key) (policy : Nat) : State × Res :=
  let pre := k.poolPrefix
  if policy = 0 then let c := releaseIP s k; (c.1, okOr c.2 "store")
  else if policy = 2 then
    if k ≠ pre then let c := reserve s k pre {}; (c.1, okOr c.2 "store") else (s, .ok)
  else
    let replicas := (s.vApps.get (Kind.dp, k.ns, k.app)).getD 0
    if replicas = 0 then let c := releaseIP s k; (c.1, okOr c.2 "store")
    else if countPrefix s pre > replicas then let c := releaseIP s k; (c.1, okOr c.2 "store")
    else if k ≠ pre then let c := reserve s k pre {}; (c.1, okOr c.2 "store")
    else (s, .ok)

def unassignAll (s : State) : List IP → State × Bool
  | [] => (s, true)
  | ip :: t =>
    let node := ((s.alloc.get ip).map (·.node)).getD ""
    let c := provUnassign s node ip
    if !c.2 then (c.1, false) else unassignAll c.1 t

/-- `unbind(pod)` -/
def unbind (F : Facts) (s : State) (pod : Pod) : State × Res :=
  let k := keyOf pod
  let ips := ipsOfKey s k
  if F.unbindChecksUID && ips.any (fun ip =>
      match s.alloc.get ip with
      | some r => r.uid != 0 && pod.uid != 0 && r.uid != pod.uid
      | none => false) then (s, .ok)
  else
    let u := unassignAll s ips
    if !u.2 then (u.1, .err "provider")
    else if k.isDp then unbindDp u.1 k (policyOf pod) else unbindOther u.1 k (policyOf pod)

/-! ## Filter (`filter.go`, `ipam.go`) -/

/-- `getDpReplicas`: (replicas, isPoolSizeDefined) -/
def getDpReplicas (s : State) (k : Key) : Nat × Bool :=
  match (if k.pool ≠ "" then s.vPoolObjs.get k.pool else none) with
  | some size => (size, true)
  | none => ((s.vApps.get (Kind.dp, k.ns, k.app)).getD 0, false)

/-- `getAvailableSubnet`: error class, or (subnets, reserve) -/
def getAvailableSubnet (s : State) (k : Key) (policy replicas : Nat) (sized : Bool)
    (rss : List (List (Nat × Nat))) : Except String (List Subnet × Bool) :=
  let fallback : Except String (List Subnet × Bool) := .ok (nodeSubnetsByRanges s rss, false)
  if k.isDp && policy != 0 then
    if !rss.isEmpty then .error "bad-input"
    else
      let pre := k.poolPrefix
      let ips := s.alloc.filter (fun e => e.2.key.hasPrefix pre)
      let used := (ips.filter (fun e => e.2.key ≠ pre &&
        (sized || k.pool = "" || e.2.key.hasPrefix k.poolAppPrefix))).length
      let unused := (ips.filter (fun e => e.2.key = pre)).foldl (fun acc e => sunion acc (subnetsOf s.pools e.1)) []
      if used ≥ replicas then .error "size-limit"
      else if !unused.isEmpty then .ok (unused, true)
      else fallback
  else fallback

/-- what happens to Bind's `pods/binding` call on its way: answered truthfully; applied at the server but the response
    is lost (timeout - the client sees an error and retries); or the apiserver is unavailable for every attempt
    (500 / timeout, nothing applied) -/
inductive BindAnswer | truthful | lost | unavailable
deriving DecidableEq, Repr, Inhabited

structure Choice where
  first : Option IP := none      -- which of several owned addresses `ipInfos[0]` / `ipInfos[:1]` is
  pick : Option IP := none       -- the address AllocateInSubnet / AllocateInSubnetWithKey took
  answer : BindAnswer := .truthful  -- the fate of Bind's Binding call
deriving Repr, Inhabited

/-- which owned address comes first out of the map: explicit, or the only one -/
def pickFirst (infos : List (Option IP)) (first : Option IP) : Option IP :=
  match first with
  | some ip => if infos.contains (some ip) then some ip else none
  | none => match infos with
    | [some ip] => some ip
    | _ => none

/-- `allocateDuringFilter`: re-key a reserved address of the deployment / pool, or take a free one -/
def allocateDuringFilter (s : State) (k : Key) (resv : Bool) (n : Subnet) (a : Attr) (pick : Option IP) : State × Res :=
  if resv then allocateInSubnetWithKey s k.poolPrefix k n a pick else allocateInSubnet s k n a pick

/-- second half of `getSubnet`: policy check, available subnets, allocation during filter -/
def getSubnetCont (s : State) (pod : Pod) (ch : Choice) (rss : List (List (Nat × Nat))) (hasAlloc : Bool)
    (allocated : List Subnet) : State × Except Res (List Subnet) :=
  if policyOf pod ≠ 0 ∧ !supportReserve (keyOf pod) (policyOf pod) then (s, .error (.err "policy-unsupported"))
  else
    match getAvailableSubnet s (keyOf pod) (policyOf pod)
        (if (keyOf pod).isDp then getDpReplicas s (keyOf pod) else (0, false)).1
        (if (keyOf pod).isDp then getDpReplicas s (keyOf pod) else (0, false)).2 rss with
    | .error c => (s, .error (.err c))
    | .ok (set0, resv) =>
      if (resv || (if (keyOf pod).isDp then getDpReplicas s (keyOf pod) else (0, false)).2) &&
          !(if hasAlloc then sinter set0 allocated else set0).isEmpty then
        match sminStr (if hasAlloc then sinter set0 allocated else set0) with
        | none => (s, .ok (if hasAlloc then sinter set0 allocated else set0))
        | some n =>
          match (allocateDuringFilter s (keyOf pod) resv n
              { policy := policyOf pod, node := "", uid := pod.uid } ch.pick).2 with
          | .ok => ((allocateDuringFilter s (keyOf pod) resv n
              { policy := policyOf pod, node := "", uid := pod.uid } ch.pick).1, .ok [n])
          | e => ((allocateDuringFilter s (keyOf pod) resv n
              { policy := policyOf pod, node := "", uid := pod.uid } ch.pick).1, .error e)
      else (s, .ok (if hasAlloc then sinter set0 allocated else set0))

/-- intersection of the node subnets of the addresses already owned (seeded on the first one) -/
def allocatedSubnets (s : State) : List IP → List Subnet
  | [] => []
  | ip :: t => t.foldl (fun acc j => sinter acc (subnetsOf s.pools j)) (subnetsOf s.pools ip)

/-- the requested range lists for which the key owns nothing yet -/
def unfoundRanges (infos : List (Option IP)) (rss : List (List (Nat × Nat))) : List (List (Nat × Nat)) :=
  (infos.zip rss).filterMap (fun x => if x.1.isNone then some x.2 else none)

/-- `getSubnet(pod)` incl. `allocateDuringFilter` -/
def getSubnet (s : State) (pod : Pod) (ch : Choice) : State × Except Res (List Subnet) :=
  if pod.ranges.isEmpty then
    match byKeyAndRanges s (keyOf pod) pod.ranges with
    | [] => getSubnetCont s pod ch [] false []
    | infos =>
      -- `ipInfos[0].NodeSubnets`: any owned address may be first
      match pickFirst infos ch.first with
      | none => (s, .error .inadmissible)
      | some ip => (s, .ok (subnetsOf s.pools ip))
  else if (unfoundRanges (byKeyAndRanges s (keyOf pod) pod.ranges) pod.ranges).isEmpty then
    (s, .ok (allocatedSubnets s ((byKeyAndRanges s (keyOf pod) pod.ranges).filterMap id)))
  else
    getSubnetCont s pod ch (unfoundRanges (byKeyAndRanges s (keyOf pod) pod.ranges) pod.ranges)
      (!((byKeyAndRanges s (keyOf pod) pod.ranges).filterMap id).isEmpty)
      (allocatedSubnets s ((byKeyAndRanges s (keyOf pod) pod.ranges).filterMap id))

def filterNodes (s : State) (set : List Subnet) : List String → List String → State × List String
  | [], acc => (s, acc)
  | n :: t, acc =>
    let c := getNodeSubnet s n
    match c.2 with
    | none => filterNodes c.1 set t acc
    | some sn => if set.contains sn then filterNodes c.1 set t (acc ++ [n]) else filterNodes c.1 set t acc

/-- `Filter(pod, nodes)`; the pod object is the scheduler's (API truth) -/
def filter (s : State) (ns name : String) (nodes : List String) (ch : Choice) : State × Out :=
  match s.pods.get (ns, name) with
  | none => (s, Out.err "not-found")
  | some pod =>
    if !pod.wants then (s, { nodes := nodes })
    else
      let g := getSubnet s pod ch
      match g.2 with
      | .error .inadmissible => (s, Out.bad)
      | .error e => (g.1, { res := e })
      | .ok set =>
        let f := filterNodes g.1 set nodes []
        (f.1, { nodes := f.2 })

/-- `Preempt(args)` (`preempt.go`): which of the candidate nodes stay candidates for the preemptor.  It runs `getSubnet` -
    allocation during filter included - WITHOUT the pod lock and without the resource-name check; on an error of
    `getSubnet` every node stays.  (At move granularity it is a Filter variant; that its unlocked allocation is harmless
    in ANY interleaving is `preempt_alloc_any_time` in Lemmas/PluginPreempt.lean.) -/
def preempt (s : State) (ns name : String) (nodes : List String) (ch : Choice) : State × Out :=
  match s.pods.get (ns, name) with
  | none => (s, Out.err "not-found")
  | some pod =>
    if policyOf pod = 0 then (s, { nodes := nodes })
    else
      match (getSubnet s pod ch).2 with
      | .error .inadmissible => (s, Out.bad)
      | .error _ => ((getSubnet s pod ch).1, { nodes := nodes })
      | .ok set =>
        ((filterNodes (getSubnet s pod ch).1 set nodes []).1, { nodes := (filterNodes (getSubnet s pod ch).1 set nodes []).2 })

/-! ## Bind (`bind.go`) -/

/-- assign + updateAttr loop of `allocateIP` -/
def bindLoop (s : State) (k : Key) (node : String) (a : Attr) (reservedIPs : List IP) : List IP → State × Res
  | [] => (s, .ok)
  | ip :: t =>
    let p := provAssign s node ip
    if !p.2 then (p.1, .err "provider")
    else if reservedIPs.contains ip then
      let u := updateAttr p.1 k ip a
      match u.2 with
      | .ok => bindLoop u.1 k node a reservedIPs t
      | e => (u.1, e)
    else bindLoop p.1 k node a reservedIPs t

/-- `ipInfos[:1]` when no ranges are requested (`none` = inadmissible choice) -/
def bindInfos (s : State) (pod : Pod) (ch : Choice) : Option (List (Option IP)) :=
  if pod.ranges.isEmpty && !(byKeyAndRanges s (keyOf pod) pod.ranges).isEmpty then
    (pickFirst (byKeyAndRanges s (keyOf pod) pod.ranges) ch.first).map (fun ip => [some ip])
  else some (byKeyAndRanges s (keyOf pod) pod.ranges)

/-- the allocation step of `allocateIP`: node subnet, `AllocateInSubnetsAndIPRange`, second `ByKeyAndIPRanges` -/
def bindAlloc (s : State) (pod : Pod) (node : String) (a : Attr) (infos : List (Option IP)) (pick : Option IP) :
    State × Res × List (Option IP) :=
  if !(unfoundRanges infos pod.ranges).isEmpty || infos.isEmpty then
    match (queryNodeSubnet s node).2 with
    | none => ((queryNodeSubnet s node).1, .err "no-subnet", [])
    | some n =>
      ((allocateInSubnetsAndRanges (queryNodeSubnet s node).1 (keyOf pod) n (unfoundRanges infos pod.ranges) a pick).1,
       (allocateInSubnetsAndRanges (queryNodeSubnet s node).1 (keyOf pod) n (unfoundRanges infos pod.ranges) a pick).2,
       byKeyAndRanges (allocateInSubnetsAndRanges (queryNodeSubnet s node).1 (keyOf pod) n
         (unfoundRanges infos pod.ranges) a pick).1 (keyOf pod) pod.ranges)
  else (s, .ok, infos)

/-- the pods/binding call: a failed attempt is retried (PollImmediate), so a single fault is absorbed; NotFound
    queues the lister's pod object for unbinding -/
def bindCommit (s : State) (pod : Pod) (ns name : String) (uid : Nat) (node : String) (ips : List IP) : State × Out :=
  match (if s.api.2 then s.api.1.api.1 else s.api.1).pods.get (ns, name) with
  | none =>
    ({ (if s.api.2 then s.api.1.api.1 else s.api.1) with
         events := (if s.api.2 then s.api.1.api.1 else s.api.1).events ++ [{ pod := pod }] }, Out.err "not-found")
  | some tp =>
    -- 409 Conflict: the uid precondition fails, or the pod is already assigned to a node
    if (uid ≠ 0 ∧ tp.uid ≠ uid) ∨ tp.node ≠ "" then ((if s.api.2 then s.api.1.api.1 else s.api.1), Out.err "conflict")
    else
      ({ (if s.api.2 then s.api.1.api.1 else s.api.1) with
           pods := (if s.api.2 then s.api.1.api.1 else s.api.1).pods.set (ns, name)
             { tp with node := node, handed := ips.map (toHInfo s) } },
       { ips := ips.map (toHInfo s) })

/-- the addresses whose stored UID the "waiting for delete event" check of `allocateIP` looks at: every record of
    the key (`ByKeyAndIPRanges(key, nil)`), or - before the fix - only the ones found for the requested ranges -/
def bindGuardIPs (F : Facts) (s : State) (pod : Pod) (infos : List (Option IP)) : List IP :=
  if F.bindUidGuardCoversWholeKey then ipsOfKey s (keyOf pod) else infos.filterMap id

/-- `bindCommit` under a crash plan: if the process is dead when it would send pods/binding, nothing is written -/
def bindCommitX (s : State) (pod : Pod) (ns name : String) (uid : Nat) (node : String) (ips : List IP) : State × Out :=
  if s.crashMode && s.api.2 then (s.api.1, Out.err "crashed") else bindCommit s pod ns name uid node ips

/-- the apiserver's answer to the Binding call as Bind's retry loop sees it in the end -/
inductive BindOutcome | ok | notFound | conflict | otherError | appliedButErrorReturned
deriving DecidableEq, Repr

/-- the answer, from API truth and the fate of the call: NotFound iff the pod is gone; Conflict iff its uid is not the
    one of the request or it is already assigned to a node -/
def bindOutcome (s : State) (ns name : String) (uid : Nat) (ans : BindAnswer) : BindOutcome :=
  if ans = .unavailable then .otherError
  else
    match s.pods.get (ns, name) with
    | none => .notFound
    | some tp =>
      if (uid ≠ 0 ∧ tp.uid ≠ uid) ∨ tp.node ≠ "" then .conflict
      else if ans = .lost then .appliedButErrorReturned else .ok

/-- queue the release event of the lister's pod (`p.unreleased <- &releaseEvent{pod: pod}`) -/
def queueRelease (s : State) (pod : Pod) : State := { s with events := s.events ++ [{ pod := pod }] }

/-- the end of Bind: the Binding call and the code's reaction to each answer.
    * ok: the pod is bound, its annotation written;
    * NotFound: the retry loop stops and the release event of the lister's pod is queued (`bindCommit` does both);
    * Conflict / any other error: retried until the 3 s are over, then the error is returned - and NOTHING is queued
      (fact `bindEnqueuesOnlyOnNotFound`; the variant that also queues on Conflict is the model with the fact false);
    * applied but error returned: the server has bound the pod, the client retries, every retry is answered
      "already assigned" (Conflict), the error is returned. -/
def bindFinish (F : Facts) (s : State) (pod : Pod) (ns name : String) (uid : Nat) (node : String) (ips : List IP)
    (ans : BindAnswer) : State × Out :=
  match bindOutcome s ns name uid ans with
  | .otherError => (s.api.1, Out.err "other")
  | .ok => bindCommitX s pod ns name uid node ips
  | .notFound => bindCommitX s pod ns name uid node ips
  | .conflict =>
    if F.bindEnqueuesOnlyOnNotFound then bindCommitX s pod ns name uid node ips
    else (queueRelease (bindCommitX s pod ns name uid node ips).1 pod, (bindCommitX s pod ns name uid node ips).2)
  | .appliedButErrorReturned =>
    match (bindCommitX s pod ns name uid node ips).2.res with
    | .ok =>
      (if F.bindEnqueuesOnlyOnNotFound then (bindCommitX s pod ns name uid node ips).1
       else queueRelease (bindCommitX s pod ns name uid node ips).1 pod, Out.err "conflict")
    | _ => bindCommitX s pod ns name uid node ips

/-- `Bind(args)`; `uid` is `args.PodUID` (the scheduler's view of the pod it binds) -/
def bind (F : Facts) (s : State) (ns name : String) (uid : Nat) (node : String) (ch : Choice) : State × Out :=
  match s.vPods.get (ns, name) with
  | none => (s, Out.err "not-found")
  | some pod =>
    if !pod.wants then (s, Out.err "bad-input")
    else if F.bindChecksListerUID && uid != 0 && pod.uid != 0 && pod.uid != uid then (s, Out.err "lister-stale")
    else
      match bindInfos s pod ch with
      | none => (s, Out.bad)
      | some infos =>
        if F.bindChecksUID && (bindGuardIPs F s pod infos).any (fun ip =>
            match s.alloc.get ip with
            | some r => r.uid != 0 && r.uid != pod.uid
            | none => false) then (s, Out.err "waiting-for-delete")
        else
          match (bindAlloc s pod node { policy := policyOf pod, node := node, uid := pod.uid } infos ch.pick).2.1 with
          | .inadmissible => (s, Out.bad)
          | .err c => ((bindAlloc s pod node { policy := policyOf pod, node := node, uid := pod.uid } infos ch.pick).1,
              Out.err c)
          | .ok =>
            match (bindLoop (bindAlloc s pod node { policy := policyOf pod, node := node, uid := pod.uid } infos ch.pick).1
                (keyOf pod) node { policy := policyOf pod, node := node, uid := pod.uid } (infos.filterMap id)
                ((bindAlloc s pod node { policy := policyOf pod, node := node, uid := pod.uid } infos
                  ch.pick).2.2.filterMap id)).2 with
            | .ok =>
              bindFinish F (bindLoop (bindAlloc s pod node { policy := policyOf pod, node := node, uid := pod.uid } infos
                  ch.pick).1 (keyOf pod) node { policy := policyOf pod, node := node, uid := pod.uid }
                  (infos.filterMap id)
                  ((bindAlloc s pod node { policy := policyOf pod, node := node, uid := pod.uid } infos
                    ch.pick).2.2.filterMap id)).1 pod ns name uid node
                ((bindAlloc s pod node { policy := policyOf pod, node := node, uid := pod.uid } infos
                  ch.pick).2.2.filterMap id) ch.answer
            | e => ((bindLoop (bindAlloc s pod node { policy := policyOf pod, node := node, uid := pod.uid } infos
                  ch.pick).1 (keyOf pod) node { policy := policyOf pod, node := node, uid := pod.uid }
                  (infos.filterMap id)
                  ((bindAlloc s pod node { policy := policyOf pod, node := node, uid := pod.uid } infos
                    ch.pick).2.2.filterMap id)).1, { res := e })

/-! ## Event delivery (`event.go` loop) -/

def deliver (F : Facts) (s : State) (i : Nat) : State × Out :=
  match s.events[i]? with
  | none => (s, Out.bad)
  | some e =>
    let s1 := { s with events := s.events.eraseIdx i }
    let u := unbind F s1 e.pod
    match u.2 with
    | .ok => (u.1, {})
    | r =>
      if e.retries + 1 > Generated.Plugin.unbindMaxRetries then (u.1, { res := r })
      else ({ u.1 with events := u.1.events ++ [{ e with retries := e.retries + 1 }] }, { res := r })

/-! ## Resync (`resync.go`) -/

/-- the filter of `fetchChecklist` -/
def inChecklist (r : Rec) : Bool :=
  r.key ≠ Key.empty && r.key.pod ≠ "" && r.key.app ≠ "" &&
    !(r.uid == 0 && r.node == "" && !r.key.isDp && r.policy == 2)

/-- what the resync closure does once the record's pod was found not running and the key is free to be handled:
    provider unassign + clearing node/uid, then unbindDp / unbindOther with the stored policy -/
def resyncAct (s1 : State) (ip : IP) (k : Key) (r : Rec) : State :=
  if s1.provOn && r.node ≠ "" then
    if !(provUnassign s1 r.node ip).2 then (provUnassign s1 r.node ip).1
    else if k.isDp then (unbindDp (reserve (provUnassign s1 r.node ip).1 k k {}).1 k r.policy).1
    else (unbindOther (reserve (provUnassign s1 r.node ip).1 k k {}).1 k r.policy).1
  else if k.isDp then (unbindDp s1 k r.policy).1 else (unbindOther s1 k r.policy).1

/-- the body of the closure in `resyncAllocatedIPs` for one checklist entry (snapshot record `r0`) -/
def resyncOne (F : Facts) (s : State) (ip : IP) (r0 : Rec) : State :=
  -- re-read under the pod lock
  match (if F.resyncRechecks then s.alloc.get ip else some r0) with
  | none => s                                   -- key changed to "" (free)
  | some r =>
    if r.key ≠ r0.key then s
    else if (podRunning F s r0.key.pod r0.key.ns r.uid).2 then (podRunning F s r0.key.pod r0.key.ns r.uid).1
    else if (keyOwnedByRunningPod F (podRunning F s r0.key.pod r0.key.ns r.uid).1 r0.key r.uid).2 then
      (keyOwnedByRunningPod F (podRunning F s r0.key.pod r0.key.ns r.uid).1 r0.key r.uid).1
    else resyncAct (keyOwnedByRunningPod F (podRunning F s r0.key.pod r0.key.ns r.uid).1 r0.key r.uid).1 ip r0.key r

def resyncLoop (F : Facts) (snap : Tbl IP Rec) (s : State) : List IP → State
  | [] => s
  | ip :: t =>
    match snap.get ip with
    | none => resyncLoop F snap s t
    | some r0 => resyncLoop F snap (resyncOne F s ip r0) t

/-- one resync pass; `order` = the order in which the checklist (a Go map dump) is processed -/
def resync (F : Facts) (s : State) (order : List IP) : State × Out :=
  let snap := s.alloc.filter (fun e => inChecklist e.2)
  let want := snap.map (·.1)
  if !(order.all want.contains && want.all order.contains && order.eraseDups.length == order.length) then (s, Out.bad)
  else (resyncLoop F snap s order, {})

/-! ## API release (`bind.go` Release) -/

/-- with a cloud provider and a recorded node: UnAssign, then clear node and uid of the key's records -/
def releasePre (s : State) (node : String) (ip : IP) (k : Key) : State × Res :=
  if s.provOn && node ≠ "" then
    if !(provUnassign s node ip).2 then ((provUnassign s node ip).1, .err "provider")
    else ((reserve (provUnassign s node ip).1 k k {}).1, okOr (reserve (provUnassign s node ip).1 k k {}).2 "store")
  else (s, .ok)

/-- Release once the key comparison passed and the record's pod was found not running (state `s1`) -/
def releaseAct (F : Facts) (s1 : State) (ip : IP) (k : Key) (uid : Nat) (node : String) : State × Out :=
  if (keyOwnedByRunningPod F s1 k uid).2 then ((keyOwnedByRunningPod F s1 k uid).1, Out.err "running")
  else
    match (releasePre (keyOwnedByRunningPod F s1 k uid).1 node ip k).2 with
    | .ok =>
      ((release (releasePre (keyOwnedByRunningPod F s1 k uid).1 node ip k).1 k ip).1,
       { res := (release (releasePre (keyOwnedByRunningPod F s1 k uid).1 node ip k).1 k ip).2 })
    | e => ((releasePre (keyOwnedByRunningPod F s1 k uid).1 node ip k).1, { res := e })

def apiRelease (F : Facts) (s : State) (ip : IP) (k : Key) : State × Out :=
  if F.releaseRechecks && ((s.alloc.get ip).map (·.key)).getD Key.empty ≠ k then
    (s, if ((s.alloc.get ip).map (·.key)).getD Key.empty = Key.empty then {} else Out.err "key-mismatch")
  else if (podRunning F s k.pod k.ns (((s.alloc.get ip).map (·.uid)).getD 0)).2 then
    ((podRunning F s k.pod k.ns (((s.alloc.get ip).map (·.uid)).getD 0)).1, Out.err "running")
  else
    releaseAct F (podRunning F s k.pod k.ns (((s.alloc.get ip).map (·.uid)).getD 0)).1 ip k
      (((s.alloc.get ip).map (·.uid)).getD 0) (((s.alloc.get ip).map (·.node)).getD "")

/-! ## Pod-IP sync (`resync.go` syncPodIPsIntoDB) -/

def syncIPs (s : State) (pod : Pod) : List IP → State
  | [] => s
  | ip :: t =>
    match s.alloc.get ip with
    | some _ => syncIPs s pod t                  -- stored under some key: nothing, or a logged conflict
    | none =>
      let a : Attr := { policy := policyOf pod, node := pod.node, uid := pod.uid }
      syncIPs (allocateSpecific s (keyOf pod) ip a).1 pod t

def syncPods (s : State) : List Pod → State
  | [] => s
  | p :: t => if p.wants && p.phase == .running then syncPods (syncIPs s p p.ips) t else syncPods s t

/-- `syncPodIPsIntoDB`: every lister pod that wants an IP, is Running and carries annotations -/
def syncPodIPs (s : State) : State × Out := (syncPods s s.vPods.vals, {})

/-! ## Reload and restart -/

/-- `updateConfigMap`: get the config map (one call), `ensureIPAMConf` -/
def reload (s : State) (pools : List Pool) : State × Out :=
  let c := s.api
  if c.2 then (c.1, Out.err "store")
  else if c.1.lastConf = some pools then (c.1, {})
  else
    let r := configurePool c.1 pools
    if !r.2 then (r.1, Out.err "store")
    else ({ r.1 with lastConf := some pools, nodeCache := [] }, {})

/-- a fresh process: informers re-listed, queued events and caches gone -/
def restartBase (s : State) : State :=
  { s with events := [], nodeCache := [], lastConf := none, vPods := s.pods, vApps := s.apps, vPoolObjs := s.poolObjs,
           resyncSnap := [], vFips := s.store ++ s.orphans }

/-- process restart: memory rebuilt from the store by `ConfigurePool(conf)` -/
def restart (s : State) : State × Out :=
  ((configurePool (restartBase s) s.pools).1, if (configurePool (restartBase s) s.pools).2 then {} else Out.err "store")

/-! ## Moves -/

inductive Move
  -- API truth (the adversary / the rest of the cluster)
  | createPod (ns name : String) (kind : Kind) (app pool : String) (policy : Nat)
      (ranges : List (List (Nat × Nat))) (wants : Bool)
  | deletePod (ns name : String)
  | finishPod (ns name : String)
  -- graceful deletion begins: deletionTimestamp is set, the update event (old, new) reaches UpdatePod at once; the pod
  -- stays in API truth (and is really deleted by a later `deletePod`)
  | markTerminating (ns name : String) (fault : Nat)
  | runPod (ns name : String)
  | scale (kind : Kind) (ns app : String) (replicas : Nat)
  | deleteApp (kind : Kind) (ns app : String)
  | setPool (name : String) (size : Option Nat)       -- none = delete the Pool object
  | listerSync (pods apps : Bool)
  | fipSync                                              -- the FloatingIP informer catches up with the store
  | dropEvent (i : Nat)
  -- plugin entry points; `fault` / `pfault` = index of the apiserver / provider call that fails (0 = none)
  | filter (ns name : String) (nodes : List String) (ch : Choice) (fault : Nat)
  | preempt (ns name : String) (nodes : List String) (ch : Choice) (fault : Nat)
  | bind (ns name : String) (uid : Uid) (node : String) (ch : Choice) (fault pfault : Nat)
  | deliver (i : Nat) (fault pfault : Nat)
  | resync (order : List IP) (fault pfault : Nat)
  -- an administrator reserves an unallocated address by creating a labelled FloatingIP object (the watch event is
  -- handled at once: the window between object and event is the IPAM-level model's subject), or gives it back
  | adminReserve (ip : IP) (text : String) (policy : Nat)
  | adminUnreserve (ip : IP)
  | resyncSnap                                          -- fetchChecklist: snapshot of the records to examine
  | resyncRec (ip : IP) (fault pfault : Nat)           -- one iteration of resyncAllocatedIPs for a snapshot entry
  | syncPodIPs (fault : Nat)
  | apiRelease (ip : IP) (k : Key) (fault pfault : Nat)
  | reload (pools : List Pool) (fault : Nat)
  | restart
deriving Repr, Inhabited

def withFaults (s : State) (fault pfault : Nat) : State :=
  { s with calls := 0, fault := fault, pcalls := 0, pfault := pfault, clock := s.clock + 1, crashMode := false }

/-- crash plan: the process dies after `k` apiserver calls and `j` provider requests of the move (whichever comes
    first in the move's own order; all pairs are covered, including combinations no real run produces) -/
def withCrash (s : State) (k j : Nat) : State :=
  { s with calls := 0, fault := k + 1, pcalls := 0, pfault := j + 1, clock := s.clock + 1, crashMode := true }

def wantsEvent (p : Pod) : Bool := p.wants

/-- a freshly created pod: pending, not scheduled, no binding annotation -/
def newPod (uid : Nat) (ns name : String) (kind : Kind) (app pool : String) (policy : Nat)
    (ranges : List (List (Nat × Nat))) (wants : Bool) : Pod :=
  { ns := ns, name := name, uid := uid, kind := kind, app := app, pool := pool, policy := policy, ranges := ranges,
    wants := wants, phase := .pending, node := "", handed := [] }

def step (F : Facts) (s : State) : Move → State × Out
  | .createPod ns name kind app pool policy ranges wants =>
    if (s.pods.get (ns, name)).isSome then (s, Out.err "already-exists")
    else
      ({ s with pods := s.pods.set (ns, name) (newPod s.nextUid ns name kind app pool policy ranges wants),
                nextUid := s.nextUid + 1 }, {})
  | .deletePod ns name =>
    match s.pods.get (ns, name) with
    | none => (s, Out.err "not-found")
    | some p =>
      ({ s with pods := s.pods.erase (ns, name),
                events := if wantsEvent p then s.events ++ [{ pod := p }] else s.events }, {})
  | .finishPod ns name =>
    match s.pods.get (ns, name) with
    | none => (s, Out.err "not-found")
    | some p =>
      if p.finished then (s, Out.err "bad-input")
      else
        let p' := { p with phase := .finished }
        ({ s with pods := s.pods.set (ns, name) p',
                  events := if wantsEvent p then s.events ++ [{ pod := p' }] else s.events }, {})
  | .markTerminating ns name fault =>
    match s.pods.get (ns, name) with
    | none => (s, Out.err "not-found")
    | some p =>
      if p.terminating then (s, Out.err "bad-input")
      else if !wantsEvent p then ({ s with pods := s.pods.set (ns, name) { p with terminating := true } }, {})
      else if !codeFinished F p && codeFinished F { p with terminating := true } then
        -- UpdatePod: `!finished(old) && finished(new)` queues the unbind (only a code whose finished() counts a pod
        -- being deleted gets here)
        ({ s with pods := s.pods.set (ns, name) { p with terminating := true },
                  events := s.events ++ [{ pod := { p with terminating := true } }] }, {})
      else if p.phase == .running then
        -- UpdatePod: syncPodIP(newPod)
        (syncIPs (withFaults { s with pods := s.pods.set (ns, name) { p with terminating := true } } fault 0)
          { p with terminating := true } p.ips, {})
      else ({ s with pods := s.pods.set (ns, name) { p with terminating := true } }, {})
  | .runPod ns name =>
    match s.pods.get (ns, name) with
    | none => (s, Out.err "not-found")
    | some p =>
      if p.phase ≠ .pending ∨ p.node = "" then (s, Out.err "bad-input")
      else ({ s with pods := s.pods.set (ns, name) { p with phase := .running } }, {})
  | .scale kind ns app replicas => ({ s with apps := s.apps.set (kind, ns, app) replicas }, {})
  | .deleteApp kind ns app => ({ s with apps := s.apps.erase (kind, ns, app) }, {})
  | .setPool name size =>
    match size with
    | some n => ({ s with poolObjs := s.poolObjs.set name n }, {})
    | none => ({ s with poolObjs := s.poolObjs.erase name }, {})
  | .listerSync pods apps =>
    let s1 := if pods then { s with vPods := s.pods } else s
    (if apps then { s1 with vApps := s1.apps, vPoolObjs := s1.poolObjs } else s1, {})
  | .fipSync => ({ s with vFips := s.store ++ s.orphans }, {})
  | .dropEvent i =>
    if i < s.events.length then ({ s with events := s.events.eraseIdx i }, {}) else (s, Out.bad)
  | .filter ns name nodes ch fault => filter (withFaults s fault 0) ns name nodes ch
  | .preempt ns name nodes ch fault => preempt (withFaults s fault 0) ns name nodes ch
  | .bind ns name uid node ch fault pfault => bind F (withFaults s fault pfault) ns name uid node ch
  | .deliver i fault pfault => deliver F (withFaults s fault pfault) i
  | .resync order fault pfault => resync F (withFaults s fault pfault) order
  | .resyncSnap => ({ s with resyncSnap := s.alloc.filter (fun e => inChecklist e.2) }, {})
  | .resyncRec ip fault pfault =>
    match s.resyncSnap.get ip with
    | none => (s, Out.bad)
    | some r0 =>
      if !inChecklist r0 then (s, Out.bad)      -- (never: the snapshot is filtered by `inChecklist`)
      else ({ resyncOne F (withFaults s fault pfault) ip r0 with resyncSnap := s.resyncSnap.erase ip }, {})
  | .adminReserve ip text policy =>
    if text = "" then (s, Out.err "bad-input")
    else if !s.free.contains ip then (s, Out.err "not-free")
    else
      ({ s with store := s.store.set ip { key := adminKey text, policy := policy, node := "", uid := 0, reserved := true, ts := s.clock },
                alloc := s.alloc.set ip { key := adminKey text, policy := policy, node := "", uid := 0, reserved := true, ts := s.clock },
                free := s.free.filter (· ≠ ip),
                admin := s.admin.set ip { key := adminKey text, policy := policy, node := "", uid := 0, reserved := true, ts := s.clock } }, {})
  | .adminUnreserve ip =>
    -- the administrator deletes the labelled object; `handleFIPUnassign` drops the cached record if it is (still) the
    -- reservation
    match s.alloc.get ip with
    | none => (s, Out.err "not-found")
    | some r =>
      if !(r.reserved && r.key.isAdmin) then (s, Out.err "not-reserved")
      else
        ({ s with store := s.store.erase ip, alloc := s.alloc.erase ip, free := ip :: s.free.filter (· ≠ ip),
                  admin := s.admin.erase ip }, {})
  | .syncPodIPs fault => syncPodIPs (withFaults s fault 0)
  | .apiRelease ip k fault pfault => apiRelease F (withFaults s fault pfault) ip k
  | .reload pools fault => reload (withFaults s fault 0) pools
  | .restart => restart (withFaults s 0 0)

/-- the move executed under a crash plan (moves without apiserver / provider calls are unaffected) -/
def stepCrash (F : Facts) (k j : Nat) (s : State) : Move → State × Out
  | .filter ns name nodes ch _ => filter (withCrash s k j) ns name nodes ch
  | .preempt ns name nodes ch _ => preempt (withCrash s k j) ns name nodes ch
  | .bind ns name uid node ch _ _ => bind F (withCrash s k j) ns name uid node ch
  | .deliver i _ _ => deliver F (withCrash s k j) i
  | .resync order _ _ => resync F (withCrash s k j) order
  | .resyncRec ip _ _ =>
    match s.resyncSnap.get ip with
    | none => (s, Out.bad)
    | some r0 =>
      if !inChecklist r0 then (s, Out.bad)
      else ({ resyncOne F (withCrash s k j) ip r0 with resyncSnap := s.resyncSnap.erase ip }, {})
  | .syncPodIPs _ => syncPodIPs (withCrash s k j)
  | .apiRelease ip key _ _ => apiRelease F (withCrash s k j) ip key
  | .reload pools _ => reload (withCrash s k j) pools
  | m => step F s m

/-- the configuration a process started after the crash loads: the config map's (the one a crashed reload was
    applying), else the one in force -/
def confAfter (s : State) : Move → List Pool
  | .reload pools _ => sortPools pools
  | _ => s.pools

/-- the process dies during move `m` after `k` apiserver calls / `j` provider requests and is started again: memory,
    informer caches, the event queue and a resync pass in progress are gone (pending delete / finish events are LOST),
    the new process rebuilds memory from the store by `ConfigurePool` -/
def crashAt (F : Facts) (k j : Nat) (s : State) (m : Move) : State :=
  (restart (withFaults { (stepCrash F k j s m).1 with pools := confAfter (stepCrash F k j s m).1 m } 0 0)).1

/-- initial state: plugin constructed with `conf`, `Init()` = `ConfigurePool` on an empty store -/
def init (c : Conf) : State :=
  let ps := sortPools c.pools
  { pools := ps, free := allIPs ps, nodes := c.nodes, provOn := c.provider }

/-- a move whose choice is inadmissible leaves the state untouched (the clock tick included) -/
def next (F : Facts) (s : State) (m : Move) : State :=
  let r := step F s m
  match r.2.res with
  | .inadmissible => s
  | _ => r.1

def run (F : Facts) (s : State) (ms : List Move) : State := ms.foldl (next F) s

end Galaxy.Plugin
