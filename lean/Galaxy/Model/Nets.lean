/-
  M1 `Nets`: IPv4 addresses as 32-bit numbers, inclusive ranges, their size /
  membership / enumeration, the walk of `walkIPRanges`, and the text codecs
  (dotted quad, `a~b` range, CIDR) of pkg/utils/nets/ip.go.

  All integer code is taken from `Galaxy.Generated.Nets` (regenerated from /repo
  by tools/factgen/cmd/nets on every check): this file only adds the list /
  text structure around it.  Core Lean only.

  Text is `List Char` where a character stands for one byte of the Go string
  (the parsers accept ASCII digits and `.` `~` `/` only, so any other byte —
  including the bytes of a multi-byte rune — simply makes them fail, exactly as
  in Go).
-/
import Galaxy.Generated.Nets

namespace Galaxy.Nets
open Galaxy.Generated.Nets

abbrev IPv4 := BitVec 32

/-- `nets.IPRange` with both ends present (`First`, `Last` as `IPToInt` sees them). -/
structure Range where
  first : IPv4
  last : IPv4
deriving DecidableEq, Repr

/-- `IPRange.Size` (uint32, wraps around for 0.0.0.0~255.255.255.255). -/
def Range.size (r : Range) : BitVec 32 := rangeSize r.first r.last

/-- `IPRange.Contains`. -/
def Range.contains (r : Range) (ip : IPv4) : Bool := rangeContains r.first r.last ip

/-- The addresses of one range in increasing order: `first, first+1, …, last` (empty if `first > last`). -/
def Range.enumerate (r : Range) : List IPv4 :=
  (List.range' r.first.toNat (r.last.toNat + 1 - r.first.toNat)).map (BitVec.ofNat 32)

/-- The addresses of a list of ranges, range after range. -/
def enumerate : List Range → List IPv4
  | [] => []
  | r :: rs => r.enumerate ++ enumerate rs

/-- Number of addresses of a range as a natural number (no wrap-around). -/
def Range.card (r : Range) : Nat := r.last.toNat + 1 - r.first.toNat

/-- `SparseSubnet.Size`: uint32 accumulation of the range sizes. -/
def sparseSize (rs : List Range) : BitVec 32 :=
  rs.foldl (fun size r => sparseSizeStep size r.size) sparseSizeInit

/-- `FloatingIPPool.Contains` / membership in a list of ranges. -/
def rangesContain (rs : List Range) (ip : IPv4) : Bool := rs.any (fun r => r.contains ip)

/-! ### The walk of `walkIPRanges`

The Go loop is `for ; cond first last; first = step first { if f(toIP first) { return } }`.
`loopFuel` is that loop with an explicit bound on the number of iterations: `none` = the bound
was hit (the loop was still running).  It is generic in the counter type so that the same
definition describes the current loop (`WalkCtr`, generated) and the pre-fix `uint32` loop. -/

/-- One `for` loop; result: addresses handed to the callback, and whether the callback stopped the walk. -/
def loopFuel {w : Nat} (cond : BitVec w → BitVec w → Bool) (step : BitVec w → BitVec w)
    (toIP : BitVec w → IPv4) (stop : IPv4 → Bool) : Nat → BitVec w → BitVec w → Option (List IPv4 × Bool)
  | 0, _, _ => none
  | fuel + 1, i, last =>
    if cond i last then
      if stop (toIP i) then some ([toIP i], true)
      else match loopFuel cond step toIP stop fuel (step i) last with
        | none => none
        | some (v, s) => some (toIP i :: v, s)
    else some ([], false)

/-- Outer `for _, r := range ranges`, generic in the inner loop. -/
def walkWith (inner : Range → Option (List IPv4 × Bool)) : List Range → Option (List IPv4)
  | [] => some []
  | r :: rs =>
    match inner r with
    | none => none
    | some (v, true) => some v
    | some (v, false) =>
      match walkWith inner rs with
      | none => none
      | some v' => some (v ++ v')

/-- The current `walkIPRanges` (counter type, condition, increment and conversion regenerated from the source). -/
def walkFuel (fuel : Nat) (stop : IPv4 → Bool) (rs : List Range) : Option (List IPv4) :=
  walkWith (fun r => loopFuel walkCond walkStep walkIP stop fuel (walkInit r.first) (walkInit r.last)) rs

/-- The pre-fix loop (defect D1): `first, last := IPToInt(..)` as `uint32`, `for ; first <= last; first++`. -/
def walkFuel32 (fuel : Nat) (stop : IPv4 → Bool) (rs : List Range) : Option (List IPv4) :=
  walkWith (fun r => loopFuel (w := 32) (fun i l => decide (i ≤ l)) (fun i => i + 1#32) (fun i => i) stop fuel r.first r.last) rs

/-- A number of iterations that always suffices for the current loop. -/
def walkBound (rs : List Range) : Nat := (rs.map Range.card).sum + 1

/-- Executable walk (used by the driver): the fuel model with a sufficient bound. -/
def walk (stop : IPv4 → Bool) (rs : List Range) : Option (List IPv4) := walkFuel (walkBound rs) stop rs

/-- What a walk over the address list `l` hands to `stop`: everything up to and including the first hit. -/
def visited (stop : IPv4 → Bool) : List IPv4 → List IPv4
  | [] => []
  | x :: xs => if stop x then [x] else x :: visited stop xs

/-! ### Decimal and dotted-quad text -/

def digitChar (d : Nat) : Char := Char.ofNat (48 + d)

def digitVal (c : Char) : Option Nat :=
  if 48 ≤ c.toNat ∧ c.toNat ≤ 57 then some (c.toNat - 48) else none

/-- Decimal text of a number below 1000 without leading zeros (`strconv.Itoa` on that domain). -/
def showSmall (n : Nat) : List Char :=
  if n < 10 then [digitChar n]
  else if n < 100 then [digitChar (n / 10), digitChar (n % 10)]
  else [digitChar (n / 100), digitChar (n / 10 % 10), digitChar (n % 10)]

/-- One field of a dotted quad as `netip.parseIPv4Fields` accepts it: 1–3 digits, no leading zero, value ≤ 255. -/
def parseOctet : List Char → Option Nat
  | [a] => digitVal a
  | [a, b] =>
    match digitVal a, digitVal b with
    | some x, some y => if x = 0 then none else some (10 * x + y)
    | _, _ => none
  | [a, b, c] =>
    match digitVal a, digitVal b, digitVal c with
    | some x, some y, some z =>
      if x = 0 then none else if 100 * x + 10 * y + z ≤ 255 then some (100 * x + 10 * y + z) else none
    | _, _, _ => none
  | _ => none

/-- Decimal number as `net.dtoi` reads the prefix length: non-empty, digits only, leading zeros allowed. -/
def parseDecAux : Nat → List Char → Option Nat
  | acc, [] => some acc
  | acc, c :: cs =>
    match digitVal c with
    | some d => parseDecAux (10 * acc + d) cs
    | none => none

def parseDec : List Char → Option Nat
  | [] => none
  | cs => parseDecAux 0 cs

/-- Split at the first occurrence of `sep` (`strings.SplitN(s, sep, 2)` / `IndexByte`); `none` if absent. -/
def splitFirst (sep : Char) : List Char → Option (List Char × List Char)
  | [] => none
  | c :: cs =>
    if c = sep then some ([], cs)
    else match splitFirst sep cs with
      | none => none
      | some (a, b) => some (c :: a, b)

/-- byte `k` of the address, `k = 3` the most significant (big-endian: the first field of the dotted quad) -/
def octet (a : IPv4) (k : Nat) : Nat := a.toNat / 256 ^ k % 256

/-- `net.IP.String` of an IPv4 address. -/
def showIPv4 (a : IPv4) : List Char :=
  showSmall (octet a 3) ++ '.' :: (showSmall (octet a 2) ++ '.' :: (showSmall (octet a 1) ++ '.' :: showSmall (octet a 0)))

/-- `net.ParseIP` restricted to dotted-quad text (the model's domain). -/
def parseIPv4 (s : List Char) : Option IPv4 :=
  match splitFirst '.' s with
  | none => none
  | some (f1, r1) =>
    match splitFirst '.' r1 with
    | none => none
    | some (f2, r2) =>
      match splitFirst '.' r2 with
      | none => none
      | some (f3, f4) =>
        match parseOctet f1, parseOctet f2, parseOctet f3, parseOctet f4 with
        | some a, some b, some c, some d => some (BitVec.ofNat 32 (a * 16777216 + b * 65536 + c * 256 + d))
        | _, _, _, _ => none

/-- `IPRange.String`: a single address is printed alone, otherwise `first~last`. -/
def showRange (r : Range) : List Char :=
  if r.first = r.last then showIPv4 r.first else showIPv4 r.first ++ ipRangeSepChar :: showIPv4 r.last

/-- `nets.ParseIPRange`. -/
def parseRange (s : List Char) : Option Range :=
  match splitFirst ipRangeSepChar s with
  | some (a, b) =>
    match parseIPv4 a, parseIPv4 b with
    | some first, some last => if parseRangeReject first last then none else some ⟨first, last⟩
    | _, _ => none
  | none =>
    match parseIPv4 s with
    | some ip => some ⟨ip, ip⟩
    | none => none

/-- An IPv4 CIDR as `net.ParseCIDR` returns it, address NOT masked (`ips.ParseCIDR`, `nets.IPNet.UnmarshalJSON`):
    address and prefix length. -/
abbrev Cidr := IPv4 × Nat

def showCidr (c : Cidr) : List Char := showIPv4 c.1 ++ '/' :: showSmall c.2

def parseCidr (s : List Char) : Option Cidr :=
  match splitFirst '/' s with
  | none => none
  | some (a, m) =>
    match parseIPv4 a, parseDec m with
    | some ip, some n => if n ≤ 32 then some (ip, n) else none
    | _, _ => none

/-- `net.CIDRMask(n, 32)` as a 32-bit number. -/
def mask (n : Nat) : IPv4 := BitVec.allOnes 32 <<< (32 - n)

/-- `ip.Mask(net.CIDRMask(n, 32))`. -/
def maskIP (ip : IPv4) (n : Nat) : IPv4 := ip &&& mask n

end Galaxy.Nets
