/-
  M8 — the garbage collector's decision and its two file collectors (property C17).

  Mirrors pkg/gc/flannel_gc.go:
    shouldCleanup (docker branch and containerd/CRI branch)  → `shouldCleanup`
    cleanupIP      (one pass over the allocated-IP directories) → `sweepIPDir`, `sweepIPDirs`
    cleanupGCDirs  (one pass over gc_dirs, port-clean callback) → `sweepGCDir`, `sweepGCDirs`
  cleanupVeth is out of scope.

  The docker state strings come from `Galaxy.Generated.Gc` (regenerated from /repo on every run).
  Core Lean only.
-/
import Galaxy.Generated.Gc

namespace Galaxy.Gc
open Galaxy.Generated.Gc

/-! ### what the runtime answers to one inspect call -/

/-- docker: `DockerInspectContainer(cid)` -/
inductive DockerOutcome where
  | notFound                      -- 404 → docker.ContainerNotFoundError
  | error                         -- any other error: 5xx, connection refused, timeout, undecodable body
  | state (s : Option String)     -- 200; `none` = no State object, `some s` = State.Status
  deriving DecidableEq, Repr

/-- one entry of `pod.Status.ContainerStatuses`: which of the state pointers are set -/
structure CState where
  waiting : Bool
  running : Bool
  deriving DecidableEq, Repr

/-- `kubeCli.CoreV1().Pods(ns).Get(name)` for the sandbox's pod -/
inductive PodLookup where
  | notFound
  | error                         -- any other API error
  | found (statuses : List CState)
  deriving DecidableEq, Repr

/-- containerd / CRI: `PodSandboxStatus(cid)` -/
inductive CriOutcome where
  | notFound                      -- gRPC status NotFound
  | error                         -- any other gRPC code, or an error that is not a gRPC status
  | nilStatus                     -- response without a status object
  | ready                         -- SANDBOX_READY
  | notReady (pod : PodLookup)    -- SANDBOX_NOTREADY, then the pod is looked up
  deriving DecidableEq, Repr

inductive InspectOutcome where
  | docker (o : DockerOutcome)
  | cri (o : CriOutcome)
  deriving DecidableEq, Repr

/-- `flannelGC.shouldCleanup` as a function of what the runtime (and the API server) answered -/
def shouldCleanup : InspectOutcome → Bool
  | .docker .notFound => true
  | .docker .error => false
  | .docker (.state none) => false
  | .docker (.state (some s)) => exitedStates.contains s
  | .cri .notFound => true
  | .cri .error => false
  | .cri .nilStatus => false
  | .cri .ready => false
  | .cri (.notReady .notFound) => true
  | .cri (.notReady .error) => false
  | .cri (.notReady (.found sts)) => !(sts.any (fun s => s.waiting || s.running))

/-! ### the property's vocabulary, written independently of `shouldCleanup` -/

/-- the container no longer exists or has exited -/
inductive Dead : InspectOutcome → Prop where
  | dockerNotFound : Dead (.docker .notFound)
  | dockerExited : Dead (.docker (.state (some "exited")))
  | dockerDead : Dead (.docker (.state (some "dead")))
  | criNotFound : Dead (.cri .notFound)
  | criPodGone : Dead (.cri (.notReady .notFound))
  | criAllTerminated (sts : List CState) (h : ∀ s ∈ sts, s.waiting = false ∧ s.running = false) :
      Dead (.cri (.notReady (.found sts)))

/-- the runtime (or the API server) could not be asked -/
inductive RuntimeError : InspectOutcome → Prop where
  | docker : RuntimeError (.docker .error)
  | cri : RuntimeError (.cri .error)
  | pod : RuntimeError (.cri (.notReady .error))

/-- the container is there and has not exited -/
inductive Alive : InspectOutcome → Prop where
  | dockerState (s : String) (h1 : s ≠ "exited") (h2 : s ≠ "dead") : Alive (.docker (.state (some s)))
  | criReady : Alive (.cri .ready)
  | criContainerActive (sts : List CState) (s : CState) (hm : s ∈ sts) (h : s.waiting = true ∨ s.running = true) :
      Alive (.cri (.notReady (.found sts)))

/-! ### directories -/

/-- Go's `unicode.IsSpace` restricted to what `strings.TrimSpace` needs -/
def isSpace (c : Char) : Bool :=
  let n := c.toNat
  n == 9 || n == 10 || n == 11 || n == 12 || n == 13 || n == 32 || n == 0x85 || n == 0xA0 || n == 0x1680 ||
  (0x2000 ≤ n && n ≤ 0x200a) || n == 0x2028 || n == 0x2029 || n == 0x202f || n == 0x205f || n == 0x3000

def trim (s : List Char) : List Char := ((s.dropWhile isSpace).reverse.dropWhile isSpace).reverse

/-- `strings.TrimSpace(strings.Split(content, "\n")[0])` -/
def cidOfContent (content : String) : String :=
  String.ofList (trim (content.toList.takeWhile (fun c => c != '\n')))

def isDigit (c : Char) : Bool := 48 ≤ c.toNat && c.toNat ≤ 57

/-- one dotted-quad field as `net.ParseIP` accepts it: 1–3 digits, no leading zero, ≤ 255 -/
def okOctet (f : List Char) : Bool :=
  !f.isEmpty && f.length ≤ 3 && f.all isDigit && (f.length == 1 || f.head? != some '0') &&
  f.foldl (fun a c => 10 * a + (c.toNat - 48)) 0 ≤ 255

def splitDots : List Char → List (List Char)
  | [] => [[]]
  | c :: t =>
    if c = '.' then [] :: splitDots t
    else match splitDots t with
      | [] => [[c]]
      | h :: r => (c :: h) :: r

/-- the name is IPv4 text -/
def isIPv4Name (name : String) : Bool :=
  let fs := splitDots name.toList
  fs.length == 4 && fs.all okOctet

inductive Kind where
  | dir
  | file (content : String)
  deriving DecidableEq, Repr

/-- one directory entry.  `ip6` = Go's `net.ParseIP` accepts the name and it contains ':' (IPv6 text is classified by
    the standard library, not by the model). -/
structure Entry where
  name : String
  kind : Kind
  ip6 : Bool := false
  deriving DecidableEq, Repr

abbrev Dir := List Entry

/-- `len(net.ParseIP(fi.Name())) != 0` -/
def Entry.isIPName (e : Entry) : Bool := e.ip6 || isIPv4Name e.name

/-- the runtime as seen during one sweep: container id ↦ answer -/
abbrev Runtime := String → InspectOutcome

/-- cleanupIP removes this entry -/
def removesIP (rt : Runtime) (e : Entry) : Bool :=
  match e.kind with
  | .dir => false
  | .file content => e.isIPName && !content.isEmpty && shouldCleanup (rt (cidOfContent content))

/-- cleanupGCDirs removes this entry (the file name is the container id) -/
def removesGC (rt : Runtime) (e : Entry) : Bool :=
  match e.kind with
  | .dir => false
  | .file _ => shouldCleanup (rt e.name)

/-- one pass of cleanupIP over one directory (removals succeed) -/
def sweepIPDir (rt : Runtime) (d : Dir) : Dir := d.filter (fun e => !removesIP rt e)

/-- one pass of cleanupGCDirs over one directory: what is left, and the port-clean callbacks issued, in order.
    `removeLeakyStateFile` calls the callback first and removes the file whatever the callback returned. -/
def sweepGCDir (rt : Runtime) (d : Dir) : Dir × List String :=
  (d.filter (fun e => !removesGC rt e), (d.filter (removesGC rt)).map (·.name))

/-- the configured directory lists; `none` = the directory does not exist / cannot be read (skipped) -/
def sweepIPDirs (rt : Runtime) (ds : List (Option Dir)) : List (Option Dir) := ds.map (Option.map (sweepIPDir rt))

def sweepGCDirs (rt : Runtime) (ds : List (Option Dir)) : List (Option Dir) × List String :=
  (ds.map (Option.map (fun d => (sweepGCDir rt d).1)),
   (ds.map (fun o => match o with | none => [] | some d => (sweepGCDir rt d).2)).flatten)

/-! ### one pass of cleanupIP interleaved with the environment (CNI ADD / DEL while the round talks to the runtime)

  The collector lists a directory when it reaches it and then, file by file: reads the file's CURRENT content, asks
  the runtime about the container named there (one inspect call) and removes the file if that container is dead.
  The environment may move while an inspect call is in flight; `sched k` are the moves that land during the k-th
  inspect call of the round.  A move that hits the very file whose owner is being inspected falls into the window
  between read and remove that every read-inspect-remove implementation has; such moves are not applied and the run is
  flagged `inadmissible` (no claim). -/

/-- what host-local does to a reservation file: write it (new reservation, or re-use of a released address by
    another container) or delete it (release) -/
inductive EnvMove where
  | write (dir : Nat) (name : String) (content : String) (ip6 : Bool)
  | delete (dir : Nat) (name : String)
  deriving DecidableEq, Repr

def EnvMove.targets : EnvMove → Nat → String → Bool
  | .write d n _ _, j, m => d == j && n == m
  | .delete d n, j, m => d == j && n == m

/-- the allocated-IP directories, in the order of the flag; `none` = missing -/
abbrev FS := List (Option Dir)

def Dir.lookup : Dir → String → Option Entry
  | [], _ => none
  | x :: t, n => if x.name = n then some x else Dir.lookup t n

def Dir.write : Dir → Entry → Dir
  | [], e => [e]
  | x :: t, e => if x.name = e.name then e :: t else x :: Dir.write t e

def Dir.remove : Dir → String → Dir
  | [], _ => []
  | x :: t, n => if x.name = n then Dir.remove t n else x :: Dir.remove t n

def dirAt : FS → Nat → Option Dir
  | [], _ => none
  | x :: _, 0 => x
  | _ :: t, i + 1 => dirAt t i

def modifyAt (f : Dir → Dir) : FS → Nat → FS
  | [], _ => []
  | x :: t, 0 => x.map f :: t
  | x :: t, i + 1 => x :: modifyAt f t i

def FS.apply (fs : FS) : EnvMove → FS
  | .write d n c ip6 => modifyAt (fun dir => Dir.write dir ⟨n, .file c, ip6⟩) fs d
  | .delete d n => modifyAt (fun dir => Dir.remove dir n) fs d

/-- the current content of regular file `n` of directory `j` -/
def contentOf (fs : FS) (j : Nat) (n : String) : Option String :=
  match (dirAt fs j).bind (fun d => Dir.lookup d n) with
  | some e => match e.kind with
    | .file c => some c
    | .dir => none
  | none => none

/-- one removal: which file, what the collector had read, what the file contained at the moment it was removed -/
structure Removal where
  dir : Nat
  name : String
  readContent : String
  contentAtRemoval : Option String
  deriving DecidableEq, Repr

structure SweepState where
  fs : FS
  calls : Nat := 0
  log : List Removal := []
  inadmissible : Bool := false

/-- one iteration of the entry loop for listing entry `e` of directory `j` -/
def stepIPFile (rt : Runtime) (sched : Nat → List EnvMove) (j : Nat) (st : SweepState) (e : Entry) : SweepState :=
  match e.kind with
  | .dir => st                                   -- `fi.IsDir()` (from the listing)
  | .file _ =>
    if !e.isIPName then st else
    match contentOf st.fs j e.name with          -- `ioutil.ReadFile`: the CURRENT content
    | none => st                                 -- released meanwhile / unreadable
    | some c =>
      if c.isEmpty then st else
      let k := st.calls + 1                      -- the k-th inspect call of the round
      let ms := sched k
      let ok := ms.filter (fun m => !m.targets j e.name)
      let fs' := ok.foldl FS.apply st.fs
      let st' : SweepState := { st with fs := fs', calls := k, inadmissible := st.inadmissible || ok.length != ms.length }
      if shouldCleanup (rt (cidOfContent c)) then
        { st' with fs := modifyAt (fun d => Dir.remove d e.name) fs' j,
                   log := st'.log ++ [⟨j, e.name, c, contentOf fs' j e.name⟩] }
      else st'

def insertByName (e : Entry) : List Entry → List Entry
  | [] => [e]
  | x :: t => if x.name < e.name then x :: insertByName e t else e :: x :: t

/-- `ioutil.ReadDir` returns the entries sorted by file name -/
def sortByName : List Entry → List Entry
  | [] => []
  | x :: t => insertByName x (sortByName t)

/-- directory `j`: listed (`ioutil.ReadDir`: sorted by name) when the sweep reaches it -/
def sweepIPDirI (rt : Runtime) (sched : Nat → List EnvMove) (st : SweepState) (j : Nat) : SweepState :=
  match dirAt st.fs j with
  | none => st
  | some listing => (sortByName listing).foldl (stepIPFile rt sched j) st

/-- one pass of cleanupIP over all directories under the schedule `sched` -/
def sweepIPDirsI (rt : Runtime) (sched : Nat → List EnvMove) (fs : FS) : SweepState :=
  (List.range fs.length).foldl (sweepIPDirI rt sched) { fs := fs }

/-- the refactoring "ask the runtime once per container": owners of ALL files are read first, the moves land while
    the runtime is asked, then the recorded PATHS of dead owners are removed without reading again -/
def batchedSweepDir (rt : Runtime) (moves : List EnvMove) (fs : FS) (j : Nat) : FS :=
  match dirAt fs j with
  | none => fs
  | some listing =>
    let doomed := listing.filter (removesIP rt)
    let fs' := moves.foldl FS.apply fs
    doomed.foldl (fun acc e => modifyAt (fun d => Dir.remove d e.name) acc j) fs'

/-! ### port mappings (the state the callback cleans) -/

/-- the callback as galaxy wires it (`cleanIPtables`): the mapping of `cid` is removed iff the callback succeeds;
    `fails cid = true` models an iptables failure for that call. -/
def applyCallbacks (fails : String → Bool) (mappings : List String) (calls : List String) : List String :=
  calls.foldl (fun ms cid => if fails cid then ms else ms.filter (· != cid)) mappings

end Galaxy.Gc
