/-
  M8 — the garbage collector's decision and its two file collectors (property C17).

  Mirrors pkg/gc/flannel_gc.go:
    shouldCleanup (docker branch and containerd/CRI branch)  → `shouldCleanup`
    cleanupIP      (one pass over the allocated-IP directories) → `sweepIPDir`, `sweepIPDirs`
    cleanupGCDirs  (one pass over gc_dirs, port-clean callback) → `sweepGCDir`, `sweepGCDirs`
  cleanupVeth is out of scope.

  The docker state strings come from `Galaxy.Generated.Gc` (regenerated from /repo on every run).
  Core Lean only.
-/
import Galaxy.Generated.Gc

namespace Galaxy.Gc
open Galaxy.Generated.Gc

/-! ### what the runtime answers to one inspect call -/

/-- docker: `DockerInspectContainer(cid)` -/
inductive DockerOutcome where
  | notFound                      -- 404 → docker.ContainerNotFoundError
  | error                         -- any other error: 5xx, connection refused, timeout, undecodable body
  | state (s : Option String)     -- 200; `none` = no State object, `some s` = State.Status
  deriving DecidableEq, Repr

/-- one entry of `pod.Status.ContainerStatuses`: which of the state pointers are set -/
structure CState where
  waiting : Bool
  running : Bool
  deriving DecidableEq, Repr

/-- `kubeCli.CoreV1().Pods(ns).Get(name)` for the sandbox's pod -/
inductive PodLookup where
  | notFound
  | error                         -- any other API error
  | found (statuses : List CState)
  deriving DecidableEq, Repr

/-- containerd / CRI: `PodSandboxStatus(cid)` -/
inductive CriOutcome where
  | notFound                      -- gRPC status NotFound
  | error                         -- any other gRPC code, or an error that is not a gRPC status
  | nilStatus                     -- response without a status object
  | ready                         -- SANDBOX_READY
  | notReady (pod : PodLookup)    -- SANDBOX_NOTREADY, then the pod is looked up
  deriving DecidableEq, Repr

inductive InspectOutcome where
  | docker (o : DockerOutcome)
  | cri (o : CriOutcome)
  deriving DecidableEq, Repr

/-- `flannelGC.shouldCleanup` as a function of what the runtime (and the API server) answered -/
def shouldCleanup : InspectOutcome → Bool
  | .docker .notFound => true
  | .docker .error => false
  | .docker (.state none) => false
  | .docker (.state (some s)) => exitedStates.contains s
  | .cri .notFound => true
  | .cri .error => false
  | .cri .nilStatus => false
  | .cri .ready => false
  | .cri (.notReady .notFound) => true
  | .cri (.notReady .error) => false
  | .cri (.notReady (.found sts)) => !(sts.any (fun s => s.waiting || s.running))

/-! ### the property's vocabulary, written independently of `shouldCleanup` -/

/-- the container no longer exists or has exited -/
inductive Dead : InspectOutcome → Prop where
  | dockerNotFound : Dead (.docker .notFound)
  | dockerExited : Dead (.docker (.state (some "exited")))
  | dockerDead : Dead (.docker (.state (some "dead")))
  | criNotFound : Dead (.cri .notFound)
  | criPodGone : Dead (.cri (.notReady .notFound))
  | criAllTerminated (sts : List CState) (h : ∀ s ∈ sts, s.waiting = false ∧ s.running = false) :
      Dead (.cri (.notReady (.found sts)))

/-- the runtime (or the API server) could not be asked -/
inductive RuntimeError : InspectOutcome → Prop where
  | docker : RuntimeError (.docker .error)
  | cri : RuntimeError (.cri .error)
  | pod : RuntimeError (.cri (.notReady .error))

/-- the container is there and has not exited -/
inductive Alive : InspectOutcome → Prop where
  | dockerState (s : String) (h1 : s ≠ "exited") (h2 : s ≠ "dead") : Alive (.docker (.state (some s)))
  | criReady : Alive (.cri .ready)
  | criContainerActive (sts : List CState) (s : CState) (hm : s ∈ sts) (h : s.waiting = true ∨ s.running = true) :
      Alive (.cri (.notReady (.found sts)))

/-! ### directories -/

/-- Go's `unicode.IsSpace` restricted to what `strings.TrimSpace` needs -/
def isSpace (c : Char) : Bool :=
  let n := c.toNat
  n == 9 || n == 10 || n == 11 || n == 12 || n == 13 || n == 32 || n == 0x85 || n == 0xA0 || n == 0x1680 ||
  (0x2000 ≤ n && n ≤ 0x200a) || n == 0x2028 || n == 0x2029 || n == 0x202f || n == 0x205f || n == 0x3000

def trim (s : List Char) : List Char := ((s.dropWhile isSpace).reverse.dropWhile isSpace).reverse

/-- `strings.TrimSpace(strings.Split(content, "\n")[0])` -/
def cidOfContent (content : String) : String :=
  String.ofList (trim (content.toList.takeWhile (fun c => c != '\n')))

def isDigit (c : Char) : Bool := 48 ≤ c.toNat && c.toNat ≤ 57

/-- one dotted-quad field as `net.ParseIP` accepts it: 1–3 digits, no leading zero, ≤ 255 -/
def okOctet (f : List Char) : Bool :=
  !f.isEmpty && f.length ≤ 3 && f.all isDigit && (f.length == 1 || f.head? != some '0') &&
  f.foldl (fun a c => 10 * a + (c.toNat - 48)) 0 ≤ 255

def splitDots : List Char → List (List Char)
  | [] => [[]]
  | c :: t =>
    if c = '.' then [] :: splitDots t
    else match splitDots t with
      | [] => [[c]]
      | h :: r => (c :: h) :: r

/-- the name is IPv4 text -/
def isIPv4Name (name : String) : Bool :=
  let fs := splitDots name.toList
  fs.length == 4 && fs.all okOctet

inductive Kind where
  | dir
  | file (content : String)
  deriving DecidableEq, Repr

/-- one directory entry.  `ip6` = Go's `net.ParseIP` accepts the name and it contains ':' (IPv6 text is classified by
    the standard library, not by the model). -/
structure Entry where
  name : String
  kind : Kind
  ip6 : Bool := false
  deriving DecidableEq, Repr

abbrev Dir := List Entry

/-- `len(net.ParseIP(fi.Name())) != 0` -/
def Entry.isIPName (e : Entry) : Bool := e.ip6 || isIPv4Name e.name

/-- the runtime as seen during one sweep: container id ↦ answer -/
abbrev Runtime := String → InspectOutcome

/-- cleanupIP removes this entry -/
def removesIP (rt : Runtime) (e : Entry) : Bool :=
  match e.kind with
  | .dir => false
  | .file content => e.isIPName && !content.isEmpty && shouldCleanup (rt (cidOfContent content))

/-- cleanupGCDirs removes this entry (the file name is the container id) -/
def removesGC (rt : Runtime) (e : Entry) : Bool :=
  match e.kind with
  | .dir => false
  | .file _ => shouldCleanup (rt e.name)

/-- one pass of cleanupIP over one directory (removals succeed) -/
def sweepIPDir (rt : Runtime) (d : Dir) : Dir := d.filter (fun e => !removesIP rt e)

/-- one pass of cleanupGCDirs over one directory: what is left, and the port-clean callbacks issued, in order.
    `removeLeakyStateFile` calls the callback first and removes the file whatever the callback returned. -/
def sweepGCDir (rt : Runtime) (d : Dir) : Dir × List String :=
  (d.filter (fun e => !removesGC rt e), (d.filter (removesGC rt)).map (·.name))

/-- the configured directory lists; `none` = the directory does not exist / cannot be read (skipped) -/
def sweepIPDirs (rt : Runtime) (ds : List (Option Dir)) : List (Option Dir) := ds.map (Option.map (sweepIPDir rt))

def sweepGCDirs (rt : Runtime) (ds : List (Option Dir)) : List (Option Dir) × List String :=
  (ds.map (Option.map (fun d => (sweepGCDir rt d).1)),
   (ds.map (fun o => match o with | none => [] | some d => (sweepGCDir rt d).2)).flatten)

/-! ### port mappings (the state the callback cleans) -/

/-- the callback as galaxy wires it (`cleanIPtables`): the mapping of `cid` is removed iff the callback succeeds;
    `fails cid = true` models an iptables failure for that call. -/
def applyCallbacks (fails : String → Bool) (mappings : List String) (calls : List String) : List String :=
  calls.foldl (fun ms cid => if fails cid then ms else ms.filter (· != cid)) mappings

end Galaxy.Gc
