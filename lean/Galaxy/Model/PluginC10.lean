/-
  M4-C10: what property C10 ("cloud-provider assign/unassign calls are well ordered per IP") adds to the core plugin
  model `Galaxy.Plugin` (read-only here).  Core Lean only.

  The core model already carries the provider: `State.plog` (every AssignIP / UnAssignIP request in order, with its
  outcome) and `State.assigned`; a provider call fails cleanly (no effect) when its number within the move equals the
  move's `pfault`.  Here:

  * the per-IP state machine of the property, run over a call log: `provOf` (the provider's assignment table after the
    log, a failed call having no effect), `callOK` (an AssignIP(ip, n) request finds `ip` unassigned or on `n`),
    `logOK` (every request of the log was admissible when it was issued);
  * the side conditions of the C10 theorems (`assumed10`).
-/
import Galaxy.Model.Plugin

namespace Galaxy.PluginC10
open Galaxy Galaxy.Plugin

/-- effect of one provider request on the provider's assignment table (a failed request has none) -/
def applyCall (a : Tbl IP String) : PCall → Tbl IP String
  | .assign n ip true => a.set ip n
  | .unassign _ ip true => a.erase ip
  | _ => a

/-- the provider's assignment table after a call log -/
def provOf (l : List PCall) : Tbl IP String := l.foldl applyCall []

/-- "an IP is never assigned to a second node while the provider still has it assigned to another": the request is
    admissible in provider state `a` -/
def callOK (a : Tbl IP String) : PCall → Bool
  | .assign n ip _ =>
    match a.get ip with
    | none => true
    | some m => m == n
  | .unassign _ _ _ => true

/-- every request of the log was admissible when it was issued (the log is replayed from provider state `a`) -/
def logOKFrom : Tbl IP String → List PCall → Bool
  | _, [] => true
  | a, c :: t => callOK a c && logOKFrom (applyCall a c) t

def logOK (l : List PCall) : Bool := logOKFrom [] l

/-- no pod key owns two addresses (pods request one address) -/
def singleKeys (s : State) : Bool :=
  s.alloc.all (fun e => e.2.key.pod == "" || (ipsOfKey s e.2.key).length ≤ 1)

/-- side condition of a bind: the node is named, and no address stored under the pod's key FOR THIS INCARNATION (or for no
    incarnation: uid cleared) carries ANOTHER node than the one the pod is being bound to - "no bind retry on a
    different node" (DESIGN D14: the code does not unassign from the stored node first).  Records of another incarnation
    do not matter: the bind then waits for that incarnation's delete event. -/
def bindSameNode (s : State) (ns name node : String) : Bool :=
  node ≠ "" &&
  match s.vPods.get (ns, name) with
  | none => true
  | some l => s.alloc.all (fun e => e.2.key ≠ keyOf l || (e.2.uid != 0 && e.2.uid != l.uid) || e.2.node == "" || e.2.node == node)

/-- Bind re-uses no address: nothing is stored under the pod's key for the requests, so no `UpdateAttr` call is made -/
def bindNoReuse (s : State) (ns name : String) (ch : Choice) : Bool :=
  match s.vPods.get (ns, name) with
  | none => true
  | some l =>
    match bindInfos s l ch with
    | none => true
    | some infos => (infos.filterMap id).isEmpty

/-- the side conditions of the C10 theorems, evaluated in the state a move starts from.  Apiserver faults (one failing
    call per move, index arbitrary) and provider faults are allowed in EVERY move, with one exception:
    * `bind`: `bindSameNode`, and the apiserver fault does not hit an `UpdateAttr` call - the fault index is 0 or the bind
      re-uses no address (`bindNoReuse`).  (AssignIP ok + UpdateAttr failed leaves the provider with an assignment the
      record does not name: third deviation of the code, see Props/C10.)
    * `resync`, `resyncRec`, API release: no pod key owns two addresses (`singleKeys`);
    * `restart`: no store object orphaned by a failed delete of a reload is left (there is none without a reload);
    * `reload` is not in the move set (excluded by the property's quantifier). -/
def assumed10 (s : State) : Move → Bool
  | .reload _ _ => false
  | .restart => s.orphans.isEmpty
  | .bind ns name _ node ch fault _ => (fault == 0 || bindNoReuse s ns name ch) && bindSameNode s ns name node
  | .resync _ _ _ => singleKeys s
  | .resyncRec _ _ _ => singleKeys s
  | .apiRelease _ _ _ _ => singleKeys s
  | _ => true

end Galaxy.PluginC10
