/-
  M4-C10: what property C10 ("cloud-provider assign/unassign calls are well ordered per IP") adds to the core plugin
  model `Galaxy.Plugin` (read-only here).  Core Lean only.

  The core model already carries the provider: `State.plog` (every AssignIP / UnAssignIP request in order, with its
  outcome) and `State.assigned`; a provider call fails cleanly (no effect) when its number within the move equals the
  move's `pfault`.  Here:

  * the per-IP state machine of the property, run over a call log: `provOf` (the provider's assignment table after the
    log, a failed call having no effect), `callOK` (an AssignIP(ip, n) request finds `ip` unassigned or on `n`),
    `logOK` (every request of the log was admissible when it was issued);
  * the side conditions of the C10 theorems (`assumed10`).
-/
import Galaxy.Model.Plugin

namespace Galaxy.PluginC10
open Galaxy Galaxy.Plugin

/-- effect of one provider request on the provider's assignment table (a failed request has none) -/
def applyCall (a : Tbl IP String) : PCall → Tbl IP String
  | .assign n ip true => a.set ip n
  | .unassign _ ip true => a.erase ip
  | _ => a

/-- the provider's assignment table after a call log -/
def provOf (l : List PCall) : Tbl IP String := l.foldl applyCall []

/-- "an IP is never assigned to a second node while the provider still has it assigned to another": the request is
    admissible in provider state `a` -/
def callOK (a : Tbl IP String) : PCall → Bool
  | .assign n ip _ =>
    match a.get ip with
    | none => true
    | some m => m == n
  | .unassign _ _ _ => true

/-- every request of the log was admissible when it was issued (the log is replayed from provider state `a`) -/
def logOKFrom : Tbl IP String → List PCall → Bool
  | _, [] => true
  | a, c :: t => callOK a c && logOKFrom (applyCall a c) t

def logOK (l : List PCall) : Bool := logOKFrom [] l

/-- no pod key owns two addresses (pods request one address) -/
def singleKeys (s : State) : Bool :=
  s.alloc.all (fun e => e.2.key.pod == "" || (ipsOfKey s e.2.key).length ≤ 1)

/-- side condition of a bind: the node is named, and no address stored under the pod's key FOR THIS INCARNATION (or for no
    incarnation: uid cleared) carries ANOTHER node than the one the pod is being bound to - "no bind retry on a
    different node" (DESIGN D14: the code does not unassign from the stored node first).  Records of another incarnation
    do not matter: the bind then waits for that incarnation's delete event. -/
def bindSameNode (s : State) (ns name node : String) : Bool :=
  node ≠ "" &&
  match s.vPods.get (ns, name) with
  | none => true
  | some l => s.alloc.all (fun e => e.2.key ≠ keyOf l || (e.2.uid != 0 && e.2.uid != l.uid) || e.2.node == "" || e.2.node == node)

/-- the side conditions of the C10 theorems, evaluated in the state a move starts from:
    * no apiserver fault (the property quantifies over PROVIDER calls failing cleanly; `pfault` is arbitrary);
    * reload (excluded by the property's quantifier), restart and the pod-IP sync pass are not in the move set;
    * `bind`: `bindSameNode`;
    * no pod key owns two addresses (`singleKeys`; second genuine deviation of the code, see Props/C10). -/
def assumed10 (s : State) : Move → Bool
  | .reload _ _ => false
  | .restart => false
  | .syncPodIPs _ => false
  | .filter _ _ _ _ fault => fault == 0 && singleKeys s
  | .bind ns name _ node _ fault _ => fault == 0 && singleKeys s && bindSameNode s ns name node
  | .deliver _ fault _ => fault == 0 && singleKeys s
  | .resync _ fault _ => fault == 0 && singleKeys s
  | .resyncRec _ fault _ => fault == 0 && singleKeys s
  | .apiRelease _ _ fault _ => fault == 0 && singleKeys s
  | _ => true

end Galaxy.PluginC10
