/-
  M5 (codec part) — the CNI argument codec and the IPInfo wire format (property C13).

  Mirrors, at the level of the text galaxy actually produces / consumes:

    pkg/api/cniutil/cni.go     BuildCNIArgs        → `buildArgs`   (map under an explicit iteration order π)
                               ParseCNIArgs        → `parseArgs`   (split ';', SplitN '=' 2, TrimSpace, last wins)
                               CmdAdd accumulation → `accumulate` / `accumulateAll`
    constant.IPInfo JSON       (encoding/json of []IPInfo with nets.IPNet / net.IP members)
                                                   → `encodeIPInfos` / `decodeIPInfos`
    pkg/galaxy/server.go       parseExtendedCNIArgs + resolveNetworks → `commonOf`, `networkArgs`
    cni/ipam/ipam.go           Allocate (args part) → `pluginDecode`

  Separators, key names and json tags come from `Galaxy.Generated.Args` (regenerated from /repo on every run).
  Strings are `List Char` (code points).  Core Lean only.

  Trusted, exercised by the harness and not modelled: the framing done by encoding/json (how a `json.RawMessage`
  member is cut out of the annotation; that Go prints the struct members in declaration order without blanks).
-/
import Galaxy.Model.Tbl
import Galaxy.Generated.Args

namespace Galaxy.Args
open Galaxy.Generated.Args

abbrev Str := List Char

/-! ### strings.TrimSpace / Split / SplitN / Join / TrimRight -/

/-- Go's `unicode.IsSpace` (the White_Space property), which `strings.TrimSpace` uses. -/
def isSpace (c : Char) : Bool :=
  let n := c.toNat
  n == 9 || n == 10 || n == 11 || n == 12 || n == 13 || n == 32 || n == 0x85 || n == 0xA0 || n == 0x1680 ||
  (0x2000 ≤ n && n ≤ 0x200a) || n == 0x2028 || n == 0x2029 || n == 0x202f || n == 0x205f || n == 0x3000

/-- `strings.TrimSpace` -/
def trim (s : Str) : Str := ((s.dropWhile isSpace).reverse.dropWhile isSpace).reverse

def consHead (c : Char) : List Str → List Str
  | [] => [[c]]
  | h :: r => (c :: h) :: r

/-- `strings.Split(s, sep)` for a one-character separator (never returns the empty list). -/
def splitOn (sep : Char) : Str → List Str
  | [] => [[]]
  | c :: t => if c = sep then [] :: splitOn sep t else consHead c (splitOn sep t)

/-- `strings.SplitN(s, sep, 2)`: `none` when there is no separator (Go: one part), else (before, after) the first one. -/
def cut (sep : Char) : Str → Option (Str × Str)
  | [] => none
  | c :: t => if c = sep then some ([], t) else (cut sep t).map (fun p => (c :: p.1, p.2))

/-- `strings.Join(xs, sep)` -/
def joinWith (sep : Char) : List Str → Str
  | [] => []
  | [x] => x
  | x :: y :: r => x ++ sep :: joinWith sep (y :: r)

/-- `strings.TrimRight(s, c)` for a one-character cutset -/
def trimRightChar (c : Char) (s : Str) : Str := (s.reverse.dropWhile (fun x => x == c)).reverse

/-! ### BuildCNIArgs under an iteration order -/

/-- `fmt.Sprintf("%s=%s", k, v)` -/
def buildEntry (kv : Str × Str) : Str := kv.1 ++ buildKvSep :: kv.2

/-- the entries in the order the `range` loop visits them, joined -/
def buildList (es : List (Str × Str)) : Str := joinWith buildEntrySep (es.map buildEntry)

/-- the map's entries visited in iteration order π (a list of positions into the association list) -/
def reorder (m : Tbl Str Str) (π : List Nat) : List (Str × Str) := π.filterMap (fun i => m[i]?)

/-- π is an iteration order of `m`: every position exactly once.  Go's `range` over a map may pick any. -/
def Admissible (m : Tbl Str Str) (π : List Nat) : Prop := π.Perm (List.range m.length)

instance (m : Tbl Str Str) (π : List Nat) : Decidable (Admissible m π) := by
  unfold Admissible; infer_instance

/-- `BuildCNIArgs(m)` when the runtime iterates the map in order π. -/
def buildArgs (m : Tbl Str Str) (π : List Nat) : Str := buildList (reorder m π)

/-! ### ParseCNIArgs -/

def parseEntry (t : Tbl Str Str) (e : Str) : Tbl Str Str :=
  match cut parseKvSep e with
  | none => t                                   -- `if len(part) != 2 { continue }`
  | some (k, v) => Tbl.set t (trim k) (trim v)  -- `kvMap[TrimSpace(part[0])] = TrimSpace(part[1])`

def parsePieces (t : Tbl Str Str) (ps : List Str) : Tbl Str Str := ps.foldl parseEntry t

/-- `ParseCNIArgs(s)`: the resulting map (looked up with `Tbl.get`; keys are unique by construction of `Tbl.set`). -/
def parseArgs (s : Str) : Tbl Str Str := parsePieces [] (splitOn parseEntrySep s)

/-! ### CmdAdd's accumulation across networks -/

/-- `cmdArgs.Args = strings.TrimRight(fmt.Sprintf("%s;%s", cmdArgs.Args, BuildCNIArgs(networkInfo.Args)), ";")` -/
def accumulate (prev : Str) (m : Tbl Str Str) (π : List Nat) : Str :=
  trimRightChar accTrimChar (prev ++ accSep :: buildArgs m π)

/-- the CNI_ARGS string each delegate plugin receives, in invocation order (`cmdArgs.Args` keeps growing). -/
def accumulateAll (req : Str) : List (Tbl Str Str × List Nat) → List Str
  | [] => []
  | (m, π) :: r => let a := accumulate req m π; a :: accumulateAll a r

/-! ### side conditions of the round trip -/

/-- a key survives: no entry separator, no key/value separator, no surrounding blanks -/
def WFKey (k : Str) : Prop := parseEntrySep ∉ k ∧ parseKvSep ∉ k ∧ trim k = k

/-- a value survives: no entry separator, no surrounding blanks (it may contain '=') -/
def WFVal (v : Str) : Prop := parseEntrySep ∉ v ∧ trim v = v

instance (k : Str) : Decidable (WFKey k) := by unfold WFKey; infer_instance
instance (v : Str) : Decidable (WFVal v) := by unfold WFVal; infer_instance

/-- a Go map (distinct keys) all of whose entries survive -/
def WFMap (m : Tbl Str Str) : Prop := (Tbl.keys m).Nodup ∧ ∀ kv ∈ m, WFKey kv.1 ∧ WFVal kv.2

instance (m : Tbl Str Str) : Decidable (WFMap m) := by unfold WFMap; infer_instance

/-! ### decimal numbers -/

def isDigit (c : Char) : Bool := 48 ≤ c.toNat && c.toNat ≤ 57

def digitChar (d : Nat) : Char := Char.ofNat (48 + d)

def digitVal (c : Char) : Nat := c.toNat - 48

/-- least significant digit first; `fuel > n` always suffices -/
def revDigits : Nat → Nat → List Char
  | 0, _ => []
  | f + 1, n => if n < 10 then [digitChar n] else digitChar (n % 10) :: revDigits f (n / 10)

/-- canonical decimal text (what `strconv` / `encoding/json` / `net.IP.String` print) -/
def showNat (n : Nat) : Str := (revDigits (n + 1) n).reverse

/-- value of a digit string given least significant digit first -/
def valRev : List Char → Nat
  | [] => 0
  | c :: t => digitVal c + 10 * valRev t

/-- canonical decimal number at the head of `s`: at least one digit, no leading zero (except "0" itself) -/
def parseNat (s : Str) : Option (Nat × Str) :=
  let ds := s.takeWhile isDigit
  if ds = [] then none
  else if ds.head? = some '0' ∧ ds.length ≠ 1 then none
  else some (valRev ds.reverse, s.dropWhile isDigit)

/-- literal prefix -/
def expect : Str → Str → Option Str
  | [], s => some s
  | _ :: _, [] => none
  | p :: ps, c :: cs => if p = c then expect ps cs else none

/-! ### IPInfo and its JSON text -/

structure IPv4 where
  a : Nat
  b : Nat
  c : Nat
  d : Nat
  deriving DecidableEq, Repr

def IPv4.WF (x : IPv4) : Prop := x.a < 256 ∧ x.b < 256 ∧ x.c < 256 ∧ x.d < 256
instance (x : IPv4) : Decidable x.WF := by unfold IPv4.WF; infer_instance

/-- what IPAM allocated for one IP: address, prefix length of the pool's subnet, VLAN id, gateway -/
structure IPInfo where
  ip : IPv4
  plen : Nat
  vlan : Nat
  gw : IPv4
  deriving DecidableEq, Repr

def IPInfo.WF (x : IPInfo) : Prop := x.ip.WF ∧ x.plen ≤ 32 ∧ x.vlan < 65536 ∧ x.gw.WF
instance (x : IPInfo) : Decidable x.WF := by unfold IPInfo.WF; infer_instance

def showIP (x : IPv4) : Str := showNat x.a ++ '.' :: (showNat x.b ++ '.' :: (showNat x.c ++ '.' :: showNat x.d))

def parseOctet (s : Str) : Option (Nat × Str) :=
  match parseNat s with
  | some (n, r) => if n < 256 then some (n, r) else none
  | none => none

def parseIP (s : Str) : Option (IPv4 × Str) :=
  match parseOctet s with
  | some (a, '.' :: r1) =>
    match parseOctet r1 with
    | some (b, '.' :: r2) =>
      match parseOctet r2 with
      | some (c, '.' :: r3) =>
        match parseOctet r3 with
        | some (d, r4) => some (⟨a, b, c, d⟩, r4)
        | none => none
      | _ => none
    | _ => none
  | _ => none

/-- `{"ip":"` -/
def litOpen : Str := '{' :: '"' :: (tagIP.toList ++ ['"', ':', '"'])
/-- `","vlan":` -/
def litVlan : Str := '"' :: ',' :: '"' :: (tagVlan.toList ++ ['"', ':'])
/-- `,"gateway":"` -/
def litGw : Str := ',' :: '"' :: (tagGateway.toList ++ ['"', ':', '"'])
/-- `"}` -/
def litClose : Str := ['"', '}']

/-- one element as encoding/json prints it: `{"ip":"a.b.c.d/p","vlan":v,"gateway":"a.b.c.d"}` -/
def encElem (x : IPInfo) : Str :=
  litOpen ++ (showIP x.ip ++ '/' :: (showNat x.plen ++ (litVlan ++ (showNat x.vlan ++ (litGw ++ (showIP x.gw ++ litClose))))))

def encElems : List IPInfo → Str
  | [] => []
  | [x] => encElem x
  | x :: y :: r => encElem x ++ ',' :: encElems (y :: r)

/-- the raw JSON text of the `ipinfos` member -/
def encodeIPInfos (l : List IPInfo) : Str := '[' :: (encElems l ++ [']'])

def parseElem (s : Str) : Option (IPInfo × Str) :=
  match expect litOpen s with
  | none => none
  | some r0 =>
    match parseIP r0 with
    | some (ip, '/' :: r1) =>
      match parseNat r1 with
      | none => none
      | some (plen, r2) =>
        if plen ≤ 32 then
          match expect litVlan r2 with
          | none => none
          | some r3 =>
            match parseNat r3 with
            | none => none
            | some (vlan, r4) =>
              if vlan < 65536 then
                match expect litGw r4 with
                | none => none
                | some r5 =>
                  match parseIP r5 with
                  | none => none
                  | some (gw, r6) =>
                    match expect litClose r6 with
                    | none => none
                    | some r7 => some (⟨ip, plen, vlan, gw⟩, r7)
              else none
        else none
    | _ => none

/-- elements separated by ',' up to the closing ']' (fuel bounds the number of elements) -/
def parseElems : Nat → Str → Option (List IPInfo × Str)
  | 0, _ => none
  | f + 1, s =>
    match parseElem s with
    | some (x, ',' :: r) =>
      match parseElems f r with
      | some (xs, r') => some (x :: xs, r')
      | none => none
    | some (x, ']' :: r) => some ([x], r)
    | _ => none

/-- decoder for exactly the texts `encodeIPInfos` produces (a restriction of what encoding/json accepts;
    `none` = not of the canonical shape — no claim about what Go does with such a text). -/
def decodeIPInfos (s : Str) : Option (List IPInfo) :=
  match s with
  | ['[', ']'] => some []
  | '[' :: r =>
    match parseElems r.length r with
    | some (l, []) => some l
    | _ => none
  | _ => none

/-! ### annotation → per-network args → plugin -/

/-- the annotation text `MarshalCniArgs` writes: `{"common":{"ipinfos":[…]}}`, `{"common":{}}` for no IPs (omitempty) -/
def annotationText (l : List IPInfo) : Str :=
  let inner : Str := if l.isEmpty && ipInfosOmitEmpty then [] else '"' :: (tagIPInfos.toList ++ '"' :: ':' :: encodeIPInfos l)
  '{' :: '"' :: (tagCommon.toList ++ '"' :: ':' :: '{' :: (inner ++ ['}', '}']))

/-- what galaxy's `parseExtendedCNIArgs` extracts from that annotation: member name ↦ raw member text
    (`map[string]json.RawMessage`; the framing is encoding/json's and is trusted). -/
def commonOf (l : List IPInfo) : Tbl Str Str :=
  if l.isEmpty && ipInfosOmitEmpty then [] else [(tagIPInfos.toList, encodeIPInfos l)]

/-- `resolveNetworks`: every selected network gets a copy of all common args -/
def networkArgs (common : Tbl Str Str) (n : Nat) : List (Tbl Str Str) := List.replicate n common

/-- what the plugin side (`cni/ipam.Allocate`) makes of a CNI_ARGS string -/
inductive PluginIPs where
  | ok (l : List IPInfo)   -- IPs taken from the args
  | fallback               -- no / empty `ipinfos` argument: the plugin falls back to its ipam plugin
  | empty                  -- `ipinfos=[]`: error "empty ipInfos"
  | undecodable            -- not of the canonical shape
  deriving DecidableEq, Repr

def pluginDecode (args : Str) : PluginIPs :=
  match Tbl.get (parseArgs args) ipInfosKey.toList with
  | none => .fallback
  | some [] => .fallback
  | some v =>
    match decodeIPInfos v with
    | none => .undecodable
    | some [] => .empty
    | some l => .ok l

/-- common args `common` (as extracted from the annotation), `orders.length` networks (network i's args map
    iterated in order `orders[i]`), kubelet's request args `req`: what each delegate plugin decodes. -/
def pipelineCommon (req : Str) (common : Tbl Str Str) (orders : List (List Nat)) : List PluginIPs :=
  (accumulateAll req ((networkArgs common orders.length).zip orders)).map pluginDecode

/-- the pipeline for a pod whose annotation was written by galaxy-ipam for the allocated list `l` -/
def pipeline (req : Str) (l : List IPInfo) (orders : List (List Nat)) : List PluginIPs :=
  pipelineCommon req (commonOf l) orders

end Galaxy.Args
