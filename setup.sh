#!/bin/bash
# Offline build of the framework from files on disk only.
set -e
cd "$(dirname "$0")"
export GOFLAGS=-mod=mod GOPROXY=off GOSUMDB=off GOTOOLCHAIN=local CGO_ENABLED=0
mkdir -p out/bin out/replay evidence
(cd tools/factgen && go build -o ../../out/bin/factgen .)
mkdir -p lean/Galaxy/Generated
./out/bin/factgen -repo "${GALAXY_REPO:-/repo}" -out lean/Galaxy/Generated
(cd lean && lake build)
cp "${GALAXY_REPO:-/repo}/go.sum" harness/go.sum
(cd harness && go build -tags verif -o ../out/bin/gxharness ./cmd/gxharness)
echo setup done
