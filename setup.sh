#!/bin/bash
# Offline build of the framework from files on disk only (run once after a fresh restore).
set -e
cd "$(dirname "$0")"
export GOFLAGS=-mod=mod GOPROXY=off GOSUMDB=off GOTOOLCHAIN=local CGO_ENABLED=0
REPO="${GALAXY_REPO:-/repo}"
mkdir -p out/bin out/replay evidence lean/Galaxy/Generated
# 1. translators: regenerate lean/Galaxy/Generated from the source tree
for d in tools/factgen/cmd/*/; do
  [ -d "$d" ] || continue
  a=$(basename "$d")
  (cd tools/factgen && go build -o ../../out/bin/factgen_$a ./cmd/$a)
  ./out/bin/factgen_$a -repo "$REPO" -out lean/Galaxy/Generated || {
    # source shape unknown to the translator: the checks will report it; build from the golden copy meanwhile
    [ -d tools/factgen/golden/$a ] && cp tools/factgen/golden/$a/* lean/Galaxy/Generated/
  }
done
# 2. Lean: library (models, lemmas, theorems) and every model driver whose root module exists
exes=""
for e in $(grep -o 'name = "gxdrv_[a-z]*"' lean/lakefile.toml | sed 's/name = "\(.*\)"/\1/'); do
  root=$(grep -A1 "name = \"$e\"" lean/lakefile.toml | grep root | sed 's/.*"\(.*\)"/\1/')
  [ -f "lean/$(echo "$root" | tr . /).lean" ] && exes="$exes $e"
done
(cd lean && lake build Galaxy $exes)
# 3. Go harness commands (hooks on: -tags verif), built against the source tree
cp "$REPO/go.sum" harness/go.sum
for d in harness/cmd/*/; do
  a=$(basename "$d")
  (cd harness && go build -tags verif -o ../out/bin/gxh_$a ./cmd/$a)
done
echo setup done
