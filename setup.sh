#!/bin/bash
# Offline build of the framework from files on disk only (run once after a fresh restore).
# Builds exactly what the accepted properties (checklib/ready.txt) need.
set -e
cd "$(dirname "$0")"
export GOFLAGS=-mod=mod GOPROXY=off GOSUMDB=off GOTOOLCHAIN=local CGO_ENABLED=0
REPO="${GALAXY_REPO:-/repo}"
mkdir -p out/bin out/replay evidence lean/Galaxy/Generated
T=$(python3 tools/targets.py)
FG=$(echo "$T" | sed -n 's/^factgen //p'); LEAN=$(echo "$T" | sed -n 's/^lean //p'); HAR=$(echo "$T" | sed -n 's/^harness //p')
# 1. translators: regenerate lean/Galaxy/Generated from the source tree
for a in $FG; do
  (cd tools/factgen && go build -o ../../out/bin/factgen_$a ./cmd/$a)
  ./out/bin/factgen_$a -repo "$REPO" -out lean/Galaxy/Generated || {
    # source shape unknown to the translator: the checks will report it; build from the golden copy meanwhile
    [ -d tools/factgen/golden/$a ] && cp tools/factgen/golden/$a/* lean/Galaxy/Generated/
  }
done
# 2. Lean: the property modules (with the models and lemmas below them) and the model drivers
[ -n "$LEAN" ] && (cd lean && lake build $LEAN)
# 3. Go harness commands (hooks on: -tags verif), built against the source tree
cp "$REPO/go.sum" harness/go.sum
for a in $HAR; do
  (cd harness && go build -tags verif -o ../out/bin/gxh_$a ./cmd/$a)
done
echo setup done
