// Package gc holds the fakes of the C17 harness: a docker engine HTTP endpoint and a CRI runtime gRPC endpoint
// whose answers per container id are scripted, and the token encoding of the gxdrv_gc line protocol.
package gc

import (
	"context"
	"fmt"
	"net"
	"net/http"
	"net/http/httptest"
	"os"
	"strconv"
	"strings"
	"sync"

	"google.golang.org/grpc"
	"google.golang.org/grpc/codes"
	"google.golang.org/grpc/status"
	criapi "k8s.io/cri-api/pkg/apis/runtime/v1"
)

// H encodes a string as the driver token: "-" for empty, else code points in hex joined by '.'.
func H(s string) string {
	if s == "" {
		return "-"
	}
	var b strings.Builder
	first := true
	for _, r := range s {
		if !first {
			b.WriteByte('.')
		}
		first = false
		b.WriteString(strconv.FormatInt(int64(r), 16))
	}
	return b.String()
}

// Behaviour of the runtime for one container id.
//
//	docker: running paused restarting created removing exited dead nostate notfound err500 garbage reset
//	cri:    notfound unavailable internal unknowncode nil ready
//	        nr-podgone nr-poderr nr-term nr-nostatus nr-running nr-waiting nr-mixed
type Behaviour string

// Outcome token of the driver protocol for a behaviour.
func (b Behaviour) Token(cri bool) string {
	if !cri {
		switch b {
		case "notfound":
			return "d:nf"
		case "err500", "garbage", "reset":
			return "d:err"
		case "nostate":
			return "d:nostate"
		default:
			return "d:st:" + H(string(b))
		}
	}
	switch b {
	case "notfound":
		return "c:nf"
	case "unavailable", "internal", "unknowncode":
		return "c:err"
	case "nil":
		return "c:nil"
	case "ready":
		return "c:ready"
	case "nr-podgone":
		return "c:nr:podnf"
	case "nr-poderr":
		return "c:nr:poderr"
	case "nr-term":
		return "c:nr:found:00,00"
	case "nr-nostatus":
		return "c:nr:found:-"
	case "nr-running":
		return "c:nr:found:00,01"
	case "nr-waiting":
		return "c:nr:found:10"
	case "nr-mixed":
		return "c:nr:found:00,10,01"
	}
	return "bad"
}

// Class is the harness's own reading of the property's vocabulary (written from the statement, not from the code):
// dead = the container no longer exists or has exited; alive; unknown = the runtime could not be asked / gave no state.
func (b Behaviour) Class(cri bool) string {
	if !cri {
		switch b {
		case "notfound", "exited", "dead":
			return "dead"
		case "err500", "garbage", "reset", "nostate":
			return "unknown"
		default:
			return "alive"
		}
	}
	switch b {
	case "notfound", "nr-podgone", "nr-term", "nr-nostatus":
		return "dead"
	case "unavailable", "internal", "unknowncode", "nil", "nr-poderr":
		return "unknown"
	default:
		return "alive"
	}
}

var DockerBehaviours = []Behaviour{"running", "paused", "restarting", "created", "removing", "exited", "dead", "nostate", "notfound", "err500", "garbage", "reset"}
var CriBehaviours = []Behaviour{"notfound", "unavailable", "internal", "unknowncode", "nil", "ready", "nr-podgone", "nr-poderr",
	"nr-term", "nr-nostatus", "nr-running", "nr-waiting", "nr-mixed"}

// ------------------------------------------------------------------------------------------------ docker

// FakeDocker answers GET …/containers/<id>/json according to a table; unknown ids are 404.
type FakeDocker struct {
	mu    sync.Mutex
	table map[string]Behaviour
	Calls map[string]int
	// Hook, if set, runs DURING every inspect request (before it is answered) with the 1-based number of the request
	// since the last Set and the container id asked for: the environment moving while the collector waits.
	Hook func(k int, id string)
	N    int
	Log  []string
	srv  *httptest.Server
}

func NewFakeDocker() *FakeDocker {
	f := &FakeDocker{table: map[string]Behaviour{}, Calls: map[string]int{}}
	f.srv = httptest.NewServer(http.HandlerFunc(f.serve))
	return f
}

func (f *FakeDocker) Host() string { return "tcp://" + strings.TrimPrefix(f.srv.URL, "http://") }
func (f *FakeDocker) Close()       { f.srv.Close() }

func (f *FakeDocker) Set(t map[string]Behaviour) {
	f.mu.Lock()
	defer f.mu.Unlock()
	f.table = t
	f.Calls = map[string]int{}
	f.N = 0
	f.Log = nil
	f.Hook = nil
}

// SetHook installs the during-inspect hook (nil = none) and restarts the request counter.
func (f *FakeDocker) SetHook(h func(k int, id string)) {
	f.mu.Lock()
	defer f.mu.Unlock()
	f.Hook = h
	f.N = 0
	f.Log = nil
}

// Requests returns the container ids of the inspect requests since the counter was restarted.
func (f *FakeDocker) Requests() []string {
	f.mu.Lock()
	defer f.mu.Unlock()
	return append([]string(nil), f.Log...)
}

func (f *FakeDocker) serve(w http.ResponseWriter, r *http.Request) {
	p := r.URL.Path
	i := strings.Index(p, "/containers/")
	if i < 0 || !strings.HasSuffix(p, "/json") {
		http.Error(w, `{"message":"page not found"}`, http.StatusNotFound)
		return
	}
	id := strings.TrimSuffix(p[i+len("/containers/"):], "/json")
	f.mu.Lock()
	b, ok := f.table[id]
	f.Calls[id]++
	f.N++
	k, hook := f.N, f.Hook
	f.Log = append(f.Log, id)
	f.mu.Unlock()
	if hook != nil {
		hook(k, id)
	}
	if !ok {
		b = "notfound"
	}
	switch b {
	case "notfound":
		w.WriteHeader(http.StatusNotFound)
		fmt.Fprintf(w, `{"message":"No such container: %s"}`, id)
	case "err500":
		w.WriteHeader(http.StatusInternalServerError)
		fmt.Fprint(w, `{"message":"daemon is on fire"}`)
	case "garbage":
		w.WriteHeader(http.StatusOK)
		fmt.Fprint(w, `{"Id": 12, "State": "what"`)
	case "reset":
		if hj, ok := w.(http.Hijacker); ok {
			if c, _, err := hj.Hijack(); err == nil {
				c.Close()
				return
			}
		}
		w.WriteHeader(http.StatusBadGateway)
	case "nostate":
		w.Header().Set("Content-Type", "application/json")
		fmt.Fprintf(w, `{"Id":%q,"Name":"/k8s_POD_x"}`, id)
	default:
		w.Header().Set("Content-Type", "application/json")
		fmt.Fprintf(w, `{"Id":%q,"Name":"/k8s_POD_x","State":{"Status":%q,"Running":%v,"Dead":%v}}`, id, string(b), b == "running", b == "dead")
	}
}

// ------------------------------------------------------------------------------------------------ CRI

// FakeCRI answers PodSandboxStatus according to a table; unknown ids are NotFound.
type FakeCRI struct {
	criapi.UnimplementedRuntimeServiceServer
	mu     sync.Mutex
	table  map[string]Behaviour
	Hook   func(k int, id string) // as FakeDocker.Hook
	N      int
	Log    []string
	Socket string
	gs     *grpc.Server
}

func NewFakeCRI(socket string) (*FakeCRI, error) {
	os.Remove(socket)
	l, err := net.Listen("unix", socket)
	if err != nil {
		return nil, err
	}
	f := &FakeCRI{table: map[string]Behaviour{}, Socket: socket, gs: grpc.NewServer()}
	criapi.RegisterRuntimeServiceServer(f.gs, f)
	go f.gs.Serve(l)
	return f, nil
}

func (f *FakeCRI) Close() { f.gs.Stop(); os.Remove(f.Socket) }

func (f *FakeCRI) Set(t map[string]Behaviour) {
	f.mu.Lock()
	defer f.mu.Unlock()
	f.table = t
	f.N, f.Log, f.Hook = 0, nil, nil
}

func (f *FakeCRI) SetHook(h func(k int, id string)) {
	f.mu.Lock()
	defer f.mu.Unlock()
	f.Hook, f.N, f.Log = h, 0, nil
}

func (f *FakeCRI) Requests() []string {
	f.mu.Lock()
	defer f.mu.Unlock()
	return append([]string(nil), f.Log...)
}

// PodName is the pod a not-ready sandbox of container id belongs to (namespace "ns1").
func PodName(id string, b Behaviour) string {
	if b == "nr-poderr" {
		return "errpod-" + id
	}
	return "pod-" + id
}

func (f *FakeCRI) PodSandboxStatus(ctx context.Context, req *criapi.PodSandboxStatusRequest) (*criapi.PodSandboxStatusResponse, error) {
	f.mu.Lock()
	b, ok := f.table[req.PodSandboxId]
	f.N++
	k, hook := f.N, f.Hook
	f.Log = append(f.Log, req.PodSandboxId)
	f.mu.Unlock()
	if hook != nil {
		hook(k, req.PodSandboxId)
	}
	if !ok {
		b = "notfound"
	}
	switch b {
	case "notfound":
		return nil, status.Errorf(codes.NotFound, "an error occurred when try to find sandbox %q: not found", req.PodSandboxId)
	case "unavailable":
		return nil, status.Error(codes.Unavailable, "containerd is restarting")
	case "internal":
		return nil, status.Error(codes.Internal, "boom")
	case "unknowncode":
		return nil, status.Error(codes.Unknown, "???")
	case "nil":
		return &criapi.PodSandboxStatusResponse{}, nil
	case "ready":
		return &criapi.PodSandboxStatusResponse{Status: &criapi.PodSandboxStatus{Id: req.PodSandboxId, State: criapi.PodSandboxState_SANDBOX_READY}}, nil
	default:
		return &criapi.PodSandboxStatusResponse{Status: &criapi.PodSandboxStatus{Id: req.PodSandboxId,
			State: criapi.PodSandboxState_SANDBOX_NOTREADY,
			Annotations: map[string]string{"io.kubernetes.cri.sandbox-name": PodName(req.PodSandboxId, b),
				"io.kubernetes.cri.sandbox-namespace": "ns1"}}}, nil
	}
}
