module gxverif

go 1.18

require tkestack.io/galaxy v0.0.0

replace tkestack.io/galaxy => /repo
