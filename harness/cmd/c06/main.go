// c06: property C06 (filter-approved nodes can be bound and get a routable IP).  Real Filter, then real Bind on EVERY
// approved node (fresh world per node, same deterministic prefix) and on a rejected candidate, over generated
// topologies / allocation states / requests; the five statements of the property are monitored on the real outputs
// (harness/pluginc06/monitor.go) and every history is compared with the Lean model through gxdrv_plugin.
package main

import (
	"gxverif/hx"
	"gxverif/pluginc06"
)

func main() { hx.Main("C06", pluginc06.Run) }
