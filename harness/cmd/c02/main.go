// c02: property C02 "float IP is sticky across reschedule and rolling update" against the REAL galaxy-ipam scheduler
// plugin.  Before every real Filter / Bind the reservation set of the pod's identity and of its app / pool is known
// (dump of the previous step); after the step the monitor compares what was offered / re-keyed / written into the
// binding annotation with it.  Histories re-create the same identities again and again (all workload kinds, delete
// events before / after the new pod's filter and bind, lost events, policy annotation flipping never <-> immutable,
// store faults during filter, topologies with several node subnets) and are compared step by step with gxdrv_plugin.
// Thorough: breadth-first enumeration of all move sequences <= 6 over one statefulset and one deployment identity.
package main

import (
	"math/rand"
	"time"

	"gxverif/hx"
	"gxverif/plugin"
	c3 "gxverif/pluginc03"
)

func profile(name string) c3.Profile {
	p := c3.Profile{Name: name, Len: 70, FaultPct: 5, SettlePct: 3, DropPct: 30, DelayPct: 45, Recreate: 9, PolicyFlip: true,
		Provider: 20, ScaleW: 0.6, DirectBind: 0, FilterFault: 25, TwoSubnets: true}
	return p
}

func main() {
	hx.Main("C02", func(e *hx.Env) *hx.Report {
		r := hx.NewReport("C02", e.Tier, e.Seed, c3.Rule)
		mon := plugin.Monitors(c3.MonitorDefaults, c3.MonitorC02, c3.MonitorStored)
		if e.Replay != "" {
			c3.RunFile(e, r, e.Replay, mon, false)
			return r
		}
		t0 := time.Now()
		c3.RunCorpus(e, r, "C02", mon)
		c3.Lap("C02", &t0, "corpus")
		p := profile("c02-reschedule")
		b := c3.RunScripts(e, "C02", e.N(2000, 16000), func(rng *rand.Rand) (plugin.Conf, plugin.Script, int) {
			conf := c3.GenConf3(rng, p)
			return conf, c3.NewGen3(rng, conf, p).Next, p.Len
		}, mon, c3.MonHits)
		b.Fill(r)
		c3.Lap("C02", &t0, "profile c02-reschedule")
		p2 := profile("c02-late-events")
		p2.DelayPct, p2.SettlePct, p2.FilterFault, p2.Len = 80, 1, 10, 90
		b2 := c3.RunScripts(e, "C02", e.N(1000, 8000), func(rng *rand.Rand) (plugin.Conf, plugin.Script, int) {
			conf := c3.GenConf3(rng, p2)
			return conf, c3.NewGen3(rng, conf, p2).Next, p2.Len
		}, mon, c3.MonHits)
		b2.Fill(r)
		c3.Lap("C02", &t0, "profile c02-late-events")
		b3 := plugin.RunCorrespondence(e, "C02", e.N(500, 6000), plugin.DefaultParams(), mon)
		b3.Fill(r)
		c3.Lap("C02", &t0, "profile plugin-default")
		if e.Thorough() {
			x := c3.Exhaustive02(e, "C02", mon, 6, 9*60)
			x.Fill(r)
			c3.Lap("C02", &t0, "small-scope exhaustive")
			r.Extra["exhaustive_states"] = x.HistoryFlags["exhaustive-states"]
			r.Extra["exhaustive_depth_completed"] = x.HistoryFlags["exhaustive-depth-completed"]
		}
		r.Extra["profiles"] = []string{"c02-reschedule", "c02-late-events", "plugin-default"}
		return r
	})
}
