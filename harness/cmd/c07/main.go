// c07: property C07 ("a sized IP pool never grows beyond its size").
//   - correspondence of the real plugin + the real pool API handlers (PoolController.CreateOrUpdate/preAllocateIP, wired like
//     pkg/ipam/server) with the Lean model (core moves + `apiPool`, driver extension Galaxy/Drv/PluginC07.lean run by the Lean
//     interpreter) on generated histories of up to 3 deployments x 4 pods sharing a sized pool;
//   - monitor: after every step the pool has not grown beyond the size in force;
//   - REAL concurrency: forced two-goroutine schedules (one side parked between its count and its allocation by an IPAM
//     decorator) and free-running races of 12 filters + 3 pre-allocating pool requests.
package main

import (
	"fmt"
	"os"
	"path/filepath"
	"sort"
	"time"

	"gxverif/hx"
	"gxverif/pluginc07"
)

const rule = "a history is nontrivial iff at least 3 of its operations (lister syncs not counted) succeeded, distinct by the text of its op lines; every forced schedule / race is one nontrivial case, distinct by its parameters"

func main() {
	hx.Main("C07", func(e *hx.Env) *hx.Report {
		r := hx.NewReport("C07", e.Tier, e.Seed, rule)
		if e.Replay != "" {
			pluginc07.RunFile(e, r, e.Replay, pluginc07.MonitorC07, false)
			return r
		}
		root := os.Getenv("VERIF_ROOT")
		if root == "" {
			root = "/verif"
		}
		files, _ := filepath.Glob(filepath.Join(root, "corpus", "C07", "*.ops"))
		sort.Strings(files)
		for _, f := range files {
			pluginc07.RunFile(e, r, f, pluginc07.MonitorC07, true)
		}
		t0 := time.Now()
		lap := func(what string) {
			fmt.Fprintf(os.Stderr, "C07: %s %.1fs\n", what, time.Since(t0).Seconds())
			t0 = time.Now()
		}
		b := pluginc07.RunHistories(e, "C07", "h", e.N(1500, 30000), pluginc07.Histories(45), pluginc07.MonitorC07)
		b.Fill(r)
		lap("histories")
		pluginc07.RunSchedules(e, r, "C07", e.N(24, 600))
		lap("forced schedules")
		pluginc07.RunStress(e, r, "C07", e.N(40, 1500))
		lap("free-running races")
		return r
	})
}
