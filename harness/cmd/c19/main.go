// c19 — harness of property C19 "shared state is free of data races under concurrent requests".
//
// SUPPORT + SEARCH ENGINE for the Lean proof (Props/C19.lean), in three parts:
//
//	A  table replay      the regenerated access table (through gxdrv_lockset, i.e. the Lean definitions the
//	                     theorems are about) against reality: every function of the table still exists in the
//	                     source tree (factgen freshness); every table entry that violates the lock discipline is a
//	                     monitor violation `unguarded:<field>@<func>`; every unbalanced lock `lock-leak:…`.
//	B  primitives        correspondence of the generic model M9 with the Go primitives: random lock programs are
//	                     run through the Lean semantics (discipline check + exhaustive schedule exploration) and
//	                     on real sync.Mutex / sync.RWMutex under the race detector; a program the model proves
//	                     race free must not be reported by the detector.
//	C  load              a `-race` build of cmd/c19/load: mixed concurrent load on shared galaxy-ipam and galaxy
//	                     instances, all pairs of entry points; `WARNING: DATA RACE` reports whose frames are in
//	                     product code are monitor violations `race:<func>|<func>`.
package main

import (
	"bytes"
	"encoding/json"
	"fmt"
	"go/ast"
	"go/parser"
	"go/token"
	"os"
	"os/exec"
	"path/filepath"
	"regexp"
	"sort"
	"strings"
	"sync"
	"time"

	"gxverif/hx"
)

const rule = "table part: a function counts as nontrivial when it has at least one access entry or call site in the table; " +
	"primitives part: a program is nontrivial when two threads touch a common location and at least one writes; " +
	"load part: one case per (entry point pair overlapped); distinct by content"

func repoDir() string {
	if d := os.Getenv("GALAXY_REPO"); d != "" {
		return d
	}
	return "/repo"
}

func rootDir() string {
	if d := os.Getenv("VERIF_ROOT"); d != "" {
		return d
	}
	return "/verif"
}

func goEnv(cgo string) []string {
	env := os.Environ()
	return append(env, "GOFLAGS=-mod=mod", "GOPROXY=off", "GOSUMDB=off", "GOTOOLCHAIN=local", "CGO_ENABLED="+cgo)
}

// ---------------------------------------------------------------- A: table

func funcExists(cache map[string]*ast.File, fset *token.FileSet, id, pos string) bool {
	file := pos
	if i := strings.LastIndex(pos, ":"); i >= 0 {
		file = pos[:i]
	}
	base := id
	if i := strings.Index(base, "$"); i >= 0 {
		base = base[:i]
	}
	parts := strings.Split(base, ".")
	if len(parts) < 2 {
		return false
	}
	name := parts[len(parts)-1]
	recv := ""
	if len(parts) == 3 {
		recv = parts[1]
	}
	f, ok := cache[file]
	if !ok {
		var err error
		f, err = parser.ParseFile(fset, filepath.Join(repoDir(), file), nil, 0)
		if err != nil {
			f = nil
		}
		cache[file] = f
	}
	if f == nil {
		return false
	}
	for _, d := range f.Decls {
		fd, ok := d.(*ast.FuncDecl)
		if !ok || fd.Name.Name != name {
			continue
		}
		if recv == "" && fd.Recv == nil {
			return true
		}
		if recv != "" && fd.Recv != nil && len(fd.Recv.List) == 1 {
			t := fd.Recv.List[0].Type
			if s, ok := t.(*ast.StarExpr); ok {
				t = s.X
			}
			if idt, ok := t.(*ast.Ident); ok && idt.Name == recv {
				return true
			}
		}
	}
	return false
}

func tablePart(e *hx.Env, r *hx.Report) {
	out, err := e.RunDriver("lockset", []string{"table", "violations", "unbalanced", "funcs", "reentrant", "cachewrites"})
	if err != nil {
		r.Disagree = append(r.Disagree, hx.Disagreement{Where: "lockset driver", Impl: "-", Model: err.Error(),
			Replay: e.WriteReplay("C19", "table", "driver", []string{err.Error()}, []string{"table"})})
		return
	}
	r.Extra["table"] = out[0]
	r.Sample(map[string]string{"table": out[0]})
	for _, kv := range strings.Fields(out[0]) {
		if strings.HasSuffix(kv, "=false") && !strings.HasPrefix(kv, "accessesOk") && !strings.HasPrefix(kv, "balanced") {
			r.Violations = append(r.Violations, hx.Violation{Signature: "table:" + strings.TrimSuffix(kv, "=false"),
				What:   "access table check failed: " + kv + " (a helper is called without the lock it assumes, or an init-phase function is reachable at run time)",
				Replay: e.WriteReplay("C19", "table", "check", []string{out[0]}, []string{"table"})})
		}
	}
	if out[1] != "-" {
		for _, sig := range strings.Fields(out[1]) {
			r.Hit("table:unguarded")
			r.Violations = append(r.Violations, hx.Violation{Signature: sig,
				What:   "access outside the lock discipline in the current source: " + sig,
				Replay: e.WriteReplay("C19", "table", "unguarded-"+sanitize(sig), []string{"driver op `violations` must list " + sig}, []string{"table-violation " + sig})})
		}
	}
	if out[2] != "-" {
		for _, sig := range strings.Fields(out[2]) {
			r.Hit("table:unbalanced")
			r.Violations = append(r.Violations, hx.Violation{Signature: "lock-" + sig,
				What:   "lock not released on every path (or unlocked without being held): " + sig,
				Replay: e.WriteReplay("C19", "table", "balance-"+sanitize(sig), nil, []string{"table-unbalanced " + sig})})
		}
	}
	for k, what := range map[int]string{4: "call made while holding a lock to a function that acquires it again (deadlock; for a read lock as soon as a writer queues in between)",
		5: "object obtained from a lister / informer cache is written (shared with every other reader of the cache)"} {
		if out[k] == "-" {
			continue
		}
		for _, sig := range strings.Fields(out[k]) {
			r.Hit("table:" + strings.SplitN(sig, ":", 2)[0])
			r.Violations = append(r.Violations, hx.Violation{Signature: sig, What: what + ": " + sig,
				Replay: e.WriteReplay("C19", "table", sanitize(sig), nil, []string{"table"})})
		}
	}
	cache := map[string]*ast.File{}
	fset := token.NewFileSet()
	missing := 0
	for _, fp := range strings.Fields(out[3]) {
		at := strings.LastIndex(fp, "@")
		if at < 0 {
			continue
		}
		id, pos := fp[:at], fp[at+1:]
		ok := funcExists(cache, fset, id, pos)
		r.Case("fn "+id, true)
		r.Traces++
		if ok {
			r.Hit("table:func-exists")
		} else {
			missing++
			r.Hit("table:func-missing")
			r.Disagree = append(r.Disagree, hx.Disagreement{Where: "table-freshness", Index: 0, Impl: "function not found in " + pos,
				Model: id, Replay: e.WriteReplay("C19", "table", "stale-"+sanitize(id), nil, []string{"table"})})
		}
	}
}

func sanitize(s string) string {
	return regexp.MustCompile(`[^A-Za-z0-9_.-]+`).ReplaceAllString(s, "_")
}

// ---------------------------------------------------------------- race binary

type raceBin struct {
	path   string
	race   bool
	reason string
}

func buildLoad(e *hx.Env) (*raceBin, error) {
	harness := filepath.Join(rootDir(), "harness")
	outDir := filepath.Join(rootDir(), "out", "bin")
	os.MkdirAll(outDir, 0o755)
	bin := filepath.Join(outDir, "gxh_c19_load")
	args := []string{"build"}
	if real, _ := filepath.EvalSymlinks(repoDir()); real != "/repo" && real != "" {
		mf := filepath.Join(rootDir(), "out", "go.C19load.mod")
		gm, err := os.ReadFile(filepath.Join(harness, "go.mod"))
		if err != nil {
			return nil, err
		}
		os.WriteFile(mf, []byte(strings.Replace(string(gm), "=> /repo", "=> "+real, 1)), 0o644)
		if sum, err := os.ReadFile(filepath.Join(real, "go.sum")); err == nil {
			os.WriteFile(strings.TrimSuffix(mf, ".mod")+".sum", sum, 0o644)
		}
		args = append(args, "-modfile", mf)
	}
	try := func(race bool) ([]byte, error) {
		a := append([]string{}, args...)
		cgo := "0"
		if race {
			a = append(a, "-race")
			cgo = "1"
		}
		a = append(a, "-tags", "verif", "-o", bin, "./cmd/c19/load")
		cmd := exec.Command("go", a...)
		cmd.Dir = harness
		cmd.Env = goEnv(cgo)
		return cmd.CombinedOutput()
	}
	if out, err := try(true); err == nil {
		return &raceBin{path: bin, race: true}, nil
	} else {
		reason := fmt.Sprintf("go build -race failed: %v: %s", err, tail(string(out), 600))
		if out2, err2 := try(false); err2 != nil {
			return nil, fmt.Errorf("%s; plain build failed too: %v: %s", reason, err2, tail(string(out2), 1200))
		}
		return &raceBin{path: bin, race: false, reason: reason}, nil
	}
}

func tail(s string, n int) string {
	if len(s) > n {
		return s[len(s)-n:]
	}
	return s
}

// ---------------------------------------------------------------- race report parsing

type raceReport struct {
	text   string
	frames [2]string // attributed frame of each access ("" = none)
	class  string    // product | outside
}

var frameRe = regexp.MustCompile(`^  (\S.*)\(.*\)$`)

func classifyFrame(fn, file string) string {
	switch {
	case strings.HasPrefix(fn, "runtime.") || strings.HasPrefix(fn, "sync.") || strings.HasPrefix(fn, "sync/atomic."):
		return "skip"
	case strings.HasPrefix(fn, "main.") || strings.HasPrefix(fn, "gxverif/"):
		return "harness"
	case strings.Contains(file, "verif_hooks") || strings.Contains(file, "/testing/") || strings.Contains(fn, "/fake.") ||
		strings.Contains(file, "/fake/") || strings.Contains(fn, "client-go/testing"):
		return "harness"
	case strings.HasPrefix(fn, "tkestack.io/galaxy/"):
		return "product"
	case !strings.Contains(fn, "/") || !strings.Contains(strings.SplitN(fn, "/", 2)[0], "."):
		return "skip" // standard library (import path without a dotted first element)
	case strings.Contains(fn, "k8s.io/apimachinery/pkg/util/sets"):
		return "skip" // value-like container: attribute to its user
	}
	return "library"
}

func parseRaces(stderr string) []raceReport {
	var out []raceReport
	blocks := strings.Split(stderr, "WARNING: DATA RACE")
	for _, b := range blocks[1:] {
		if i := strings.Index(b, "=================="); i >= 0 {
			b = b[:i]
		}
		rep := raceReport{text: "WARNING: DATA RACE" + b}
		// the two access stacks are the first two paragraphs
		paras := strings.Split(strings.TrimLeft(b, "\n"), "\n\n")
		for k := 0; k < 2 && k < len(paras); k++ {
			lines := strings.Split(paras[k], "\n")
			for i := 1; i+1 < len(lines); i += 2 {
				m := frameRe.FindStringSubmatch(lines[i])
				if m == nil {
					continue
				}
				fn := m[1]
				file := strings.TrimSpace(lines[i+1])
				c := classifyFrame(fn, file)
				if c == "skip" {
					continue
				}
				if c == "product" || c == "library" {
					rep.frames[k] = strings.TrimPrefix(fn, "tkestack.io/galaxy/")
				}
				break
			}
		}
		if rep.frames[0] != "" && rep.frames[1] != "" {
			rep.class = "product"
		} else {
			rep.class = "outside"
		}
		out = append(out, rep)
	}
	return out
}

func raceSig(rep raceReport) string {
	f := []string{stripClosure(rep.frames[0]), stripClosure(rep.frames[1])}
	sort.Strings(f)
	return "race:" + f[0] + "|" + f[1]
}

func stripClosure(s string) string {
	// pkg/x.(*T).M.func1 -> pkg/x.(*T).M
	return regexp.MustCompile(`(\.func\d+)+(\.\d+)*$`).ReplaceAllString(s, "")
}

// ---------------------------------------------------------------- B: primitives

type prog struct {
	guards  string
	threads string
	shared  bool
}

// genProg: deadlock-free by construction (locks acquired in increasing order, released in reverse, no re-entrance);
// `sloppy` programs drop a lock or take it shared for a write.
func genProg(e *hx.Env, sloppy bool) prog {
	nLocks, nLocs := 2+e.Rng.Intn(2), 2+e.Rng.Intn(2)
	guard := make([]int, nLocs)
	var gs []string
	for x := range guard {
		guard[x] = e.Rng.Intn(nLocks)
		gs = append(gs, fmt.Sprintf("%d:%d", x, guard[x]))
	}
	nThreads := 2 + e.Rng.Intn(2)
	var ths []string
	writes, touches := map[int]int{}, map[int]map[int]bool{}
	for t := 0; t < nThreads; t++ {
		var acts []string
		blocks := 1 + e.Rng.Intn(2)
		for b := 0; b < blocks; b++ {
			x := e.Rng.Intn(nLocs)
			write := e.Rng.Intn(2) == 0
			l := guard[x]
			mode := "acq"
			if !write && e.Rng.Intn(2) == 0 {
				mode = "racq"
			}
			drop := false
			if sloppy {
				switch e.Rng.Intn(4) {
				case 0:
					drop = true
				case 1:
					if write {
						mode = "racq"
					}
				case 2:
					l = (l + 1) % nLocks
				}
			}
			// an extra unrelated lock held around, in lock order
			extra := -1
			if e.Rng.Intn(3) == 0 {
				extra = e.Rng.Intn(nLocks)
				if extra == l {
					extra = -1
				}
			}
			type la struct {
				l    int
				mode string
			}
			var held []la
			if !drop {
				held = append(held, la{l, mode})
			}
			if extra >= 0 {
				held = append(held, la{extra, "acq"})
			}
			sort.Slice(held, func(i, j int) bool { return held[i].l < held[j].l })
			for _, h := range held {
				acts = append(acts, fmt.Sprintf("%s%d", h.mode, h.l))
			}
			if write {
				acts = append(acts, fmt.Sprintf("wr%d", x))
				writes[x]++
			} else {
				acts = append(acts, fmt.Sprintf("rd%d", x))
			}
			if touches[x] == nil {
				touches[x] = map[int]bool{}
			}
			touches[x][t] = true
			for i := len(held) - 1; i >= 0; i-- {
				rel := "rel"
				if held[i].mode == "racq" {
					rel = "rrel"
				}
				acts = append(acts, fmt.Sprintf("%s%d", rel, held[i].l))
			}
		}
		ths = append(ths, strings.Join(acts, ","))
	}
	shared := false
	for x, ts := range touches {
		if len(ts) >= 2 && writes[x] > 0 {
			shared = true
		}
	}
	return prog{guards: strings.Join(gs, ","), threads: strings.Join(ths, "|"), shared: shared}
}

func primitivesPart(e *hx.Env, r *hx.Report, rb *raceBin, progs []prog) {
	if len(progs) == 0 {
		return
	}
	var lines []string
	for _, p := range progs {
		lines = append(lines, "check "+p.guards+" "+p.threads)
	}
	out, err := e.RunDriver("lockset", lines)
	if err != nil {
		r.Disagree = append(r.Disagree, hx.Disagreement{Where: "lockset driver", Impl: "-", Model: err.Error(),
			Replay: e.WriteReplay("C19", "prog", "driver", []string{err.Error()}, lines)})
		return
	}
	goRace := make([]string, len(progs))
	if rb != nil && rb.race {
		var wg sync.WaitGroup
		sem := make(chan struct{}, 6)
		for i := range progs {
			wg.Add(1)
			sem <- struct{}{}
			go func(i int) {
				defer wg.Done()
				defer func() { <-sem }()
				cmd := exec.Command(rb.path, "-mode", "prog", "-prog", progs[i].threads, "-reps", "25", "-seed", fmt.Sprint(e.Seed))
				var eb bytes.Buffer
				cmd.Stderr = &eb
				cmd.Env = append(os.Environ(), "GORACE=halt_on_error=0 exitcode=0")
				done := make(chan error, 1)
				go func() { done <- cmd.Run() }()
				select {
				case <-done:
				case <-time.After(20 * time.Second):
					cmd.Process.Kill()
					goRace[i] = "hang"
					return
				}
				if strings.Contains(eb.String(), "WARNING: DATA RACE") {
					goRace[i] = "race"
				} else {
					goRace[i] = "none"
				}
			}(i)
		}
		wg.Wait()
	}
	for i, p := range progs {
		m := map[string]string{}
		for _, kv := range strings.Fields(out[i]) {
			if j := strings.Index(kv, "="); j > 0 {
				m[kv[:j]] = kv[j+1:]
			}
		}
		r.Case("prog "+p.guards+" "+p.threads, p.shared)
		r.Hit("prog:disc=" + m["disc"])
		if m["race"] == "none" {
			r.Hit("prog:model-race=none")
		} else if m["race"] == "unknown" {
			r.Hit("prog:model-race=unknown")
		} else {
			r.Hit("prog:model-race=found")
		}
		if len(r.Samples) < 4 {
			r.Sample(map[string]string{"prog": p.threads, "guards": p.guards, "model": out[i], "go": goRace[i]})
		}
		// the theorem itself, on the executable model: disciplined => exhaustive exploration finds no race
		if m["disc"] == "true" && m["race"] != "none" && m["race"] != "unknown" {
			r.Disagree = append(r.Disagree, hx.Disagreement{Where: "model: disciplined program has a reachable race", Index: i,
				Impl: "-", Model: out[i], Replay: e.WriteReplay("C19", "prog", fmt.Sprintf("model-%d", i), nil, []string{lines[i]})})
		}
		if goRace[i] == "" {
			continue
		}
		r.Traces++
		r.Hit("prog:go=" + goRace[i])
		if goRace[i] == "hang" {
			r.Disagree = append(r.Disagree, hx.Disagreement{Where: "primitives: generated program hung on real mutexes", Index: i,
				Impl: "hang", Model: out[i], Replay: e.WriteReplay("C19", "prog", fmt.Sprintf("hang-%d", i), nil, []string{lines[i]})})
			continue
		}
		if m["race"] == "none" && goRace[i] == "race" {
			r.Disagree = append(r.Disagree, hx.Disagreement{Where: "primitives: model explores all schedules and finds no race, Go race detector reports one",
				Index: i, Impl: "race", Model: out[i], Replay: e.WriteReplay("C19", "prog", fmt.Sprintf("go-%d", i), nil, []string{lines[i]})})
		}
		if m["race"] != "none" && m["race"] != "unknown" {
			if goRace[i] == "race" {
				r.Hit("prog:racy-detected")
			} else {
				r.Hit("prog:racy-not-observed-in-25-runs")
			}
		}
	}
}

// ---------------------------------------------------------------- C: load

type loadSummary struct {
	Ops     map[string]int `json:"ops"`
	Errs    map[string]int `json:"errors"`
	Pairs   int            `json:"pairs_overlapped"`
	PairsOf int            `json:"pairs_total"`
	Panics  []string       `json:"panics"`
	Note    string         `json:"note"`
	Wedged  []string       `json:"wedged"`
	Taken   int            `json:"reserved_taken"`
}

func loadPart(e *hx.Env, r *hx.Report, rb *raceBin, dur time.Duration, seed int64, only string) {
	args := []string{"-mode", "load", "-duration", dur.String(), "-seed", fmt.Sprint(seed)}
	if only != "" {
		args = append(args, "-only", only)
	}
	cmd := exec.Command(rb.path, args...)
	var so, se bytes.Buffer
	cmd.Stdout, cmd.Stderr = &so, &se
	cmd.Env = append(os.Environ(), "GORACE=halt_on_error=0 exitcode=0 history_size=3", "GOMAXPROCS=8")
	done := make(chan error, 1)
	start := time.Now()
	go func() { done <- cmd.Run() }()
	var runErr error
	select {
	case runErr = <-done:
	case <-time.After(dur*3 + 90*time.Second):
		cmd.Process.Kill()
		runErr = fmt.Errorf("load did not finish in %v", dur*3+90*time.Second)
	}
	replayOps := []string{fmt.Sprintf("load seed=%d duration=%s only=%s", seed, dur, only)}
	r.Extra["load_wall_s"] = time.Since(start).Seconds()
	stderr := se.String()
	var sum loadSummary
	gotSummary := false
	for _, l := range strings.Split(so.String(), "\n") {
		if strings.HasPrefix(l, "{") && json.Unmarshal([]byte(l), &sum) == nil {
			gotSummary = true
		}
	}
	if strings.Contains(stderr, "fatal error: concurrent map") {
		r.Violations = append(r.Violations, hx.Violation{Signature: "fatal:concurrent-map-access",
			What:   "the process died with a concurrent map access: " + firstProductFrame(stderr),
			Replay: e.WriteReplay("C19", "load", "fatal-map", strings.Split(tail(stderr, 3000), "\n"), replayOps)})
	} else if !gotSummary {
		r.Violations = append(r.Violations, hx.Violation{Signature: "crash:load",
			What:   fmt.Sprintf("load generator died without a summary: %v: %s", runErr, tail(stderr, 600)),
			Replay: e.WriteReplay("C19", "load", "crash", strings.Split(tail(stderr, 3000), "\n"), replayOps)})
	}
	if gotSummary {
		total := 0
		for k, v := range sum.Ops {
			r.Histogram["load:op:"+k] += v
			total += v
		}
		for k, v := range sum.Errs {
			r.Histogram["load:err:"+k] += v
		}
		r.Extra["load_pairs_overlapped"] = fmt.Sprintf("%d/%d", sum.Pairs, sum.PairsOf)
		r.Extra["load_ops_total"] = total
		if sum.Note != "" {
			r.Extra["load_note"] = sum.Note
			r.Disagree = append(r.Disagree, hx.Disagreement{Where: "load setup", Impl: sum.Note, Model: "-",
				Replay: e.WriteReplay("C19", "load", "setup", []string{sum.Note}, replayOps)})
		}
		for i := 0; i < sum.Pairs; i++ {
			r.Case(fmt.Sprintf("pair %d seed %d", i, seed), true)
		}
		r.Evaluations += total
		r.Traces += total
		r.Extra["load_filter_took_reserved_ip"] = sum.Taken
		seenW := map[string]bool{}
		for _, w := range sum.Wedged {
			if seenW[w] {
				continue
			}
			seenW[w] = true
			r.Violations = append(r.Violations, hx.Violation{Signature: "wedged:load:" + w,
				What:   "entry point " + w + " did not finish within the liveness bound under the mixed concurrent load (lock wedge): goroutine dump in the replay header",
				Replay: e.WriteReplay("C19", "load", "wedged-"+sanitize(w), strings.Split(tail(stderr, 6000), "\n"), replayOps)})
		}
		for _, p := range sum.Panics {
			if strings.Contains(p, "channel full") && (strings.Contains(p, "RaceFreeFakeWatcher") || strings.Contains(p, "client-go/testing.(*tracker)")) {
				r.Hit("load:inconclusive:fake-watcher-channel-full")
				continue
			}
			first := strings.SplitN(p, "\n", 2)[0]
			epn := strings.SplitN(first, ":", 2)[0]
			r.Violations = append(r.Violations, hx.Violation{Signature: "panic:" + epn + ":" + firstProductFrame(p),
				What:   "entry point panicked under concurrent load: " + first,
				Replay: e.WriteReplay("C19", "load", "panic-"+sanitize(epn), strings.Split(p, "\n"), replayOps)})
		}
	}
	races := parseRaces(stderr)
	r.Histogram["load:race-reports"] += len(races)
	seen := map[string]bool{}
	for _, rep := range races {
		if rep.class != "product" {
			r.Hit("load:race-outside-product")
			if _, ok := r.Extra["race_outside_product_sample"]; !ok {
				r.Extra["race_outside_product_sample"] = tail(rep.text, 1500)
			}
			continue
		}
		sig := raceSig(rep)
		if seen[sig] {
			continue
		}
		seen[sig] = true
		r.Hit("load:race-product")
		r.Violations = append(r.Violations, hx.Violation{Signature: sig,
			What:   "Go race detector: unsynchronised conflicting accesses " + sig,
			Replay: e.WriteReplay("C19", "load", sanitize(sig), strings.Split(rep.text, "\n"), replayOps)})
	}
}

func firstProductFrame(s string) string {
	re := regexp.MustCompile(`tkestack\.io/galaxy/(pkg/[^\s(]+)`)
	for _, l := range strings.Split(s, "\n") {
		if strings.Contains(l, "verif_hooks") {
			continue
		}
		if m := re.FindStringSubmatch(l); m != nil && !strings.Contains(m[1], "/testing") {
			return stripClosure(m[1])
		}
	}
	return "?"
}

// ---------------------------------------------------------------- main

func run(e *hx.Env) *hx.Report {
	r := hx.NewReport("C19", e.Tier, e.Seed, rule)
	if e.Replay != "" {
		return replay(e, r)
	}
	tablePart(e, r)
	rb, err := buildLoad(e)
	if err != nil {
		r.Extra["race_detector"] = "load generator could not be built: " + err.Error()
		r.Disagree = append(r.Disagree, hx.Disagreement{Where: "load build", Impl: err.Error(), Model: "-",
			Replay: e.WriteReplay("C19", "load", "build", []string{err.Error()}, []string{"load"})})
	} else if rb.race {
		r.Extra["race_detector"] = "on (go build -race, CGO_ENABLED=1)"
	} else {
		r.Extra["race_detector"] = "UNAVAILABLE, stress run without the detector: " + rb.reason
	}
	// corpus first
	var progs []prog
	if files, _ := filepath.Glob(filepath.Join(rootDir(), "corpus", "C19", "*.ops")); len(files) > 0 {
		sort.Strings(files)
		for _, f := range files {
			ops, _ := hx.ReadOps(f)
			for _, o := range ops {
				if w := strings.Fields(o); len(w) == 3 && w[0] == "check" {
					progs = append(progs, prog{guards: w[1], threads: w[2], shared: true})
					r.Hit("corpus:prog")
				}
			}
		}
	}
	n := e.N(40, 240)
	for i := 0; i < n; i++ {
		progs = append(progs, genProg(e, i%2 == 1))
	}
	primitivesPart(e, r, rb, progs)
	if rb != nil {
		dur := 5 * time.Second
		if e.Thorough() {
			dur = 120 * time.Second
		}
		loadPart(e, r, rb, dur, e.Seed, "")
	}
	return r
}

func replay(e *hx.Env, r *hx.Report) *hx.Report {
	ops, err := hx.ReadOps(e.Replay)
	if err != nil {
		r.Extra["replay_error"] = err.Error()
		return r
	}
	var rb *raceBin
	for _, o := range ops {
		w := strings.Fields(o)
		if len(w) == 0 {
			continue
		}
		switch w[0] {
		case "table", "table-violation", "table-unbalanced":
			tablePart(e, r)
		case "check":
			if len(w) == 3 {
				if rb == nil {
					rb, _ = buildLoad(e)
				}
				primitivesPart(e, r, rb, []prog{{guards: w[1], threads: w[2], shared: true}})
			}
		case "load":
			if rb == nil {
				rb, err = buildLoad(e)
				if err != nil {
					r.Extra["race_detector"] = err.Error()
					continue
				}
			}
			dur, seed, only := 5*time.Second, e.Seed, ""
			for _, kv := range w[1:] {
				switch {
				case strings.HasPrefix(kv, "seed="):
					fmt.Sscan(strings.TrimPrefix(kv, "seed="), &seed)
				case strings.HasPrefix(kv, "duration="):
					if d, err := time.ParseDuration(strings.TrimPrefix(kv, "duration=")); err == nil {
						dur = d
					}
				case strings.HasPrefix(kv, "only="):
					only = strings.TrimPrefix(kv, "only=")
				}
			}
			loadPart(e, r, rb, dur, seed, only)
		}
	}
	return r
}

func main() { hx.Main("C19", run) }
