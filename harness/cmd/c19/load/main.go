// c19 load generator — built with `-race` by harness/cmd/c19 and run as a child process.
//
//	-mode load : mixed concurrent load on ONE shared galaxy-ipam instance and ONE shared galaxy instance
//	             phase 1: every unordered pair of entry points (incl. an entry point with itself) overlapped
//	                      on two goroutines for a time slice; phase 2: 2..8 goroutines, random mix.
//	-mode prog : run one lockset program (threads of acq/rel/racq/rrel/rd/wr) on real sync.Mutex / sync.RWMutex
//	             and plain int variables (the correspondence check of the generic model M9 against the Go primitives).
//
// The race detector writes its reports to stderr; the parent parses them.  stdout: one JSON summary line.
package main

import (
	"context"
	"encoding/json"
	"flag"
	"fmt"
	"math/rand"
	"net"
	"os"
	"path/filepath"
	"runtime"
	"sort"
	"strconv"
	"strings"
	"sync"
	"sync/atomic"
	"time"

	"github.com/prometheus/client_golang/prometheus"
	appv1 "k8s.io/api/apps/v1"
	corev1 "k8s.io/api/core/v1"
	networkv1 "k8s.io/api/networking/v1"
	"k8s.io/apimachinery/pkg/api/resource"
	metav1 "k8s.io/apimachinery/pkg/apis/meta/v1"
	k8sruntime "k8s.io/apimachinery/pkg/runtime"
	"k8s.io/apimachinery/pkg/types"
	"k8s.io/apimachinery/pkg/util/intstr"

	"google.golang.org/grpc"
	"gxverif/lockset"
	"tkestack.io/galaxy/pkg/api/galaxy/constant"
	"tkestack.io/galaxy/pkg/api/k8s"
	"tkestack.io/galaxy/pkg/api/k8s/schedulerapi"
	"tkestack.io/galaxy/pkg/ipam/cloudprovider"
	"tkestack.io/galaxy/pkg/ipam/cloudprovider/rpc"
)

type summary struct {
	Mode    string         `json:"mode"`
	Ops     map[string]int `json:"ops"`
	Errs    map[string]int `json:"errors"`
	Pairs   int            `json:"pairs_overlapped"`
	PairsOf int            `json:"pairs_total"`
	Panics  []string       `json:"panics"`
	Note    string         `json:"note,omitempty"`
	Wedged  []string       `json:"wedged,omitempty"` // entry points whose call did not finish within the liveness bound
	Taken   int64          `json:"reserved_taken"`   // Filter handed a reserved (pool-prefix) ip to a deployment pod: allocateInSubnetWithKey -> First
}

type ep struct {
	name string
	f    func(r *rand.Rand) error
	solo bool // at most one goroutine at a time (a single daemon goroutine runs it in production)
	mu   sync.Mutex
}

type inflightCall struct {
	name  string
	start time.Time
}

var (
	callSeq       int64
	inflight      sync.Map // call id -> inflightCall
	reservedTaken int64
	liveness      = 10 * time.Second
)

// livenessWatchdog: every entry point call must finish within the bound while readers and writers run; a call that
// does not is a wedge (e.g. a re-entrant read lock with a writer queued in between): report and leave — the stuck
// goroutines can not be recovered.
func livenessWatchdog(s *summary) {
	for {
		time.Sleep(500 * time.Millisecond)
		var stuck []string
		inflight.Range(func(_, v interface{}) bool {
			c := v.(inflightCall)
			if time.Since(c.start) > liveness {
				stuck = append(stuck, c.name)
			}
			return true
		})
		if len(stuck) > 0 {
			sort.Strings(stuck)
			mu.Lock()
			s.Wedged = stuck
			s.Panics = panics
			s.Taken = atomic.LoadInt64(&reservedTaken)
			b, _ := json.Marshal(s)
			mu.Unlock()
			fmt.Println(string(b))
			buf := make([]byte, 1<<20)
			n := runtime.Stack(buf, true)
			os.Stderr.Write(buf[:n])
			os.Exit(4)
		}
	}
}

var (
	mu      sync.Mutex
	ops     = map[string]int{}
	errs    = map[string]int{}
	panics  []string
	running [64]int32
	overlap sync.Map // "a|b" -> true
)

func runEP(idx int, eps []*ep, r *rand.Rand) {
	e := eps[idx]
	if e.solo {
		if !e.mu.TryLock() {
			return
		}
		defer e.mu.Unlock()
	}
	slot := atomic.AddInt64(&callSeq, 1)
	inflight.Store(slot, inflightCall{name: e.name, start: time.Now()})
	defer inflight.Delete(slot)
	atomic.AddInt32(&running[idx], 1)
	for j := range eps {
		if atomic.LoadInt32(&running[j]) > 0 && (j != idx || atomic.LoadInt32(&running[j]) > 1) {
			a, b := eps[idx].name, eps[j].name
			if a > b {
				a, b = b, a
			}
			overlap.Store(a+"|"+b, true)
		}
	}
	var err error
	func() {
		defer func() {
			if x := recover(); x != nil {
				buf := make([]byte, 8192)
				n := runtime.Stack(buf, false)
				mu.Lock()
				if lockset.FakeWatcherArtefact(fmt.Sprintf("%v\n%s", x, buf[:n])) {
					ops["inconclusive:fake-watcher-channel-full"]++ // limitation of client-go's fake watcher, not a finding
				} else if len(panics) < 20 {
					panics = append(panics, fmt.Sprintf("%s: %v\n%s", e.name, x, buf[:n]))
				}
				mu.Unlock()
			}
		}()
		err = e.f(r)
	}()
	atomic.AddInt32(&running[idx], -1)
	mu.Lock()
	ops[e.name]++
	if err != nil {
		errs[e.name]++
	}
	mu.Unlock()
}

func wantsFIP(pod *corev1.Pod) *corev1.Pod {
	q := resource.NewQuantity(1, resource.DecimalSI)
	pod.Spec.Containers = []corev1.Container{{Name: "c", Resources: corev1.ResourceRequirements{
		Requests: corev1.ResourceList{corev1.ResourceName(constant.ResourceName): *q}},
		Ports: []corev1.ContainerPort{{ContainerPort: 80, Protocol: corev1.ProtocolTCP}}}}
	return pod
}

func mkPod(name, ns, kind, owner, uid string, ann map[string]string) *corev1.Pod {
	p := &corev1.Pod{ObjectMeta: metav1.ObjectMeta{Name: name, Namespace: ns, UID: types.UID(uid),
		Labels: map[string]string{"app": owner}, Annotations: ann}}
	if kind != "" {
		p.OwnerReferences = []metav1.OwnerReference{{Kind: kind, Name: owner}}
	}
	return wantsFIP(p)
}

func ipamEntryPoints(seed int64) ([]*ep, func(), error) {
	var objs []k8sruntime.Object
	var pods []*corev1.Pod
	two := int32(6)
	objs = append(objs,
		&appv1.StatefulSet{ObjectMeta: metav1.ObjectMeta{Name: "a", Namespace: "ns1"}, Spec: appv1.StatefulSetSpec{Replicas: &two}},
		&appv1.StatefulSet{ObjectMeta: metav1.ObjectMeta{Name: "b", Namespace: "ns1"}, Spec: appv1.StatefulSetSpec{Replicas: &two}},
		&appv1.Deployment{ObjectMeta: metav1.ObjectMeta{Name: "dp", Namespace: "ns1"}, Spec: appv1.DeploymentSpec{Replicas: &two}})
	for i := 0; i < 6; i++ {
		pods = append(pods, mkPod(fmt.Sprintf("a-%d", i), "ns1", "StatefulSet", "a", fmt.Sprintf("ua%d", i), nil))
		pods = append(pods, mkPod(fmt.Sprintf("b-%d", i), "ns1", "StatefulSet", "b", fmt.Sprintf("ub%d", i),
			map[string]string{constant.ReleasePolicyAnnotation: constant.Immutable}))
		pods = append(pods, mkPod(fmt.Sprintf("dp-rs1-x%d", i), "ns1", "ReplicaSet", "dp-rs1", fmt.Sprintf("ud%d", i),
			map[string]string{constant.ReleasePolicyAnnotation: constant.Never}))
	}
	for i := 0; i < 4; i++ {
		// deployment pods of a sized pool: every Filter reads pool.Size of the PoolLister's (shared) object
		pods = append(pods, mkPod(fmt.Sprintf("dpp-rs1-x%d", i), "ns1", "ReplicaSet", "dpp-rs1", fmt.Sprintf("up%d", i),
			map[string]string{constant.IPPoolAnnotation: "pool1", constant.ReleasePolicyAnnotation: constant.Never}))
	}
	objs = append(objs, &appv1.Deployment{ObjectMeta: metav1.ObjectMeta{Name: "dpp", Namespace: "ns1"}, Spec: appv1.DeploymentSpec{Replicas: &two}})
	pods = append(pods, mkPod("solo", "ns1", "", "", "us", nil))
	pods = append(pods, mkPod("ranged-0", "ns1", "StatefulSet", "ranged", "ur", map[string]string{
		constant.ExtendedCNIArgsAnnotation: `{"request_ip_range":[["10.49.27.216~10.49.27.220"]]}`}))
	d, err := lockset.NewIpamd(lockset.DefaultPools, objs...)
	if err != nil {
		return nil, nil, err
	}
	for _, p := range pods {
		if err := d.AddPod(p); err != nil {
			return nil, nil, err
		}
	}
	stop := make(chan struct{})
	d.Plugin.Run(stop) // release-event loops (the resync timer fires after >= 1 min; the thorough tier reaches it)
	pick := func(r *rand.Rand) *corev1.Pod { return pods[r.Intn(len(pods))] }
	node := func(r *rand.Rand) string { return d.Nodes[r.Intn(len(d.Nodes))].Name }
	flip := int32(0)
	eps := []*ep{
		{name: "filter", f: func(r *rand.Rand) error {
			_, _, err := d.Plugin.Filter(pick(r), d.Nodes)
			return err
		}},
		{name: "bind", f: func(r *rand.Rand) error {
			p := pick(r)
			return d.Plugin.Bind(&schedulerapi.ExtenderBindingArgs{PodName: p.Name, PodNamespace: p.Namespace, PodUID: p.UID, Node: node(r)})
		}},
		{name: "unbind", f: func(r *rand.Rand) error { return d.Plugin.VerifLsUnbind(pick(r)) }},
		{name: "dpReserveFilter", f: func(r *rand.Rand) error {
			// bind a deployment pod (policy never), unbind it (its ip is reserved under the deployment prefix), then Filter a
			// sibling: Filter hands it the reserved ip through allocateInSubnetWithKey -> AllocateInSubnetWithKey + First
			a, b := r.Intn(6), r.Intn(6)
			pa, pb := pods[2+3*a], pods[2+3*b] // the dp-rs1-x* pods
			if _, _, err := d.Plugin.Filter(pa, d.Nodes); err == nil {
				d.Plugin.Bind(&schedulerapi.ExtenderBindingArgs{PodName: pa.Name, PodNamespace: pa.Namespace, PodUID: pa.UID, Node: node(r)})
			}
			d.Plugin.VerifLsUnbind(pa)
			before, _ := d.Plugin.GetIpam().ByPrefix("dp_ns1_dp_")
			reserved := 0
			for _, f := range before {
				if f.Key == "dp_ns1_dp_" {
					reserved++
				}
			}
			_, _, err := d.Plugin.Filter(pb, d.Nodes)
			if err == nil && reserved > 0 {
				if f, _ := d.Plugin.GetIpam().First("dp_ns1_dp_" + pb.Name); f != nil {
					atomic.AddInt64(&reservedTaken, 1)
				}
			}
			return err
		}},
		{name: "podEvent", f: func(r *rand.Rand) error {
			p := pick(r).DeepCopy()
			switch r.Intn(3) {
			case 0:
				p.Status.Phase = corev1.PodSucceeded
				return d.Plugin.UpdatePod(p, p)
			case 1:
				return d.Plugin.DeletePod(p)
			}
			return d.Plugin.AddPod(p)
		}},
		{name: "resync", solo: true, f: func(r *rand.Rand) error { return d.Plugin.VerifLsResyncPod() }},
		{name: "syncPodIPs", solo: true, f: func(r *rand.Rand) error { d.Plugin.VerifLsSyncPodIPsIntoDB(); return nil }},
		{name: "releaseAPI", f: func(r *rand.Rand) error {
			ipam := d.Plugin.GetIpam()
			fips, _ := ipam.ByPrefix("")
			if len(fips) == 0 {
				return nil
			}
			f := fips[r.Intn(len(fips))]
			body, _ := json.Marshal(map[string]interface{}{"ips": []map[string]interface{}{{
				"ip": f.IPInfo.IP.IP.String(), "namespace": "ns1", "appName": "a", "podName": fmt.Sprintf("a-%d", r.Intn(6)),
				"appType": "statefulset"}}})
			code, _ := d.HTTP("POST", "/v1/ip", body)
			if code >= 500 {
				return fmt.Errorf("status %d", code)
			}
			return nil
		}},
		{name: "listIPs", f: func(r *rand.Rand) error {
			q := []string{"/v1/ip?keyword=a", "/v1/ip?appName=a&namespace=ns1&appType=statefulset", "/v1/ip?page=1&size=3&sort=podname%20desc", "/v1/ip"}
			code, _ := d.HTTP("GET", q[r.Intn(len(q))], nil)
			if code >= 500 {
				return fmt.Errorf("status %d", code)
			}
			return nil
		}},
		{name: "poolAPI", f: func(r *rand.Rand) error {
			switch r.Intn(3) {
			case 0:
				body, _ := json.Marshal(map[string]interface{}{"name": fmt.Sprintf("pool%d", r.Intn(3)), "size": 1 + r.Intn(6), "preAllocateIP": r.Intn(2) == 0})
				d.HTTP("POST", "/v1/pool", body)
			case 1:
				d.HTTP("GET", fmt.Sprintf("/v1/pool/pool%d", r.Intn(3)), nil)
			default:
				d.HTTP("DELETE", fmt.Sprintf("/v1/pool/pool%d", r.Intn(3)), nil)
			}
			return nil
		}},
		{name: "reload", solo: true, f: func(r *rand.Rand) error {
			text := lockset.DefaultPools
			if atomic.AddInt32(&flip, 1)%2 == 1 {
				text = lockset.AltPools
			}
			if err := d.SetPools(text); err != nil {
				return err
			}
			_, err := d.Plugin.VerifLsUpdateConfigMap()
			return err
		}},
		{name: "collect", f: func(r *rand.Rand) error {
			ch := make(chan prometheus.Metric, 64)
			done := make(chan struct{})
			go func() {
				for range ch {
				}
				close(done)
			}()
			d.Plugin.GetIpam().Collect(ch)
			close(ch)
			<-done
			return nil
		}},
		{name: "ipamQuery", f: func(r *rand.Rand) error {
			ipam := d.Plugin.GetIpam()
			switch r.Intn(4) {
			case 0:
				_, err := ipam.ByKeyword("a")
				return err
			case 1:
				_, err := ipam.First("sts_ns1_a_a-0")
				return err
			case 2:
				_, err := ipam.ByPrefix("sts_ns1_")
				return err
			}
			_, err := ipam.ByKeyAndIPRanges("sts_ns1_a_a-1", nil)
			return err
		}},
	}
	_ = seed
	return eps, func() { close(stop); d.Close() }, nil
}

func galaxyEntryPoints(seed int64) ([]*ep, func(), error) {
	var objs []k8sruntime.Object
	var pods []*corev1.Pod
	host, _ := os.Hostname()
	for i := 0; i < 8; i++ {
		p := &corev1.Pod{ObjectMeta: metav1.ObjectMeta{Name: fmt.Sprintf("p%d", i), Namespace: "ns1", UID: types.UID(fmt.Sprintf("gp%d", i)),
			Labels: map[string]string{"app": []string{"web", "db"}[i%2]}},
			Spec:   corev1.PodSpec{NodeName: host, Containers: []corev1.Container{{Name: "c"}}},
			Status: corev1.PodStatus{PodIP: fmt.Sprintf("10.22.0.%d", 10+i)}}
		switch i % 4 {
		case 1:
			p.Annotations = map[string]string{constant.MultusCNIAnnotation: "net-a,net-b"}
		case 2:
			p.Annotations = map[string]string{constant.MultusCNIAnnotation: "net-a,net-fail"}
		case 3:
			p.Annotations = map[string]string{constant.ExtendedCNIArgsAnnotation: `{"common":{"ipinfos":[{"ip":"10.22.0.7/24","vlan":0,"gateway":"10.22.0.1"}]}}`}
			p.Spec.Containers[0].Ports = []corev1.ContainerPort{{ContainerPort: 80, HostPort: int32(31000 + i), Protocol: corev1.ProtocolTCP}}
		}
		pods = append(pods, p)
		objs = append(objs, p)
	}
	objs = append(objs, &corev1.Namespace{ObjectMeta: metav1.ObjectMeta{Name: "ns1", Labels: map[string]string{"team": "x"}}})
	tcp := corev1.ProtocolTCP
	port := intstr.FromInt(80)
	mkPolicy := func(i int) *networkv1.NetworkPolicy {
		np := &networkv1.NetworkPolicy{ObjectMeta: metav1.ObjectMeta{Name: fmt.Sprintf("np%d", i), Namespace: "ns1"},
			Spec: networkv1.NetworkPolicySpec{PodSelector: metav1.LabelSelector{MatchLabels: map[string]string{"app": "web"}},
				Ingress: []networkv1.NetworkPolicyIngressRule{{
					Ports: []networkv1.NetworkPolicyPort{{Protocol: &tcp, Port: &port}},
					From: []networkv1.NetworkPolicyPeer{{PodSelector: &metav1.LabelSelector{MatchLabels: map[string]string{"app": "db"}}},
						{NamespaceSelector: &metav1.LabelSelector{MatchLabels: map[string]string{"team": "x"}}},
						{IPBlock: &networkv1.IPBlock{CIDR: "10.0.0.0/8", Except: []string{"10.1.0.0/16"}}}}}}}}
		if i%2 == 1 {
			np.Spec.PolicyTypes = []networkv1.PolicyType{networkv1.PolicyTypeEgress}
			np.Spec.Egress = []networkv1.NetworkPolicyEgressRule{{To: []networkv1.NetworkPolicyPeer{{PodSelector: &metav1.LabelSelector{}}}}}
		}
		return np
	}
	objs = append(objs, mkPolicy(0))
	d, err := lockset.NewGalaxyd(lockset.GalaxyConf(), true, objs...)
	if err != nil {
		return nil, nil, err
	}
	var cid int64
	var live sync.Map // containerID -> pod
	pick := func(r *rand.Rand) *corev1.Pod { return pods[r.Intn(len(pods))] }
	eps := []*ep{
		{name: "cniAdd", f: func(r *rand.Rand) error {
			p := pick(r)
			id := fmt.Sprintf("gxv19c%d", atomic.AddInt64(&cid, 1))
			code, body := d.G.VerifCNI(lockset.CNIBody("ADD", id, p.Name, p.Namespace, d.CNIPath))
			live.Store(id, p)
			if code != 200 {
				return fmt.Errorf("%d %s", code, body)
			}
			return nil
		}},
		{name: "cniDel", f: func(r *rand.Rand) error {
			var id string
			var p *corev1.Pod
			live.Range(func(k, v interface{}) bool { id, p = k.(string), v.(*corev1.Pod); return false })
			if id == "" {
				return nil
			}
			live.Delete(id)
			code, body := d.G.VerifCNI(lockset.CNIBody("DEL", id, p.Name, p.Namespace, d.CNIPath))
			if code != 200 {
				return fmt.Errorf("%d %s", code, body)
			}
			return nil
		}},
		{name: "portmap", f: func(r *rand.Rand) error {
			name := fmt.Sprintf("pm%d_ns1", r.Intn(4))
			ports := []k8s.Port{{HostPort: 0, ContainerPort: 80, Protocol: "tcp", PodName: name, PodIP: "10.22.0.9"}}
			if r.Intn(2) == 0 {
				if err := d.PMH.OpenHostports(name, true, ports); err != nil {
					return err
				}
				return d.PMH.SetupPortMapping(ports)
			}
			d.PMH.CloseHostports(name)
			return nil
		}},
		{name: "policyEvent", f: func(r *rand.Rand) error {
			np := mkPolicy(r.Intn(3))
			cli := d.Client.NetworkingV1().NetworkPolicies("ns1")
			switch r.Intn(3) {
			case 0:
				cli.Create(context.TODO(), np, metav1.CreateOptions{})
				return d.PM.AddPolicy(np)
			case 1:
				cli.Update(context.TODO(), np, metav1.UpdateOptions{})
				return d.PM.UpdatePolicy(np, np)
			}
			cli.Delete(context.TODO(), np.Name, metav1.DeleteOptions{})
			return d.PM.DeletePolicy(np)
		}},
		{name: "policyPodEvent", f: func(r *rand.Rand) error {
			p := pick(r)
			if r.Intn(2) == 0 {
				return d.PM.UpdatePod(p, p)
			}
			return d.PM.DeletePod(p)
		}},
		{name: "policyResync", solo: true, f: func(r *rand.Rand) error { d.PM.Run(); return nil }},
	}
	_ = seed
	cleanup := func() {
		live.Range(func(k, v interface{}) bool {
			p := v.(*corev1.Pod)
			d.G.VerifCNI(lockset.CNIBody("DEL", k.(string), p.Name, p.Namespace, d.CNIPath))
			return true
		})
		d.Close()
		for _, pat := range []string{"/var/lib/cni/galaxy/gxv19c*", "/var/lib/cni/galaxy/port/gxv19c*"} {
			files, _ := filepath.Glob(pat)
			for _, f := range files {
				os.Remove(f)
			}
		}
	}
	return eps, cleanup, nil
}

// ---------------------------------------------------------------- real cloud provider

type ipProvider struct{}

func (ipProvider) AssignIP(ctx context.Context, in *rpc.AssignIPRequest) (*rpc.AssignIPReply, error) {
	return &rpc.AssignIPReply{Success: true}, nil
}
func (ipProvider) UnAssignIP(ctx context.Context, in *rpc.UnAssignIPRequest) (*rpc.UnAssignIPReply, error) {
	return &rpc.UnAssignIPReply{Success: true}, nil
}

func count(name string, err error) {
	mu.Lock()
	ops[name]++
	if err != nil {
		errs[name]++
	}
	mu.Unlock()
}

// cloudPhase: the REAL grpcCloudProvider against a tiny in-process gRPC server.  The provider dials lazily on first use:
// the interesting moment is the FIRST calls, so fresh providers / fresh plugins are used again and again, each time with
// several goroutines released together (binds / unbinds of DIFFERENT pods hold only their own per-pod locks).
func cloudPhase(seed int64, dur time.Duration) error {
	lis, err := net.Listen("tcp", "127.0.0.1:0")
	if err != nil {
		return err
	}
	srv := grpc.NewServer()
	rpc.RegisterIPProviderServiceServer(srv, ipProvider{})
	go srv.Serve(lis)
	defer srv.Stop()
	addr := lis.Addr().String()
	end := time.Now().Add(dur)
	// (1) the provider object itself
	for round := 0; round < 400 && time.Now().Before(end.Add(-dur/2)); round++ {
		cp := cloudprovider.NewGRPCCloudProvider(addr)
		start := make(chan struct{})
		var wg sync.WaitGroup
		for g := 0; g < 4; g++ {
			wg.Add(1)
			go func(g int) {
				defer wg.Done()
				<-start
				if g%2 == 0 {
					_, err := cp.AssignIP(&rpc.AssignIPRequest{NodeName: "node1", IPAddress: fmt.Sprintf("10.49.27.%d", 216+g)})
					count("cloudAssign", err)
				} else {
					_, err := cp.UnAssignIP(&rpc.UnAssignIPRequest{NodeName: "node1", IPAddress: fmt.Sprintf("10.49.27.%d", 216+g)})
					count("cloudUnAssign", err)
				}
			}(g)
		}
		close(start)
		wg.Wait()
	}
	// (2) through the plugin: Bind / unbind / resync of different pods on a fresh galaxy-ipam instance
	for inst := 0; time.Now().Before(end) && inst < 40; inst++ {
		two := int32(8)
		d, err := lockset.NewIpamdWith(lockset.DefaultPools, addr,
			&appv1.StatefulSet{ObjectMeta: metav1.ObjectMeta{Name: "c", Namespace: "ns1"}, Spec: appv1.StatefulSetSpec{Replicas: &two}})
		if err != nil {
			return err
		}
		var pods []*corev1.Pod
		for i := 0; i < 6; i++ {
			p := mkPod(fmt.Sprintf("c-%d", i), "ns1", "StatefulSet", "c", fmt.Sprintf("uc%d", i), nil)
			if i%2 == 1 {
				p.Annotations = map[string]string{constant.ReleasePolicyAnnotation: constant.Immutable}
			}
			if err := d.AddPod(p); err != nil {
				return err
			}
			pods = append(pods, p)
		}
		start := make(chan struct{})
		var wg sync.WaitGroup
		for i, p := range pods {
			wg.Add(1)
			go func(i int, p *corev1.Pod) {
				defer wg.Done()
				<-start
				_, _, err := d.Plugin.Filter(p, d.Nodes)
				if err == nil {
					err = d.Plugin.Bind(&schedulerapi.ExtenderBindingArgs{PodName: p.Name, PodNamespace: p.Namespace, PodUID: p.UID, Node: "node1"})
				}
				count("cloudBind", err)
				count("cloudUnbind", d.Plugin.VerifLsUnbind(p))
				if i == 0 {
					count("cloudResync", d.Plugin.VerifLsResyncPod())
				}
			}(i, p)
		}
		close(start)
		wg.Wait()
		d.Close()
	}
	return nil
}

// drive: phase 1 all pairs, phase 2 random mix
func drive(eps []*ep, dur time.Duration, seed int64, maxG int) (pairs, total int) {
	type pr struct{ a, b int }
	var prs []pr
	for a := range eps {
		for b := a; b < len(eps); b++ {
			if a == b && eps[a].solo {
				continue // a single daemon goroutine runs it: never concurrent with itself
			}
			prs = append(prs, pr{a, b})
		}
	}
	slice := dur / 2 / time.Duration(len(prs))
	if slice < 15*time.Millisecond {
		slice = 15 * time.Millisecond
	}
	for i, p := range prs {
		deadline := time.Now().Add(slice)
		var wg sync.WaitGroup
		for k, idx := range []int{p.a, p.b} {
			wg.Add(1)
			go func(idx int, s int64) {
				defer wg.Done()
				r := rand.New(rand.NewSource(s))
				for n := 0; n < 2 || time.Now().Before(deadline); n++ {
					runEP(idx, eps, r)
				}
			}(idx, seed*1000+int64(i*2+k))
		}
		wg.Wait()
	}
	r0 := rand.New(rand.NewSource(seed))
	end := time.Now().Add(dur / 2)
	for round := 0; time.Now().Before(end); round++ {
		g := 2 + r0.Intn(maxG-1)
		roundEnd := time.Now().Add(300 * time.Millisecond)
		var wg sync.WaitGroup
		for k := 0; k < g; k++ {
			wg.Add(1)
			go func(s int64) {
				defer wg.Done()
				r := rand.New(rand.NewSource(s))
				for time.Now().Before(roundEnd) {
					runEP(r.Intn(len(eps)), eps, r)
				}
			}(seed*7919 + int64(round*16+k))
		}
		wg.Wait()
	}
	names := map[string]bool{}
	for _, p := range prs {
		a, b := eps[p.a].name, eps[p.b].name
		if a > b {
			a, b = b, a
		}
		names[a+"|"+b] = true
	}
	n := 0
	for k := range names {
		if _, ok := overlap.Load(k); ok {
			n++
		}
	}
	return n, len(names)
}

// ---------------------------------------------------------------- mode prog

func runProg(spec string, reps int, seed int64) error {
	var threads [][]string
	for _, t := range strings.Split(spec, "|") {
		if t == "-" {
			threads = append(threads, nil)
			continue
		}
		threads = append(threads, strings.Split(t, ","))
	}
	num := func(s, p string) int { n, _ := strconv.Atoi(strings.TrimPrefix(s, p)); return n }
	for rep := 0; rep < reps; rep++ {
		locks := make([]sync.RWMutex, 16)
		vars := make([]int, 64)
		var wg sync.WaitGroup
		start := make(chan struct{})
		for ti, th := range threads {
			wg.Add(1)
			go func(ti int, th []string) {
				defer wg.Done()
				r := rand.New(rand.NewSource(seed + int64(rep*131+ti)))
				<-start
				sink := 0
				for _, a := range th {
					if r.Intn(3) == 0 {
						runtime.Gosched()
					}
					switch {
					case strings.HasPrefix(a, "racq"):
						locks[num(a, "racq")%16].RLock()
					case strings.HasPrefix(a, "rrel"):
						locks[num(a, "rrel")%16].RUnlock()
					case strings.HasPrefix(a, "acq"):
						locks[num(a, "acq")%16].Lock()
					case strings.HasPrefix(a, "rel"):
						locks[num(a, "rel")%16].Unlock()
					case strings.HasPrefix(a, "rd"):
						sink += vars[num(a, "rd")%64]
					case strings.HasPrefix(a, "wr"):
						vars[num(a, "wr")%64] = ti + 1
					}
				}
				_ = sink
			}(ti, th)
		}
		close(start)
		wg.Wait()
	}
	return nil
}

func main() {
	mode := flag.String("mode", "load", "load|prog")
	dur := flag.Duration("duration", 5*time.Second, "load duration")
	seed := flag.Int64("seed", 1, "seed")
	maxG := flag.Int("goroutines", 8, "max goroutines in the mixed phase")
	prog := flag.String("prog", "", "lockset program for -mode prog")
	reps := flag.Int("reps", 30, "repetitions of the program")
	only := flag.String("only", "", "ipam|galaxy (default both)")
	live := flag.Duration("liveness", 10*time.Second, "every entry point call must finish within this time")
	flag.Parse()
	lockset.Quiet()
	liveness = *live
	s := summary{Mode: *mode, Ops: ops, Errs: errs}
	if *mode == "load" {
		go livenessWatchdog(&s)
	}
	switch *mode {
	case "prog":
		if err := runProg(*prog, *reps, *seed); err != nil {
			s.Note = err.Error()
		}
	default:
		type daemon struct {
			name string
			mk   func(int64) ([]*ep, func(), error)
		}
		ds := []daemon{{"ipam", ipamEntryPoints}, {"galaxy", galaxyEntryPoints}}
		if *only == "" || *only == "cloud" {
			cd := *dur / 5
			if cd > 10*time.Second {
				cd = 10 * time.Second
			}
			if err := cloudPhase(*seed, cd); err != nil {
				s.Note += fmt.Sprintf("cloud provider phase: %v; ", err)
			}
		}
		per := *dur / 2
		for _, dm := range ds {
			if *only != "" && *only != dm.name {
				continue
			}
			eps, cleanup, err := dm.mk(*seed)
			if err != nil {
				s.Note += fmt.Sprintf("%s setup: %v; ", dm.name, err)
				continue
			}
			p, t := drive(eps, per, *seed, *maxG)
			s.Pairs += p
			s.PairsOf += t
			cleanup()
		}
	}
	mu.Lock()
	s.Panics = panics
	s.Taken = atomic.LoadInt64(&reservedTaken)
	sort.Strings(s.Panics)
	b, _ := json.Marshal(s)
	mu.Unlock()
	fmt.Println(string(b))
}
