// c08: multi-IP requests get one IP per range, all or nothing (IPAM level, model M3).
//
// Cases: a generated configuration, a prefix of allocations / reservations (so that the requested ranges are partly
// owned by others and some addresses carry an admin reservation whose watch event has not arrived), then
// AllocateInSubnetsAndIPRange with k = 0..4 pairwise-disjoint range lists: once fault free and — replayed from the same
// prefix — once with a failing create at every index 0..k (index k must not fire).
// Monitor = the statement of C08 evaluated on the real outputs; every step also goes through gxdrv_ipam.
package main

import (
	"fmt"
	"strings"

	"gxverif/hx"
	gi "gxverif/ipam"
	"gxverif/plugin"
)

const prop = "C08"

type runner struct{ *gi.Runner }

func inRanges(ip uint32, rs [][2]uint32) bool {
	for _, r := range rs {
		if r[0] <= ip && ip <= r[1] {
			return true
		}
	}
	return false
}

func sameMem(a, b gi.Mem) string {
	for ip, r := range a.Alloc {
		if q, ok := b.Alloc[ip]; !ok || q != r {
			return fmt.Sprintf("%s was %v", gi.IPStr(ip), r)
		}
	}
	for ip, r := range b.Alloc {
		if _, ok := a.Alloc[ip]; !ok {
			return fmt.Sprintf("%s now allocated to %q", gi.IPStr(ip), r.Key)
		}
	}
	for ip := range a.Free {
		if !b.Free[ip] {
			return fmt.Sprintf("%s no longer free", gi.IPStr(ip))
		}
	}
	for ip := range b.Free {
		if !a.Free[ip] {
			return fmt.Sprintf("%s became free", gi.IPStr(ip))
		}
	}
	return ""
}

func sameStore(a, b map[uint32]gi.Rec) string {
	for ip, r := range a {
		if q, ok := b[ip]; !ok || q != r {
			return fmt.Sprintf("object %s was %v", gi.IPStr(ip), r)
		}
	}
	for ip, r := range b {
		if _, ok := a[ip]; !ok {
			return fmt.Sprintf("object %s (key %q) left behind", gi.IPStr(ip), r.Key)
		}
	}
	return ""
}

// monitor: the C08 statement on one executed arng step.
func (rn *runner) monitor(s *gi.Session, st *gi.Step) {
	if st.Op.Kind != "arng" || len(st.Op.Ranges) == 0 {
		return
	}
	op := st.Op
	k := len(op.Ranges)
	bad := func(sig, what string) {
		rn.Violation(sig, fmt.Sprintf("arng k=%d plan %s result %s: %s", k, op.Plan, st.Class, what), s.Src)
	}
	after := gi.ReadMem(s.W.Ipam)
	stAfter := s.W.StoreMap()
	switch st.Class {
	case "ok":
		for _, l := range op.Ranges {
			for _, rg := range l {
				p1, p2 := gi.PoolOfIP(st.PoolsB, rg[0]), gi.PoolOfIP(st.PoolsB, rg[1])
				if p1 != nil && p2 != nil && (p1.Ranges[0] != p2.Ranges[0]) {
					rn.R.Hit("request-range-spans-pools")
				}
			}
		}
		if len(st.IPs) != k {
			bad("multi-alloc-wrong-count", fmt.Sprintf("%d addresses for %d range lists", len(st.IPs), k))
			return
		}
		seen := map[uint32]bool{}
		for i, ip := range st.IPs {
			if !inRanges(ip, op.Ranges[i]) {
				bad("multi-alloc-outside-range", fmt.Sprintf("result[%d]=%s not in range list %d", i, gi.IPStr(ip), i))
			}
			if seen[ip] {
				bad("multi-alloc-duplicate", gi.IPStr(ip)+" returned twice")
			}
			seen[ip] = true
			if !st.Before.Free[ip] {
				bad("multi-alloc-not-free", gi.IPStr(ip)+" was not free before")
			}
			if p := gi.PoolOfIP(st.PoolsB, ip); p == nil || !p.HasSubnet(op.Subnet) {
				bad("multi-alloc-wrong-subnet", gi.IPStr(ip)+" is in no pool listing "+op.Subnet)
			}
			want := gi.Rec{Key: op.Key, Policy: op.Policy, Node: op.Node, UID: op.UID}
			if after.Alloc[ip] != want || stAfter[ip] != want {
				bad("multi-alloc-not-recorded", fmt.Sprintf("%s memory %v store %v", gi.IPStr(ip), after.Alloc[ip], stAfter[ip]))
			}
		}
		// request order: only claimed when the key owned nothing inside the requested ranges before
		owned := false
		for ip, r := range st.Before.Alloc {
			if r.Key == op.Key {
				for _, rs := range op.Ranges {
					if inRanges(ip, rs) {
						owned = true
					}
				}
			}
		}
		if !owned {
			s.Ask(gi.Query{Kind: "bykr", Arg: op.Key, Ranges: op.Ranges})
			got := s.Impl[len(s.Impl)-1]
			var w []string
			for _, ip := range st.IPs {
				w = append(w, fmt.Sprint(ip))
			}
			if got != "["+strings.Join(w, ",")+"]" {
				bad("multi-alloc-order", fmt.Sprintf("ByKeyAndIPRanges %s, allocated %v", got, w))
			}
		} else {
			rn.R.Hit("key-preowns-in-ranges")
		}
		// everything else untouched
		for ip, r := range st.Before.Alloc {
			if after.Alloc[ip] != r {
				bad("multi-alloc-touched-other", gi.IPStr(ip))
			}
		}
	case "crashed", "hang", "panic":
		if st.Class != "crashed" {
			bad("multi-alloc-"+st.Class, st.Impl)
		}
	default:
		// any failure: nothing may stay allocated — except an address whose rollback delete itself failed (a create
		// failure PLUS a delete failure): that one stays allocated to the key in BOTH memory and store
		kept := map[uint32]bool{}
		for _, c := range st.Calls {
			if c.Verb == "delete" && c.Err == "injected" {
				if ip, ok := gi.ParseU32(c.Name); ok {
					kept[ip] = true
				}
			}
		}
		if len(kept) > 0 {
			rn.R.Hit("branch:rollback-delete-failed")
		}
		want := gi.Rec{Key: op.Key, Policy: op.Policy, Node: op.Node, UID: op.UID}
		expMem := gi.Mem{Alloc: map[uint32]gi.Rec{}, Free: map[uint32]bool{}}
		for ip, r := range st.Before.Alloc {
			expMem.Alloc[ip] = r
		}
		for ip := range st.Before.Free {
			expMem.Free[ip] = true
		}
		expStore := map[uint32]gi.Rec{}
		for ip, r := range st.StBefore {
			expStore[ip] = r
		}
		for ip := range kept {
			if !st.Before.Free[ip] {
				bad("multi-alloc-kept-non-free", gi.IPStr(ip)+" was not free before")
			}
			delete(expMem.Free, ip)
			expMem.Alloc[ip] = want
			expStore[ip] = want
		}
		if d := sameMem(expMem, after); d != "" {
			bad("multi-alloc-partial-after-failure", "memory: "+d)
		}
		for _, f := range gi.StoreObjectsTouchedByFailure(st, stAfter) {
			if !kept[f.IP] {
				bad(f.Sig, f.What)
			}
		}
		if d := sameStore(expStore, stAfter); d != "" {
			bad("multi-alloc-partial-after-failure", "store: "+d)
		}
		// "not enough" must be true: some range list has no free routable address left
		if st.Class == "noenough" {
			taken := map[uint32]bool{}
			feasible := true
			for _, rs := range op.Ranges {
				found := false
				for _, r := range rs {
					for x := uint64(r[0]); x <= uint64(r[1]) && !found; x++ {
						ip := uint32(x)
						if st.Before.Free[ip] && !taken[ip] {
							if p := gi.PoolOfIP(st.PoolsB, ip); p != nil && p.HasSubnet(op.Subnet) {
								taken[ip], found = true, true
							}
						}
					}
				}
				if !found {
					feasible = false
				}
			}
			if feasible {
				bad("multi-alloc-refused-though-possible", "first-fit finds an address in every range list")
			}
		}
	}
}

func (rn *runner) oneCase() {
	e := rn.E
	base := gi.NewSession()
	ops := []gi.Op{{Kind: "conf", Conf: gi.GenConf(e.Rng), Plan: gi.NoPlan()}}
	base.Do(ops[0])
	// prefix: other owners, reservations (some undelivered)
	n := e.Rng.Intn(7)
	for i := 0; i < n; i++ {
		v := base.W.View()
		var op gi.Op
		switch x := e.Rng.Intn(10); {
		case x < 5:
			op = gi.GenOp(e.Rng, v, 0)
			if !op.IsAlloc() {
				op = gi.Op{Kind: "asub", Key: "other-" + fmt.Sprint(i), Subnet: firstSubnet(v), Node: "n9", Plan: gi.NoPlan()}
			}
		case x < 8:
			op = gi.Op{Kind: "admres", IP: anyFree(e, v), Key: []string{"pool__reserved-for-node_", "", "dp_ns1_req_req-0"}[e.Rng.Intn(3)], Plan: gi.NoPlan()}
			if v.HasPending(op.IP) {
				op = gi.Op{Kind: "deliver", Plan: gi.NoPlan()}
			}
		default:
			op = gi.Op{Kind: "deliver", Plan: gi.NoPlan()}
		}
		if op.Key == "dp_ns1_req_req-0" {
			op.Key = "k1"
		}
		ops = append(ops, op)
		st := base.Do(op)
		rn.Note(&st)
	}
	v := base.W.View()
	k := 1 + e.Rng.Intn(4)
	if e.Rng.Intn(12) == 0 {
		k = 0
	}
	req := gi.Op{Kind: "arng", Key: "dp_ns1_req_req-0", Subnet: pickSubnet(e, v), Node: "n1", UID: "u7", Policy: e.Rng.Intn(3),
		Plan: gi.NoPlan()}
	if e.Rng.Intn(10) < 7 {
		req.Ranges = v.Restrict(req.Subnet).GenRanges(e.Rng, k) // ranges routable from the node subnet
	} else {
		req.Ranges = v.GenRanges(e.Rng, k)
	}
	if e.Rng.Intn(6) == 0 {
		req.Key = "k1" // may already own addresses inside the ranges
	}
	rn.finish(base, ops, req)
}

// spanCase: pools sharing one pod subnet and gateway (any configuration order, higher range first included, adjacent and
// interleaved ranges), a request of 1..3 ranges each spanning several pools partially, and the requested addresses of one
// pool — or a random subset — already in use: the first free configured address in ascending order must be found INSIDE
// the requested range, whatever the pool order.
func (rn *runner) spanCase() {
	e := rn.E
	base := gi.NewSession()
	ops := []gi.Op{{Kind: "conf", Conf: gi.GenSharedConf(e.Rng), Plan: gi.NoPlan()}}
	base.Do(ops[0])
	v := base.W.View()
	k := 1 + e.Rng.Intn(3)
	req := gi.Op{Kind: "arng", Key: "dp_ns1_req_req-0", Subnet: firstSubnet(v), Node: "n1", UID: "u7", Policy: e.Rng.Intn(3),
		Ranges: v.GenSpanRanges(e.Rng, k), Plan: gi.NoPlan()}
	// exhaust: all requested addresses of one pool, or each requested address with probability 1/2
	var victim *gi.PoolInfo
	if len(v.Pools) > 0 && e.Rng.Intn(3) != 0 {
		victim = &v.Pools[e.Rng.Intn(len(v.Pools))]
	}
	n := 0
	for _, l := range req.Ranges {
		for _, rg := range l {
			for x := uint64(rg[0]); x <= uint64(rg[1]); x++ {
				ip := uint32(x)
				p := gi.PoolOfIP(v.Pools, ip)
				if p == nil {
					continue
				}
				take := e.Rng.Intn(2) == 0
				if victim != nil {
					take = p.Gateway == victim.Gateway && len(p.Ranges) == len(victim.Ranges) && p.Ranges[0] == victim.Ranges[0]
				}
				if take {
					op := gi.Op{Kind: "aspec", Key: fmt.Sprintf("other-%d", n), IP: ip, Node: "n9", Plan: gi.NoPlan()}
					n++
					ops = append(ops, op)
					st := base.Do(op)
					rn.Note(&st)
				}
			}
		}
	}
	rn.R.Hit("span-case")
	rn.finish(base, ops, req)
}

// finish runs the request fault free, then from the same prefix with a fault at every call index.
func (rn *runner) finish(base *gi.Session, ops []gi.Op, req gi.Op) {
	ops = append(ops, req)
	st := base.Do(req)
	rn.Note(&st)
	rn.monitor(base, &st)
	if st.Class != "ok" {
		// the scheduler's retry: the same request again
		rt := base.Do(req)
		rn.Note(&rt)
		rn.monitor(base, &rt)
		rn.R.Hit("retry-after-failure:" + st.Class + "->" + rt.Class)
	}
	rn.Keep(base)
	ncreate := 0
	for _, c := range st.Calls {
		if c.Verb == "create" {
			ncreate++
		}
	}
	rn.R.Case(strings.Join(base.Src, "\n"), len(req.Ranges) >= 2 && (st.Class == "ok" || ncreate > 0))
	rn.R.Sample(map[string]interface{}{"request": req.JSON(), "result": st.Impl})
	// a fault at every call index: every create, every rollback delete of the base run, and one index past the last
	// call (which must not fire)
	var idx []int
	for i := 0; i <= len(st.Calls); i++ {
		idx = append(idx, i)
	}
	for _, f := range idx {
		s := gi.Prefix(ops, len(ops)-1, nil)
		r2 := req
		r2.Plan = gi.FailAt(f)
		st2 := s.Do(r2)
		rn.Note(&st2)
		rn.R.Hit(fmt.Sprintf("create-fault-index:%d", f))
		rn.monitor(s, &st2)
		// afterwards the same request without fault must behave like the first time (nothing leaked)
		st3 := s.Do(req)
		rn.monitor(s, &st3)
		rn.Keep(s)
		rn.R.Evaluations++
	}
}

func firstSubnet(v gi.View) string {
	for _, p := range v.Pools {
		for _, s := range p.Subnets {
			return s.Str
		}
	}
	return "10.0.1.0/24"
}

func pickSubnet(e *hx.Env, v gi.View) string {
	var l []string
	for _, p := range v.Pools {
		for _, s := range p.Subnets {
			l = append(l, s.Str)
		}
	}
	if len(l) == 0 || e.Rng.Intn(15) == 0 {
		return "10.77.0.0/16"
	}
	return l[e.Rng.Intn(len(l))]
}

func anyFree(e *hx.Env, v gi.View) uint32 {
	l := gi.SortedIPs(v.Mem.Free)
	if len(l) == 0 {
		return 10<<24 | 250<<16
	}
	return l[e.Rng.Intn(len(l))]
}

// replayAny: C08 has two kinds of replay / corpus files — IPAM-level histories (JSON ops, harness/ipam) and bind-level
// histories of the scheduler plugin (harness/plugin op lines, first line `init …`).
func (rn *runner) replayAny(path string) {
	lines, err := hx.ReadOps(path)
	if err != nil || len(lines) == 0 || strings.HasPrefix(lines[0], "{") {
		rn.ReplayFile(path, rn.monitor)
		return
	}
	t, err := plugin.ReplayOps(lines, rn.E.Rng, plugin.MonitorC08)
	if err != nil {
		rn.R.Disagree = append(rn.R.Disagree, hx.Disagreement{Where: "bind-replay", Impl: path, Model: err.Error()})
		return
	}
	rn.R.Case(strings.Join(t.Ops, "\n"), true)
	rn.R.Hit("corpus-file-bind-level")
	rn.R.Traces++
	for _, v := range t.Violations {
		v.Signature = strings.TrimSuffix(v.Signature, ":by=bind")
		v.Replay = path
		rn.R.Violations = append(rn.R.Violations, v)
	}
	if t.Hang != "" {
		rn.R.Violations = append(rn.R.Violations, hx.Violation{Signature: "bind-op-" + strings.Fields(t.Hang)[0], What: t.Hang, Replay: path})
		return
	}
	if d, err := plugin.Compare(rn.E, t); err != nil {
		rn.R.Disagree = append(rn.R.Disagree, hx.Disagreement{Where: "driver-failed", Impl: err.Error(), Replay: path})
	} else if d != nil {
		d.Replay = path
		rn.R.Disagree = append(rn.R.Disagree, *d)
	}
}

func run(e *hx.Env) *hx.Report {
	rn := &runner{gi.NewRunner(e, prop,
		"a case is nontrivial when it requests at least 2 range lists and either succeeds or reaches the create loop; each case is "+
			"re-run from the same prefix with a failing create at every index")}
	if e.Replay != "" {
		rn.replayAny(e.Replay)
		rn.Flush()
		return rn.R
	}
	for _, f := range gi.CorpusFiles(prop) {
		rn.replayAny(f)
	}
	n := e.N(1500, 20000)
	for i := 0; i < n; i++ {
		if i%4 == 3 {
			rn.spanCase()
		} else {
			rn.oneCase()
		}
	}
	rn.Flush()
	bindLevel(e, rn.R)
	return rn.R
}

// bindLevel: the bind-level clause of C08 on the REAL scheduler plugin (harness/plugin): partially pre-owned multi-range
// pods (every non-empty proper subset of the requested ranges pre-owned, "a later range but not an earlier one"
// included) go through the real Filter / Bind; monitor: the binding annotation has exactly k distinct ips, the i-th inside
// the i-th requested range (request order), pre-owned ones reused, all routable from the node, nothing new stays allocated
// after a failed bind; every history is compared with gxdrv_plugin.
func bindLevel(e *hx.Env, r *hx.Report) {
	b := plugin.RunBindRanges(e, prop)
	for i := range b.Violations {
		b.Violations[i].Signature = strings.TrimSuffix(b.Violations[i].Signature, ":by=bind")
	}
	for k, v := range b.Stats {
		r.Histogram["bind-"+k] += v
	}
	b.Stats = map[string]int{}
	b.Fill(r)
	r.Extra["bind_level_histories"] = b.Histories
}

func main() { hx.Main(prop, run) }
