// c17: GC removes only dead containers' state, and eventually all of it.
//
// Runs the REAL flannelGC (single-pass entry points of /repo/pkg/gc/verif_hooks_gc.go) over generated directories
// under /verif/out/gc.<pid>/ while a fake container runtime answers the inspect calls:
//
//	docker branch      fake docker engine HTTP endpoint (DOCKER_HOST): 200+State / 200 without State / 404 / 500 /
//	                   undecodable body / connection reset, per container id; a dead endpoint for the outage mode
//	containerd branch  fake CRI gRPC endpoint (CONTAINERD_HOST): NotFound / other codes / nil status / READY /
//	                   NOTREADY + fake API server for the pod lookup (gone / error / container statuses)
//
// Correspondence: remaining file names per directory and the port-clean callbacks vs gxdrv_gc (Galaxy.Model.Gc).
// Monitor: the property itself, from the harness's own classification of the scripted behaviours (dead / alive /
// unknown): nothing but a dead container's file is removed, every dead container's file is removed in ONE round,
// a second round is idle, callbacks exactly for the removed state files.
//
// Case line (also the replay format):  case <json>
package main

import (
	"encoding/json"
	"flag"
	"fmt"
	"io"
	"math/rand"
	"net"
	"os"
	"path/filepath"
	"sort"
	"strings"
	"time"

	corev1 "k8s.io/api/core/v1"
	apierrors "k8s.io/apimachinery/pkg/api/errors"
	metav1 "k8s.io/apimachinery/pkg/apis/meta/v1"
	"k8s.io/apimachinery/pkg/runtime"
	"k8s.io/apimachinery/pkg/runtime/schema"
	"k8s.io/client-go/kubernetes/fake"
	k8stesting "k8s.io/client-go/testing"
	"k8s.io/klog"
	"tkestack.io/galaxy/pkg/api/docker"
	realgc "tkestack.io/galaxy/pkg/gc"

	fk "gxverif/gc"
	"gxverif/hx"
)

const rule = "nontrivial = a case (one configuration of directories + runtime answers, one GC round) in which at least one " +
	"file was removed and at least one regular file was kept, counted once per distinct content"

type entry struct {
	N   string   `json:"n"`
	K   string   `json:"k"` // d = directory, f = regular file
	C   string   `json:"c,omitempty"`
	Sub []string `json:"sub,omitempty"` // files inside a sub-directory (content: the first container id)
}

type dirSpec struct {
	Missing bool    `json:"missing,omitempty"`
	E       []entry `json:"e"`
}

type gcCase struct {
	Mode       string                  `json:"mode"` // docker | outage | cri
	Containers map[string]fk.Behaviour `json:"containers"`
	IPDirs     []dirSpec               `json:"ipdirs"`
	GCDirs     []dirSpec               `json:"gcdirs"`
	CBFail     []string                `json:"cbfail,omitempty"`
	// Moves of the environment (host-local: CNI ADD / DEL) landing DURING inspect requests of the first round
	Moves []move `json:"moves,omitempty"`
}

// move: during the At-th inspect request of round 1 (1-based, counted at the fake runtime), write (Op "w") or
// delete (Op "x") the reservation file Name of allocated-IP directory Dir.
type move struct {
	At      int    `json:"at"`
	Op      string `json:"op"`
	Dir     int    `json:"dir"`
	Name    string `json:"name"`
	Content string `json:"content,omitempty"`
}

type env struct {
	e        *hx.Env
	r        *hx.Report
	work     string
	caseNo   int
	fd       *fk.FakeDocker
	fc       *fk.FakeCRI
	dockerIf *docker.DockerInterface
	outageIf *docker.DockerInterface
	criIf    *docker.DockerInterface
	criErr   string

	drvLines, drvImpl, drvWhere, drvCase []string
}

func quietLogs() {
	fs := flag.NewFlagSet("klog", flag.ContinueOnError)
	klog.InitFlags(fs)
	fs.Set("logtostderr", "false")
	fs.Set("alsologtostderr", "false")
	fs.Set("stderrthreshold", "FATAL")
	klog.SetOutput(io.Discard)
}

func (v *env) setup() error {
	root := os.Getenv("VERIF_ROOT")
	if root == "" {
		root = "/verif"
	}
	v.work = filepath.Join(root, "out", fmt.Sprintf("gc.%d", os.Getpid()))
	if err := os.MkdirAll(v.work, 0o755); err != nil {
		return err
	}
	os.Unsetenv("CONTAINERD_HOST")
	os.Unsetenv("DOCKER_API_VERSION")
	os.Unsetenv("DOCKER_CERT_PATH")
	v.fd = fk.NewFakeDocker()
	os.Setenv("DOCKER_HOST", v.fd.Host())
	var err error
	if v.dockerIf, err = docker.NewDockerInterface(); err != nil {
		return fmt.Errorf("docker interface: %v", err)
	}
	// outage: an endpoint nobody listens on
	l, err := net.Listen("tcp", "127.0.0.1:0")
	if err != nil {
		return err
	}
	dead := l.Addr().String()
	l.Close()
	os.Setenv("DOCKER_HOST", "tcp://"+dead)
	if v.outageIf, err = docker.NewDockerInterface(); err != nil {
		return fmt.Errorf("outage docker interface: %v", err)
	}
	// containerd / CRI
	sock := filepath.Join(v.work, "cri.sock")
	if v.fc, err = fk.NewFakeCRI(sock); err != nil {
		v.criErr = err.Error()
		return nil
	}
	os.Setenv("CONTAINERD_HOST", "unix://"+sock)
	out := hx.Guard(40*time.Second, func() { v.criIf, err = docker.NewDockerInterface() })
	os.Unsetenv("CONTAINERD_HOST")
	if out != "ok" || err != nil {
		v.criErr = fmt.Sprintf("%s %v", out, err)
		v.criIf = nil
	}
	return nil
}

func (v *env) cleanup() {
	if v.fd != nil {
		v.fd.Close()
	}
	if v.fc != nil {
		v.fc.Close()
	}
	os.RemoveAll(v.work)
}

func (v *env) expect(where, caseLine, line, impl string) {
	v.drvLines = append(v.drvLines, line)
	v.drvImpl = append(v.drvImpl, impl)
	v.drvWhere = append(v.drvWhere, where)
	v.drvCase = append(v.drvCase, caseLine)
}

func clip(s string) string {
	if len(s) > 400 {
		return s[:400] + "…"
	}
	return s
}

func (v *env) flush() {
	if len(v.drvLines) == 0 {
		return
	}
	out, err := v.e.RunDriver("gc", v.drvLines)
	if err != nil {
		rp := v.e.WriteReplay("C17", "obligation", "driver-failed", []string{err.Error()}, nil)
		v.r.Disagree = append(v.r.Disagree, hx.Disagreement{Where: "driver", Impl: "-", Model: err.Error(), Replay: rp})
		v.drvLines, v.drvImpl, v.drvWhere, v.drvCase = nil, nil, nil, nil
		return
	}
	seen := map[string]bool{}
	for i := range v.drvLines {
		v.r.Traces++
		if out[i] != v.drvImpl[i] {
			v.r.Hit("disagree:" + v.drvWhere[i])
			if seen[v.drvWhere[i]] || len(v.r.Disagree) >= 20 {
				continue
			}
			seen[v.drvWhere[i]] = true
			rp := v.e.WriteReplay("C17", "input", fmt.Sprintf("disagree-%s-%d", v.drvWhere[i], len(v.r.Disagree)),
				[]string{"correspondence point: " + v.drvWhere[i], "driver line: " + v.drvLines[i], "impl:  " + v.drvImpl[i], "model: " + out[i]},
				[]string{v.drvCase[i]})
			v.r.Disagree = append(v.r.Disagree, hx.Disagreement{Where: v.drvWhere[i], Index: i, Impl: clip(v.drvImpl[i]), Model: clip(out[i]),
				Replay: rp, Ops: []string{v.drvCase[i]}})
		}
	}
	v.drvLines, v.drvImpl, v.drvWhere, v.drvCase = nil, nil, nil, nil
}

func (v *env) violation(sig, what, caseLine string) {
	v.r.Hit("violation:" + sig)
	for _, x := range v.r.Violations {
		if x.Signature == sig {
			return
		}
	}
	rp := v.e.WriteReplay("C17", "input", "violation-"+strings.NewReplacer(":", "-", "/", "-").Replace(sig),
		[]string{"signature: " + sig, what}, []string{caseLine})
	v.r.Violations = append(v.r.Violations, hx.Violation{Signature: sig, What: clip(what), Replay: rp, Ops: []string{caseLine}})
}

// cidOf: the harness's own reading of "files whose content is a container id" (host-local writes "<id>\n<ifname>").
func cidOf(content string) string {
	line := content
	if i := strings.IndexByte(content, '\n'); i >= 0 {
		line = content[:i]
	}
	return strings.TrimSpace(line)
}

func (c *gcCase) behaviour(cid string) fk.Behaviour {
	if c.Mode == "outage" {
		return "err500"
	}
	if b, ok := c.Containers[cid]; ok {
		return b
	}
	return "notfound"
}

func (c *gcCase) cri() bool { return c.Mode == "cri" }

func (c *gcCase) specTokens() string {
	var parts []string
	ids := hx.SortedKeys(c.Containers)
	for _, id := range ids {
		parts = append(parts, "R", fk.H(id), c.behaviour(id).Token(c.cri()))
	}
	if c.Mode == "outage" {
		parts = append(parts, "D", "d:err")
	} else if c.cri() {
		parts = append(parts, "D", "c:nf")
	} else {
		parts = append(parts, "D", "d:nf")
	}
	return strings.Join(parts, " ")
}

func entryTokens(es []entry) string {
	var parts []string
	for _, e := range es {
		if e.K == "d" {
			parts = append(parts, "E", fk.H(e.N), "dir")
		} else {
			ip6 := "0"
			if strings.Contains(e.N, ":") && net.ParseIP(e.N) != nil {
				ip6 = "1"
			}
			parts = append(parts, "E", fk.H(e.N), "f:"+fk.H(e.C), ip6)
		}
	}
	return strings.Join(parts, " ")
}

func namesLine(names []string) string {
	sort.Strings(names)
	hs := make([]string, len(names))
	for i, n := range names {
		hs[i] = fk.H(n)
	}
	return strings.Join(hs, " ")
}

func populate(dir string, d dirSpec) error {
	if d.Missing {
		return nil
	}
	if err := os.MkdirAll(dir, 0o755); err != nil {
		return err
	}
	for _, e := range d.E {
		p := filepath.Join(dir, e.N)
		if e.K == "d" {
			if err := os.MkdirAll(p, 0o755); err != nil {
				return err
			}
			for _, s := range e.Sub {
				if err := os.WriteFile(filepath.Join(p, s), []byte(e.C), 0o600); err != nil {
					return err
				}
			}
		} else if err := os.WriteFile(p, []byte(e.C), 0o600); err != nil {
			return err
		}
	}
	return nil
}

func listing(dir string) (top []string, nested map[string]bool) {
	nested = map[string]bool{}
	des, err := os.ReadDir(dir)
	if err != nil {
		return nil, nested
	}
	for _, de := range des {
		top = append(top, de.Name())
		if de.IsDir() {
			subs, _ := os.ReadDir(filepath.Join(dir, de.Name()))
			for _, s := range subs {
				nested[de.Name()+"/"+s.Name()] = true
			}
		}
	}
	return top, nested
}

func (v *env) kube(c *gcCase) *fake.Clientset {
	var objs []runtime.Object
	for id, b := range c.Containers {
		var sts []corev1.ContainerStatus
		term := corev1.ContainerState{Terminated: &corev1.ContainerStateTerminated{ExitCode: 0}}
		run := corev1.ContainerState{Running: &corev1.ContainerStateRunning{}}
		wait := corev1.ContainerState{Waiting: &corev1.ContainerStateWaiting{Reason: "CrashLoopBackOff"}}
		switch b {
		case "nr-term":
			sts = []corev1.ContainerStatus{{Name: "a", State: term}, {Name: "b", State: term}}
		case "nr-nostatus":
		case "nr-running":
			sts = []corev1.ContainerStatus{{Name: "a", State: term}, {Name: "b", State: run}}
		case "nr-waiting":
			sts = []corev1.ContainerStatus{{Name: "a", State: wait}}
		case "nr-mixed":
			sts = []corev1.ContainerStatus{{Name: "a", State: term}, {Name: "b", State: wait}, {Name: "c", State: run}}
		default:
			continue
		}
		objs = append(objs, &corev1.Pod{ObjectMeta: metav1.ObjectMeta{Name: fk.PodName(id, b), Namespace: "ns1"},
			Status: corev1.PodStatus{ContainerStatuses: sts}})
	}
	cs := fake.NewSimpleClientset(objs...)
	cs.PrependReactor("get", "pods", func(a k8stesting.Action) (bool, runtime.Object, error) {
		if strings.HasPrefix(a.(k8stesting.GetAction).GetName(), "errpod-") {
			return true, nil, apierrors.NewServiceUnavailable("apiserver is down")
		}
		return false, nil, nil
	})
	_ = schema.GroupResource{}
	return cs
}

func (v *env) runCase(line string) {
	var c gcCase
	if err := json.Unmarshal([]byte(strings.TrimPrefix(line, "case ")), &c); err != nil {
		v.r.Hit("bad-case-line")
		return
	}
	if c.Mode == "cri" && v.criIf == nil {
		v.r.Hit("cri:skipped-no-endpoint")
		return
	}
	v.caseNo++
	base := filepath.Join(v.work, fmt.Sprintf("case%d", v.caseNo))
	defer os.RemoveAll(base)
	var ipDirs, gcDirs []string
	for i, d := range c.IPDirs {
		p := filepath.Join(base, fmt.Sprintf("ip%d", i))
		ipDirs = append(ipDirs, p)
		if err := populate(p, d); err != nil {
			v.r.Hit("populate-error")
			v.r.Extra["populate-error"] = err.Error()
			return
		}
	}
	for i, d := range c.GCDirs {
		p := filepath.Join(base, fmt.Sprintf("gc%d", i))
		gcDirs = append(gcDirs, p)
		if err := populate(p, d); err != nil {
			v.r.Hit("populate-error")
			v.r.Extra["populate-error"] = err.Error()
			return
		}
	}
	cbFail := map[string]bool{}
	for _, id := range c.CBFail {
		cbFail[id] = true
	}
	var callbacks []string
	cb := func(cid string) error {
		callbacks = append(callbacks, cid)
		if cbFail[cid] {
			return fmt.Errorf("iptables: resource temporarily unavailable")
		}
		return nil
	}
	var dif *docker.DockerInterface
	var kube *fake.Clientset
	switch c.Mode {
	case "docker":
		v.fd.Set(c.Containers)
		dif = v.dockerIf
		os.Unsetenv("CONTAINERD_HOST")
	case "outage":
		dif = v.outageIf
		os.Unsetenv("CONTAINERD_HOST")
	case "cri":
		v.fc.Set(c.Containers)
		dif = v.criIf
		kube = v.kube(&c)
		os.Setenv("CONTAINERD_HOST", "unix://"+v.fc.Socket)
		defer os.Unsetenv("CONTAINERD_HOST")
	default:
		v.r.Hit("bad-case-line")
		return
	}
	var g = realgc.VerifNewFlannelGC(nil, dif, ipDirs, gcDirs, cb)
	if kube != nil {
		g = realgc.VerifNewFlannelGC(kube, dif, ipDirs, gcDirs, cb)
	}
	v.r.Hit("mode:" + c.Mode)
	for id := range c.Containers {
		b := c.behaviour(id)
		v.r.Hit(fmt.Sprintf("behaviour:%s:%s", c.Mode, b))
		_ = id
	}

	// the environment moves while the collector waits for the runtime: applied inside the fake's request handler
	type applied struct {
		m        move
		observed string // the container the collector was asking about
		prev     string // content of the target before the move ("" = absent)
		had      bool
	}
	var done []applied
	hasMoves := len(c.Moves) > 0 && c.Mode != "outage"
	if hasMoves {
		hook := func(k int, id string) {
			for _, m := range c.Moves {
				if m.At != k || m.Dir < 0 || m.Dir >= len(ipDirs) {
					continue
				}
				p := filepath.Join(ipDirs[m.Dir], m.Name)
				b, err := os.ReadFile(p)
				a := applied{m: m, observed: id, prev: string(b), had: err == nil}
				if m.Op == "w" {
					os.WriteFile(p, []byte(m.Content), 0o600)
				} else {
					os.Remove(p)
				}
				done = append(done, a)
			}
		}
		if c.cri() {
			v.fc.SetHook(hook)
		} else {
			v.fd.SetHook(hook)
		}
		v.r.Hit("stream:environment-moves:" + c.Mode)
	}
	out := hx.Guard(120*time.Second, func() {
		g.VerifCleanupIPOnce()
		g.VerifCleanupGCDirsOnce()
	})
	if hasMoves {
		v.fd.SetHook(nil)
		if v.fc != nil {
			v.fc.SetHook(nil)
		}
	}
	if out != "ok" {
		v.violation("gc-round-"+strings.SplitN(out, ":", 2)[0], "one GC round: "+out, line)
		return
	}
	// targets of moves are judged by their content AFTER the move, not by the initial specification
	moved := map[string]bool{}
	for _, m := range c.Moves {
		moved[fmt.Sprint(m.Dir, "/", m.Name)] = true
	}
	admissible := hasMoves && len(done) == len(c.Moves)
	for _, a := range done {
		// a move that hits the file whose owner is being inspected falls into the read-inspect-remove window every
		// such collector has: no claim
		if a.had && cidOf(a.prev) == a.observed {
			admissible = false
			v.r.Hit("moves:in-own-window-no-claim")
		}
	}
	if hasMoves && len(done) != len(c.Moves) {
		v.r.Hit("moves:not-reached-no-claim")
	}
	checkMoved := func(round int) {
		if !admissible {
			return
		}
		last := map[string]move{}
		for _, a := range done {
			last[fmt.Sprint(a.m.Dir, "/", a.m.Name)] = a.m
		}
		for _, m := range last {
			if m.Op != "w" || net.ParseIP(m.Name) == nil || len(m.Content) == 0 {
				continue
			}
			b := c.behaviour(cidOf(m.Content))
			cls := b.Class(c.cri())
			_, err := os.Lstat(filepath.Join(ipDirs[m.Dir], m.Name))
			exists := err == nil
			switch {
			case cls == "alive" && !exists:
				v.violation("gc-removed:reassigned-to-running", fmt.Sprintf("round %d: reservation %q was handed to the running container %q (%s) during inspect request %d and was removed afterwards: the collector judged an owner it had read before the re-assignment",
					round, m.Name, cidOf(m.Content), b, m.At), line)
			case cls == "unknown" && !exists:
				v.violation("gc-removed:reassigned-to-unknown", fmt.Sprintf("round %d: reservation %q was handed to container %q (%s) during inspect request %d and was removed afterwards", round, m.Name, cidOf(m.Content), b, m.At), line)
			case cls == "dead" && exists && round == 2:
				v.violation("gc-dead-not-removed:after-reassignment", fmt.Sprintf("reservation %q, handed to the dead container %q during round 1, is still there after round 2", m.Name, cidOf(m.Content)), line)
			}
			v.r.Hit("moves:checked:" + cls)
		}
	}
	checkMoved(1)
	round1CB := append([]string(nil), callbacks...)
	removedAny, keptFile := false, false

	// ---- IP directories
	for i, d := range c.IPDirs {
		top, nested := listing(ipDirs[i])
		if d.Missing {
			continue
		}
		left := map[string]bool{}
		for _, n := range top {
			left[n] = true
		}
		if !hasMoves {
			v.expect("ipsweep", line, "ipsweep "+c.specTokens()+" "+entryTokens(d.E), strings.TrimRight("ok "+namesLine(top), " "))
		}
		for _, e := range d.E {
			if moved[fmt.Sprint(i, "/", e.N)] {
				continue
			}
			removed := !left[e.N]
			if e.K == "d" {
				v.r.Hit("ipdir-entry:directory")
				if removed {
					v.violation("gc-removed:directory", fmt.Sprintf("allocated-IP dir: sub-directory %q was removed", e.N), line)
				}
				for _, s := range e.Sub {
					if !nested[e.N+"/"+s] {
						v.violation("gc-removed:inside-subdirectory", fmt.Sprintf("allocated-IP dir: %s/%s was removed", e.N, s), line)
					}
				}
				continue
			}
			isIP := net.ParseIP(e.N) != nil
			b := c.behaviour(cidOf(e.C))
			cls := b.Class(c.cri())
			kind := ""
			switch {
			case !isIP:
				kind = "non-ip-name"
			case len(e.C) == 0:
				kind = "empty-file"
			default:
				kind = "container-" + cls + "-" + string(b)
			}
			v.r.Hit("ipdir-entry:" + strings.SplitN(kind, "-", 3)[0] + "-" + strings.SplitN(kind+"--", "-", 3)[1])
			expectRemoved := isIP && len(e.C) > 0 && cls == "dead"
			if removed {
				removedAny = true
			} else {
				keptFile = true
			}
			if removed && !expectRemoved {
				v.violation("gc-removed:"+kind, fmt.Sprintf("allocated-IP dir: file %q (content %q) was removed although its container is not dead (%s)", e.N, e.C, kind), line)
			}
			if !removed && expectRemoved {
				v.violation(c.deadLeftSig(true, i, e.N, b), fmt.Sprintf("allocated-IP dir %d: file %q of dead container %q (%s) survived a GC round%s", i, e.N, cidOf(e.C), b,
					c.behindNote(true, i, e.N)), line)
			}
		}
	}
	if hasMoves && admissible {
		// the whole pass over all allocated-IP directories, interleaved with the moves, against the model
		toks := []string{"ipsweepi", c.specTokens()}
		var segs []string
		for i, d := range c.IPDirs {
			if d.Missing {
				toks = append(toks, "NODIR")
				segs = append(segs, "~")
				continue
			}
			toks = append(toks, "DIR")
			if et := entryTokens(d.E); et != "" {
				toks = append(toks, et)
			}
			top, _ := listing(ipDirs[i])
			segs = append(segs, namesLine(top))
		}
		for _, m := range c.Moves {
			if m.Op == "w" {
				ip6 := "0"
				if strings.Contains(m.Name, ":") && net.ParseIP(m.Name) != nil {
					ip6 = "1"
				}
				toks = append(toks, "M", fmt.Sprint(m.At), "w", fmt.Sprint(m.Dir), fk.H(m.Name), fk.H(m.Content), ip6)
			} else {
				toks = append(toks, "M", fmt.Sprint(m.At), "x", fmt.Sprint(m.Dir), fk.H(m.Name))
			}
		}
		v.expect("ipsweep-interleaved", line, strings.Join(toks, " "), "ok "+strings.Join(segs, " | "))
	}
	// ---- gc_dirs
	var wantCB []string
	for i, d := range c.GCDirs {
		top, nested := listing(gcDirs[i])
		if d.Missing {
			continue
		}
		left := map[string]bool{}
		for _, n := range top {
			left[n] = true
		}
		var dirCB []string
		for _, e := range d.E {
			removed := !left[e.N]
			if e.K == "d" {
				v.r.Hit("gcdir-entry:directory")
				if removed {
					v.violation("gc-removed:directory", fmt.Sprintf("gc_dirs: sub-directory %q was removed", e.N), line)
				}
				for _, s := range e.Sub {
					if !nested[e.N+"/"+s] {
						v.violation("gc-removed:inside-subdirectory", fmt.Sprintf("gc_dirs: %s/%s was removed", e.N, s), line)
					}
				}
				continue
			}
			b := c.behaviour(e.N)
			cls := b.Class(c.cri())
			v.r.Hit("gcdir-entry:container-" + cls)
			if removed {
				removedAny = true
				dirCB = append(dirCB, e.N)
			} else {
				keptFile = true
			}
			if removed && cls != "dead" {
				v.violation(fmt.Sprintf("gc-removed:container-%s-%s", cls, b), fmt.Sprintf("gc_dirs: state file %q was removed although its container is not dead (%s)", e.N, b), line)
			}
			if !removed && cls == "dead" {
				v.violation(c.deadLeftSig(false, i, e.N, b), fmt.Sprintf("gc_dirs %d: state file %q of dead container (%s) survived a GC round%s", i, e.N, b,
					c.behindNote(false, i, e.N)), line)
			}
		}
		wantCB = append(wantCB, dirCB...)
		// the driver sees one directory at a time; its callbacks are the removed names of that directory
		v.expect("gcsweep", line, "gcsweep "+c.specTokens()+" "+entryTokens(d.E),
			strings.TrimRight("ok "+namesLine(top), " ")+" | "+namesLine(append([]string(nil), dirCB...)))
	}
	// callbacks (multiset) = the removed state files
	a := append([]string(nil), round1CB...)
	w := append([]string(nil), wantCB...)
	sort.Strings(a)
	sort.Strings(w)
	if strings.Join(a, ",") != strings.Join(w, ",") {
		v.violation("gc-callbacks-differ-from-removed-state-files", fmt.Sprintf("port-clean callbacks %v, removed state files %v", a, w), line)
	}
	for _, id := range round1CB {
		if cls := c.behaviour(id).Class(c.cri()); cls != "dead" {
			v.violation("gc-callback-for:container-"+cls, fmt.Sprintf("port-clean callback for container %q which is not dead (%s)", id, c.behaviour(id)), line)
		}
		if cbFail[id] {
			v.r.Hit("callback-failed-file-removed-anyway")
		}
	}
	c.placementHist(v.r)
	v.r.Case(line, removedAny && keptFile)
	if len(v.r.Samples) < 3 && removedAny && keptFile {
		v.r.Sample(map[string]interface{}{"mode": c.Mode, "containers": c.Containers, "callbacks": round1CB})
	}

	// ---- second round under the same answers: must be idle (bound = 1 round)
	before := snapshot(append(append([]string(nil), ipDirs...), gcDirs...))
	callbacks = nil
	out = hx.Guard(120*time.Second, func() {
		g.VerifCleanupIPOnce()
		g.VerifCleanupGCDirsOnce()
	})
	if out != "ok" {
		v.violation("gc-round-"+strings.SplitN(out, ":", 2)[0], "second GC round: "+out, line)
		return
	}
	// "eventually all of it": after the second round, too, no dead container's file may be left in ANY directory,
	// wherever entries with a persistently failing inspect call sort
	for _, ip := range []bool{true, false} {
		specs, paths := c.GCDirs, gcDirs
		if ip {
			specs, paths = c.IPDirs, ipDirs
		}
		for i, d := range specs {
			if d.Missing {
				continue
			}
			for _, e := range d.E {
				if !c.isDeadFile(ip, e) || (ip && moved[fmt.Sprint(i, "/", e.N)]) {
					continue
				}
				if _, err := os.Lstat(filepath.Join(paths[i], e.N)); err == nil {
					v.violation(c.deadLeftSig(ip, i, e.N, c.fileBehaviour(ip, e)), fmt.Sprintf("file %q of a dead container is still there after TWO GC rounds%s", e.N, c.behindNote(ip, i, e.N)), line)
				}
			}
		}
	}
	after := snapshot(append(append([]string(nil), ipDirs...), gcDirs...))
	checkMoved(2)
	if !hasMoves && (before != after || len(callbacks) != 0) {
		v.violation("gc-second-round-not-idle", fmt.Sprintf("second round under the same runtime answers changed the directories or called back %v", callbacks), line)
	}
	// ---- third round on the SAME collector: containers it has judged dead come back (docker start / restart
	// policy / a transient not-found) and get their state again; they are running now, so nothing of theirs may go
	// ("never for a running one" is about the container's state at the time of the round, not at an earlier one)
	if c.Mode == "docker" && !hasMoves {
		t3 := map[string]fk.Behaviour{}
		for id, b := range c.Containers {
			t3[id] = b
		}
		type revived struct{ path, cid string }
		var back []revived
		for _, ip := range []bool{true, false} {
			specs, paths := c.GCDirs, gcDirs
			if ip {
				specs, paths = c.IPDirs, ipDirs
			}
			for i, d := range specs {
				if d.Missing {
					continue
				}
				for _, e := range d.E {
					if !c.isDeadFile(ip, e) {
						continue
					}
					cid := e.N
					if ip {
						cid = cidOf(e.C)
					}
					t3[cid] = "running"
					fp := filepath.Join(paths[i], e.N)
					if os.WriteFile(fp, []byte(e.C), 0o600) == nil {
						back = append(back, revived{fp, cid})
					}
				}
			}
		}
		if len(back) > 0 {
			v.fd.Set(t3)
			callbacks = nil
			out = hx.Guard(120*time.Second, func() {
				g.VerifCleanupIPOnce()
				g.VerifCleanupGCDirsOnce()
			})
			v.fd.Set(c.Containers)
			v.r.Hit("stream:revived-containers")
			if out != "ok" {
				v.violation("gc-round-"+strings.SplitN(out, ":", 2)[0], "third GC round: "+out, line)
				return
			}
			for _, b := range back {
				if _, err := os.Lstat(b.path); err != nil {
					v.violation("gc-removed:running-after-restart", fmt.Sprintf("container %q was dead in rounds 1-2, is running in round 3 with its state written again: %s was removed by the same collector",
						b.cid, filepath.Base(filepath.Dir(b.path))+"/"+filepath.Base(b.path)), line)
					break
				}
			}
			if len(callbacks) != 0 {
				v.violation("gc-callback:running-after-restart", fmt.Sprintf("port-mapping cleanup was called for running containers %v in round 3", callbacks), line)
			}
		}
	}
}

// erroring: the inspect call for this behaviour fails with something other than not-found (persistently: the fakes
// answer the same on every call).
func erroring(b fk.Behaviour, cri bool) bool {
	if cri {
		return b == "unavailable" || b == "internal" || b == "unknowncode"
	}
	return b == "err500" || b == "garbage" || b == "reset"
}

// fileBehaviour: the runtime behaviour that decides about this regular file ("" = the collector never asks).
func (c *gcCase) fileBehaviour(ip bool, e entry) fk.Behaviour {
	if e.K != "f" {
		return ""
	}
	if !ip {
		return c.behaviour(e.N)
	}
	if net.ParseIP(e.N) == nil || len(e.C) == 0 {
		return ""
	}
	return c.behaviour(cidOf(e.C))
}

func (c *gcCase) isDeadFile(ip bool, e entry) bool {
	b := c.fileBehaviour(ip, e)
	return b != "" && b.Class(c.cri()) == "dead"
}

// behind: an entry whose inspect call fails sorts before `name` in directory i (ReadDir order = sorted names), or
// sits in an earlier directory of the same list.  where = "" | "same-dir" | "earlier-dir".
func (c *gcCase) behind(ip bool, i int, name string) string {
	specs := c.GCDirs
	if ip {
		specs = c.IPDirs
	}
	for j := 0; j <= i && j < len(specs); j++ {
		if specs[j].Missing {
			continue
		}
		for _, e := range specs[j].E {
			b := c.fileBehaviour(ip, e)
			if b == "" || !erroring(b, c.cri()) {
				continue
			}
			if j < i {
				return "earlier-dir"
			}
			if e.N < name {
				return "same-dir"
			}
		}
	}
	return ""
}

func (c *gcCase) deadLeftSig(ip bool, i int, name string, b fk.Behaviour) string {
	if c.behind(ip, i, name) != "" {
		return "gc-dead-not-removed-behind-erroring-entry"
	}
	return "gc-dead-not-removed:" + string(b)
}

func (c *gcCase) behindNote(ip bool, i int, name string) string {
	switch c.behind(ip, i, name) {
	case "same-dir":
		return " — an entry whose inspect call fails sorts before it in the same directory"
	case "earlier-dir":
		return " — an entry whose inspect call fails sits in an earlier directory of the list"
	}
	return ""
}

// placementHist: how dead containers' files sit relative to entries with a failing inspect call.
func (c *gcCase) placementHist(r *hx.Report) {
	for _, ip := range []bool{true, false} {
		specs := c.GCDirs
		kind := "gcdirs"
		if ip {
			specs, kind = c.IPDirs, "ipdirs"
		}
		for i, d := range specs {
			if d.Missing {
				continue
			}
			for _, e := range d.E {
				if !c.isDeadFile(ip, e) {
					continue
				}
				switch c.behind(ip, i, e.N) {
				case "same-dir":
					r.Hit("placement:" + kind + ":dead-file-after-erroring-entry-same-dir")
				case "earlier-dir":
					r.Hit("placement:" + kind + ":dead-file-after-erroring-entry-earlier-dir")
				default:
					r.Hit("placement:" + kind + ":dead-file-not-behind-erroring-entry")
				}
			}
		}
	}
}

// genBehindErr: the liveness clause under partial runtime failure — ids are made to sort err < dead < err < dead < err
// (and alive ones in between), over several directories; variant "first-dir-only": the failing entries are all in
// the first directory of each list, the dead containers' files in the later ones.
func genBehindErr(rng *rand.Rand, mode string) *gcCase {
	cri := mode == "cri"
	c := &gcCase{Mode: mode, Containers: map[string]fk.Behaviour{}}
	var errB, deadB, aliveB []fk.Behaviour
	all := fk.DockerBehaviours
	if cri {
		all = fk.CriBehaviours
	}
	for _, b := range all {
		switch {
		case erroring(b, cri):
			errB = append(errB, b)
		case b.Class(cri) == "dead":
			deadB = append(deadB, b)
		case b.Class(cri) == "alive":
			aliveB = append(aliveB, b)
		}
	}
	// slots in sorted order: a0 err, a1 dead, a2 alive, a3 err, a4 dead, a5 alive, a6 err, a7 dead, a8 err
	roles := []string{"err", "dead", "alive", "err", "dead", "alive", "err", "dead", "err"}
	var ids []string
	for i, role := range roles {
		id := fmt.Sprintf("a%d%s", i, genID(rng)[:8])
		ids = append(ids, id)
		switch role {
		case "err":
			c.Containers[id] = errB[rng.Intn(len(errB))]
		case "dead":
			c.Containers[id] = deadB[rng.Intn(len(deadB))]
		default:
			c.Containers[id] = aliveB[rng.Intn(len(aliveB))]
		}
	}
	firstDirOnly := rng.Intn(3) == 0
	ndirs := 2 + rng.Intn(2)
	for d := 0; d < ndirs; d++ {
		ipd, gcd := dirSpec{}, dirSpec{}
		for i, id := range ids {
			role := roles[i]
			if firstDirOnly && ((d == 0) != (role == "err")) && role != "alive" {
				continue // first directory: only failing (and alive) entries; later ones: only dead (and alive)
			}
			if !firstDirOnly && rng.Intn(4) == 0 && !(d == 0 && i < 2) {
				continue
			}
			// allocated-IP dir: names 10.<d>.0.<i> sort like the slots (single digits)
			ipd.E = append(ipd.E, entry{N: fmt.Sprintf("10.%d.0.%d", d, i), K: "f", C: genContent(rng, id)})
			gcd.E = append(gcd.E, entry{N: id, K: "f", C: `{"galaxy-flannel":{}}`})
		}
		rng.Shuffle(len(ipd.E), func(a, b int) { ipd.E[a], ipd.E[b] = ipd.E[b], ipd.E[a] })
		rng.Shuffle(len(gcd.E), func(a, b int) { gcd.E[a], gcd.E[b] = gcd.E[b], gcd.E[a] })
		c.IPDirs = append(c.IPDirs, ipd)
		c.GCDirs = append(c.GCDirs, gcd)
	}
	return c
}

// genMoveCases: one layout of reservation files (a different owner per file) and, for EVERY inspect request k of the
// pass, a handful of environment moves landing during that request: a later / an earlier reservation handed to a
// running container, a new reservation (sorting after, in a later directory, before everything), a released
// reservation, a later reservation handed to a dead container.
func genMoveCases(rng *rand.Rand, mode string) []*gcCase {
	cri := mode == "cri"
	all := fk.DockerBehaviours
	if cri {
		all = fk.CriBehaviours
	}
	var behs []fk.Behaviour
	for _, b := range all {
		if b != "reset" { // a reset connection may be retried by the http transport: request numbers would shift
			behs = append(behs, b)
		}
	}
	running := fk.Behaviour("running")
	if cri {
		running = "ready"
	}
	base := gcCase{Mode: mode, Containers: map[string]fk.Behaviour{}}
	runID := "run" + genID(rng)[:8]
	base.Containers[runID] = running
	goneID := "gone" + genID(rng)[:8] // nobody knows it: not found = dead
	type pos struct {
		dir  int
		name string
		cls  string
	}
	var seq []pos // the inspectable files in the order of the pass
	nd := 1 + rng.Intn(2)
	for d := 0; d < nd; d++ {
		ds := dirSpec{}
		nf := 2 + rng.Intn(3)
		for i := 1; i <= nf; i++ {
			id := fmt.Sprintf("c%d%d%s", d, i, genID(rng)[:6])
			b := behs[rng.Intn(len(behs))]
			if rng.Intn(2) == 0 {
				b = []fk.Behaviour{"notfound", "notfound", "exited", "dead"}[rng.Intn(4)]
				if cri {
					b = []fk.Behaviour{"notfound", "nr-podgone", "nr-term"}[rng.Intn(3)]
				}
			}
			base.Containers[id] = b
			name := fmt.Sprintf("10.%d.0.%d", d, i)
			ds.E = append(ds.E, entry{N: name, K: "f", C: genContent(rng, id)})
			seq = append(seq, pos{d, name, b.Class(cri)})
		}
		if rng.Intn(2) == 0 {
			ds.E = append(ds.E, entry{N: fmt.Sprintf("10.%d.0.0", d), K: "f", C: ""}) // sorts first, not inspectable
		}
		if rng.Intn(3) == 0 {
			ds.E = append(ds.E, entry{N: "lock", K: "f", C: "x"})
		}
		base.IPDirs = append(base.IPDirs, ds)
	}
	mk := func(ms ...move) *gcCase {
		c := base
		c.Moves = ms
		return &c
	}
	var out []*gcCase
	for k := 1; k <= len(seq); k++ {
		later := seq[k:]
		earlier := seq[:k-1]
		cur := seq[k-1]
		if len(later) > 0 {
			t := later[rng.Intn(len(later))]
			// prefer a reservation of a dead container: the one the batched refactoring gets wrong
			for _, l := range later {
				if l.cls == "dead" && rng.Intn(2) == 0 {
					t = l
				}
			}
			out = append(out, mk(move{At: k, Op: "w", Dir: t.dir, Name: t.name, Content: genContent(rng, runID)}))
			t2 := later[rng.Intn(len(later))]
			out = append(out, mk(move{At: k, Op: "x", Dir: t2.dir, Name: t2.name}))
			t3 := later[rng.Intn(len(later))]
			out = append(out, mk(move{At: k, Op: "w", Dir: t3.dir, Name: t3.name, Content: genContent(rng, goneID)}))
		}
		if len(earlier) > 0 {
			t := earlier[rng.Intn(len(earlier))]
			out = append(out, mk(move{At: k, Op: "w", Dir: t.dir, Name: t.name, Content: genContent(rng, runID)}))
		}
		newName := []string{fmt.Sprintf("10.%d.0.9", cur.dir), fmt.Sprintf("10.%d.0.9", nd-1), fmt.Sprintf("10.%d.0.00", cur.dir), "10.0.0.0"}[rng.Intn(4)]
		newDir := cur.dir
		if strings.HasPrefix(newName, fmt.Sprintf("10.%d.", nd-1)) {
			newDir = nd - 1
		}
		if newName == "10.0.0.0" {
			newDir = 0
		}
		owner := runID
		if rng.Intn(3) == 0 {
			owner = goneID
		}
		out = append(out, mk(move{At: k, Op: "w", Dir: newDir, Name: newName, Content: genContent(rng, owner)}))
	}
	return out
}

// genDense: a dense node — the files of several hundred RUNNING containers sort first (first allocated-IP directory,
// first gc dirs), the dead containers' files lie behind them and in the later directories.  "Eventually all of it"
// has no size bound: one round still has to collect every dead container's file.
func genDense(rng *rand.Rand, mode string, nRunning int) *gcCase {
	cri := mode == "cri"
	running, deadB := fk.Behaviour("running"), []fk.Behaviour{"exited", "dead", "notfound"}
	if cri {
		running, deadB = "ready", []fk.Behaviour{"notfound", "nr-podgone", "nr-term"}
	}
	c := &gcCase{Mode: mode, Containers: map[string]fk.Behaviour{}}
	var run, dead []string
	for i := 0; i < nRunning; i++ {
		id := fmt.Sprintf("a%04d%s", i, genID(rng)[:6])
		run = append(run, id)
		c.Containers[id] = running
	}
	for i := 0; i < 6; i++ {
		id := fmt.Sprintf("z%02d%s", i, genID(rng)[:6])
		dead = append(dead, id)
		c.Containers[id] = deadB[rng.Intn(len(deadB))]
	}
	ip0, ip1 := dirSpec{}, dirSpec{}
	for i, id := range run {
		ip0.E = append(ip0.E, entry{N: fmt.Sprintf("10.0.%d.%d", i/250, i%250+1), K: "f", C: id + "\neth0"})
	}
	ip0.E = append(ip0.E, entry{N: "10.9.9.9", K: "f", C: dead[0] + "\neth0"}) // behind all running ones in the same directory
	for i, id := range dead {
		ip1.E = append(ip1.E, entry{N: fmt.Sprintf("10.1.0.%d", i+1), K: "f", C: genContent(rng, id)})
	}
	ip1.E = append(ip1.E, entry{N: "10.1.0.200", K: "f", C: run[0]})
	c.IPDirs = []dirSpec{ip0, ip1}
	g0, g1, g2 := dirSpec{}, dirSpec{}, dirSpec{}
	for i, id := range run {
		g0.E = append(g0.E, entry{N: id, K: "f", C: `{"galaxy-flannel":{}}`})
		if i%2 == 0 {
			g1.E = append(g1.E, entry{N: id, K: "f", C: "{}"})
		}
	}
	for i, id := range dead {
		g1.E = append(g1.E, entry{N: id, K: "f", C: "{}"})
		if i%2 == 0 {
			g2.E = append(g2.E, entry{N: id, K: "f", C: `[{"hostPort":80}]`})
		}
	}
	g0.E = append(g0.E, entry{N: dead[1], K: "f", C: "{}"})
	c.GCDirs = []dirSpec{g0, g1, g2}
	return c
}

func snapshot(dirs []string) string {
	var parts []string
	for _, d := range dirs {
		top, nested := listing(d)
		sort.Strings(top)
		parts = append(parts, strings.Join(top, ","), strings.Join(hx.SortedKeys(nested), ","))
	}
	return strings.Join(parts, "|")
}

// ------------------------------------------------------------------------------------------------ generator

func genID(rng *rand.Rand) string {
	const hexd = "0123456789abcdef"
	n := []int{12, 12, 64, 8}[rng.Intn(4)]
	b := make([]byte, n)
	for i := range b {
		b[i] = hexd[rng.Intn(16)]
	}
	return string(b)
}

var junkIPNames = []string{"last_reserved_ip.0", "lock", "10.0.0", "10.0.0.256", "010.0.0.1", "1.2.3.4.5", " 10.0.0.1", "10.0.0.1 ",
	"1::2::3", "10.0.0.1.bak", ".10.0.0.1", "a.b.c.d", "10.0.0.-1", "0x0a.0.0.1", "1.2.3.4_24", "１.2.3.4"}
var ip6Names = []string{"fe80::1", "::ffff:10.0.0.9", "2001:db8::1", "::1"}
var junkGCNames = []string{"README", ".lock", "tmp.swp", "port.bak"}

func genContent(rng *rand.Rand, id string) string {
	switch rng.Intn(8) {
	case 0:
		return id
	case 1:
		return id + "\n"
	case 2:
		return id + "\r\neth0"
	case 3:
		return "  " + id + " \t\neth0"
	case 4:
		return "\t" + id + " \neth1\n"
	default:
		return id + "\neth0"
	}
}

func genCase(rng *rand.Rand, mode string) *gcCase {
	c := &gcCase{Mode: mode, Containers: map[string]fk.Behaviour{}}
	behs := fk.DockerBehaviours
	if mode == "cri" {
		behs = fk.CriBehaviours
	}
	var ids []string
	for i, n := 0, 1+rng.Intn(8); i < n; i++ {
		id := genID(rng)
		ids = append(ids, id)
		c.Containers[id] = behs[rng.Intn(len(behs))]
	}
	// a container id nobody knows (file left behind by a long gone container)
	ghost := genID(rng)
	pick := func() string {
		if rng.Intn(8) == 0 {
			return ghost
		}
		return ids[rng.Intn(len(ids))]
	}
	nip := 1 + rng.Intn(3)
	used := map[string]bool{}
	for i := 0; i < nip; i++ {
		d := dirSpec{}
		if rng.Intn(7) == 0 {
			d.Missing = true
			c.IPDirs = append(c.IPDirs, d)
			continue
		}
		for j, n := 0, rng.Intn(8); j < n; j++ {
			name := fmt.Sprintf("10.%d.%d.%d", rng.Intn(256), rng.Intn(256), rng.Intn(256))
			switch rng.Intn(12) {
			case 0:
				name = junkIPNames[rng.Intn(len(junkIPNames))]
			case 1:
				name = ip6Names[rng.Intn(len(ip6Names))]
			case 2:
				name = []string{"0.0.0.0", "255.255.255.255", "192.168.0.68"}[rng.Intn(3)]
			}
			if used[fmt.Sprint(i, name)] {
				continue
			}
			used[fmt.Sprint(i, name)] = true
			e := entry{N: name, K: "f", C: genContent(rng, pick())}
			switch rng.Intn(14) {
			case 0:
				e.C = ""
			case 1:
				e = entry{N: name, K: "d", C: pick(), Sub: []string{"10.1.1.1", "10.1.1.2"}}
			}
			d.E = append(d.E, e)
		}
		if rng.Intn(3) == 0 && !used[fmt.Sprint(i, "galaxy-flannel")] {
			used[fmt.Sprint(i, "galaxy-flannel")] = true
			d.E = append(d.E, entry{N: "galaxy-flannel", K: "d", C: pick(), Sub: []string{"172.16.0.5"}})
		}
		c.IPDirs = append(c.IPDirs, d)
	}
	ngc := 1 + rng.Intn(3)
	for i := 0; i < ngc; i++ {
		d := dirSpec{}
		if rng.Intn(7) == 0 {
			d.Missing = true
			c.GCDirs = append(c.GCDirs, d)
			continue
		}
		seen := map[string]bool{}
		for _, id := range append(append([]string(nil), ids...), ghost) {
			if rng.Intn(3) == 0 || seen[id] {
				continue
			}
			seen[id] = true
			d.E = append(d.E, entry{N: id, K: "f", C: []string{`{"galaxy-flannel":{}}`, "", `[{"hostPort":52701,"containerPort":19998,"protocol":"tcp"}]`}[rng.Intn(3)]})
		}
		if rng.Intn(4) == 0 {
			d.E = append(d.E, entry{N: junkGCNames[rng.Intn(len(junkGCNames))], K: "f", C: "x"})
		}
		if rng.Intn(3) == 0 {
			d.E = append(d.E, entry{N: "port", K: "d", C: "[]", Sub: []string{pick(), ghost}})
		}
		rng.Shuffle(len(d.E), func(a, b int) { d.E[a], d.E[b] = d.E[b], d.E[a] })
		c.GCDirs = append(c.GCDirs, d)
	}
	if rng.Intn(5) == 0 {
		for _, id := range ids {
			if rng.Intn(2) == 0 {
				c.CBFail = append(c.CBFail, id)
			}
		}
		c.CBFail = append(c.CBFail, ghost)
	}
	return c
}

func run(e *hx.Env) *hx.Report {
	quietLogs()
	r := hx.NewReport("C17", e.Tier, e.Seed, rule)
	v := &env{e: e, r: r}
	if err := v.setup(); err != nil {
		r.Extra["setup-error"] = err.Error()
		rp := e.WriteReplay("C17", "obligation", "setup-failed", []string{err.Error()}, nil)
		r.Disagree = append(r.Disagree, hx.Disagreement{Where: "setup", Impl: err.Error(), Model: "-", Replay: rp})
		v.cleanup()
		return r
	}
	defer v.cleanup()
	if v.criIf == nil {
		r.Extra["cri-branch"] = "fake CRI endpoint unavailable (" + v.criErr + "): containerd branch covered by model + theorems only"
	} else {
		r.Extra["cri-branch"] = "exercised against a fake CRI gRPC endpoint + fake API server"
	}

	if e.Replay != "" {
		ops, err := hx.ReadOps(e.Replay)
		if err != nil {
			r.Extra["replay-error"] = err.Error()
			return r
		}
		for _, l := range ops {
			v.runCase(l)
		}
		v.flush()
		r.Extra["replay"] = e.Replay
		return r
	}
	root := os.Getenv("VERIF_ROOT")
	if root == "" {
		root = "/verif"
	}
	files, _ := filepath.Glob(filepath.Join(root, "corpus", "C17", "*.ops"))
	sort.Strings(files)
	for _, f := range files {
		ops, err := hx.ReadOps(f)
		if err != nil {
			continue
		}
		for _, l := range ops {
			r.Hit("corpus-line")
			v.runCase(l)
		}
	}
	v.flush()

	// decision table, every behaviour once, through a one-file sweep of the real collector
	v.decisionTable()

	rng := e.Rng
	// the liveness clause under PARTIAL runtime failure: dead containers' files behind / between / in later
	// directories than entries whose inspect call keeps failing
	for i, n := 0, e.N(60, 1500); i < n; i++ {
		mode := "docker"
		if i%2 == 1 && v.criIf != nil {
			mode = "cri"
		}
		c := genBehindErr(rng, mode)
		b, _ := json.Marshal(c)
		v.r.Hit("stream:behind-erroring-entry:" + mode)
		v.runCase("case " + string(b))
	}
	v.flush()
	// a dense node: hundreds of running containers' files in front of the dead ones (no bound on the size of a round)
	for i, n := 0, e.N(1, 6); i < n; i++ {
		mode := "docker"
		if i%2 == 1 && v.criIf != nil {
			mode = "cri"
		}
		b, _ := json.Marshal(genDense(rng, mode, 260+rng.Intn(60)))
		v.r.Hit("stream:dense-node:" + mode)
		v.runCase("case " + string(b))
		v.flush()
	}
	// the environment moving during a round: every inspect request k of a pass x a handful of moves
	for i, n := 0, e.N(6, 120); i < n; i++ {
		mode := "docker"
		if i%2 == 1 && v.criIf != nil {
			mode = "cri"
		}
		for _, c := range genMoveCases(rng, mode) {
			b, _ := json.Marshal(c)
			v.runCase("case " + string(b))
		}
		v.flush()
	}
	for i, n := 0, e.N(400, 12000); i < n; i++ {
		mode := "docker"
		switch {
		case i%10 == 9:
			mode = "outage"
		case i%10 >= 5 && v.criIf != nil:
			mode = "cri"
		}
		c := genCase(rng, mode)
		b, _ := json.Marshal(c)
		v.runCase("case " + string(b))
		if len(v.drvLines) > 2000 {
			v.flush()
		}
	}
	v.flush()
	return r
}

// decisionTable: the decision for every scripted behaviour, observed through a one-file gc_dirs sweep (the file is
// named after the container: removed = the collector decided "clean up"), vs the model's `decide`.
func (v *env) decisionTable() {
	run := func(mode string, behs []fk.Behaviour) {
		if mode == "cri" && v.criIf == nil {
			return
		}
		for i, b := range behs {
			id := fmt.Sprintf("id%02d", i)
			c := gcCase{Mode: mode, Containers: map[string]fk.Behaviour{id: b}, GCDirs: []dirSpec{{E: []entry{{N: id, K: "f", C: "{}"}}}}}
			js, _ := json.Marshal(c)
			caseLine := "case " + string(js)
			dir := filepath.Join(v.work, fmt.Sprintf("decide-%s-%d", mode, i))
			if err := populate(dir, c.GCDirs[0]); err != nil {
				v.r.Hit("populate-error")
				continue
			}
			var g interface{ VerifCleanupGCDirsOnce() error }
			if mode == "docker" {
				v.fd.Set(c.Containers)
				os.Unsetenv("CONTAINERD_HOST")
				g = realgc.VerifNewFlannelGC(nil, v.dockerIf, nil, []string{dir}, func(string) error { return nil })
			} else {
				v.fc.Set(c.Containers)
				os.Setenv("CONTAINERD_HOST", "unix://"+v.fc.Socket)
				g = realgc.VerifNewFlannelGC(v.kube(&c), v.criIf, nil, []string{dir}, func(string) error { return nil })
			}
			out := hx.Guard(60*time.Second, func() { g.VerifCleanupGCDirsOnce() })
			os.Unsetenv("CONTAINERD_HOST")
			_, statErr := os.Lstat(filepath.Join(dir, id))
			got := statErr != nil
			os.RemoveAll(dir)
			if out != "ok" {
				v.violation("gc-round-"+strings.SplitN(out, ":", 2)[0], string(b)+": "+out, caseLine)
				continue
			}
			v.r.Hit("decide:" + mode + ":" + string(b))
			v.r.Case(caseLine, true)
			v.expect("decide", caseLine, "decide "+b.Token(mode == "cri"), fmt.Sprint(got))
			cls := b.Class(mode == "cri")
			if got && cls != "dead" {
				v.violation(fmt.Sprintf("gc-removed:container-%s-%s", cls, b), fmt.Sprintf("the collector removed the state file of a container with behaviour %s (%s)", b, cls), caseLine)
			}
			if !got && cls == "dead" {
				v.violation("gc-dead-not-removed:"+string(b), fmt.Sprintf("the collector kept the state file of a dead container (%s)", b), caseLine)
			}
		}
	}
	run("docker", fk.DockerBehaviours)
	run("cri", fk.CriBehaviours)
	v.flush()
}

func main() { hx.Main("C17", run) }
