// selftest: smallest possible harness command, used by setup.sh to prove the toolchain works offline.
package main

import "gxverif/hx"

func main() {
	hx.Main("selftest", func(e *hx.Env) *hx.Report {
		r := hx.NewReport("selftest", e.Tier, e.Seed, "no cases")
		return r
	})
}
