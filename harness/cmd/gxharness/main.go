// gxharness drives the real galaxy code (module replace => /repo, -tags verif)
// and the Lean model driver with the same inputs.  One sub-command per property.
package main

import (
	"flag"
	"fmt"
	"math/rand"
	"os"

	"gxverif/hx"
)

type propFn func(e *hx.Env) *hx.Report

var props = map[string]propFn{}

func register(id string, f propFn) { props[id] = f }

func main() {
	if len(os.Args) < 2 {
		fmt.Fprintln(os.Stderr, "usage: gxharness <property> [-tier quick|thorough] [-seed n] [-driver path] [-out dir] [-replay file]")
		os.Exit(2)
	}
	id := os.Args[1]
	fs := flag.NewFlagSet(id, flag.ExitOnError)
	tier := fs.String("tier", "quick", "")
	seed := fs.Int64("seed", 1, "")
	driver := fs.String("driver", "/verif/lean/.lake/build/bin/gxdriver", "")
	out := fs.String("out", "/verif/out", "")
	replay := fs.String("replay", "", "")
	fs.Parse(os.Args[2:])
	f, ok := props[id]
	if !ok {
		fmt.Fprintf(os.Stderr, "unknown property %s\n", id)
		os.Exit(2)
	}
	e := &hx.Env{Tier: *tier, Seed: *seed, Driver: *driver, Out: *out, Replay: *replay,
		Rng: rand.New(rand.NewSource(*seed))}
	r := f(e)
	r.Emit()
}
