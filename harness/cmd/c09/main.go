// c09: reserved and de-configured IPs are never allocated; reload is lossless (IPAM level, model M3).
//
// Histories: sequences of configurations (same / grown / shrunk / unrelated), allocations and releases in between,
// admin reservations (labelled FloatingIP objects written to the store only) whose watch events are delivered late,
// some store faults.  Monitors, all on the real code's outputs:
//   * no allocation move returns an address which had a labelled object in the store, event delivered or not;
//   * no allocation move returns, and the caches never hold, an address outside the current configuration;
//   * a successful reload keeps exactly the stored records whose address is configured afterwards, removes the other
//     objects from the store, and free = configured \ allocated.
// Thorough tier adds a real two-goroutine schedule: ConfigurePool is parked right after its List call returned while an
// AllocateInSubnet / Release runs; with the list taken under cacheLock the second call blocks until the reload is done.
// An allocation which is in the store but not in memory afterwards has signature `reload-lost-allocation`.
package main

import (
	"encoding/json"
	"fmt"
	"net"
	"strings"
	"time"

	"tkestack.io/galaxy/pkg/ipam/floatingip"

	"gxverif/hx"
	gi "gxverif/ipam"
	netsh "gxverif/nets"
)

const prop = "C09"

type runner struct{ *gi.Runner }

func configured(ps []gi.PoolInfo, ip uint32) bool { return gi.PoolOfIP(ps, ip) != nil }

func (rn *runner) monitor(s *gi.Session, st *gi.Step) {
	op := st.Op
	bad := func(sig, what string) {
		rn.Violation(sig, fmt.Sprintf("%s (%s, plan %s): %s", op.Kind, st.Class, op.Plan, what), s.Src)
	}
	// allocation moves
	if st.Class == "ok" && (op.IsAlloc()) {
		for _, ip := range st.IPs {
			if r, ok := st.StBefore[ip]; ok && r.Reserved {
				delivered := "not yet delivered"
				if a, inA := st.Before.Alloc[ip]; inA && a.Reserved {
					delivered = "delivered"
				}
				bad("reserved-ip-allocated", fmt.Sprintf("%s carries a reservation (key %q, event %s) and was handed to %q",
					gi.IPStr(ip), r.Key, delivered, op.Key))
			}
			if !configured(st.PoolsB, ip) {
				bad("unconfigured-ip-allocated", gi.IPStr(ip)+" is outside the configuration")
			}
			if !st.Before.Free[ip] {
				bad("non-free-ip-allocated", gi.IPStr(ip)+" was not free")
			}
		}
		if len(st.IPs) > 0 {
			rn.R.Hit("alloc-checked")
		}
	}
	// a failed allocation never deletes or changes a pre-existing store object (a reservation whose create conflicted!)
	for _, f := range gi.StoreObjectsTouchedByFailure(st, s.W.StoreMap()) {
		bad(f.Sig, f.What)
	}
	// the caches never hold an address outside the configuration
	after := gi.ReadMem(s.W.Ipam)
	for ip := range after.Alloc {
		if !configured(s.W.Pools, ip) {
			bad("unconfigured-ip-in-cache", gi.IPStr(ip)+" allocated but not configured")
		}
	}
	for ip := range after.Free {
		if !configured(s.W.Pools, ip) {
			bad("unconfigured-ip-in-cache", gi.IPStr(ip)+" free but not configured")
		}
	}
	// reload
	if op.Kind == "conf" && st.Class == "ok" {
		stAfter := s.W.StoreMap()
		kept, dropped := 0, 0
		for ip, r := range st.StBefore {
			if configured(s.W.Pools, ip) {
				kept++
				if a, ok := after.Alloc[ip]; !ok || a != r {
					bad("reload-lost-allocation", fmt.Sprintf("%s stored %v, memory after reload %v (present %v)", gi.IPStr(ip), r, a, ok))
				}
				if q, ok := stAfter[ip]; !ok || q != r {
					bad("reload-changed-store", fmt.Sprintf("%s stored %v, after reload %v", gi.IPStr(ip), r, q))
				}
			} else {
				dropped++
				if _, ok := after.Alloc[ip]; ok {
					bad("reload-kept-unconfigured", gi.IPStr(ip))
				}
				if _, ok := stAfter[ip]; ok && !st.Fired {
					bad("reload-left-object", gi.IPStr(ip)+" is not configured any more but its object is still stored")
				}
			}
		}
		for ip, a := range after.Alloc {
			if _, ok := st.StBefore[ip]; !ok {
				bad("reload-resurrected-release", fmt.Sprintf("%s has no stored object but is allocated after the reload: %v", gi.IPStr(ip), a))
			}
		}
		for _, p := range s.W.Pools {
			for _, r := range p.Ranges {
				for x := uint64(r[0]); x <= uint64(r[1]); x++ {
					ip := uint32(x)
					_, inA := after.Alloc[ip]
					if inA == after.Free[ip] {
						bad("reload-free-table-wrong", fmt.Sprintf("%s allocated=%v free=%v", gi.IPStr(ip), inA, after.Free[ip]))
					}
				}
			}
		}
		if kept > 0 {
			rn.R.Hit("reload:kept-allocations")
		}
		if dropped > 0 {
			rn.R.Hit("reload:dropped-allocations")
		}
	}
}

func (rn *runner) history(length int) {
	e := rn.E
	s := gi.NewSession()
	conf := gi.GenConf(e.Rng)
	st := s.Do(gi.Op{Kind: "conf", Conf: conf, Plan: gi.NoPlan()})
	rn.monitor(s, &st)
	okAllocs, reloads, sinceSync := 0, 0, 0
	var retry, pendingRetry *gi.Op
	for i := 1; i < length; i++ {
		v := s.W.View()
		var op gi.Op
		switch x := e.Rng.Intn(100); {
		case x < 14:
			conf = gi.MutateConf(e.Rng, conf)
			op = gi.Op{Kind: "conf", Conf: conf, Plan: gi.NoPlan()}
			if e.Rng.Intn(8) == 0 {
				op.Plan = gi.FailAt(e.Rng.Intn(3))
			}
		case x < 26:
			// reserve a configured address: free or taken, sometimes one that is about to be de-configured
			ips := gi.SortedIPs(v.Mem.Free)
			ip := uint32(10<<24 | 250<<16 | 9)
			if len(ips) > 0 && e.Rng.Intn(8) != 0 {
				ip = ips[e.Rng.Intn(len(ips))]
			}
			op = gi.Op{Kind: "admres", IP: ip, Key: gi.ReservationKey(e.Rng), Policy: e.Rng.Intn(3), Plan: gi.NoPlan()}
			if v.HasPending(ip) {
				op = gi.Op{Kind: "deliver", Plan: gi.NoPlan()}
			}
		case x < 30:
			op = gi.Op{Kind: "admunres", Plan: gi.NoPlan()}
			for _, ip := range gi.SortedIPs(v.Store) {
				if v.Store[ip].Reserved {
					op.IP = ip
				}
			}
		case x < 38:
			op = gi.Op{Kind: "deliver", Plan: gi.NoPlan()}
		case x < 42:
			// the informer catches up: its cache (which a reload must NOT rely on) shows the store again
			op = gi.Op{Kind: "isync", Plan: gi.NoPlan()}
		case x < 50 && len(v.Pend) > 0:
			// aim an allocation at an address whose reservation event is still on its way
			ev := v.Pend[e.Rng.Intn(len(v.Pend))]
			aimKey := []string{"dp_ns1_web_web-0", ev.Key, ""}[e.Rng.Intn(3)]
			if e.Rng.Intn(2) == 0 {
				op = gi.Op{Kind: "aspec", Key: aimKey, IP: ev.IP, Node: "n1", UID: "u1", Plan: gi.NoPlan()}
			} else {
				sub := "10.0.1.0/24"
				if p := gi.PoolOfIP(v.Pools, ev.IP); p != nil && len(p.Subnets) > 0 {
					sub = p.Subnets[0].Str
				}
				op = gi.Op{Kind: "arng", Key: aimKey, Subnet: sub, Ranges: [][][2]uint32{{{ev.IP, ev.IP}}}, Node: "n1", UID: "u1",
					Plan: gi.NoPlan()}
				if e.Rng.Intn(2) == 0 {
					// a second range list in front, so that one object is created before the conflict
					for _, ip := range gi.SortedIPs(v.Mem.Free) {
						if ip != ev.IP {
							op.Ranges = [][][2]uint32{{{ip, ip}}, {{ev.IP, ev.IP}}}
							break
						}
					}
				}
				retry = &op
			}
		default:
			op = gi.GenOp(e.Rng, v, 6)
			if op.Kind == "conf" {
				conf = op.Conf
			}
		}
		if pendingRetry != nil {
			// the scheduler retries a failed bind: the SAME request again, right away
			op, pendingRetry = *pendingRetry, nil
			rn.R.Hit("retry-of-request-which-hit-a-reservation")
		} else if retry != nil {
			pendingRetry, retry = retry, nil
		}
		st := s.Do(op)
		rn.Note(&st)
		rn.monitor(s, &st)
		if op.IsAlloc() {
			for _, ev := range st.PendB {
				hit := ev.Assign && (ev.IP == op.IP && op.Kind == "aspec" || op.Kind == "arng" && len(op.Ranges) == 1 && op.Ranges[0][0][0] == ev.IP)
				if hit {
					switch {
					case ev.Key == "":
						rn.R.Hit("aimed-at-undelivered-reservation:no-key:" + st.Class)
					case ev.Key == op.Key:
						rn.R.Hit("aimed-at-undelivered-reservation:same-key:" + st.Class)
					default:
						rn.R.Hit("aimed-at-undelivered-reservation:other-key:" + st.Class)
					}
					break
				}
			}
		}
		if st.Class == "ok" && op.IsAlloc() {
			okAllocs++
		}
		if st.Class == "ok" && op.Kind == "conf" {
			reloads++
			if sinceSync > 0 {
				rn.R.Hit("reload:informer-cache-lags-own-writes")
			} else {
				rn.R.Hit("reload:informer-cache-current")
			}
		}
		switch {
		case op.Kind == "isync" || op.Kind == "restart" || st.Class == "crashed":
			sinceSync = 0
		case st.Class == "ok" && (op.IsAlloc() || op.Kind == "rel" || op.Kind == "rels" || op.Kind == "akey" || op.Kind == "resv" || op.Kind == "upd"):
			sinceSync++
		}
		if e.Rng.Intn(6) == 0 {
			s.Ask(gi.GenQuery(e.Rng, s.W.View()))
		}
	}
	rn.Keep(s)
	rn.R.Case(strings.Join(s.Src, "\n"), okAllocs >= 2 && reloads >= 1)
	if len(rn.R.Samples) < 3 {
		rn.R.Sample(map[string]interface{}{"ops": gi.Tail(s.Src, 3)})
	}
}

// schedule: the reload is parked right after its List returned; meanwhile a second goroutine allocates / releases.
func (rn *runner) schedule(kind string) {
	e := rn.E
	s := gi.NewSession()
	conf := gi.GenConf(e.Rng)
	s.Do(gi.Op{Kind: "conf", Conf: conf, Plan: gi.NoPlan()})
	for i := 0; i < 4; i++ {
		op := gi.GenOp(e.Rng, s.W.View(), 0)
		if op.Kind == "conf" || op.Kind == "restart" {
			continue
		}
		s.Do(op)
	}
	rn.scheduleOn(kind, s, e.Rng.Intn(1<<20))
}

// scheduleOn runs the two-goroutine schedule on a prepared world (the current configuration is reloaded unchanged).
func (rn *runner) scheduleOn(kind string, s *gi.Session, pick int) {
	conf := s.W.Conf
	w := s.W
	v := w.View()
	pools, err := conf.Decode() // reload of the SAME configuration: nothing may change
	if err != nil {
		return
	}
	var relIP uint32
	var relKey string
	if kind == "release" {
		ips := gi.SortedIPs(v.Mem.Alloc)
		if len(ips) == 0 {
			kind = "allocate"
		} else {
			relIP = ips[pick%len(ips)]
			relKey = v.Mem.Alloc[relIP].Key
			if v.Mem.Alloc[relIP].Reserved {
				kind = "allocate"
			}
		}
	}
	sub := "10.0.1.0/24"
	for _, p := range v.Pools {
		for _, r := range p.Ranges {
			for x := uint64(r[0]); x <= uint64(r[1]); x++ {
				if v.Mem.Free[uint32(x)] && len(p.Subnets) > 0 {
					sub = p.Subnets[0].Str
				}
			}
		}
	}
	parked, resume := make(chan struct{}), make(chan struct{})
	first := true
	w.Deco.After = func(idx int, verb, name string) {
		if verb == "list" && first {
			first = false
			close(parked)
			<-resume
		}
	}
	aDone, bDone := make(chan error, 1), make(chan error, 1)
	var got uint32
	out := hx.Guard(20*time.Second, func() {
		go func() { aDone <- w.Ipam.ConfigurePool(pools) }()
		<-parked
		go func() {
			if kind == "release" {
				bDone <- w.Ipam.Release(relKey, gi.IPOf(relIP))
				return
			}
			ip, err := w.Ipam.AllocateInSubnet("dp_ns1_race_race-0", subnetOf(sub), attr())
			if err == nil {
				got = gi.U32(ip)
			}
			bDone <- err
		}()
		during := false
		var berr error
		select {
		case berr = <-bDone:
			during = true
		case <-time.After(40 * time.Millisecond):
		}
		close(resume)
		<-aDone
		if !during {
			berr = <-bDone
		}
		if during {
			rn.R.Hit("schedule:" + kind + "-ran-inside-reload-window")
		} else {
			rn.R.Hit("schedule:" + kind + "-blocked-until-reload-done")
		}
		_ = berr
	})
	w.Deco.After = nil
	src := append(append([]string(nil), s.Src...), fmt.Sprintf(`{"schedule":%q,"pick":%d,"what":"ConfigurePool parked after its List call; concurrent %s; resume"}`, kind, pick, kind))
	if out != "ok" {
		rn.Violation("reload-schedule-"+out[:4], "two-goroutine schedule: "+out, src)
		return
	}
	mem := gi.ReadMem(w.Ipam)
	st := w.StoreMap()
	if kind == "allocate" && got != 0 {
		if _, ok := mem.Alloc[got]; !ok {
			rn.Violation("reload-lost-allocation", fmt.Sprintf("%s was allocated while the reload was in progress: stored %v, missing from memory (free=%v)",
				gi.IPStr(got), st[got], mem.Free[got]), src)
		}
	}
	if kind == "release" {
		if a, ok := mem.Alloc[relIP]; ok {
			if _, inS := st[relIP]; !inS {
				rn.Violation("reload-lost-release", fmt.Sprintf("%s was released while the reload was in progress: object gone, memory still says %v",
					gi.IPStr(relIP), a), src)
			}
		}
	}
	for _, f := range w.CheckAgree("reload-schedule", false) {
		if len(w.Pending) == 0 {
			rn.Violation("reload-schedule-desync", f.What, src)
		}
	}
	rn.R.Evaluations++
}

// largeCase: ~600 allocations in one /22 pool, then a reload of the same configuration and a restart: every stored record
// must be back in memory (a LIST which is limited to one page, or otherwise truncated, loses the rest).
func (rn *runner) largeCase() {
	s, conf := gi.LargeCase(600)
	st := s.ExecOnly(gi.Op{Kind: "conf", Conf: conf, Plan: gi.NoPlan()})
	rn.Note(&st)
	rn.monitor(s, &st)
	st2 := s.ExecOnly(gi.Op{Kind: "restart", Plan: gi.NoPlan()})
	st2.Op.Kind = "conf" // judge the restart like a reload of the same configuration
	st2.Op.Conf = conf
	rn.monitor(s, &st2)
	rn.R.Hit("large-case:600-allocations-reload-restart")
	rn.R.Evaluations++
}

// replay: a history file, optionally ending in a schedule line.
// reloadRetry: the plugin-level reload path (FloatingIPPlugin.ensureIPAMConf around ConfigurePool): a reload whose
// store list fails must change nothing and must be tried again at the next poll of the same ConfigMap text -
// otherwise addresses removed from the configuration stay served for good ("drops exactly the others").
const reloadRetryOp = "reload-retry-after-store-failure"

func (rn *runner) reloadRetry(a, b string, k int) {
	src := []string{fmt.Sprintf("%s %x %x %d", reloadRetryOp, a, b, k)}
	vs := netsh.RetryAfterStoreFailure(a, b, k)
	rn.R.Hit("reload-retry-scenario")
	rn.R.Case(src[0], true)
	for _, v := range vs {
		rn.Violation(v.Sig, v.What, src)
	}
}

func (rn *runner) reloadRetries(n int) {
	netsh.QuietLogs()
	for i := 0; i < n; i++ {
		var a, b string
		for try := 0; try < 20; try++ {
			pa, pb := netsh.GenConf(rn.E.Rng), netsh.GenConf(rn.E.Rng)
			a, b = netsh.ConfDoc(pa).Text(), netsh.ConfDoc(pb).Text()
			da, oa := netsh.DecodeConf(a)
			db, ob := netsh.DecodeConf(b)
			if oa == "ok" && ob == "ok" && a != b && netsh.ExpectedAddresses(da) != nil && netsh.ExpectedAddresses(db) != nil {
				break
			}
			a, b = "", ""
		}
		if a == "" {
			continue
		}
		rn.reloadRetry(a, b, 1+i%3)
	}
}

func (rn *runner) replay(path string) {
	lines, err := hx.ReadOps(path)
	if err == nil && len(lines) > 0 && strings.HasPrefix(lines[0], reloadRetryOp+" ") {
		var a, b []byte
		var k int
		if n, _ := fmt.Sscanf(lines[0], reloadRetryOp+" %x %x %d", &a, &b, &k); n == 3 {
			netsh.QuietLogs()
			rn.reloadRetry(string(a), string(b), k)
		}
		return
	}
	if err != nil || len(lines) == 0 || !strings.HasPrefix(lines[len(lines)-1], `{"schedule"`) {
		rn.ReplayFile(path, rn.monitor)
		return
	}
	var sc struct {
		Schedule string `json:"schedule"`
		Pick     int    `json:"pick"`
	}
	if json.Unmarshal([]byte(lines[len(lines)-1]), &sc) != nil {
		return
	}
	s, err := gi.ReplayLines(lines[:len(lines)-1], nil)
	if err != nil {
		return
	}
	rn.scheduleOn(sc.Schedule, s, sc.Pick)
}

func run(e *hx.Env) *hx.Report {
	rn := &runner{gi.NewRunner(e, prop,
		"a history is nontrivial when it contains at least 2 successful allocations and 1 successful reload")}
	if e.Replay != "" {
		rn.replay(e.Replay)
		rn.Flush()
		return rn.R
	}
	for _, f := range gi.CorpusFiles(prop) {
		rn.ReplayFile(f, rn.monitor)
	}
	n, length := e.N(2000, 12000), e.N(24, 40)
	for i := 0; i < n; i++ {
		rn.history(length)
	}
	rn.largeCase()
	rn.reloadRetries(e.N(40, 400))
	if e.Thorough() {
		for i := 0; i < 150; i++ {
			rn.schedule([]string{"allocate", "release"}[i%2])
		}
	}
	rn.Flush()
	return rn.R
}

func main() { hx.Main(prop, run) }

func subnetOf(s string) *net.IPNet {
	_, n, err := net.ParseCIDR(s)
	if err != nil {
		return &net.IPNet{IP: net.IPv4zero.To4(), Mask: net.CIDRMask(32, 32)}
	}
	return n
}

func attr() floatingip.Attr { return floatingip.Attr{NodeName: "n1", Uid: "u-race"} }
