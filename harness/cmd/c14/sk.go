package main

import (
	"fmt"
	"net"
	"os"
	"runtime"
	"sort"
	"strconv"
	"strings"
	"time"

	"gxverif/hx"
	"gxverif/nf"

	"tkestack.io/galaxy/pkg/api/k8s"
	"tkestack.io/galaxy/pkg/network/portmapping"
)

// ---- real sockets --------------------------------------------------------------------------------

type sock struct {
	proto string
	port  int
}

func (s sock) String() string { return s.proto + ":" + strconv.Itoa(s.port) }

type closer interface{ Close() error }

var keepAlive []*portmapping.PortMappingHandler

// tryBind binds (proto, port) the way another process would; port 0 = any.
func tryBind(proto string, port int) (closer, int, error) {
	switch proto {
	case "tcp":
		l, err := net.Listen("tcp", fmt.Sprintf(":%d", port))
		if err != nil {
			return nil, 0, err
		}
		return l, l.Addr().(*net.TCPAddr).Port, nil
	case "udp":
		a, _ := net.ResolveUDPAddr("udp", fmt.Sprintf(":%d", port))
		c, err := net.ListenUDP("udp", a)
		if err != nil {
			return nil, 0, err
		}
		return c, c.LocalAddr().(*net.UDPAddr).Port, nil
	}
	return nil, 0, fmt.Errorf("unknown protocol %q", proto)
}

// isBound probes the kernel's bind table.
func isBound(s sock) bool {
	c, _, err := tryBind(s.proto, s.port)
	if err != nil {
		return true
	}
	c.Close()
	return false
}

var portCursor int

// freePorts returns n port numbers that are free on tcp and udp and lie BELOW the kernel's ephemeral range, so that
// neither a `:0` bind nor the source port of an outgoing connection (fake docker / apiserver clients) can ever
// take them between the moment they are chosen and the moment the code under test binds them.
func freePorts(n int) []int {
	lo := 32768
	if b, err := os.ReadFile("/proc/sys/net/ipv4/ip_local_port_range"); err == nil {
		if f := strings.Fields(string(b)); len(f) == 2 {
			if v, err := strconv.Atoi(f[0]); err == nil && v > 12000 {
				lo = v
			}
		}
	}
	span := lo - 10000
	if portCursor == 0 {
		portCursor = (os.Getpid()*7919 + int(time.Now().UnixNano()%1000)*13) % span
	}
	var out []int
	for tries := 0; len(out) < n && tries < 4*span; tries++ {
		p := 10000 + portCursor%span
		portCursor++
		ct, _, err := tryBind("tcp", p)
		if err != nil {
			continue
		}
		cu, _, err2 := tryBind("udp", p)
		ct.Close()
		if err2 != nil {
			continue
		}
		cu.Close()
		out = append(out, p)
	}
	return out
}

// releaseOrphans lets the finalizers of unreachable sockets (orphaned by a re-open) run, so that no socket of a
// finished case is still bound when the next case starts.
func releaseOrphans() {
	runtime.GC()
	runtime.GC()
	time.Sleep(2 * time.Millisecond)
}

func socketFDs() int {
	es, err := os.ReadDir("/proc/self/fd")
	if err != nil {
		return -1
	}
	n := 0
	for _, e := range es {
		if l, err := os.Readlink("/proc/self/fd/" + e.Name()); err == nil && strings.HasPrefix(l, "socket:") {
			n++
		}
	}
	return n
}

func showSocks(ss []sock) string {
	if len(ss) == 0 {
		return "-"
	}
	xs := make([]string, len(ss))
	for i, s := range ss {
		xs[i] = s.String()
	}
	sort.Strings(xs)
	return strings.Join(xs, ",")
}

// execSK runs a socket history.  Op lines:
//
//	sk-init <n>                       n free ports are picked (kernel-assigned) as the palette P0..Pn-1
//	sk-fbind <proto>:P<k>             another process binds palette port k
//	sk-fclose <proto>:P<k>
//	sk-open <pod> <0|1> <P<k>|0>:<proto>,…     OpenHostports(pod, random, ports)
//	sk-close <pod>
//
// The driver sees concrete port numbers and, for port 0, the port the kernel really handed out.
func execSK(c *ctx, ops []string) *caseResult {
	res := &caseResult{ops: ops}
	emit := func(i int, drv, impl string) {
		res.drv = append(res.drv, drv)
		res.impl = append(res.impl, impl)
		res.drvOp = append(res.drvOp, i)
	}
	m := &mon{}
	h := portmapping.VerifNew(nf.NewIPTables())
	// a handler may keep orphaned sockets; keep it reachable so that no finalizer closes them while a
	// later case counts descriptors
	keepAlive = append(keepAlive, h)
	var palette []int
	foreign := map[sock]closer{}
	held := map[string][]sock{}
	var orphan []sock
	universe := map[sock]bool{}
	defer func() {
		for _, cl := range foreign {
			cl.Close()
		}
		for p := range held {
			h.CloseHostports(p)
		}
		releaseOrphans()
	}()
	resolvePort := func(w string) (int, bool) {
		if strings.HasPrefix(w, "P") {
			k, err := strconv.Atoi(w[1:])
			if err != nil || k < 0 || k >= len(palette) {
				return 0, false
			}
			return palette[k], true
		}
		n, err := strconv.Atoi(w)
		return n, err == nil
	}
	parseSock := func(w string) (sock, bool) {
		f := strings.Split(w, ":")
		if len(f) != 2 {
			return sock{}, false
		}
		p, ok := resolvePort(f[1])
		return sock{f[0], p}, ok
	}
	dump := func(i int) {
		var bound []sock
		isOrphan := map[sock]bool{}
		for _, s := range orphan {
			isOrphan[s] = true
		}
		for s := range universe {
			// orphaned sockets (see sk:reopen-orphans-sockets) are closed by a finalizer at an arbitrary time
			if !isOrphan[s] && isBound(s) {
				bound = append(bound, s)
			}
		}
		pods := make([]string, 0, len(held))
		for p := range held {
			pods = append(pods, p)
		}
		sort.Strings(pods)
		hs := "-"
		if len(pods) > 0 {
			xs := make([]string, len(pods))
			for k, p := range pods {
				xs[k] = nf.EncTok(p) + "=" + showSocks(held[p])
			}
			hs = strings.Join(xs, ";")
		}
		emit(i, "sk-dump", "bound="+showSocks(bound)+" held="+hs+" orphan="+showSocks(orphan))
	}
	checkHeld := func(what string) {
		seen := map[sock]string{}
		for p, ss := range held {
			for _, s := range ss {
				if q, dup := seen[s]; dup {
					m.add("host-port-handed-out-twice", fmt.Sprintf("%s: %s held for %s and %s", what, s, q, p))
				}
				seen[s] = p
				if s.port == 0 {
					m.add("zero-port-handed-out", what+": port 0 handed out")
				}
				if !isBound(s) {
					m.add("held-port-not-bound", fmt.Sprintf("%s: %s handed out to %s can be bound by another process", what, s, p))
				}
			}
		}
	}
	// sockets orphaned by a re-open are closed by finalizers at an arbitrary time: let the pending
	// finalizers run, see which orphans are gone and tell the model (move `gc`)
	settle := func(i int) {
		if len(orphan) == 0 {
			return
		}
		runtime.GC()
		runtime.GC()
		time.Sleep(2 * time.Millisecond)
		var rest []sock
		for _, s := range orphan {
			if isBound(s) {
				rest = append(rest, s)
			} else {
				emit(i, "sk-gc "+s.String(), "ok")
				c.r.Hit("sk:orphan-finalized")
			}
		}
		orphan = rest
	}
	for i := 1; i < len(ops); i++ {
		f := strings.Fields(ops[i])
		if len(f) == 0 {
			continue
		}
		settle(i)
		switch f[0] {
		case "sk-init":
			n, _ := strconv.Atoi(f[1])
			// n ports free on both protocols, outside the ephemeral range
			palette = freePorts(n)
			emit(i, "sk-init", "ok")
		case "sk-fbind":
			s, ok := parseSock(f[1])
			if !ok {
				emit(i, ops[i], "bad-op")
				continue
			}
			if s.proto == "tcp" || s.proto == "udp" {
				universe[s] = true
			}
			cl, _, err := tryBind(s.proto, s.port)
			if err != nil {
				emit(i, "sk-fbind "+s.String(), "err:in-use")
			} else {
				foreign[s] = cl
				emit(i, "sk-fbind "+s.String(), "ok")
			}
			c.r.Hit("sk:fbind")
		case "sk-fclose":
			s, ok := parseSock(f[1])
			if !ok {
				emit(i, ops[i], "bad-op")
				continue
			}
			if cl, ok := foreign[s]; ok {
				cl.Close()
				delete(foreign, s)
			}
			emit(i, "sk-fclose "+s.String(), "ok")
		case "sk-open":
			if len(f) != 4 {
				emit(i, ops[i], "bad-op")
				continue
			}
			pod, _ := nf.DecTok(f[1])
			random := f[2] == "1"
			var ports []k8s.Port
			var reqs []string
			okParse := true
			if f[3] != "-" {
				for _, w := range strings.Split(f[3], ",") {
					g := strings.Split(w, ":")
					if len(g) != 2 {
						okParse = false
						break
					}
					p, ok := resolvePort(g[0])
					if !ok {
						okParse = false
						break
					}
					ports = append(ports, k8s.Port{HostPort: int32(p), Protocol: g[1], ContainerPort: 80, PodName: pod})
					reqs = append(reqs, fmt.Sprintf("%d:%s", p, g[1]))
					if lp := strings.ToLower(g[1]); p != 0 && (lp == "tcp" || lp == "udp") {
						universe[sock{lp, p}] = true
					}
				}
			}
			if !okParse {
				emit(i, ops[i], "bad-op")
				continue
			}
			freeBefore := map[sock]bool{}
			// is a failure with "in use" explained by what galaxy and the harness hold themselves?
			expectInUse := false
			taken := map[sock]bool{}
			for s := range foreign {
				taken[s] = true
			}
			for _, ss := range held {
				for _, s := range ss {
					taken[s] = true
				}
			}
			for _, s := range orphan {
				taken[s] = true
			}
			for _, p := range ports {
				s := sock{strings.ToLower(p.Protocol), int(p.HostPort)}
				if p.HostPort != 0 {
					if taken[s] {
						expectInUse = true
					}
					taken[s] = true
					if !isBound(s) {
						freeBefore[s] = true
					}
				}
			}
			fds := socketFDs()
			var err error
			out := hx.Guard(20*time.Second, func() { err = h.OpenHostports(pod, random, ports) })
			if out != "ok" {
				m.add("panic-or-hang", "OpenHostports: "+out)
				emit(i, ops[i], out)
				continue
			}
			rq := "-"
			if len(reqs) > 0 {
				rq = strings.Join(reqs, ",")
			}
			if err != nil {
				c.r.Hit("sk:open:err")
				// a failed setup leaves no port open
				if n := socketFDs(); n > fds {
					m.add("failed-open-leaves-socket", fmt.Sprintf("OpenHostports failed but the process holds %d sockets instead of %d", n, fds))
				}
				for s := range freeBefore {
					if isBound(s) {
						if c.netns != "private" {
							res.inconclusive = true // another process of the host may have taken it meanwhile
						} else {
							m.add("failed-open-leaves-port", fmt.Sprintf("OpenHostports failed but %s stays bound", s))
						}
					}
				}
				class := "err:in-use"
				if strings.Contains(err.Error(), "unknown protocol") {
					class = "err:bad-proto"
				} else if !expectInUse {
					// "address already in use" on a port neither galaxy nor this harness holds: the environment
					// (another process in the host namespace) took it — never a verdict
					res.inconclusive = true
				}
				// choices for the model: what the kernel picked for the random requests served before the
				// failure (OpenHostports wrote them back), any admissible port for the ones never reached
				var cs []string
				k := 0
				for j, p := range ports {
					if strings.Split(reqs[j], ":")[0] == "0" && random {
						if p.HostPort != 0 {
							cs = append(cs, strconv.Itoa(int(p.HostPort)))
						} else {
							k++
							cs = append(cs, strconv.Itoa(60000+k))
						}
					}
				}
				chs := "-"
				if len(cs) > 0 {
					chs = strings.Join(cs, ",")
				}
				emit(i, fmt.Sprintf("sk-open %s %s %s %s", nf.EncTok(pod), f[2], rq, chs), class)
				checkHeld("after failed open")
				continue
			}
			var got []sock
			var choices []string
			for k, p := range ports {
				orig := strings.Split(reqs[k], ":")[0]
				if p.HostPort < 0 || (orig == "0" && !random) {
					continue
				}
				s := sock{strings.ToLower(p.Protocol), int(p.HostPort)}
				got = append(got, s)
				universe[s] = true
				if orig == "0" {
					choices = append(choices, strconv.Itoa(int(p.HostPort)))
					c.r.Hit("sk:random-port")
				}
			}
			if len(got) > 0 {
				orphan = append(append([]sock{}, held[pod]...), orphan...)
				if len(held[pod]) > 0 {
					c.r.Hit("sk:reopen-orphans-sockets")
				}
				held[pod] = got
				res.changes++
			}
			chs := "-"
			if len(choices) > 0 {
				chs = strings.Join(choices, ",")
			}
			gs := "-"
			if len(got) > 0 {
				xs := make([]string, len(got))
				for k, s := range got {
					xs[k] = s.String()
				}
				gs = strings.Join(xs, ",")
			}
			emit(i, fmt.Sprintf("sk-open %s %s %s %s", nf.EncTok(pod), f[2], rq, chs), "ok "+gs)
			c.r.Hit("sk:open:ok")
			checkHeld("after open")
		case "sk-close":
			pod, _ := nf.DecTok(f[1])
			was := held[pod]
			out := hx.Guard(20*time.Second, func() { h.CloseHostports(pod) })
			if out != "ok" {
				m.add("panic-or-hang", "CloseHostports: "+out)
			}
			delete(held, pod)
			for _, s := range was {
				if isBound(s) {
					m.add("port-still-bound-after-close", fmt.Sprintf("%s of %s is still bound after CloseHostports", s, pod))
				}
			}
			emit(i, "sk-close "+nf.EncTok(pod), "ok")
			c.r.Hit("sk:close")
			checkHeld("after close")
		case "sk-dump":
			dump(i)
		default:
			emit(i, ops[i], "bad-op")
		}
	}
	// orphaned sockets stay bound until the process exits; close them by closing nothing: they are
	// unreachable (recorded in the histogram as sk:reopen-orphans-sockets).
	res.violations = m.v
	return res
}

func genSK(c *ctx, i int) []string {
	rng := c.e.Rng
	ops := []string{"case sk", "sk-init 5"}
	pods := []string{"web-0_default", "db-0_prod", "dns_kube-system"}
	protos := []string{"tcp", "udp", "TCP", "UDP"}
	open := map[string]bool{}
	for n := 4 + rng.Intn(8); n > 0; n-- {
		switch x := rng.Intn(100); {
		case x < 15:
			ops = append(ops, fmt.Sprintf("sk-fbind %s:P%d", protos[rng.Intn(2)], rng.Intn(5)))
		case x < 22:
			ops = append(ops, fmt.Sprintf("sk-fclose %s:P%d", protos[rng.Intn(2)], rng.Intn(5)))
		case x < 75:
			pod := pods[rng.Intn(len(pods))]
			if open[pod] && rng.Intn(10) != 0 {
				ops = append(ops, "sk-close "+nf.EncTok(pod))
				open[pod] = false
				break
			}
			random := rng.Intn(3) != 0
			var rq []string
			for k := 1 + rng.Intn(3); k > 0; k-- {
				pr := protos[rng.Intn(len(protos))]
				if rng.Intn(40) == 0 {
					pr = "sctp"
				}
				if rng.Intn(2) == 0 {
					rq = append(rq, "0:"+pr)
				} else {
					rq = append(rq, fmt.Sprintf("P%d:%s", rng.Intn(5), pr))
				}
			}
			r := "0"
			if random {
				r = "1"
			}
			ops = append(ops, fmt.Sprintf("sk-open %s %s %s", nf.EncTok(pod), r, strings.Join(rq, ",")))
			open[pod] = true // may have failed; a later close is harmless
		default:
			pod := pods[rng.Intn(len(pods))]
			ops = append(ops, "sk-close "+nf.EncTok(pod))
			open[pod] = false
		}
		ops = append(ops, "sk-dump")
	}
	for _, p := range pods {
		ops = append(ops, "sk-close "+nf.EncTok(p))
	}
	ops = append(ops, "sk-dump")
	return ops
}
