package main

import (
	"bytes"
	"fmt"
	"math/rand"
	"os/exec"
	"sort"
	"strconv"
	"strings"
	"time"

	"gxverif/hx"
	"gxverif/nf"

	"tkestack.io/galaxy/pkg/network/portmapping"
	"tkestack.io/galaxy/pkg/utils/ipset"
	utiliptables "tkestack.io/galaxy/pkg/utils/iptables"
)

// ---- strict fakes <-> M6 ----------------------------------------------------------------------------

func classOut(err error) string {
	if err == nil {
		return "ok"
	}
	return "err:" + nf.ClassOf(err)
}

func normOut(args []string) string {
	r := nf.Normalize(args)
	j := "-"
	if t, ok := nf.JumpTarget(r); ok {
		j = nf.EncTok(t)
	}
	return nf.EncWords(r) + " jump=" + j + " sets=" + nf.EncWords(nf.MatchSets(r))
}

func execM6(c *ctx, ops []string) *caseResult {
	res := &caseResult{ops: ops}
	fake := nf.NewIPTables()
	sets := nf.NewIPSets()
	fake.LinkSets(sets)
	emit := func(i int, drv, impl string) {
		res.drv = append(res.drv, drv)
		res.impl = append(res.impl, impl)
		res.drvOp = append(res.drvOp, i)
	}
	dec := func(ws []string) ([]string, bool) {
		out := make([]string, len(ws))
		for i, w := range ws {
			d, err := nf.DecTok(w)
			if err != nil {
				return nil, false
			}
			out[i] = d
		}
		return out, true
	}
	decWords := func(ws []string) ([]string, bool) {
		if len(ws) == 1 && ws[0] == "-" {
			return nil, true
		}
		return dec(ws)
	}
	for i := 1; i < len(ops); i++ {
		op := ops[i]
		f := strings.Fields(op)
		if len(f) == 0 {
			continue
		}
		before := ""
		mut := false
		switch f[0] {
		case "reset":
			fake = nf.NewIPTables()
			sets = nf.NewIPSets()
			fake.LinkSets(sets)
			// the model starts from an empty table: drop the builtin chains
			fake.Load("nat", nil)
			emit(i, op, "ok")
		case "load":
			rulesText := ""
			if k := strings.Index(op[5:], " "); k >= 0 {
				rulesText = op[5+k+1:]
			}
			name, err1 := nf.DecTok(f[1])
			rs, err2 := nf.DecRules(rulesText)
			if err1 != nil || err2 != nil {
				emit(i, op, "bad-op")
				continue
			}
			t := fake.Dump("nat")
			t[name] = rs
			fake.Load("nat", t)
			emit(i, op, "ok")
		case "restore":
			lines, ok := dec(f[1:])
			if !ok {
				emit(i, op, "bad-op")
				continue
			}
			before = fake.DumpText("nat")
			err := fake.RestoreAll([]byte(strings.Join(lines, "\n")+"\n"), utiliptables.NoFlushTables, utiliptables.RestoreCounters)
			emit(i, op, classOut(err))
			c.r.Hit("m6:restore:" + classOut(err))
			mut = true
		case "ensure-rule":
			if len(f) < 4 {
				emit(i, op, "bad-op")
				continue
			}
			chain, e1 := nf.DecTok(f[2])
			args, ok := decWords(f[3:])
			if e1 != nil || !ok || (f[1] != "A" && f[1] != "I") {
				emit(i, op, "bad-op")
				continue
			}
			pos := utiliptables.Append
			if f[1] == "I" {
				pos = utiliptables.Prepend
			}
			before = fake.DumpText("nat")
			ex, err := fake.EnsureRule(pos, utiliptables.TableNAT, utiliptables.Chain(chain), args...)
			out := classOut(err)
			if err == nil {
				if ex {
					out = "ok:existed"
				} else {
					out = "ok:added"
				}
			}
			emit(i, op, out)
			c.r.Hit("m6:ensure-rule:" + out)
			mut = true
		case "delete-rule":
			if len(f) < 3 {
				emit(i, op, "bad-op")
				continue
			}
			chain, e1 := nf.DecTok(f[1])
			args, ok := decWords(f[2:])
			if e1 != nil || !ok {
				emit(i, op, "bad-op")
				continue
			}
			before = fake.DumpText("nat")
			err := fake.DeleteRule(utiliptables.TableNAT, utiliptables.Chain(chain), args...)
			emit(i, op, classOut(err))
			c.r.Hit("m6:delete-rule:" + classOut(err))
			mut = true
		case "ensure-chain", "flush-chain", "delete-chain", "list":
			if len(f) != 2 {
				emit(i, op, "bad-op")
				continue
			}
			chain, e1 := nf.DecTok(f[1])
			if e1 != nil {
				emit(i, op, "bad-op")
				continue
			}
			before = fake.DumpText("nat")
			mut = true
			switch f[0] {
			case "ensure-chain":
				ex, _ := fake.EnsureChain(utiliptables.TableNAT, utiliptables.Chain(chain))
				if ex {
					emit(i, op, "ok:existed")
				} else {
					emit(i, op, "ok:created")
				}
			case "flush-chain":
				emit(i, op, classOut(fake.FlushChain(utiliptables.TableNAT, utiliptables.Chain(chain))))
			case "delete-chain":
				err := fake.DeleteChain(utiliptables.TableNAT, utiliptables.Chain(chain))
				emit(i, op, classOut(err))
				c.r.Hit("m6:delete-chain:" + classOut(err))
			case "list":
				ls, err := fake.ListRule(utiliptables.TableNAT, utiliptables.Chain(chain))
				if err != nil {
					emit(i, op, classOut(err))
				} else {
					// "-N c" / "-P c X", "-A c …", ""  ->  rules
					var rs []nf.Rule
					for _, l := range ls[1 : len(ls)-1] {
						ws, _ := nf.Tokenize(l)
						rs = append(rs, nf.Normalize(ws[2:]))
					}
					emit(i, op, strings.TrimSpace("ok "+nf.EncRules(rs)))
				}
			}
		case "norm":
			args, ok := decWords(f[1:])
			if !ok {
				emit(i, op, "bad-op")
				continue
			}
			emit(i, op, normOut(args))
		case "dump":
			emit(i, op, fake.DumpText("nat"))
		case "set-create":
			if len(f) != 4 {
				emit(i, op, "bad-op")
				continue
			}
			n, _ := nf.DecTok(f[1])
			ty, _ := nf.DecTok(f[2])
			err := sets.CreateSet(&ipset.IPSet{Name: n, SetType: ipset.Type(ty)}, f[3] == "1")
			emit(i, op, classOut(err))
			c.r.Hit("m6:set-create:" + classOut(err))
			if err == nil {
				res.changes++
			}
		case "set-add":
			if len(f) != 4 {
				emit(i, op, "bad-op")
				continue
			}
			n, _ := nf.DecTok(f[1])
			e, _ := nf.DecTok(f[2])
			err := sets.AddEntry(e, &ipset.IPSet{Name: n}, f[3] == "1")
			emit(i, op, classOut(err))
			c.r.Hit("m6:set-add:" + classOut(err))
		case "set-del":
			if len(f) != 3 {
				emit(i, op, "bad-op")
				continue
			}
			n, _ := nf.DecTok(f[1])
			e, _ := nf.DecTok(f[2])
			err := sets.DelEntry(e, n)
			emit(i, op, classOut(err))
			c.r.Hit("m6:set-del:" + classOut(err))
		case "set-flush":
			n, _ := nf.DecTok(f[1])
			emit(i, op, classOut(sets.FlushSet(n)))
		case "set-destroy":
			n, _ := nf.DecTok(f[1])
			err := sets.DestroySet(n)
			emit(i, op, classOut(err))
			c.r.Hit("m6:set-destroy:" + classOut(err))
		case "set-list":
			n, _ := nf.DecTok(f[1])
			es, err := sets.ListEntries(n)
			if err != nil {
				emit(i, op, classOut(err))
			} else {
				sort.Strings(es)
				emit(i, op, "ok "+nf.EncWords(es))
			}
		case "set-dump":
			emit(i, op, sets.DumpText())
		default:
			emit(i, op, "bad-op")
		}
		if mut && before != fake.DumpText("nat") {
			res.changes++
		}
	}
	return res
}

var m6Chains = []string{"U0", "U1", "U2", "U3", "KUBE-HP-AAAAAAAAAAAAAAAA", "KUBE-HOSTPORTS", "OUTPUT", "PREROUTING", "MISSING", "FORWARD"}
var m6Sets = []string{"S0", "S1", "GLX-sip-abc", "NOSET"}

// genArgs builds a raw argv; forRestore: the comment is quoted as it must be in restore text.
func genArgs(rng *rand.Rand, forRestore bool) []string {
	var a []string
	if rng.Intn(4) == 0 {
		a = append(a, []string{"-s", "-d", "--source"}[rng.Intn(3)], []string{"10.0.0.1", "10.1.0.0/16", "192.168.3.4/32"}[rng.Intn(3)])
	}
	if rng.Intn(3) == 0 {
		cm := []string{"pod-1 hostport 80", "x", "a b  c", ""}[rng.Intn(4)]
		if forRestore || rng.Intn(2) == 0 {
			cm = `"` + cm + `"`
		}
		if cm == "" {
			cm = `""`
		}
		a = append(a, "-m", "comment", "--comment", cm)
	}
	if rng.Intn(3) == 0 {
		p := []string{"tcp", "udp"}[rng.Intn(2)]
		a = append(a, "-m", p, "-p", p, "--dport", strconv.Itoa(1+rng.Intn(65535)))
	}
	if rng.Intn(4) == 0 {
		a = append(a, "-m", "set", "--match-set", m6Sets[rng.Intn(len(m6Sets))], []string{"src", "dst"}[rng.Intn(2)])
	}
	if rng.Intn(12) == 0 {
		a = append(a, "!", "-o", "docker0")
	}
	switch rng.Intn(8) {
	case 0:
		a = append(a, "-j", "ACCEPT")
	case 1:
		a = append(a, "-j", "RETURN")
	case 2:
		a = append(a, "-j", "DNAT", "--to-destination="+fmt.Sprintf("10.0.0.%d:%d", rng.Intn(250), 1+rng.Intn(9999)))
	case 3:
		a = append(a, "-j", "DNAT", "--to-destination", "10.0.0.9:80")
	case 4:
		a = append(a, "-j", "MARK", "--set-xmark", "0x4000/0x4000")
	case 5:
		// no target at all
	default:
		a = append(a, []string{"-j", "-j", "-g", "--jump"}[rng.Intn(4)], m6Chains[rng.Intn(len(m6Chains))])
	}
	return a
}

func genBatchLines(rng *rand.Rand) []string {
	lines := []string{"*nat"}
	if rng.Intn(25) == 0 {
		lines = nil // missing table line
	}
	n := 1 + rng.Intn(8)
	var decl, rules []string
	for k := 0; k < n; k++ {
		ch := m6Chains[rng.Intn(len(m6Chains))]
		switch x := rng.Intn(20); {
		case x < 6:
			decl = append(decl, ":"+ch+" - [0:0]")
		case x < 14:
			rules = append(rules, strings.Join(append([]string{"-A", ch}, genArgs(rng, true)...), " "))
		case x < 16:
			rules = append(rules, strings.Join(append([]string{"-I", ch}, genArgs(rng, true)...), " "))
		case x < 19:
			rules = append(rules, "-X "+ch)
		default:
			rules = append(rules, []string{"-Z", "garbage line", "-A", ":", `-A U0 --comment "unterminated`, "# a comment", ""}[rng.Intn(7)])
		}
	}
	if rng.Intn(5) == 0 {
		// out-of-order batch
		all := append(append([]string{}, decl...), rules...)
		rng.Shuffle(len(all), func(i, j int) { all[i], all[j] = all[j], all[i] })
		lines = append(lines, all...)
	} else {
		lines = append(append(lines, decl...), rules...)
	}
	if rng.Intn(25) != 0 {
		lines = append(lines, "COMMIT")
	}
	return lines
}

func encLineList(ls []string) string {
	es := make([]string, len(ls))
	for i, l := range ls {
		es[i] = nf.EncTok(l)
	}
	return strings.Join(es, " ")
}

func genM6(c *ctx, i int) []string {
	rng := c.e.Rng
	ops := []string{"case m6", "reset"}
	// prior table
	t := map[string][]nf.Rule{"PREROUTING": nil, "INPUT": nil, "OUTPUT": nil, "POSTROUTING": nil}
	for _, ch := range m6Chains[:6] {
		if rng.Intn(2) == 0 {
			var rs []nf.Rule
			for k := rng.Intn(3); k > 0; k-- {
				rs = append(rs, nf.Normalize(genArgs(rng, false)))
			}
			t[ch] = rs
		}
	}
	ops = append(ops, loadLines(t)...)
	for _, s := range m6Sets[:3] {
		if rng.Intn(2) == 0 {
			ops = append(ops, "set-create "+nf.EncTok(s)+" "+nf.EncTok([]string{"hash:ip", "hash:net"}[rng.Intn(2)])+" 0")
		}
	}
	for n := 6 + rng.Intn(9); n > 0; n-- {
		ch := nf.EncTok(m6Chains[rng.Intn(len(m6Chains))])
		switch x := rng.Intn(100); {
		case x < 35:
			ops = append(ops, "restore "+encLineList(genBatchLines(rng)), "dump")
		case x < 47:
			ops = append(ops, "ensure-rule "+[]string{"A", "I"}[rng.Intn(2)]+" "+ch+" "+nf.EncWords(genArgs(rng, false)), "dump")
		case x < 57:
			// delete a rule that (often) exists: re-use the generator with the same shapes
			ops = append(ops, "delete-rule "+ch+" "+nf.EncWords(genArgs(rng, false)), "dump")
		case x < 62:
			ops = append(ops, "ensure-chain "+ch, "dump")
		case x < 66:
			ops = append(ops, "flush-chain "+ch, "dump")
		case x < 72:
			ops = append(ops, "delete-chain "+ch, "dump")
		case x < 76:
			ops = append(ops, "list "+ch)
		case x < 82:
			ops = append(ops, "norm "+nf.EncWords(genArgs(rng, rng.Intn(2) == 0)))
		default:
			s := nf.EncTok(m6Sets[rng.Intn(len(m6Sets))])
			e := nf.EncTok([]string{"10.0.0.1", "10.0.0.2", "10.0.0.1 timeout 5", "10.0.0.0/24 comment x"}[rng.Intn(4)])
			switch rng.Intn(7) {
			case 0:
				ops = append(ops, "set-create "+s+" "+nf.EncTok([]string{"hash:ip", "hash:net"}[rng.Intn(2)])+" "+strconv.Itoa(rng.Intn(2)))
			case 1, 2:
				ops = append(ops, "set-add "+s+" "+e+" "+strconv.Itoa(rng.Intn(2)))
			case 3:
				ops = append(ops, "set-del "+s+" "+e)
			case 4:
				ops = append(ops, "set-destroy "+s)
			case 5:
				ops = append(ops, "set-list "+s)
			default:
				ops = append(ops, "set-flush "+s)
			}
			ops = append(ops, "set-dump")
		}
	}
	return ops
}

// ---- the real kernel (thorough tier, private netns) ----------------------------------------------

func runCmd(stdin string, name string, args ...string) (string, error) {
	cmd := exec.Command(name, args...)
	if stdin != "" {
		cmd.Stdin = strings.NewReader(stdin)
	}
	var out bytes.Buffer
	cmd.Stdout = &out
	cmd.Stderr = &out
	err := cmd.Run()
	return out.String(), err
}

func kernelDump() string {
	out, err := runCmd("", "iptables-save", "-t", "nat")
	if err != nil {
		return "iptables-save failed: " + out
	}
	t, err := nf.ParseSave(out)
	if err != nil {
		return "parse: " + err.Error()
	}
	return nf.EncTable(nf.CanonTable(t))
}

func execKernel(c *ctx, ops []string) *caseResult {
	res := &caseResult{ops: ops}
	emit := func(i int, drv, impl string) {
		res.drv = append(res.drv, drv)
		res.impl = append(res.impl, impl)
		res.drvOp = append(res.drvOp, i)
	}
	res.post = func(i int, model string) string {
		if res.drv[i] != "dump" {
			return model
		}
		t, err := nf.DecTable(model)
		if err != nil {
			return model
		}
		return nf.EncTable(nf.CanonTable(t))
	}
	var h *portmapping.PortMappingHandler
	for i := 1; i < len(ops); i++ {
		op := ops[i]
		kind, rest := op, ""
		if k := strings.IndexByte(op, ' '); k >= 0 {
			kind, rest = op[:k], op[k+1:]
		}
		switch kind {
		case "kreset":
			runCmd("", "iptables", "-t", "nat", "-F")
			runCmd("", "iptables", "-t", "nat", "-X")
			h = portmapping.New("")
			emit(i, "reset", "ok")
			for _, b := range []string{"PREROUTING", "INPUT", "OUTPUT", "POSTROUTING"} {
				emit(i, "load "+b, "ok")
			}
		case "krestore":
			f := strings.Fields(rest)
			lines := make([]string, len(f))
			for k, w := range f {
				lines[k], _ = nf.DecTok(w)
			}
			_, err := runCmd(strings.Join(lines, "\n")+"\n", "iptables-restore", "--noflush", "--counters")
			if err == nil {
				emit(i, "restore "+rest, "ok")
				res.changes++
				c.r.Hit("kernel:restore:ok")
			} else {
				// the kernel tools give no class: accept any error class of the model
				res.drv = append(res.drv, "restore "+rest)
				res.impl = append(res.impl, "err")
				res.drvOp = append(res.drvOp, i)
				c.r.Hit("kernel:restore:err")
			}
		case "kdump":
			emit(i, "dump", kernelDump())
		case "ksetup", "kclean", "ksync":
			ps, err := decPorts(rest)
			if err != nil || h == nil {
				emit(i, op, "bad-op")
				continue
			}
			var callErr error
			out := hx.Guard(60*time.Second, func() {
				switch kind {
				case "ksetup":
					callErr = h.SetupPortMapping(ps)
				case "kclean":
					callErr = h.CleanPortMapping(ps)
				case "ksync":
					callErr = h.SetupPortMappingForAllPods(ps)
				}
			})
			if out != "ok" {
				emit(i, kind[1:]+" "+rest, out)
				continue
			}
			if callErr == nil {
				emit(i, kind[1:]+" "+rest, "ok")
				res.changes++
			} else {
				emit(i, kind[1:]+" "+rest, "err")
			}
			c.r.Hit("kernel:" + kind)
		default:
			emit(i, op, "bad-op")
		}
	}
	// error classes are not observable on the kernel side
	post := res.post
	res.post = func(i int, model string) string {
		if res.impl[i] == "err" && strings.HasPrefix(model, "err:") {
			return "err"
		}
		return post(i, model)
	}
	return res
}

var kChains = []string{"KUBE-HOSTPORTS", "U0", "U1", "U2", "U3", "KUBE-HP-BBBBBBBBBBBBBBBB", "OUTPUT", "PREROUTING", "MISSING"}

// kernelRule: argv the kernel accepts in the nat table, whose iptables-save form is KernelCanon of it.
// known = user chains (indices into kChains) that exist at this point.
func kernelRule(rng *rand.Rand, from int, known map[int]bool) []string {
	var a []string
	if rng.Intn(3) == 0 {
		a = append(a, "-s", []string{"10.0.0.1", "10.1.0.0/16", "192.168.3.4/32"}[rng.Intn(3)])
	}
	if rng.Intn(3) == 0 {
		a = append(a, "-m", "comment", "--comment", `"`+[]string{"pod-1 hostport 80", "x", "a b c"}[rng.Intn(3)]+`"`)
	}
	if rng.Intn(3) == 0 {
		p := []string{"tcp", "udp"}[rng.Intn(2)]
		a = append(a, "-m", p, "-p", p, "--dport", strconv.Itoa(1+rng.Intn(65535)))
	}
	switch rng.Intn(6) {
	case 0, 1:
		a = append(a, "-j", "RETURN")
	case 2:
		a = append(a, "-j", "MARK", "--set-xmark", []string{"0x4000/0x4000", "0x8000/0x8000"}[rng.Intn(2)])
	default:
		// forward jumps only: the kernel refuses loops, which M6 does not model
		var cands []int
		for k := from + 1; k < 6; k++ {
			if known[k] {
				cands = append(cands, k)
			}
		}
		switch {
		case rng.Intn(10) == 0:
			a = append(a, "-j", "MISSING")
		case len(cands) > 0:
			a = append(a, "-j", kChains[cands[rng.Intn(len(cands))]])
		default:
			a = append(a, "-j", "RETURN")
		}
	}
	return a
}

func genKernel(c *ctx, i int) []string {
	rng := c.e.Rng
	ops := []string{"case kernel", "kreset"}
	if i%3 == 2 {
		// the unmodified exec-backed handler against the kernel's tables
		pods := genPods(rng)
		ops = append(ops, "ksync "+encPorts(allPorts(pods, map[int]bool{0: true})), "kdump")
		for n := 1 + rng.Intn(4); n > 0; n-- {
			k := rng.Intn(len(pods))
			switch rng.Intn(3) {
			case 0:
				ops = append(ops, "ksetup "+encPorts(pods[k].ports), "kdump")
			case 1:
				ops = append(ops, "kclean "+encPorts(pods[k].ports), "kdump")
			default:
				ops = append(ops, "ksync "+encPorts(allPorts(pods, map[int]bool{k: true, 0: rng.Intn(2) == 0})), "kdump")
			}
		}
		return ops
	}
	known := map[int]bool{}
	for n := 2 + rng.Intn(5); n > 0; n-- {
		lines := []string{"*nat"}
		var decl, rules []string
		now := map[int]bool{}
		for k := range known {
			now[k] = true
		}
		pick := func() int {
			// mostly a chain that exists
			if rng.Intn(6) != 0 {
				var ex []int
				for k := range now {
					ex = append(ex, k)
				}
				ex = append(ex, 6, 7)
				sort.Ints(ex)
				return ex[rng.Intn(len(ex))]
			}
			return rng.Intn(len(kChains))
		}
		for k := 1 + rng.Intn(3); k > 0; k-- {
			ci := rng.Intn(6)
			decl = append(decl, ":"+kChains[ci]+" - [0:0]")
			now[ci] = true
		}
		for k := 1 + rng.Intn(6); k > 0; k-- {
			ci := pick()
			ch := kChains[ci]
			from := ci
			if from > 5 {
				from = -1 // builtin chains may jump anywhere
			}
			switch x := rng.Intn(20); {
			case x < 12:
				rules = append(rules, strings.Join(append([]string{"-A", ch}, kernelRule(rng, from, now)...), " "))
			case x < 15:
				rules = append(rules, strings.Join(append([]string{"-I", ch}, kernelRule(rng, from, now)...), " "))
			default:
				if ci < 6 || ci == 8 { // never -X of a builtin chain: iptables-nft and M6 (= legacy) differ there
					rules = append(rules, "-X "+ch)
					delete(now, ci)
				}
			}
		}
		lines = append(append(lines, decl...), rules...)
		lines = append(lines, "COMMIT")
		ops = append(ops, "krestore "+encLineList(lines), "kdump")
		// the batch may have failed; `known` is only a hint for the generator
		if rng.Intn(2) == 0 {
			known = now
		}
	}
	return ops
}
