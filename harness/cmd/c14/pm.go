package main

import (
	"fmt"
	"math/rand"
	"net"
	"sort"
	"strconv"
	"strings"
	"time"

	"gxverif/hx"
	"gxverif/nf"

	"tkestack.io/galaxy/pkg/api/k8s"
	"tkestack.io/galaxy/pkg/network/portmapping"
)

// ---- encoding of ports on op lines ----------------------------------------------------------------

func encPort(p k8s.Port) string {
	return strings.Join([]string{strconv.Itoa(int(p.HostPort)), nf.EncTok(p.Protocol), strconv.Itoa(int(p.ContainerPort)),
		nf.EncTok(p.PodName), nf.EncTok(p.PodIP), nf.EncTok(p.HostIP)}, " ")
}

func encPorts(ps []k8s.Port) string {
	if len(ps) == 0 {
		return "-"
	}
	xs := make([]string, len(ps))
	for i, p := range ps {
		xs[i] = encPort(p)
	}
	return strings.Join(xs, " ; ")
}

func decPorts(s string) ([]k8s.Port, error) {
	s = strings.TrimSpace(s)
	if s == "-" || s == "" {
		return nil, nil
	}
	var out []k8s.Port
	for _, part := range strings.Split(s, " ; ") {
		f := strings.Fields(part)
		if len(f) != 6 {
			return nil, fmt.Errorf("bad port %q", part)
		}
		var p k8s.Port
		hp, err1 := strconv.Atoi(f[0])
		cp, err2 := strconv.Atoi(f[2])
		if err1 != nil || err2 != nil {
			return nil, fmt.Errorf("bad port %q", part)
		}
		p.HostPort, p.ContainerPort = int32(hp), int32(cp)
		var err error
		if p.Protocol, err = nf.DecTok(f[1]); err != nil {
			return nil, err
		}
		if p.PodName, err = nf.DecTok(f[3]); err != nil {
			return nil, err
		}
		if p.PodIP, err = nf.DecTok(f[4]); err != nil {
			return nil, err
		}
		if p.HostIP, err = nf.DecTok(f[5]); err != nil {
			return nil, err
		}
		out = append(out, p)
	}
	return out, nil
}

// wfPorts = DESIGN Appendix E WFPorts (written from the property text, compared with the model's wfPorts).
func wfPorts(ps []k8s.Port) bool {
	seen := map[string]bool{}
	for _, p := range ps {
		switch p.Protocol {
		case "TCP", "UDP", "tcp", "udp":
		default:
			return false
		}
		if p.HostPort < 1 || p.HostPort > 65535 {
			return false
		}
		k := fmt.Sprintf("%d/%s", p.HostPort, strings.ToLower(p.Protocol))
		if seen[k] {
			return false
		}
		seen[k] = true
	}
	return true
}

// inputsSane: the fields are what Kubernetes would hand over (names without blanks/quotes, IPv4 literals,
// container port in range); the monitors speak only about such inputs.
func inputsSane(ps []k8s.Port) bool {
	for _, p := range ps {
		if p.PodName == "" || strings.ContainsAny(p.PodName, " \"\t") {
			return false
		}
		if net.ParseIP(p.PodIP) == nil || (p.HostIP != "" && net.ParseIP(p.HostIP) == nil) {
			return false
		}
		if p.ContainerPort < 1 || p.ContainerPort > 65535 {
			return false
		}
	}
	return true
}

// ---- monitors (oracles written from the property, on the real dumps) ------------------------------

const (
	chHostports = "KUBE-HOSTPORTS"
	chMarkMasq  = "KUBE-MARK-MASQ"
	hpPrefix    = "KUBE-HP-"
)

func galaxyChain(c string) bool {
	return c == chHostports || c == chMarkMasq || strings.HasPrefix(c, hpPrefix)
}

func sameRules(a, b []nf.Rule) bool { return nf.EncRules(a) == nf.EncRules(b) }

// optVal returns the value following option o (in option position).
func optVal(r nf.Rule, o string) (string, bool) {
	skip := 0
	for i, t := range r {
		if skip > 0 {
			skip--
			continue
		}
		if t == o && i+1 < len(r) {
			return r[i+1], true
		}
		skip = nf.OptArity(t)
	}
	return "", false
}

// matchesPort: the rule is a KUBE-HOSTPORTS entry for (protocol, hostPort[, hostIP]) of p.
func matchesPort(r nf.Rule, p k8s.Port) bool {
	proto, ok1 := optVal(r, "-p")
	dport, ok2 := optVal(r, "--dport")
	if !ok1 || !ok2 || proto != strings.ToLower(p.Protocol) || dport != strconv.Itoa(int(p.HostPort)) {
		return false
	}
	d, hasD := optVal(r, "-d")
	if p.HostIP == "" {
		return !hasD
	}
	return hasD && d == p.HostIP+"/32"
}

func hpChains(t map[string][]nf.Rule) []string {
	var out []string
	for c := range t {
		if strings.HasPrefix(c, hpPrefix) {
			out = append(out, c)
		}
	}
	sort.Strings(out)
	return out
}

// resolve finds the chain each port is redirected to; "" if no or several jump rules match.
func resolve(t map[string][]nf.Rule, ps []k8s.Port) []string {
	out := make([]string, len(ps))
	for i, p := range ps {
		n := 0
		for _, r := range t[chHostports] {
			if matchesPort(r, p) {
				n++
				out[i], _ = nf.JumpTarget(r)
			}
		}
		if n != 1 {
			out[i] = ""
		}
	}
	return out
}

// chainOK: the chain holds exactly the masquerade-mark rule and the DNAT rule of p.
func chainOK(rs []nf.Rule, p k8s.Port) bool {
	if len(rs) != 2 {
		return false
	}
	src, ok := optVal(rs[0], "-s")
	j0, _ := nf.JumpTarget(rs[0])
	if !ok || src != p.PodIP+"/32" || j0 != chMarkMasq {
		return false
	}
	proto, ok := optVal(rs[1], "-p")
	j1, _ := nf.JumpTarget(rs[1])
	to, ok2 := optVal(rs[1], "--to-destination")
	return ok && ok2 && proto == strings.ToLower(p.Protocol) && j1 == "DNAT" &&
		to == fmt.Sprintf("%s:%d", p.PodIP, p.ContainerPort)
}

// without returns the rules of rs that do not jump to a chain of `drop`.
func without(rs []nf.Rule, drop map[string]bool) []nf.Rule {
	var out []nf.Rule
	for _, r := range rs {
		if t, ok := nf.JumpTarget(r); ok && drop[t] {
			continue
		}
		out = append(out, r)
	}
	return out
}

var portalRule = nf.Rule{"-m", "comment", "--comment", "kube hostport portals", "-m", "addrtype", "--dst-type", "LOCAL", "-j", chHostports}

type mon struct {
	v []hx.Violation
}

func (m *mon) add(sig, what string) {
	for _, x := range m.v {
		if x.Signature == sig {
			return
		}
	}
	m.v = append(m.v, hx.Violation{Signature: sig, What: what})
}

// frame: chains galaxy does not own are never modified (holds for every input, also for failing calls).
func (m *mon) frame(kind string, before, after map[string][]nf.Rule) {
	names := map[string]bool{}
	for c := range before {
		names[c] = true
	}
	for c := range after {
		names[c] = true
	}
	for c := range names {
		if galaxyChain(c) {
			continue
		}
		b, okb := before[c]
		a, oka := after[c]
		if kind == "sync" && (c == "OUTPUT" || c == "PREROUTING") && okb && oka {
			if sameRules(a, b) || sameRules(a, append(append([]nf.Rule(nil), b...), portalRule)) {
				continue
			}
			m.add("builtin-chain-modified", fmt.Sprintf("%s: chain %s changed beyond the documented portal jump", kind, c))
			continue
		}
		if okb != oka || !sameRules(a, b) {
			m.add("foreign-chain-modified", fmt.Sprintf("%s changed foreign chain %s: %q -> %q", kind, c, nf.EncRules(b), nf.EncRules(a)))
		}
	}
	// D18: KUBE-MARK-MASQ belongs to kube-proxy
	if b, ok := before[chMarkMasq]; ok {
		if a, ok2 := after[chMarkMasq]; !ok2 || !sameRules(a, b) {
			m.add("kube-mark-masq-rewritten", fmt.Sprintf("%s rewrote kube-proxy's chain KUBE-MARK-MASQ: prior content %q, now %q",
				kind, nf.EncRules(b), nf.EncRules(after[chMarkMasq])))
		}
	}
}

func (m *mon) otherPods(kind string, own map[string]bool, before, after map[string][]nf.Rule) {
	for _, c := range hpChains(before) {
		if own[c] {
			continue
		}
		if a, ok := after[c]; !ok || !sameRules(a, before[c]) {
			m.add("other-pod-chain-modified", fmt.Sprintf("%s changed chain %s of another pod", kind, c))
		}
	}
	for _, c := range hpChains(after) {
		if _, ok := before[c]; !ok && !own[c] {
			m.add("unexpected-chain-created", fmt.Sprintf("%s created chain %s which belongs to none of the given ports", kind, c))
		}
	}
	if !sameRules(without(before[chHostports], own), without(after[chHostports], own)) {
		m.add("other-pod-rule-modified", fmt.Sprintf("%s changed KUBE-HOSTPORTS rules of other pods", kind))
	}
}

func (m *mon) setup(ps []k8s.Port, before, after map[string][]nf.Rule, err error) {
	if _, ok := before[chHostports]; !ok {
		return // SetupPortMapping relies on the start-up sync having created KUBE-HOSTPORTS
	}
	if err != nil {
		m.add("setup-failed", "SetupPortMapping failed on a table with KUBE-HOSTPORTS for well-formed ports: "+err.Error())
		return
	}
	tg := resolve(after, ps)
	own := map[string]bool{}
	for i, p := range ps {
		if tg[i] == "" {
			m.add("setup-jump-rule", fmt.Sprintf("after setup KUBE-HOSTPORTS has no unique rule for %s/%d", p.Protocol, p.HostPort))
			continue
		}
		if own[tg[i]] {
			m.add("chain-shared-by-ports", fmt.Sprintf("two ports of the call share chain %s", tg[i]))
		}
		own[tg[i]] = true
		if !chainOK(after[tg[i]], p) {
			m.add("hp-chain-content", fmt.Sprintf("chain %s of %s/%d holds %q", tg[i], p.Protocol, p.HostPort, nf.EncRules(after[tg[i]])))
		}
	}
	m.otherPods("setup", own, before, after)
}

func (m *mon) clean(ps []k8s.Port, before, after map[string][]nf.Rule, err error, injected bool) (setUp bool) {
	tg := resolve(before, ps)
	own := map[string]bool{}
	setUp = true
	for i, c := range tg {
		if c != "" {
			own[c] = true
		}
		if _, ok := before[c]; c == "" || !ok {
			setUp = false
		}
		// a chain with exactly the two rules of the port is the port's, also when its jump rule is missing
		for _, h := range hpChains(before) {
			if chainOK(before[h], ps[i]) {
				own[h] = true
			}
		}
	}
	if err != nil {
		// since the fix a5e6428 (EnsureChain before the DeleteRule loop) cleanup must succeed whether or not the
		// ports are (completely) set up
		if !injected {
			m.add("clean-failed", "CleanPortMapping failed for well-formed ports: "+err.Error())
		}
		return
	}
	for i, p := range ps {
		for _, r := range after[chHostports] {
			if matchesPort(r, p) {
				m.add("clean-leaves-jump-rule", fmt.Sprintf("KUBE-HOSTPORTS still has a rule for %s/%d", p.Protocol, p.HostPort))
			}
		}
		if tg[i] != "" {
			if _, ok := after[tg[i]]; ok {
				m.add("clean-leaves-chain", fmt.Sprintf("chain %s of %s/%d still exists after CleanPortMapping", tg[i], p.Protocol, p.HostPort))
			}
		}
	}
	// chains that did not exist before must not exist afterwards either
	for _, c := range hpChains(after) {
		if _, ok := before[c]; !ok {
			m.add("clean-leaves-chain", fmt.Sprintf("CleanPortMapping left a new chain %s behind", c))
		}
	}
	m.otherPods("clean", own, before, after)
	return
}

// syncBlocked: some stale KUBE-HP chain is referenced from a chain that the sync does not flush.
func syncBlocked(before map[string][]nf.Rule) bool {
	for c, rs := range before {
		if c == chHostports || strings.HasPrefix(c, hpPrefix) {
			continue
		}
		for _, r := range rs {
			if t, ok := nf.ChainRef(r); ok && strings.HasPrefix(t, hpPrefix) {
				return true
			}
		}
	}
	return false
}

func (m *mon) sync(ps []k8s.Port, before, after map[string][]nf.Rule, err error) {
	if err != nil {
		if !syncBlocked(before) {
			m.add("sync-failed", "SetupPortMappingForAllPods failed although no foreign chain references a KUBE-HP chain: "+err.Error())
		}
		return
	}
	tg := resolve(after, ps)
	own := map[string]bool{}
	for i, p := range ps {
		if tg[i] == "" {
			m.add("sync-jump-rule", fmt.Sprintf("after sync KUBE-HOSTPORTS has no unique rule for %s/%d", p.Protocol, p.HostPort))
			continue
		}
		if own[tg[i]] {
			m.add("chain-shared-by-ports", fmt.Sprintf("two ports share chain %s", tg[i]))
		}
		own[tg[i]] = true
		if !chainOK(after[tg[i]], p) {
			m.add("hp-chain-content", fmt.Sprintf("chain %s of %s/%d holds %q", tg[i], p.Protocol, p.HostPort, nf.EncRules(after[tg[i]])))
		}
	}
	for _, c := range hpChains(after) {
		if !own[c] {
			m.add("sync-stale-chain-left", fmt.Sprintf("after the full sync chain %s exists but belongs to none of the given ports", c))
		}
	}
	if len(after[chHostports]) != len(ps) {
		m.add("sync-hostports-not-exact", fmt.Sprintf("KUBE-HOSTPORTS has %d rules for %d ports", len(after[chHostports]), len(ps)))
	}
}

// ---- executor ---------------------------------------------------------------------------------

func encLines(text string) string {
	ls := strings.Split(strings.TrimSuffix(text, "\n"), "\n")
	es := make([]string, len(ls))
	for i, l := range ls {
		es[i] = nf.EncTok(l)
	}
	return strings.Join(es, " ")
}

func lastFailureClass(ev []nf.Event) string {
	for i := len(ev) - 1; i >= 0; i-- {
		if ev[i].Class != "" && ev[i].Class != nf.ErrInjected {
			return ev[i].Class
		}
	}
	return "other"
}

func firstRestore(ev []nf.Event) (string, bool) {
	for _, e := range ev {
		if e.Op == "restore" {
			return e.Arg, true
		}
	}
	return "", false
}

func copyTable(t map[string][]nf.Rule) map[string][]nf.Rule {
	o := make(map[string][]nf.Rule, len(t))
	for k, v := range t {
		o[k] = v
	}
	return o
}

func execPM(c *ctx, ops []string) *caseResult {
	res := &caseResult{ops: ops}
	fake := nf.NewIPTables()
	h := portmapping.VerifNew(fake)
	emit := func(i int, drv, impl string) {
		res.drv = append(res.drv, drv)
		res.impl = append(res.impl, impl)
		res.drvOp = append(res.drvOp, i)
	}
	m := &mon{}
	injected := false
	// once a call with ports outside WFPorts / Kubernetes-sane values was made, the table no longer is
	// what the property's quantifier ranges over: only the frame monitor keeps running
	contaminated := false
	// for the setup->clean inverse law
	var pairBefore map[string][]nf.Rule
	pairPorts := ""
	interesting := false
	for i := 1; i < len(ops); i++ {
		op := ops[i]
		kind, rest := op, ""
		if k := strings.IndexByte(op, ' '); k >= 0 {
			kind, rest = op[:k], op[k+1:]
		}
		switch kind {
		case "reset":
			fake = nf.NewIPTables()
			h = portmapping.VerifNew(fake)
			emit(i, "reset", "ok")
		case "load":
			chain, rulesText := rest, ""
			if k := strings.IndexByte(rest, ' '); k >= 0 {
				chain, rulesText = rest[:k], rest[k+1:]
			}
			name, err1 := nf.DecTok(chain)
			rs, err2 := nf.DecRules(rulesText)
			if err1 != nil || err2 != nil {
				emit(i, op, "bad-op")
				continue
			}
			t := fake.Dump("nat")
			t[name] = rs
			fake.Load("nat", t)
			if !galaxyChain(name) && name != "PREROUTING" && name != "INPUT" && name != "OUTPUT" && name != "POSTROUTING" || strings.HasPrefix(name, hpPrefix) {
				interesting = true
			}
			emit(i, op, "ok")
		case "inject":
			f := strings.Fields(rest)
			if len(f) == 3 {
				n, _ := strconv.Atoi(f[1])
				msg, _ := nf.DecTok(f[2])
				fake.FailNext(f[0], n, msg)
				injected = true
			}
		case "dump":
			emit(i, "dump", fake.DumpText("nat"))
		case "setup", "clean", "sync":
			ps, err := decPorts(rest)
			if err != nil {
				emit(i, op, "bad-op")
				continue
			}
			wf := wfPorts(ps)
			emit(i, "wf "+rest, strconv.FormatBool(wf))
			before := fake.Dump("nat")
			fake.ClearLog()
			var callErr error
			out := hx.Guard(40*time.Second, func() {
				switch kind {
				case "setup":
					callErr = h.SetupPortMapping(ps)
				case "clean":
					callErr = h.CleanPortMapping(ps)
				case "sync":
					callErr = h.SetupPortMappingForAllPods(ps)
				}
			})
			if out != "ok" {
				m.add("panic-or-hang", kind+": "+out)
				emit(i, op, out)
				res.violations = m.v
				return res
			}
			ev := fake.Log()
			after := fake.Dump("nat")
			if text, ok := firstRestore(ev); ok && kind != "sync" {
				emit(i, "batch-"+kind+" "+rest, "selfcheck=ok "+encLines(text))
			}
			if callErr == nil {
				emit(i, op, "ok")
				if nf.EncTable(before) != nf.EncTable(after) {
					res.changes++
				}
			} else {
				emit(i, op, "err:"+lastFailureClass(ev))
				c.r.Hit("pm:" + kind + ":err:" + lastFailureClass(ev))
			}
			c.r.Hit("pm:" + kind)
			if !wf {
				c.r.Hit("pm:" + kind + ":not-wf")
			}
			// monitors
			m.frame(kind, before, after)
			if !wf || !inputsSane(ps) {
				contaminated = true
			}
			if !contaminated {
				switch kind {
				case "setup":
					m.setup(ps, before, after, callErr)
				case "clean":
					if up := m.clean(ps, before, after, callErr, injected); !up {
						c.r.Hit("pm:clean:of-ports-not-set-up")
					}
				case "sync":
					m.sync(ps, before, after, callErr)
					if syncBlocked(before) {
						c.r.Hit("pm:sync:blocked-by-foreign-ref")
					}
				}
				// inverse law: clean directly after setup of the same ports restores the table
				if kind == "setup" && callErr == nil {
					fresh := true
					for _, t := range resolve(after, ps) {
						if _, existed := before[t]; existed || t == "" {
							fresh = false
						}
					}
					if fresh {
						pairBefore, pairPorts = before, rest
					} else {
						pairBefore = nil
					}
				} else if kind == "clean" && pairBefore != nil && pairPorts == rest && callErr == nil {
					b, a := copyTable(pairBefore), copyTable(after)
					delete(b, chMarkMasq)
					delete(a, chMarkMasq)
					if nf.EncTable(a) != nf.EncTable(b) {
						m.add("setup-clean-not-inverse", "clean after setup of the same ports did not restore the prior table (KUBE-MARK-MASQ aside)")
					}
					c.r.Hit("pm:setup-clean-pair")
					pairBefore = nil
				} else {
					pairBefore = nil
				}
			} else {
				pairBefore = nil
			}
			injected = false
		default:
			emit(i, op, "bad-op")
		}
	}
	if !interesting && res.changes >= 2 {
		res.changes = 1 // empty prior table: trivial by the stated rule
	}
	res.violations = m.v
	return res
}

// ---- generators -----------------------------------------------------------------------------------

const b32 = "ABCDEFGHIJKLMNOPQRSTUVWXYZ234567"

func randName(rng *rand.Rand, n int) string {
	b := make([]byte, n)
	for i := range b {
		b[i] = b32[rng.Intn(32)]
	}
	return string(b)
}

type pod struct {
	name  string
	ports []k8s.Port
}

var portPalette = []int32{53, 80, 443, 8080, 9090, 30001, 30002, 31000, 1, 65535, 5353, 10250}

// genPods: <= 6 pods x <= 3 ports, (hostPort, protocol) unique over all pods.
func genPods(rng *rand.Rand) []pod {
	used := map[string]bool{}
	n := 1 + rng.Intn(6)
	pods := make([]pod, 0, n)
	names := []string{"web-0", "web-1", "db-0", "dns-5d8c7", "testrdma-2", "a", "very-long-pod-name-0123456789-abcdefghij", "x.y"}
	rng.Shuffle(len(names), func(i, j int) { names[i], names[j] = names[j], names[i] })
	for i := 0; i < n; i++ {
		pd := pod{name: names[i]}
		ip := fmt.Sprintf("10.%d.%d.%d", 240+rng.Intn(4), rng.Intn(256), 2+rng.Intn(250))
		k := 1 + rng.Intn(3)
		for j := 0; j < k; j++ {
			var p k8s.Port
			for tries := 0; tries < 20; tries++ {
				p = k8s.Port{PodName: pd.name, PodIP: ip}
				if rng.Intn(3) == 0 {
					p.HostPort = int32(1 + rng.Intn(65535))
				} else {
					p.HostPort = portPalette[rng.Intn(len(portPalette))]
				}
				p.Protocol = []string{"TCP", "UDP", "TCP", "UDP", "tcp", "udp"}[rng.Intn(6)]
				p.ContainerPort = p.HostPort
				if rng.Intn(3) == 0 {
					p.ContainerPort = int32(1 + rng.Intn(65535))
				}
				// the DNS shape: same host and container port on both protocols of one pod
				if j > 0 && rng.Intn(3) == 0 {
					q := pd.ports[j-1]
					p.HostPort, p.ContainerPort = q.HostPort, q.ContainerPort
					if strings.ToLower(q.Protocol) == "tcp" {
						p.Protocol = "UDP"
					} else {
						p.Protocol = "TCP"
					}
				}
				if rng.Intn(4) == 0 {
					p.HostIP = fmt.Sprintf("192.168.1.%d", 1+rng.Intn(254))
				}
				key := fmt.Sprintf("%d/%s", p.HostPort, strings.ToLower(p.Protocol))
				if !used[key] {
					used[key] = true
					break
				}
				p.HostPort = 0
			}
			if p.HostPort != 0 {
				pd.ports = append(pd.ports, p)
			}
		}
		if len(pd.ports) > 0 {
			pods = append(pods, pd)
		}
	}
	return pods
}

var markStd = nf.Rule{"-j", "MARK", "--set-xmark", "0x4000/0x4000"}

// genPrior builds a prior nat table: builtin chains, foreign chains and rules, stale galaxy chains,
// KUBE-MARK-MASQ variants.  kernelSafe restricts it to what the real kernel accepts in an empty netns.
func genPrior(rng *rand.Rand, kernelSafe bool) map[string][]nf.Rule {
	t := map[string][]nf.Rule{"PREROUTING": nil, "INPUT": nil, "OUTPUT": nil, "POSTROUTING": nil}
	if rng.Intn(12) == 0 {
		return t // pristine node
	}
	pool := []string{"DOCKER", "KUBE-SERVICES", "KUBE-NODEPORTS", "KUBE-POSTROUTING", "CNI-HOSTPORT-DNAT",
		"KUBE-SVC-ABCDEF0123456789", "KUBE-SEP-XYZXYZXYZXYZXYZX", "KUBE-HPX", "KUBE-HOSTPORTS-OLD", "KUBE-HP"}
	rng.Shuffle(len(pool), func(i, j int) { pool[i], pool[j] = pool[j], pool[i] })
	foreign := pool[:rng.Intn(6)]
	sort.Strings(foreign)
	for _, c := range foreign {
		t[c] = nil
	}
	needMark := false
	frule := func(i int) nf.Rule {
		switch rng.Intn(6) {
		case 0:
			return nf.Rule{"-j", "RETURN"}
		case 1:
			return nf.Rule{"-s", fmt.Sprintf("172.17.%d.0/24", rng.Intn(8)), "-j", "RETURN"}
		case 2:
			return nf.Rule{"-p", "tcp", "-m", "comment", "--comment", "foreign rule " + strconv.Itoa(rng.Intn(9)), "-m", "tcp", "--dport", strconv.Itoa(1 + rng.Intn(9000)), "-j", "RETURN"}
		case 3:
			if i+1 < len(foreign) {
				return nf.Rule{"-m", "comment", "--comment", "to next", "-j", foreign[i+1+rng.Intn(len(foreign)-i-1)]}
			}
			return nf.Rule{"-j", "RETURN"}
		case 4:
			needMark = true
			return nf.Rule{"-s", "10.9.0.0/16", "-j", chMarkMasq}
		default:
			return nf.Rule{"-p", "tcp", "-m", "tcp", "--dport", strconv.Itoa(1 + rng.Intn(9000)), "-j", "DNAT", "--to-destination", fmt.Sprintf("172.17.0.%d:%d", 2+rng.Intn(200), 1+rng.Intn(9000))}
		}
	}
	for i, c := range foreign {
		for k := rng.Intn(4); k > 0; k-- {
			t[c] = append(t[c], frule(i))
		}
	}
	if len(foreign) > 0 {
		if rng.Intn(2) == 0 {
			t["PREROUTING"] = append(t["PREROUTING"], nf.Rule{"-m", "comment", "--comment", "foreign portals", "-j", foreign[0]})
		}
		if rng.Intn(2) == 0 {
			t["OUTPUT"] = append(t["OUTPUT"], nf.Rule{"-j", foreign[len(foreign)-1]})
		}
	}
	if rng.Intn(2) == 0 {
		t["POSTROUTING"] = append(t["POSTROUTING"], nf.Rule{"-s", "172.17.0.0/16", "!", "-o", "docker0", "-j", "MASQUERADE"})
	}
	// galaxy's own chains from an earlier life
	if rng.Intn(7) != 0 {
		t[chHostports] = nil
		if rng.Intn(2) == 0 {
			t["OUTPUT"] = append(t["OUTPUT"], portalRule)
			t["PREROUTING"] = append(t["PREROUTING"], portalRule)
		}
	}
	for k := rng.Intn(4); k > 0; k-- {
		c := hpPrefix + randName(rng, 16)
		ip := fmt.Sprintf("10.250.0.%d", 2+rng.Intn(200))
		port := 1 + rng.Intn(60000)
		cm := fmt.Sprintf("oldpod-%d hostport %d", rng.Intn(9), port)
		var rs []nf.Rule
		switch rng.Intn(4) {
		case 0:
		case 1:
			rs = []nf.Rule{{"-m", "comment", "--comment", cm, "-m", "tcp", "-p", "tcp", "-j", "DNAT", "--to-destination", fmt.Sprintf("%s:%d", ip, port)}}
		default:
			needMark = true
			rs = []nf.Rule{{"-m", "comment", "--comment", cm, "-s", ip + "/32", "-j", chMarkMasq},
				{"-m", "comment", "--comment", cm, "-m", "tcp", "-p", "tcp", "-j", "DNAT", "--to-destination", fmt.Sprintf("%s:%d", ip, port)}}
		}
		t[c] = rs
		jump := nf.Rule{"-m", "comment", "--comment", cm, "-m", "tcp", "-p", "tcp", "--dport", strconv.Itoa(port), "-j", c}
		x := rng.Intn(20)
		switch {
		case x < 15:
			if _, ok := t[chHostports]; ok {
				t[chHostports] = append(t[chHostports], jump)
			}
		case x < 16 && len(foreign) > 0:
			t[foreign[0]] = append(t[foreign[0]], nf.Rule{"-j", c}) // blocks the full sync (real -X semantics)
		case x < 17:
			// referenced from another stale chain
			for o := range t {
				if strings.HasPrefix(o, hpPrefix) && o != c {
					t[o] = append(t[o], nf.Rule{"-j", c})
					break
				}
			}
		}
	}
	switch x := rng.Intn(20); {
	case x < 6 && !needMark:
	case x < 12:
		t[chMarkMasq] = []nf.Rule{markStd}
	case x < 15:
		t[chMarkMasq] = []nf.Rule{{"-j", "MARK", "--set-xmark", "0x8000/0x8000"}}
	case x < 17:
		t[chMarkMasq] = []nf.Rule{{"-j", "MARK", "--or-mark", "0x4000"}}
	case x < 18:
		t[chMarkMasq] = []nf.Rule{markStd, {"-j", "RETURN"}}
	default:
		t[chMarkMasq] = []nf.Rule{}
	}
	_ = kernelSafe
	return t
}

func loadLines(t map[string][]nf.Rule) []string {
	names := make([]string, 0, len(t))
	for c := range t {
		names = append(names, c)
	}
	sort.Strings(names)
	var out []string
	for _, c := range names {
		l := "load " + nf.EncTok(c)
		if len(t[c]) > 0 {
			l += " " + nf.EncRules(t[c])
		}
		out = append(out, l)
	}
	return out
}

func allPorts(pods []pod, active map[int]bool) []k8s.Port {
	var out []k8s.Port
	for i, p := range pods {
		if active == nil || active[i] {
			out = append(out, p.ports...)
		}
	}
	return out
}

func boundaryPorts(rng *rand.Rand, pods []pod) []k8s.Port {
	p := pods[rng.Intn(len(pods))].ports[0]
	switch rng.Intn(6) {
	case 0:
		return []k8s.Port{p, p}
	case 1:
		q := p
		q.Protocol = "SCTP"
		return []k8s.Port{q}
	case 2:
		return nil
	case 3:
		q := p
		q.HostPort = 70000
		return []k8s.Port{p, q}
	case 4:
		q := p
		q.PodName = "other-pod"
		q.PodIP = "10.1.1.1"
		return []k8s.Port{p, q} // two pods claiming the same host port
	default:
		q := p
		q.HostIP = "10.0.0.0/24"
		return []k8s.Port{q}
	}
}

func genPM(c *ctx, i int) []string {
	rng := c.e.Rng
	pods := genPods(rng)
	ops := []string{"case pm"}
	ops = append(ops, loadLines(genPrior(rng, false))...)
	active := map[int]bool{}
	if rng.Intn(10) < 7 {
		for k := range pods {
			if rng.Intn(2) == 0 {
				active[k] = true
			}
		}
		ops = append(ops, "sync "+encPorts(allPorts(pods, active)), "dump")
	}
	for n := 2 + rng.Intn(6); n > 0; n-- {
		k := rng.Intn(len(pods))
		x := rng.Intn(100)
		switch {
		case x < 35:
			ops = append(ops, "setup "+encPorts(pods[k].ports), "dump")
			active[k] = true
			if rng.Intn(10) < 4 {
				ops = append(ops, "clean "+encPorts(pods[k].ports), "dump")
				active[k] = false
			}
		case x < 60:
			if x < 63 && rng.Intn(8) == 0 {
				ops = append(ops, "inject delete-rule 2 "+nf.EncTok("iptables: Resource temporarily unavailable."))
			}
			ops = append(ops, "clean "+encPorts(pods[k].ports), "dump")
			active[k] = false
		case x < 78:
			if rng.Intn(3) == 0 {
				active = map[int]bool{}
				for j := range pods {
					if rng.Intn(2) == 0 {
						active[j] = true
					}
				}
			}
			ops = append(ops, "sync "+encPorts(allPorts(pods, active)), "dump")
		case x < 90:
			kind := []string{"setup", "clean", "sync"}[rng.Intn(3)]
			ops = append(ops, kind+" "+encPorts(boundaryPorts(rng, pods)), "dump")
		default:
			// a single port of a pod (subset of its list)
			ops = append(ops, "setup "+encPorts(pods[k].ports[:1]), "dump", "clean "+encPorts(pods[k].ports[:1]), "dump")
		}
	}
	return ops
}

// smallScopePM: every pair of subsets of three ports over three prior tables:
// sync S; setup S'; clean S'; sync S'.
func smallScopePM() [][]string {
	ports := []k8s.Port{
		{HostPort: 53, Protocol: "TCP", ContainerPort: 53, PodName: "dns-0", PodIP: "10.244.0.5"},
		{HostPort: 53, Protocol: "UDP", ContainerPort: 53, PodName: "dns-0", PodIP: "10.244.0.5"},
		{HostPort: 8080, Protocol: "TCP", ContainerPort: 80, PodName: "web-0", PodIP: "10.244.0.6", HostIP: "192.168.1.10"},
	}
	stale := hpPrefix + "STALESTALESTALE2"
	priors := []map[string][]nf.Rule{
		{"PREROUTING": nil, "INPUT": nil, "OUTPUT": nil, "POSTROUTING": nil},
		{"PREROUTING": {{"-j", "DOCKER"}}, "INPUT": nil, "OUTPUT": nil, "POSTROUTING": nil, "DOCKER": {{"-j", "RETURN"}},
			chHostports: {{"-p", "tcp", "--dport", "99", "-j", stale}}, stale: {{"-j", "RETURN"}}, chMarkMasq: {markStd}},
		{"PREROUTING": nil, "INPUT": nil, "OUTPUT": nil, "POSTROUTING": nil, chHostports: nil, stale: nil,
			chMarkMasq: {{"-j", "MARK", "--set-xmark", "0x8000/0x8000"}}},
	}
	sub := func(mask int) []k8s.Port {
		var out []k8s.Port
		for i, p := range ports {
			if mask&(1<<i) != 0 {
				out = append(out, p)
			}
		}
		return out
	}
	var all [][]string
	for _, pr := range priors {
		for a := 0; a < 8; a++ {
			for b := 0; b < 8; b++ {
				ops := append([]string{"case pm"}, loadLines(pr)...)
				ops = append(ops, "sync "+encPorts(sub(a)), "dump", "setup "+encPorts(sub(b)), "dump",
					"clean "+encPorts(sub(b)), "dump", "sync "+encPorts(sub(b)), "dump")
				all = append(all, ops)
			}
		}
	}
	return all
}
