// c14: host-port mappings are set up, held and removed completely.
//
// Real code under test: portmapping.PortMappingHandler (SetupPortMapping, CleanPortMapping,
// SetupPortMappingForAllPods, OpenHostports, CloseHostports) built by the verif hook over the strict
// iptables fake (harness/nf), with real sockets.  Four kinds of cases, each a list of op lines that is
// also the replay format (first line `case <kind>`):
//
//	pm      port-mapping histories on the strict fake  <-> gxdrv_netfilter (M6 generators), + monitors
//	m6      random batches / single commands / ipset ops on the strict fakes <-> gxdrv_netfilter
//	sk      OpenHostports / CloseHostports with real sockets <-> the bind-table model, + monitors
//	srv     the real galaxy request path (ADD / DEL through Galaxy.VerifCNI, port file, GC pass) with a fault at every
//	        iptables call index of the setup and of the cleanup <-> the server-level protocol model, + monitors
//	kernel  (thorough, private netns only) M6 and the exec-backed handler <-> real iptables 1.8.9
package main

import (
	"fmt"
	"os"
	"path/filepath"
	"sort"
	"strings"

	"gxverif/hx"
	"gxverif/nf"
)

const rule = "a case is non-trivial if it contains at least two successful state-changing operations " +
	"(pm: setup/clean/sync on a prior table with foreign or stale chains; m6: commands that changed a table or a set; " +
	"sk: opens that handed out a socket; srv: successful ADD/DEL requests; kernel: batches the kernel accepted)"

type ctx struct {
	e      *hx.Env
	r      *hx.Report
	netns  string
	nviol  int
	ndis   int
	perSig map[string]int
}

// caseResult is what an executor returns.
type caseResult struct {
	ops        []string // the op lines (replay)
	drv        []string // driver input lines
	impl       []string // implementation outputs, aligned with drv
	drvOp      []int    // index into ops for each driver line
	post       func(i int, model string) string
	changes    int // successful state-changing ops
	violations []hx.Violation
	// the environment interfered (a host port taken by somebody else): the case says nothing, it is re-run
	inconclusive bool
}

func (c *ctx) finish(kind string, name string, res *caseResult) {
	c.r.Case(strings.Join(res.ops, "\n"), res.changes >= 2)
	c.r.Hit("case:" + kind)
	out, err := c.e.RunDriver("netfilter", res.drv)
	if err != nil {
		c.ndis++
		if c.ndis <= 10 {
			p := c.e.WriteReplay("C14", "history", fmt.Sprintf("%s-driver-%d", name, c.ndis), []string{"driver failed: " + err.Error()}, res.ops)
			c.r.Disagree = append(c.r.Disagree, hx.Disagreement{Where: kind + ":driver", Index: -1, Impl: "", Model: err.Error(), Replay: p})
		}
		return
	}
	c.r.Traces++
	for i := range res.drv {
		m := out[i]
		if res.post != nil {
			m = res.post(i, m)
		}
		im := res.impl[i]
		if im == "" {
			im = "(empty)"
		}
		if m != im {
			c.ndis++
			c.r.Hit("disagree:" + kind)
			if c.ndis <= 12 {
				upto := res.ops
				if res.drvOp[i]+1 < len(upto) {
					upto = upto[:res.drvOp[i]+1]
				}
				p := c.e.WriteReplay("C14", "history", fmt.Sprintf("%s-dis-%d", name, c.ndis),
					[]string{"driver line: " + res.drv[i], "impl:  " + res.impl[i], "model: " + m}, upto)
				c.r.Disagree = append(c.r.Disagree, hx.Disagreement{Where: kind + ":" + strings.SplitN(res.drv[i], " ", 2)[0],
					Index: res.drvOp[i], Impl: clip(res.impl[i]), Model: clip(m), Replay: p})
			}
			break
		}
	}
	for _, v := range res.violations {
		c.nviol++
		c.r.Hit("violation:" + v.Signature)
		if c.perSig == nil {
			c.perSig = map[string]int{}
		}
		c.perSig[v.Signature]++
		if c.perSig[v.Signature] <= 3 && len(c.r.Violations) < 60 {
			v.Replay = c.e.WriteReplay("C14", "history", fmt.Sprintf("%s-viol-%d-%s", name, c.nviol, v.Signature), []string{"signature: " + v.Signature, "what: " + v.What}, res.ops)
			c.r.Violations = append(c.r.Violations, v)
		}
	}
}

func clip(s string) string {
	if len(s) > 600 {
		return s[:600] + "…"
	}
	return s
}

func (c *ctx) runOps(name string, ops []string) {
	if len(ops) == 0 {
		return
	}
	f := strings.Fields(ops[0])
	if len(f) != 2 || f[0] != "case" {
		c.r.Hit("bad-replay-file")
		return
	}
	switch f[1] {
	case "pm":
		c.finish("pm", name, execPM(c, ops))
	case "m6":
		c.finish("m6", name, execM6(c, ops))
	case "sk", "srv":
		// cases with real sockets: re-run with fresh ports when the environment interfered; never a verdict then
		for attempt := 0; ; attempt++ {
			var res *caseResult
			if f[1] == "sk" {
				res = execSK(c, ops)
			} else {
				res = execSRV(c, ops)
			}
			if !res.inconclusive {
				c.finish(f[1], name, res)
				break
			}
			c.r.Hit("inconclusive:port-in-use-by-environment")
			if attempt == 2 {
				c.r.Hit("inconclusive:case-given-up")
				break
			}
		}
	case "kernel":
		if c.netns != "private" || !nf.HaveRealIptables() {
			c.r.Hit("kernel:skipped")
			return
		}
		c.finish("kernel", name, execKernel(c, ops))
	default:
		c.r.Hit("bad-replay-file")
	}
}

func run(e *hx.Env) *hx.Report {
	r := hx.NewReport("C14", e.Tier, e.Seed, rule)
	c := &ctx{e: e, r: r, netns: os.Getenv("GXNF_NETNS")}
	defer srvG.close()
	if c.netns == "" {
		c.netns = "host"
	}
	r.Extra["netns"] = c.netns
	if e.Replay != "" {
		ops, err := hx.ReadOps(e.Replay)
		if err != nil {
			r.Extra["replay_error"] = err.Error()
			return r
		}
		c.runOps("replay", ops)
		return r
	}
	// 1. committed corpus
	root := os.Getenv("VERIF_ROOT")
	if root == "" {
		root = "/verif"
	}
	files, _ := filepath.Glob(filepath.Join(root, "corpus", "C14", "*.ops"))
	sort.Strings(files)
	for _, f := range files {
		ops, err := hx.ReadOps(f)
		if err != nil {
			continue
		}
		r.Hit("corpus")
		c.runOps("corpus-"+strings.TrimSuffix(filepath.Base(f), ".ops"), ops)
	}
	// 2. generated cases (GXC14_ONLY=pm|m6|sk|kernel restricts the kinds, for debugging)
	only := os.Getenv("GXC14_ONLY")
	want := func(k string) bool { return only == "" || only == k }
	for i := 0; want("pm") && i < e.N(400, 2500); i++ {
		ops := genPM(c, i)
		c.runOps(fmt.Sprintf("pm%d", i), ops)
		if i < 5 {
			r.Sample(map[string]interface{}{"kind": "pm", "ops": ops})
		}
	}
	if e.Thorough() && want("pm") {
		for i, ops := range smallScopePM() {
			c.runOps(fmt.Sprintf("pmx%d", i), ops)
		}
	}
	for i := 0; want("m6") && i < e.N(400, 3000); i++ {
		c.runOps(fmt.Sprintf("m6-%d", i), genM6(c, i))
	}
	for i := 0; want("sk") && i < e.N(80, 600); i++ {
		c.runOps(fmt.Sprintf("sk%d", i), genSK(c, i))
	}
	for i := 0; want("srv") && i < e.N(144, 576); i++ {
		ops := genSRV(c, i)
		c.runOps(fmt.Sprintf("srv%d", i), ops)
		if i < 2 {
			r.Sample(map[string]interface{}{"kind": "srv", "ops": ops})
		}
	}
	if e.Thorough() && want("kernel") {
		if c.netns == "private" && nf.HaveRealIptables() {
			for i := 0; i < 400; i++ {
				c.runOps(fmt.Sprintf("k%d", i), genKernel(c, i))
			}
			r.Extra["kernel"] = "validated against real iptables-restore/iptables-save (iptables 1.8.9 nf_tables) in a private netns"
		} else {
			r.Hit("kernel:skipped")
			r.Extra["kernel"] = "skipped: unshare -n not permitted or iptables tools missing"
		}
	}
	return r
}

func main() {
	nf.ReexecInNetns()
	hx.Main("C14", run)
}
