package main

import (
	"context"
	"encoding/json"
	"fmt"
	"net/http"
	"net/http/httptest"
	"os"
	"path/filepath"
	"strconv"
	"strings"
	"sync"
	"time"

	corev1 "k8s.io/api/core/v1"
	metav1 "k8s.io/apimachinery/pkg/apis/meta/v1"
	"k8s.io/client-go/kubernetes"
	"k8s.io/client-go/kubernetes/fake"

	"gxverif/cni"
	"gxverif/hx"
	"gxverif/nf"

	"tkestack.io/galaxy/pkg/api/docker"
	"tkestack.io/galaxy/pkg/api/k8s"
	"tkestack.io/galaxy/pkg/gc"
	"tkestack.io/galaxy/pkg/network/portmapping"
)

// Server-level cases: the REAL galaxy request path (pkg/galaxy/server.go requestFunc -> cmdAdd -> setupPortMapping /
// cleanupPortMapping / cleanIPtables, the port file under /var/lib/cni/galaxy/port, OpenHostports / CloseHostports)
// driven through Galaxy.VerifCNI with a recording fake CNI plugin, a port-mapping handler over the strict
// iptables fake, and a fault injected at a chosen iptables call of the setup or of the cleanup; plus one GC pass of
// pkg/gc over the port directory.  Op lines (first line `case srv`):
//
//	load <chain> <rules>              prior nat table (as in pm cases)
//	srv-pod <name> <ns> <0|1 random> <P<k>|0>:<proto>:<containerPort>:<hostIP|->,…
//	srv-sync                          the start-up sync (creates KUBE-HOSTPORTS)
//	srv-add <k|->                     CNI ADD; iptables call k of it fails
//	srv-del <j|->                     CNI DEL; iptables call j of it fails
//	srv-gc                            GC pass with the container dead
//	srv-restart                       the daemon restarts: a NEW Galaxy instance (new port-mapping handler, the old one's
//	                                  sockets are gone) over the same NAT table, port files and apiserver runs its start-up
//	                                  port-mapping sync (setupIPtables)
//	dump

type srvEnv struct {
	once   sync.Once
	env    *cni.Env
	err    error
	docker *docker.DockerInterface
	dsrv   *httptest.Server
	mu     sync.Mutex
	dead   map[string]bool
}

var srvG srvEnv

// the fake docker engine: every container is running except the ones in `dead` (404), so that the GC pass over
// the shared port directory never touches the files of other harness processes
func (s *srvEnv) serve(w http.ResponseWriter, r *http.Request) {
	p := r.URL.Path
	i := strings.Index(p, "/containers/")
	if i < 0 || !strings.HasSuffix(p, "/json") {
		http.Error(w, `{"message":"page not found"}`, http.StatusNotFound)
		return
	}
	id := strings.TrimSuffix(p[i+len("/containers/"):], "/json")
	s.mu.Lock()
	d := s.dead[id]
	s.mu.Unlock()
	if d {
		w.WriteHeader(http.StatusNotFound)
		fmt.Fprintf(w, `{"message":"No such container: %s"}`, id)
		return
	}
	w.Header().Set("Content-Type", "application/json")
	fmt.Fprintf(w, `{"Id":%q,"Name":"/k8s_POD_x","State":{"Status":"running","Running":true}}`, id)
}

func (s *srvEnv) setup(seed int64) error {
	s.once.Do(func() {
		s.dead = map[string]bool{}
		s.env, s.err = cni.Setup(seed)
		if s.err != nil {
			return
		}
		s.dsrv = httptest.NewServer(http.HandlerFunc(s.serve))
		old, had := os.LookupEnv("DOCKER_HOST")
		os.Unsetenv("CONTAINERD_HOST")
		os.Setenv("DOCKER_HOST", "tcp://"+strings.TrimPrefix(s.dsrv.URL, "http://"))
		s.docker, s.err = docker.NewDockerInterface()
		if had {
			os.Setenv("DOCKER_HOST", old)
		}
	})
	return s.err
}

func (s *srvEnv) close() {
	if s.env != nil {
		s.env.Close()
	}
	if s.dsrv != nil {
		s.dsrv.Close()
	}
}

func portFile(cid string) ([]k8s.Port, bool) {
	b, err := os.ReadFile(filepath.Join(cni.PortDir, cid))
	if err != nil {
		return nil, false
	}
	var ps []k8s.Port
	json.Unmarshal(b, &ps)
	return ps, true
}

func execSRV(c *ctx, ops []string) *caseResult {
	res := &caseResult{ops: ops}
	emit := func(i int, drv, impl string) {
		res.drv = append(res.drv, drv)
		res.impl = append(res.impl, impl)
		res.drvOp = append(res.drvOp, i)
	}
	if err := srvG.setup(c.e.Seed); err != nil {
		emit(0, "srv-setup", "harness cannot build the recording plugin / docker client: "+err.Error())
		return res
	}
	m := &mon{}
	fakeT := nf.NewIPTables()
	h := portmapping.VerifNew(fakeT)
	keepAlive = append(keepAlive, h)
	var w *cni.World
	var client kubernetes.Interface
	var podName, podNS, cid string
	var specs []k8s.Port // as requested (host port 0 = random)
	var cur []k8s.Port   // as handed out by the last successful ADD
	random := false
	holding := false // the pod's sockets are open (successful ADD, no DEL yet)
	live := false    // the pod runs: ADD succeeded, neither DEL nor GC since
	var baseline map[string][]nf.Rule
	var palette []int
	pickPalette := func(n int) {
		if len(palette) < n {
			palette = freePorts(n)
		}
	}
	fixedSocks := func() []sock {
		var out []sock
		for _, p := range specs {
			if p.HostPort != 0 {
				out = append(out, sock{strings.ToLower(p.Protocol), int(p.HostPort)})
			}
		}
		return out
	}
	// what of the pod is left, judged against the table before its first ADD
	leftovers := func(stage string, wantSocketsFree, wantFileGone bool, rootCause bool) {
		sig := func(s string) string {
			if rootCause {
				return "cleanup-fails-when-chains-missing"
			}
			return stage + "-" + s
		}
		t := fakeT.Dump("nat")
		for _, ch := range hpChains(t) {
			if _, ok := baseline[ch]; !ok {
				m.add(stage+"-leaves-chain", fmt.Sprintf("after %s chain %s of the pod is still there", stage, ch))
			}
		}
		if !sameRules(t[chHostports], baseline[chHostports]) {
			m.add(stage+"-leaves-rule", fmt.Sprintf("after %s KUBE-HOSTPORTS is %q, before the pod it was %q", stage,
				nf.EncRules(t[chHostports]), nf.EncRules(baseline[chHostports])))
		}
		for ch, rs := range baseline {
			if !galaxyChain(ch) {
				if a, ok := t[ch]; !ok || !sameRules(a, rs) {
					m.add("foreign-chain-modified", fmt.Sprintf("%s changed foreign chain %s", stage, ch))
				}
			}
		}
		if wantFileGone {
			if _, ok := portFile(cid); ok {
				m.add(sig("leaves-port-file"), fmt.Sprintf("after %s the port file of the container still exists", stage))
			}
		}
		if wantSocketsFree {
			for _, s := range fixedSocks() {
				if isBound(s) {
					m.add(stage+"-leaves-socket", fmt.Sprintf("after %s host port %s is still bound", stage, s))
				}
			}
		}
	}
	chainsMissing := func() bool {
		// the port file lists ports but none of the pod's chains exists
		if _, ok := portFile(cid); !ok {
			return false
		}
		t := fakeT.Dump("nat")
		for _, ch := range hpChains(t) {
			if _, ok := baseline[ch]; !ok {
				return false
			}
		}
		return true
	}
	fileTok := func() string {
		if _, ok := portFile(cid); ok {
			return "yes"
		}
		return "no"
	}
	defer func() {
		if cid != "" {
			h.CloseHostports(k8s.GetPodFullName(podName, podNS))
			releaseOrphans()
			os.Remove(filepath.Join(cni.PortDir, cid))
			os.Remove(filepath.Join(cni.StateDir, cid))
		}
	}()
	for i := 1; i < len(ops); i++ {
		f := strings.Fields(ops[i])
		if len(f) == 0 {
			continue
		}
		switch f[0] {
		case "load":
			rulesText := ""
			if k := strings.Index(ops[i][5:], " "); k >= 0 {
				rulesText = ops[i][5+k+1:]
			}
			name, e1 := nf.DecTok(f[1])
			rs, e2 := nf.DecRules(rulesText)
			if e1 != nil || e2 != nil {
				emit(i, ops[i], "bad-op")
				continue
			}
			t := fakeT.Dump("nat")
			t[name] = rs
			fakeT.Load("nat", t)
			emit(i, ops[i], "ok")
		case "srv-pod":
			if len(f) != 5 {
				emit(i, ops[i], "bad-op")
				continue
			}
			podName, podNS, random = f[1], f[2], f[3] == "1"
			pickPalette(4)
			var cps []corev1.ContainerPort
			specs = nil
			for _, wd := range strings.Split(f[4], ",") {
				g := strings.Split(wd, ":")
				if len(g) != 4 {
					continue
				}
				hp := 0
				if strings.HasPrefix(g[0], "P") {
					k, _ := strconv.Atoi(g[0][1:])
					if k < len(palette) {
						hp = palette[k]
					}
				} else {
					hp, _ = strconv.Atoi(g[0])
				}
				cp, _ := strconv.Atoi(g[2])
				hip := g[3]
				if hip == "-" {
					hip = ""
				}
				cps = append(cps, corev1.ContainerPort{HostPort: int32(hp), ContainerPort: int32(cp), Protocol: corev1.Protocol(g[1]), HostIP: hip})
				specs = append(specs, k8s.Port{HostPort: int32(hp), ContainerPort: int32(cp), Protocol: g[1], HostIP: hip, PodName: podName, PodIP: "10.9.8.7"})
			}
			pod := &corev1.Pod{ObjectMeta: metav1.ObjectMeta{Name: podName, Namespace: podNS},
				Spec: corev1.PodSpec{Containers: []corev1.Container{{Name: "c", Image: "i", Ports: cps}}}}
			if random {
				pod.Annotations = map[string]string{k8s.PortMappingPortsAnnotation: ""}
			}
			var err error
			w, err = srvG.env.NewWorld(cni.Config{Nets: []cni.NetSpec{{Name: "n1", Type: "gxp1"}}, Default: []string{"n1"}}, nil)
			if err != nil {
				emit(i, "srv-world", "cannot build a galaxy instance: "+err.Error())
				res.violations = m.v
				return res
			}
			client = fake.NewSimpleClientset(pod)
			w.G.SetClient(client)
			w.G.VerifSetPortMapping(h)
			cid = w.Cid("p")
		case "srv-sync":
			var err error
			hx.Guard(20*time.Second, func() { err = h.SetupPortMappingForAllPods(nil) })
			if err == nil {
				emit(i, "sync -", "ok")
			} else {
				emit(i, "sync -", "err:"+lastFailureClass(fakeT.Log()))
			}
			baseline = fakeT.Dump("nat")
		case "dump":
			emit(i, "dump", fakeT.DumpText("nat"))
		case "srv-add", "srv-del":
			if w == nil || len(f) != 2 {
				emit(i, ops[i], "bad-op")
				continue
			}
			if baseline == nil {
				baseline = fakeT.Dump("nat")
			}
			fault := f[1]
			if k, err := strconv.Atoi(fault); err == nil {
				fakeT.FailCall(k, "iptables: injected failure of this call")
			} else {
				fakeT.ResetCalls()
			}
			fds := socketFDs()
			missing := chainsMissing()
			cmd := "ADD"
			if f[0] == "srv-del" {
				cmd = "DEL"
			}
			r := w.Request(cmd, cid, "eth0", "/proc/self/ns/net", cni.KubeletArgs(podNS, podName, cid), "")
			fakeT.ResetCalls()
			if r.Outcome != "ok" {
				m.add("panic-or-hang", cmd+": "+r.Outcome)
				emit(i, ops[i], r.Outcome)
				res.violations = m.v
				return res
			}
			ok := r.OK()
			c.r.Hit(fmt.Sprintf("srv:%s:fault=%v:ok=%v", f[0][4:], fault != "-", ok))
			outcome := "err"
			if ok {
				outcome = "ok"
				res.changes++
			}
			if cmd == "ADD" {
				ps := specs
				if ok {
					if fp, have := portFile(cid); have {
						ps = fp
						cur = fp
					}
				}
				emit(i, "srv-add "+fault+" "+encPorts(ps), outcome+" file="+fileTok())
				holding = ok
				live = ok
				if ok {
					// held: every handed-out port is bound, the record exists
					for _, p := range cur {
						if s := (sock{strings.ToLower(p.Protocol), int(p.HostPort)}); !isBound(s) {
							m.add("add-port-not-held", fmt.Sprintf("after a successful ADD host port %s is not bound", s))
						}
					}
					if fault == "-" && fileTok() == "no" {
						m.add("add-without-port-file", "a successful ADD left no port file")
					}
				} else {
					if strings.Contains(r.Body, "address already in use") && !holding {
						// a host port the pod does not hold itself is taken by the environment: never a verdict
						res.inconclusive = true
						res.violations = nil
						return res
					}
					if fault == "-" {
						m.add("retried-add-fails", "an ADD without injected fault failed: "+clip(r.Body))
					}
					// "a failed setup leaves no port open" and nothing of the pod in the table
					leftovers("failed-add", true, true, fileTok() == "yes" && chainsMissing())
					if n := socketFDs(); n > fds {
						m.add("failed-add-leaves-socket", fmt.Sprintf("a failed ADD left %d sockets open (before: %d)", n, fds))
					}
				}
			} else {
				emit(i, "srv-del "+fault, outcome+" file="+fileTok())
				holding = false // cleanupPortMapping closes the sockets first, whatever happens afterwards
				live = false
				if ok {
					leftovers("del", true, true, false)
				} else if fault == "-" {
					if missing {
						m.add("cleanup-fails-when-chains-missing", "DEL fails (and keeps failing) because the port file lists ports whose "+
							"chains do not exist: `iptables -C … -j KUBE-HP-x` exits with status 2: "+clip(r.Body))
					} else {
						m.add("del-fails", "a DEL without injected fault failed: "+clip(r.Body))
					}
				}
			}
		case "srv-gc":
			if w == nil {
				emit(i, ops[i], "bad-op")
				continue
			}
			srvG.mu.Lock()
			srvG.dead[cid] = true
			srvG.mu.Unlock()
			fakeT.ResetCalls()
			g := gc.VerifNewFlannelGC(client, srvG.docker, nil, []string{cni.PortDir}, w.G.VerifCleanPort)
			var err error
			out := hx.Guard(30*time.Second, func() { err = g.VerifCleanupGCDirsOnce() })
			srvG.mu.Lock()
			delete(srvG.dead, cid)
			srvG.mu.Unlock()
			if out != "ok" || err != nil {
				m.add("panic-or-hang", fmt.Sprintf("gc pass: %s %v", out, err))
			}
			emit(i, "srv-gc", "ok file="+fileTok())
			c.r.Hit("srv:gc")
			live = false
			leftovers("gc", false, true, false)
		case "srv-restart":
			if w == nil {
				emit(i, ops[i], "bad-op")
				continue
			}
			if baseline == nil {
				baseline = fakeT.Dump("nat")
			}
			// the old process is gone: its sockets with it
			h.CloseHostports(k8s.GetPodFullName(podName, podNS))
			releaseOrphans()
			// the apiserver knows the pod's ip while it runs
			if pod, err := client.CoreV1().Pods(podNS).Get(context.TODO(), podName, metav1.GetOptions{}); err == nil {
				pod.Status.PodIP = ""
				if live {
					pod.Status.PodIP = "10.9.8.7"
				}
				client.CoreV1().Pods(podNS).UpdateStatus(context.TODO(), pod, metav1.UpdateOptions{})
				client.CoreV1().Pods(podNS).Update(context.TODO(), pod, metav1.UpdateOptions{})
			}
			before := fakeT.Dump("nat")
			h = portmapping.VerifNew(fakeT)
			keepAlive = append(keepAlive, h)
			w2, err := srvG.env.NewWorld(cni.Config{Nets: []cni.NetSpec{{Name: "n1", Type: "gxp1"}}, Default: []string{"n1"}}, nil)
			if err != nil {
				emit(i, "srv-world", "cannot build a galaxy instance: "+err.Error())
				res.violations = m.v
				return res
			}
			w = w2
			w.G.SetClient(client)
			w.G.VerifSetPortMapping(h)
			fakeT.ResetCalls()
			var serr error
			out := hx.Guard(30*time.Second, func() { serr = w.G.VerifStartPortMapping() })
			if out != "ok" {
				m.add("panic-or-hang", "start-up sync: "+out)
				emit(i, ops[i], out)
				res.violations = m.v
				return res
			}
			if serr == nil {
				// setupIPtables leaves a goroutine behind which runs EnsureBasicRule at once (and every minute): let its
				// first round finish so that it cannot interleave with the next operation
				for k := 0; k < 400 && fakeT.Calls() < 8; k++ {
					time.Sleep(5 * time.Millisecond)
				}
			}
			fakeT.ResetCalls()
			ports := "-"
			if live {
				ports = encPorts(cur)
				holding = true
			}
			ann := "0"
			if random {
				ann = "1"
			}
			outcome := "ok"
			if serr != nil {
				outcome = "err"
			}
			emit(i, fmt.Sprintf("srv-restart %s %s %s %s", nf.EncTok(podName), nf.EncTok(podNS), ann, ports), outcome)
			c.r.Hit("srv:restart:live=" + strconv.FormatBool(live))
			after := fakeT.Dump("nat")
			if serr != nil {
				if syncBlocked(before) {
					// a foreign chain refers to a stale KUBE-HP chain: the real -X refuses, outside sync_all_exact's hypothesis
					c.r.Hit("srv:restart:blocked-by-foreign-ref")
				} else {
					m.add("restart-sync-fails", "the start-up port-mapping sync failed: "+serr.Error())
				}
			} else if live {
				// after the restart the table is what the per-pod setup of the live pod gave: same chains (names!), same
				// rules; the later DEL works from the port file the ADD wrote
				for _, ch := range hpChains(before) {
					if a, ok := after[ch]; !ok {
						m.add("restart-renames-chain", fmt.Sprintf("the pod's chain %s is gone after the restart (chains now: %v)", ch, hpChains(after)))
					} else if !sameRules(a, before[ch]) {
						m.add("restart-changes-chain", fmt.Sprintf("the restart changed chain %s of the running pod", ch))
					}
				}
				for _, ch := range hpChains(after) {
					if _, ok := before[ch]; !ok {
						m.add("restart-renames-chain", fmt.Sprintf("the restart created chain %s which the per-pod setup never made", ch))
					}
				}
				if !sameRules(after[chHostports], before[chHostports]) {
					m.add("restart-changes-rule", fmt.Sprintf("KUBE-HOSTPORTS after the restart %q, before %q",
						nf.EncRules(after[chHostports]), nf.EncRules(before[chHostports])))
				}
				for _, p := range cur {
					if sk := (sock{strings.ToLower(p.Protocol), int(p.HostPort)}); !isBound(sk) {
						m.add("restart-port-not-held", fmt.Sprintf("after the restart host port %s of the running pod is not bound", sk))
					}
				}
			} else {
				leftovers("restart", true, false, false)
			}
		default:
			emit(i, ops[i], "bad-op")
		}
	}
	res.violations = m.v
	return res
}

func srvPodSpec(n int, hostIP bool) string {
	protos := []string{"TCP", "UDP", "tcp"}
	var xs []string
	for k := 0; k < n; k++ {
		hip := "-"
		if hostIP && k == 0 {
			hip = "192.168.1.10"
		}
		xs = append(xs, fmt.Sprintf("P%d:%s:%d:%s", k, protos[k%3], 8000+k, hip))
	}
	return strings.Join(xs, ",")
}

// genSRV enumerates, for pods with 1..3 host ports, EVERY iptables call index of the setup (restore, each
// EnsureRule) and of the cleanup (each EnsureChain, each DeleteRule, restore) as fault position; i selects the scenario.
func genSRV(c *ctx, i int) []string {
	rng := c.e.Rng
	n := 1 + (i/6)%3
	ops := []string{"case srv"}
	if i%2 == 0 {
		ops = append(ops, loadLines(map[string][]nf.Rule{"PREROUTING": nil, "INPUT": nil, "OUTPUT": nil, "POSTROUTING": nil})...)
	} else {
		ops = append(ops, loadLines(genPrior(rng, false))...)
	}
	if i%11 == 10 {
		// random port mapping (annotation present, host port 0): no fault, the handed-out ports come from the port file
		ops = append(ops, fmt.Sprintf("srv-pod rnd-%d ns%d 1 0:TCP:80:-,0:UDP:53:-,P0:TCP:8080:-", i%4, i%2), "srv-sync", "dump",
			"srv-add -", "dump", "srv-restart", "dump", "srv-del -", "dump", "srv-add -", "dump", "srv-gc", "dump")
		return ops
	}
	ops = append(ops, fmt.Sprintf("srv-pod web-%d ns%d 0 %s", i%4, i%2, srvPodSpec(n, i%5 == 0)), "srv-sync", "dump")
	k := (i / 18) % (n + 2) // setup: 0..n = fault positions, n+1 = beyond the last call
	scen := i % 6
	// cleanup: EnsureChain x n, DeleteRule x n, restore: 0..2n = fault positions, 2n+1 = beyond the last call
	kd := (i / 18) % (2*n + 2)
	if k > n && (scen == 2 || scen == 3) {
		scen = 0 // no fault happens: a second ADD without the kubelet's DEL in between is not a real history
	}
	switch scen {
	case 0: // failed ADD at call k, kubelet's DEL, a retried ADD, tear-down
		ops = append(ops, fmt.Sprintf("srv-add %d", k), "dump", "srv-del -", "dump", "srv-add -", "dump", "srv-del -", "dump")
	case 1: // DEL failing at call k, retried DEL
		ops = append(ops, "srv-add -", "dump", fmt.Sprintf("srv-del %d", kd), "dump", "srv-del -", "dump", "srv-del -", "dump")
	case 2: // failed ADD, the GC collects before the kubelet's DEL arrives
		ops = append(ops, fmt.Sprintf("srv-add %d", k), "dump", "srv-gc", "dump", "srv-del -", "dump", "srv-add -", "dump",
			"srv-gc", "dump", "srv-del -", "dump")
	case 4: // the daemon restarts while the pod runs; the DEL comes afterwards
		ops = append(ops, "srv-add -", "dump", "srv-restart", "dump", "srv-del -", "dump", "srv-restart", "dump")
	case 5: // restart after a failed ADD, then the pod comes up, two restarts, the GC collects
		ops = append(ops, fmt.Sprintf("srv-add %d", k), "dump", "srv-restart", "dump", "srv-del -", "srv-add -", "dump",
			"srv-restart", "dump", "srv-restart", "dump", "srv-gc", "dump", "srv-del -", "dump")
	default: // failed ADD immediately retried, then a failing DEL and the GC
		ops = append(ops, fmt.Sprintf("srv-add %d", k), "dump", "srv-add -", "dump", fmt.Sprintf("srv-del %d", kd), "dump",
			"srv-gc", "dump", "srv-del -", "dump")
	}
	return ops
}
