// c01: correspondence of the real galaxy-ipam scheduler plugin with the Lean model M4-core (gxdrv_plugin) and the
// monitor of property C01 (a floating IP is never held by two live pods; one owner per IP; store = memory).
package main

import (
	"gxverif/hx"
	"gxverif/plugin"
)

func main() {
	hx.Main("C01", func(e *hx.Env) *hx.Report {
		return plugin.RunProperty(e, "C01", plugin.MonitorC01Tracking)
	})
}
