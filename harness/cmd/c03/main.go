// c03: property C03 "IPs are released exactly when the release policy says so" against the REAL galaxy-ipam scheduler
// plugin: (1) the decision table - every key kind x policy x (app exists, replicas, index, #addresses) x path - executed
// on the real code and compared with the documented action; (2) histories of create/bind/finish/delete/scale/delete-app
// over all workload kinds x 3 policies with delayed and lost events and resync passes, compared step by step with
// the Lean model (gxdrv_plugin) and judged by the monitor (reference evaluator of the documented policy at every
// release and at every quiescent point, stored policy never changed); (3) the forced two-goroutine schedule of the
// deployment scale-down decision.
package main

import (
	"math/rand"
	"time"

	"gxverif/hx"
	"gxverif/plugin"
	c3 "gxverif/pluginc03"
)

func main() {
	hx.Main("C03", func(e *hx.Env) *hx.Report {
		r := hx.NewReport("C03", e.Tier, e.Seed, c3.Rule)
		mon := plugin.Monitors(c3.MonitorDefaults, c3.MonitorC03)
		if e.Replay != "" {
			c3.RunFile(e, r, e.Replay, mon, false)
			return r
		}
		t0 := time.Now()
		c3.RunCorpus(e, r, "C03", mon)
		c3.Lap("C03", &t0, "corpus")
		// (1) decision table
		rows := c3.AllRows() // the whole table in both tiers (432 rows, about a second)
		c3.RunTable(e, r, "C03", rows, mon)
		r.Extra["decision_table_rows"] = len(rows)
		c3.Lap("C03", &t0, "decision table")
		// (3) forced schedule
		c3.RunSchedules(e, r, "C03", e.N(4, 40))
		c3.RunCRSchedules(e, r, "C03", e.N(3, 20))
		c3.Lap("C03", &t0, "forced schedules")
		// (2) histories: the C03 generator, then the general plugin generator under the C03 monitor
		p := c3.ProfileC03()
		b := c3.RunScripts(e, "C03", e.N(1500, 14000), func(rng *rand.Rand) (plugin.Conf, plugin.Script, int) {
			conf := c3.GenConf3(rng, p)
			return conf, c3.NewGen3(rng, conf, p).Next, p.Len
		}, mon, c3.MonHits)
		b.Fill(r)
		c3.Lap("C03", &t0, "profile c03-mix")
		p2 := c3.ProfileC03()
		p2.Name, p2.Len, p2.SettlePct, p2.DropPct, p2.ScaleW, p2.FaultPct = "c03-lost-events", 80, 14, 70, 3.5, 3
		b2 := c3.RunScripts(e, "C03", e.N(900, 8000), func(rng *rand.Rand) (plugin.Conf, plugin.Script, int) {
			conf := c3.GenConf3(rng, p2)
			return conf, c3.NewGen3(rng, conf, p2).Next, p2.Len
		}, mon, c3.MonHits)
		b2.Fill(r)
		c3.Lap("C03", &t0, "profile c03-lost-events")
		b3 := plugin.RunCorrespondence(e, "C03", e.N(600, 8000), plugin.DefaultParams(), mon)
		b3.Fill(r)
		c3.Lap("C03", &t0, "profile plugin-default")
		r.Extra["profiles"] = []string{"c03-mix", "c03-lost-events", "plugin-default"}
		return r
	})
}
