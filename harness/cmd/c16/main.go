// Harness of property C16 (installed rules enforce Kubernetes NetworkPolicy semantics).
//
// Generated clusters -> REAL policy manager (hook constructor over fakes, harness-controlled listers) -> dump of
// the installed ipsets and filter rules ->
//
//	(i)  correspondence: dump == gxdrv_policy `compile` of the same cluster (canonical form, Appendix B);
//	(ii) monitor: the Lean driver walks the REAL dump for all flows among pod addresses + external addresses x
//	     {tcp,udp} x mentioned ports +-1; the verdict is compared with the API semantics computed in Lean
//	     (k8sAllowsOn) and by the independent Go reference evaluator; every mismatch is classified by signature.
package main

import (
	"fmt"
	"os"
	"path/filepath"
	"sort"
	"strings"

	"gxverif/hx"
	"gxverif/policy"
)

const prop = "C16"

func root() string {
	if r := os.Getenv("VERIF_ROOT"); r != "" {
		return r
	}
	return "/verif"
}

// runFile runs one replay / corpus file: cluster + policy lines, then flow lines (none = all generated flows).
// `# expect=<signature>` header lines name signatures the file must reproduce.
func runFile(e *hx.Env, rep *hx.Report, path, name string) (*policy.CaseResult, []string, error) {
	raw, err := os.ReadFile(path)
	if err != nil {
		return nil, nil, err
	}
	var expect []string
	if strings.Contains(string(raw), "\nworld ") {
		// a history (live manager, events judged one by one)
		var hist []string
		for _, l := range strings.Split(string(raw), "\n") {
			l = strings.TrimSpace(l)
			if strings.HasPrefix(l, "# expect=") {
				expect = append(expect, strings.TrimPrefix(l, "# expect="))
			}
			if l != "" && !strings.HasPrefix(l, "#") {
				hist = append(hist, l)
			}
		}
		bt := policy.NewBatch(e, rep, prop)
		rs, err := policy.RunC16History(e, rep, bt, name, hist)
		bt.Flush()
		if err != nil || len(rs) == 0 {
			return nil, nil, fmt.Errorf("history %s: %v", path, err)
		}
		// fold the per-event / final results into one
		tot := rs[len(rs)-1]
		for _, r := range rs[:len(rs)-1] {
			for k, v := range r.Sigs {
				tot.Sigs[k] += v
			}
			tot.Accepted += r.Accepted
			tot.Dropped += r.Dropped
			tot.Mismatch += r.Mismatch
			tot.Selected += r.Selected
		}
		return tot, expect, nil
	}
	var c policy.Cluster
	var ps []policy.NetPol
	var flows []policy.Flow
	for _, l := range strings.Split(string(raw), "\n") {
		l = strings.TrimSpace(l)
		if strings.HasPrefix(l, "# expect=") {
			expect = append(expect, strings.TrimPrefix(l, "# expect="))
		}
		if l == "" || strings.HasPrefix(l, "#") {
			continue
		}
		f, err := policy.ParseLine(l, &c, &ps)
		if err != nil {
			return nil, nil, err
		}
		if f != nil {
			flows = append(flows, *f)
		}
	}
	if len(flows) == 0 {
		flows = policy.Flows(&c, ps)
	}
	return policy.RunCase(e, rep, prop, name, &c, ps, flows), expect, nil
}

func account(rep *hx.Report, res *policy.CaseResult, kind string) {
	nontrivial := res.Selected > 0 && res.Accepted > 0 && res.Dropped > 0
	rep.Case(strings.Join(res.Lines, "\n"), nontrivial)
	rep.Hit("case:" + kind)
	if nontrivial {
		rep.Hit("case-nontrivial")
	}
	rep.Histogram["flows"] += len(res.Flows)
	rep.Histogram["flows-accepted"] += res.Accepted
	rep.Histogram["flows-dropped"] += res.Dropped
	rep.Histogram["flows-in-fragment"] += res.InFrag
	rep.Histogram["flows-mismatching-api"] += res.Mismatch
	for i := range res.Flows {
		if i < len(res.Frag) && res.Frag[i] && !res.Real[i] {
			rep.Histogram["flows-in-fragment-dropped"]++
		}
	}
	for _, l := range res.Lines {
		w := strings.Fields(l)
		if w[0] != "pol" {
			continue
		}
		if res.InFrag > 0 { // which widened parts of the fragment the in-fragment flows of this case rest on
			rules := w[6] + ";" + w[7]
			if strings.Contains(rules, "pod:") {
				rep.Hit("in-fragment-case:podSelector-peer")
			}
			if strings.Contains(rules, "both:") {
				rep.Hit("in-fragment-case:both-selectors-peer")
			}
			for _, part := range strings.Split(rules, ";") {
				if strings.Count(part, "ip:") > 1 && strings.Contains(part, "!") {
					rep.Hit("in-fragment-case:several-ipBlocks-with-except")
				}
				if at := strings.LastIndex(part, "@"); at > 0 && part[:at] != "-" &&
					(strings.Count(part[at:], "tcp/") > 15 || strings.Count(part[at:], "udp/") > 15) {
					rep.Hit("in-fragment-case:more-than-15-ports")
				}
			}
		}
		rep.Hit("policy-types:" + w[5])
		for _, part := range strings.Split(w[6]+";"+w[7], ";") {
			if part == "-" {
				continue
			}
			at := strings.LastIndexByte(part, '@')
			if part[:at] == "-" {
				rep.Hit("rule:no-peers")
			}
			for _, pe := range strings.Split(part[:at], ",") {
				if i := strings.IndexByte(pe, ':'); i > 0 {
					rep.Hit("peer:" + pe[:i])
					if pe[:i] == "ip" && strings.Contains(pe, "!") {
						rep.Hit("peer:ip-with-except")
					}
				}
			}
			if strings.Count(part[at+1:], "tcp/") > 15 || strings.Count(part[at+1:], "udp/") > 15 {
				rep.Hit("rule:more-than-15-ports")
			}
			if part[at+1:] == "-" {
				rep.Hit("rule:no-ports")
			} else if strings.Contains(part[at+1:], "/-") {
				rep.Hit("rule:portless-entry")
			}
		}
	}
}

func run(e *hx.Env) *hx.Report {
	rep := hx.NewReport(prop, e.Tier, e.Seed,
		"a case (cluster + policy set, full sync of the real manager, all flows walked) is nontrivial iff some pod of "+
			"the node with an address is selected by a policy and the installed rules accept at least one flow and drop at least one")
	if e.Replay != "" {
		res, _, err := runFile(e, rep, e.Replay, "replay")
		if err != nil {
			rep.Disagree = append(rep.Disagree, hx.Disagreement{Where: "replay-file", Model: err.Error(), Replay: e.Replay})
			return rep
		}
		account(rep, res, "replay")
		rep.Extra["replay_verdicts"] = fmt.Sprintf("accepted=%d dropped=%d mismatching=%d signatures=%v",
			res.Accepted, res.Dropped, res.Mismatch, res.Sigs)
		return rep
	}
	// ---- corpus first
	files, _ := filepath.Glob(filepath.Join(root(), "corpus", prop, "*.ops"))
	sort.Strings(files)
	for _, f := range files {
		base := strings.TrimSuffix(filepath.Base(f), ".ops")
		res, expect, err := runFile(e, rep, f, "corpus-"+base)
		if err != nil {
			rep.Disagree = append(rep.Disagree, hx.Disagreement{Where: "corpus-file", Model: err.Error(), Replay: f})
			continue
		}
		account(rep, res, "corpus")
		for _, sig := range expect {
			if res.Sigs[sig] > 0 {
				rep.Hit("known-finding-reproduced:" + sig)
			} else {
				rep.Hit("known-finding-NOT-reproduced:" + sig)
			}
		}
		if len(rep.Samples) < 2 {
			rep.Sample(map[string]interface{}{"corpus": base, "flows": len(res.Flows), "signatures": res.Sigs})
		}
	}
	policy.ManyPorts = true
	// ---- generated cases
	n := e.N(150, 20000)
	bt := policy.NewBatch(e, rep, prop)
	var results []*policy.CaseResult
	var kinds []string
	for i := 0; i < n; i++ {
		tame := i%3 == 0
		gen := policy.GenCase
		if i%8 == 5 || i%24 == 0 {
			// rules sharing their first selector peer (3..15 pods) followed by different further peers
			gen = policy.GenCrowdCase
			rep.Hit("generated:rules-sharing-first-peer")
		}
		c, ps := gen(e.Rng, tame)
		for policy.KeyClash(ps) {
			// a rule listing one network both as cidr and as except: the kernel set holds ONE element per key and flips
			// on every sync (report; theorem ipset_entries_counter_key_clash) — outside the compared inputs
			rep.Hit("generated:key-clash-skipped")
			c, ps = gen(e.Rng, tame)
		}
		if i%6 == 4 {
			// pod / namespace names whose name_namespace strings contain one another
			wd := &policy.WorldDef{C: *c, PS: ps}
			policy.SubstringNames(e.Rng, wd)
			c, ps = &wd.C, wd.PS
			rep.Hit("generated:substring-related-names")
		}
		flows := policy.Flows(c, ps)
		results = append(results, bt.Add(fmt.Sprintf("s%d-c%d", e.Seed, i), c, ps, flows))
		if tame {
			kinds = append(kinds, "tame")
		} else {
			kinds = append(kinds, "wild")
		}
	}
	// ---- UPDATE transitions on a live manager over the strict fakes; final state and verdicts vs from-scratch
	nu := e.N(60, 3000)
	for i := 0; i < nu; i++ {
		c, ps := policy.GenCase(e.Rng, i%3 == 0)
		if len(ps) == 0 {
			continue
		}
		hist := policy.GenUpdateHistory(e.Rng, c, ps)
		if hist == nil {
			continue
		}
		rs, err := policy.RunC16History(e, rep, bt, fmt.Sprintf("s%d-u%d", e.Seed, i), hist)
		if err != nil {
			rep.Disagree = append(rep.Disagree, hx.Disagreement{Where: "update-history", Model: err.Error()})
		}
		for _, res := range rs {
			results = append(results, res)
			kinds = append(kinds, "update")
		}
	}
	bt.Flush()
	for i, res := range results {
		account(rep, res, kinds[i])
		if i < 3 {
			rep.Sample(map[string]interface{}{"case": res.Lines, "flows": len(res.Flows), "accepted": res.Accepted,
				"dropped": res.Dropped, "in_fragment": res.InFrag, "mismatching_api": res.Mismatch})
		}
	}
	return rep
}

func main() { hx.Main(prop, run) }
