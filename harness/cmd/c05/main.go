// c05: persisted FloatingIPs equal in-memory state; restart and crash safe (IPAM level, model M3).
//
// For every operation of every generated history: the operation is run fault free and then, from the SAME prefix
// (the history is replayed), with a store fault at every call index 0..n+1 (n = number of store calls the operation
// makes), with a crash before and after every call; after each run the monitor compares memory (ByPrefix(""))
// with the FloatingIP list and with a freshly constructed crdIpam configured from a copy of the same store, and every
// step is compared with gxdrv_ipam.
package main

import (
	"fmt"
	"strings"

	"gxverif/hx"
	gi "gxverif/ipam"
	"gxverif/plugin"
)

const prop = "C05"

type runner struct{ *gi.Runner }

// monitor runs the C05 oracle after a step.
func (rn *runner) monitor(s *gi.Session, st *gi.Step) {
	fs := s.W.CheckAgree(st.Op.Kind, true)
	fs = append(fs, gi.StoreObjectsTouchedByFailure(st, s.W.StoreMap())...)
	for _, f := range fs {
		if s.Tainted[f.IP] == "env" {
			rn.R.Hit("skipped:admin-recreated-reservation-before-its-delete-event (EnvOK)")
			continue
		}
		rn.Violation(f.Sig, fmt.Sprintf("after %s (%s, plan %s): %s", st.Op.Kind, st.Class, st.Op.Plan, f.What), s.Src)
	}
}

func (rn *runner) taintOnly(s *gi.Session, st *gi.Step) {}

// history: generate online (base run), then enumerate faults / crashes for every op from the same prefix.
func (rn *runner) history(length int) {
	e := rn.E
	base := gi.NewSession()
	var ops []gi.Op
	okChanges := 0
	for i := 0; i < length; i++ {
		op := gi.GenOp(e.Rng, base.W.View(), 0)
		if i == 0 {
			op = gi.Op{Kind: "conf", Conf: gi.GenConf(e.Rng), Plan: gi.NoPlan()}
		}
		ops = append(ops, op)
		st := base.Do(op)
		rn.Note(&st)
		rn.monitor(base, &st)
		if st.Class == "ok" && st.Op.Kind != "deliver" {
			okChanges++
		}
		if e.Rng.Intn(3) == 0 {
			base.Ask(gi.GenQuery(e.Rng, base.W.View()))
		}
	}
	rn.Keep(base)
	rn.R.Case(strings.Join(base.Src, "\n"), okChanges >= 3)
	if len(rn.R.Samples) < 3 {
		rn.R.Sample(map[string]interface{}{"ops": gi.Tail(base.Src, 4)})
	}
	for i, op := range ops {
		ncalls := len(base.Steps[i].Calls)
		if ncalls == 0 || op.Kind == "restart" {
			continue
		}
		// every fault index, every crash point; index n and n+1 included (they must not fire)
		for k := 0; k <= ncalls+1; k++ {
			for mode := 0; mode < 3; mode++ {
				pl := gi.NoPlan()
				switch mode {
				case 0:
					pl = gi.FailAt(k)
				case 1:
					pl.CrashBefore = k
				case 2:
					pl.CrashAfter = k
				}
				if mode > 0 && k > ncalls {
					continue
				}
				s := gi.Prefix(ops, i, rn.taintOnly)
				op2 := op
				op2.Plan = pl
				st := s.Do(op2)
				rn.Note(&st)
				rn.R.Hit(fmt.Sprintf("enum:%s:%s", op.Kind, []string{"fail", "crash-before", "crash-after"}[mode]))
				rn.monitor(s, &st)
				// one more fault-free op after the fault: the state must still be usable
				if i+1 < len(ops) {
					nx := ops[i+1]
					nx.Plan = gi.NoPlan()
					st2 := s.Do(nx)
					rn.monitor(s, &st2)
				}
				rn.Keep(s)
				rn.R.Evaluations++
			}
		}
	}
}

// retryHistory: faults inside one long history (every op retried with fault index 0,1,2… until it passes), so that
// partially applied multi-record operations are followed by further operations.
func (rn *runner) retryHistory(length int) {
	e := rn.E
	s := gi.NewSession()
	okChanges := 0
	for i := 0; i < length; i++ {
		op := gi.GenOp(e.Rng, s.W.View(), 0)
		if i == 0 {
			op = gi.Op{Kind: "conf", Conf: gi.GenConf(e.Rng), Plan: gi.NoPlan()}
		}
		for k := 0; k < 12; k++ {
			op.Plan = gi.FailAt(k)
			st := s.Do(op)
			rn.Note(&st)
			rn.monitor(s, &st)
			if !st.Fired {
				if st.Class == "ok" {
					okChanges++
				}
				break
			}
		}
	}
	rn.Keep(s)
	rn.R.Case(strings.Join(s.Src, "\n"), okChanges >= 3)
}

// podCrashSweep: the pod-level half of the crash clause on the REAL scheduler plugin (harness/plugin): ops of generated
// histories are re-executed from the same prefix with the process dying before external call 1, 2, 3, …; the new process
// restarts on the store and runs one resync pass; monitors (one owner per address and store = memory; every live bound
// pod keeps its addresses; reservations) run after the restart and after the resync, and every experiment is compared
// with the plugin model's `crashAt` (gxdrv_plugin).  Violations are reported as crash:<monitor>:<move>@<k>.
func podCrashSweep(e *hx.Env, r *hx.Report) {
	cp := plugin.DefaultParams()
	cp.Len = 30
	mon := plugin.WithReserved(plugin.Monitors(plugin.MonitorC01, plugin.MonitorC04))
	b := plugin.RunCrashSweep(e, prop, e.N(120, 1500), 8, cp, mon)
	for i := range b.Violations {
		v := &b.Violations[i]
		move, k := "?", "?"
		for _, l := range v.Ops {
			f := strings.Fields(l)
			if len(f) >= 4 && f[0] == "crash" {
				k, move = f[1], f[3]
			}
		}
		v.Signature = fmt.Sprintf("crash:%s:%s@%s", strings.TrimPrefix(v.Signature, "after-crash:"), move, k)
	}
	for k, v := range b.Stats {
		r.Histogram["pod-"+k] += v
	}
	b.Stats = map[string]int{}
	b.Fill(r)
	r.Extra["pod_level_crash_experiments"] = r.Histogram["pod-crash-experiments"]
}

// largeCase: ~600 allocations in one /22 pool, then reload and restart: memory = store = what a freshly started process
// reconstructs (a LIST limited to one page loses the rest).
func (rn *runner) largeCase() {
	s, conf := gi.LargeCase(600)
	for _, op := range []gi.Op{{Kind: "conf", Conf: conf, Plan: gi.NoPlan()}, {Kind: "restart", Plan: gi.NoPlan()}} {
		st := s.ExecOnly(op)
		rn.Note(&st)
		rn.monitor(s, &st)
	}
	rn.R.Hit("large-case:600-allocations-reload-restart")
	rn.R.Evaluations++
}

func run(e *hx.Env) *hx.Report {
	rn := &runner{gi.NewRunner(e, prop,
		"a history is nontrivial when at least 3 of its moves succeeded and changed state; every op of every enumerated history is "+
			"re-run from the same prefix with a fault at every store-call index and a crash before/after every call")}
	if e.Replay != "" {
		rn.ReplayFile(e.Replay, rn.monitor)
		rn.Flush()
		return rn.R
	}
	for _, f := range gi.CorpusFiles(prop) {
		rn.ReplayFile(f, rn.monitor)
	}
	nEnum, nRetry, length := e.N(45, 300), e.N(60, 600), e.N(14, 20)
	for i := 0; i < nEnum; i++ {
		rn.history(length)
	}
	for i := 0; i < nRetry; i++ {
		rn.retryHistory(length + 10)
	}
	rn.Flush()
	rn.largeCase()
	podCrashSweep(e, rn.R)
	rn.R.Extra["fault_enumeration"] = "every store-call index 0..n+1 (fail), 0..n (crash before / after) of every op of every enumerated history, from the same prefix"
	return rn.R
}

func main() { hx.Main(prop, run) }
