// c20: correspondence + monitor harness of property C20 (floating-IP configuration and IP ranges decode,
// validate and round-trip).  Real code: json.Unmarshal into floatingip.FloatingIPPool / []*FloatingIPPool,
// MarshalJSON, nets.ParseIPRange, IPRange.String/Size/Contains, SparseSubnet.Size, FloatingIPPool.Contains,
// IPToInt/IntToIP, walkIPRanges (hook), ensureIPAMConf (hook).  Model: gxdrv_nets (Galaxy.Model.Nets / Pool).
//
// Case language (corpus and replay files, one case per line):
//
//	conft <json>        conf <hex>       one configuration document ([]*FloatingIPPool)
//	poolt <json>        pool <hex>       one pool document (*FloatingIPPool)
//	ipt <text>          ip <hex>         net.ParseIP / IPToInt
//	ranget <text>       range <hex>      nets.ParseIPRange, IPRange.String, Size
//	cidrt <text>        cidr <hex>       ips.ParseCIDR / nets.IPNet.UnmarshalJSON
//	rangeobj <first> <last> <ip>         IPRange{first,last}: String, Size, Contains(ip); IPToInt/IntToIP; Minus; Less
//	ranges <f-l;f-l…|-> <ip> <stop|->    SparseSubnet.Size, FloatingIPPool.Contains(ip), walkIPRanges with a stop address
//	reloadt <json> ||| <json> …          reload <hex>|<hex>…   a sequence of ensureIPAMConf calls on a fresh plugin
package main

import (
	"encoding/hex"
	"encoding/json"
	"fmt"
	"net"
	"os"
	"path/filepath"
	"sort"
	"strconv"
	"strings"

	"gxverif/hx"
	netsh "gxverif/nets"
	"tkestack.io/galaxy/pkg/ipam/floatingip"
	"tkestack.io/galaxy/pkg/utils/ips"
	"tkestack.io/galaxy/pkg/utils/nets"
)

const rule = "a case is nontrivial if it is a syntactically valid configuration / pool document with at least one pool " +
	"object (the decoder's own logic is reached), a reload sequence, an address / range / CIDR text containing a digit " +
	"and a dot, or a range-object case; distinct = distinct case text"

// result of evaluating one case on the real code
type caseResult struct {
	op         string
	model      []string // lines for gxdrv_nets
	impl       []string // expected answer per model line; "" = not compared (outside the model's domain)
	canonModel []func(string) string
	vs         []netsh.V
	nontrivial bool
}

type runner struct {
	e         *hx.Env
	r         *hx.Report
	pending   []*caseResult
	lines     int
	nViol     map[string]int
	nDis      int
	reloadOff bool
}

func plain(s string) bool {
	if s == "" || s != strings.TrimSpace(s) || strings.Contains(s, " ||| ") {
		return false
	}
	for i := 0; i < len(s); i++ {
		if s[i] < 0x20 || s[i] > 0x7e {
			return false
		}
	}
	return true
}

func textOp(name, text string) string {
	if plain(text) {
		return name + "t " + text
	}
	return name + " " + hex.EncodeToString([]byte(text))
}

func reloadOp(texts []string) string {
	ok := true
	for _, t := range texts {
		if !plain(t) {
			ok = false
		}
	}
	if ok {
		return "reloadt " + strings.Join(texts, " ||| ")
	}
	var hs []string
	for _, t := range texts {
		hs = append(hs, hex.EncodeToString([]byte(t)))
	}
	return "reload " + strings.Join(hs, "|")
}

func hexs(s string) string { return hex.EncodeToString([]byte(s)) }

func firstWord(s string) string {
	if i := strings.IndexByte(s, ' '); i >= 0 {
		return s[:i]
	}
	return s
}

// canonical form of a model answer "ok <pools>" / "err <class>" for conf lines
func canonConfAnswer(s string) string {
	s = strings.TrimRight(s, " ")
	if strings.HasPrefix(s, "err") {
		return "err"
	}
	if s == "ok" {
		return "ok "
	}
	if strings.HasPrefix(s, "ok ") {
		return "ok " + netsh.CanonPoolStrings(strings.Split(s[3:], "|"))
	}
	return s
}

func canonReloadAnswer(s string) string {
	i := strings.Index(s, " pools=")
	if i < 0 {
		return s
	}
	ps := s[i+7:]
	if ps == "" {
		return s[:i] + " pools="
	}
	return s[:i] + " pools=" + netsh.CanonPoolStrings(strings.Split(ps, "|"))
}

func canonErrClass(s string) string {
	if strings.HasPrefix(s, "err") {
		return "err"
	}
	return s
}

// ---------------------------------------------------------------- cases

func (rn *runner) evalConf(text string) *caseResult {
	c := &caseResult{op: textOp("conf", text)}
	l := netsh.LowerConf([]byte(text))
	pools, outcome := netsh.DecodeConf(text)
	c.vs = netsh.MonitorConf(pools, outcome)
	rn.r.Hit("conf:" + firstWord(outcome))
	c.nontrivial = !l.Syntax && l.Pools > 0
	if outcome != "ok" && outcome != "err" {
		return c
	}
	switch {
	case l.Syntax:
		rn.r.Hit("conf:json-syntax-error")
		if outcome == "ok" {
			c.vs = append(c.vs, netsh.V{Sig: "accepted:invalid-json", What: "a text which is not valid JSON was accepted"})
		}
		return c
	case l.Dup:
		rn.r.Hit("conf:outside-lowering(duplicate-keys)")
		return c
	case l.Colon && outcome == "ok":
		rn.r.Hit("conf:outside-model-domain(ipv6-literal-accepted)")
		return c
	}
	impl := "err"
	if outcome == "ok" {
		sorted := append([]*floatingip.FloatingIPPool(nil), pools...)
		sort.Sort(floatingip.FloatingIPSlice(sorted))
		var ss []string
		for _, p := range sorted {
			s, _ := netsh.CanonPool(p)
			ss = append(ss, s)
		}
		impl = "ok " + netsh.CanonPoolStrings(ss)
		rn.r.Hit(fmt.Sprintf("accepted:pools=%d", minInt(len(pools), 6)))
		for _, p := range pools {
			rn.shapeHist(p)
		}
	}
	c.model = append(c.model, "conf "+l.Conf)
	c.impl = append(c.impl, impl)
	c.canonModel = append(c.canonModel, canonConfAnswer)
	// per accepted pool: the encoder
	if outcome == "ok" {
		var arr []json.RawMessage
		json.Unmarshal([]byte(text), &arr)
		for i, p := range pools {
			if i >= len(arr) {
				break
			}
			entry, pl := netsh.LowerPool(arr[i])
			if entry == "" || pl.Dup {
				continue
			}
			s, _ := netsh.CanonPool(p)
			data, err := p.MarshalJSON()
			if err != nil {
				continue
			}
			enc, _ := netsh.LowerPool(data)
			c.model = append(c.model, "pool "+entry)
			c.impl = append(c.impl, "ok "+s+" enc="+enc)
			c.canonModel = append(c.canonModel, canonErrClass)
		}
	}
	return c
}

func (rn *runner) shapeHist(p *floatingip.FloatingIPPool) {
	rn.r.Hit(fmt.Sprintf("pool:ranges=%d", minInt(len(p.IPRanges), 4)))
	ones, _ := p.Mask.Size()
	rn.r.Hit(fmt.Sprintf("pool:prefix=/%d", ones))
	if len(p.NodeSubnets) > 1 {
		rn.r.Hit("pool:node-subnets>1")
	}
	if p.Vlan != 0 {
		rn.r.Hit("pool:vlan")
	}
	for _, r := range p.IPRanges {
		f, _ := netsh.U32(r.First)
		l, _ := netsh.U32(r.Last)
		if f == l {
			rn.r.Hit("range:single-address")
		}
		if f&0xFF == 0 {
			rn.r.Hit("range:starts-at-x.x.x.0")
		}
		if l&0xFF == 0xFF {
			rn.r.Hit("range:ends-at-x.x.x.255")
		}
		if f>>8 == 0 {
			rn.r.Hit("range:0.0.0.x")
		}
		if l>>8 == 0xFFFFFF {
			rn.r.Hit("range:255.255.255.x")
		}
		if l == 0xFFFFFFFF {
			rn.r.Hit("range:ends-at-255.255.255.255")
		}
	}
}

func (rn *runner) evalPool(text string) *caseResult {
	c := &caseResult{op: textOp("pool", text)}
	entry, l := netsh.LowerPool([]byte(text))
	p := &floatingip.FloatingIPPool{}
	var err error
	o := hx.Guard(netsh.CallTimeout, func() { err = json.Unmarshal([]byte(text), p) })
	outcome := o
	if o == "ok" && err != nil {
		outcome = "err"
	}
	c.nontrivial = entry != ""
	rn.r.Hit("pool:" + firstWord(outcome))
	if outcome == "ok" && entry != "" {
		c.vs = netsh.MonitorConf([]*floatingip.FloatingIPPool{p}, "ok")
	} else {
		c.vs = netsh.MonitorConf(nil, outcome)
	}
	if (outcome != "ok" && outcome != "err") || l.Syntax || l.Dup || entry == "" || (l.Colon && outcome == "ok") {
		return c
	}
	impl := "err"
	if outcome == "ok" {
		s, _ := netsh.CanonPool(p)
		data, merr := p.MarshalJSON()
		if merr != nil {
			return c
		}
		enc, _ := netsh.LowerPool(data)
		impl = "ok " + s + " enc=" + enc
	}
	c.model = []string{"pool " + entry}
	c.impl = []string{impl}
	c.canonModel = []func(string) string{canonErrClass}
	return c
}

func hasDigitDot(s string) bool {
	return strings.ContainsAny(s, "0123456789") && strings.Contains(s, ".")
}

func (rn *runner) evalIP(text string) *caseResult {
	c := &caseResult{op: textOp("ip", text), nontrivial: hasDigitDot(text)}
	var ip net.IP
	if !rn.guard(c, "net.ParseIP", func() { ip = net.ParseIP(text) }) {
		return c
	}
	colon := strings.Contains(text, ":")
	u, is4 := netsh.U32(ip)
	impl := "err"
	if ip != nil && is4 {
		impl = "ok " + strconv.FormatUint(uint64(u), 10)
		if nets.IPToInt(ip) != u {
			c.vs = append(c.vs, netsh.V{Sig: "IPToInt!=big-endian", What: fmt.Sprintf("IPToInt(%s)=%d", text, nets.IPToInt(ip))})
		}
		if !nets.IntToIP(u).Equal(ip) {
			c.vs = append(c.vs, netsh.V{Sig: "IntToIP(IPToInt)!=id", What: text})
		}
		if back := net.ParseIP(ip.String()); !colon && ip.String() != text || back == nil || !back.Equal(ip) {
			c.vs = append(c.vs, netsh.V{Sig: "roundtrip:ip", What: fmt.Sprintf("%q prints as %q", text, ip.String())})
		}
	}
	if colon && ip != nil {
		rn.r.Hit("ip:outside-model-domain(ipv6-literal-accepted)")
		return c
	}
	rn.r.Hit("ip:" + firstWord(impl))
	c.model = []string{"ip x" + hexs(text)}
	c.impl = []string{impl}
	if impl != "err" {
		c.model = append(c.model, "showip "+strconv.FormatUint(uint64(u), 10))
		c.impl = append(c.impl, hexs(ip.String()))
	}
	return c
}

func (rn *runner) evalRange(text string) *caseResult {
	c := &caseResult{op: textOp("range", text), nontrivial: hasDigitDot(text)}
	var r *nets.IPRange
	if !rn.guard(c, "ParseIPRange", func() { r = nets.ParseIPRange(text) }) {
		return c
	}
	colon := strings.Contains(text, ":")
	impl := "err"
	if r != nil {
		f, ok1 := netsh.U32(r.First)
		l, ok2 := netsh.U32(r.Last)
		if ok1 && ok2 {
			if f > l {
				c.vs = append(c.vs, netsh.V{Sig: "accepted:first>last", What: fmt.Sprintf("ParseIPRange(%q) = %d-%d", text, f, l)})
			}
			impl = fmt.Sprintf("ok %d %d %d %s", f, l, r.Size(), hexs(r.String()))
			if f <= l && uint64(r.Size()) != (uint64(l)-uint64(f)+1)&0xFFFFFFFF {
				c.vs = append(c.vs, netsh.V{Sig: "size!=cardinality", What: fmt.Sprintf("%q Size()=%d", text, r.Size())})
			}
			back := nets.ParseIPRange(r.String())
			if back == nil || !back.First.Equal(r.First) || !back.Last.Equal(r.Last) {
				c.vs = append(c.vs, netsh.V{Sig: "roundtrip:range", What: fmt.Sprintf("ParseIPRange(%q) = %v", r.String(), back)})
			}
		} else {
			rn.r.Hit("range:ipv6-accepted-by-ParseIPRange")
			return c
		}
	}
	if colon && r != nil {
		rn.r.Hit("range:outside-model-domain(ipv6-literal-accepted)")
		return c
	}
	rn.r.Hit("range:" + firstWord(impl))
	c.model = []string{"range x" + hexs(text)}
	c.impl = []string{impl}
	return c
}

func (rn *runner) evalCidr(text string) *caseResult {
	c := &caseResult{op: textOp("cidr", text), nontrivial: hasDigitDot(text)}
	var n *net.IPNet
	var err, err2 error
	var n2 nets.IPNet
	if !rn.guard(c, "ParseCIDR", func() {
		n, err = ips.ParseCIDR(text)
		err2 = n2.UnmarshalJSON([]byte(`"` + text + `"`))
	}) {
		return c
	}
	if (err == nil) != (err2 == nil) {
		c.vs = append(c.vs, netsh.V{Sig: "IPNet.UnmarshalJSON!=ParseCIDR", What: text})
	}
	colon := strings.Contains(text, ":")
	impl := "err"
	if err == nil {
		u, ok := netsh.U32(n.IP)
		ones, bits := n.Mask.Size()
		if ok && bits == 32 {
			impl = fmt.Sprintf("ok %d %d", u, ones)
			// round trip through nets.IPNet marshal
			data, _ := n2.MarshalJSON()
			var n3 nets.IPNet
			if e := n3.UnmarshalJSON(data); e != nil || !n3.IP.Equal(n2.IP) || n3.Mask.String() != n2.Mask.String() {
				c.vs = append(c.vs, netsh.V{Sig: "roundtrip:cidr", What: fmt.Sprintf("%q -> %s", text, data)})
			}
		} else if !colon {
			c.vs = append(c.vs, netsh.V{Sig: "cidr:non-ipv4-without-colon", What: text})
		}
	}
	if colon && err == nil {
		rn.r.Hit("cidr:outside-model-domain(ipv6-literal-accepted)")
		return c
	}
	rn.r.Hit("cidr:" + firstWord(impl))
	c.model = []string{"cidr x" + hexs(text)}
	c.impl = []string{impl}
	return c
}

func (rn *runner) guard(c *caseResult, fn string, f func()) bool {
	o := hx.Guard(netsh.CallTimeout, f)
	if o == "ok" {
		return true
	}
	if o == "hang" {
		c.vs = append(c.vs, netsh.V{Sig: "hang:" + fn, What: fn + " did not return within 2s"})
	} else {
		c.vs = append(c.vs, netsh.V{Sig: "panic:" + fn, What: o})
	}
	return false
}

func (rn *runner) evalRangeObj(f, l, ip uint32) *caseResult {
	c := &caseResult{op: fmt.Sprintf("rangeobj %d %d %d", f, l, ip), nontrivial: true}
	r := nets.IPRange{First: nets.IntToIP(f), Last: nets.IntToIP(l)}
	if ip&1 == 1 { // exercise the 16-byte form as well
		r = nets.IPRange{First: netsh.IP4(f), Last: netsh.IP4(l)}
	}
	var str string
	var size uint32
	var cont, less bool
	var minus int64
	if !rn.guard(c, "IPRange", func() {
		str, size, cont = r.String(), r.Size(), r.Contains(netsh.IP4(ip))
		minus = floatingip.Minus(netsh.IP4(f), nets.IntToIP(l))
		less = floatingip.FloatingIPSlice{{SparseSubnet: nets.SparseSubnet{Gateway: netsh.IP4(f)}},
			{SparseSubnet: nets.SparseSubnet{Gateway: nets.IntToIP(l)}}}.Less(0, 1)
	}) {
		return c
	}
	if nets.IPToInt(nets.IntToIP(ip)) != ip || nets.IPToInt(netsh.IP4(ip)) != ip {
		c.vs = append(c.vs, netsh.V{Sig: "IntToIP(IPToInt)!=id", What: fmt.Sprint(ip)})
	}
	if f <= l {
		if cont != (f <= ip && ip <= l) {
			c.vs = append(c.vs, netsh.V{Sig: "contains!=enumerate", What: fmt.Sprintf("IPRange %d-%d Contains(%d)=%v", f, l, ip, cont)})
		}
		if uint64(size) != (uint64(l)-uint64(f)+1)&0xFFFFFFFF {
			c.vs = append(c.vs, netsh.V{Sig: "size!=cardinality", What: fmt.Sprintf("IPRange %d-%d Size()=%d", f, l, size)})
		}
		back := nets.ParseIPRange(str)
		if back == nil || !back.First.Equal(r.First) || !back.Last.Equal(r.Last) {
			c.vs = append(c.vs, netsh.V{Sig: "roundtrip:range", What: fmt.Sprintf("ParseIPRange(%q) = %v", str, back)})
		}
	}
	c.model = []string{fmt.Sprintf("showrange %d %d", f, l), fmt.Sprintf("size %d-%d", f, l), fmt.Sprintf("contains %d %d %d", f, l, ip),
		fmt.Sprintf("minus %d %d", f, l), fmt.Sprintf("less %d %d", f, l)}
	c.impl = []string{hexs(str), fmt.Sprint(size), fmt.Sprint(cont), fmt.Sprint(minus), fmt.Sprint(less)}
	return c
}

// canonRanges: non-inverted, strictly increasing, more than one address apart (what fipCheck accepts).
func canonRanges(rs [][2]uint32) bool {
	for i, x := range rs {
		if x[0] > x[1] {
			return false
		}
		if i > 0 && uint64(x[0]) <= uint64(rs[i-1][1])+1 {
			return false
		}
	}
	return true
}

func parseRangesArg(s string) ([][2]uint32, bool) {
	if s == "-" {
		return nil, true
	}
	var out [][2]uint32
	for _, t := range strings.Split(s, ";") {
		ab := strings.Split(t, "-")
		if len(ab) != 2 {
			return nil, false
		}
		a, e1 := strconv.ParseUint(ab[0], 10, 32)
		b, e2 := strconv.ParseUint(ab[1], 10, 32)
		if e1 != nil || e2 != nil {
			return nil, false
		}
		out = append(out, [2]uint32{uint32(a), uint32(b)})
	}
	return out, true
}

func (rn *runner) evalRanges(rsArg string, ip uint32, stopArg string) *caseResult {
	c := &caseResult{op: fmt.Sprintf("ranges %s %d %s", rsArg, ip, stopArg), nontrivial: true}
	rs, ok := parseRangesArg(rsArg)
	if !ok {
		return c
	}
	var rr []nets.IPRange
	var total uint64
	for _, x := range rs {
		rr = append(rr, nets.IPRange{First: nets.IntToIP(x[0]), Last: nets.IntToIP(x[1])})
		if x[0] <= x[1] {
			total += uint64(x[1]) - uint64(x[0]) + 1
		}
	}
	p := &floatingip.FloatingIPPool{SparseSubnet: nets.SparseSubnet{IPRanges: rr}}
	var size uint32
	var cont bool
	if !rn.guard(c, "SparseSubnet.Size", func() { size, cont = p.Size(), p.Contains(netsh.IP4(ip)) }) {
		return c
	}
	c.model = []string{"size " + rsArg, fmt.Sprintf("pcontains %s %d", rsArg, ip)}
	c.impl = []string{fmt.Sprint(size), fmt.Sprint(cont)}
	// FloatingIPPool.InsertIP / RemoveIP on copies of the list (they edit the slice in place); the pool's subnet
	// is a deterministic function of the case so that replays agree: 0.0.0.0/0, or a /29 around the first range
	{
		gw, pl := uint32(0), 0
		if ip%4 == 1 {
			pl = 29
			gw = ip ^ 8
			if len(rs) > 0 {
				gw = rs[0][0]
			}
		}
		showRs := func(l []nets.IPRange) string {
			if len(l) == 0 {
				return "-"
			}
			var ps []string
			for _, x := range l {
				f, _ := netsh.U32(x.First)
				la, _ := netsh.U32(x.Last)
				ps = append(ps, fmt.Sprintf("%d-%d", f, la))
			}
			return strings.Join(ps, ";")
		}
		for _, which := range []string{"insert", "remove"} {
			q := &floatingip.FloatingIPPool{SparseSubnet: nets.SparseSubnet{IPRanges: append([]nets.IPRange(nil), rr...),
				Gateway: netsh.IP4(gw), Mask: net.CIDRMask(pl, 32)}}
			var ok bool
			if !rn.guard(c, "FloatingIPPool."+which, func() {
				if which == "insert" {
					ok = q.InsertIP(netsh.IP4(ip))
				} else {
					ok = q.RemoveIP(netsh.IP4(ip))
				}
			}) {
				return c
			}
			rn.r.Hit(fmt.Sprintf("%s:%v", which, ok))
			c.model = append(c.model, fmt.Sprintf("%s %s %d %d %d", which, rsArg, gw, pl, ip))
			c.impl = append(c.impl, fmt.Sprintf("%v %s", ok, showRs(q.IPRanges)))
			// monitor (independent of the model) on canonical lists: the edited list holds exactly the old addresses
			// plus / minus ip, and is again sorted, non-inverted and not mergeable
			if canonRanges(rs) && total <= netsh.MaxEnum {
				wantSet := map[uint32]bool{}
				for _, x := range rs {
					for a := uint64(x[0]); a <= uint64(x[1]); a++ {
						wantSet[uint32(a)] = true
					}
				}
				inSub := pl == 0 || (ip>>3) == (gw>>3)
				wantOK := inSub && (wantSet[ip] == (which == "remove"))
				if wantOK {
					if which == "insert" {
						wantSet[ip] = true
					} else {
						delete(wantSet, ip)
					}
				}
				var after [][2]uint32
				gotSet := map[uint32]bool{}
				for _, x := range q.IPRanges {
					f, _ := netsh.U32(x.First)
					la, _ := netsh.U32(x.Last)
					after = append(after, [2]uint32{f, la})
					for a := uint64(f); a <= uint64(la) && len(gotSet) <= len(wantSet)+2; a++ {
						gotSet[uint32(a)] = true
					}
				}
				same := len(gotSet) == len(wantSet)
				for a := range wantSet {
					if !gotSet[a] {
						same = false
					}
				}
				if ok != wantOK || !same || !canonRanges(after) {
					c.vs = append(c.vs, netsh.V{Sig: "edit:" + which + "-wrong", What: fmt.Sprintf("%s of %d into %s (subnet %d/%d) answered %v and left %s",
						which, ip, rsArg, gw, pl, ok, showRs(q.IPRanges))})
				}
			}
		}
	}
	if total <= netsh.MaxEnum {
		var stop *uint32
		if stopArg != "-" {
			v, err := strconv.ParseUint(stopArg, 10, 32)
			if err != nil {
				return c
			}
			u := uint32(v)
			stop = &u
		}
		got, ok := netsh.WalkAll(rr, stop, &c.vs)
		if ok {
			// monitor: the walk visits first..last of each range in order, up to the stop address
			var want []uint32
		outer:
			for _, x := range rs {
				for a := uint64(x[0]); a <= uint64(x[1]); a++ {
					want = append(want, uint32(a))
					if stop != nil && uint32(a) == *stop {
						break outer
					}
				}
			}
			if fmt.Sprint(got) != fmt.Sprint(want) {
				c.vs = append(c.vs, netsh.V{Sig: "walk!=ranges", What: fmt.Sprintf("walk of %s visited %d addresses, expected %d", rsArg, len(got), len(want))})
			}
			var ss []string
			for _, u := range got {
				ss = append(ss, strconv.FormatUint(uint64(u), 10))
			}
			c.model = append(c.model, fmt.Sprintf("walk %s %s", rsArg, stopArg))
			c.impl = append(c.impl, strings.TrimRight("ok "+strings.Join(ss, ","), " "))
			rn.r.Hit("walk")
			if len(rs) > 0 && rs[len(rs)-1][1] == 0xFFFFFFFF {
				rn.r.Hit("walk:range-ends-at-255.255.255.255")
			}
		}
	}
	return c
}

func (rn *runner) evalReload(texts []string) *caseResult {
	c := &caseResult{op: reloadOp(texts), nontrivial: true}
	if rn.reloadOff {
		// an earlier reload hung: its goroutine still spins inside the real code, do not pile up more of them
		rn.r.Hit("reload:skipped(after-a-hang)")
		return c
	}
	defer func() {
		for _, v := range c.vs {
			if strings.HasPrefix(v.Sig, "hang:") {
				rn.reloadOff = true
			}
		}
	}()
	rl, err := netsh.NewReloader()
	if err != nil {
		c.vs = append(c.vs, netsh.V{Sig: "harness:plugin-construction", What: err.Error()})
		return c
	}
	// ConfigurePool enumerates every address of every pool into a map: configurations with more than MaxEnum
	// addresses (e.g. 0.0.0.0/0 pools, outside C20's quantifier) are not fed to the real IPAM
	for _, text := range texts {
		text = strings.TrimPrefix(text, netsh.FailPrefix)
		if pools, o := netsh.DecodeConf(text); o == "ok" && netsh.ExpectedAddresses(pools) == nil {
			rn.r.Hit("reload:skipped(pool-too-large-to-configure)")
			return c
		}
	}
	c.model = []string{"reset"}
	c.impl = []string{"ok"}
	c.canonModel = []func(string) string{nil}
	compare := true
	lastLow := ""
	allocated := false
	for i, text := range texts {
		failing := strings.HasPrefix(text, netsh.FailPrefix)
		text = strings.TrimPrefix(text, netsh.FailPrefix)
		before := rl.Snap()
		rl.FailList = failing
		outcome := rl.Step(text, &c.vs)
		rl.FailList = false
		if outcome == "crash" {
			return c
		}
		if failing {
			rn.r.Hit("reload:store-failure-injected:" + outcome)
		}
		after := rl.Snap()
		rn.r.Hit("reload:" + outcome)
		_, dec := netsh.DecodeConf(text)
		switch outcome {
		case "rejected", "unchanged":
			if d := before.Same(after); d != "" {
				c.vs = append(c.vs, netsh.V{Sig: "reject:state-changed", What: fmt.Sprintf("reload %d (%s): %s", i, outcome, d)})
			}
			if outcome == "unchanged" && text != before.Last {
				c.vs = append(c.vs, netsh.V{Sig: "reload:new-text-ignored", What: fmt.Sprintf("reload %d", i)})
			}
			if outcome == "rejected" && dec == "ok" && !failing {
				c.vs = append(c.vs, netsh.V{Sig: "reload:valid-configuration-rejected", What: fmt.Sprintf("reload %d", i)})
			}
		case "configured":
			if dec != "ok" {
				c.vs = append(c.vs, netsh.V{Sig: "reload:rejected-configuration-applied", What: fmt.Sprintf("reload %d", i)})
			}
			if after.Last != text {
				c.vs = append(c.vs, netsh.V{Sig: "reload:lastConf-not-updated", What: fmt.Sprintf("reload %d", i)})
			}
			c.vs = append(c.vs, netsh.MonitorConf(after.Pools, "ok")...)
			if want := netsh.ExpectedAddresses(after.Pools); want != nil {
				got := append(append([]string(nil), after.Unalloc...), after.Allocated...)
				sort.Strings(got)
				if fmt.Sprint(got) != fmt.Sprint(want) && !(len(got) == 0 && len(want) == 0) {
					c.vs = append(c.vs, netsh.V{Sig: "ipam!=enumerate", What: fmt.Sprintf("reload %d: IPAM serves %d addresses, pools hold %d", i, len(got), len(want))})
				}
			}
			if !allocated {
				rl.AllocateOne()
				allocated = true
			}
		}
		// model line
		l := netsh.LowerConf([]byte(text))
		low := l.Conf
		if l.Syntax {
			low = "notarray" // the model has no JSON syntax layer: any rejected document will do
		}
		if l.Dup || (l.Colon && dec == "ok") {
			compare = false
		}
		if compare {
			state := "pools=" + netsh.CanonPoolStrings(after.PoolStr)
			impl := outcome + " " + state
			if (text == before.Last) != (low == lastLow) && outcome != "rejected" {
				impl = "" // two different texts with the same lowering: only the text comparison differs
				compare = false
			}
			if failing {
				c.model = append(c.model, "reloadf "+low)
			} else {
				c.model = append(c.model, "reload "+low)
			}
			c.impl = append(c.impl, impl)
			c.canonModel = append(c.canonModel, canonReloadAnswer)
		}
		if outcome == "configured" {
			lastLow = low
		}
	}
	return c
}

// ---------------------------------------------------------------- dispatch

func unhexOr(s string) (string, bool) {
	b, err := hex.DecodeString(s)
	return string(b), err == nil
}

func (rn *runner) eval(op string) *caseResult {
	w := firstWord(op)
	rest := strings.TrimPrefix(op, w)
	rest = strings.TrimPrefix(rest, " ")
	textArg := func() (string, bool) {
		if strings.HasSuffix(w, "t") {
			return rest, true
		}
		return unhexOr(rest)
	}
	switch w {
	case "conft", "conf", "poolt", "pool", "ipt", "ip", "ranget", "range", "cidrt", "cidr":
		t, ok := textArg()
		if !ok {
			break
		}
		switch strings.TrimSuffix(w, "t") {
		case "conf":
			return rn.evalConf(t)
		case "pool":
			return rn.evalPool(t)
		case "ip":
			return rn.evalIP(t)
		case "range":
			return rn.evalRange(t)
		case "cidr":
			return rn.evalCidr(t)
		}
	case "rangeobj":
		f := strings.Fields(rest)
		if len(f) == 3 {
			a, e1 := strconv.ParseUint(f[0], 10, 32)
			b, e2 := strconv.ParseUint(f[1], 10, 32)
			x, e3 := strconv.ParseUint(f[2], 10, 32)
			if e1 == nil && e2 == nil && e3 == nil {
				return rn.evalRangeObj(uint32(a), uint32(b), uint32(x))
			}
		}
	case "ranges":
		f := strings.Fields(rest)
		if len(f) == 3 {
			x, e := strconv.ParseUint(f[1], 10, 32)
			if e == nil {
				return rn.evalRanges(f[0], uint32(x), f[2])
			}
		}
	case "reloadt":
		return rn.evalReload(strings.Split(rest, " ||| "))
	case "reload":
		var ts []string
		for _, h := range strings.Split(rest, "|") {
			t, ok := unhexOr(h)
			if !ok {
				return &caseResult{op: op, vs: []netsh.V{{Sig: "harness:bad-case-line", What: op}}}
			}
			ts = append(ts, t)
		}
		return rn.evalReload(ts)
	}
	return &caseResult{op: op, vs: []netsh.V{{Sig: "harness:bad-case-line", What: op}}}
}

func slug(s string) string {
	var b strings.Builder
	for _, c := range s {
		if (c >= 'a' && c <= 'z') || (c >= 'A' && c <= 'Z') || (c >= '0' && c <= '9') {
			b.WriteRune(c)
		} else {
			b.WriteByte('_')
		}
	}
	return b.String()
}

// shrink a failing configuration document: try each pool alone
func (rn *runner) shrink(c *caseResult, sig string) string {
	w := firstWord(c.op)
	if w != "conf" && w != "conft" {
		return c.op
	}
	var text string
	if w == "conft" {
		text = strings.TrimPrefix(c.op, "conft ")
	} else {
		text, _ = unhexOr(strings.TrimPrefix(c.op, "conf "))
	}
	var arr []json.RawMessage
	if json.Unmarshal([]byte(text), &arr) != nil || len(arr) < 2 {
		return c.op
	}
	for _, e := range arr {
		t := "[" + string(e) + "]"
		pools, outcome := netsh.DecodeConf(t)
		for _, v := range netsh.MonitorConf(pools, outcome) {
			if v.Sig == sig {
				return textOp("conf", t)
			}
		}
	}
	return c.op
}

func (rn *runner) add(c *caseResult) {
	rn.r.Case(c.op, c.nontrivial)
	if len(rn.r.Samples) < 5 && c.nontrivial && len(c.model) > 0 && rn.r.Evaluations%97 == 1 {
		rn.r.Sample(map[string]interface{}{"case": trunc(c.op, 300), "impl": trunc(strings.Join(c.impl, " ; "), 300)})
	}
	for _, v := range c.vs {
		rn.nViol[v.Sig]++
		if rn.nViol[v.Sig] > 3 || len(rn.r.Violations) >= 40 {
			continue
		}
		op := rn.shrink(c, v.Sig)
		p := rn.e.WriteReplay("C20", "input", fmt.Sprintf("viol-%s-%d", slug(v.Sig), rn.nViol[v.Sig]),
			[]string{"signature=" + v.Sig, "what=" + trunc(v.What, 400)}, []string{op})
		rn.r.Violations = append(rn.r.Violations, hx.Violation{Signature: v.Sig, What: trunc(v.What, 400), Replay: p, Ops: []string{trunc(op, 2000)}})
	}
	if len(c.model) > 0 {
		rn.pending = append(rn.pending, c)
		rn.lines += len(c.model)
		if rn.lines >= 20000 {
			rn.flush()
		}
	}
}

func trunc(s string, n int) string {
	if len(s) > n {
		return s[:n] + "…"
	}
	return s
}

func (rn *runner) flush() {
	if len(rn.pending) == 0 {
		return
	}
	var lines []string
	for _, c := range rn.pending {
		lines = append(lines, c.model...)
	}
	out, err := rn.e.RunDriver("nets", lines)
	if err != nil {
		rn.nDis++
		rn.r.Disagree = append(rn.r.Disagree, hx.Disagreement{Where: "driver", Index: 0, Impl: "", Model: trunc(err.Error(), 500),
			Replay: rn.e.WriteReplay("C20", "obligation", "driver-failure", []string{trunc(err.Error(), 500)}, nil)})
		rn.pending, rn.lines = nil, 0
		return
	}
	k := 0
	for _, c := range rn.pending {
		rn.r.Traces++
		for i := range c.model {
			got := strings.TrimRight(out[k], " ")
			k++
			if c.impl[i] == "" {
				continue
			}
			if c.canonModel != nil && i < len(c.canonModel) && c.canonModel[i] != nil {
				got = c.canonModel[i](got)
			}
			want := c.impl[i]
			if got == want {
				continue
			}
			if strings.HasPrefix(got, "err") && want == "err" {
				rn.r.Hit("reject-class:" + strings.TrimPrefix(got, "err "))
				continue
			}
			rn.nDis++
			if rn.nDis > 20 {
				continue
			}
			p := rn.e.WriteReplay("C20", "input", fmt.Sprintf("disagree-%d", rn.nDis),
				[]string{"model line: " + trunc(c.model[i], 1500), "impl : " + trunc(want, 1500), "model: " + trunc(got, 1500)}, []string{c.op})
			rn.r.Disagree = append(rn.r.Disagree, hx.Disagreement{Where: firstWord(c.model[i]), Index: i, Impl: trunc(want, 600),
				Model: trunc(got, 600), Replay: p, Ops: []string{trunc(c.op, 2000)}})
		}
		// histogram of the model's reject classes for agreed rejections
		for i := range c.model {
			_ = i
		}
	}
	// reject classes: recount from the raw output (class text is informational only, never compared)
	k = 0
	for _, c := range rn.pending {
		for i := range c.model {
			if c.impl[i] == "err" && strings.HasPrefix(out[k], "err ") {
				rn.r.Hit("reject-class:" + strings.TrimPrefix(out[k], "err "))
			}
			k++
		}
	}
	rn.pending, rn.lines = nil, 0
}

// ---------------------------------------------------------------- generation

func (rn *runner) genConfs(n int) {
	r := rn.e.Rng
	for i := 0; i < n; i++ {
		ps := netsh.GenConf(r)
		var doc *netsh.J
		kind := "valid"
		if i%2 == 1 {
			doc, kind = netsh.Mutate(r, ps)
		} else {
			doc = netsh.ConfDoc(ps)
		}
		rn.r.Hit("gen:" + kind)
		text := doc.Text()
		rn.add(rn.eval(textOp("conf", text)))
		// every pool of the document on its own as well
		if doc.K == 'a' && i%4 < 2 {
			for _, e := range doc.A {
				rn.add(rn.eval(textOp("pool", e.Text())))
			}
		}
	}
}

func (rn *runner) genNullInjection(docs int) {
	r := rn.e.Rng
	for i := 0; i < docs; i++ {
		ps := netsh.GenConf(r)
		if len(ps) > 2 {
			ps = ps[:2]
		}
		for _, d := range netsh.NullInjections(netsh.ConfDoc(ps)) {
			rn.r.Hit("gen:null-injection")
			rn.add(rn.eval(textOp("conf", d.Text())))
		}
		for _, d := range netsh.NullInjections(ps[0].Doc()) {
			rn.r.Hit("gen:null-injection-pool")
			rn.add(rn.eval(textOp("pool", d.Text())))
		}
	}
}

func boundaryAddr(r interface {
	Intn(int) int
	Uint32() uint32
}) uint32 {
	switch r.Intn(8) {
	case 0:
		return uint32(r.Intn(4))
	case 1:
		return 0xFFFFFFFF - uint32(r.Intn(4))
	case 2:
		return r.Uint32() &^ 0xFF
	case 3:
		return r.Uint32() | 0xFF
	case 4:
		return 0x7FFFFFFE + uint32(r.Intn(4))
	case 5:
		return uint32(r.Intn(256))
	case 6:
		return 0xFFFFFF00 + uint32(r.Intn(256))
	}
	return r.Uint32()
}

func (rn *runner) genTexts(n int) {
	r := rn.e.Rng
	texts := append([]string{}, netsh.BadIPs()...)
	texts = append(texts, netsh.V6IPs()...)
	for _, t := range texts {
		rn.add(rn.eval(textOp("ip", t)))
		rn.add(rn.eval(textOp("range", t)))
		rn.add(rn.eval(textOp("range", t+"~10.0.0.9")))
		rn.add(rn.eval(textOp("range", "10.0.0.1~"+t)))
	}
	for _, t := range netsh.CIDRTexts() {
		rn.add(rn.eval(textOp("cidr", t)))
	}
	for i := 0; i < n; i++ {
		a, b := boundaryAddr(r), boundaryAddr(r)
		rn.add(rn.eval(textOp("ip", netsh.IPStr(a))))
		switch r.Intn(6) {
		case 0:
			rn.add(rn.eval(textOp("range", netsh.IPStr(a)+"~"+netsh.IPStr(b))))
		case 1:
			rn.add(rn.eval(textOp("range", netsh.IPStr(a))))
		case 2:
			rn.add(rn.eval(textOp("range", netsh.IPStr(a)+"~"+netsh.IPStr(a))))
		case 3:
			if a > b {
				a, b = b, a
			}
			rn.add(rn.eval(textOp("range", netsh.IPStr(a)+"~"+netsh.IPStr(b))))
		case 4: // one character damaged
			s := []byte(netsh.IPStr(a) + "~" + netsh.IPStr(b))
			s[r.Intn(len(s))] = " .~/:0a-"[r.Intn(8)]
			rn.add(rn.eval(textOp("range", string(s))))
			rn.add(rn.eval(textOp("ip", string(s[:r.Intn(len(s))+1]))))
		case 5:
			pl := r.Intn(36)
			t := fmt.Sprintf("%s/%d", netsh.IPStr(a), pl)
			if r.Intn(4) == 0 {
				t = fmt.Sprintf("%s/0%d", netsh.IPStr(a), pl)
			}
			rn.add(rn.eval(textOp("cidr", t)))
		}
		rn.add(rn.eval(fmt.Sprintf("rangeobj %d %d %d", a, b, []uint32{a, b, a - 1, b + 1, boundaryAddr(r)}[r.Intn(5)])))
	}
}

func (rn *runner) genRanges(n int) {
	r := rn.e.Rng
	for i := 0; i < n; i++ {
		if r.Intn(2) == 0 {
			// a canonical list (what an accepted pool holds) and an address in or next to it: InsertIP / RemoveIP
			// with merges of neighbours two apart, splits, shrinking at either end, single-address ranges
			k := 1 + r.Intn(4)
			cur := uint64(boundaryAddr(r))
			var parts []string
			lo, hi := cur, cur
			for j := 0; j < k && cur <= 0xFFFFFFFF; j++ {
				l := cur + uint64(r.Intn(5))
				if l > 0xFFFFFFFF {
					l = 0xFFFFFFFF
				}
				parts = append(parts, fmt.Sprintf("%d-%d", cur, l))
				hi = l
				cur = l + 2 + uint64(r.Intn(3))
			}
			span := hi - lo + 5
			a := lo + uint64(r.Intn(int(span)))
			if a >= 2 {
				a -= 2
			}
			if a > 0xFFFFFFFF {
				a = 0xFFFFFFFF
			}
			rn.r.Hit("ranges-gen:canonical")
			rn.add(rn.eval(fmt.Sprintf("ranges %s %d -", strings.Join(parts, ";"), uint32(a))))
			continue
		}
		k := r.Intn(4)
		var parts []string
		var firstAddr uint32
		for j := 0; j < k; j++ {
			a := boundaryAddr(r)
			ln := uint32(r.Intn(7))
			b := a + ln
			switch r.Intn(8) {
			case 0:
				b = a - 1 - uint32(r.Intn(3)) // first > last (wraps at 0)
			case 1:
				if a > 0xFFFFFFF0 {
					b = 0xFFFFFFFF
				}
			}
			if b < a && a+ln < a { // wrapped above the top: clamp
				b = 0xFFFFFFFF
			}
			if j == 0 {
				firstAddr = a
			}
			parts = append(parts, fmt.Sprintf("%d-%d", a, b))
		}
		arg := "-"
		if len(parts) > 0 {
			arg = strings.Join(parts, ";")
		}
		stop := "-"
		if r.Intn(3) == 0 {
			stop = fmt.Sprint(firstAddr + uint32(r.Intn(4)))
		}
		rn.add(rn.eval(fmt.Sprintf("ranges %s %d %s", arg, firstAddr+uint32(r.Intn(8)), stop)))
		if r.Intn(10) == 0 { // sizes which wrap
			rn.add(rn.eval(fmt.Sprintf("ranges 0-4294967295;%d-%d %d -", 5, 5+r.Intn(3), r.Uint32())))
		}
	}
}

func (rn *runner) genReloads(n int) {
	r := rn.e.Rng
	for i := 0; i < n; i++ {
		k := 3 + r.Intn(4)
		var texts []string
		for j := 0; j < k; j++ {
			ps := netsh.GenConf(r)
			switch {
			case j == 0 || r.Intn(3) == 0:
				texts = append(texts, netsh.ConfDoc(ps).Text())
			case r.Intn(5) == 0 && len(texts) > 0:
				texts = append(texts, texts[r.Intn(len(texts))])
			default:
				d, kind := netsh.Mutate(r, ps)
				rn.r.Hit("reload-gen:" + kind)
				texts = append(texts, d.Text())
			}
			// a ConfigurePool that fails (store list error), followed by the same text with a working store
			if r.Intn(4) == 0 {
				t := texts[len(texts)-1]
				texts[len(texts)-1] = netsh.FailPrefix + t
				if r.Intn(4) != 0 {
					texts = append(texts, t)
				}
			}
		}
		rn.add(rn.eval(reloadOp(texts)))
	}
}

// exhaustive small scope: every list of at most 2 arbitrary ranges (and, if deep, of at most 3 ordered ranges) over
// the 8-address window starting at base
func (rn *runner) exhaustive(base uint32, gw uint32, deep bool) {
	type rg struct{ f, l uint32 }
	var ordered, all []rg
	for f := uint32(0); f < 8; f++ {
		for l := uint32(0); l < 8; l++ {
			all = append(all, rg{f, l})
			if f <= l {
				ordered = append(ordered, rg{f, l})
			}
		}
	}
	subnet := fmt.Sprintf("%s/29", netsh.IPStr(base))
	emit := func(rs []rg, explicit bool) {
		var ipsJ []string
		for _, x := range rs {
			s := netsh.RangeStr(base+x.f, base+x.l)
			if explicit || x.f > x.l {
				s = netsh.IPStr(base+x.f) + "~" + netsh.IPStr(base+x.l)
			}
			ipsJ = append(ipsJ, `"`+s+`"`)
		}
		text := fmt.Sprintf(`[{"nodeSubnets":["10.0.0.0/8"],"ips":[%s],"subnet":"%s","gateway":"%s"}]`,
			strings.Join(ipsJ, ","), subnet, netsh.IPStr(gw))
		rn.r.Hit("gen:exhaustive-window")
		rn.add(rn.eval(textOp("conf", text)))
	}
	emit(nil, false)
	for _, a := range all {
		emit([]rg{a}, false)
		emit([]rg{a}, true)
		for _, b := range all {
			emit([]rg{a, b}, false)
		}
	}
	if !deep {
		return
	}
	for _, a := range ordered {
		for _, b := range ordered {
			for _, c := range ordered {
				emit([]rg{a, b, c}, false)
			}
		}
	}
}

func run(e *hx.Env) *hx.Report {
	netsh.QuietLogs()
	r := hx.NewReport("C20", e.Tier, e.Seed, rule)
	rn := &runner{e: e, r: r, nViol: map[string]int{}}
	if e.Replay != "" {
		ops, err := hx.ReadOps(e.Replay)
		if err != nil {
			r.Violations = append(r.Violations, hx.Violation{Signature: "harness:replay-unreadable", What: err.Error(), Replay: e.Replay})
			return r
		}
		for _, op := range ops {
			if strings.HasPrefix(op, "{") { // obligation files carry JSON lines, nothing to re-run
				continue
			}
			rn.add(rn.eval(op))
		}
		rn.flush()
		r.Extra["replayed"] = e.Replay
		return r
	}
	// 1. corpus
	root := os.Getenv("VERIF_ROOT")
	if root == "" {
		root = "/verif"
	}
	files, _ := filepath.Glob(filepath.Join(root, "corpus", "C20", "*.ops"))
	sort.Strings(files)
	for _, f := range files {
		ops, err := hx.ReadOps(f)
		if err != nil {
			continue
		}
		for _, op := range ops {
			r.Hit("corpus")
			rn.add(rn.eval(op))
		}
	}
	// 2. generated
	rn.genConfs(e.N(1000, 100000))
	rn.genNullInjection(e.N(6, 200))
	rn.genTexts(e.N(400, 20000))
	rn.genRanges(e.N(300, 20000))
	rn.genReloads(e.N(40, 1500))
	rn.exhaustive(0, 1, e.Thorough())
	rn.exhaustive(0xFFFFFFF8, 0xFFFFFFF9, e.Thorough())
	r.Extra["exhaustive_small_scope"] = "all lists of <=2 arbitrary ranges (thorough: and <=3 ordered ranges) over the 8-address windows 0.0.0.0/29 and 255.255.255.248/29"
	rn.flush()
	r.Extra["disagreements_total"] = rn.nDis
	vt := 0
	for _, n := range rn.nViol {
		vt += n
	}
	r.Extra["violations_total"] = vt
	return r
}

func main() { hx.Main("C20", run) }

func minInt(a, b int) int {
	if a < b {
		return a
	}
	return b
}
