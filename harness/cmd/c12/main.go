// c12: CNI multi-network ADD/DEL is ordered, paired, rolled back and isolated.
//
// Drives the REAL galaxy request path (pkg/galaxy handler -> resolveNetworks -> cniutil.CmdAdd/CmdDel -> exec of a
// recording plugin binary) and
//   - compares every request's invocation log and the state file with the Lean model (gxdrv_cni)  [correspondence]
//   - evaluates the property itself on the logs, from the generator's knowledge of what each pod was MEANT to
//     select — not from the model and not by re-parsing the annotation                                 [monitor]
//   - replays each container's requests alone in a fresh galaxy and requires identical records        [isolation]
package main

import (
	"encoding/json"
	"fmt"
	"math/rand"
	"os"
	"path/filepath"
	"reflect"
	"sort"
	"strings"
	"sync"

	"gxverif/cni"
	"gxverif/cni/cdig"
	"gxverif/hx"
)

const prop = "C12"

// ---------------------------------------------------------------- histories

type SelItem struct {
	Net   string `json:"net"`
	Iface string `json:"iface,omitempty"`
}

type Pod struct {
	cni.PodSpec
	Expect string            `json:"expect"` // valid | invalid | unknown  (the generator's intent)
	Sel    []SelItem         `json:"sel,omitempty"`
	Ext    map[string]string `json:"ext,omitempty"`
	Form   string            `json:"form,omitempty"`
}

type Cont struct {
	Label string `json:"label"`
	Pod   int    `json:"pod"`
}

type Req struct {
	Cmd    string `json:"cmd"`
	C      int    `json:"c"`
	Bits   string `json:"bits,omitempty"`
	IfName string `json:"ifname"`
}

type History struct {
	Mode  string     `json:"mode"` // seq | conc
	Cfg   cni.Config `json:"cfg"`
	Pods  []Pod      `json:"pods"`
	Conts []Cont     `json:"conts"`
	Reqs  []Req      `json:"reqs"`
	Note  string     `json:"note,omitempty"`
}

func (h *History) ops() []string {
	b, _ := json.Marshal(h)
	return []string{string(b)}
}

type Step struct {
	Req     Req
	Cid     string
	Args    string
	NetNS   string
	Res     cni.Result
	Infos   []cni.SavedInfo
	Present bool
	FileErr error
}

type Trace struct {
	W     *cni.World
	Cids  []string
	Steps []Step
}

func netnsOf(label string) string { return "/var/run/netns/" + label }

func runOne(w *cni.World, h *History, cids []string, r Req) Step {
	c := h.Conts[r.C]
	p := h.Pods[c.Pod]
	cid := cids[r.C]
	args := cni.KubeletArgs(p.NS, p.Name, cid)
	st := Step{Req: r, Cid: cid, Args: args, NetNS: netnsOf(c.Label)}
	st.Res = w.Request(r.Cmd, cid, r.IfName, st.NetNS, args, r.Bits)
	st.Infos, st.Present, st.FileErr = cni.StateFile(cid)
	return st
}

func execHistory(env *cni.Env, h *History) (*Trace, error) {
	var pods []cni.PodSpec
	for _, p := range h.Pods {
		pods = append(pods, p.PodSpec)
	}
	w, err := env.NewWorld(h.Cfg, pods)
	if err != nil {
		return nil, err
	}
	t := &Trace{W: w}
	for _, c := range h.Conts {
		t.Cids = append(t.Cids, w.Cid(c.Label))
	}
	if h.Mode == "conc" {
		// one goroutine per container, its requests in order; steps are stored grouped by container afterwards
		per := make([][]Step, len(h.Conts))
		var wg sync.WaitGroup
		for ci := range h.Conts {
			wg.Add(1)
			go func(ci int) {
				defer wg.Done()
				for _, r := range h.Reqs {
					if r.C == ci {
						per[ci] = append(per[ci], runOne(w, h, t.Cids, r))
					}
				}
			}(ci)
		}
		wg.Wait()
		for ci := range per {
			t.Steps = append(t.Steps, per[ci]...)
		}
		return t, nil
	}
	for _, r := range h.Reqs {
		t.Steps = append(t.Steps, runOne(w, h, t.Cids, r))
	}
	return t, nil
}

// ---------------------------------------------------------------- checking

type finding struct {
	sig, what string
}

type checker struct {
	e   *hx.Env
	env *cni.Env
	rep *hx.Report
	n   int
}

func min(a, b int) int {
	if a < b {
		return a
	}
	return b
}

func (c *checker) violation(h *History, f finding) {
	same := 0
	for _, v := range c.rep.Violations {
		if v.Signature == f.sig {
			same++
		}
	}
	if same >= 5 {
		return
	}
	c.n++
	name := fmt.Sprintf("%s-%d", f.sig, c.n)
	p := c.e.WriteReplay(prop, "history", name, []string{"signature=" + f.sig, f.what}, h.ops())
	c.rep.Violations = append(c.rep.Violations, hx.Violation{Signature: f.sig, What: f.what, Replay: p})
}

func (c *checker) disagree(h *History, where string, idx int, impl, model string) {
	if len(c.rep.Disagree) > 20 {
		return
	}
	c.n++
	p := c.e.WriteReplay(prop, "history", fmt.Sprintf("disagree-%d", c.n), []string{"correspondence " + where,
		"impl:  " + impl, "model: " + model}, h.ops())
	c.rep.Disagree = append(c.rep.Disagree, hx.Disagreement{Where: where, Index: idx, Impl: impl, Model: model, Replay: p})
}

// correspondence with gxdrv_cni
func (c *checker) correspond(h *History, t *Trace) {
	lines := []string{cni.ConfLine(h.Cfg, "gen")}
	for i, p := range h.Pods {
		lines = append(lines, cni.PodLine(fmt.Sprintf("p%d", i), p.PodSpec))
	}
	pre := len(lines)
	var want []string
	for _, s := range t.Steps {
		if s.Req.Cmd == "ADD" {
			lines = append(lines, cni.AddLine(s.Cid, s.Req.IfName, s.Args, fmt.Sprintf("p%d", h.Conts[s.Req.C].Pod), s.Req.Bits))
		} else {
			lines = append(lines, cni.DelLine(s.Cid, s.Req.IfName, s.Args, s.Req.Bits))
		}
		want = append(want, cni.CanonResult(s.Res.OK(), s.Res.Records))
		lines = append(lines, cni.FileLine(s.Cid))
		if s.FileErr != nil {
			want = append(want, "unreadable:"+s.FileErr.Error())
		} else {
			want = append(want, cni.CanonFile(s.Infos, s.Present))
		}
	}
	out, err := c.e.RunDriver("cni", lines)
	if err != nil {
		c.disagree(h, "driver", 0, "-", err.Error())
		return
	}
	for i := 0; i < pre; i++ {
		if out[i] != "ok" {
			c.disagree(h, "setup:"+strings.SplitN(lines[i], " ", 2)[0], i, "ok", out[i])
			return
		}
	}
	c.rep.Traces++
	for i, w := range want {
		if out[pre+i] != w {
			kind := "request"
			if i%2 == 1 {
				kind = "state-file"
			}
			s := t.Steps[i/2]
			c.disagree(h, fmt.Sprintf("%s:%s", kind, s.Req.Cmd), i/2, unlabel(w, t, h), unlabel(out[pre+i], t, h))
			return
		}
	}
}

// unlabel replaces hex-encoded container ids by their labels to make reports readable and stable.
func unlabel(s string, t *Trace, h *History) string {
	for i, cid := range t.Cids {
		s = strings.ReplaceAll(s, cni.X(cid), "<"+h.Conts[i].Label+">")
		s = strings.ReplaceAll(s, fmt.Sprintf("%x", []byte(cid)), "<"+h.Conts[i].Label+">")
	}
	return s
}

type expInfo struct {
	spec   cni.NetSpec
	name   string
	ifname string
}

func (x expInfo) String() string { return x.name + "@" + x.ifname }

// expectedSel: what the property says the pod's ADD must establish, from the generator's intent.
func expectedSel(h *History, p Pod, reqIf string) ([]expInfo, error) {
	var out []expInfo
	for i, it := range p.Sel {
		spec, ok := h.Cfg.Lookup(it.Net)
		if !ok {
			return nil, fmt.Errorf("intended network %q is not configured", it.Net)
		}
		ifn := reqIf
		if i > 0 {
			if it.Iface != "" {
				ifn = it.Iface
			} else {
				ifn = fmt.Sprintf("eth%d", i)
			}
		}
		out = append(out, expInfo{spec, it.Net, ifn})
	}
	return out, nil
}

func expectedArgs(p Pod, cid string) map[string]string {
	m := map[string]string{"IgnoreUnknown": "1", "K8S_POD_NAMESPACE": p.NS, "K8S_POD_NAME": p.Name, "K8S_POD_INFRA_CONTAINER_ID": cid}
	for k, v := range p.Ext {
		m[k] = v
	}
	return m
}

// matchRec checks one record against the expected (command, network, interface, args, prevResult).
func matchRec(r cni.Record, cmd string, x expInfo, cid string, args map[string]string, prev string, phase string) *finding {
	if r.Cmd != cmd || r.Type != x.spec.Type || r.Digest != x.spec.Digest() {
		return &finding{phase, fmt.Sprintf("expected %s of network %s (type %s), plugin saw %s type %s conf %s", cmd, x.name, x.spec.Type, r.Cmd, r.Type, r.Stdin)}
	}
	if r.IfName != x.ifname {
		return &finding{"interface-name", fmt.Sprintf("%s of network %s on interface %q, expected %q", cmd, x.name, r.IfName, x.ifname)}
	}
	if got := cni.ParseArgs(r.Args); !reflect.DeepEqual(got, args) {
		return &finding{"args-map", fmt.Sprintf("%s of network %s got CNI_ARGS %q = %v, intended map %v", cmd, x.name, r.Args, got, args)}
	}
	if r.PrevTok != prev {
		sig := "prev-result"
		if pc, _, _, ok := cdig.ParseToken(r.PrevTok); ok && pc != cid {
			sig = "cross-container-leak"
		}
		return &finding{sig, fmt.Sprintf("%s of network %s for %s got prevResult %q, expected %q", cmd, x.name, cid, r.PrevTok, prev)}
	}
	return nil
}

// monitor evaluates the property on the real logs.  Per container it tracks the list the property says is
// established / still to be deleted.
func (c *checker) monitor(h *History, t *Trace) []finding {
	var out []finding
	add := func(f *finding) {
		if f != nil {
			out = append(out, *f)
		}
	}
	saved := map[int][]expInfo{}
	retry := map[int]bool{}     // the saved list is what an earlier DEL failed to delete
	untracked := map[int]bool{} // pods whose meaning the generator does not claim to know
	for si, s := range t.Steps {
		ci := s.Req.C
		p := h.Pods[h.Conts[ci].Pod]
		recs := s.Res.Records
		tag := fmt.Sprintf("step %d %s %s: ", si, s.Req.Cmd, h.Conts[ci].Label)
		if s.Res.Outcome != "ok" {
			sig := "hang"
			if strings.HasPrefix(s.Res.Outcome, "panic") {
				sig = "panic"
			}
			out = append(out, finding{sig, tag + s.Res.Outcome})
			return out
		}
		// what every invocation must satisfy, and the leak scan
		for _, r := range recs {
			if r.Cid != s.Cid || r.NetNS != s.NetNS || r.BadJSON {
				out = append(out, finding{"request-identity", tag + fmt.Sprintf("plugin invoked with container %q netns %q badjson=%v", r.Cid, r.NetNS, r.BadJSON)})
			}
			for oi, other := range t.Cids {
				if oi != ci && (strings.Contains(r.Stdin, other) || strings.Contains(r.Args, other)) {
					out = append(out, finding{"cross-container-leak", tag + fmt.Sprintf("%s for %s received data of container %s: stdin %s args %s",
						r.Cmd, h.Conts[ci].Label, h.Conts[oi].Label, unlabelRaw(r.Stdin, t, h), unlabelRaw(r.Args, t, h))})
				}
			}
		}
		if untracked[ci] || (s.Req.Cmd == "ADD" && p.Expect == "unknown") {
			untracked[ci] = true
			continue
		}
		args := expectedArgs(p, s.Cid)
		switch s.Req.Cmd {
		case "ADD":
			if p.Expect == "invalid" {
				if s.Res.OK() || len(recs) != 0 {
					out = append(out, finding{"invalid-selection-accepted", tag + fmt.Sprintf("pod with annotation %q / args %q: ok=%v, %d invocations", p.Ann, p.ExtAnn, s.Res.OK(), len(recs))})
				}
				break // state unchanged
			}
			sel, err := expectedSel(h, p, s.Req.IfName)
			if err != nil || len(sel) == 0 {
				out = append(out, finding{"generator", tag + fmt.Sprint(err)})
				return out
			}
			idx, m := 0, -1
			bad := false
			prev := ""
			for j, x := range sel {
				if idx >= len(recs) {
					out = append(out, finding{"add-order", tag + fmt.Sprintf("ADD of network %d (%s) missing; %d invocations", j, x, len(recs))})
					bad = true
					break
				}
				if f := matchRec(recs[idx], "ADD", x, s.Cid, args, prev, "add-order"); f != nil {
					f.what = tag + f.what
					add(f)
					bad = true
					break
				}
				prev = cdig.Token(s.Cid, x.spec.Digest(), x.ifname)
				idx++
				if recs[idx-1].Fail {
					m = j
					break
				}
			}
			if bad {
				untracked[ci] = true
				break
			}
			if m < 0 {
				if idx != len(recs) {
					out = append(out, finding{"add-order", tag + fmt.Sprintf("%d extra invocations after the last ADD: %s", len(recs)-idx, recs[idx].Cmd)})
				}
				if !s.Res.OK() {
					out = append(out, finding{"result-class", tag + "every plugin succeeded but the ADD failed: " + s.Res.Body})
				}
				saved[ci], retry[ci] = sel, false
				break
			}
			// rollback: DEL m..0
			var failed []expInfo
			for j := m; j >= 0; j-- {
				if idx >= len(recs) {
					out = append(out, finding{"add-rollback", tag + fmt.Sprintf("ADD %d failed; rollback DEL of network %d (%s) missing", m, j, sel[j])})
					bad = true
					break
				}
				if f := matchRec(recs[idx], "DEL", sel[j], s.Cid, args, "", "add-rollback"); f != nil {
					f.what = tag + fmt.Sprintf("ADD %d failed; rollback: ", m) + f.what
					add(f)
					bad = true
					break
				}
				if recs[idx].Fail {
					failed = append([]expInfo{sel[j]}, failed...)
				}
				idx++
			}
			if bad {
				untracked[ci] = true
				break
			}
			if idx != len(recs) {
				out = append(out, finding{"add-rollback", tag + fmt.Sprintf("%d extra invocations after the rollback: %s", len(recs)-idx, recs[idx].Cmd)})
			}
			if s.Res.OK() {
				out = append(out, finding{"result-class", tag + fmt.Sprintf("ADD %d failed but the request succeeded", m)})
			}
			saved[ci], retry[ci] = failed, len(failed) > 0
		case "DEL":
			L := saved[ci]
			phase := "del-reverse"
			if retry[ci] {
				phase = "del-retry"
			}
			if len(L) == 0 {
				phase = "del-idempotent"
			}
			if len(recs) != len(L) {
				out = append(out, finding{phase, tag + fmt.Sprintf("expected DEL of %v reversed, got %d invocations", L, len(recs))})
				untracked[ci] = true
				break
			}
			var failed []expInfo
			bad := false
			for k, r := range recs {
				x := L[len(L)-1-k]
				if f := matchRec(r, "DEL", x, s.Cid, args, "", phase); f != nil {
					f.what = tag + f.what
					add(f)
					bad = true
					break
				}
				if r.Fail {
					failed = append([]expInfo{x}, failed...)
				}
			}
			if bad {
				untracked[ci] = true
				break
			}
			if s.Res.OK() != (len(failed) == 0) {
				out = append(out, finding{"result-class", tag + fmt.Sprintf("%d DELs failed, request ok=%v", len(failed), s.Res.OK())})
			}
			saved[ci], retry[ci] = failed, len(failed) > 0
		}
		if untracked[ci] {
			continue
		}
		// the state entry
		want := saved[ci]
		if s.FileErr != nil {
			out = append(out, finding{"state-file", tag + "unreadable state file: " + s.FileErr.Error()})
		} else if s.Present != (len(want) > 0) || len(s.Infos) != len(want) {
			out = append(out, finding{"state-file", tag + fmt.Sprintf("state entry present=%v with %d networks, expected %v", s.Present, len(s.Infos), want)})
		} else {
			for i, x := range want {
				d, tok := cdig.Split(s.Infos[i].Conf)
				if d != x.spec.Digest() || s.Infos[i].IfName != x.ifname || tok != "" {
					out = append(out, finding{"state-file", tag + fmt.Sprintf("state entry %d is %v@%s prev=%q, expected %s", i, s.Infos[i].Conf, s.Infos[i].IfName, tok, x)})
				}
			}
		}
	}
	return out
}

func unlabelRaw(s string, t *Trace, h *History) string {
	for i, cid := range t.Cids {
		s = strings.ReplaceAll(s, cid, "<"+h.Conts[i].Label+">")
	}
	return s
}

// normRecord: a record with the container id replaced by its label, args as a map, stdin decoded.
func normRecord(r cni.Record, cid, label string) string {
	rep := func(s string) string { return strings.ReplaceAll(s, cid, "<"+label+">") }
	var stdin interface{}
	json.Unmarshal([]byte(rep(r.Stdin)), &stdin)
	sj, _ := json.Marshal(stdin)
	am := cni.ParseArgs(rep(r.Args))
	var ks []string
	for k := range am {
		ks = append(ks, k+"="+am[k])
	}
	sort.Strings(ks)
	return fmt.Sprintf("%s k=%d if=%s ns=%s type=%s fail=%v args={%s} stdin=%s", r.Cmd, r.K, r.IfName, r.NetNS, r.Type, r.Fail, strings.Join(ks, ";"), sj)
}

// isolation: every container's requests, replayed alone in a fresh galaxy with the same configuration, must give
// the plugin exactly the same records (every field) and the same results.
func (c *checker) isolation(h *History, t *Trace) []finding {
	var out []finding
	for ci := range h.Conts {
		var reqs []Req
		var steps []Step
		for _, s := range t.Steps {
			if s.Req.C == ci {
				reqs = append(reqs, s.Req)
				steps = append(steps, s)
			}
		}
		if len(reqs) == 0 {
			continue
		}
		h2 := &History{Mode: "seq", Cfg: h.Cfg, Pods: h.Pods, Conts: h.Conts, Reqs: reqs}
		t2, err := execHistory(c.env, h2)
		if err != nil {
			out = append(out, finding{"harness", "isolation replay: " + err.Error()})
			continue
		}
		c.rep.Hit("isolation:contexts-compared")
		label := h.Conts[ci].Label
		for i := range steps {
			a, b := steps[i], t2.Steps[i]
			var ra, rb []string
			for _, r := range a.Res.Records {
				ra = append(ra, normRecord(r, t.Cids[ci], label))
			}
			for _, r := range b.Res.Records {
				rb = append(rb, normRecord(r, t2.Cids[ci], label))
			}
			if a.Res.OK() != b.Res.OK() || !reflect.DeepEqual(ra, rb) {
				sig := "isolation-context-dependence"
				for oi, other := range t.Cids {
					for _, r := range a.Res.Records {
						if oi != ci && (strings.Contains(r.Stdin, other) || strings.Contains(r.Args, other)) {
							sig = "cross-container-leak"
						}
					}
				}
				out = append(out, finding{sig, fmt.Sprintf("request %d of container %s (%s) differs between the shared history and the container alone:\n#   with others: ok=%v %v\n#   alone:       ok=%v %v",
					i, label, a.Req.Cmd, a.Res.OK(), ra, b.Res.OK(), rb)})
				break
			}
		}
	}
	return out
}

func (c *checker) stats(h *History, t *Trace) {
	for _, s := range t.Steps {
		p := h.Pods[h.Conts[s.Req.C].Pod]
		fails := 0
		for _, r := range s.Res.Records {
			if r.Fail {
				fails++
			}
		}
		kind := "ok"
		switch {
		case s.Req.Cmd == "ADD" && !s.Res.OK() && len(s.Res.Records) == 0:
			kind = "rejected"
		case s.Req.Cmd == "ADD" && !s.Res.OK() && s.Present:
			kind = "rollback-del-failed"
		case s.Req.Cmd == "ADD" && !s.Res.OK():
			kind = "rollback"
		case s.Req.Cmd == "DEL" && len(s.Res.Records) == 0:
			kind = "noop"
		case s.Req.Cmd == "DEL" && !s.Res.OK():
			kind = "partial-fail"
		}
		c.rep.Hit("req:" + s.Req.Cmd + ":" + kind)
		c.rep.Hit(fmt.Sprintf("invocations:%d", min(len(s.Res.Records), 9)))
		if s.Req.Cmd == "ADD" {
			c.rep.Hit("form:" + p.Form)
			c.rep.Hit("expect:" + p.Expect)
			c.rep.Hit(fmt.Sprintf("ext-keys:%d", len(p.Ext)))
		}
		content := h.Mode + "|" + unlabel(cni.CanonResult(s.Res.OK(), s.Res.Records), t, h)
		c.rep.Case(content, len(s.Res.Records) >= 2 || fails > 0)
		if len(s.Res.Records) >= 3 && fails > 0 {
			c.rep.Sample(map[string]interface{}{"request": s.Req, "annotation": p.Ann, "result": unlabel(cni.CanonResult(s.Res.OK(), s.Res.Records), t, h)})
		}
	}
	c.rep.Hit(fmt.Sprintf("N=%d", len(h.Cfg.Nets)))
	c.rep.Hit("history:" + h.Mode)
}

// check runs one history through everything; returns false if it found a problem.
func (c *checker) check(h *History, withIsolation bool) bool {
	t, err := execHistory(c.env, h)
	if err != nil {
		c.disagree(h, "harness", 0, err.Error(), "-")
		return false
	}
	c.stats(h, t)
	nd, nv := len(c.rep.Disagree), len(c.rep.Violations)
	fs := c.monitor(h, t)
	if withIsolation {
		fs = append(fs, c.isolation(h, t)...)
	}
	seen := map[string]bool{}
	for _, f := range fs {
		if !seen[f.sig] {
			seen[f.sig] = true
			c.violation(h, f)
		}
	}
	c.correspond(h, t)
	return nd == len(c.rep.Disagree) && nv == len(c.rep.Violations)
}

// ---------------------------------------------------------------- generators

var typePalette = []string{"gxp-a", "gxp-b", "gxp-c", "gxp-d"}
var namePalette = []string{"n0", "net-1", "vlan2", "x3"}
var versions = []string{"", "0.2.0", "0.3.1", "0.4.0", ""}

func genConfig(rng *rand.Rand, n int, plain bool) cni.Config {
	var cfg cni.Config
	for i := 0; i < n; i++ {
		s := cni.NetSpec{Name: namePalette[i], Type: typePalette[rng.Intn(len(typePalette))]}
		if !plain {
			s.Version = versions[rng.Intn(len(versions))]
			switch rng.Intn(4) {
			case 0:
				s.Extra = map[string]interface{}{"mtu": 1400 + rng.Intn(200)}
			case 1:
				s.Extra = map[string]interface{}{"ipam": map[string]interface{}{"type": "host-local", "subnet": fmt.Sprintf("10.%d.0.0/16", rng.Intn(250))}, "big": 12345678901234567890.0}
			case 2:
				s.Extra = map[string]interface{}{"bridge": "br" + fmt.Sprint(i), "isGateway": true, "list": []interface{}{1, "a", nil}}
			}
		}
		cfg.Nets = append(cfg.Nets, s)
	}
	if !plain && n >= 2 {
		if rng.Intn(3) == 0 { // one network without "name": keyed by a type nobody else uses
			i := rng.Intn(n)
			cfg.Nets[i].NoName = true
			cfg.Nets[i].Type = "gxp-solo"
		}
		if rng.Intn(3) == 0 { // one network only present as a file in the conf dir
			i := rng.Intn(n)
			if !cfg.Nets[i].NoName {
				cfg.Nets[i].InDir = true
			}
		}
	}
	keys := cfgKeys(cfg)
	perm := rng.Perm(len(keys))
	k := 1 + rng.Intn(len(keys))
	for _, i := range perm[:k] {
		cfg.Default = append(cfg.Default, keys[i])
	}
	if rng.Intn(2) == 0 {
		cfg.ENI = keys[rng.Intn(len(keys))]
	}
	return cfg
}

func cfgKeys(cfg cni.Config) []string {
	var ks []string
	for _, n := range cfg.Nets {
		if n.InDir {
			ks = append(ks, n.Name)
		} else {
			ks = append(ks, n.Key())
		}
	}
	return ks
}

func sp(rng *rand.Rand) string {
	switch rng.Intn(6) {
	case 0:
		return " "
	case 1:
		return "\t"
	case 2:
		return "  "
	}
	return ""
}

var ifacePalette = []string{"net1", "eth5", "ens-3", "a"}

func annotationFor(rng *rand.Rand, sel []SelItem, form string) string {
	if form == "json" {
		var els []map[string]interface{}
		for _, it := range sel {
			e := map[string]interface{}{"name": it.Net}
			if it.Iface != "" {
				e["interface"] = it.Iface
			}
			if rng.Intn(3) == 0 {
				e["namespace"] = "kube-system"
			}
			if rng.Intn(4) == 0 {
				e["ips"] = "10.0.0.9"
			}
			els = append(els, e)
		}
		b, _ := json.Marshal(els)
		if rng.Intn(3) == 0 {
			return " " + string(b) + "\n"
		}
		return string(b)
	}
	var items []string
	for _, it := range sel {
		s := sp(rng)
		if rng.Intn(3) == 0 {
			s += "ns" + fmt.Sprint(rng.Intn(3)) + sp(rng) + "/"
		}
		s += sp(rng) + it.Net + sp(rng)
		if it.Iface != "" {
			s += "@" + sp(rng) + it.Iface
		}
		items = append(items, s+sp(rng))
	}
	return strings.Join(items, ",")
}

func extFor(rng *rand.Rand, p *Pod) {
	switch rng.Intn(6) {
	case 0, 1:
		v := `[{"ip":"10.0.0.3/24","vlan":0,"gateway":"10.0.0.1"}]`
		p.ExtAnn = `{"common":{"ipinfos":` + v + `}}`
		p.Ext = map[string]string{"ipinfos": v}
	case 2:
		v := `[{"ip":"10.0.0.3/24","vlan":2,"gateway":"10.0.0.1"},{"ip":"10.0.1.200/24","vlan":0,"gateway":"10.0.1.1"}]`
		p.ExtAnn = `{"request_ip_range":[["10.0.0.2~10.0.0.30"]],"common":{"ipinfos":` + v + `, "mode" : "l2 bridge"}}`
		p.Ext = map[string]string{"ipinfos": v, "mode": `"l2 bridge"`}
	case 3:
		// a pod that overrides one of kubelet's keys: the later entry must win in every plugin's parser
		p.ExtAnn = `{"common":{"IgnoreUnknown":0}}`
		p.Ext = map[string]string{"IgnoreUnknown": "0"}
	}
}

func genValidPod(rng *rand.Rand, cfg cni.Config, i int) Pod {
	p := Pod{PodSpec: cni.PodSpec{Name: fmt.Sprintf("pod-%d", i), NS: []string{"default", "kube-system", "ns1"}[rng.Intn(3)]}, Expect: "valid"}
	keys := cfgKeys(cfg)
	form := []string{"comma", "comma", "json", "json", "default", "eni"}[rng.Intn(6)]
	switch form {
	case "default":
		for _, d := range cfg.Default {
			p.Sel = append(p.Sel, SelItem{Net: d})
		}
	case "eni":
		p.WantsENI = true
		if cfg.ENI != "" {
			p.Sel = []SelItem{{Net: cfg.ENI}}
		} else {
			form = "eni-unconfigured"
			for _, d := range cfg.Default {
				p.Sel = append(p.Sel, SelItem{Net: d})
			}
		}
	default:
		k := 1 + rng.Intn(min(4, len(keys)+1))
		perm := rng.Perm(len(keys))
		for j := 0; j < k; j++ {
			it := SelItem{Net: keys[perm[j%len(perm)]]}
			if rng.Intn(10) == 0 {
				it.Net = keys[rng.Intn(len(keys))] // occasionally the same network twice
			}
			if rng.Intn(2) == 0 {
				it.Iface = ifacePalette[rng.Intn(len(ifacePalette))]
			}
			p.Sel = append(p.Sel, it)
		}
		p.Ann = annotationFor(rng, p.Sel, form)
		if rng.Intn(4) == 0 {
			p.WantsENI = true // the annotation takes precedence over the ENI network
		}
	}
	p.Form = form
	extFor(rng, &p)
	return p
}

// malformed / boundary pods: the generator knows they must be rejected ("invalid") or does not claim to know ("unknown")
func genOddPod(rng *rand.Rand, cfg cni.Config, i int) Pod {
	p := Pod{PodSpec: cni.PodSpec{Name: fmt.Sprintf("odd-%d", i), NS: "default"}, Expect: "invalid", Form: "malformed"}
	k := cfgKeys(cfg)[0]
	bad := []string{
		"nope", k + ",nope", "a/b/" + k, k + "@a@b", strings.ToUpper(k) + "X", "-" + k, k + "-", k + "@-if", "ns_1/" + k, k + " " + k,
		"[null]", `[{"name":"` + k + `"},null]`, `{"name":"` + k + `"}`, `"` + k + `"`, "[]", `[{"name":"nope"}]`, `[{"name":` + k + `}]`, `[{"name":"` + k + `"}`,
		`[{"name":7}]`, "null", k + ";" + k,
	}
	// an empty network name matches any file of the conf dir: the generator does not claim to know these
	unknown := []string{k + ",", "," + k, k + ",," + k, " ", `[{"interface":"eth9"}]`, "@if0", `[{"name":""}]`}
	switch r := rng.Intn(len(bad) + len(unknown) + 3); {
	case r < len(bad):
		p.Ann = bad[r]
	case r < len(bad)+len(unknown):
		p.Ann = unknown[r-len(bad)]
		p.Expect = "unknown"
		p.Form = "boundary"
	default:
		p.Ann = k
		p.ExtAnn = []string{`{"common":`, `{"common":[1]}`, `[]`}[r-len(bad)-len(unknown)]
		p.Form = "malformed-args"
	}
	// an empty name matches any file of the conf dir: only then can those be valid
	return p
}

func randBits(rng *rand.Rand, n int) string {
	if rng.Intn(5) < 2 {
		return ""
	}
	b := make([]byte, n)
	for i := range b {
		b[i] = '1'
		if rng.Intn(4) == 0 {
			b[i] = '0'
		}
	}
	return string(b)
}

func genHistory(rng *rand.Rand, mode string, maxN int) *History {
	n := 1 + rng.Intn(maxN)
	h := &History{Mode: mode, Cfg: genConfig(rng, n, false)}
	nc := 2 + rng.Intn(3)
	for i := 0; i < nc; i++ {
		if rng.Intn(8) == 0 {
			h.Pods = append(h.Pods, genOddPod(rng, h.Cfg, i))
		} else {
			h.Pods = append(h.Pods, genValidPod(rng, h.Cfg, i))
		}
		h.Conts = append(h.Conts, Cont{Label: fmt.Sprintf("c%d", i), Pod: i})
	}
	added := map[int]bool{}
	nr := 6 + rng.Intn(9)
	for i := 0; i < nr; i++ {
		c := rng.Intn(nc)
		cmd := "ADD"
		if added[c] {
			if rng.Intn(4) != 0 {
				cmd = "DEL"
			}
		} else if rng.Intn(4) == 0 {
			cmd = "DEL"
		}
		ifn := "eth0"
		if rng.Intn(5) == 0 {
			ifn = "ens3"
		}
		h.Reqs = append(h.Reqs, Req{Cmd: cmd, C: c, Bits: randBits(rng, 10), IfName: ifn})
		if cmd == "ADD" {
			added[c] = true
		} else if rng.Intn(2) == 0 {
			added[c] = false
		}
	}
	return h
}

// exhaustive: every ADD failure pattern (first failing ADD m, every outcome of the m+1 rollback DELs) and every
// DEL failure pattern followed by retries, for a pod selecting all n networks.
func exhaustiveHistory(rng *rand.Rand, n int, form string, retryDepth int) *History {
	h := &History{Mode: "seq", Cfg: genConfig(rng, n, true), Note: fmt.Sprintf("exhaustive N=%d %s", n, form)}
	var sel []SelItem
	for i, k := range cfgKeys(h.Cfg) {
		it := SelItem{Net: k}
		if i%2 == 1 {
			it.Iface = fmt.Sprintf("net%d", i)
		}
		sel = append(sel, it)
	}
	mk := func() int {
		i := len(h.Pods)
		p := Pod{PodSpec: cni.PodSpec{Name: fmt.Sprintf("pod-%d", i), NS: "default"}, Expect: "valid", Sel: sel, Form: form}
		if form == "default" {
			p.Sel = nil
			for _, d := range h.Cfg.Default {
				p.Sel = append(p.Sel, SelItem{Net: d})
			}
		} else {
			p.Ann = annotationFor(rng, sel, form)
		}
		if i%2 == 0 {
			extFor(rng, &p)
		}
		h.Pods = append(h.Pods, p)
		h.Conts = append(h.Conts, Cont{Label: fmt.Sprintf("c%d", i), Pod: i})
		return i
	}
	if form == "default" {
		h.Cfg.Default = cfgKeys(h.Cfg)
		h.Cfg.ENI = ""
	}
	ones := func(k int) string { return strings.Repeat("1", k) }
	// ADD patterns
	for m := 0; m < n; m++ {
		for mask := 0; mask < 1<<(m+1); mask++ {
			bits := ones(m) + "0"
			for j := 0; j <= m; j++ {
				if mask>>j&1 == 1 {
					bits += "0"
				} else {
					bits += "1"
				}
			}
			c := mk()
			h.Reqs = append(h.Reqs, Req{Cmd: "ADD", C: c, Bits: bits, IfName: "eth0"})
			h.Reqs = append(h.Reqs, Req{Cmd: "DEL", C: c, IfName: "eth0"}) // cleans up what the rollback could not
			h.Reqs = append(h.Reqs, Req{Cmd: "DEL", C: c, IfName: "eth0"})
		}
	}
	// DEL patterns with retries
	var chains [][]string
	var rec func(left int, depth int, cur []string)
	rec = func(left, depth int, cur []string) {
		if left == 0 || depth == 0 {
			chains = append(chains, append([]string{}, cur...))
			return
		}
		for mask := 0; mask < 1<<left; mask++ {
			bits, fails := "", 0
			for j := 0; j < left; j++ {
				if mask>>j&1 == 1 {
					bits += "0"
					fails++
				} else {
					bits += "1"
				}
			}
			rec(fails, depth-1, append(cur, bits))
		}
	}
	rec(n, retryDepth, nil)
	for _, ch := range chains {
		c := mk()
		h.Reqs = append(h.Reqs, Req{Cmd: "ADD", C: c, IfName: "eth0"})
		for _, b := range ch {
			h.Reqs = append(h.Reqs, Req{Cmd: "DEL", C: c, Bits: b, IfName: "eth0"})
		}
		h.Reqs = append(h.Reqs, Req{Cmd: "DEL", C: c, IfName: "eth0"}, Req{Cmd: "DEL", C: c, IfName: "eth0"})
	}
	return h
}

// sharedPrefixHistory: the D5 shape — container A establishes x,y; container B then uses y first.
func sharedNetworkHistory(rng *rand.Rand, n int) *History {
	h := &History{Mode: "seq", Cfg: genConfig(rng, n, false), Note: "networks shared between containers at different positions"}
	keys := cfgKeys(h.Cfg)
	for i := 0; i < 4; i++ {
		var sel []SelItem
		perm := rng.Perm(len(keys))
		for _, j := range perm {
			sel = append(sel, SelItem{Net: keys[j]})
		}
		if i%2 == 1 {
			sel = sel[len(sel)-1:]
		}
		p := Pod{PodSpec: cni.PodSpec{Name: fmt.Sprintf("pod-%d", i), NS: "default"}, Expect: "valid", Sel: sel, Form: []string{"comma", "json"}[i%2]}
		p.Ann = annotationFor(rng, sel, p.Form)
		h.Pods = append(h.Pods, p)
		h.Conts = append(h.Conts, Cont{Label: fmt.Sprintf("c%d", i), Pod: i})
	}
	for _, c := range []int{0, 1, 2, 3, 1, 3, 0, 2} {
		cmd := "ADD"
		if len(h.Reqs) >= 4 {
			cmd = "DEL"
		}
		h.Reqs = append(h.Reqs, Req{Cmd: cmd, C: c, IfName: "eth0", Bits: ""})
	}
	return h
}

// ---------------------------------------------------------------- main

func run(e *hx.Env) *hx.Report {
	rep := hx.NewReport(prop, e.Tier, e.Seed,
		"a request is nontrivial if it caused at least two plugin invocations or hit an injected plugin failure; distinct by canonical invocation list")
	env, err := cni.Setup(e.Seed)
	if err != nil {
		rep.Disagree = append(rep.Disagree, hx.Disagreement{Where: "harness-setup", Impl: err.Error()})
		return rep
	}
	defer env.Close()
	c := &checker{e: e, env: env, rep: rep}

	load := func(path string) (*History, error) {
		ops, err := hx.ReadOps(path)
		if err != nil || len(ops) == 0 {
			return nil, fmt.Errorf("%s: no history: %v", path, err)
		}
		var h History
		if err := json.Unmarshal([]byte(ops[0]), &h); err != nil {
			return nil, fmt.Errorf("%s: %v", path, err)
		}
		return &h, nil
	}

	if e.Replay != "" {
		h, err := load(e.Replay)
		if err != nil {
			rep.Disagree = append(rep.Disagree, hx.Disagreement{Where: "replay", Impl: err.Error()})
			return rep
		}
		c.check(h, true)
		rep.Extra["replay"] = e.Replay
		return rep
	}

	// 1. corpus
	root := os.Getenv("VERIF_ROOT")
	if root == "" {
		root = "/verif"
	}
	files, _ := filepath.Glob(filepath.Join(root, "corpus", prop, "*.ops"))
	sort.Strings(files)
	for _, f := range files {
		h, err := load(f)
		if err != nil {
			rep.Disagree = append(rep.Disagree, hx.Disagreement{Where: "corpus", Impl: err.Error()})
			continue
		}
		rep.Hit("corpus")
		c.check(h, true)
	}

	// 2. every failure pattern, small scope
	maxN := e.N(3, 4)
	depth := e.N(2, 3)
	for n := 1; n <= maxN; n++ {
		for _, form := range []string{"comma", "json", "default"} {
			if !e.Thorough() && n == 3 && form == "default" {
				continue
			}
			c.check(exhaustiveHistory(e.Rng, n, form, depth), false)
			rep.Hit("exhaustive:" + form)
		}
	}
	rep.Exhaustive = false
	rep.Extra["exhaustive_scope"] = fmt.Sprintf("every first-failing ADD index with every rollback-DEL outcome, and every DEL failure pattern with %d levels of retry, for N <= %d networks", depth, maxN)

	// 3. networks shared between containers (the D5 shape), with isolation replay
	for i := 0; i < e.N(4, 20); i++ {
		c.check(sharedNetworkHistory(e.Rng, 2+e.Rng.Intn(3)), true)
	}

	// 4. random interleaved histories of up to 4 containers, with isolation replay
	for i := 0; i < e.N(30, 400); i++ {
		c.check(genHistory(e.Rng, "seq", 4), true)
	}

	// 5. concurrent requests for different containers
	for i := 0; i < e.N(6, 150); i++ {
		c.check(genHistory(e.Rng, "conc", 4), e.Thorough())
	}
	return rep
}

func main() { hx.Main(prop, run) }
