// c10: property C10 ("cloud-provider assign/unassign calls are well ordered per IP").
//   - correspondence of the real plugin (recording provider that fails on demand) with the core Lean model through
//     gxdrv_plugin (results, provider logs per address, provider state, full digest after every step);
//   - monitor: the REAL call log replayed through the per-IP state machine, bound live pods' addresses assigned to their
//     node, every release / re-key preceded by an unassign;
//   - histories: pods moving between three nodes of one subnet, old-pod events before / after the new pod's binding,
//     10 % clean provider failures with retries; thorough: all sequences <= 6 over one identity and two nodes.
package main

import (
	"fmt"
	"os"
	"path/filepath"
	"sort"
	"time"

	"gxverif/hx"
	"gxverif/plugin"
	"gxverif/pluginc07"
)

const rule = "a history is nontrivial iff at least 3 of its operations (lister syncs not counted) succeeded; distinct by the text of its op lines"

func main() {
	hx.Main("C10", func(e *hx.Env) *hx.Report {
		r := hx.NewReport("C10", e.Tier, e.Seed, rule)
		mon := pluginc07.MonitorC10
		if e.Replay != "" {
			pluginc07.RunFileWith(e, r, e.Replay, mon, false, plugin.Execute, pluginc07.CoreDriver)
			return r
		}
		root := os.Getenv("VERIF_ROOT")
		if root == "" {
			root = "/verif"
		}
		files, _ := filepath.Glob(filepath.Join(root, "corpus", "C10", "*.ops"))
		sort.Strings(files)
		for _, f := range files {
			pluginc07.RunFileWith(e, r, f, mon, true, plugin.Execute, pluginc07.CoreDriver)
		}
		t0 := time.Now()
		lap := func(what string) {
			fmt.Fprintf(os.Stderr, "C10: %s %.1fs\n", what, time.Since(t0).Seconds())
			t0 = time.Now()
		}
		p := pluginc07.C10Params{Len: 50, PFaultPct: 10, MultiPct: 0, RebindPct: 0}
		b := pluginc07.RunHistoriesWith(e, "C10", "h", e.N(900, 20000), pluginc07.C10Histories(p), mon, plugin.Execute, pluginc07.CoreDriver)
		b.Fill(r)
		lap("histories (single address per pod, retries on the same node)")
		p2 := pluginc07.C10Params{Len: 50, PFaultPct: 15, MultiPct: 30, RebindPct: 25}
		b2 := pluginc07.RunHistoriesWith(e, "C10", "x", e.N(500, 10000), pluginc07.C10Histories(p2), mon, plugin.Execute, pluginc07.CoreDriver)
		b2.Fill(r)
		lap("histories (two-address pods, retries on other nodes)")
		p3 := pluginc07.C10Params{Len: 50, PFaultPct: 10, FaultPct: 8, MultiPct: 0, RebindPct: 0}
		b3 := pluginc07.RunHistoriesWith(e, "C10", "f", e.N(600, 12000), pluginc07.C10Histories(p3), mon, plugin.Execute, pluginc07.CoreDriver)
		b3.Fill(r)
		lap("histories (apiserver faults + provider faults, single address per pod)")
		if e.Thorough() {
			pluginc07.ExhaustiveC10(e, r, "C10", mon, 8, 8*60)
			lap("small-scope exhaustive")
		}
		return r
	})
}
