// c04: correspondence of the real galaxy-ipam scheduler plugin with the Lean model M4-core (gxdrv_plugin) and the
// monitor of property C04 (a live pod's IP is never released, re-keyed or handed on).
package main

import (
	"gxverif/hx"
	"gxverif/plugin"
)

func main() {
	hx.Main("C04", func(e *hx.Env) *hx.Report {
		return plugin.RunProperty(e, "C04", plugin.MonitorC04)
	})
}
