// c18 — harness of property C18 "no request, watched object or configuration can crash or wedge a daemon".
//
// SUPPORT (labelled as such; the proof part is Props/C18.lean): a watchdog differential run.  For every parsing
// surface a malformed byte stream (mutation of valid documents: truncation, type flips, huge numbers, deep nesting,
// systematic null injection at every JSON position, extreme values, empty strings, very long names, owner references
// of every kind) and for every typed surface a typed-object generator.  Every case runs in a child process (worker.go)
// under recover + a 2 s watchdog and is followed by a follow-up call on the SAME instance which must still answer.
// Outcome class ∈ {result, error}; anything else is a violation
//
//	panic:<surface>:<top product frame>   hang:<surface>[:huge-range]   wedged:<surface>   crash:<surface>:<frame>
//
// whose input is minimised and written as a replay file.  Plus the correspondence of the M10 model functions
// (gxdrv_total) with the real Go functions on generated inputs (corr.go).
package main

import (
	"bufio"
	"bytes"
	"encoding/base64"
	"encoding/binary"
	"encoding/json"
	"fmt"
	"io"
	"math/rand"
	"net"
	"net/url"
	"os"
	"os/exec"
	"path/filepath"
	"regexp"
	"sort"
	"strings"
	"sync"
	"time"

	metav1 "k8s.io/apimachinery/pkg/apis/meta/v1"

	"gxverif/hx"
	"gxverif/lockset"
	"gxverif/total"
)

const rule = "a case is nontrivial when its input is not one of the unmodified seed documents and the real code answered " +
	"with class result or error (it was accepted or rejected by galaxy code, not skipped); counted once per distinct (surface, input)"

type job struct {
	surface string
	input   []byte
	tag     string
	seed    bool
	patient bool // re-run of a case that did not answer in time: 12 s watchdog (tells a slow machine from a hang)
}

// ---------------------------------------------------------------- worker pool

type proc struct {
	cmd    *exec.Cmd
	in     io.WriteCloser
	out    *bufio.Reader
	stderr *tailBuf
}

type tailBuf struct {
	mu sync.Mutex
	b  []byte
}

func (t *tailBuf) Write(p []byte) (int, error) {
	t.mu.Lock()
	t.b = append(t.b, p...)
	if len(t.b) > 1<<16 {
		t.b = t.b[len(t.b)-1<<15:]
	}
	t.mu.Unlock()
	return len(p), nil
}
func (t *tailBuf) String() string { t.mu.Lock(); defer t.mu.Unlock(); return string(t.b) }

func startProc() (*proc, error) {
	cmd := exec.Command(os.Args[0], "-worker")
	cmd.Env = append(os.Environ(), "GOMEMLIMIT=1GiB", "GOMAXPROCS=2")
	in, err := cmd.StdinPipe()
	if err != nil {
		return nil, err
	}
	out, err := cmd.StdoutPipe()
	if err != nil {
		return nil, err
	}
	tb := &tailBuf{}
	cmd.Stderr = tb
	if err := cmd.Start(); err != nil {
		return nil, err
	}
	return &proc{cmd: cmd, in: in, out: bufio.NewReaderSize(out, 1<<20), stderr: tb}, nil
}

func (p *proc) kill() {
	if p == nil {
		return
	}
	p.in.Close()
	p.cmd.Process.Kill()
	p.cmd.Wait()
}

// slot is one worker seat: it owns (and restarts) one child process.
type slot struct{ p *proc }

func (s *slot) do(j job) outcome {
	if s.p == nil {
		p, err := startProc()
		if err != nil {
			return outcome{Class: "skip", Detail: "cannot start worker: " + err.Error()}
		}
		s.p = p
	}
	line := j.surface + " " + base64.StdEncoding.EncodeToString(j.input)
	wait := 16 * time.Second
	if j.patient {
		line += " 12s"
		wait = 40 * time.Second
	}
	line += "\n"
	if _, err := io.WriteString(s.p.in, line); err != nil {
		st := s.p.stderr.String()
		s.p.kill()
		s.p = nil
		return outcome{Class: "crash", Detail: st}
	}
	type rd struct {
		l   string
		err error
	}
	ch := make(chan rd, 1)
	p := s.p
	go func() { l, err := p.out.ReadString('\n'); ch <- rd{l, err} }()
	select {
	case r := <-ch:
		if r.err != nil {
			time.Sleep(20 * time.Millisecond)
			st := s.p.stderr.String()
			s.p.kill()
			s.p = nil
			return outcome{Class: "crash", Detail: st}
		}
		var o outcome
		if json.Unmarshal([]byte(r.l), &o) != nil {
			o = outcome{Class: "skip", Detail: "bad answer: " + r.l}
		}
		if o.Exit {
			s.p.kill()
			s.p = nil
		}
		return o
	case <-time.After(wait):
		s.p.kill()
		s.p = nil
		return outcome{Class: "hang", Detail: "worker did not answer in time"}
	}
}

// ---------------------------------------------------------------- signatures

var productFrame = regexp.MustCompile(`tkestack\.io/galaxy/(pkg/[^\s(]+(?:\(\*?\w+\))?[^\s(]*)\(`)

func topFrame(stack string) string {
	lines := strings.Split(stack, "\n")
	for i, l := range lines {
		m := productFrame.FindStringSubmatch(l)
		if m == nil {
			continue
		}
		file := ""
		if i+1 < len(lines) {
			file = lines[i+1]
		}
		if strings.Contains(file, "verif_hooks") || strings.Contains(m[1], "/testing") || strings.Contains(l, "context.CreateTest") {
			continue
		}
		f := m[1]
		f = regexp.MustCompile(`(\.func\d+)+(\.\d+)*$`).ReplaceAllString(f, "")
		return f
	}
	return "?"
}

var rangeRe = regexp.MustCompile(`(\d{1,3}\.\d{1,3}\.\d{1,3}\.\d{1,3})~(\d{1,3}\.\d{1,3}\.\d{1,3}\.\d{1,3})`)

func ip4(s string) (uint32, bool) {
	ip := net.ParseIP(s).To4()
	if ip == nil {
		return 0, false
	}
	return binary.BigEndian.Uint32(ip), true
}

// hugeRange: does the input mention an IPv4 range spanning at least 2^bits addresses?
func hugeRange(in []byte, bits uint) bool {
	for _, m := range rangeRe.FindAllSubmatch(in, -1) {
		a, ok1 := ip4(string(m[1]))
		b, ok2 := ip4(string(m[2]))
		if ok1 && ok2 && b >= a && uint64(b-a)+1 >= 1<<bits {
			return true
		}
	}
	// ipv6 ranges are walked over their low 32 bits
	if bytes.Contains(in, []byte("::")) && bytes.Contains(in, []byte("~")) {
		for _, m := range regexp.MustCompile(`([0-9a-fA-F:.]*:[0-9a-fA-F:.]*)~([0-9a-fA-F:.]*:[0-9a-fA-F:.]*)`).FindAllSubmatch(in, -1) {
			a, b := net.ParseIP(string(m[1])), net.ParseIP(string(m[2]))
			if a != nil && b != nil {
				x, y := binary.BigEndian.Uint32(a.To16()[12:]), binary.BigEndian.Uint32(b.To16()[12:])
				if y >= x && uint64(y-x)+1 >= 1<<bits {
					return true
				}
			}
		}
	}
	return false
}

func hugeBits(surface string) uint {
	if surface == "conf" || surface == "staticconf" {
		return 19
	}
	return 22
}

func signature(j job, o outcome) string {
	if lockset.FakeWatcherArtefact(o.Detail) || lockset.FakeWatcherArtefact(o.FDet) {
		return "" // client-go's fake watcher ran out of buffer: inconclusive, never a violation (counted in the histogram)
	}
	switch {
	case o.Class == "panic":
		return "panic:" + j.surface + ":" + topFrame(o.Detail)
	case o.Class == "crash":
		if i := strings.Index(o.Detail, "fatal error: "); i >= 0 {
			// the Go runtime killed the process (not a panic: nothing can recover it)
			line := o.Detail[i+len("fatal error: "):]
			if k := strings.IndexByte(line, '\n'); k >= 0 {
				line = line[:k]
			}
			return "fatal:" + j.surface + ":" + strings.ReplaceAll(strings.TrimSpace(line), " ", "-")
		}
		return "crash:" + j.surface + ":" + topFrame(o.Detail)
	case o.Class == "hang":
		if hugeRange(j.input, hugeBits(j.surface)) {
			return "hang:" + j.surface + ":huge-range"
		}
		return "hang:" + j.surface
	case o.Follow == "wedged":
		return "wedged:" + j.surface
	case o.Follow == "panic":
		return "panic:" + j.surface + ":followup:" + topFrame(o.FDet)
	}
	return ""
}

// ---------------------------------------------------------------- generators

var seedPods = func() [][]byte {
	r := rand.New(rand.NewSource(7))
	var out [][]byte
	for i := 0; i < 6; i++ {
		p := total.GenPod(r)
		p.Name = []string{"a-0", "b-1", "dp-rs1-x1", "solo", "tapp-3", "a-2"}[i]
		p.Namespace = "ns1"
		if p.Annotations == nil {
			p.Annotations = map[string]string{}
		}
		p.Annotations[total.ArgsAnn] = total.ArgsSeeds[i%len(total.ArgsSeeds)]
		out = append(out, total.PodJSON(p))
	}
	return out
}()

var releaseSeeds = []string{
	`{"ips":[{"ip":"10.49.27.205","namespace":"ns1","appName":"a","podName":"a-0","appType":"statefulset","poolName":""}]}`,
	`{"ips":[{"ip":"10.0.70.3","namespace":"ns1","appName":"dp","podName":"dp-rs1-x1","appType":"deployment","poolName":"pool1","policy":2},{"ip":"10.0.70.4","appType":"tapp"}]}`,
	`{"ips":[]}`,
}

var poolSeeds = []string{`{"name":"pool1","size":2,"preAllocateIP":true}`, `{"name":"pool2","size":0}`, `{"name":"","size":-1,"preAllocateIP":false}`}

var policySeeds = func() [][]byte {
	r := rand.New(rand.NewSource(11))
	var out [][]byte
	for i := 0; i < 5; i++ {
		b, _ := json.Marshal(total.GenPolicy(r))
		out = append(out, b)
	}
	out = append(out, []byte(`{"metadata":{"name":"eg","namespace":"ns1"},"spec":{"podSelector":{"matchLabels":{"app":"web"}},"policyTypes":["Egress"],"ingress":[{"from":[{"podSelector":{"matchLabels":{"app":"db"}}},{"namespaceSelector":{"matchLabels":{"team":"x"}}}],"ports":[{"protocol":"TCP","port":80}]}],"egress":[{"to":[{"ipBlock":{"cidr":"10.0.0.0/8","except":["10.1.0.0/16"]}}]}]}}`))
	return out
}()

func genQuery(r *rand.Rand) []byte {
	v := url.Values{}
	str := func() string {
		if r.Intn(2) == 0 {
			return total.ExtremeStrings[r.Intn(len(total.ExtremeStrings))]
		}
		return []string{"a", "ns1", "a-0", "pool1", "statefulset", "deployment", "tapp", "", "dp"}[r.Intn(9)]
	}
	num := func() string {
		if r.Intn(3) == 0 {
			return total.ExtremeStrings[r.Intn(len(total.ExtremeStrings))]
		}
		return total.ExtremeNumbers[r.Intn(len(total.ExtremeNumbers))]
	}
	for _, k := range []string{"keyword", "poolName", "appName", "podName", "namespace", "appType"} {
		if r.Intn(3) == 0 {
			v.Set(k, str())
		}
	}
	if r.Intn(2) == 0 {
		v.Set("page", num())
	}
	if r.Intn(2) == 0 {
		v.Set("size", num())
	}
	if r.Intn(2) == 0 {
		v.Set("sort", []string{"ip asc", "ip desc", "namespace asc", "podname desc", "policy asc", "updatetime desc", "", "bogus", "ip", " asc", "ip asc desc"}[r.Intn(11)])
	}
	q := v.Encode()
	if r.Intn(8) == 0 {
		q = string(total.MutateBytes(r, []byte(q)))
	}
	return []byte(q)
}

func pickS(r *rand.Rand, xs []string) string { return xs[r.Intn(len(xs))] }
func pickB(r *rand.Rand, xs [][]byte) []byte { return xs[r.Intn(len(xs))] }

// genCase produces one generated case for a surface.
func genCase(r *rand.Rand, surface, cniPath string) job {
	mut := func(seed []byte, pool []string) job {
		switch r.Intn(10) {
		case 0:
			return job{surface: surface, input: total.MutateBytes(r, seed), tag: "bytes"}
		case 1:
			return job{surface: surface, input: seed[:r.Intn(len(seed)+1)], tag: "trunc"}
		}
		b, tag := total.Mutate(r, seed, pool)
		return job{surface: surface, input: b, tag: tag}
	}
	podCase := func() job {
		if surface != "cnipod" && r.Intn(10) < 4 {
			return job{surface: surface, input: total.PodJSON(total.GenValidPod(r)), tag: "typed-valid"}
		}
		if r.Intn(10) < 6 {
			return job{surface: surface, input: total.PodJSON(total.GenPod(r)), tag: "typed"}
		}
		return mut(pickB(r, seedPods), total.ArgsDomain)
	}
	switch surface {
	case "conf":
		return mut([]byte(pickS(r, total.ConfSeeds)), total.ConfDomain)
	case "staticconf":
		j := mut([]byte(pickS(r, total.ConfSeeds)), total.ConfDomain)
		j.input = []byte(`{"floatingips":` + string(j.input) + `,"resyncInterval":1}`)
		if r.Intn(6) == 0 {
			j.input, _ = total.Mutate(r, j.input, total.ConfDomain)
		}
		return j
	case "keyedlocks":
		// deployment pods with a reserving policy / a pool (they take the pod lock and then the deployment / pool lock)
		p := total.GenValidPod(r)
		p.Name = fmt.Sprintf("dp-rs1-x%d", r.Intn(20))
		p.OwnerReferences = []metav1.OwnerReference{{Kind: "ReplicaSet", Name: "dp-rs1"}}
		p.Annotations = map[string]string{total.PolicyAnn: pickS(r, []string{"immutable", "never"})}
		if r.Intn(3) == 0 {
			p.Annotations[total.PoolAnn] = pickS(r, []string{"pool1", "pool2"})
		}
		return job{surface: surface, input: total.PodJSON(p), tag: "typed-valid"}
	case "filter", "bind", "unbind", "podevent", "syncpodip", "resync", "cnipod":
		return podCase()
	case "listips":
		return job{surface: surface, input: genQuery(r), tag: "typed"}
	case "releaseips":
		return mut([]byte(pickS(r, releaseSeeds)), []string{"10.49.27.205", "statefulset", "deployment", "tapp", "a-0", "NULL", "null", "pod", "255.255.255.255"})
	case "pool":
		verb := byte(r.Intn(3))
		if verb == 0 {
			j := mut([]byte(pickS(r, poolSeeds)), nil)
			j.input = append([]byte{verb}, j.input...)
			return j
		}
		return job{surface: surface, input: append([]byte{verb}, pickS(r, append([]string{"pool1", "pool2"}, total.ExtremeStrings...))...), tag: "name"}
	case "policy":
		if r.Intn(10) < 7 {
			b, _ := json.Marshal(total.GenPolicy(r))
			return job{surface: surface, input: b, tag: "typed"}
		}
		return mut(pickB(r, policySeeds), []string{"Ingress", "Egress", "TCP", "UDP", "10.0.0.0/8", "In", "Exists"})
	case "cni", "cnireq":
		b := total.GenCNIBody(r, cniPath)
		if r.Intn(10) < 6 {
			return job{surface: surface, input: b, tag: "typed"}
		}
		return mut(b, []string{"ADD", "DEL", "K8S_POD_NAME=p1;K8S_POD_NAMESPACE=ns1", cniPath})
	case "networks":
		switch r.Intn(4) {
		case 0:
			return job{surface: surface, input: []byte(pickS(r, total.ExtremeStrings)), tag: "extreme"}
		case 1:
			return job{surface: surface, input: total.MutateBytes(r, []byte(pickS(r, total.NetworksSeeds))), tag: "bytes"}
		}
		return mut([]byte(pickS(r, total.NetworksSeeds)), []string{"net-a", "net-b", "net-fail", "eth1"})
	case "iprange", "ipnet":
		base := append(append([]string{}, total.ConfDomain...), total.ExtremeStrings...)
		s := pickS(r, base)
		switch r.Intn(4) {
		case 0:
			return job{surface: surface, input: []byte(s), tag: "raw"}
		case 1:
			q, _ := json.Marshal(s)
			return job{surface: surface, input: q, tag: "quoted"}
		case 2:
			q, _ := json.Marshal(s)
			return job{surface: surface, input: total.MutateBytes(r, q), tag: "bytes"}
		}
		return job{surface: surface, input: []byte(`{"a":"` + s + `","b":["` + s + `",null]}`), tag: "embedded"}
	case "cniargs":
		return mut([]byte(pickS(r, total.ArgsSeeds)), total.ArgsDomain)
	case "parsecniargs":
		s := pickS(r, []string{"IgnoreUnknown=1;K8S_POD_NAMESPACE=ns1;K8S_POD_NAME=p1", "a=b", "", ";", "a=b=c;d", "=;=", " a = b ; c = d "})
		if r.Intn(2) == 0 {
			s = string(total.MutateBytes(r, []byte(s)))
		}
		return job{surface: surface, input: []byte(s), tag: "bytes"}
	}
	return job{surface: surface, input: nil, tag: "?"}
}

// systematic: seeds themselves, null at every JSON position, null elements in every array
func systematic(surface string) []job {
	var seeds [][]byte
	wrap := func(b []byte) []byte { return b }
	switch surface {
	case "conf":
		for _, s := range total.ConfSeeds {
			seeds = append(seeds, []byte(s))
		}
	case "staticconf":
		for _, s := range total.ConfSeeds {
			seeds = append(seeds, []byte(`{"floatingips":`+s+`,"resyncInterval":1}`))
		}
	case "filter", "bind", "unbind", "podevent", "syncpodip", "cnipod":
		seeds = seedPods
	case "releaseips":
		for _, s := range releaseSeeds {
			seeds = append(seeds, []byte(s))
		}
	case "pool":
		for _, s := range poolSeeds {
			seeds = append(seeds, []byte(s))
		}
		wrap = func(b []byte) []byte { return append([]byte{0}, b...) }
	case "policy":
		seeds = policySeeds
	case "cniargs":
		for _, s := range total.ArgsSeeds {
			seeds = append(seeds, []byte(s))
		}
	case "networks":
		for _, s := range total.NetworksSeeds {
			seeds = append(seeds, []byte(s))
		}
	case "cni", "cnireq":
		r := rand.New(rand.NewSource(5))
		for i := 0; i < 3; i++ {
			seeds = append(seeds, total.GenCNIBody(r, "/nonexistent"))
		}
	}
	var out []job
	for _, s := range seeds {
		out = append(out, job{surface: surface, input: wrap(s), tag: "seed", seed: true})
		for _, v := range total.NullInjections(s) {
			out = append(out, job{surface: surface, input: wrap(v), tag: "sys-null"})
		}
		for _, v := range total.ElementNullInjections(s) {
			out = append(out, job{surface: surface, input: wrap(v), tag: "sys-nullelem"})
		}
	}
	// pods: the args annotation is JSON inside a string: inject nulls there too
	if surface == "filter" || surface == "bind" || surface == "syncpodip" || surface == "unbind" {
		for _, a := range total.ArgsSeeds {
			docs := append(total.NullInjections([]byte(a)), total.ElementNullInjections([]byte(a))...)
			for _, v := range docs {
				var pod map[string]interface{}
				json.Unmarshal(seedPods[0], &pod)
				md := pod["metadata"].(map[string]interface{})
				ann, _ := md["annotations"].(map[string]interface{})
				if ann == nil {
					ann = map[string]interface{}{}
					md["annotations"] = ann
				}
				ann[total.ArgsAnn] = string(v)
				b, _ := json.Marshal(pod)
				out = append(out, job{surface: surface, input: b, tag: "sys-null-args"})
			}
		}
	}
	return out
}

// budget: cases per surface (quick / thorough), scaled down for the surfaces whose single case is expensive
func budget(e *hx.Env, surface string) int {
	n := e.N(2000, 200000)
	switch surface {
	case "keyedlocks":
		return n / 40
	case "staticconf", "cnipod", "resync":
		return n / 10
	case "cni", "policy":
		return n / 4
	case "bind", "conf":
		return n / 2
	}
	return n
}

// ---------------------------------------------------------------- run

type finding struct {
	sig   string
	j     job
	o     outcome
	count int
}

func run(e *hx.Env) *hx.Report {
	r := hx.NewReport("C18", e.Tier, e.Seed, rule)
	cniPath := filepath.Join(rootDir(), "out", fmt.Sprintf("c18cni-%d", os.Getpid()))
	os.MkdirAll(cniPath, 0o755)
	os.WriteFile(filepath.Join(cniPath, "gxfake"), []byte(fakePlugin), 0o755)
	os.Setenv("GX_CNI_PATH", cniPath)
	defer os.RemoveAll(cniPath)
	defer cleanState()
	if e.Replay != "" {
		return replay(e, r)
	}
	lockset.Quiet()
	corrPart(e, r)
	lockTablePart(e, r)
	live := hx.NewReport("C18", e.Tier, e.Seed, "")
	liveDone := make(chan struct{})
	go func() { defer close(liveDone); livenessPart(e, live) }()
	names := []string{}
	for _, s := range surfaces {
		names = append(names, s.name)
	}
	// job stream: corpus, systematic, generated (deterministic order from e.Rng)
	jobs := make(chan job, 256)
	go func() {
		defer close(jobs)
		if files, _ := filepath.Glob(filepath.Join(rootDir(), "corpus", "C18", "*.ops")); len(files) > 0 {
			sort.Strings(files)
			for _, f := range files {
				ops, _ := hx.ReadOps(f)
				for _, o := range ops {
					if j, ok := parseCaseOp(o); ok {
						j.tag = "corpus"
						jobs <- j
					}
				}
			}
		}
		for _, s := range names {
			for _, j := range systematic(s) {
				jobs <- j
			}
		}
		remaining := map[string]int{}
		for _, s := range names {
			remaining[s] = budget(e, s)
		}
		for {
			any := false
			for _, s := range names {
				if remaining[s] <= 0 {
					continue
				}
				any = true
				for k := 0; k < 50 && remaining[s] > 0; k++ {
					jobs <- genCase(e.Rng, s, cniPath)
					remaining[s]--
				}
			}
			if !any {
				return
			}
		}
	}()

	nWorkers := 6
	if e.Thorough() {
		nWorkers = 10
	}
	var mu sync.Mutex
	found := map[string]*finding{}
	hangSeen := map[string]int{}
	hangBudget := 12 // confirmed hangs / wedges of a shape that is not skipped by prediction
	var wg sync.WaitGroup
	for w := 0; w < nWorkers; w++ {
		wg.Add(1)
		go func() {
			defer wg.Done()
			s := &slot{}
			defer func() { s.p.kill() }()
			for j := range jobs {
				// inputs predicted to reproduce an already recorded hang are not run again (each costs the watchdog time)
				if hugeRange(j.input, hugeBits(j.surface)) {
					key := "hang:" + j.surface + ":huge-range"
					mu.Lock()
					n := hangSeen[key]
					mu.Unlock()
					if n >= 2 {
						mu.Lock()
						r.Hit("skipped-known-hang:" + j.surface)
						mu.Unlock()
						continue
					}
				}
				mu.Lock()
				stop := hangBudget <= 0
				mu.Unlock()
				if stop {
					// enough confirmed hangs: every further one costs the watchdog time and adds nothing
					mu.Lock()
					r.Hit("skipped-after-hang-budget")
					mu.Unlock()
					continue
				}
				o := s.do(j)
				if (o.Class == "hang" || o.Follow == "wedged") && !hugeRange(j.input, hugeBits(j.surface)) {
					// not the known expensive shape: give it 12 s in a fresh worker before calling it a hang
					// (only while the signature is new: a confirmed hang is not re-confirmed every time)
					mu.Lock()
					confirmed := hangSeen[signature(j, o)]
					mu.Unlock()
					if confirmed < 2 {
						j2 := j
						j2.patient = true
						if o2 := s.do(j2); o2.Class != "hang" && o2.Follow != "wedged" {
							mu.Lock()
							r.Hit(j.surface + ":slow-answer")
							mu.Unlock()
							o = o2
						}
					}
					if o.Class == "hang" || o.Follow == "wedged" {
						mu.Lock()
						hangBudget--
						mu.Unlock()
					}
				}
				sig := signature(j, o)
				mu.Lock()
				cls := o.Class
				if sig != "" && cls != "panic" && cls != "hang" && cls != "crash" {
					cls = "followup-" + o.Follow
				}
				if lockset.FakeWatcherArtefact(o.Detail) || lockset.FakeWatcherArtefact(o.FDet) {
					cls = "inconclusive:fake-watcher-channel-full"
				}
				r.Hit(j.surface + ":" + cls)
				r.Hit("tag:" + strings.SplitN(j.tag, "+", 2)[0])
				if o.Fault != "" {
					r.Hit("fault:" + j.surface + ":" + o.Fault + ":" + o.Class)
				}
				if o.Class == "error" && len(o.Detail) > 0 {
					r.Hit("errclass:" + j.surface + ":" + errKind(o.Detail))
				}
				r.Case(j.surface+" "+string(j.input), !j.seed && (o.Class == "result" || o.Class == "error"))
				r.Traces++
				if len(r.Samples) < 5 && !j.seed && r.Evaluations%97 == 0 {
					r.Sample(map[string]string{"surface": j.surface, "input": total.Describe(j.input), "class": o.Class, "tag": j.tag})
				}
				if sig != "" {
					if strings.HasPrefix(sig, "hang:") || strings.HasPrefix(sig, "wedged:") {
						hangSeen[sig]++
					}
					if f, ok := found[sig]; ok {
						f.count++
						if len(j.input) < len(f.j.input) {
							f.j, f.o = j, o
						}
					} else {
						found[sig] = &finding{sig: sig, j: j, o: o, count: 1}
					}
				}
				mu.Unlock()
			}
		}()
	}
	wg.Wait()
	<-liveDone
	for k, v := range live.Extra {
		r.Extra[k] = v
	}
	r.Violations = append(r.Violations, live.Violations...)

	// minimise and report
	sigs := make([]string, 0, len(found))
	for s := range found {
		sigs = append(sigs, s)
	}
	sort.Strings(sigs)
	sl := &slot{}
	defer func() { sl.p.kill() }()
	for _, sg := range sigs {
		f := found[sg]
		probes := 60
		if strings.HasPrefix(sg, "hang:") || strings.HasPrefix(sg, "wedged:") {
			probes = 6
		}
		body := f.j.input
		pre := []byte{}
		if f.j.surface == "pool" && len(body) > 0 {
			pre, body = body[:1], body[1:]
		}
		small := total.Shrink(body, probes, func(c []byte) bool {
			j := job{surface: f.j.surface, input: append(append([]byte{}, pre...), c...)}
			return signature(j, sl.do(j)) == sg
		})
		f.j.input = append(append([]byte{}, pre...), small...)
		r.Histogram["violations:"+sg] = f.count
		hdr := []string{"signature=" + sg, "input=" + total.Describe(f.j.input)}
		det := f.o.Detail
		if f.o.Class != "panic" && f.o.Class != "crash" {
			det = f.o.FDet
		}
		for _, l := range strings.Split(tailStr(det, 1800), "\n") {
			hdr = append(hdr, l)
		}
		r.Violations = append(r.Violations, hx.Violation{Signature: sg,
			What: fmt.Sprintf("%s on surface %s (%d cases): input %s", strings.SplitN(sg, ":", 2)[0], f.j.surface, f.count,
				total.Describe(f.j.input)),
			Replay: e.WriteReplay("C18", "watchdog", sanitize(sg), hdr, []string{caseOp(f.j)})})
	}
	return r
}

// lockTablePart: the regenerated lock-balance table (Lean definitions, through gxdrv_lockset): an acquisition that is
// not released exactly once on every path is a violation of "do not keep a lock held" by itself.
func lockTablePart(e *hx.Env, r *hx.Report) {
	out, err := e.RunDriver("lockset", []string{"unbalanced", "reentrant", "nestings"})
	if err != nil {
		r.Disagree = append(r.Disagree, hx.Disagreement{Where: "lockset driver", Impl: "-", Model: err.Error(),
			Replay: e.WriteReplay("C18", "locks", "driver", []string{err.Error()}, nil)})
		return
	}
	r.Extra["unbalanced_locks"] = out[0]
	r.Extra["reentrant_locks"] = out[1]
	if out[1] != "-" {
		for _, sig := range strings.Fields(out[1]) {
			r.Hit("locktable:reentrant")
			r.Violations = append(r.Violations, hx.Violation{Signature: sig,
				What:   "call made while holding a lock to a function that acquires it again (self deadlock; for a read lock as soon as a writer queues between the two RLocks): " + sig,
				Replay: e.WriteReplay("C18", "locks", sanitize(sig), []string{"gxdrv_lockset op `reentrant` lists " + sig}, []string{"locktable"})})
		}
	}
	r.Extra["keyed_lock_nestings"] = out[2]
	for _, sig := range strings.Fields(out[2]) {
		if strings.HasPrefix(sig, "nested:") {
			r.Hit("locktable:nesting-distinct-pools")
			continue
		}
		r.Hit("locktable:nesting-bad")
		r.Violations = append(r.Violations, hx.Violation{Signature: sig,
			What:   "keyed locks nested inside ONE hashed mutex table (two keys may be the same mutex: self deadlock for colliding pod names) or taken in both orders: " + sig,
			Replay: e.WriteReplay("C18", "locks", sanitize(sig), []string{"gxdrv_lockset op `nestings` lists " + sig}, []string{"locktable"})})
	}
	if out[0] == "-" {
		r.Hit("locktable:balanced")
		return
	}
	for _, sig := range strings.Fields(out[0]) {
		r.Hit("locktable:unbalanced")
		r.Violations = append(r.Violations, hx.Violation{Signature: "lock-" + sig,
			What:   "lock not released exactly once on every path of its function (leaked = some return leaves it held; unheld = released twice / without holding): " + sig,
			Replay: e.WriteReplay("C18", "locks", sanitize(sig), []string{"gxdrv_lockset op `unbalanced` lists " + sig}, []string{"locktable"})})
	}
}

// livenessPart: interleaving wedges are invisible to one-request-at-a-time fuzzing.  Run the mixed concurrent load of the
// galaxy-ipam entry points (harness/cmd/c19/load, plain build) next to the fuzzing: readers (Filter incl. the
// reserved-ip path allocateInSubnetWithKey -> First, queries, metrics) against writers (bind, unbind, release, reload,
// pool API); every call must finish within the liveness bound.
func livenessPart(e *hx.Env, r *hx.Report) {
	var lmu sync.Mutex
	set := func(k string, v interface{}) { lmu.Lock(); r.Extra[k] = v; lmu.Unlock() }
	harness := filepath.Join(rootDir(), "harness")
	bin := filepath.Join(rootDir(), "out", "bin", "gxh_c18_load")
	args := []string{"build"}
	if repo := os.Getenv("GALAXY_REPO"); repo != "" {
		if real, _ := filepath.EvalSymlinks(repo); real != "" && real != "/repo" {
			mf := filepath.Join(rootDir(), "out", "go.C18load.mod")
			if gm, err := os.ReadFile(filepath.Join(harness, "go.mod")); err == nil {
				os.WriteFile(mf, []byte(strings.Replace(string(gm), "=> /repo", "=> "+real, 1)), 0o644)
				if sum, err := os.ReadFile(filepath.Join(real, "go.sum")); err == nil {
					os.WriteFile(strings.TrimSuffix(mf, ".mod")+".sum", sum, 0o644)
				}
				args = append(args, "-modfile", mf)
			}
		}
	}
	args = append(args, "-tags", "verif", "-o", bin, "./cmd/c19/load")
	cmd := exec.Command("go", args...)
	cmd.Dir = harness
	cmd.Env = append(os.Environ(), "GOFLAGS=-mod=mod", "GOPROXY=off", "GOSUMDB=off", "GOTOOLCHAIN=local", "CGO_ENABLED=0")
	if out, err := cmd.CombinedOutput(); err != nil {
		set("liveness_load", "build failed: "+tailStr(string(out), 400))
		return
	}
	dur := "6s"
	if e.Thorough() {
		dur = "60s"
	}
	run := exec.Command(bin, "-mode", "load", "-only", "ipam", "-duration", dur, "-liveness", "8s", "-seed", fmt.Sprint(e.Seed))
	var so, se bytes.Buffer
	run.Stdout, run.Stderr = &so, &se
	run.Env = append(os.Environ(), "GOMAXPROCS=4")
	_ = run.Run()
	var sum struct {
		Ops    map[string]int `json:"ops"`
		Wedged []string       `json:"wedged"`
		Taken  int            `json:"reserved_taken"`
		Panics []string       `json:"panics"`
	}
	ok := false
	for _, l := range strings.Split(so.String(), "\n") {
		if strings.HasPrefix(l, "{") && json.Unmarshal([]byte(l), &sum) == nil {
			ok = true
		}
	}
	if !ok {
		set("liveness_load", "no summary: "+tailStr(se.String(), 400))
		return
	}
	total := 0
	for _, v := range sum.Ops {
		total += v
	}
	set("liveness_load", fmt.Sprintf("%d calls of %d entry points in %s, filter took a reserved ip %d times, wedged %v", total, len(sum.Ops), dur, sum.Taken, sum.Wedged))
	lmu.Lock()
	defer lmu.Unlock()
	seen := map[string]bool{}
	for _, w := range sum.Wedged {
		if seen[w] {
			continue
		}
		seen[w] = true
		r.Violations = append(r.Violations, hx.Violation{Signature: "wedged:load:" + w,
			What:   "entry point " + w + " did not finish within 8 s under the mixed concurrent load (lock wedge)",
			Replay: e.WriteReplay("C18", "load", "wedged-"+sanitize(w), strings.Split(tailStr(se.String(), 6000), "\n"), []string{"liveload seed=" + fmt.Sprint(e.Seed)})})
	}
}

func errKind(d string) string {
	// small class enum for the histogram: first word(s) of the message, never compared
	d = strings.ToLower(d)
	for _, k := range []string{"unmarshal", "invalid", "not found", "null", "nil", "no enough", "not supported", "parse", "unexpected", "missing", "400", "404", "500", "202"} {
		if strings.Contains(d, k) {
			return strings.ReplaceAll(k, " ", "-")
		}
	}
	return "other"
}

func tailStr(s string, n int) string {
	if len(s) > n {
		return s[:n]
	}
	return s
}

func sanitize(s string) string {
	return regexp.MustCompile(`[^A-Za-z0-9_.-]+`).ReplaceAllString(s, "_")
}

func caseOp(j job) string {
	return "case " + j.surface + " " + base64.StdEncoding.EncodeToString(j.input)
}

func parseCaseOp(o string) (job, bool) {
	w := strings.Fields(o)
	if len(w) < 2 || w[0] != "case" {
		return job{}, false
	}
	var data []byte
	if len(w) >= 3 {
		var err error
		data, err = base64.StdEncoding.DecodeString(w[2])
		if err != nil {
			return job{}, false
		}
	}
	return job{surface: w[1], input: data}, true
}

// cleanState removes the CNI / port state files our own container ids left in the product's fixed state directory
func cleanState() {
	for _, pat := range []string{"/var/lib/cni/galaxy/gxv18*", "/var/lib/cni/galaxy/port/gxv18*"} {
		files, _ := filepath.Glob(pat)
		for _, f := range files {
			os.Remove(f)
		}
	}
}

func rootDir() string {
	if d := os.Getenv("VERIF_ROOT"); d != "" {
		return d
	}
	return "/verif"
}

func replay(e *hx.Env, r *hx.Report) *hx.Report {
	ops, err := hx.ReadOps(e.Replay)
	if err != nil {
		r.Extra["replay_error"] = err.Error()
		return r
	}
	s := &slot{}
	defer func() { s.p.kill() }()
	for _, o := range ops {
		if strings.HasPrefix(o, "liveload") {
			livenessPart(e, r)
			continue
		}
		if o == "locktable" {
			lockTablePart(e, r)
			continue
		}
		if strings.HasPrefix(o, "corr ") {
			corrReplay(e, r, strings.TrimPrefix(o, "corr "))
			continue
		}
		j, ok := parseCaseOp(o)
		if !ok {
			continue
		}
		out := s.do(j)
		r.Case(j.surface+" "+string(j.input), true)
		r.Hit(j.surface + ":" + out.Class)
		if sig := signature(j, out); sig != "" {
			r.Violations = append(r.Violations, hx.Violation{Signature: sig, What: "replayed: " + total.Describe(j.input), Replay: e.Replay})
		}
	}
	return r
}

func main() {
	if len(os.Args) > 1 && os.Args[1] == "-worker" {
		workerMain()
		return
	}
	hx.Main("C18", run)
}
