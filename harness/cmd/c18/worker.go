package main

// The worker side of the C18 watchdog harness: a child process that holds ONE long-lived instance of each daemon
// object and runs one case per request line against it, each call under recover + a 2 s watchdog, followed by a
// follow-up call on the SAME instance that must still answer (detects a lock left held).  A call that does not
// return is abandoned: the worker reports `hang`, and exits so that the parent starts a fresh one.

import (
	"bufio"
	"bytes"
	"context"
	"encoding/base64"
	"encoding/json"
	"fmt"
	"hash/fnv"
	"net"
	"net/http"
	"net/http/httptest"
	"net/url"
	"os"
	"regexp"
	"runtime"
	"strings"
	"time"

	"github.com/containernetworking/cni/pkg/skel"
	appv1 "k8s.io/api/apps/v1"
	corev1 "k8s.io/api/core/v1"
	networkv1 "k8s.io/api/networking/v1"
	apierrors "k8s.io/apimachinery/pkg/api/errors"
	"k8s.io/apimachinery/pkg/api/resource"
	metav1 "k8s.io/apimachinery/pkg/apis/meta/v1"
	k8sruntime "k8s.io/apimachinery/pkg/runtime"
	"k8s.io/apimachinery/pkg/runtime/schema"
	"k8s.io/client-go/kubernetes/fake"
	corev1lister "k8s.io/client-go/listers/core/v1"
	networkingv1lister "k8s.io/client-go/listers/networking/v1"
	k8stesting "k8s.io/client-go/testing"
	"k8s.io/client-go/tools/cache"
	fakegalaxy "tkestack.io/galaxy/pkg/ipam/client/clientset/versioned/fake"

	"gxverif/lockset"
	"gxverif/total"
	"tkestack.io/galaxy/pkg/api/cniutil"
	galaxyapi "tkestack.io/galaxy/pkg/api/galaxy"
	"tkestack.io/galaxy/pkg/api/galaxy/constant"
	"tkestack.io/galaxy/pkg/api/k8s"
	"tkestack.io/galaxy/pkg/api/k8s/schedulerapi"
	"tkestack.io/galaxy/pkg/galaxy"
	ipamcontext "tkestack.io/galaxy/pkg/ipam/context"
	"tkestack.io/galaxy/pkg/ipam/schedulerplugin"
	"tkestack.io/galaxy/pkg/ipam/schedulerplugin/util"
	"tkestack.io/galaxy/pkg/network/portmapping"
	"tkestack.io/galaxy/pkg/policy"
	"tkestack.io/galaxy/pkg/utils/ipset"
	ipsettesting "tkestack.io/galaxy/pkg/utils/ipset/testing"
	utiliptables "tkestack.io/galaxy/pkg/utils/iptables"
	iptablestesting "tkestack.io/galaxy/pkg/utils/iptables/testing"
	"tkestack.io/galaxy/pkg/utils/nets"
)

const watchdog = 2 * time.Second

type outcome struct {
	Class  string `json:"c"`           // result | error | panic | hang | skip
	Detail string `json:"d,omitempty"` // error class / panic value + frames
	Follow string `json:"f,omitempty"` // ok | wedged | panic | -
	FDet   string `json:"fd,omitempty"`
	Exit   bool   `json:"x,omitempty"` // the worker exits after this answer (abandoned goroutine)
	Fault  string `json:"ft,omitempty"`
}

// guard: recover + watchdog.  f returns (class, detail) with class result|error|skip.
func guard(timeout time.Duration, f func() (string, string)) (string, string) {
	type res struct{ c, d string }
	done := make(chan res, 1)
	go func() {
		defer func() {
			if x := recover(); x != nil {
				buf := make([]byte, 8192)
				n := runtime.Stack(buf, false)
				done <- res{"panic", fmt.Sprintf("%v\n%s", x, buf[:n])}
			}
		}()
		c, d := f()
		done <- res{c, d}
	}()
	select {
	case r := <-done:
		return r.c, r.d
	case <-time.After(timeout):
		return "hang", ""
	}
}

func errClass(err error) (string, string) {
	if err != nil {
		s := err.Error()
		if len(s) > 160 {
			s = s[:160]
		}
		return "error", s
	}
	return "result", ""
}

// ---------------------------------------------------------------- world

type world struct {
	smalld   *lockset.Ipamd // instance whose keyed-lock tables have ONE bucket each: any two keys of a table collide
	confd    *lockset.Ipamd // the instance the configuration surface reloads (kept apart: its pools are whatever the last case left)
	ipamd    *lockset.Ipamd
	last     string
	fixedPod *corev1.Pod
	gal      *galaxyWorld
}

type galaxyWorld struct {
	g       *galaxy.Galaxy
	pm      *policy.PolicyManager
	pmh     *portmapping.PortMappingHandler
	client  *fake.Clientset
	polIdx  cache.Indexer
	podIdx  cache.Indexer
	nsIdx   cache.Indexer
	pods    []*corev1.Pod
	cniPath string
}

func fipPod(name string) *corev1.Pod {
	q := resource.NewQuantity(1, resource.DecimalSI)
	return &corev1.Pod{ObjectMeta: metav1.ObjectMeta{Name: name, Namespace: "ns1", UID: "fixed",
		OwnerReferences: []metav1.OwnerReference{{Kind: "StatefulSet", Name: "fixed"}}},
		Spec: corev1.PodSpec{Containers: []corev1.Container{{Name: "c", Resources: corev1.ResourceRequirements{
			Requests: corev1.ResourceList{corev1.ResourceName(constant.ResourceName): *q}}}}}}
}

// fault plan of the case being processed (the worker is sequential): which apiserver calls fail and how.  It is derived
// from the input bytes, so a replay injects the same faults.
type faultPlan struct {
	kind   string // "" | bind-notfound | bind-500 | kube-all | crd-all | crd-kth
	failAt int
	calls  int
}

var curFault faultPlan

func planFor(in []byte) faultPlan {
	h := fnv.New32a()
	h.Write(in)
	v := h.Sum32()
	switch v % 20 {
	case 10, 11, 12:
		return faultPlan{kind: "bind-notfound"}
	case 13:
		if (v/20)%4 == 0 { // Bind retries any other error for 3 s: keep these few
			return faultPlan{kind: "bind-500"}
		}
	case 14, 15:
		return faultPlan{kind: "kube-all"}
	case 16:
		return faultPlan{kind: "crd-all"}
	case 17, 18, 19:
		return faultPlan{kind: "crd-kth", failAt: int(v/20) % 4}
	}
	return faultPlan{}
}

func podsGR() schema.GroupResource { return schema.GroupResource{Resource: "pods"} }

// workloads the generated pods belong to (a deployment pod's Filter asks for the replicas of its deployment first)
func workloads() []k8sruntime.Object {
	n := int32(8)
	return []k8sruntime.Object{
		&appv1.Deployment{ObjectMeta: metav1.ObjectMeta{Name: "dp", Namespace: "ns1"}, Spec: appv1.DeploymentSpec{Replicas: &n}},
		&appv1.StatefulSet{ObjectMeta: metav1.ObjectMeta{Name: "a", Namespace: "ns1"}, Spec: appv1.StatefulSetSpec{Replicas: &n}},
	}
}

func (w *world) smallLockIpam() *lockset.Ipamd {
	if w.smalld == nil {
		d, err := lockset.NewIpamd(lockset.DefaultPools, workloads()...)
		if err != nil {
			panic("ipamd setup: " + err.Error())
		}
		d.Plugin.VerifLsShrinkLockPools(1)
		w.smalld = d
	}
	return w.smalld
}

func (w *world) confIpam() *lockset.Ipamd {
	if w.confd == nil {
		d, err := lockset.NewIpamd(lockset.DefaultPools)
		if err != nil {
			panic("ipamd setup: " + err.Error())
		}
		w.confd = d
		w.last = ""
	}
	return w.confd
}

func (w *world) ipam() *lockset.Ipamd {
	if w.ipamd == nil {
		d, err := lockset.NewIpamd(lockset.DefaultPools, workloads()...)
		if err != nil {
			panic("ipamd setup: " + err.Error())
		}
		// decorated clientsets: reactors which only look at the plan (they never call back into the clientset)
		d.Client.PrependReactor("*", "*", func(a k8stesting.Action) (bool, k8sruntime.Object, error) {
			switch curFault.kind {
			case "bind-notfound":
				if a.GetVerb() == "create" && a.GetSubresource() == "binding" {
					return true, nil, apierrors.NewNotFound(podsGR(), "gone")
				}
			case "bind-500":
				if a.GetVerb() == "create" && a.GetSubresource() == "binding" {
					return true, nil, apierrors.NewInternalError(fmt.Errorf("injected"))
				}
			case "kube-all":
				if a.GetVerb() != "watch" && a.GetVerb() != "list" && a.GetSubresource() != "binding" {
					return true, nil, apierrors.NewInternalError(fmt.Errorf("injected"))
				}
			}
			return false, nil, nil
		})
		if gc, ok := d.Ctx.GalaxyClient.(*fakegalaxy.Clientset); ok {
			gc.PrependReactor("*", "*", func(a k8stesting.Action) (bool, k8sruntime.Object, error) {
				if a.GetVerb() == "watch" {
					return false, nil, nil
				}
				switch curFault.kind {
				case "crd-all":
					return true, nil, apierrors.NewInternalError(fmt.Errorf("injected"))
				case "crd-kth":
					curFault.calls++
					if curFault.calls-1 == curFault.failAt {
						return true, nil, apierrors.NewConflict(schema.GroupResource{Resource: a.GetResource().Resource}, "x", fmt.Errorf("injected"))
					}
				}
				return false, nil, nil
			})
		}
		w.ipamd = d
		w.fixedPod = fipPod("fixed-0")
	}
	return w.ipamd
}

// releaseAll gives every allocated address back (the shared instance would otherwise run out of addresses and every
// later case would only see "no enough available ips")
func (w *world) releaseAll() {
	if w.ipamd == nil {
		return
	}
	ipam := w.ipamd.Plugin.GetIpam()
	all, err := ipam.ByPrefix("")
	if err != nil {
		return
	}
	m := map[string]string{}
	for _, f := range all {
		if f.Key != "" {
			m[f.IPInfo.IP.IP.String()] = f.Key
		}
	}
	if len(m) > 0 {
		ipam.ReleaseIPs(m)
	}
}

func (w *world) resetIpam() {
	if w.ipamd != nil {
		w.ipamd.Close()
		w.ipamd = nil
	}
}

var safeID = regexp.MustCompile(`^[A-Za-z0-9_-]{1,64}$`)

func (w *world) galaxy() *galaxyWorld {
	if w.gal != nil {
		return w.gal
	}
	gw := &galaxyWorld{}
	host, _ := os.Hostname()
	for i := 0; i < 4; i++ {
		p := &corev1.Pod{ObjectMeta: metav1.ObjectMeta{Name: fmt.Sprintf("p%d", i), Namespace: "ns1", UID: "gp",
			Labels: map[string]string{"app": []string{"web", "db"}[i%2]}},
			Spec:   corev1.PodSpec{NodeName: host, Containers: []corev1.Container{{Name: "c"}}},
			Status: corev1.PodStatus{PodIP: fmt.Sprintf("10.22.0.%d", 10+i)}}
		gw.pods = append(gw.pods, p)
	}
	gw.client = fake.NewSimpleClientset()
	// every pod name resolves at once (getPod would otherwise poll for 5 s): known pods by name, else a generic pod
	// whose annotations are taken from the request-scoped override
	gw.client.PrependReactor("get", "pods", func(a k8stesting.Action) (bool, k8sruntime.Object, error) {
		name := a.(k8stesting.GetAction).GetName()
		if cur := currentPod; cur != nil && cur.Name == name {
			return true, cur.DeepCopy(), nil
		}
		for _, p := range gw.pods {
			if p.Name == name {
				return true, p.DeepCopy(), nil
			}
		}
		return true, &corev1.Pod{ObjectMeta: metav1.ObjectMeta{Name: name, Namespace: a.GetNamespace()},
			Spec: corev1.PodSpec{Containers: []corev1.Container{{Name: "c"}}}}, nil
	})
	gw.client.PrependReactor("update", "pods", func(a k8stesting.Action) (bool, k8sruntime.Object, error) {
		return true, a.(k8stesting.UpdateAction).GetObject(), nil
	})
	idx := func() cache.Indexer {
		return cache.NewIndexer(cache.MetaNamespaceKeyFunc, cache.Indexers{cache.NamespaceIndex: cache.MetaNamespaceIndexFunc})
	}
	gw.polIdx, gw.podIdx, gw.nsIdx = idx(), idx(), cache.NewIndexer(cache.MetaNamespaceKeyFunc, cache.Indexers{})
	for _, p := range gw.pods {
		gw.podIdx.Add(p)
	}
	gw.nsIdx.Add(&corev1.Namespace{ObjectMeta: metav1.ObjectMeta{Name: "ns1", Labels: map[string]string{"team": "x"}}})
	gw.nsIdx.Add(&corev1.Namespace{ObjectMeta: metav1.ObjectMeta{Name: "ns2"}})
	gw.pmh = portmapping.VerifNew(newLockedIPT())
	gw.pm = policy.VerifNew(gw.client, newLockedIPSet(), newLockedIPT(), host, corev1lister.NewPodLister(gw.podIdx),
		corev1lister.NewNamespaceLister(gw.nsIdx), networkingv1lister.NewNetworkPolicyLister(gw.polIdx), true)
	// the coordinator prepares the directory of the fake delegate plugin (GX_CNI_PATH) so that generated requests can name it
	dir := os.Getenv("GX_CNI_PATH")
	if dir == "" {
		var err error
		if dir, err = os.MkdirTemp("", "gxcni18"); err != nil {
			panic(err)
		}
	}
	gw.cniPath = dir
	if _, err := os.Stat(dir + "/gxfake"); err != nil {
		os.WriteFile(dir+"/gxfake", []byte(fakePlugin), 0o755)
	}
	g, err := galaxy.VerifLsNewGalaxy(lockset.GalaxyConf(), gw.client, gw.pmh, gw.pm)
	if err != nil {
		panic(err)
	}
	gw.g = g
	w.gal = gw
	return gw
}

// currentPod: the pod object the fake apiserver answers with for the request being processed (worker is sequential)
var currentPod *corev1.Pod

const fakePlugin = `#!/bin/sh
conf=$(cat)
if [ -n "$GX_LOG" ]; then echo "$CNI_COMMAND $CNI_IFNAME" >> "$GX_LOG"; fi
case "$CNI_COMMAND" in
VERSION) echo '{"cniVersion":"0.2.0","supportedVersions":["0.1.0","0.2.0","0.3.0","0.3.1"]}';;
ADD)
  case "$conf" in *'"fail":true'*) echo '{"code":100,"msg":"fake plugin told to fail"}'; exit 1;; esac
  echo '{"cniVersion":"0.2.0","ip4":{"ip":"10.22.0.7/24","gateway":"10.22.0.1"}}';;
*) ;;
esac
exit 0
`

func newLockedIPT() utiliptables.Interface {
	return lockset.LockedIPTables(iptablestesting.NewFakeIPTables())
}
func newLockedIPSet() ipset.Interface { return lockset.LockedIPSet(ipsettesting.NewFake("6.29")) }

// ---------------------------------------------------------------- surfaces

type surface struct {
	name   string
	family string // ipam | galaxy | pure
	call   func(w *world, in []byte) (string, string)
	// timeout override
	timeout time.Duration
}

func decodePod(in []byte) (*corev1.Pod, error) {
	var p corev1.Pod
	if err := json.Unmarshal(in, &p); err != nil {
		return nil, err
	}
	return &p, nil
}

func httpDo(h http.Handler, method, path, rawQuery string, body []byte) (int, []byte) {
	req := &http.Request{Method: method, URL: &url.URL{Path: path, RawQuery: rawQuery}, Header: http.Header{},
		Proto: "HTTP/1.1", ProtoMajor: 1, ProtoMinor: 1, Host: "x", RequestURI: path}
	if body != nil {
		req.Body = readCloser{bytes.NewReader(body)}
		req.ContentLength = int64(len(body))
		req.Header.Set("Content-Type", "application/json")
	} else {
		req.Body = http.NoBody
	}
	rec := httptest.NewRecorder()
	h.ServeHTTP(rec, req)
	return rec.Code, rec.Body.Bytes()
}

type readCloser struct{ *bytes.Reader }

func (readCloser) Close() error { return nil }

func httpClass(code int) (string, string) {
	if code >= 200 && code < 300 {
		return "result", fmt.Sprint(code)
	}
	return "error", fmt.Sprint(code)
}

func sanitizeCNI(in []byte) []byte {
	// never let a mutated container id escape /var/lib/cni/galaxy (filepath.Join(stateDir, containerID) in the
	// product): ids outside [A-Za-z0-9_-]{1,64} are replaced by a hash.  (Observation reported separately.)
	var doc map[string]json.RawMessage
	if json.Unmarshal(in, &doc) != nil {
		return in
	}
	var env map[string]interface{}
	if json.Unmarshal(doc["env"], &env) != nil || env == nil {
		return in
	}
	if id, ok := env["CNI_CONTAINERID"].(string); ok && (!safeID.MatchString(id) || !strings.HasPrefix(id, "gxv18")) {
		h := fnv.New32a()
		h.Write([]byte(id))
		env["CNI_CONTAINERID"] = fmt.Sprintf("gxv18h%x", h.Sum32())
		eb, _ := json.Marshal(env)
		doc["env"] = eb
		out, _ := json.Marshal(doc)
		return out
	}
	return in
}

var surfaces = []*surface{
	{name: "conf", family: "ipamconf", call: func(w *world, in []byte) (string, string) {
		d := w.confIpam()
		_, err := d.Plugin.VerifLsEnsureIPAMConf(&w.last, string(in))
		return errClass(err)
	}},
	{name: "staticconf", family: "pure", call: func(w *world, in []byte) (string, string) {
		// the start-up path: json config file -> Conf -> NewFloatingIPPlugin -> Init (static pools)
		var conf schedulerplugin.Conf
		if err := json.Unmarshal(in, &conf); err != nil {
			return errClass(err)
		}
		if len(conf.FloatingIPs) == 0 {
			return "skip", "no static pools: Init would poll the ConfigMap"
		}
		ctx, stop := ipamcontext.CreateTestIPAMContext(nil, nil, nil)
		defer close(stop)
		p, err := schedulerplugin.NewFloatingIPPlugin(conf, ctx)
		if err != nil {
			return errClass(err)
		}
		return errClass(p.Init())
	}},
	{name: "filter", family: "ipam", call: func(w *world, in []byte) (string, string) {
		pod, err := decodePod(in)
		if err != nil {
			return errClass(err)
		}
		d := w.ipam()
		_, _, err = d.Plugin.Filter(pod, d.Nodes)
		return errClass(err)
	}},
	{name: "bind", family: "ipam", timeout: 6 * time.Second, call: func(w *world, in []byte) (string, string) {
		pod, err := decodePod(in)
		if err != nil {
			return errClass(err)
		}
		d := w.ipam()
		// the lister is what Bind reads: put the object there directly — except for some cases, in which the scheduler
		// asks to bind a pod the lister does not (yet / any more) know
		h := fnv.New32a()
		h.Write(in)
		if pod.Name != "" && h.Sum32()%7 != 0 {
			d.Ctx.PodInformer.Informer().GetIndexer().Add(pod)
			defer d.Ctx.PodInformer.Informer().GetIndexer().Delete(pod)
		}
		if h.Sum32()%3 != 0 {
			d.Plugin.Filter(pod, d.Nodes) // what the scheduler does first; Bind is called whatever Filter answered
		}
		err = d.Plugin.Bind(&schedulerapi.ExtenderBindingArgs{PodName: pod.Name, PodNamespace: pod.Namespace, PodUID: pod.UID,
			Node: bindNode(pod, h.Sum32())})
		d.Plugin.VerifLsDrainUnreleased()
		return errClass(err)
	}},
	{name: "keyedlocks", family: "smalllocks", call: func(w *world, in []byte) (string, string) {
		// the pod key and the deployment / pool key of the same request forced into the same bucket (tables of one bucket):
		// every operation that nests the two keyed locks must still answer
		pod, err := decodePod(in)
		if err != nil {
			return errClass(err)
		}
		d := w.smallLockIpam()
		if pod.Name != "" {
			d.Ctx.PodInformer.Informer().GetIndexer().Add(pod)
			defer d.Ctx.PodInformer.Informer().GetIndexer().Delete(pod)
		}
		_, _, err = d.Plugin.Filter(pod, d.Nodes)
		d.Plugin.Bind(&schedulerapi.ExtenderBindingArgs{PodName: pod.Name, PodNamespace: pod.Namespace, PodUID: pod.UID, Node: "node1"})
		d.Plugin.VerifLsUnbind(pod)
		d.Plugin.VerifLsResyncPod()
		d.Plugin.VerifLsDrainUnreleased()
		return errClass(err)
	}},
	{name: "unbind", family: "ipam", call: func(w *world, in []byte) (string, string) {
		pod, err := decodePod(in)
		if err != nil {
			return errClass(err)
		}
		return errClass(w.ipam().Plugin.VerifLsUnbind(pod))
	}},
	{name: "podevent", family: "ipam", call: func(w *world, in []byte) (string, string) {
		pod, err := decodePod(in)
		if err != nil {
			return errClass(err)
		}
		d := w.ipam()
		if err := d.Plugin.AddPod(pod); err != nil {
			return errClass(err)
		}
		if err := d.Plugin.UpdatePod(pod, pod); err != nil {
			return errClass(err)
		}
		err = d.Plugin.DeletePod(pod)
		// nobody drains the release channel here: take the event off again
		d.Plugin.VerifLsDrainUnreleased()
		return errClass(err)
	}},
	{name: "syncpodip", family: "ipam", call: func(w *world, in []byte) (string, string) {
		pod, err := decodePod(in)
		if err != nil {
			return errClass(err)
		}
		return errClass(w.ipam().Plugin.VerifLsSyncPodIP(pod))
	}},
	{name: "resync", family: "ipam", call: func(w *world, in []byte) (string, string) {
		// input: a pod to bind first (so that the resync pass has something to look at)
		pod, err := decodePod(in)
		if err != nil {
			return errClass(err)
		}
		d := w.ipam()
		d.Plugin.Filter(pod, d.Nodes)
		if err := d.Plugin.VerifLsResyncPod(); err != nil {
			return errClass(err)
		}
		d.Plugin.VerifLsSyncPodIPsIntoDB()
		return "result", ""
	}},
	{name: "listips", family: "ipam", call: func(w *world, in []byte) (string, string) {
		code, _ := httpDo(w.ipam().API, "GET", "/v1/ip", string(in), nil)
		return httpClass(code)
	}},
	{name: "releaseips", family: "ipam", call: func(w *world, in []byte) (string, string) {
		code, _ := httpDo(w.ipam().API, "POST", "/v1/ip", "", in)
		return httpClass(code)
	}},
	{name: "pool", family: "ipam", call: func(w *world, in []byte) (string, string) {
		// first byte selects the verb, the rest is the body / the name
		if len(in) == 0 {
			return "skip", ""
		}
		d := w.ipam()
		var code int
		switch in[0] % 3 {
		case 0:
			code, _ = httpDo(d.API, "POST", "/v1/pool", "", in[1:])
		case 1:
			code, _ = httpDo(d.API, "GET", "/v1/pool/"+url.PathEscape(string(in[1:])), "", nil)
		default:
			code, _ = httpDo(d.API, "DELETE", "/v1/pool/"+url.PathEscape(string(in[1:])), "", nil)
		}
		return httpClass(code)
	}},
	{name: "policy", family: "galaxy", call: func(w *world, in []byte) (string, string) {
		var np networkv1.NetworkPolicy
		if err := json.Unmarshal(in, &np); err != nil {
			return errClass(err)
		}
		g := w.galaxy()
		for _, o := range g.polIdx.List() {
			g.polIdx.Delete(o)
		}
		g.polIdx.Add(&np)
		g.pm.AddPolicy(&np)
		for _, p := range g.pods {
			g.pm.UpdatePod(p, p)
			g.pm.SyncPodIPInIPSet(p, true)
		}
		g.pm.UpdatePolicy(&np, &np)
		for _, p := range g.pods {
			g.pm.DeletePod(p)
		}
		g.polIdx.Delete(&np)
		g.pm.DeletePolicy(&np)
		return "result", ""
	}},
	{name: "cni", family: "galaxy", timeout: 8 * time.Second, call: func(w *world, in []byte) (string, string) {
		g := w.galaxy()
		in = sanitizeCNI(in)
		code, _ := g.g.VerifCNI(in)
		return httpClass(code)
	}},
	{name: "cnipod", family: "galaxy", timeout: 8 * time.Second, call: func(w *world, in []byte) (string, string) {
		// a well-formed ADD then DEL for a pod object taken from the input (annotations: networks, args, ports)
		pod, err := decodePod(in)
		if err != nil {
			return errClass(err)
		}
		g := w.galaxy()
		if pod.Name == "" || strings.ContainsAny(pod.Name, ";= ") {
			pod.Name = "px"
		}
		pod.Namespace = "ns1"
		currentPod = pod
		defer func() { currentPod = nil }()
		h := fnv.New32a()
		h.Write(in)
		id := fmt.Sprintf("gxv18p%x", h.Sum32())
		code, _ := g.g.VerifCNI(lockset.CNIBody("ADD", id, pod.Name, "ns1", g.cniPath))
		code2, _ := g.g.VerifCNI(lockset.CNIBody("DEL", id, pod.Name, "ns1", g.cniPath))
		if code2 != 200 {
			return "error", fmt.Sprintf("add %d del %d", code, code2)
		}
		return httpClass(code)
	}},
	{name: "networks", family: "galaxy", call: func(w *world, in []byte) (string, string) {
		g := w.galaxy()
		pod := &corev1.Pod{ObjectMeta: metav1.ObjectMeta{Name: "pn", Namespace: "ns1", Annotations: map[string]string{constant.MultusCNIAnnotation: string(in)}}}
		req := &galaxyapi.PodRequest{PodName: "pn", PodNamespace: "ns1", CmdArgs: &skel.CmdArgs{IfName: "eth0", ContainerID: "c"}}
		_, err := g.g.VerifResolveNetworks(req, pod)
		if _, err2 := k8s.ParsePodNetworkAnnotation(string(in)); (err2 != nil) && err == nil {
			return "error", "parse rejected"
		}
		return errClass(err)
	}},
	{name: "cnireq", family: "pure", call: func(w *world, in []byte) (string, string) {
		_, err := galaxyapi.CniRequestToPodRequest(in)
		return errClass(err)
	}},
	{name: "iprange", family: "pure", call: func(w *world, in []byte) (string, string) {
		r := nets.ParseIPRange(string(in))
		var r2 nets.IPRange
		err := r2.UnmarshalJSON(in)
		var r3 []nets.IPRange
		json.Unmarshal(in, &r3)
		if r != nil {
			_ = r.Size()
			_ = r.String()
			_ = r.Contains(net.ParseIP("10.0.0.1"))
			return "result", ""
		}
		return errClass(err)
	}},
	{name: "ipnet", family: "pure", call: func(w *world, in []byte) (string, string) {
		var n nets.IPNet
		err := n.UnmarshalJSON(in)
		var n2 struct {
			A *nets.IPNet  `json:"a"`
			B []nets.IPNet `json:"b"`
		}
		json.Unmarshal(in, &n2)
		if err == nil {
			_ = n.String()
		}
		return errClass(err)
	}},
	{name: "cniargs", family: "pure", call: func(w *world, in []byte) (string, string) {
		a, err := constant.UnmarshalCniArgs(string(in))
		if a != nil {
			for _, rs := range a.RequestIPRange {
				for _, r := range rs {
					_ = r.String()
				}
			}
			for _, i := range a.Common.IPInfos {
				if i.IP != nil {
					_ = i.IP.String()
				}
			}
		}
		pod := &corev1.Pod{ObjectMeta: metav1.ObjectMeta{Annotations: map[string]string{constant.ExtendedCNIArgsAnnotation: string(in)}}}
		galaxy.VerifParseExtendedCNIArgs(pod)
		return errClass(err)
	}},
	{name: "parsecniargs", family: "pure", call: func(w *world, in []byte) (string, string) {
		m, err := cniutil.ParseCNIArgs(string(in))
		_ = cniutil.BuildCNIArgs(m)
		return errClass(err)
	}},
}

// bindNode: mostly a node whose subnet can serve what the pod requests (so that Bind gets as far as the apiserver calls)
func bindNode(pod *corev1.Pod, h uint32) string {
	if h%16 == 0 {
		return "nosuchnode"
	}
	args := pod.Annotations[constant.ExtendedCNIArgsAnnotation]
	switch {
	case strings.Contains(args, "10.49.27."):
		return "node1"
	case strings.Contains(args, "10.173.13."):
		return "node2"
	}
	return []string{"node1", "node2", "node3", "node4"}[h%4]
}

func surfaceByName(n string) *surface {
	for _, s := range surfaces {
		if s.name == n {
			return s
		}
	}
	return nil
}

// follow-up calls: every lock of the instance must still be acquirable
func (w *world) followIpam(d *lockset.Ipamd, in []byte) (string, string) {
	if w.fixedPod == nil {
		w.fixedPod = fipPod("fixed-0")
	}
	// exclusive cache lock (fails fast on the key check), shared cache lock, node-subnet lock, crd-key lock
	d.Plugin.GetIpam().Release("gxv-nokey", net.ParseIP("10.49.27.205"))
	if _, err := d.Plugin.GetIpam().ByPrefix("gxv-none"); err != nil {
		return "error", err.Error()
	}
	// the SAME pod name / namespace (same key of the per-pod lock) with DIFFERENT operations: Filter, unbind, Release
	if pod, err := decodePod(in); err == nil {
		probe := fipPod(pod.Name)
		probe.Namespace = pod.Namespace
		d.Plugin.Filter(probe, d.Nodes)
		d.Plugin.VerifLsUnbind(probe)
		d.Plugin.Release(&schedulerplugin.ReleaseRequest{IP: net.ParseIP("10.49.27.205"),
			KeyObj: util.NewKeyObj(util.StatefulsetPrefixKey, pod.Namespace, "fixed", pod.Name, "")})
		// and the pool lock of its deployment / pool, through a deployment pod of the same names
		dp := fipPod(pod.Name)
		dp.Namespace = pod.Namespace
		dp.OwnerReferences = []metav1.OwnerReference{{Kind: "ReplicaSet", Name: "dp-rs1"}}
		dp.Annotations = map[string]string{constant.ReleasePolicyAnnotation: constant.Immutable}
		if pool := constant.GetPool(pod.Annotations); pool != "" {
			dp.Annotations[constant.IPPoolAnnotation] = pool
		}
		d.Plugin.Filter(dp, d.Nodes)
		d.Plugin.VerifLsUnbind(dp)
	}
	// another pod
	d.Plugin.Filter(w.fixedPod, d.Nodes)
	d.Plugin.VerifLsUnbind(w.fixedPod)
	code, _ := httpDo(d.API, "GET", "/v1/ip", "keyword=gxv-none", nil)
	if code != 200 {
		return "error", fmt.Sprintf("list status %d", code)
	}
	return "result", ""
}

func (w *world) followGalaxy() (string, string) {
	g := w.galaxy()
	g.pmh.CloseHostports("gxv-none_ns1")
	g.pm.SyncPodChains(g.pods[0])
	g.pm.SyncPodIPInIPSet(g.pods[1], true)
	req := &galaxyapi.PodRequest{PodName: "p0", PodNamespace: "ns1", CmdArgs: &skel.CmdArgs{IfName: "eth0", ContainerID: "c"}}
	if _, err := g.g.VerifResolveNetworks(req, g.pods[0]); err != nil {
		return "error", err.Error()
	}
	return "result", ""
}

func workerMain() {
	lockset.Quiet()
	w := &world{}
	in := bufio.NewReaderSize(os.Stdin, 1<<20)
	out := bufio.NewWriter(os.Stdout)
	casesOnIpam := 0
	for {
		line, err := in.ReadString('\n')
		if err != nil {
			return
		}
		line = strings.TrimRight(line, "\n")
		sp := strings.IndexByte(line, ' ')
		if sp < 0 {
			continue
		}
		s := surfaceByName(line[:sp])
		rest := line[sp+1:]
		var override time.Duration
		if sp2 := strings.IndexByte(rest, ' '); sp2 >= 0 {
			if secs, err := time.ParseDuration(rest[sp2+1:]); err == nil {
				override = secs
			}
			rest = rest[:sp2]
		}
		data, derr := base64.StdEncoding.DecodeString(rest)
		var o outcome
		if s == nil || derr != nil {
			o = outcome{Class: "skip", Detail: "bad request"}
		} else {
			to := watchdog
			if s.timeout > 0 {
				to = s.timeout
			}
			if override > to {
				to = override
			}
			if s.family == "ipam" {
				curFault = planFor(data)
			}
			o.Class, o.Detail = guard(to, func() (string, string) { return s.call(w, data) })
			if curFault.kind != "" {
				o.Fault = curFault.kind
			}
			curFault = faultPlan{} // the follow-up calls run against a healthy apiserver
			o.Follow = "-"
			if o.Class != "skip" {
				switch s.family {
				case "smalllocks":
					if o.Class == "hang" || o.Class == "panic" {
						w.smalld = nil
					}
				case "ipamconf":
					c, d := guard(maxDur(watchdog, override), func() (string, string) { return w.followIpam(w.confIpam(), nil) })
					o.Follow, o.FDet = followClass(c), d
					if o.Class == "panic" || o.Follow != "ok" {
						w.confd = nil
					}
				case "ipam":
					c, d := guard(maxDur(watchdog, override), func() (string, string) { return w.followIpam(w.ipam(), data) })
					o.Follow, o.FDet = followClass(c), d
					casesOnIpam++
					if casesOnIpam%20 == 0 && o.Class != "hang" && o.Follow == "ok" {
						guard(watchdog, func() (string, string) { w.releaseAll(); return "result", "" })
					}
				case "galaxy":
					c, d := guard(maxDur(watchdog, override), func() (string, string) { return w.followGalaxy() })
					o.Follow, o.FDet = followClass(c), d
				}
			}
			if o.Class == "hang" || o.Follow == "wedged" {
				o.Exit = true // a goroutine is stuck inside the instance: this process is abandoned
			}
			if o.Class == "panic" || o.Follow == "panic" || casesOnIpam > 4000 {
				// a panic may have left the instance half-updated: fresh instance for the next case
				if s.family == "ipam" || casesOnIpam > 4000 {
					w.resetIpam()
					casesOnIpam = 0
				}
				if s.family == "galaxy" {
					w.gal = nil
				}
			}
		}
		b, _ := json.Marshal(o)
		out.Write(b)
		out.WriteByte('\n')
		out.Flush()
		if o.Exit {
			os.Exit(3)
		}
	}
}

func maxDur(a, b time.Duration) time.Duration {
	if b > a {
		return b
	}
	return a
}

func followClass(c string) string {
	switch c {
	case "hang":
		return "wedged"
	case "panic":
		return "panic"
	}
	return "ok"
}

var _ = context.TODO
var _ = total.Describe
