package main

// Correspondence of the M10 model functions (Lean driver gxdrv_total — the definitions the theorems of
// Props/C18.lean are about) with the real Go functions, on generated inputs.

import (
	"encoding/json"
	"fmt"
	"net"
	"strconv"
	"strings"
	"time"

	"gxverif/hx"
	"gxverif/lockset"
	"gxverif/total"
	"tkestack.io/galaxy/pkg/api/galaxy/constant"
	"tkestack.io/galaxy/pkg/api/k8s"
	ipamcontext "tkestack.io/galaxy/pkg/ipam/context"
	"tkestack.io/galaxy/pkg/ipam/floatingip"
	"tkestack.io/galaxy/pkg/ipam/schedulerplugin"
	"tkestack.io/galaxy/pkg/ipam/schedulerplugin/util"
	utiliptables "tkestack.io/galaxy/pkg/utils/iptables"
	"tkestack.io/galaxy/pkg/utils/nets"
	pageutil "tkestack.io/galaxy/pkg/utils/page"
)

func enc(s string) string {
	if s == "" {
		return "-"
	}
	var b strings.Builder
	for i := 0; i < len(s); i++ {
		c := s[i]
		if (c >= 'a' && c <= 'z') || (c >= 'A' && c <= 'Z') || (c >= '0' && c <= '9') {
			b.WriteByte(c)
		} else {
			fmt.Fprintf(&b, "%%%02X", c)
		}
	}
	return b.String()
}

// recoverClass runs f and maps a panic to the model's panic kinds.
func recoverClass(f func() string) (out string) {
	defer func() {
		if x := recover(); x != nil {
			s := fmt.Sprint(x)
			switch {
			case strings.Contains(s, "index out of range"):
				out = "panic indexOutOfRange"
			case strings.Contains(s, "slice bounds out of range"):
				out = "panic sliceBounds"
			case strings.Contains(s, "nil pointer") || strings.Contains(s, "nil map"):
				out = "panic nilDeref"
			case strings.Contains(s, "divide by zero"):
				out = "panic divByZero"
			default:
				out = "panic " + s
			}
		}
	}()
	return f()
}

type corrCase struct {
	op   string                 // driver line
	impl func() string          // real code, canonical output
	cmp  func(m, i string) bool // nil = exact
}

func ipOf(n uint32) net.IP { return net.IPv4(byte(n>>24), byte(n>>16), byte(n>>8), byte(n)).To4() }

func corrCases(e *hx.Env) []corrCase {
	r := e.Rng
	var cs []corrCase
	add := func(op string, impl func() string) { cs = append(cs, corrCase{op: op, impl: impl}) }
	strs := func() []string {
		base := []string{"a-0", "web-12", "a", "a-", "-0", "a--1", "x-00", "a-99999999999999999999", "a-+1", "a-0x1", "a-1 ", "a-b-c-5", "",
			"-", "--", "a-９", "a- 1", "a--", "a-9223372036854775807", "a-9223372036854775808", "a--5",
			"sts_ns1_a_a-0", "dp_ns1_dp_dp-rs-x", "pool__p1_dp_ns1_a_b", "pool__", "pool___", "pool__x", "pool__x_", "pool__a_b_c_d_e", "tapp_ns_a_a-1",
			"_", "__", "___", "____", "a_b_c", "a_b_c_d", "a_b_c_d_e", "NULL_ns_NULL_pod", "pool__p_NULL_ns_NULL_pod", "pool_x_y_z_w", "POOL__a_b_c_d_e"}
		for _, s := range total.ExtremeStrings {
			if len(s) <= 400 {
				base = append(base, s)
			}
		}
		return base
	}()
	rs := func() string {
		s := strs[r.Intn(len(strs))]
		if r.Intn(3) == 0 {
			s = string(total.MutateBytes(r, []byte(s)))
			if len(s) > 400 {
				s = s[:400]
			}
		}
		return s
	}
	n := e.N(300, 3000)
	// 1 walk
	for i := 0; i < n/3; i++ {
		var first, last uint32
		switch r.Intn(5) {
		case 0:
			last = 0xffffffff
			first = last - uint32(r.Intn(1<<12))
		case 1:
			first = uint32(r.Intn(4))
			last = first + uint32(r.Intn(1<<10))
		case 2:
			first = r.Uint32()
			last = first - uint32(r.Intn(3)) // first >= last
		default:
			first = r.Uint32() & 0xffff0000
			last = first + uint32(r.Intn(1<<14))
		}
		f, l := first, last
		add(fmt.Sprintf("walk cur %d %d", f, l), func() string {
			var cnt uint64
			done := hx.Guard(3*time.Second, func() { cnt = floatingip.VerifLsWalkCount([]nets.IPRange{{First: ipOf(f), Last: ipOf(l)}}, 1<<26) })
			if done == "hang" || cnt >= 1<<26 {
				return "hang"
			}
			if done != "ok" {
				return done
			}
			return fmt.Sprintf("ok %d", cnt)
		})
	}
	// 1b walkConfiguredIPRanges: real IPAM configured with random disjoint pool ranges, random requested ranges (incl. 2^32)
	for c := 0; c < e.N(3, 12); c++ {
		base := uint32(10<<24 | 9<<16)
		var ranges [][2]uint32
		cur := base + 2
		for k := 1 + r.Intn(4); k > 0 && cur < base+60000; k-- {
			lo := cur + uint32(r.Intn(300))
			hi := lo + uint32(r.Intn(200))
			ranges = append(ranges, [2]uint32{lo, hi})
			cur = hi + 2 + uint32(r.Intn(500))
		}
		var ips, confArg []string
		for _, rg := range ranges {
			ips = append(ips, fmt.Sprintf("%q", ipOf(rg[0]).String()+"~"+ipOf(rg[1]).String()))
			confArg = append(confArg, fmt.Sprintf("%d-%d", rg[0], rg[1]))
		}
		// two pools so that the parts have to be merged across pools and sorted
		half := len(ips) / 2
		pools := fmt.Sprintf(`[{"nodeSubnets":["10.0.1.0/24"],"ips":[%s],"subnet":"10.9.0.0/16","gateway":"10.9.0.1"}`, strings.Join(ips[half:], ","))
		if half > 0 {
			pools += fmt.Sprintf(`,{"nodeSubnets":["10.0.2.0/24"],"ips":[%s],"subnet":"10.9.0.0/16","gateway":"10.9.0.1","vlan":2}`, strings.Join(ips[:half], ","))
		}
		pools += "]"
		var ipam floatingip.IPAM
		getIpam := func() floatingip.IPAM {
			if ipam == nil {
				d, err := lockset.NewIpamd(pools)
				if err != nil {
					panic(fmt.Sprintf("walkconf pools %s: %v", pools, err))
				}
				ipam = d.Plugin.GetIpam()
			}
			return ipam
		}
		for q := 0; q < e.N(12, 40); q++ {
			var first, last uint32
			switch r.Intn(5) {
			case 0:
				first, last = 0, 0xffffffff
			case 1:
				first, last = base, base+0xffff
			case 2:
				rg := ranges[r.Intn(len(ranges))]
				first, last = rg[0]+uint32(r.Intn(50)), rg[1]+uint32(r.Intn(400))
			case 3:
				rg := ranges[r.Intn(len(ranges))]
				first = rg[0] - uint32(r.Intn(300))
				last = first + uint32(r.Intn(900))
			default:
				first = base + uint32(r.Intn(60000))
				last = first - 1 + uint32(r.Intn(3))
			}
			f, l := first, last
			add(fmt.Sprintf("walkconf %d %d %s", f, l, strings.Join(confArg, ",")), func() string {
				var out string
				done := hx.Guard(3*time.Second, func() {
					v, ok := floatingip.VerifLsWalkConfigured(getIpam(), []nets.IPRange{{First: ipOf(f), Last: ipOf(l)}})
					if !ok {
						out = "not-crd-ipam"
						return
					}
					if len(v) == 0 {
						out = "ok -"
						return
					}
					parts := make([]string, len(v))
					for i, x := range v {
						parts[i] = strconv.FormatUint(uint64(x), 10)
					}
					out = "ok " + strings.Join(parts, ",")
				})
				if done != "ok" {
					return done
				}
				return out
			})
		}
	}
	// 2 pagination
	numStr := func() string {
		switch r.Intn(4) {
		case 0:
			return ""
		case 1:
			return total.ExtremeNumbers[r.Intn(len(total.ExtremeNumbers))]
		case 2:
			return rs()
		}
		return strconv.Itoa(r.Intn(30) - 3)
	}
	for i := 0; i < n; i++ {
		pg, sz, ln := numStr(), numStr(), []int{0, 1, 9, 10, 11, 99, 1000, 123456}[r.Intn(8)]
		add(fmt.Sprintf("pagin %s %s %d", enc(pg), enc(sz), ln), func() string {
			return recoverClass(func() string {
				page, size := pageutil.ParsePage(pg), pageutil.ParseSize(sz)
				start, end, p := pageutil.Pagination(page, size, ln)
				_ = make([]int, ln)[start:end]
				return fmt.Sprintf("ok %d %d %d %d %d %d", start, end, p.Size, p.TotalPages, p.Number, p.NumberOfElements)
			})
		})
	}
	// 3 policy strings
	for _, k := range []int{0, 1, 2, 3, 4, 7, 255, 65535} {
		k := k
		add(fmt.Sprintf("policystr %d", k), func() string {
			return recoverClass(func() string { return "ok " + enc(constant.PolicyStr(constant.ReleasePolicy(k))) })
		})
	}
	for _, s := range []string{"", "immutable", "never", "Never", "garbage", "immutable ", "NEVER", "0", "2"} {
		s := s
		add("convpolicy "+enc(s), func() string {
			return recoverClass(func() string {
				p := constant.ConvertReleasePolicy(s)
				return fmt.Sprintf("ok %d %s", p, enc(constant.PolicyStr(p)))
			})
		})
	}
	// 4, 5 pod index / key
	for i := 0; i < n; i++ {
		s := rs()
		add("podindex "+enc(s), func() string {
			return recoverClass(func() string {
				v, err := schedulerplugin.VerifLsParsePodIndex(s)
				if err != nil {
					return "err"
				}
				return fmt.Sprintf("ok %d", v)
			})
		})
		s2 := rs()
		add("parsekey "+enc(s2), func() string {
			return recoverClass(func() string {
				k := util.ParseKey(s2)
				return fmt.Sprintf("ok %s %s %s %s %s", enc(k.PoolName), enc(k.AppTypePrefix), enc(k.AppName), enc(k.PodName), enc(k.Namespace))
			})
		})
	}
	// 6 unmarshal slice guards: data of every small length (valid literal when one of that length exists)
	valid := map[int]string{}
	for _, v := range []string{`"10.0.0.0/8"`, `"1.2.3.4/32"`, `"10.49.27.0/24"`, `"::/0"`, `"1.1.1.1/1"`} {
		valid[len(v)] = v
	}
	validR := map[int]string{}
	for _, v := range []string{`"1.2.3.4"`, `"10.0.0.1~10.0.0.9"`, `"::1"`, `"1.1.1.1~2.2.2.2"`} {
		validR[len(v)] = v
	}
	for l := 0; l <= 20; l++ {
		l := l
		filler := func(m map[int]string) []byte {
			if v, ok := m[l]; ok {
				return []byte(v)
			}
			if l >= 2 {
				return []byte(`"` + strings.Repeat("x", l-2) + `"`)
			}
			return []byte(strings.Repeat("x", l))
		}
		cs = append(cs, corrCase{op: fmt.Sprintf("ipnetslice %d", l), impl: func() string {
			return recoverClass(func() string {
				var n nets.IPNet
				if err := n.UnmarshalJSON(filler(valid)); err != nil {
					return "err"
				}
				return "ok"
			})
		}, cmp: sliceCmp})
		cs = append(cs, corrCase{op: fmt.Sprintf("iprangeslice %d", l), impl: func() string {
			return recoverClass(func() string {
				var n nets.IPRange
				if err := n.UnmarshalJSON(filler(validR)); err != nil {
					return "err"
				}
				return "ok"
			})
		}, cmp: sliceCmp})
	}
	// 7 chain lines
	lines := []string{":KUBE-X - [0:0]", ":X", ":", ": ", ":A B", "# comment", "COMMIT", "*nat", "-A INPUT -j ACCEPT", "x", ":GLX-PLCY-ABC - [12:34]", "::", ":a:b c",
		"COMMITTED", "#", "*", ":X\t- [0:0]", ""}
	for i := 0; i < n/2; i++ {
		ln := lines[r.Intn(len(lines))]
		if r.Intn(3) == 0 {
			ln = strings.Trim(strings.NewReplacer("\n", "", "\r", "").Replace(string(total.MutateBytes(r, []byte(ln)))), " ")
		}
		if strings.ContainsAny(ln, "\n") || strings.HasPrefix(ln, " ") || strings.HasSuffix(ln, " ") {
			continue
		}
		line := ln
		add("chainline "+enc(line), func() string {
			return recoverClass(func() string {
				m := utiliptables.GetChainLines(utiliptables.TableFilter, []byte("*filter\n"+line+"\n:GXVSENTINEL - [0:0]\nCOMMIT\n"))
				_, sentinel := m["GXVSENTINEL"]
				for c := range m {
					if c != "GXVSENTINEL" {
						return "ok chain " + enc(string(c))
					}
				}
				if sentinel {
					return "ok skip"
				}
				return "ok stop"
			})
		})
	}
	// 10 networks annotation with null elements
	for i := 0; i < n/4; i++ {
		k := r.Intn(4)
		var parts, elems []string
		for j := 0; j < k; j++ {
			if r.Intn(3) == 0 {
				parts, elems = append(parts, "null"), append(elems, "null")
			} else {
				name := []string{"net-a", "net-b", "x", "a b", ""}[r.Intn(5)]
				q, _ := json.Marshal(map[string]string{"name": name})
				parts, elems = append(parts, string(q)), append(elems, "n:"+enc(name))
			}
		}
		doc := "[" + strings.Join(parts, ",") + "]"
		arg := "-"
		if len(elems) > 0 {
			arg = strings.Join(elems, ",")
		}
		add("resolvenets "+arg, func() string {
			return recoverClass(func() string {
				nets, err := k8s.ParsePodNetworkAnnotation(doc)
				if err != nil {
					return "err"
				}
				var names []string
				for _, n := range nets {
					names = append(names, enc(n.Name))
				}
				if len(names) == 0 {
					return "ok -"
				}
				return "ok " + strings.Join(names, ",")
			})
		})
	}
	// 11 configuration with null pools / null members
	var plugin *schedulerplugin.FloatingIPPlugin
	getPlugin := func() *schedulerplugin.FloatingIPPlugin {
		if plugin == nil {
			d, err := lockset.NewIpamd(lockset.DefaultPools)
			if err != nil {
				panic(err)
			}
			plugin = d.Plugin
		}
		return plugin
	}
	for i := 0; i < e.N(60, 400); i++ {
		k := r.Intn(3)
		var parts, elems []string
		for j := 0; j <= k; j++ {
			if r.Intn(5) == 0 {
				parts, elems = append(parts, "null"), append(elems, "null")
				continue
			}
			ro, su, gw := r.Intn(3) == 0, r.Intn(6) > 0, r.Intn(6) > 0
			nb := r.Intn(3)
			var mem []string
			bits := ""
			if ro {
				mem = append(mem, `"routableSubnet":"10.49.27.0/24"`)
			}
			var ns []string
			for b := 0; b < nb; b++ {
				if r.Intn(4) == 0 {
					ns, bits = append(ns, "null"), bits+"0"
				} else {
					ns, bits = append(ns, fmt.Sprintf(`"10.0.%d.0/24"`, b+1)), bits+"1"
				}
			}
			if bits == "" {
				bits = "e"
			}
			mem = append(mem, `"nodeSubnets":[`+strings.Join(ns, ",")+`]`)
			if su {
				mem = append(mem, `"subnet":"10.49.27.0/24"`)
			}
			if gw {
				mem = append(mem, `"gateway":"10.49.27.1"`)
			}
			mem = append(mem, `"ips":["10.49.27.205"]`)
			parts = append(parts, "{"+strings.Join(mem, ",")+"}")
			b2s := func(b bool) string {
				if b {
					return "1"
				}
				return "0"
			}
			elems = append(elems, fmt.Sprintf("%s:%s:%s:%s", b2s(ro), b2s(su), b2s(gw), bits))
		}
		doc := "[" + strings.Join(parts, ",") + "]"
		arg := strings.Join(elems, ",")
		cs = append(cs, corrCase{op: "ensureconf " + arg, impl: func() string {
			return recoverClass(func() string {
				last := ""
				if _, err := getPlugin().VerifLsEnsureIPAMConf(&last, doc); err != nil {
					return "err"
				}
				return "ok"
			})
		}, cmp: confCmp})
		if i < e.N(12, 60) {
			cs = append(cs, corrCase{op: "initconf " + arg, impl: func() string {
				return recoverClass(func() string {
					var conf schedulerplugin.Conf
					if err := json.Unmarshal([]byte(`{"floatingips":`+doc+`}`), &conf); err != nil {
						return "err"
					}
					ctx, stop := ipamcontext.CreateTestIPAMContext(nil, nil, nil)
					defer close(stop)
					p, err := schedulerplugin.NewFloatingIPPlugin(conf, ctx)
					if err != nil {
						return "err"
					}
					if len(conf.FloatingIPs) == 0 {
						return "ok"
					}
					if err := p.Init(); err != nil {
						return "err"
					}
					return "ok"
				})
			}, cmp: confCmp})
		}
	}
	return cs
}

// model: `ok lo hi` | `err` | `panic …`; impl: ok | err | panic …  — the model does not parse the content
func sliceCmp(m, i string) bool {
	switch {
	case strings.HasPrefix(m, "panic"):
		return m == i
	case m == "err":
		return i == "err"
	}
	return !strings.HasPrefix(i, "panic")
}

// model `ok` = no nil dereference up to the end of ConfigurePool (later validation may still reject: impl err allowed)
func confCmp(m, i string) bool {
	switch {
	case strings.HasPrefix(m, "panic") || strings.HasPrefix(i, "panic"):
		return m == i
	case m == "err":
		return i == "err"
	}
	return true
}

func corrPart(e *hx.Env, r *hx.Report) {
	cs := corrCases(e)
	var lines []string
	for _, c := range cs {
		lines = append(lines, c.op)
	}
	lines = append(lines, "facts")
	out, err := e.RunDriver("total", lines)
	if err != nil {
		r.Disagree = append(r.Disagree, hx.Disagreement{Where: "total driver", Impl: "-", Model: err.Error(),
			Replay: e.WriteReplay("C18", "corr", "driver", []string{err.Error()}, nil)})
		return
	}
	r.Extra["facts"] = out[len(out)-1]
	nd := 0
	for i, c := range cs {
		impl := c.impl()
		kind := strings.Fields(c.op)[0]
		r.Case(c.op, true)
		r.Traces++
		r.Hit("corr:" + kind + ":" + strings.Join(firstWords(out[i], 2), "-"))
		ok := out[i] == impl
		if c.cmp != nil {
			ok = c.cmp(out[i], impl)
		}
		if out[i] == "bad-op" {
			ok = false
		}
		if !ok {
			nd++
			if nd <= 10 {
				r.Disagree = append(r.Disagree, hx.Disagreement{Where: "total:" + kind, Index: i, Impl: impl, Model: out[i],
					Replay: e.WriteReplay("C18", "corr", fmt.Sprintf("%s-%d", kind, i), []string{"impl=" + impl, "model=" + out[i]}, []string{"corr " + c.op})})
			}
		}
	}
}

func firstWords(s string, n int) []string {
	w := strings.Fields(s)
	if len(w) > n {
		w = w[:n]
	}
	if len(w) == 2 && w[0] == "ok" && w[1] != "chain" && w[1] != "skip" && w[1] != "stop" {
		w = w[:1]
	}
	return w
}

func corrReplay(e *hx.Env, r *hx.Report, op string) {
	out, err := e.RunDriver("total", []string{op})
	if err != nil {
		r.Extra["replay_error"] = err.Error()
		return
	}
	r.Extra["model"] = out[0]
	r.Case(op, true)
}
