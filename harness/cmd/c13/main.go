// c13: the IPs a plugin configures are exactly the IPs IPAM allocated.
//
// Composes the REAL functions in-process:
//
//	generated pools  ->  real FloatingIPPlugin.Bind (crdIpam allocate, toFloatingIPInfo, json.Marshal of CniArgs)
//	                 ->  the Binding's annotation            (captured at the fake API server)
//	                 ->  real Galaxy.cmdAdd: parseExtendedCNIArgs + resolveNetworks + cniutil.CmdAdd (BuildCNIArgs,
//	                     argument accumulation) -> a recording delegate "plugin" (shell script) sees CNI_ARGS
//	                 ->  real cni/ipam.Allocate on the recorded CNI_ARGS (ParseCNIArgs + json decode)
//	                 ->  compared with the FloatingIP objects persisted in the (fake) API server + the generated pools.
//
// Every stage's text is also computed by the Lean model (gxdrv_args) and compared.  Separate streams exercise the
// codec alone (BuildCNIArgs / ParseCNIArgs / CmdAdd accumulation) on valid and malformed maps and strings.
//
// Case lines (also the replay format):
//
//	codec <Hk> <Hv> …                  one Go map
//	parse <Hs>                         one argument string
//	cmdadd <Hreq> <map> <map> …        CmdAdd with these per-network arg maps (map = `-` | Hk:Hv,Hk:Hv…)
//	pipe <json>                        one configuration: pools, pods (IP requests), network selection
package main

import (
	"context"
	"encoding/json"
	"flag"
	"fmt"
	"io"
	"math/rand"
	"net"
	"os"
	"path/filepath"
	"sort"
	"strings"
	"time"

	"github.com/containernetworking/cni/pkg/skel"
	t020 "github.com/containernetworking/cni/pkg/types/020"
	corev1 "k8s.io/api/core/v1"
	metav1 "k8s.io/apimachinery/pkg/apis/meta/v1"
	"k8s.io/apimachinery/pkg/runtime"
	"k8s.io/apimachinery/pkg/types"
	"k8s.io/apimachinery/pkg/watch"
	"k8s.io/client-go/kubernetes/fake"
	k8stesting "k8s.io/client-go/testing"
	"k8s.io/klog"
	cniipam "tkestack.io/galaxy/cni/ipam"
	"tkestack.io/galaxy/pkg/api/cniutil"
	galaxyapi "tkestack.io/galaxy/pkg/api/galaxy"
	"tkestack.io/galaxy/pkg/api/galaxy/constant"
	"tkestack.io/galaxy/pkg/api/k8s/schedulerapi"
	"tkestack.io/galaxy/pkg/galaxy"
	ipamcontext "tkestack.io/galaxy/pkg/ipam/context"
	"tkestack.io/galaxy/pkg/ipam/floatingip"
	"tkestack.io/galaxy/pkg/ipam/schedulerplugin"
	plugintesting "tkestack.io/galaxy/pkg/ipam/schedulerplugin/testing"
	pluginutil "tkestack.io/galaxy/pkg/ipam/schedulerplugin/util"

	ax "gxverif/args"
	"gxverif/hx"
)

const rule = "nontrivial = a pipeline evaluation (one pod x one network) whose plugin-side decode returned >= 1 IP, " +
	"or a codec case with >= 2 entries / a parsed string with >= 1 separator, counted once per distinct content"

const pluginType = "c13rec"

type env struct {
	e      *hx.Env
	r      *hx.Report
	work   string // /verif/out/c13.<pid>
	binDir string
	recDir string
	cid    int
	// batched driver lines: each with the implementation's answer and the case line it belongs to
	drvLines []string
	drvImpl  []string
	drvWhere []string
	drvCase  []string
}

func (v *env) expect(where, caseLine, line, impl string) {
	v.drvLines = append(v.drvLines, line)
	v.drvImpl = append(v.drvImpl, impl)
	v.drvWhere = append(v.drvWhere, where)
	v.drvCase = append(v.drvCase, caseLine)
}

func (v *env) flush() {
	if len(v.drvLines) == 0 {
		return
	}
	out, err := v.e.RunDriver("args", v.drvLines)
	if err != nil {
		rp := v.e.WriteReplay("C13", "obligation", "driver-failed", []string{err.Error()}, nil)
		v.r.Disagree = append(v.r.Disagree, hx.Disagreement{Where: "driver", Impl: "-", Model: err.Error(), Replay: rp})
		v.drvLines, v.drvImpl, v.drvWhere, v.drvCase = nil, nil, nil, nil
		return
	}
	seen := map[string]bool{}
	for i := range v.drvLines {
		v.r.Traces++
		if out[i] != v.drvImpl[i] {
			v.r.Hit("disagree:" + v.drvWhere[i])
			if seen[v.drvWhere[i]] || len(v.r.Disagree) >= 20 {
				continue
			}
			seen[v.drvWhere[i]] = true
			rp := v.e.WriteReplay("C13", "input", fmt.Sprintf("disagree-%s-%d", v.drvWhere[i], len(v.r.Disagree)),
				[]string{"correspondence point: " + v.drvWhere[i], "driver line: " + v.drvLines[i],
					"impl:  " + v.drvImpl[i], "model: " + out[i]}, []string{v.drvCase[i]})
			v.r.Disagree = append(v.r.Disagree, hx.Disagreement{Where: v.drvWhere[i], Index: i, Impl: clip(v.drvImpl[i]),
				Model: clip(out[i]), Replay: rp, Ops: []string{v.drvCase[i]}})
		}
	}
	v.drvLines, v.drvImpl, v.drvWhere, v.drvCase = nil, nil, nil, nil
}

func clip(s string) string {
	if len(s) > 400 {
		return s[:400] + "…"
	}
	return s
}

func (v *env) violation(sig, what, caseLine string) {
	v.r.Hit("violation:" + sig)
	for _, x := range v.r.Violations {
		if x.Signature == sig {
			return
		}
	}
	rp := v.e.WriteReplay("C13", "input", "violation-"+strings.NewReplacer(":", "-", "/", "-").Replace(sig),
		[]string{"signature: " + sig, what}, []string{caseLine})
	v.r.Violations = append(v.r.Violations, hx.Violation{Signature: sig, What: clip(what), Replay: rp, Ops: []string{caseLine}})
}

// ------------------------------------------------------------------------------------------------ recording plugin

func (v *env) setup() error {
	v.work = filepath.Join(os.Getenv("VERIF_ROOT"), "out", fmt.Sprintf("c13.%d", os.Getpid()))
	if os.Getenv("VERIF_ROOT") == "" {
		v.work = fmt.Sprintf("/verif/out/c13.%d", os.Getpid())
	}
	v.binDir = filepath.Join(v.work, "bin")
	v.recDir = filepath.Join(v.work, "rec")
	for _, d := range []string{v.binDir, v.recDir} {
		if err := os.MkdirAll(d, 0o755); err != nil {
			return err
		}
	}
	// the delegate "plugin": records CNI_ARGS exactly as received, answers with a fixed 0.2.0 result
	script := "#!/bin/sh\nprintf '%s' \"$CNI_ARGS\" > \"" + v.recDir + "/$CNI_CONTAINERID.$CNI_IFNAME\"\n" +
		"printf '%s' '{\"cniVersion\":\"0.2.0\",\"ip4\":{\"ip\":\"10.9.9.9/24\"}}'\n"
	return os.WriteFile(filepath.Join(v.binDir, pluginType), []byte(script), 0o755)
}

func (v *env) cleanup() { os.RemoveAll(v.work) }

func (v *env) newCID() string {
	v.cid++
	return fmt.Sprintf("verif-c13-%d-%d", os.Getpid(), v.cid)
}

func (v *env) recorded(cid, ifname string) (string, bool) {
	b, err := os.ReadFile(filepath.Join(v.recDir, cid+"."+ifname))
	if err != nil {
		return "", false
	}
	return string(b), true
}

func (v *env) dropState(cid string) {
	os.Remove(filepath.Join("/var/lib/cni/galaxy", cid))
	ms, _ := filepath.Glob(filepath.Join(v.recDir, cid+".*"))
	for _, m := range ms {
		os.Remove(m)
	}
}

// ------------------------------------------------------------------------------------------------ codec cases

var tricky = []rune{';', '=', ' ', '\t', '\n', '\r', '\v', '\f', 0x85, 0xA0, 0x1680, 0x2000, 0x2003, 0x200A, 0x2028, 0x2029,
	0x202F, 0x205F, 0x3000, 0x200B, 0xFEFF, 0x180E, 0x1C, 0x1F, '"', ',', ':', '{', '}', '[', ']', '\\', '/', 'é', '日', 0x1F600, 0x7F, 1}

const plain = "abcdefghijklmnopqrstuvwxyzABCDEFGHIJKLMNOPQRSTUVWXYZ0123456789_.-"

func genToken(rng *rand.Rand, valid bool, isKey bool) string {
	n := rng.Intn(7)
	if isKey && n == 0 && rng.Intn(4) != 0 {
		n = 1 + rng.Intn(5)
	}
	var b strings.Builder
	for i := 0; i < n; i++ {
		switch {
		case valid:
			// valid stream: plain characters, inner blanks, for values also '=', quotes, brackets
			c := rng.Intn(10)
			if c < 7 || i == 0 || i == n-1 {
				b.WriteByte(plain[rng.Intn(len(plain))])
			} else if c == 7 {
				b.WriteByte(' ')
			} else if isKey {
				b.WriteRune([]rune{'é', '日', ':', ','}[rng.Intn(4)])
			} else {
				b.WriteRune([]rune{'=', '"', ',', ':', '[', ']', '{', '}', 0x1F600, 0x200B}[rng.Intn(10)])
			}
		default:
			if rng.Intn(3) == 0 {
				b.WriteRune(tricky[rng.Intn(len(tricky))])
			} else {
				b.WriteByte(plain[rng.Intn(len(plain))])
			}
		}
	}
	return b.String()
}

func genMap(rng *rand.Rand, valid bool) map[string]string {
	m := map[string]string{}
	n := rng.Intn(6)
	if rng.Intn(10) == 0 {
		n = 6 + rng.Intn(3)
	}
	for i := 0; i < n; i++ {
		m[genToken(rng, valid, true)] = genToken(rng, valid, false)
	}
	return m
}

func featureOf(m map[string]string) string {
	f := map[string]bool{}
	for k, val := range m {
		if strings.ContainsAny(k, ";") {
			f["key-semicolon"] = true
		}
		if strings.ContainsAny(k, "=") {
			f["key-equals"] = true
		}
		if strings.TrimSpace(k) != k {
			f["key-blank"] = true
		}
		if strings.Contains(val, ";") {
			f["value-semicolon"] = true
		}
		if strings.TrimSpace(val) != val {
			f["value-blank"] = true
		}
		if k == "" {
			f["empty-key"] = true
		}
	}
	ks := hx.SortedKeys(f)
	if len(ks) == 0 {
		return "clean"
	}
	return strings.Join(ks, "+")
}

func parseCodecLine(toks []string) (map[string]string, []ax.KV, error) {
	if len(toks)%2 != 0 {
		return nil, nil, fmt.Errorf("odd number of tokens")
	}
	m := map[string]string{}
	for i := 0; i < len(toks); i += 2 {
		k, e1 := ax.UnH(toks[i])
		val, e2 := ax.UnH(toks[i+1])
		if e1 != nil || e2 != nil {
			return nil, nil, fmt.Errorf("bad token")
		}
		m[k] = val
	}
	return m, ax.SortedEntries(m), nil
}

// codec: BuildCNIArgs + ParseCNIArgs on one map.
func (v *env) runCodec(line string) {
	toks := strings.Fields(line)[1:]
	m, es, err := parseCodecLine(toks)
	if err != nil {
		v.r.Hit("bad-case-line")
		return
	}
	var built string
	var parsed map[string]string
	out := hx.Guard(5*time.Second, func() {
		built = cniutil.BuildCNIArgs(m)
		parsed, _ = cniutil.ParseCNIArgs(built)
	})
	v.r.Case(line, len(m) >= 2)
	v.r.Hit(fmt.Sprintf("codec:entries=%d", minInt(len(m), 6)))
	if out != "ok" {
		v.violation("codec-"+strings.SplitN(out, ":", 2)[0], "BuildCNIArgs/ParseCNIArgs "+out, line)
		return
	}
	wf := ax.WFMap(m)
	if wf {
		v.r.Hit("codec:wf")
	} else {
		v.r.Hit("codec:not-wf")
		for _, f := range strings.Split(featureOf(m), "+") {
			v.r.Hit("codec:not-wf:" + f)
		}
	}
	// correspondence: the observed iteration order must be admissible and give exactly this text
	order, ok := ax.FindOrder(es, built, "=", ";")
	wfFlag := map[bool]string{true: "1", false: "0"}[wf]
	if !ok {
		order = make([]int, len(es))
		for i := range order {
			order[i] = i
		}
		v.r.Hit("codec:no-order-explains-output")
	} else if len(es) >= 2 && !sort.IntsAreSorted(order) {
		v.r.Hit("codec:non-identity-order")
	}
	v.expect("build", line, "build "+ax.PermToken(order)+" "+ax.PairsTokens(es), "ok "+ax.H(built)+" wf="+wfFlag)
	v.expect("parse", line, "parse "+ax.H(built), ax.MapLine(parsed))
	// monitor (the property's sentence about the daemon's argument passing): a well-formed map survives
	if wf {
		if len(parsed) != len(m) {
			v.violation("args-roundtrip-broken", fmt.Sprintf("map of %d entries parsed back as %d entries from %q", len(m), len(parsed), built), line)
			return
		}
		for k, val := range m {
			if got, ok := parsed[k]; !ok || got != val {
				v.violation("args-roundtrip-broken", fmt.Sprintf("key %q: built %q, parsed back %q (present=%v) from %q", k, val, got, ok, built), line)
				return
			}
		}
	}
}

func (v *env) runParse(line string) {
	toks := strings.Fields(line)
	if len(toks) != 2 {
		v.r.Hit("bad-case-line")
		return
	}
	s, err := ax.UnH(toks[1])
	if err != nil {
		v.r.Hit("bad-case-line")
		return
	}
	var parsed map[string]string
	out := hx.Guard(5*time.Second, func() { parsed, _ = cniutil.ParseCNIArgs(s) })
	v.r.Case(line, strings.ContainsAny(s, ";="))
	v.r.Hit(fmt.Sprintf("parse:entries=%d", minInt(len(parsed), 6)))
	if out != "ok" {
		v.violation("parse-"+strings.SplitN(out, ":", 2)[0], "ParseCNIArgs "+out, line)
		return
	}
	v.expect("parse", line, "parse "+ax.H(s), ax.MapLine(parsed))
}

func mapToken(m map[string]string) string {
	if len(m) == 0 {
		return "-"
	}
	var parts []string
	for _, e := range ax.SortedEntries(m) {
		parts = append(parts, ax.H(e.K)+":"+ax.H(e.V))
	}
	return strings.Join(parts, ",")
}

func parseMapToken(t string) (map[string]string, error) {
	m := map[string]string{}
	if t == "-" {
		return m, nil
	}
	for _, p := range strings.Split(t, ",") {
		kv := strings.SplitN(p, ":", 2)
		if len(kv) != 2 {
			return nil, fmt.Errorf("bad map token")
		}
		k, e1 := ax.UnH(kv[0])
		val, e2 := ax.UnH(kv[1])
		if e1 != nil || e2 != nil {
			return nil, fmt.Errorf("bad map token")
		}
		m[k] = val
	}
	return m, nil
}

// cmdadd: the real cniutil.CmdAdd with hand-made per-network arg maps; the recording plugin shows what each delegate got.
func (v *env) runCmdAdd(line string) {
	toks := strings.Fields(line)
	if len(toks) < 3 {
		v.r.Hit("bad-case-line")
		return
	}
	req, err := ax.UnH(toks[1])
	if err != nil {
		v.r.Hit("bad-case-line")
		return
	}
	var maps []map[string]string
	for _, t := range toks[2:] {
		m, err := parseMapToken(t)
		if err != nil {
			v.r.Hit("bad-case-line")
			return
		}
		maps = append(maps, m)
	}
	cid := v.newCID()
	defer v.dropState(cid)
	var infos []*cniutil.NetworkInfo
	for i, m := range maps {
		ni := cniutil.NewNetworkInfo(fmt.Sprintf("net%d", i), map[string]interface{}{"type": pluginType, "name": fmt.Sprintf("net%d", i)}, fmt.Sprintf("n%d", i))
		for k, val := range m {
			ni.Args[k] = val
		}
		infos = append(infos, ni)
	}
	cmdArgs := &skel.CmdArgs{ContainerID: cid, Netns: "/proc/self/ns/net", IfName: "n0", Args: req, Path: v.binDir, StdinData: []byte("{}")}
	var addErr error
	out := hx.Guard(30*time.Second, func() { _, addErr = cniutil.CmdAdd(cmdArgs, infos) })
	v.r.Case(line, len(maps) >= 2)
	v.r.Hit(fmt.Sprintf("cmdadd:networks=%d", len(maps)))
	if out != "ok" {
		v.violation("cmdadd-"+strings.SplitN(out, ":", 2)[0], "CmdAdd "+out, line)
		return
	}
	if addErr != nil {
		v.r.Hit("cmdadd:error")
		v.violation("cmdadd-failed", "CmdAdd with a recording delegate failed: "+addErr.Error(), line)
		return
	}
	prev := req
	prevParsed, _ := cniutil.ParseCNIArgs(prev)
	for i, m := range maps {
		got, ok := v.recorded(cid, fmt.Sprintf("n%d", i))
		if !ok {
			v.violation("cmdadd-delegate-not-invoked", fmt.Sprintf("network %d: the delegate was not invoked", i), line)
			return
		}
		es := ax.SortedEntries(m)
		// observe the iteration order from the text after "<prev>;"
		order := make([]int, len(es))
		for j := range order {
			order[j] = j
		}
		// (TrimRight may have removed trailing ';' of the last value — or of everything: put them back for the search)
		for j := 0; j <= 12; j++ {
			cand := got + strings.Repeat(";", j)
			if strings.HasPrefix(cand, prev+";") {
				if o, ok := ax.FindOrder(es, cand[len(prev)+1:], "=", ";"); ok {
					order = o
					break
				}
			}
		}
		v.expect("acc", line, "acc "+ax.H(prev)+" "+ax.PermToken(order)+" "+ax.PairsTokens(es), "ok "+ax.H(got))
		parsed, _ := cniutil.ParseCNIArgs(got)
		v.expect("parse", line, "parse "+ax.H(got), ax.MapLine(parsed))
		// monitor: last occurrence wins — this network's well-formed args on top of everything before
		if ax.WFMap(m) {
			want := map[string]string{}
			for k, val := range prevParsed {
				want[k] = val
			}
			for k, val := range m {
				want[k] = val
			}
			if ax.MapLine(want) != ax.MapLine(parsed) {
				v.violation("args-accumulate-not-last-wins", fmt.Sprintf("network %d: delegate got %q, parsed %v, expected %v", i, got, parsed, want), line)
				return
			}
			v.r.Hit("cmdadd:wf-network")
		} else {
			v.r.Hit("cmdadd:not-wf-network")
		}
		prev, prevParsed = got, parsed
	}
}

// ------------------------------------------------------------------------------------------------ pipeline cases

type poolSpec struct {
	Plen   int         `json:"plen"`
	Base   uint32      `json:"base"` // network address
	GW     uint32      `json:"gw"`
	Vlan   int         `json:"vlan"`
	Ranges [][2]uint32 `json:"ranges"`
}

type podSpec struct {
	Name string `json:"name"`
	// request_ip_range: one list of ranges per requested IP; empty = plain single-IP request
	Req [][][2]uint32 `json:"req,omitempty"`
	// Pre: indices of the requested ranges for which the pod ALREADY holds an ip when it is bound (an earlier
	// incarnation with policy immutable / never, a range added to the annotation later, an ip released through the
	// API): that range's first address is allocated under the pod's key before Bind.  A non-empty proper subset.
	Pre []int `json:"pre,omitempty"`
}

type pipeCase struct {
	Pools []poolSpec `json:"pools"`
	Pods  []podSpec  `json:"pods"`
	// network selection on the galaxy side
	NetMode string `json:"netmode"` // default | eni | ann-comma | ann-json
	NNets   int    `json:"nnets"`
	ReqArgs string `json:"reqargs"` // kubelet | kubelet-ws | with-stale-ipinfos
	// Reload: after every pod has been bound and checked once, the floatingip configuration is reloaded in the same
	// process (same ranges; vlan / gateway / subnet mask of these pools changed), the pods are bound AGAIN (their ips
	// are reused) and the whole pipeline is checked against the pools of the configuration now in force.
	Reload []poolSpec `json:"reload,omitempty"`
	// Recreate: on the daemon's node every pod of the case is the NEXT INCARNATION of one and the same pod name
	// (the previous one is deleted, the new one created under the same name with its own binding annotation) while
	// the daemon's watch on pods lags: the ADD of the new incarnation must carry the new incarnation's ips.
	Recreate bool `json:"recreate,omitempty"`
}

func ipStr(n uint32) string { return ax.U32ToIP(n).String() }

func rangeStr(r [2]uint32) string {
	if r[0] == r[1] {
		return ipStr(r[0])
	}
	return ipStr(r[0]) + "~" + ipStr(r[1])
}

const nodeSubnet = "172.31.0.0/16"
const nodeIP = "172.31.0.9"
const nodeName = "node-c13"
const podNS = "ns1"

func (pc *pipeCase) confJSON() string {
	var pools []string
	for _, p := range pc.Pools {
		var ips []string
		for _, r := range p.Ranges {
			ips = append(ips, `"`+rangeStr(r)+`"`)
		}
		s := fmt.Sprintf(`{"nodeSubnets":["%s"],"ips":[%s],"subnet":"%s/%d","gateway":"%s"`, nodeSubnet,
			strings.Join(ips, ","), ipStr(p.Base), p.Plen, ipStr(p.GW))
		if p.Vlan != 0 {
			s += fmt.Sprintf(`,"vlan":%d`, p.Vlan)
		}
		pools = append(pools, s+"}")
	}
	return `{"floatingips":[` + strings.Join(pools, ",") + `]}`
}

func (pc *pipeCase) poolOf(ip uint32) *poolSpec {
	for i := range pc.Pools {
		for _, r := range pc.Pools[i].Ranges {
			if r[0] <= ip && ip <= r[1] {
				return &pc.Pools[i]
			}
		}
	}
	return nil
}

var plens = []int{8, 8, 12, 16, 16, 20, 22, 23, 24, 24, 24, 25, 26, 26, 27, 28, 29, 30, 30, 31, 32, 32}
var vlans = []int{0, 0, 0, 1, 2, 2, 3, 100, 4000, 4093, 4094, 4094}
var firstOctets = []uint32{10, 11, 100, 126, 128, 169, 191, 192, 198, 203, 223, 1, 9}

func genPipe(rng *rand.Rand, boundary bool) *pipeCase {
	pc := &pipeCase{}
	np := 1 + rng.Intn(3)
	octs := rng.Perm(len(firstOctets))
	var free []uint32 // every configured address, pool by pool
	for i := 0; i < np; i++ {
		plen := plens[rng.Intn(len(plens))]
		if rng.Intn(4) == 0 {
			plen = 8 + rng.Intn(25)
		}
		vlan := vlans[rng.Intn(len(vlans))]
		if rng.Intn(5) == 0 {
			vlan = rng.Intn(4095)
		}
		if boundary && rng.Intn(3) == 0 {
			vlan = []int{4095, 65535, 32768}[rng.Intn(3)]
		}
		size := uint64(1) << uint(32-plen)
		base := (firstOctets[octs[i]]<<24 | uint32(rng.Int63())&0x00ffffff) &^ uint32(size-1)
		if boundary && i == 0 && rng.Intn(2) == 0 {
			// the top of the address space: x.255.255.y
			base = (firstOctets[octs[i]]<<24 | 0x00ffffff) &^ uint32(size-1)
		}
		p := poolSpec{Plen: plen, Base: base, Vlan: vlan}
		p.GW = base + uint32(uint64(rng.Int63())%size)
		if size > 2 && rng.Intn(2) == 0 {
			p.GW = base + 1
		}
		// 1-3 ranges of 1-3 addresses, ascending, not adjacent
		var off uint64
		if size > 16 {
			off = uint64(rng.Int63()) % (size - 14)
		}
		nr := 1 + rng.Intn(3)
		for j := 0; j < nr && off < size; j++ {
			ln := uint64(1 + rng.Intn(3))
			if off+ln > size {
				ln = size - off
			}
			p.Ranges = append(p.Ranges, [2]uint32{base + uint32(off), base + uint32(off+ln-1)})
			for a := off; a < off+ln; a++ {
				free = append(free, base+uint32(a))
			}
			off += ln + 1 + uint64(rng.Intn(3))
		}
		pc.Pools = append(pc.Pools, p)
	}
	// pods: ranged requests first (they name their addresses), then plain single-IP requests from what is left
	rng.Shuffle(len(free), func(i, j int) { free[i], free[j] = free[j], free[i] })
	npods := 2 + rng.Intn(4)
	idx := 0
	for i := 0; i < npods && len(free) > 0; i++ {
		k := 1 + rng.Intn(4)
		if rng.Intn(3) == 0 {
			k = 1
		}
		if k > len(free) {
			k = len(free)
		}
		pod := podSpec{Name: fmt.Sprintf("app%d-%d", i, rng.Intn(3))}
		if k == 1 && rng.Intn(2) == 0 {
			// plain request: one IP from anywhere; give up one free address
			free = free[1:]
			idx++
			pc.Pods = append(pc.Pods, pod)
			continue
		}
		for j := 0; j < k; j++ {
			a := free[0]
			free = free[1:]
			rs := [][2]uint32{{a, a}}
			// sometimes a second, already exhausted or foreign candidate range in front / behind
			if rng.Intn(4) == 0 {
				rs = append([][2]uint32{{a, a}}, [2]uint32{0x7f000001, 0x7f000002})
			}
			pod.Req = append(pod.Req, rs)
		}
		// partially pre-owned multi-range pods: every non-empty proper subset of the ranges is drawn with the same
		// probability; "a later range but not an earlier one" is forced in a third of the cases
		if k >= 2 && rng.Intn(5) < 3 {
			mask := 1 + rng.Intn((1<<uint(k))-2)
			if rng.Intn(3) == 0 {
				mask = 1 << uint(1+rng.Intn(k-1)) // exactly one later range
			}
			for j := 0; j < k; j++ {
				if mask&(1<<uint(j)) != 0 {
					pod.Pre = append(pod.Pre, j)
				}
			}
		}
		pc.Pods = append(pc.Pods, pod)
	}
	// plain requests must come after ranged ones, otherwise they could take a named address
	sort.SliceStable(pc.Pods, func(i, j int) bool { return len(pc.Pods[i].Req) > 0 && len(pc.Pods[j].Req) == 0 })
	pc.NetMode = []string{"default", "default", "eni", "ann-comma", "ann-json"}[rng.Intn(5)]
	pc.NNets = 1 + rng.Intn(3)
	if pc.NetMode == "eni" {
		pc.NNets = 1
	}
	pc.ReqArgs = []string{"kubelet", "kubelet", "kubelet-ws", "with-stale-ipinfos"}[rng.Intn(4)]
	pc.Recreate = len(pc.Pods) >= 2 && rng.Intn(3) == 0
	// reload with changed parameters of one or more pools (same ranges)
	if rng.Intn(5) < 2 {
		changed := false
		for _, p := range pc.Pools {
			q := p
			q.Ranges = append([][2]uint32(nil), p.Ranges...)
			if rng.Intn(3) != 0 {
				if rng.Intn(2) == 0 {
					q.Vlan = (p.Vlan + 1 + rng.Intn(4000)) % 4095
				}
				if rng.Intn(2) == 0 && p.Plen > 8 {
					// a wider subnet still holds the ranges and the gateway and stays inside the pool's own /8
					q.Plen = p.Plen - 1 - rng.Intn(minInt(4, p.Plen-8))
					q.Base = p.Base &^ uint32((uint64(1)<<uint(32-q.Plen))-1)
				}
				if rng.Intn(2) == 0 {
					size := uint64(1) << uint(32-q.Plen)
					q.GW = q.Base + uint32(uint64(rng.Int63())%size)
				}
				if q.Vlan != p.Vlan || q.Plen != p.Plen || q.GW != p.GW {
					changed = true
				}
			}
			pc.Reload = append(pc.Reload, q)
		}
		if !changed {
			pc.Reload[0].Vlan = (pc.Reload[0].Vlan + 7) % 4095
		}
	}
	return pc
}

type bindRecorder struct{ ann map[string]map[string]string }

func quietLogs() {
	fs := flag.NewFlagSet("klog", flag.ContinueOnError)
	klog.InitFlags(fs)
	fs.Set("logtostderr", "false")
	fs.Set("alsologtostderr", "false")
	fs.Set("stderrthreshold", "FATAL")
	klog.SetOutput(io.Discard)
}

func (v *env) runPipe(line string) {
	var pc pipeCase
	if err := json.Unmarshal([]byte(strings.TrimPrefix(line, "pipe ")), &pc); err != nil {
		v.r.Hit("bad-case-line")
		return
	}
	var conf schedulerplugin.Conf
	if err := json.Unmarshal([]byte(pc.confJSON()), &conf); err != nil {
		// the generator only produces configurations the decoder accepts; anything else is a generator bug, shown in the histogram
		v.r.Hit("pipe:conf-rejected")
		v.r.Extra["conf-rejected-example"] = err.Error() + " :: " + pc.confJSON()
		return
	}
	node := plugintesting.CreateNode(nodeName, nil, nodeIP)
	objs := []runtime.Object{&node}
	var pods []*corev1.Pod
	for i, ps := range pc.Pods {
		var ann map[string]string
		if len(ps.Req) > 0 {
			var lists []string
			for _, rs := range ps.Req {
				var q []string
				for _, r := range rs {
					q = append(q, `"`+rangeStr(r)+`"`)
				}
				lists = append(lists, "["+strings.Join(q, ",")+"]")
			}
			ann = map[string]string{constant.ExtendedCNIArgsAnnotation: `{"request_ip_range":[` + strings.Join(lists, ",") + `]}`}
		}
		pod := plugintesting.CreateStatefulSetPod(ps.Name, podNS, ann)
		pod.UID = types.UID(fmt.Sprintf("uid-%d", i))
		pods = append(pods, pod)
		objs = append(objs, pod)
	}
	var ctx *ipamcontext.IPAMContext
	var stop chan struct{}
	var plugin *schedulerplugin.FloatingIPPlugin
	var initErr error
	out := hx.Guard(60*time.Second, func() {
		ctx, stop = ipamcontext.CreateTestIPAMContext(objs, nil, nil)
		plugin, initErr = schedulerplugin.NewFloatingIPPlugin(conf, ctx)
		if initErr == nil {
			initErr = plugin.Init()
		}
	})
	if stop != nil {
		defer close(stop)
	}
	if out != "ok" || initErr != nil {
		v.r.Hit("pipe:plugin-init-failed")
		v.r.Extra["plugin-init-failed-example"] = fmt.Sprintf("%s %v :: %s", out, initErr, pc.confJSON())
		return
	}
	rec := map[string]map[string]string{}
	ctx.Client.(*fake.Clientset).PrependReactor("create", "pods", func(a k8stesting.Action) (bool, runtime.Object, error) {
		if a.GetSubresource() != "binding" {
			return false, nil, nil
		}
		b := a.(k8stesting.CreateAction).GetObject().(*corev1.Binding)
		rec[b.Name] = b.Annotations
		return true, b, nil
	})
	v.r.Hit(fmt.Sprintf("pipe:pools=%d", len(pc.Pools)))
	v.r.Hit("pipe:netmode=" + pc.NetMode)
	v.r.Hit("pipe:reqargs=" + pc.ReqArgs)

	// the galaxy daemon side, configured once per case
	jc := galaxy.JsonConf{DefaultNetworks: []string{"neta", "netb", "netc"}[:pc.NNets]}
	for _, n := range []string{"neta", "netb", "netc"} {
		jc.NetworkConf = append(jc.NetworkConf, map[string]interface{}{"name": n, "type": pluginType})
	}
	if pc.NetMode == "eni" {
		jc.ENIIPNetwork = "netc"
	}
	g, err := galaxy.VerifNewGalaxyWithConf(jc)
	if err != nil {
		v.r.Hit("pipe:galaxy-conf-rejected")
		return
	}
	// the daemon's API server: List / Get are consistent, the WATCH lags (no event is delivered during the case)
	gcli := fake.NewSimpleClientset()
	gcli.PrependWatchReactor("pods", func(a k8stesting.Action) (bool, watch.Interface, error) {
		return true, watch.NewFake(), nil
	})
	g.SetClient(gcli)
	var prevTruth []ax.Rec
	adds := 0
	if pc.Recreate {
		v.r.Hit("pipe:same-name-recreation-case")
	}

	phases := 1
	if len(pc.Reload) == len(pc.Pools) && len(pc.Reload) > 0 {
		phases = 2
	}
	sfx := ""
	for phase := 0; phase < phases; phase++ {
		if phase == 1 {
			// reload through the real decoder + ConfigurePool, as ensureIPAMConf does on a configmap change
			pc.Pools = pc.Reload
			var nconf schedulerplugin.Conf
			if err := json.Unmarshal([]byte(pc.confJSON()), &nconf); err != nil {
				v.r.Hit("pipe:reload-conf-rejected")
				v.r.Extra["reload-conf-rejected-example"] = err.Error() + " :: " + pc.confJSON()
				break
			}
			var rerr error
			o := hx.Guard(60*time.Second, func() { rerr = plugin.GetIpam().ConfigurePool(nconf.FloatingIPs) })
			if o != "ok" || rerr != nil {
				v.r.Hit("pipe:reload-failed")
				v.r.Extra["reload-failed-example"] = fmt.Sprintf("%s %v :: %s", o, rerr, pc.confJSON())
				break
			}
			v.r.Hit("pipe:reload")
			sfx = ":after-reload"
		}
		for pi, pod := range pods {
			ps := pc.Pods[pi]
			if phase == 1 {
				ps.Pre = nil // the pod holds all its ips now
				v.r.Hit("pipe:rebind-after-reload")
			}
			podLine := fmt.Sprintf("%s #pod=%d", line, pi)
			// the ips the pod already holds when it is bound
			preOK := true
			if len(ps.Pre) > 0 {
				kobj, _ := pluginutil.FormatKey(pod)
				isPre := map[int]bool{}
				for _, j := range ps.Pre {
					isPre[j] = true
					if j < 0 || j >= len(ps.Req) || len(ps.Req[j]) == 0 {
						preOK = false
						continue
					}
					var aerr error
					o := hx.Guard(30*time.Second, func() {
						aerr = plugin.GetIpam().AllocateSpecificIP(kobj.KeyInDB, ax.U32ToIP(ps.Req[j][0][0]),
							floatingip.Attr{Policy: constant.ReleasePolicyImmutable, NodeName: nodeName, Uid: string(pod.UID)})
					})
					if o != "ok" || aerr != nil {
						preOK = false
					}
				}
				held := "earlier-only"
				for _, j := range ps.Pre {
					for q := 0; q < j; q++ {
						if !isPre[q] {
							held = "later-but-not-earlier"
						}
					}
				}
				v.r.Hit("pipe:pre-owned:" + held)
				shapes := map[int]bool{}
				for j := range ps.Req {
					if p := pc.poolOf(ps.Req[j][0][0]); p != nil {
						shapes[p.Plen*100000+p.Vlan] = true
					}
				}
				if len(shapes) > 1 {
					v.r.Hit("pipe:pre-owned:ranges-in-pools-of-different-mask-or-vlan")
				}
			}
			if !preOK {
				v.r.Hit("pipe:pre-allocation-failed")
				continue
			}
			var bindErr error
			out := hx.Guard(60*time.Second, func() {
				bindErr = plugin.Bind(&schedulerapi.ExtenderBindingArgs{PodName: pod.Name, PodNamespace: pod.Namespace, PodUID: pod.UID, Node: nodeName})
			})
			if out != "ok" {
				v.violation("bind-"+strings.SplitN(out, ":", 2)[0], "Bind "+out, line)
				continue
			}
			if bindErr != nil {
				v.r.Hit("pipe:bind-error")
				if _, ok := v.r.Extra["bind-error-example"]; !ok {
					v.r.Extra["bind-error-example"] = bindErr.Error()
				}
				continue
			}
			annots := rec[pod.Name]
			annotation := annots[constant.ExtendedCNIArgsAnnotation]

			// ---- truth: the FloatingIP objects persisted for this pod + the generated pool they lie in
			keyObj, _ := pluginutil.FormatKey(pod)
			fips, err := ctx.GalaxyClient.GalaxyV1alpha1().FloatingIPs().List(context.TODO(), metav1.ListOptions{})
			if err != nil {
				v.r.Hit("pipe:list-error")
				continue
			}
			var mine []uint32
			for _, f := range fips.Items {
				if f.Spec.Key == keyObj.KeyInDB {
					if n, ok := ax.IPToU32(net.ParseIP(f.Name)); ok {
						mine = append(mine, n)
					}
				}
			}
			var truth []ax.Rec
			orderKnown := true
			if len(ps.Req) > 0 {
				// the i-th IP is the one persisted inside the i-th requested range list (lists are disjoint)
				for _, rs := range ps.Req {
					found := false
					for _, ip := range mine {
						for _, r := range rs {
							if r[0] <= ip && ip <= r[1] && !found {
								if p := pc.poolOf(ip); p != nil {
									truth = append(truth, ax.Rec{IP: ip, Plen: p.Plen, Vlan: p.Vlan, GW: p.GW})
									found = true
								}
							}
						}
					}
					if !found {
						orderKnown = false
					}
				}
			} else {
				for _, ip := range mine {
					if p := pc.poolOf(ip); p != nil {
						truth = append(truth, ax.Rec{IP: ip, Plen: p.Plen, Vlan: p.Vlan, GW: p.GW})
					}
				}
			}
			want := len(ps.Req)
			if want == 0 {
				want = 1
			}
			if !orderKnown || len(truth) != want || len(mine) != want {
				v.violation("ipam-persisted-set-unexpected", fmt.Sprintf("pod %s requested %d IPs, %d FloatingIP objects persisted (%v), %d matched the request",
					pod.Name, want, len(mine), mine, len(truth)), line)
				continue
			}
			v.r.Hit(fmt.Sprintf("pipe:ips-per-pod=%d", len(truth)))
			for _, t := range truth {
				v.r.Hit(fmt.Sprintf("pipe:plen=%d", t.Plen))
				switch {
				case t.Vlan == 0:
					v.r.Hit("pipe:vlan=0")
				case t.Vlan == 4094:
					v.r.Hit("pipe:vlan=4094")
				case t.Vlan > 4094:
					v.r.Hit("pipe:vlan>4094")
				default:
					v.r.Hit("pipe:vlan=1..4093")
				}
			}
			items := ax.ItemsSpaced(truth)

			// ---- stage: toFloatingIPInfo + MarshalCniArgs (the text galaxy-ipam writes for exactly these IPs)
			infos, err := plugin.GetIpam().ByKeyAndIPRanges(keyObj.KeyInDB, nil)
			if err == nil && len(infos) == len(truth) {
				byIP := map[uint32]constant.IPInfo{}
				for _, fi := range infos {
					if fi != nil && fi.IPInfo.IP != nil {
						if n, ok := ax.IPToU32(fi.IPInfo.IP.IP); ok {
							byIP[n] = fi.IPInfo
						}
					}
				}
				var ordered []constant.IPInfo
				for _, t := range truth {
					ordered = append(ordered, byIP[t.IP])
				}
				if txt, err := constant.MarshalCniArgs(ordered); err == nil {
					v.expect("annotation-text", podLine, "ann "+items, "ok "+ax.H(txt))
				}
			}

			// ---- stage: the daemon extracts common.* from the Binding's annotation
			gpod := pod.DeepCopy()
			gpod.Annotations = map[string]string{constant.ExtendedCNIArgsAnnotation: annotation}
			gname := pod.Name
			if pc.Recreate {
				gname = "samename-0"
			}
			gpod.Name = gname
			gpod.UID = types.UID(fmt.Sprintf("g-uid-%d-%d", phase, pi))
			gpod.ResourceVersion = ""
			gpod.Spec.NodeName = nodeName
			var ifNames []string
			switch pc.NetMode {
			case "ann-comma":
				names := []string{"netb", "neta@ifx1", "ns9/netc@ifx2"}[:pc.NNets]
				gpod.Annotations[constant.MultusCNIAnnotation] = strings.Join(names, ", ")
			case "ann-json":
				names := []string{`{"name":"netc"}`, `{"name":"neta","interface":"ifx1"}`, `{"name":"netb"}`}[:pc.NNets]
				gpod.Annotations[constant.MultusCNIAnnotation] = "[" + strings.Join(names, ",") + "]"
			}
			common, err := galaxy.VerifParseExtendedCNIArgs(gpod)
			if err != nil {
				v.violation("ipinfo-lost-or-changed:annotation-unreadable", "galaxy cannot read the annotation galaxy-ipam wrote: "+err.Error()+" :: "+annotation, line)
				continue
			}
			cm := map[string]string{}
			for k, raw := range common {
				cm[k] = string(raw)
			}
			v.expect("common", podLine, "common "+items, ax.MapLine(cm))

			// ---- stage: request from kubelet through the real request decoder
			cid := v.newCID()
			reqArgs := fmt.Sprintf("IgnoreUnknown=1;K8S_POD_NAMESPACE=%s;K8S_POD_NAME=%s;K8S_POD_INFRA_CONTAINER_ID=%s", pod.Namespace, gname, cid)
			switch pc.ReqArgs {
			case "kubelet-ws":
				reqArgs = fmt.Sprintf("IgnoreUnknown = 1; K8S_POD_NAMESPACE=%s ;K8S_POD_NAME= %s;;K8S_POD_INFRA_CONTAINER_ID=%s;", pod.Namespace, gname, cid)
			case "with-stale-ipinfos":
				reqArgs += `;ipinfos=[{"ip":"1.2.3.4/5","vlan":6,"gateway":"7.8.9.10"}]`
			}
			body, _ := json.Marshal(galaxyapi.CNIRequest{Env: map[string]string{"CNI_COMMAND": "ADD", "CNI_CONTAINERID": cid,
				"CNI_NETNS": "/proc/self/ns/net", "CNI_IFNAME": "eth0", "CNI_PATH": v.binDir, "CNI_ARGS": reqArgs}, Config: []byte("{}")})
			req, err := galaxyapi.CniRequestToPodRequest(body)
			if err != nil {
				v.r.Hit("pipe:request-rejected")
				continue
			}
			// the previous incarnation of the name is deleted, this one created; then the daemon looks the pod up itself
			gcli.CoreV1().Pods(gpod.Namespace).Delete(context.TODO(), gname, metav1.DeleteOptions{})
			if _, err := gcli.CoreV1().Pods(gpod.Namespace).Create(context.TODO(), gpod, metav1.CreateOptions{}); err != nil {
				v.r.Hit("pipe:daemon-side-create-failed")
				continue
			}
			var nis []*cniutil.NetworkInfo
			var rerr, aerr error
			var apod *corev1.Pod
			out = hx.Guard(60*time.Second, func() {
				apod, rerr = g.VerifGetPod(req.PodName, req.PodNamespace)
				if rerr == nil {
					nis, rerr = g.VerifResolveNetworks(req, apod)
				}
				if rerr == nil {
					_, aerr = g.VerifCmdAdd(req, apod)
				}
			})
			adds++
			if pc.Recreate && adds == 1 {
				// a lazily started cache (if the daemon has one) gets the time to fill itself from the current state
				time.Sleep(250 * time.Millisecond)
			}
			if out != "ok" {
				v.violation("cmdadd-"+strings.SplitN(out, ":", 2)[0], "galaxy cmdAdd "+out, line)
				v.dropState(cid)
				continue
			}
			if rerr != nil || aerr != nil {
				v.r.Hit("pipe:galaxy-cmdadd-error")
				v.violation("ipinfo-lost-or-changed:cmdadd-failed", fmt.Sprintf("galaxy cmdAdd failed: %v %v", rerr, aerr), line)
				v.dropState(cid)
				continue
			}
			for _, ni := range nis {
				ifNames = append(ifNames, ni.IfName)
				v.expect("network-args", podLine, "common "+items, ax.MapLine(ni.Args))
			}
			v.r.Hit(fmt.Sprintf("pipe:networks=%d", len(nis)))

			// ---- stage: what each delegate received; plugin-side decode with the plugins' own decoder
			var pipeOut []string
			prev := reqArgs
			for ni, ifn := range ifNames {
				got, ok := v.recorded(cid, ifn)
				if !ok {
					v.violation("ipinfo-lost-or-changed:delegate-not-invoked", fmt.Sprintf("network %d (%s): the delegate was not invoked", ni, ifn), line)
					pipeOut = nil
					break
				}
				es := ax.SortedEntries(nis[ni].Args)
				order := make([]int, len(es))
				for j := range order {
					order[j] = j
				}
				v.expect("acc", podLine, "acc "+ax.H(prev)+" "+ax.PermToken(order)+" "+ax.PairsTokens(es), "ok "+ax.H(got))
				prev = got
				var vl []uint16
				var results []interface{}
				var derr error
				out := hx.Guard(30*time.Second, func() {
					vids, res, err := cniipam.Allocate("", &skel.CmdArgs{Args: got, ContainerID: cid, IfName: ifn})
					vl, derr = vids, err
					for _, r := range res {
						results = append(results, r)
					}
				})
				if out != "ok" {
					v.violation("plugin-decode-"+strings.SplitN(out, ":", 2)[0], "cni/ipam.Allocate "+out+" on "+got, line)
					pipeOut = nil
					break
				}
				var decoded []ax.Rec
				verdict := ""
				if derr != nil {
					verdict = "error"
					if strings.Contains(derr.Error(), "neither ipInfo from cni args") {
						verdict = "fallback"
					} else if strings.Contains(derr.Error(), "empty ipInfos") {
						verdict = "empty"
					}
				} else {
					for i, r := range results {
						r20, ok := r.(*t020.Result)
						if !ok || r20.IP4 == nil {
							verdict = "error"
							break
						}
						a, ok1 := ax.IPToU32(r20.IP4.IP.IP)
						gw, ok2 := ax.IPToU32(r20.IP4.Gateway)
						ones, bits := r20.IP4.IP.Mask.Size()
						if !ok1 || !ok2 || bits != 32 {
							verdict = "error"
							break
						}
						decoded = append(decoded, ax.Rec{IP: a, Plen: ones, Vlan: int(vl[i]), GW: gw})
					}
					if verdict == "" {
						verdict = "ok " + ax.Items(decoded)
					}
				}
				v.expect("plugin-decode", podLine, "plugin "+ax.H(got), verdict)
				pipeOut = append(pipeOut, verdict)
				v.r.Case(fmt.Sprintf("%s|%d|%s", items, ni, pc.ReqArgs), len(decoded) > 0)

				// ---- MONITOR 1 (the property): what the plugin configures == what IPAM allocated and persisted
				if f := ax.DiffField(truth, decoded); f != "" && pc.Recreate && prevTruth != nil && ax.DiffField(prevTruth, decoded) == "" {
					v.violation("ipinfo-lost-or-changed:stale-pod", fmt.Sprintf("pod %s is the re-creation of a pod of the same name on this node: allocated and persisted for it %s, but the plugin decoded the PREVIOUS incarnation's %s (network %d, CNI_ARGS %q)",
						gname, ax.Items(truth), ax.Items(decoded), ni, got), line)
					continue
				}
				if f := ax.DiffField(truth, decoded); f != "" {
					v.violation("ipinfo-lost-or-changed:"+f+sfx, fmt.Sprintf("pod %s network %d (%s): allocated %s, plugin decoded %q from CNI_ARGS %q",
						pod.Name, ni, ifn, ax.Items(truth), verdict, got), line)
					continue
				}
				// ---- MONITOR 2: the same under the PUBLISHED wire format (separately built / third-party plugins)
				kv, _ := cniutil.ParseCNIArgs(got)
				pub, perr := ax.DecodePublished(lastIPInfos(got, kv))
				if perr != nil {
					v.violation("ipinfo-lost-or-changed:wire-format", fmt.Sprintf("pod %s network %d: the ipinfos argument does not follow the published format (doc/supported-cnis.md): %v :: %q",
						pod.Name, ni, perr, got), line)
				} else if f := ax.DiffField(truth, pub); f != "" {
					v.violation("ipinfo-lost-or-changed:wire-"+f+sfx, fmt.Sprintf("pod %s network %d: allocated %s, published-format reading gives %s from %q",
						pod.Name, ni, ax.Items(truth), ax.Items(pub), got), line)
				}
			}
			if pipeOut != nil {
				v.expect("pipeline", podLine, fmt.Sprintf("pipe %s %d %s", ax.H(reqArgs), len(ifNames), items), strings.Join(pipeOut, "|"))
				if len(v.r.Samples) < 3 {
					v.r.Sample(map[string]interface{}{"allocated": ax.Items(truth), "annotation": annotation, "networks": len(ifNames),
						"last_delegate_CNI_ARGS": prev, "plugin_decoded": pipeOut[len(pipeOut)-1]})
				}
			}
			prevTruth = truth
			v.dropState(cid)
		}
	}
}

// lastIPInfos: the value a plugin reads under the published key — independent of galaxy's constant (the key name is part
// of the published format: `ipinfos=`).
func lastIPInfos(args string, kv map[string]string) string {
	return kv["ipinfos"]
}

// ------------------------------------------------------------------------------------------------ driver

func (v *env) runLine(line string) {
	switch {
	case strings.HasPrefix(line, "codec"):
		v.runCodec(line)
	case strings.HasPrefix(line, "parse "):
		v.runParse(line)
	case strings.HasPrefix(line, "cmdadd "):
		v.runCmdAdd(line)
	case strings.HasPrefix(line, "pipe "):
		// a replay line may carry the "#pod=i" marker of the disagreeing pod; the whole configuration is re-run
		if i := strings.Index(line, " #pod="); i > 0 {
			line = line[:i]
		}
		v.runPipe(line)
	default:
		v.r.Hit("bad-case-line")
	}
}

func run(e *hx.Env) *hx.Report {
	quietLogs()
	r := hx.NewReport("C13", e.Tier, e.Seed, rule)
	v := &env{e: e, r: r}
	if err := v.setup(); err != nil {
		r.Extra["setup-error"] = err.Error()
		rp := e.WriteReplay("C13", "obligation", "setup-failed", []string{err.Error()}, nil)
		r.Disagree = append(r.Disagree, hx.Disagreement{Where: "setup", Impl: err.Error(), Model: "-", Replay: rp})
		return r
	}
	defer v.cleanup()

	if e.Replay != "" {
		ops, err := hx.ReadOps(e.Replay)
		if err != nil {
			r.Extra["replay-error"] = err.Error()
			return r
		}
		for _, l := range ops {
			v.runLine(l)
		}
		v.flush()
		r.Extra["replay"] = e.Replay
		return r
	}

	// 1. committed corpus
	root := os.Getenv("VERIF_ROOT")
	if root == "" {
		root = "/verif"
	}
	files, _ := filepath.Glob(filepath.Join(root, "corpus", "C13", "*.ops"))
	sort.Strings(files)
	for _, f := range files {
		ops, err := hx.ReadOps(f)
		if err != nil {
			continue
		}
		for _, l := range ops {
			r.Hit("corpus-line")
			v.runLine(l)
		}
	}
	v.flush()

	// 2. codec stream: maps (60 % from the valid alphabet)
	rng := e.Rng
	for i, n := 0, e.N(1500, 40000); i < n; i++ {
		m := genMap(rng, rng.Intn(10) < 6)
		v.runCodec("codec " + ax.PairsTokens(ax.SortedEntries(m)))
		if len(v.drvLines) > 4000 {
			v.flush()
		}
	}
	// 3. argument strings as a plugin might receive them, mostly separator soup
	for i, n := 0, e.N(1500, 40000); i < n; i++ {
		var b strings.Builder
		for j, k := 0, rng.Intn(7); j < k; j++ {
			if j > 0 || rng.Intn(5) == 0 {
				b.WriteString([]string{";", ";", ";", ";;", " ; ", ""}[rng.Intn(6)])
			}
			b.WriteString(genToken(rng, rng.Intn(2) == 0, true))
			if rng.Intn(6) != 0 {
				b.WriteString([]string{"=", "=", "==", " = "}[rng.Intn(4)])
				b.WriteString(genToken(rng, rng.Intn(2) == 0, false))
			}
		}
		v.runParse("parse " + ax.H(b.String()))
		if len(v.drvLines) > 4000 {
			v.flush()
		}
	}
	v.flush()
	// 4. CmdAdd accumulation with hand-made per-network maps through the recording delegate
	for i, n := 0, e.N(120, 2500); i < n; i++ {
		req := "IgnoreUnknown=1;K8S_POD_NAMESPACE=ns;K8S_POD_NAME=p"
		switch rng.Intn(5) {
		case 0:
			req = ""
		case 1:
			req += ";"
		case 2:
			req = genToken(rng, false, false) + ";" + genToken(rng, true, true) + "=" + genToken(rng, true, false)
		}
		req = strings.ReplaceAll(req, "\x00", "")
		toks := []string{"cmdadd", ax.H(req)}
		for j, k := 0, 1+rng.Intn(3); j < k; j++ {
			m := genMap(rng, rng.Intn(10) < 7)
			// environment variables cannot carry NUL; nothing else is excluded
			toks = append(toks, mapToken(m))
		}
		v.runCmdAdd(strings.Join(toks, " "))
	}
	v.flush()
	// 5. the pipeline
	for i, n := 0, e.N(30, 600); i < n; i++ {
		pc := genPipe(rng, i%5 == 4)
		b, _ := json.Marshal(pc)
		v.runPipe("pipe " + string(b))
		v.flush()
	}
	return r
}

func main() { hx.Main("C13", run) }

func minInt(a, b int) int {
	if a < b {
		return a
	}
	return b
}
