// Harness of property C15 (network-policy sync converges and leaves foreign rules alone).
//
// Histories: two cluster states A and B, a prior kernel state (empty / output of A / + junk with galaxy names /
// + foreign chains, rules and sets), and a way from A to B (restart, periodic resync only, or one event per changed
// object).  The REAL PolicyManager (hook constructor) runs over the STRICT iptables / ipset fakes of harness/nf.
//
//	monitor        the four clauses of C15 on the real dumps: exact (== what a sync from an empty kernel installs),
//	               idempotent, foreign untouched, no rule submission names a missing chain / set;
//	correspondence before every sync step the real prior dump is loaded into gxdrv_policy, the model's step runs,
//	               and its posterior state + failure classes must equal the real ones.
package main

import (
	"fmt"
	"os"
	"path/filepath"
	"sort"
	"strings"

	"gxverif/hx"
	"gxverif/policy"
)

const prop = "C15"

func root() string {
	if r := os.Getenv("VERIF_ROOT"); r != "" {
		return r
	}
	return "/verif"
}

func runOps(e *hx.Env, rep *hx.Report, name string, ops []string) (*policy.C15Run, error) {
	r := policy.NewC15Run(e, rep, prop, name)
	r.NoDriver = os.Getenv("C15_NODRIVER") != ""
	for _, l := range ops {
		if err := r.Exec(l); err != nil {
			return r, fmt.Errorf("%s: %v", l, err)
		}
	}
	r.Finish()
	return r, nil
}

func readFile(path string) (ops, expect []string, err error) {
	raw, err := os.ReadFile(path)
	if err != nil {
		return nil, nil, err
	}
	for _, l := range strings.Split(string(raw), "\n") {
		l = strings.TrimSpace(l)
		if strings.HasPrefix(l, "# expect=") {
			expect = append(expect, strings.TrimPrefix(l, "# expect="))
		}
		if l == "" || strings.HasPrefix(l, "#") {
			continue
		}
		ops = append(ops, l)
	}
	return
}

func run(e *hx.Env) *hx.Report {
	policy.ManyPorts = true // rules with 16-40 ports of one protocol: several iptables rules per policy rule
	rep := hx.NewReport(prop, e.Tier, e.Seed,
		"a history is nontrivial iff some full sync started from a kernel state that already held galaxy-owned sets or chains")
	if e.Replay != "" {
		ops, _, err := readFile(e.Replay)
		if err == nil {
			var r *policy.C15Run
			r, err = runOps(e, rep, "replay", ops)
			if r != nil {
				rep.Case(strings.Join(ops, "\n"), r.Nontriv)
				rep.Extra["replay_signatures"] = fmt.Sprint(r.Sigs)
			}
		}
		if err != nil {
			rep.Disagree = append(rep.Disagree, hx.Disagreement{Where: "replay-file", Model: err.Error(), Replay: e.Replay})
		}
		return rep
	}
	files, _ := filepath.Glob(filepath.Join(root(), "corpus", prop, "*.ops"))
	sort.Strings(files)
	for _, f := range files {
		base := strings.TrimSuffix(filepath.Base(f), ".ops")
		ops, expect, err := readFile(f)
		var r *policy.C15Run
		if err == nil {
			r, err = runOps(e, rep, "corpus-"+base, ops)
		}
		if err != nil {
			rep.Disagree = append(rep.Disagree, hx.Disagreement{Where: "corpus-file", Model: err.Error(), Replay: f})
			continue
		}
		rep.Case(strings.Join(ops, "\n"), r.Nontriv)
		rep.Hit("history:corpus")
		for _, sig := range expect {
			if r.Sigs[sig] > 0 {
				rep.Hit("known-finding-reproduced:" + sig)
			} else {
				rep.Hit("known-finding-NOT-reproduced:" + sig)
			}
		}
	}
	// ---- systematic: one failing `ipset create`, each set position, from empty and with existing policy chains
	fh := policy.FaultHistories()
	for _, name := range hx.SortedKeys(fh) {
		r, err := runOps(e, rep, name, fh[name])
		if err != nil {
			rep.Disagree = append(rep.Disagree, hx.Disagreement{Where: "fault-history", Model: err.Error()})
			continue
		}
		rep.Case(strings.Join(fh[name], "\n"), r.Nontriv)
		rep.Hit("history:fault-systematic")
	}
	// ---- systematic: a fresh process (no NetworkPolicy seen yet) over the leftovers of a previous one
	fr := policy.FreshHistories()
	for _, name := range hx.SortedKeys(fr) {
		r, err := runOps(e, rep, name, fr[name])
		if err != nil {
			rep.Disagree = append(rep.Disagree, hx.Disagreement{Where: "fresh-history", Model: err.Error()})
			continue
		}
		rep.Case(strings.Join(fr[name], "\n"), r.Nontriv)
		rep.Hit("history:fresh-systematic")
	}
	// ---- systematic: the same process syncs the same desired state twice, the kernel drifted in between
	dh := policy.DriftHistories()
	for _, name := range hx.SortedKeys(dh) {
		r, err := runOps(e, rep, name, dh[name])
		if err != nil {
			rep.Disagree = append(rep.Disagree, hx.Disagreement{Where: "drift-history", Model: err.Error()})
			continue
		}
		rep.Case(strings.Join(dh[name], "\n"), r.Nontriv)
		rep.Hit("history:drift-systematic")
	}
	// ---- systematic: pods whose name_namespace strings contain one another (what finds rules by text must not mix them)
	sh := policy.SubstringHistories()
	for _, name := range hx.SortedKeys(sh) {
		r, err := runOps(e, rep, name, sh[name])
		if err != nil {
			rep.Disagree = append(rep.Disagree, hx.Disagreement{Where: "substring-history", Model: err.Error()})
			continue
		}
		rep.Case(strings.Join(sh[name], "\n"), r.Nontriv)
		rep.Hit("history:substring-names-systematic")
	}
	n := e.N(120, 4000)
	for i := 0; i < n; i++ {
		ops := policy.GenHistory(e.Rng)
		r, err := runOps(e, rep, fmt.Sprintf("s%d-h%d", e.Seed, i), ops)
		if err != nil {
			rep.Disagree = append(rep.Disagree, hx.Disagreement{Where: "generated-history", Model: err.Error(),
				Replay: e.WriteReplay(prop, "history", fmt.Sprintf("s%d-h%d-bad", e.Seed, i), nil, ops)})
			continue
		}
		rep.Case(strings.Join(ops, "\n"), r.Nontriv)
		rep.Hit("history:generated")
		if manyPorts(ops) {
			rep.Hit("history:rule-with-more-than-15-ports")
		}
		if r.Nontriv {
			rep.Hit("history-nontrivial")
		}
		if i < 2 {
			rep.Sample(map[string]interface{}{"history": ops, "signatures": r.Sigs})
		}
	}
	return rep
}

// manyPorts: does some policy of the history carry a rule with more than 15 ports of one protocol (rendered as several
// iptables rules of at most 15 ports each)?
func manyPorts(ops []string) bool {
	for _, l := range ops {
		for _, w := range strings.Fields(l) {
			for _, part := range strings.Split(w, ";") {
				if at := strings.LastIndexByte(part, '@'); at >= 0 &&
					(strings.Count(part[at:], "tcp/") > 15 || strings.Count(part[at:], "udp/") > 15) {
					return true
				}
			}
		}
	}
	return false
}

func main() { hx.Main(prop, run) }
