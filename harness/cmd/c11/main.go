// gxh_c11: correspondence + monitor harness of property C11 (allocation keys are unambiguous and the API
// releases what it lists).
//
// Cases (one op line each; the same lines are the replay format):
//
//	pod <PodIn json>                 FormatKey / PoolPrefix / PoolAppPrefix / ParseKey / GetAppType(+Prefix) on a pod
//	pair <PodIn json> <PodIn json>   two pods (distinctness monitor)
//	key <json string>                ParseKey on an arbitrary string
//	newkey <json [tp,ns,app,pod,pool]>  NewKeyObj, then ParseKey of its key
//	kind <json string>               GetAppTypePrefix / GetAppType
//	num <json string>                ParsePage / ParseSize
//	pagin <page> <size> <len>        page.Pagination
//	paging <size> <len>              monitor only: pages 0..totalPages-1 of the real Pagination partition [0,len)
//	world <WorldSpec json>           real ListIPs / ReleaseIPs handlers on a real plugin + ipam (see harness/keys/world.go)
//
// Correspondence: every line sent to gxdrv_keys is compared with what the real code printed.
// Monitors: written from the property text, on the real code only (see the oracle comments below).
package main

import (
	"encoding/json"
	"fmt"
	"os"
	"path/filepath"
	"sort"
	"strconv"
	"strings"

	"gxverif/hx"
	"gxverif/keys"
)

const rule = "a case is nontrivial iff it reached the interesting code: pod/newkey cases whose key has at least 4 '_'-separated " +
	"fields, parse cases with a pool__ prefix or exactly 4 fields, kind cases outside the fixed tables, num cases that Atoi accepts, " +
	"pagin/paging cases with at least 2 pages, worlds in which at least 3 listed entries were released through the handler"

type caseRec struct {
	op         string
	first, n   int // driver lines [first, first+n)
	nontrivial bool
}

type run struct {
	e      *hx.Env
	rep    *hx.Report
	lines  []string
	want   []string
	checks map[int]func(string) (string, bool)
	cases  []caseRec
	sigs   map[string]bool
	// distinctness / injectivity over everything generated in this run
	podKeys   map[string]string // key -> "ns/name" + op
	podKeyOps map[string]string
	partsKeys map[string]string // key -> canonical WF parts
}

func (r *run) begin(op string) *caseRec {
	r.cases = append(r.cases, caseRec{op: op, first: len(r.lines)})
	return &r.cases[len(r.cases)-1]
}

func (r *run) emit(line, want string) {
	r.lines = append(r.lines, line)
	r.want = append(r.want, want)
}

func (r *run) end(c *caseRec, nontrivial bool) {
	c.n = len(r.lines) - c.first
	c.nontrivial = nontrivial
	r.rep.Case(c.op, nontrivial)
}

func (r *run) violation(sig, what string, ops []string) {
	name := "viol-" + sanitize(sig)
	if r.sigs[sig] {
		r.rep.Hit("violation-repeat." + sig)
		return
	}
	r.sigs[sig] = true
	p := r.e.WriteReplay("C11", kindOf(ops), name, []string{"signature=" + sig, "what=" + what}, ops)
	r.rep.Violations = append(r.rep.Violations, hx.Violation{Signature: sig, What: what, Replay: p, Ops: ops})
}

func kindOf(ops []string) string {
	if len(ops) > 0 && strings.HasPrefix(ops[0], "world ") {
		return "history"
	}
	return "input"
}

func sanitize(s string) string {
	var b strings.Builder
	for _, c := range s {
		if c >= 'a' && c <= 'z' || c >= 'A' && c <= 'Z' || c >= '0' && c <= '9' || c == '-' {
			b.WriteRune(c)
		} else {
			b.WriteByte('-')
		}
	}
	return b.String()
}

func js(v interface{}) string {
	b, _ := json.Marshal(v)
	return string(b)
}

func fields(key string) int { return strings.Count(key, "_") + 1 }

// ---------- case handlers

// oracle (property: "a key decodes back to the pod, app, namespace, app type and pool it was built from"):
// for DNS-1123 names and well-formed kinds, ParseKey(FormatKey(pod).KeyInDB) has the fields FormatKey put in, the
// namespace / pod / pool are the pod's own, and the app type survives GetAppType → GetAppTypePrefix.
func (r *run) doPod(p keys.PodIn, op string) {
	c := r.begin(op)
	real, ko := keys.RealFormat(p)
	r.emit(p.Line(), real)
	if kind, has := p.Kind(); has {
		r.emit("atp "+keys.Enc(kind), keys.RealATP(kind))
		r.rep.Hit("pod.kind." + keys.KindClass(kind))
	} else {
		r.rep.Hit("pod.kind.none")
	}
	if ko == nil {
		r.rep.Hit("pod.format." + real)
		r.end(c, false)
		return
	}
	r.rep.Hit("pod.format.ok")
	if p.Pool != "" {
		r.rep.Hit("pod.pool")
		if strings.Contains(p.Pool, "_") {
			r.rep.Hit("pod.pool-underscore")
		}
	}
	parsed, pk := keys.RealParse(ko.KeyInDB)
	r.emit("parse "+keys.Enc(ko.KeyInDB), parsed)
	r.emit("at "+keys.Enc(ko.AppTypePrefix), keys.RealAT(ko.AppTypePrefix))
	for _, pre := range []string{ko.PoolPrefix(), ko.PoolAppPrefix()} {
		s, _ := keys.RealParse(pre)
		r.emit("parse "+keys.Enc(pre), s)
	}
	if p.KindsWF() && pk != nil {
		feature := ""
		if strings.Contains(p.Pool, "_") {
			feature = "pool-name-underscore"
		}
		if *pk != *ko || ko.Namespace != p.NS || ko.PodName != p.Name || ko.PoolName != p.Pool {
			sig := feature
			if sig == "" {
				sig = "key-does-not-decode"
			}
			r.violation(sig, fmt.Sprintf("FormatKey gives %q (type %q ns %q app %q pod %q pool %q) but ParseKey reads type %q ns %q app %q pod %q pool %q",
				ko.KeyInDB, ko.AppTypePrefix, ko.Namespace, ko.AppName, ko.PodName, ko.PoolName,
				pk.AppTypePrefix, pk.Namespace, pk.AppName, pk.PodName, pk.PoolName), []string{op})
		}
		at := unenc(strings.TrimPrefix(keys.RealAT(ko.AppTypePrefix), "="))
		if back := keys.RealATP(at); at == "" || back != keys.Enc(ko.AppTypePrefix) {
			kind, has := p.Kind()
			owner := "no owner"
			if has {
				owner = fmt.Sprintf("owner kind %q", kind)
			}
			r.violation("apptype-not-invertible", fmt.Sprintf("pod %s/%s with %s: FormatKey uses app type prefix %q (key %q); GetAppType lists it as %q; "+
				"GetAppTypePrefix(%q) gives %q, not %q, so the listed entry cannot be released", p.NS, p.Name, owner, ko.AppTypePrefix, ko.KeyInDB,
				at, at, unenc(strings.TrimPrefix(back, "=")), ko.AppTypePrefix), []string{op})
		}
	}
	// oracle ("a key decodes back to the ... app type ... it was built from"), independent of the model: the two
	// built-in app types may only be reached from their documented owner kinds (and the tables' own short words);
	// every other kind must decode to itself, lower-cased.
	if kind, has := p.Kind(); has && p.KindsWF() {
		at := unenc(strings.TrimPrefix(keys.RealAT(ko.AppTypePrefix), "="))
		lk := strings.ToLower(kind)
		okKinds := map[string][]string{"statefulset": {"statefulset", "statefulsets", "sts"}, "deployment": {"deployment", "replicaset", "dp"}}
		if al, builtin := okKinds[at]; builtin {
			found := false
			for _, a := range al {
				if a == lk {
					found = true
				}
			}
			if !found {
				r.violation("apptype-decodes-to-other-kind", fmt.Sprintf("pod %s/%s with owner kind %q: key %q decodes to app type %q, which is not the kind it was built from "+
					"(it now shares the app prefix %q with a real %s of the same name)", p.NS, p.Name, kind, ko.KeyInDB, at, ko.PoolAppPrefix(), at), []string{op})
			}
		} else if kind != "NULL" && at != lk {
			r.violation("apptype-decodes-to-other-kind", fmt.Sprintf("pod %s/%s with owner kind %q: key %q decodes to app type %q", p.NS, p.Name, kind, ko.KeyInDB, at), []string{op})
		}
	}
	// oracle ("distinct pods always map to distinct allocation keys"): any kinds, any pool
	id := p.NS + "/" + p.Name
	if prev, ok := r.podKeys[ko.KeyInDB]; ok && prev != id {
		r.violation("key-collision", fmt.Sprintf("pods %s and %s both map to key %q", prev, id, ko.KeyInDB),
			[]string{"pair " + strings.TrimPrefix(r.podKeyOps[ko.KeyInDB], "pod ") + " " + strings.TrimPrefix(op, "pod ")})
	} else if !ok {
		r.podKeys[ko.KeyInDB] = id
		r.podKeyOps[ko.KeyInDB] = op
	}
	r.end(c, fields(ko.KeyInDB) >= 4)
}

func unenc(s string) string {
	var b strings.Builder
	for i := 0; i < len(s); i++ {
		if s[i] == '%' && i+2 < len(s) {
			n, _ := strconv.ParseUint(s[i+1:i+3], 16, 8)
			b.WriteByte(byte(n))
			i += 2
		} else {
			b.WriteByte(s[i])
		}
	}
	return b.String()
}

func (r *run) doKey(s string) {
	op := "key " + js(s)
	c := r.begin(op)
	out, _ := keys.RealParse(s)
	r.emit("parse "+keys.Enc(s), out)
	r.emit("convert "+keys.Enc(s), realConvert(s))
	r.end(c, strings.HasPrefix(s, "pool__") || fields(s) == 4)
}

// realConvert: what api.convert derives from a key (ParseKey + GetAppType), printed like the driver's `convert`.
func realConvert(key string) string {
	_, k := keys.RealParse(key)
	if k == nil {
		return "panic"
	}
	return fmt.Sprintf("ns%s app%s pod%s pool%s appType%s", keys.Enc(k.Namespace), keys.Enc(k.AppName), keys.Enc(k.PodName),
		keys.Enc(k.PoolName), keys.RealAT(k.AppTypePrefix))
}

func noUS(s string) bool { return !strings.Contains(s, "_") }

// oracle (parse_format / format_injective): well-formed parts round-trip through NewKeyObj → ParseKey, and two
// different well-formed part tuples never share a key.
func (r *run) doNewKey(parts [5]string) {
	tp, ns, app, pod, pool := parts[0], parts[1], parts[2], parts[3], parts[4]
	op := "newkey " + js(parts)
	c := r.begin(op)
	out, ko := keys.RealNewKey(tp, ns, app, pod, pool)
	r.emit(fmt.Sprintf("newkey %s %s %s %s %s", keys.Enc(tp), keys.Enc(ns), keys.Enc(app), keys.Enc(pod), keys.Enc(pool)), out)
	if ko == nil {
		r.end(c, false)
		return
	}
	ps, pk := keys.RealParse(ko.KeyInDB)
	r.emit("parse "+keys.Enc(ko.KeyInDB), ps)
	wf := noUS(ns) && noUS(app) && noUS(pod) && noUS(pool)
	if app == "" {
		wf = wf && tp == "" && ns == "" && pod == ""
	} else {
		wf = wf && ns != "" && strings.HasSuffix(tp, "_") && noUS(strings.TrimSuffix(tp, "_"))
	}
	shape := "empty"
	switch {
	case app == "" && pool != "":
		shape = "poolprefix"
	case app != "" && pool != "" && pod == "":
		shape = "poolappprefix"
	case app != "" && pool != "":
		shape = "poolpod"
	case app != "" && pod == "":
		shape = "appprefix"
	case app != "":
		shape = "pod"
	}
	if wf {
		r.rep.Hit("newkey.wf." + shape)
		if pk == nil || pk.AppTypePrefix != tp || pk.Namespace != ns || pk.AppName != app || pk.PodName != pod || pk.PoolName != pool {
			r.violation("parts-do-not-roundtrip", fmt.Sprintf("NewKeyObj%v gives %q which parses to %s", parts, ko.KeyInDB, ps), []string{op})
		}
		canon := js(parts)
		if prev, ok := r.partsKeys[ko.KeyInDB]; ok && prev != canon {
			r.violation("format-not-injective", fmt.Sprintf("parts %s and %s share the key %q", prev, canon, ko.KeyInDB),
				[]string{"newkey " + prev, op})
		} else {
			r.partsKeys[ko.KeyInDB] = canon
		}
	} else {
		r.rep.Hit("newkey.free." + shape)
	}
	r.end(c, fields(ko.KeyInDB) >= 4)
}

// oracle (apptype_roundtrip): for an ASCII kind, GetAppTypePrefix(GetAppType(GetAppTypePrefix(kind))) = GetAppTypePrefix(kind).
func (r *run) doKind(kind string) {
	op := "kind " + js(kind)
	c := r.begin(op)
	tp := keys.RealATP(kind)
	r.emit("atp "+keys.Enc(kind), tp)
	at := keys.RealAT(unenc(strings.TrimPrefix(tp, "=")))
	r.emit("at "+tp, at)
	r.emit("at "+keys.Enc(kind), keys.RealAT(kind))
	back := keys.RealATP(unenc(strings.TrimPrefix(at, "=")))
	if back != tp {
		r.violation("apptype-not-invertible", fmt.Sprintf("kind %q: GetAppTypePrefix(%q) = %q; GetAppType lists that prefix as %q; GetAppTypePrefix(%q) = %q, "+
			"not the prefix the key was built with", kind, kind, unenc(strings.TrimPrefix(tp, "=")), unenc(strings.TrimPrefix(at, "=")),
			unenc(strings.TrimPrefix(at, "=")), unenc(strings.TrimPrefix(back, "="))), []string{op})
	}
	r.rep.Hit("kind." + keys.KindClass(kind))
	r.end(c, keys.KindClass(kind) != "table-alias" && keys.KindClass(kind) != "StatefulSet" && keys.KindClass(kind) != "ReplicaSet")
}

// oracle ("size ≥ 1 always", page in [0, 99999]): for every string.
func (r *run) doNum(s string) {
	op := "num " + js(s)
	c := r.begin(op)
	pp, ps := keys.RealParsePage(s), keys.RealParseSize(s)
	r.emit("ppage "+keys.Enc(s), pp)
	r.emit("psize "+keys.Enc(s), ps)
	p, err1 := strconv.Atoi(pp)
	z, err2 := strconv.Atoi(ps)
	if err1 != nil || err2 != nil || p < 0 || p > 99999 || z < 1 || z > 9999 {
		r.violation("parse-clamp", fmt.Sprintf("ParsePage(%q)=%s ParseSize(%q)=%s outside [0,99999] / [1,9999]", s, pp, s, ps), []string{op})
	}
	n, aerr := strconv.Atoi(s)
	switch {
	case s == "":
		r.rep.Hit("num.empty")
	case aerr != nil:
		r.rep.Hit("num.atoi-error")
	case n < 0:
		r.rep.Hit("num.negative")
	case n == 0:
		r.rep.Hit("num.zero")
	case n > 99999:
		r.rep.Hit("num.above-page-cap")
	case n > 9999:
		r.rep.Hit("num.above-size-cap")
	default:
		r.rep.Hit("num.in-range")
		if p != n || z != n {
			r.violation("parse-clamp", fmt.Sprintf("ParsePage(%q)=%s ParseSize(%q)=%s for an in-range number", s, pp, s, ps), []string{op})
		}
	}
	r.end(c, aerr == nil && s != "")
}

func (r *run) doPagin(pg, size, n int) {
	op := fmt.Sprintf("pagin %d %d %d", pg, size, n)
	c := r.begin(op)
	out, _, _, _ := keys.RealPagination(pg, size, n)
	r.emit(op, out)
	if size == 0 {
		r.rep.Hit("pagin.div0")
	} else if size < 0 || pg < 0 {
		r.rep.Hit("pagin.negative")
	} else if pg*size >= n {
		r.rep.Hit("pagin.past-end")
	} else {
		r.rep.Hit("pagin.inside")
	}
	r.end(c, size > 0 && n > size)
}

// oracle ("paging through the list shows every element exactly once"): walking pages 0..TotalPages-1 of the real
// Pagination, the [start,end) intervals are adjacent, start at 0, end at len; flags and counts are what they say.
func (r *run) doPaging(size, n int) {
	op := fmt.Sprintf("paging %d %d", size, n)
	c := r.begin(op)
	defer func() { r.end(c, size > 0 && n > size) }()
	if size < 1 {
		return
	}
	_, _, _, p0 := keys.RealPagination(0, size, n)
	if p0 == nil {
		r.violation("pagination-panic", fmt.Sprintf("Pagination(0,%d,%d) panicked", size, n), []string{op})
		return
	}
	total := p0.TotalPages
	if total != (n+size-1)/size {
		r.violation("total-pages", fmt.Sprintf("size=%d len=%d: TotalPages=%d", size, n, total), []string{op})
	}
	next := 0
	step := 1
	if total > 5000 {
		step = total / 2500 // sample the middle of very long walks, always check both ends
	}
	for p := 0; p < total; p++ {
		if step > 1 && p > 100 && p < total-100 && p%step != 0 {
			next = (p + 1) * size
			continue
		}
		_, st, en, pg := keys.RealPagination(p, size, n)
		if pg == nil || st != next || en <= st || en > n || en-st > size || pg.NumberOfElements != en-st ||
			pg.First != (p == 0) || pg.Last != (p == total-1) || pg.Number != p || pg.TotalElements != n || pg.Size != size {
			r.violation("pages-not-partition", fmt.Sprintf("size=%d len=%d page=%d: start=%d end=%d (expected start %d) page=%+v", size, n, p, st, en, next, pg),
				[]string{op, fmt.Sprintf("pagin %d %d %d", p, size, n)})
			return
		}
		next = en
	}
	if next != n {
		r.violation("pages-not-partition", fmt.Sprintf("size=%d len=%d: pages end at %d", size, n, next), []string{op})
	}
	// the page clamp: beyond page 99999 ParsePage answers 99999 (documented); count how often it bites
	if total > 100000 {
		r.rep.Hit("paging.clamp-bites")
	}
	r.rep.Hit("paging.walk")
}

func (r *run) doWorld(spec keys.WorldSpec, shrink bool) {
	op := "world " + js(spec)
	c := r.begin(op)
	res := keys.RunWorld(spec, r.rep)
	base := len(r.lines)
	for i := range res.Lines {
		r.emit(res.Lines[i], res.Want[i])
	}
	for _, pc := range res.Checks {
		r.checks[base+pc.Idx] = pc.Fn
	}
	if res.Err != "" {
		r.rep.Hit("world.harness-error")
		r.violation("world-failed", "the HTTP scenario could not be played: "+res.Err, []string{op})
	}
	r.rep.Traces++
	r.rep.Hit("world")
	for _, v := range res.Viol {
		ops := []string{op}
		if shrink && !r.sigs[v.Sig] {
			if small, ok := shrinkWorld(spec, v.Sig, r.rep); ok {
				ops = []string{"world " + js(small)}
			}
		}
		r.violation(v.Sig, v.What, ops)
	}
	released := 0
	for _, w := range res.Want {
		if w == "released" {
			released++
		}
	}
	r.end(c, released >= 3)
}

// shrinkWorld: the smallest sub-population (one record, else two) on the smallest pool that still shows the signature.
func shrinkWorld(spec keys.WorldSpec, sig string, rep *hx.Report) (keys.WorldSpec, bool) {
	scratch := hx.NewReport("C11", "", 0, "")
	try := func(recs []keys.RecSpec) (keys.WorldSpec, bool) {
		s := keys.WorldSpec{NIPs: len(recs) + 1, Sizes: []string{"", "1"}, Pages: 0, Batch: spec.Batch, Regions: spec.Regions}
		for i, r := range recs {
			r.IPIdx = i
			s.Recs = append(s.Recs, r)
		}
		for _, v := range keys.RunWorld(s, scratch).Viol {
			if v.Sig == sig {
				return s, true
			}
		}
		return s, false
	}
	if spec.Regions == 3 {
		// ordering defects need ips in all regions, not records: try the bare pool first
		s := keys.WorldSpec{NIPs: spec.NIPs, Sizes: spec.Sizes, Pages: spec.Pages, Regions: 3}
		for _, v := range keys.RunWorld(s, scratch).Viol {
			if v.Sig == sig {
				return s, true
			}
		}
	}
	for _, r := range spec.Recs {
		if s, ok := try([]keys.RecSpec{r}); ok {
			rep.Hit("world.shrunk-to-1")
			return s, true
		}
	}
	if len(spec.Recs) <= 12 || strings.HasPrefix(sig, "batch-") {
		for i := range spec.Recs {
			for j := i + 1; j < len(spec.Recs); j++ {
				if s, ok := try([]keys.RecSpec{spec.Recs[i], spec.Recs[j]}); ok {
					rep.Hit("world.shrunk-to-2")
					return s, true
				}
			}
		}
	}
	return spec, false
}

// ---------- dispatch of op lines (corpus and replay)

func (r *run) doOp(op string, shrink bool) error {
	sp := strings.SplitN(op, " ", 2)
	arg := ""
	if len(sp) == 2 {
		arg = sp[1]
	}
	switch sp[0] {
	case "pod":
		var p keys.PodIn
		if err := json.Unmarshal([]byte(arg), &p); err != nil {
			return err
		}
		r.doPod(p, op)
	case "pair":
		dec := json.NewDecoder(strings.NewReader(arg))
		var a, b keys.PodIn
		if err := dec.Decode(&a); err != nil {
			return err
		}
		if err := dec.Decode(&b); err != nil {
			return err
		}
		r.doPod(a, "pod "+js(a))
		r.doPod(b, "pod "+js(b))
	case "key":
		var s string
		if err := json.Unmarshal([]byte(arg), &s); err != nil {
			return err
		}
		r.doKey(s)
	case "newkey":
		var parts [5]string
		if err := json.Unmarshal([]byte(arg), &parts); err != nil {
			return err
		}
		r.doNewKey(parts)
	case "kind":
		var s string
		if err := json.Unmarshal([]byte(arg), &s); err != nil {
			return err
		}
		r.doKind(s)
	case "num":
		var s string
		if err := json.Unmarshal([]byte(arg), &s); err != nil {
			return err
		}
		r.doNum(s)
	case "pagin":
		var a, b, c int
		if _, err := fmt.Sscanf(arg, "%d %d %d", &a, &b, &c); err != nil {
			return err
		}
		r.doPagin(a, b, c)
	case "paging":
		var a, b int
		if _, err := fmt.Sscanf(arg, "%d %d", &a, &b); err != nil {
			return err
		}
		r.doPaging(a, b)
	case "world":
		var w keys.WorldSpec
		if err := json.Unmarshal([]byte(arg), &w); err != nil {
			return err
		}
		r.doWorld(w, shrink)
	default:
		// replay files of kind=obligation carry JSON lines, not ops
		if strings.HasPrefix(op, "{") {
			return nil
		}
		return fmt.Errorf("unknown op %q", sp[0])
	}
	return nil
}

// flush pipes all collected lines through gxdrv_keys and records disagreements.
func (r *run) flush() {
	out, err := r.e.RunDriver("keys", r.lines)
	if err != nil && len(out) != len(r.lines) {
		p := r.e.WriteReplay("C11", "obligation", "driver-failed", []string{err.Error()}, nil)
		r.rep.Disagree = append(r.rep.Disagree, hx.Disagreement{Where: "gxdrv_keys", Index: -1, Impl: "", Model: err.Error(), Replay: p})
		return
	}
	ci := 0
	reported := map[int]bool{}
	for i := range r.lines {
		for ci < len(r.cases) && i >= r.cases[ci].first+r.cases[ci].n {
			ci++
		}
		impl, ok := r.want[i], out[i] == r.want[i]
		if f, has := r.checks[i]; has {
			impl, ok = f(out[i])
		}
		if ok {
			continue
		}
		r.rep.Hit("disagreement." + strings.SplitN(r.lines[i], " ", 2)[0])
		if ci >= len(r.cases) || reported[ci] || len(r.rep.Disagree) >= 20 {
			continue
		}
		reported[ci] = true
		c := r.cases[ci]
		p := r.e.WriteReplay("C11", "input", fmt.Sprintf("disagree-%d", len(r.rep.Disagree)),
			[]string{"driver line: " + r.lines[i], "impl:  " + impl, "model: " + out[i]}, []string{c.op})
		r.rep.Disagree = append(r.rep.Disagree, hx.Disagreement{Where: strings.SplitN(r.lines[i], " ", 2)[0], Index: i - c.first,
			Impl: impl, Model: out[i], Replay: p, Ops: []string{r.lines[i]}})
	}
}

// ---------- generation

func (r *run) generate() {
	e, rng := r.e, r.e.Rng
	// (a1) pods of every owner shape: well-formed stream, free-text pools, malformed kinds / owner lists
	for i := 0; i < e.N(3000, 60000); i++ {
		p := keys.RandomPod(rng, i%3 == 0, i%5 == 4)
		r.doPod(p, "pod "+js(p))
	}
	// near-collision stream: tiny alphabets so that equal fields across pods are the norm
	small := []string{"a", "b", "a-b", "a.b", "a-0"}
	pools := []string{"", "", "p", "a", "a_b", "a_sts_a_a"}
	kinds := [][]string{nil, {"StatefulSet", "a"}, {"ReplicaSet", "a-b"}, {"ReplicaSet", "a"}, {"TApp", "a"}, {"NULL", "a"}, {"Pool", "a"}, {"a", "a-b"}}
	for i := 0; i < e.N(800, 6000); i++ {
		p := keys.PodIn{NS: small[rng.Intn(len(small))], Name: small[rng.Intn(len(small))], Pool: pools[rng.Intn(len(pools))]}
		if k := kinds[rng.Intn(len(kinds))]; k != nil {
			p.Owners = [][]string{{k[0], k[1]}}
		}
		r.doPod(p, "pod "+js(p))
	}
	// (a2) arbitrary key strings
	for i := 0; i < e.N(600, 6000); i++ {
		r.doKey(keys.RandomKeyString(rng))
	}
	// (a3) key shapes: exhaustive over the small name alphabet in the thorough tier, sampled in the quick tier
	types := []string{"sts_", "dp_", "NULL_", "tapp_"}
	names := keys.SmallNames
	withEmpty := append([]string{""}, names...)
	if e.Thorough() {
		for _, tp := range types {
			for _, ns := range names {
				for _, app := range names {
					for _, pod := range withEmpty {
						for _, pool := range withEmpty {
							r.doNewKey([5]string{tp, ns, app, pod, pool})
						}
					}
				}
			}
		}
		r.rep.Exhaustive = true
	} else {
		for i := 0; i < 600; i++ {
			r.doNewKey([5]string{types[rng.Intn(4)], names[rng.Intn(len(names))], names[rng.Intn(len(names))],
				withEmpty[rng.Intn(len(withEmpty))], withEmpty[rng.Intn(len(withEmpty))]})
		}
	}
	for _, pool := range withEmpty {
		r.doNewKey([5]string{"", "", "", "", pool})
	}
	// free tuples (empty fields, '_' inside fields): correspondence only
	free := []string{"", "", "a", "b-0", "a_b", "_", "sts_", "dp_", "pool", "pool__", "x_"}
	for i := 0; i < e.N(600, 6000); i++ {
		var t [5]string
		for j := range t {
			t[j] = free[rng.Intn(len(free))]
		}
		r.doNewKey(t)
	}
	// (a4) kinds
	for _, k := range []string{"StatefulSet", "ReplicaSet", "Deployment", "NULL", "Null", "null", "TApp", "statefulsets", "STATEFULSET",
		"replicaset", "deployment", "sts", "dp", "pool", "", "_", "A_B", "Job", "DaemonSet", "a-b", "X9", "nULL", "NULL_", "NUL"} {
		r.doKind(k)
	}
	for i := 0; i < e.N(300, 3000); i++ {
		r.doKind(keys.RandomKind(rng))
	}
	// (a5) ParsePage / ParseSize
	for _, s := range keys.NumStrings {
		r.doNum(s)
	}
	for i := 0; i < e.N(600, 8000); i++ {
		r.doNum(keys.RandomNumString(rng))
	}
	// (a6) Pagination: exhaustive small scope (both tiers: it is cheap), then random over the full clamp range
	for n := 0; n <= 12; n++ {
		for size := -1; size <= 5; size++ {
			for pg := -1; pg <= 6; pg++ {
				r.doPagin(pg, size, n)
			}
		}
		for size := 1; size <= 5; size++ {
			r.doPaging(size, n)
		}
	}
	for i := 0; i < e.N(400, 5000); i++ {
		size := []int{1, 2, 3, 7, 10, 50, 9998, 9999, 1 + rng.Intn(9999)}[rng.Intn(9)]
		n := []int{0, 1, size - 1, size, size + 1, 2*size + 1, rng.Intn(500), rng.Intn(200000)}[rng.Intn(8)]
		if n < 0 {
			n = 0
		}
		pg := []int{0, 1, n / size, n/size + 1, 99999, rng.Intn(100000)}[rng.Intn(6)]
		r.doPagin(pg, size, n)
		if i%4 == 0 {
			r.doPaging(size, n)
		}
	}
	r.doPaging(1, 100001) // the documented clamp case
	r.doPaging(9999, 120000)
	// (b) the HTTP handlers
	// small worlds: every page/size choice (exhaustive paging over the real handler: len ≤ 12, size ≤ 5, page ≤ 6)
	allSizes := []string{"", "1", "2", "3", "4", "5", "0", "-1", "abc", "9999", "10000"}
	for i := 0; i < e.N(8, 120); i++ {
		nips := 1 + rng.Intn(12)
		if e.Thorough() && i < 12 {
			nips = i + 1
		}
		r.doWorld(randomWorld(r, nips, rng.Intn(nips+1), allSizes, 0), true)
	}
	// pools spread over three address regions (both tiers): the order of the list must be one total order, and the
	// page walks must agree with it whatever the map iteration order was
	for _, nips := range []int{6, 9, 12} {
		for rep := 0; rep < e.N(2, 6); rep++ {
			w := randomWorld(r, nips, nips-1, []string{"", "1", "2", "4"}, 0)
			w.Regions = 3
			r.doWorld(w, true)
		}
	}
	// the kind zoo over HTTP (both tiers): one record per zoo kind, with and without a pool, every entry posted back
	// verbatim / with one-field variants / in multi-entry requests
	for part := 0; part < 2; part++ {
		spec := keys.WorldSpec{NIPs: len(keys.KindZoo) + 3, Sizes: []string{""}, Pages: 0, Batch: 3}
		for i, k := range keys.KindZoo {
			p := keys.PodIn{NS: "ns" + strconv.Itoa(i%3), Name: "w" + strconv.Itoa(i) + "-0", Owners: [][]string{{k, "w" + strconv.Itoa(i)}}}
			if (i+part)%3 == 0 {
				p.Pool = "p" + strconv.Itoa(i%2)
			}
			spec.Recs = append(spec.Recs, keys.RecSpec{Pod: p, Shape: "pod", IPIdx: i, Policy: uint16(i % 3), Live: part == 1 && i%11 == 0})
		}
		r.doWorld(spec, true)
	}
	for _, k := range keys.KindZoo {
		r.doKind(k)
	}
	// larger worlds: populations of every kind
	for i := 0; i < e.N(10, 600); i++ {
		nips := 20 + rng.Intn(e.N(40, 120))
		r.doWorld(randomWorld(r, nips, 5+rng.Intn(e.N(20, 45)), []string{"", "1", "7", strconv.Itoa(1 + rng.Intn(nips))}, 6), true)
	}
}

func randomWorld(r *run, nips, nrecs int, sizes []string, pages int) keys.WorldSpec {
	rng := r.e.Rng
	spec := keys.WorldSpec{NIPs: nips, Sizes: sizes, Pages: pages, Batch: 2 + rng.Intn(3)}
	if rng.Intn(3) == 0 {
		spec.Regions = 3
	}
	perm := rng.Perm(nips)
	used := map[string]bool{}
	nss := []string{"ns1", "ns2", "a", keys.Label(rng, 5)}
	for i := 0; i < nrecs && i < nips; i++ {
		p := keys.RandomPod(rng, rng.Intn(4) == 0, false)
		if rng.Intn(2) == 0 {
			p.NS = nss[rng.Intn(len(nss))]
		}
		rs := keys.RecSpec{Pod: p, Shape: "pod", IPIdx: perm[i], Policy: uint16(rng.Intn(3)), Live: rng.Intn(8) == 0}
		switch x := rng.Intn(10); {
		case x == 0 && p.Pool == "":
			rs.Shape = "appprefix"
		case x == 1 && p.Pool != "":
			rs.Shape = "poolprefix"
		case x == 2 && p.Pool != "":
			rs.Shape = "poolappprefix"
		}
		id := p.NS + "/" + p.Name
		if rs.Shape == "pod" {
			if used[id] {
				continue
			}
			used[id] = true
		} else {
			rs.Live = false
			if rng.Intn(3) == 0 && i+1 < nips && i+1 < nrecs {
				// a second ip under the same prefix key
				spec.Recs = append(spec.Recs, rs)
				i++
				rs.IPIdx = perm[i]
			}
		}
		spec.Recs = append(spec.Recs, rs)
	}
	return spec
}

func runAll(e *hx.Env) *hx.Report {
	keys.QuietLogs()
	r := &run{e: e, rep: hx.NewReport("C11", e.Tier, e.Seed, rule), checks: map[int]func(string) (string, bool){},
		sigs: map[string]bool{}, podKeys: map[string]string{}, podKeyOps: map[string]string{}, partsKeys: map[string]string{}}
	if e.Replay != "" {
		ops, err := hx.ReadOps(e.Replay)
		if err != nil {
			r.violation("replay-unreadable", err.Error(), nil)
			return r.rep
		}
		for _, op := range ops {
			if err := r.doOp(op, false); err != nil {
				r.violation("replay-unreadable", fmt.Sprintf("%q: %v", op, err), nil)
			}
		}
		r.flush()
		r.rep.Extra["replayed"] = e.Replay
		return r.rep
	}
	root := os.Getenv("VERIF_ROOT")
	if root == "" {
		root = "/verif"
	}
	files, _ := filepath.Glob(filepath.Join(root, "corpus", "C11", "*.ops"))
	sort.Strings(files)
	for _, f := range files {
		ops, err := hx.ReadOps(f)
		if err != nil {
			continue
		}
		for _, op := range ops {
			if err := r.doOp(op, false); err != nil {
				r.violation("corpus-unreadable", fmt.Sprintf("%s: %q: %v", f, op, err), nil)
			}
			r.rep.Hit("corpus-op")
		}
	}
	r.generate()
	r.flush()
	for _, c := range r.cases {
		if len(r.rep.Samples) < 5 && c.nontrivial && (strings.HasPrefix(c.op, "pod ") || strings.HasPrefix(c.op, "pagin ")) &&
			len(c.op) < 300 && c.n > 0 {
			r.rep.Sample(map[string]interface{}{"op": c.op, "driver_line": r.lines[c.first], "impl_and_model": r.want[c.first]})
		}
	}
	r.rep.Extra["driver_lines"] = len(r.lines)
	return r.rep
}

func main() { hx.Main("C11", runAll) }
